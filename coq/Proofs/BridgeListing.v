(* Bridge C05 <-> C03/C06/C18: the per-property model of listings (Model/Listing.v: the pager of
   ociclient over nextListResults / makeNextLink of ociserver, iterators as push functions, the
   list URL reduced to the pair (n, last)) AGREES WITH the line-by-line composition
   (Model/Client.v [pager] over Model/Stack.v [serve_stack] over Model/Server.v
   [handle_tags_list] / [handle_catalog_list], URLs as text).

   What is proved (every theorem for all inputs in the stated domain; nothing by sampling):

     pager_trace_erase  [pager_trace] is Listing.pager_loop that also returns the requests it sent.
     bridge_link_text   Server.make_next_link on the text of ANY request of Listing.v (n present,
                        absent, negative; last absent, empty, any byte string) and any next start
                        point is "<path?" ++ text of Listing.makeNextLink ++ ">;rel=next".
     bridge_nextListResults
                        Server.next_list_results = Listing.nextListResults for every ListN, every
                        item list, with or without a final error, every option set: same items,
                        same Link text, same error, same (unreachable) panic.
     bridge_link_header / bridge_next_request
                        the Link header Client.v reads is the text of Listing.v's Link; the next
                        request Client.next_link builds from it (or from its initial request when
                        there is none) is Listing.nextLink of it, as the server reads it.
     bridge_pager       for every fuel, start point, consumer budget, page size, server options
                        (MaxListPageSize that admits the page size, Link header on or off) and
                        every backend listing without an error (arbitrary per start point):
                        Client.pager over serve_stack makes the same yield calls, ends the same
                        way (done / panic / out of fuel) and sends the same page requests - the
                        query text of the k-th request on the wire is [wq_text] of the k-th
                        (n, last) pair Listing.v's pager sends, and the server hands the same
                        start point to the backend - as Listing.pager over Listing.handleList.
     bridge_every_consumer
                        Client.v has only the budget consumers; its yields against the one that
                        never declines fix what Listing.pager does against EVERY consumer.
     bridge_pager_e     the same over a backend whose iterators may end with an error: items and
                        final error agree ([wire] = the line-by-line error hop seen through the
                        two error vocabularies).
     bridge_refused     the page size the server refuses: one request, one error on both sides,
                        code UNSUPPORTED.
     bridge_Tags / bridge_Repositories (and _e, _refused)
                        the same for [stack_call (CTags ..)] / [stack_call (CRepositories ..)].
     C05_pager_complete_Tags / _Repositories
                        C05's pager completeness theorem restated on the composed model.
     page_size_agrees / page_size_default_refuted
                        the one place the two models differ (a negative ListPageSize).
     bridge_example / bridge_example_e
                        the hypotheses are satisfiable (concrete JSON of Obs/StackRun.v, names full
                        of URL metacharacters; a backend that fails).

   Hypotheses, as in Proofs/StackListingB.v: valid repository name, start point and items byte
   strings, items not empty, page size granted and a Go int, page documents shorter than 2^63
   bytes, the JSON round trip (Section hypotheses; Proofs/StackJson.v discharges them for the
   runner's encoder), a backend that listing does not change.  NOT asked: sortedness or any
   relation between the listings from two start points (C03's [pages_well] suffix property).

   Compared with StackListingB.pager_ok / transparent_Tags_ok: those cover only the consumer that
   never declines and need fuel > len (listing); C05_pager_complete_Tags covers every budget with
   fuel >= len l / n + 2 but asks the backend to list a strictly sorted l cut at the start point.
   On sorted listings, budget None and fuel > len l both apply and say the same; neither implies
   the other (pages_well admits unsorted listings with the suffix property). *)
From Coq Require Import String Sorted.
From OCI Require Import Base.BytesSort Base.Sorted Model.Stack Proofs.Request Proofs.StackBase Proofs.StackDesc Proofs.StackDot.
From OCI Require Import Model.RequestCodecSpec Proofs.RequestCodec Proofs.StackTransparent Proofs.StackQuery.
From OCI Require Import Proofs.StackListing.
From OCI Require Proofs.StackListingB.
From OCI Require Base.Seq Model.Listing Proofs.Seq Proofs.Listing Props.C05.
From OCI Require Obs.StackRun Proofs.StackJson.

Module Sq := OCI.Base.Seq.
Module SqP := OCI.Proofs.Seq.
Module L := OCI.Model.Listing.
Module LP := OCI.Proofs.Listing.
Module SB := OCI.Proofs.StackListingB.

Local Open Scope Z_scope.

(* ================================================================ the per-property side *)

(* The consumer Model/Client.v gives its iterators, as a consumer of Base/Seq.v: it keeps the
   calls it received and a budget; budget = Some k: the (k+1)-th call is answered "stop",
   None: never.  (By C05_pager_protocol the pager of Listing.v is a represented iterator, so
   what it does against ANY consumer is determined by the position of the first "stop": the
   budgets are all the consumers there are, as far as the iterator can tell.) *)
Definition budget_y {E : Type} : Sq.consumer E bytes (list (bytes + E) * option nat) :=
  fun v st =>
    match snd st with
    | Some O => ((fst st ++ [v], Some O), false)
    | Some (S k) => ((fst st ++ [v], Some k), true)
    | None => ((fst st ++ [v], None), true)
    end.

Lemma slice_budget {E : Type} (items : list bytes) : forall (a : list (bytes + E)) bud,
  Sq.slice_loop items budget_y (a, bud)
  = let '(ys, bud', cont) := yield_items items bud in ((a ++ map inl ys, bud'), cont).
Proof.
  induction items as [|x items IH]; intros a bud; cbn [Sq.slice_loop yield_items].
  - cbn [map]. now rewrite app_nil_r.
  - unfold budget_y at 1. cbn [fst snd]. destruct bud as [[|k]|].
    + reflexivity.
    + rewrite IH. destruct (yield_items items (Some k)) as [[ys b'] c]. cbn [map].
      rewrite <- app_assoc. reflexivity.
    + rewrite IH. destruct (yield_items items None) as [[ys b'] c]. cbn [map].
      rewrite <- app_assoc. reflexivity.
Qed.

(* Listing.pager_loop, also returning the requests it sent (oldest first) *)
Fixpoint pager_trace (wire : err -> err) (fuel : nat) (srv : L.wquery -> L.lresp) (initialN : Z)
         (req : L.wquery) (S : Type) (y : Sq.consumer err bytes S) (st : S)
  : S * L.pstatus * list L.wquery :=
  match fuel with
  | O => (st, L.POutOfFuel, [])
  | Datatypes.S fuel' =>
      match srv req with
      | L.LR_panic => (fst (y (inr L.transport_error) st), L.PDone, [req])
      | L.LR_err e => (fst (y (inr (wire e)) st), L.PDone, [req])
      | L.LR_ok items link =>
          let (s1, ok) := Sq.slice_loop items y st in
          if negb ok then (s1, L.PDone, [req])
          else if (Z.of_nat (length items) <? initialN)%Z then (s1, L.PDone, [req])
          else match L.last_opt items with
               | None => (s1, L.PPanic, [req])
               | Some l =>
                   let '(s2, p, rs) := pager_trace wire fuel' srv initialN (L.nextLink link initialN l) S y s1 in
                   (s2, p, req :: rs)
               end
      end
  end.

(* ... and it is Listing.pager_loop when the requests are forgotten *)
Lemma pager_trace_erase wire fuel srv initialN : forall req S (y : Sq.consumer err bytes S) st,
  fst (pager_trace wire fuel srv initialN req S y st) = L.pager_loop wire fuel srv initialN req S y st.
Proof.
  induction fuel as [|fuel IH]; intros req S y st; cbn [pager_trace L.pager_loop]; [reflexivity|].
  destruct (srv req) as [items link|e|]; try reflexivity.
  destruct (Sq.slice_loop items y st) as [s1 ok]. destruct (negb ok); [reflexivity|].
  destruct (Z.of_nat (length items) <? initialN)%Z; [reflexivity|].
  destruct (L.last_opt items) as [l|]; [|reflexivity].
  rewrite <- IH. destruct (pager_trace wire fuel srv initialN (L.nextLink link initialN l) S y s1) as [[s2 p] rs].
  reflexivity.
Qed.

(* the requests of a run of Listing.pager *)
Definition pager_requests (wire : err -> err) (fuel : nat) (srv : L.wquery -> L.lresp) (n : Z) (start : bytes)
           (S : Type) (y : Sq.consumer err bytes S) (st : S) : list L.wquery :=
  snd (pager_trace wire fuel srv n (L.listParams n start) S y st).

Lemma pager_trace_run wire fuel srv n start S (y : Sq.consumer err bytes S) st :
  fst (pager_trace wire fuel srv n (L.listParams n start) S y st) = L.pager_run wire fuel srv n start S y st.
Proof. apply pager_trace_erase. Qed.

(* how the ends of an iteration are named on the two sides *)
Definition pend_of (p : L.pstatus) : pend :=
  match p with L.PDone => PDone | L.PPanic => PPanic | L.POutOfFuel => PFuel end.

(* a yield call of Listing.v as a yield call of Client.v, given what an error looks like there *)
Definition up (ue : err -> gerr) (v : bytes + err) : bytes + gerr :=
  match v with inl x => inl x | inr e => inr (ue e) end.

Lemma map_up_inl ue (l : list bytes) : map (up ue) (map inl l) = map inl l.
Proof. rewrite map_map. reflexivity. Qed.

(* the text of the query (n, last) stands for: url.Values{n, last}.Encode() *)
Definition wq_values (q : L.wquery) : values :=
  match L.wq_n q with Some k => [(k_n, dec_Z k)] | None => [] end ++
  match L.wq_last q with Some l => [(k_last, l)] | None => [] end.
Definition wq_text (q : L.wquery) : bytes := values_encode (wq_values q).

Lemma wq_text_listParams n s0 : 0 <= n -> wq_text (L.listParams n s0) = lq (dec_Z n) s0.
Proof.
  intros Hn. unfold wq_text, wq_values, L.listParams. cbn [L.wq_n L.wq_last].
  destruct (Z.geb_spec n 0); [|lia]. rewrite <- (lq_encode _ _ (dec_digits n Hn)).
  destruct s0; reflexivity.
Qed.

Lemma makeNextLink_listParams n s0 last : 0 <= n -> last <> [] ->
  L.makeNextLink (L.listParams n s0) last = L.listParams n last.
Proof.
  intros Hn Hl. unfold L.makeNextLink, L.listParams. cbn [L.wq_n L.wq_last].
  destruct last; [congruence | reflexivity].
Qed.

Lemma last_opt_rev {A} (l : list A) :
  L.last_opt l = match rev l with [] => None | x :: _ => Some x end.
Proof.
  destruct l as [|a l] using rev_ind; [reflexivity|].
  rewrite LP.last_opt_app, rev_app_distr. reflexivity.
Qed.

Lemma map_en_req_add_read i k log : map en_req (add_read i k log) = map en_req log.
Proof.
  revert i. induction log as [|e log IH]; intros i; [destruct i; reflexivity|].
  destruct i; cbn [add_read map en_req]; [reflexivity|]. now rewrite IH.
Qed.

(* ================================================================ the Link header, every request *)

(* makeNextLink on the two sides, for EVERY request of Listing.v (n present or absent, negative,
   zero or positive; last absent, empty or any byte string - URL metacharacters included) and
   every next start point (empty or any string): ociserver's makeNextLink applied to the text of
   q is "<path?" ++ the text of Listing.makeNextLink q ++ ">;rel=next". *)
Definition wq_wf (q : L.wquery) : Prop :=
  match L.wq_last q with Some l => byte_list l = true | None => True end.

Lemma dec_Z_unreserved z : forallb unreserved (dec_Z z) = true.
Proof.
  destruct z as [|p|p]; cbn [dec_Z]; [reflexivity| |].
  - destruct (dec_N_spec (N.pos p)) as (D & _). exact (proj1 (digits_safe _ D)).
  - destruct (dec_N_spec (N.pos p)) as (D & _). cbn [forallb]. now rewrite (proj1 (digits_safe _ D)).
Qed.

Lemma values_set_last q last : wq_wf q ->
  qset k_last last (fst (parse_query (wq_text q))) = wq_values (L.makeNextLink q last).
Proof.
  unfold wq_wf, wq_text, wq_values, L.makeNextLink. cbn [L.wq_n L.wq_last].
  destruct q as [[k|] [l|]]; cbn [L.wq_n L.wq_last]; intros Hl.
  - (* n and last *)
    pose proof (dec_Z_unreserved k) as U.
    assert (S : forallb safe (dec_Z k) = true) by (eapply forallb_impl; [|exact U]; exact unreserved_safe).
    pose proof (query_escape_roundtrip _ Hl) as Hrt. pose proof (query_escape_alpha _ Hl) as Hal.
    change (values_encode ([(k_n, dec_Z k)] ++ [(k_last, l)]))
      with ((k_last ++ 61%N :: query_escape l) ++ 38%N :: k_n ++ 61%N :: query_escape (dec_Z k)).
    rewrite (query_escape_plain _ U).
    rewrite (parse_query_two k_last (query_escape l) k_last l k_n (dec_Z k) k_n (dec_Z k));
      try lit_notin; try solve [apply (safe_not_in (dec_Z k)); auto 10];
      try solve [apply (esc_not_in (query_escape l)); auto]; try reflexivity; auto.
    now apply unescape_safe.
  - (* n only *)
    pose proof (dec_Z_unreserved k) as U.
    assert (S : forallb safe (dec_Z k) = true) by (eapply forallb_impl; [|exact U]; exact unreserved_safe).
    change (values_encode ([(k_n, dec_Z k)] ++ [])) with (k_n ++ 61%N :: query_escape (dec_Z k)).
    rewrite (query_escape_plain _ U).
    rewrite (parse_query_one k_n (dec_Z k) k_n (dec_Z k));
      try lit_notin; try solve [apply (safe_not_in (dec_Z k)); auto 10]; try reflexivity.
    now apply unescape_safe.
  - (* last only *)
    pose proof (query_escape_roundtrip _ Hl) as Hrt. pose proof (query_escape_alpha _ Hl) as Hal.
    change (values_encode ([] ++ [(k_last, l)])) with (k_last ++ 61%N :: query_escape l).
    rewrite (parse_query_one k_last (query_escape l) k_last l);
      try lit_notin; try solve [apply (esc_not_in (query_escape l)); auto]; try reflexivity; auto.
  - reflexivity.
Qed.

Theorem bridge_link_text m p q last : wq_wf q ->
  make_next_link (plain_req m p (wq_text q)) last
  = 60%N :: (path_escape_mode p ++ 63%N :: wq_text (L.makeNextLink q last)) ++ s ">;rel=""next""".
Proof.
  intros Hq. unfold make_next_link. cbn [hq_path hq_rawquery plain_req]. change (s "last") with k_last.
  rewrite (values_set_last q last Hq). unfold wq_text. rewrite <- app_assoc. reflexivity.
Qed.

(* the requests of Listing.v's pager are of that kind when the start point and the items are *)
Lemma wq_wf_listParams n s0 : byte_list s0 = true -> wq_wf (L.listParams n s0).
Proof. intros H. unfold wq_wf, L.listParams. cbn [L.wq_last]. destruct s0; [exact I | exact H]. Qed.

(* Listing.nextLink on a page without a Link is Listing.listParams: what Client.next_link builds
   with_last *)
Lemma nextLink_none n last : L.nextLink None n last = L.listParams n last.
Proof. reflexivity. Qed.

(* ociserver's error for n > MaxListPageSize (the numbers in its text are not modelled) *)
Definition E_big : gerr := Wire (W (std_code SUnsupported) (s "query parameter n is too large") None).

(* ================================================================ one listing, both models *)

Section Bridge.
  Variable linked : alg -> bool.
  Variable hash : bytes -> bytes -> bytes.
  Variable subject_of : bytes -> option (option bytes).
  Variable media : bytes -> bytes.
  Variable enc : jval -> bytes.
  Variable dec_errors : bytes -> option (list werr).
  Variable dec_names : bool -> bytes -> option (list bytes).
  Variable dec_index : bytes -> option (list desc).
  Variable redirect : bytes -> bytes -> bytes * bytes.
  Variable B : Type.
  Variable bstep : backend B.
  Variable o : opts.
  Variable cc : ccfg.

  Notation serve := (serve_stack linked hash subject_of enc redirect bstep o).
  Notation env := (stack_env linked hash media dec_errors dec_names dec_index).
  Notation shandle := (server_handle linked hash subject_of enc redirect B bstep o).
  Notation W := (world (srv B)).
  Notation client_ := (stack_client cc).

  (* ---- the listing (as in Proofs/StackListingB.v) ---- *)
  Variable K : Http.kind.
  Variable repo : bytes.
  Variable mkop : bytes -> op.                  (* the backend call for a start point *)
  Variable mkj : list bytes -> jval.            (* the document for a page *)
  Variable tagsflag : bool.
  Variable R : bytes -> request.                (* what the server's parser returns for a start point *)
  Variable ctail : bytes.                       (* the path after "/v2/" *)

  Notation n := (SB.n cc).
  Notation N := (SB.N cc).
  Notation q_of := (SB.q_of cc K repo).
  Notation cpath := (SB.cpath ctail).
  Notation cquery := (SB.cquery cc).
  Notation page_request := (SB.page_request cc ctail).

  Hypothesis HK : K = Http.ReqTagsList \/ K = Http.ReqCatalogList.
  Hypothesis Hsafe : forallb safe ctail = true.
  Hypothesis Hdot : dot_free cpath = true.
  Hypothesis Hconstruct : forall s0, construct (req_of (q_of s0)) = (m_GET, cpath ++ optq (cquery s0)).
  Hypothesis Hparse : forall s0, byte_list s0 = true -> parse_req linked m_GET cpath (cquery s0) = Ok (R s0).
  Hypothesis HR_n : forall s0, q_listn (R s0) = n.
  Hypothesis Hemit : forall bb req s0 b' v items link,
    parse_req linked (hq_method req) (hq_path req) (hq_rawquery req) = Ok (R s0) ->
    bstep bb (mkop s0) = (b', Ok v) ->
    next_list_results o req (R s0) (items_of v, iter_err_of v) = Ok (items, link) ->
    shandle bb req = (b', [ECall (mkop s0) (Ok v)],
                      Ok (mkresp 200 (list_hdrs (enc (mkj items)) link None) (enc (mkj items)) (Some (mkj items)))).
  Hypothesis Hdec : forall items, dec_names tagsflag (enc (mkj items)) = Some items.

  (* the backend: listing does not change it and does not fail; what it lists from each start
     point is ARBITRARY (not necessarily sorted, not necessarily the same listing from two start
     points) but for: the items can be written into a URL and are not empty *)
  Variable b : B.
  Variable full : bytes -> list bytes.
  Notation page_items := (SB.page_items cc full).
  Hypothesis Hback : forall s0, bstep b (mkop s0) = (b, Ok (VList (full s0) None)).
  Hypothesis Hitems : forall s0 x, In x (full s0) -> x <> [] /\ byte_list x = true.
  Hypothesis Hsmall : forall s0, blen (enc (mkj (SB.page_items cc full s0))) <= max_int64.

  (* ---- the same listing in the vocabulary of Model/Listing.v ---- *)
  Variable wire : err -> err.                       (* Listing.v: an error after it crossed HTTP *)
  Variable ue : err -> gerr.                        (* how an error of Listing.v is written in Client.v *)
  Variable backL : bytes -> Sq.Seq err bytes.       (* the backend's iterator for a start point *)
  Hypothesis HbackL : forall s0, Sq.represents (backL s0) (full s0) None.

  Definition so : L.sopts := {| L.so_max := o_max_list_page_size o; L.so_omit_link := o_omit_link o |}.
  Notation srvL := (L.handleList so backL).

  (* the backend call ociserver makes for a request of Listing.v *)
  Definition ev_of (q : L.wquery) : ev :=
    ECall (mkop (snd (L.setListQueryParams q))) (Ok (VList (full (snd (L.setListQueryParams q))) None)).

  (* a request of Client.v is the request [q] of Listing.v: same path, the query is the text of q *)
  Definition same_request (rc : Http.hreq) (q : L.wquery) : Prop :=
    to_server_req rc = Ok (plain_req MGet cpath (wq_text q)).

  Lemma n_pos : 1 <= n.
  Proof. apply SB.n_pos. Qed.

  Lemma page_request_same rc s0 : page_request rc s0 -> same_request rc (L.listParams n s0).
  Proof.
    intros (H & _ & _). unfold same_request. rewrite wq_text_listParams by (pose proof n_pos; lia). exact H.
  Qed.

  Lemma ev_of_listParams s0 :
    ev_of (L.listParams n s0) = ECall (mkop s0) (Ok (VList (full s0) None)).
  Proof. unfold ev_of. rewrite LP.setListQueryParams_listParams by (pose proof n_pos; lia). reflexivity. Qed.

  Section Granted.
  (* the server grants the page size *)
  Hypothesis Hmax : (0 <? o_max_list_page_size o) && (o_max_list_page_size o <? n) = false.

  Lemma Hacc : ((L.so_max so >? 0) && (n >? L.so_max so))%Z = false.
  Proof. cbn [so L.so_max]. rewrite !Z.gtb_ltb. exact Hmax. Qed.

  (* ociserver's page for the request (n, s0) in Listing.v: the same items as in Server.v, and a
     Link that makes the client ask for (n, last) next *)
  Lemma L_page s0 : exists linkL,
    srvL (L.listParams n s0) = L.LR_ok (page_items s0) linkL /\
    forall last, L.last_opt (page_items s0) = Some last -> last <> [] ->
                 L.nextLink linkL n last = L.listParams n last.
  Proof.
    pose proof n_pos as Hn. unfold L.handleList. rewrite LP.setListQueryParams_listParams by lia.
    rewrite (LP.nextListResults_page so _ n (backL s0) (full s0) None (HbackL s0)) by (lia || exact Hacc).
    unfold LP.page_resp. change (Z.to_nat n) with N.
    destruct (Nat.leb_spec (length (full s0)) N) as [Hle|Hgt].
    - exists None. split; [|reflexivity]. unfold SB.page_items. now rewrite firstn_all2 by lia.
    - cbn [so L.so_omit_link]. destruct (o_omit_link o); cbn [negb].
      + exists None. split; reflexivity.
      + destruct (L.last_opt (firstn N (full s0))) as [l|] eqn:El.
        * eexists. split; [reflexivity|]. intros last Hl Hne. unfold SB.page_items in Hl. rewrite El in Hl.
          injection Hl as ->. cbn [L.nextLink]. apply makeNextLink_listParams; [lia | exact Hne].
        * exfalso. destruct (LP.last_opt_nonempty (firstn N (full s0))) as (a & x & _ & E); [|congruence].
          pose proof (SB.N_pos cc). destruct (full s0); [cbn in Hgt; lia|]. destruct N; [lia | discriminate].
  Qed.

  (* reading the page leaves the server and the requests of the log alone *)
  Lemma parse_names_world r (w1 : W) :
    w_srv (fst (parse_names (srv B) env tagsflag r w1)) = w_srv w1 /\
    map en_req (w_log (fst (parse_names (srv B) env tagsflag r w1))) = map en_req (w_log w1).
  Proof. unfold parse_names, read_all. cbn [fst w_srv w_log]. now rewrite map_en_req_add_read. Qed.

  Variable start : bytes.

  Lemma after_nil (v : srv B) : after B v (sv_b v) [] = v.
  Proof. destruct v. unfold after. cbn. now rewrite app_nil_r. Qed.

  Lemma after_after (v : srv B) b1 b2 t1 t2 : after B (after B v b1 t1) b2 t2 = after B v b2 (t1 ++ t2).
  Proof. unfold after. cbn. now rewrite app_assoc. Qed.

  (* ---------------------------------------------------------- the Link header of a page, both sides *)

  (* the Link of Listing.v's page for (n, s0) *)
  Definition linkL_of (s0 : bytes) : option L.wquery :=
    if SB.page_cut cc full s0 && negb (o_omit_link o)
    then option_map (L.makeNextLink (L.listParams n s0)) (L.last_opt (page_items s0))
    else None.

  Lemma L_page_link s0 : srvL (L.listParams n s0) = L.LR_ok (page_items s0) (linkL_of s0).
  Proof.
    pose proof n_pos as Hn. unfold L.handleList. rewrite LP.setListQueryParams_listParams by lia.
    rewrite (LP.nextListResults_page so _ n (backL s0) (full s0) None (HbackL s0)) by (lia || exact Hacc).
    unfold LP.page_resp, linkL_of, SB.page_cut. change (Z.to_nat n) with N.
    destruct (Nat.leb_spec (length (full s0)) N) as [Hle|Hgt].
    - destruct (Nat.ltb_spec N (length (full s0))); [lia|]. cbn [andb].
      unfold SB.page_items. now rewrite firstn_all2 by lia.
    - destruct (Nat.ltb_spec N (length (full s0))); [|lia]. cbn [andb so L.so_omit_link].
      destruct (o_omit_link o); cbn [negb]; [reflexivity|]. unfold SB.page_items.
      destruct (L.last_opt (firstn N (full s0))) as [l|] eqn:El; [reflexivity|].
      exfalso. destruct (LP.last_opt_nonempty (firstn N (full s0))) as (a & x & _ & E); [|congruence].
      pose proof (SB.N_pos cc). destruct (full s0); [cbn in Hgt; lia|]. destruct N; [lia | discriminate].
  Qed.

  (* bridge_link_header.  The Link header Client.v reads off the composed server's page is the
     text of the Link of Listing.v's page (none when Listing.v has none) - for every start point
     that is a byte string: "&", "=", "%", "+", "?", "#", ">", blanks and non-ASCII bytes included. *)
  Theorem bridge_link_header rc s0 (w : W) : byte_list s0 = true ->
    rheader h_link (got B w rc (SB.page_resp enc o cc mkj ctail full s0))
    = match linkL_of s0 with
      | None => []
      | Some ql => 60%N :: (cpath ++ 63%N :: wq_text ql) ++ s ">;rel=""next"""
      end.
  Proof.
    intros Hb. rewrite SB.page_link_header. unfold SB.page_link, linkL_of.
    destruct (SB.page_cut cc full s0 && negb (o_omit_link o)); [|reflexivity].
    rewrite last_opt_rev. destruct (rev (page_items s0)) as [|last rest]; [reflexivity|]. cbn [option_map].
    rewrite <- (path_escape_safe cpath) at 2 by (unfold SB.cpath; now rewrite forallb_app, v2_safe, Hsafe).
    rewrite <- (bridge_link_text MGet cpath (L.listParams n s0) last (wq_wf_listParams n s0 Hb)).
    rewrite wq_text_listParams by (pose proof n_pos; lia). reflexivity.
  Qed.

  (* bridge_next_request.  After a full page both clients ask for the same next page: the request
     Client.next_link builds (from the Link header, or from its initial request when there is
     none) is, as the server reads it, Listing.nextLink of Listing.v's Link. *)
  Theorem bridge_next_request rc s0 (w : W) last :
    page_request rc s0 -> (N <= length (full s0))%nat -> nth_error (full s0) (N - 1) = Some last ->
    L.last_opt (page_items s0) = Some last /\
    exists rc',
      next_link env (got B w rc (SB.page_resp enc o cc mkj ctail full s0)) (q_of start) last = Ok rc'
      /\ same_request rc' (L.nextLink (linkL_of s0) n last).
  Proof.
    intros Hpr Hge Hnth. pose proof (SB.N_pos cc) as HN.
    destruct (firstn_last (full s0) N) as (x & rest & Erev & Hn'); [lia|].
    rewrite Hnth in Hn'. injection Hn' as <-. fold (page_items s0) in Erev.
    assert (Hlo : L.last_opt (page_items s0) = Some last) by (now rewrite last_opt_rev, Erev).
    split; [exact Hlo|].
    destruct (SB.next_page linked hash media enc dec_errors dec_names dec_index B o cc K repo mkj R ctail
                HK Hsafe Hdot Hconstruct Hparse full Hitems start rc s0 w last Hpr Hge Hnth)
      as (rc' & En & Hpr').
    exists rc'. split; [exact En|].
    assert (Hlast : last <> []) by (apply (Hitems s0); eapply nth_error_In; eauto).
    replace (L.nextLink (linkL_of s0) n last) with (L.listParams n last); [apply page_request_same; exact Hpr'|].
    unfold linkL_of. destruct (SB.page_cut cc full s0 && negb (o_omit_link o)); [|reflexivity].
    rewrite Hlo. cbn [option_map L.nextLink]. symmetry. apply makeNextLink_listParams; [pose proof n_pos; lia | exact Hlast].
  Qed.

  (* the loop of the pager, page by page, on both sides at once *)
  Lemma bridge_loop : forall fuel rc s0 aL budget (w : W),
    page_request rc s0 -> sv_b (w_srv w) = b ->
    let T := pager_trace wire fuel srvL n (L.listParams n s0) _ budget_y (aL, budget) in
    exists w' rs,
      pager_loop (srv B) serve env fuel tagsflag (q_of start) rc budget (map (up ue) aL) w
      = (w', (map (up ue) (fst (fst (fst T))), pend_of (snd (fst T))))
      /\ w_srv w' = after B (w_srv w) b (map ev_of (snd T))
      /\ map en_req (w_log w') = map en_req (w_log w) ++ rs
      /\ Forall2 same_request rs (snd T).
  Proof.
    induction fuel as [|fuel IH]; intros rc s0 aL budget w Hpr Hb; cbv zeta.
    - cbn [pager_loop pager_trace fst snd map pend_of]. exists w, []. rewrite app_nil_r, <- Hb, after_nil.
      repeat split. constructor.
    - cbn [pager_loop pager_trace].
      rewrite (SB.page_exchange linked hash subject_of media enc dec_errors dec_names dec_index redirect B bstep o cc
                 mkop mkj R ctail Hparse HR_n Hmax Hemit b full Hback rc s0 w Hpr Hb).
      pose proof Hpr as (Hts & Hm & Hbl).
      set (w1 := logged B w rc _ _).
      match goal with |- context [parse_names (srv B) env tagsflag ?r w1] =>
        destruct (SB.page_names linked hash media enc dec_errors dec_names dec_index B o cc mkj tagsflag ctail Hdec
                    full Hsmall rc s0 w w1 Hm) as (w2 & E2 & Hw2);
        pose proof (parse_names_world r w1) as [_ Hlog2] end.
      rewrite E2 in Hlog2 |- *. cbn [fst] in Hlog2.
      destruct (L_page s0) as (linkL & EL & Hnext). rewrite EL. rewrite slice_budget.
      destruct (yield_items (page_items s0) budget) as [[ys bud'] cont].
      assert (Hlog1 : map en_req (w_log w2) = map en_req (w_log w) ++ [rc]).
      { rewrite Hlog2. unfold w1, logged. cbn [w_log]. rewrite map_app. reflexivity. }
      assert (Hsrv1 : w_srv w2 = after B (w_srv w) b (map ev_of [L.listParams n s0])).
      { rewrite Hw2. unfold w1, logged. cbn [w_srv map]. now rewrite ev_of_listParams. }
      assert (Hacc_up : map (up ue) aL ++ map inl ys = map (up ue) (aL ++ map inl ys)).
      { now rewrite map_app, map_up_inl. }
      assert (Hone : Forall2 same_request [rc] [L.listParams n s0]).
      { constructor; [apply page_request_same; exact Hpr | constructor]. }
      destruct cont; cbn [negb].
      2:{ (* the consumer stopped *)
          exists w2, [rc]. cbn [fst snd pend_of]. rewrite Hacc_up. repeat split; assumption. }
      change (Http.q_n (q_of start)) with n.
      destruct (Z.ltb_spec (Z.of_nat (length (page_items s0))) n) as [Hshort|Hlong].
      { (* a short page: the last one *)
        exists w2, [rc]. cbn [fst snd pend_of]. rewrite Hacc_up. repeat split; assumption. }
      (* a full page: there is a last item, and both sides go on from it *)
      pose proof (SB.N_pos cc) as HN. pose proof (SB.N_n cc) as HNn.
      assert (Hge : (N <= length (full s0))%nat).
      { unfold SB.page_items in Hlong. rewrite firstn_length in Hlong. lia. }
      destruct (firstn_last (full s0) N) as (last & rest & Erev & Hnth); [lia|].
      unfold last_item. rewrite last_opt_rev. fold (page_items s0) in Erev. rewrite Erev.
      destruct (SB.next_page linked hash media enc dec_errors dec_names dec_index B o cc K repo mkj R ctail
                  HK Hsafe Hdot Hconstruct Hparse full Hitems start rc s0 w last Hpr Hge Hnth)
        as (rc' & En & Hpr').
      rewrite En.
      assert (Hlast : last <> []).
      { apply (Hitems s0). eapply nth_error_In; eauto. }
      rewrite (Hnext last) by (rewrite ?last_opt_rev, ?Erev; auto).
      rewrite Hacc_up.
      destruct (IH rc' last (aL ++ map inl ys) bud' w2 Hpr') as (w' & rs & E & Hsrv & Hlog & Hreq).
      { rewrite Hw2. reflexivity. }
      cbv zeta in E, Hsrv, Hlog, Hreq.
      destruct (pager_trace wire fuel srvL n (L.listParams n last) _ budget_y (aL ++ map inl ys, bud'))
        as [[sL pL] rsL].
      cbn [fst snd] in *. exists w', (rc :: rs). rewrite E. split; [reflexivity|]. split; [|split].
      + rewrite Hsrv, Hsrv1, after_after. reflexivity.
      + rewrite Hlog, Hlog1, <- app_assoc. reflexivity.
      + constructor; [apply page_request_same; exact Hpr | exact Hreq].
  Qed.

  (* bridge_pager.  Client.pager over the composed server IS Listing.pager over Listing.handleList:
     same yield calls, same end, same page requests (as the server reads them and as it hands
     them to the backend) - for every fuel, start point and budget. *)
  Theorem bridge_pager fuel budget (w : W) :
    byte_list start = true -> sv_b (w_srv w) = b ->
    let final := L.pager_run wire fuel srvL n start _ budget_y ([], budget) in
    let reqs := pager_requests wire fuel srvL n start _ budget_y ([], budget) in
    exists w' rs,
      pager (srv B) serve env fuel tagsflag (q_of start) budget w
      = (w', (map (up ue) (fst (fst final)), pend_of (snd final)))
      /\ w_srv w' = after B (w_srv w) b (map ev_of reqs)
      /\ map en_req (w_log w') = map en_req (w_log w) ++ rs
      /\ Forall2 same_request rs reqs.
  Proof.
    intros Hbs Hb. cbv zeta. unfold pager_requests. rewrite <- pager_trace_run.
    unfold pager. cbn [e_construct_ok stack_env].
    rewrite (SB.page_construct_ok linked cc K repo R ctail Hsafe Hconstruct Hparse start Hbs).
    exact (bridge_loop fuel (SB.page_req cc K repo start) start [] budget w
             (SB.page_req_request cc K repo ctail HK Hsafe Hconstruct start Hbs) Hb).
  Qed.

  (* bridge_every_consumer.  Client.v only has the budget consumers; Listing.v quantifies over all
     consumers.  Nothing is lost: what Client.pager yields against the consumer that never
     declines determines what Listing.pager does against EVERY consumer (it is a represented
     iterator, C05_pager_protocol). *)
  Corollary bridge_every_consumer fuel (w w' : W) xs pe :
    byte_list start = true -> sv_b (w_srv w) = b ->
    pager (srv B) serve env fuel tagsflag (q_of start) None w = (w', (map inl xs, pe)) ->
    forall S (y : Sq.consumer err bytes S) st,
      L.pager wire fuel srvL n start S y st = Sq.seq_of xs None S y st.
  Proof.
    intros Hbs Hb E S y st.
    destruct (bridge_pager fuel None w Hbs Hb) as (w'' & rs & E' & _). cbv zeta in E'.
    rewrite E in E'. injection E' as _ Hys _.
    destruct (C05.C05_pager_protocol wire srvL fuel n start) as (xs' & oe' & Hrep).
    change (fst (L.pager_run wire fuel srvL n start _ budget_y ([], None)))
      with (L.pager wire fuel srvL n start _ budget_y ([], None)) in Hys.
    rewrite Hrep in Hys |- *. unfold Sq.seq_of in Hys at 1. rewrite slice_budget, yield_all in Hys.
    cbn [app] in Hys. destruct oe' as [e|].
    - exfalso. unfold budget_y in Hys. cbn [fst snd] in Hys. rewrite map_app in Hys. cbn [map up] in Hys.
      assert (Hin : In (inr (ue e)) (map (@inl bytes gerr) xs)) by (rewrite Hys; apply in_or_app; right; now left).
      apply in_map_iff in Hin as (x & Hx & _). discriminate.
    - cbn [fst] in Hys. rewrite map_up_inl in Hys.
      assert (Hxs : xs = xs').
      { clear -Hys. revert xs' Hys. induction xs as [|a xs IH]; intros [|a' xs'] H; try discriminate; [reflexivity|].
        cbn [map] in H. injection H as -> H. f_equal. now apply IH. }
      now subst.
  Qed.

  (* ---------------------------------------------------------- a backend whose listing may fail *)

  Lemma nextLink_linkL s0 last : L.last_opt (page_items s0) = Some last -> last <> [] ->
    L.nextLink (linkL_of s0) n last = L.listParams n last.
  Proof.
    intros Hlo Hlast. unfold linkL_of. destruct (SB.page_cut cc full s0 && negb (o_omit_link o)); [|reflexivity].
    rewrite Hlo. cbn [option_map L.nextLink]. apply makeNextLink_listParams; [pose proof n_pos; lia | exact Hlast].
  Qed.

  Section WithErrors.
  (* the iterator the backend returns for the start point s0 yields the items [full s0], then the
     error [ferr s0] if there is one *)
  Variable ferr : bytes -> option gerr.
  Hypothesis Hback_e : forall s0, bstep b (mkop s0) = (b, Ok (VList (full s0) (ferr s0))).
  Hypothesis Hemit_err : forall bb req s0 b'' a0 e0 wr,
    parse_req linked (hq_method req) (hq_path req) (hq_rawquery req) = Ok (R s0) ->
    bstep bb (mkop s0) = (b'', a0) ->
    match as_list a0 with Ok it => next_list_results o req (R s0) it = Err e0 | _ => False end ->
    serve_error go_sprefix go_cprefix e0 = Ok wr ->
    shandle bb req = (b'', [ECall (mkop s0) a0], Ok (err_resp enc [] wr)).
  Hypothesis media_json : media json_ct = json_ct.
  Hypothesis json_errors_rt : forall x, dec_errors (enc (JErr x)) = Some [x].
  (* the errors are ones ociserver can serve (4xx / 5xx, Error() does not panic) and their JSON
     fits the 8 KiB the client reads of an error body: the hypotheses of transparent_Tags_err *)
  Hypothesis Hferr : forall s0 e, ferr s0 = Some e ->
    conf_err e /\ blen (enc (JErr (r_err (marshal_error go_sprefix go_cprefix e)))) <= 8192.

  (* Listing.v: the same iterator, its error written by [f]; an error of Client.v is written in
     Listing.v by [down_e]; Listing.v's [wire] is the line-by-line hop seen through them *)
  Variable f : gerr -> err.
  Variable down_e : gerr -> err.
  Variable backLe : bytes -> Sq.Seq err bytes.
  Hypothesis HbackLe : forall s0, Sq.represents (backLe s0) (full s0) (option_map f (ferr s0)).
  Hypothesis Hwire : forall s0 e, ferr s0 = Some e -> wire (f e) = down_e (wire_error enc false e).
  Notation srvLe := (L.handleList so backLe).

  Definition down (v : bytes + gerr) : bytes + err :=
    match v with inl x => inl x | inr e => inr (down_e e) end.

  Lemma map_down_inl (l : list bytes) : map down (map inl l) = map inl l.
  Proof. rewrite map_map. reflexivity. Qed.

  Definition ev_of_e (q : L.wquery) : ev :=
    ECall (mkop (snd (L.setListQueryParams q)))
          (Ok (VList (full (snd (L.setListQueryParams q))) (ferr (snd (L.setListQueryParams q))))).

  Lemma ev_of_e_listParams s0 :
    ev_of_e (L.listParams n s0) = ECall (mkop s0) (Ok (VList (full s0) (ferr s0))).
  Proof. unfold ev_of_e. rewrite LP.setListQueryParams_listParams by (pose proof n_pos; lia). reflexivity. Qed.

  (* the page for (n, s0) on the two sides: served, ... *)
  Lemma L_page_ok s0 : ferr s0 = None \/ (N < length (full s0))%nat ->
    srvLe (L.listParams n s0) = L.LR_ok (page_items s0) (linkL_of s0).
  Proof.
    intros Hc. pose proof n_pos as Hn. unfold L.handleList. rewrite LP.setListQueryParams_listParams by lia.
    rewrite (LP.nextListResults_page so _ n (backLe s0) (full s0) _ (HbackLe s0)) by (lia || exact Hacc).
    unfold LP.page_resp, linkL_of, SB.page_cut. change (Z.to_nat n) with N.
    destruct (Nat.leb_spec (length (full s0)) N) as [Hle|Hgt].
    - destruct Hc as [Hc|Hc]; [|lia]. rewrite Hc. cbn [option_map].
      destruct (Nat.ltb_spec N (length (full s0))); [lia|]. cbn [andb].
      unfold SB.page_items. now rewrite firstn_all2 by lia.
    - destruct (Nat.ltb_spec N (length (full s0))); [|lia]. cbn [andb so L.so_omit_link].
      destruct (o_omit_link o); cbn [negb]; [reflexivity|]. unfold SB.page_items.
      destruct (L.last_opt (firstn N (full s0))) as [l|] eqn:El; [reflexivity|].
      exfalso. destruct (LP.last_opt_nonempty (firstn N (full s0))) as (a & x & _ & E); [|congruence].
      pose proof (SB.N_pos cc). destruct (full s0); [cbn in Hgt; lia|]. destruct N; [lia | discriminate].
  Qed.

  Lemma S_page_ok s0 : ferr s0 = None \/ (N < length (full s0))%nat ->
    next_list_results o (plain_req MGet cpath (cquery s0)) (R s0) (full s0, ferr s0)
    = Ok (page_items s0, SB.page_link o cc ctail full s0).
  Proof.
    intros [Hc|Hc]; [rewrite Hc; apply (SB.page_next_list o cc R ctail HR_n Hmax)|].
    pose proof (SB.N_pos cc) as HN.
    unfold next_list_results. rewrite HR_n, Hmax. rewrite <- (SB.N_n cc), (next_items_page N (full s0) HN).
    destruct (Nat.ltb_spec N (length (full s0))); [|lia]. cbn [andb].
    unfold SB.page_link, SB.page_cut. destruct (Nat.ltb_spec N (length (full s0))); [|lia]. cbn [andb].
    fold (page_items s0). destruct (o_omit_link o); cbn [negb]; [reflexivity|].
    destruct (firstn_last (full s0) N) as (x & rest & E & _); [lia|].
    fold (page_items s0) in E. rewrite E. reflexivity.
  Qed.

  (* ... or failing *)
  Lemma L_page_err s0 e : ferr s0 = Some e -> (length (full s0) <= N)%nat ->
    srvLe (L.listParams n s0) = L.LR_err (f e).
  Proof.
    intros He Hle. pose proof n_pos as Hn. unfold L.handleList. rewrite LP.setListQueryParams_listParams by lia.
    rewrite (LP.nextListResults_page so _ n (backLe s0) (full s0) _ (HbackLe s0)) by (lia || exact Hacc).
    unfold LP.page_resp. change (Z.to_nat n) with N. rewrite He. cbn [option_map].
    destruct (Nat.leb_spec (length (full s0)) N); [reflexivity | lia].
  Qed.

  Lemma S_page_err s0 e req : ferr s0 = Some e -> (length (full s0) <= N)%nat ->
    next_list_results o req (R s0) (full s0, ferr s0) = Err e.
  Proof.
    intros He Hle. pose proof (SB.N_pos cc) as HN.
    unfold next_list_results. rewrite HR_n, Hmax. rewrite <- (SB.N_n cc), (next_items_page N (full s0) HN).
    destruct (Nat.ltb_spec N (length (full s0))); [lia|]. now rewrite He.
  Qed.

  Lemma page_exchange_ok rc s0 (w : W) : ferr s0 = None \/ (N < length (full s0))%nat ->
    page_request rc s0 -> sv_b (w_srv w) = b ->
    client_do (srv B) serve env rc [] w
    = (logged B w rc (SB.page_resp enc o cc mkj ctail full s0)
         (after B (w_srv w) b [ECall (mkop s0) (Ok (VList (full s0) (ferr s0)))]),
       Ok (got B w rc (SB.page_resp enc o cc mkj ctail full s0))).
  Proof.
    intros Hc (Hts & Hm & Hbl) Hb.
    rewrite (client_do_stack linked hash subject_of media enc dec_errors dec_names dec_index redirect B bstep o
               rc [] w _ b [ECall (mkop s0) (Ok (VList (full s0) (ferr s0)))]
               (SB.page_resp enc o cc mkj ctail full s0) Hts).
    - reflexivity.
    - rewrite Hb. apply (Hemit b (plain_req MGet cpath (cquery s0)) s0 b (VList (full s0) (ferr s0)));
        [exact (Hparse s0 Hbl) | apply Hback_e|].
      cbn [items_of iter_err_of]. apply S_page_ok. exact Hc.
    - reflexivity.
  Qed.

  Lemma page_exchange_err rc s0 e (w : W) : ferr s0 = Some e -> (length (full s0) <= N)%nat ->
    page_request rc s0 -> sv_b (w_srv w) = b ->
    exists w1,
      client_do (srv B) serve env rc [] w = (w1, Err (wire_error enc false e))
      /\ w_srv w1 = after B (w_srv w) b [ECall (mkop s0) (Ok (VList (full s0) (ferr s0)))]
      /\ map en_req (w_log w1) = map en_req (w_log w) ++ [rc].
  Proof.
    intros Hfe Hle (Hts & Hm & Hbl) Hb.
    destruct (Hferr s0 e Hfe) as [He Hlen]. pose proof He as [Hte Hst].
    destruct (err_status_facts _ Hst) as (Hrd & Hnb & Hok).
    rewrite (client_do_stack linked hash subject_of media enc dec_errors dec_names dec_index redirect B bstep o
               rc [] w _ b [ECall (mkop s0) (Ok (VList (full s0) (ferr s0)))]
               (err_resp enc [] (marshal_error go_sprefix go_cprefix e)) Hts).
    2:{ rewrite Hb.
        apply (Hemit_err b (plain_req MGet cpath (cquery s0)) s0 b (Ok (VList (full s0) (ferr s0))) e _
                 (Hparse s0 Hbl) (Hback_e s0)); [|exact (conf_err_serve e He)].
        cbn [as_list items_of iter_err_of]. apply S_page_err; assumption. }
    2:{ exact Hrd. }
    cbv zeta. cbn [p_status err_resp r_status marshal_error status_accepted]. rewrite Hok. cbn [negb].
    destruct (Z.eqb_spec (marshal_status e) 200); [lia|]. unfold fail_make_error.
    erewrite make_error_stack; try eassumption; try reflexivity; [|apply json_errors_rt].
    rewrite Hm. cbn [meth_eqb]. eexists. split; [reflexivity|]. cbn [w_srv w_log logged].
    split; [reflexivity|]. rewrite map_en_req_add_read, map_app. reflexivity.
  Qed.

  Lemma budget_y_err (aL : list (bytes + err)) budget e :
    fst (fst (@budget_y err (inr e) (aL, budget))) = aL ++ [inr e].
  Proof. unfold budget_y. cbn [fst snd]. destruct budget as [[|k]|]; reflexivity. Qed.

  (* the loop, page by page, with a failing page as a third way to end *)
  Lemma bridge_loop_e : forall fuel rc s0 accC budget (w : W),
    page_request rc s0 -> sv_b (w_srv w) = b ->
    let T := pager_trace wire fuel srvLe n (L.listParams n s0) _ budget_y (map down accC, budget) in
    exists w' ysC rs,
      pager_loop (srv B) serve env fuel tagsflag (q_of start) rc budget accC w
      = (w', (ysC, pend_of (snd (fst T))))
      /\ map down ysC = fst (fst (fst T))
      /\ w_srv w' = after B (w_srv w) b (map ev_of_e (snd T))
      /\ map en_req (w_log w') = map en_req (w_log w) ++ rs
      /\ Forall2 same_request rs (snd T).
  Proof.
    induction fuel as [|fuel IH]; intros rc s0 accC budget w Hpr Hb; cbv zeta.
    - cbn [pager_loop pager_trace fst snd map pend_of]. exists w, accC, []. rewrite app_nil_r, <- Hb, after_nil.
      repeat split. constructor.
    - cbn [pager_loop pager_trace].
      assert (Hone : Forall2 same_request [rc] [L.listParams n s0]).
      { constructor; [apply page_request_same; exact Hpr | constructor]. }
      assert (Hcase : (exists e, ferr s0 = Some e /\ (length (full s0) <= N)%nat)
                      \/ (ferr s0 = None \/ (N < length (full s0))%nat)).
      { destruct (ferr s0) as [e|]; [|right; left; reflexivity].
        destruct (Nat.le_gt_cases (length (full s0)) N); [left; eauto | right; right; assumption]. }
      destruct Hcase as [(e & Hfe & Hle)|Hc].
      { (* the page fails *)
        destruct (page_exchange_err rc s0 e w Hfe Hle Hpr Hb) as (w1 & E1 & Hs1 & Hl1).
        rewrite E1, (L_page_err s0 e Hfe Hle). cbn [fst snd pend_of map].
        exists w1, (accC ++ [inr (wire_error enc false e)]), [rc]. split; [reflexivity|].
        split; [|split; [|split; assumption]].
        - rewrite budget_y_err, map_app. cbn [map down]. now rewrite (Hwire s0 e Hfe).
        - rewrite Hs1, ev_of_e_listParams. reflexivity. }
      rewrite (page_exchange_ok rc s0 w Hc Hpr Hb).
      pose proof Hpr as (Hts & Hm & Hbl).
      set (w1 := logged B w rc _ _).
      match goal with |- context [parse_names (srv B) env tagsflag ?r w1] =>
        destruct (SB.page_names linked hash media enc dec_errors dec_names dec_index B o cc mkj tagsflag ctail Hdec
                    full Hsmall rc s0 w w1 Hm) as (w2 & E2 & Hw2);
        pose proof (parse_names_world r w1) as [_ Hlog2] end.
      rewrite E2 in Hlog2 |- *. cbn [fst] in Hlog2.
      rewrite (L_page_ok s0 Hc). rewrite slice_budget.
      destruct (yield_items (page_items s0) budget) as [[ys bud'] cont].
      assert (Hlog1 : map en_req (w_log w2) = map en_req (w_log w) ++ [rc]).
      { rewrite Hlog2. unfold w1, logged. cbn [w_log]. rewrite map_app. reflexivity. }
      assert (Hsrv1 : w_srv w2 = after B (w_srv w) b (map ev_of_e [L.listParams n s0])).
      { rewrite Hw2. unfold w1, logged. cbn [w_srv map]. now rewrite ev_of_e_listParams. }
      assert (Hacc_dn : map down accC ++ map inl ys = map down (accC ++ map inl ys)).
      { now rewrite map_app, map_down_inl. }
      destruct cont; cbn [negb].
      2:{ exists w2, (accC ++ map inl ys), [rc]. cbn [fst snd pend_of]. rewrite Hacc_dn. repeat split; assumption. }
      change (Http.q_n (q_of start)) with n.
      destruct (Z.ltb_spec (Z.of_nat (length (page_items s0))) n) as [Hshort|Hlong].
      { exists w2, (accC ++ map inl ys), [rc]. cbn [fst snd pend_of]. rewrite Hacc_dn. repeat split; assumption. }
      pose proof (SB.N_pos cc) as HN. pose proof (SB.N_n cc) as HNn.
      assert (Hge : (N <= length (full s0))%nat).
      { unfold SB.page_items in Hlong. rewrite firstn_length in Hlong. lia. }
      destruct (firstn_last (full s0) N) as (last & rest & Erev & Hnth); [lia|].
      unfold last_item. rewrite last_opt_rev. fold (page_items s0) in Erev. rewrite Erev.
      destruct (SB.next_page linked hash media enc dec_errors dec_names dec_index B o cc K repo mkj R ctail
                  HK Hsafe Hdot Hconstruct Hparse full Hitems start rc s0 w last Hpr Hge Hnth)
        as (rc' & En & Hpr').
      rewrite En.
      assert (Hlast : last <> []).
      { apply (Hitems s0). eapply nth_error_In; eauto. }
      rewrite (nextLink_linkL s0 last) by (rewrite ?last_opt_rev, ?Erev; auto).
      rewrite Hacc_dn.
      destruct (IH rc' last (accC ++ map inl ys) bud' w2 Hpr') as (w' & ysC & rs & E & Hys & Hsrv & Hlog & Hreq).
      { rewrite Hw2. reflexivity. }
      cbv zeta in E, Hys, Hsrv, Hlog, Hreq.
      destruct (pager_trace wire fuel srvLe n (L.listParams n last) _ budget_y (map down (accC ++ map inl ys), bud'))
        as [[sL pL] rsL].
      cbn [fst snd] in *. exists w', ysC, (rc :: rs). rewrite E. split; [reflexivity|]. split; [exact Hys|].
      split; [|split].
      + rewrite Hsrv, Hsrv1, after_after. reflexivity.
      + rewrite Hlog, Hlog1, <- app_assoc. reflexivity.
      + constructor; [apply page_request_same; exact Hpr | exact Hreq].
  Qed.

  (* bridge_pager_e.  As bridge_pager, over a backend whose iterators may end with an error: the
     yields of Client.pager, seen through [down], are the yields of Listing.pager - the items
     and the final error. *)
  Theorem bridge_pager_e fuel budget (w : W) :
    byte_list start = true -> sv_b (w_srv w) = b ->
    let final := L.pager_run wire fuel srvLe n start _ budget_y ([], budget) in
    let reqs := pager_requests wire fuel srvLe n start _ budget_y ([], budget) in
    exists w' ysC rs,
      pager (srv B) serve env fuel tagsflag (q_of start) budget w = (w', (ysC, pend_of (snd final)))
      /\ map down ysC = fst (fst final)
      /\ w_srv w' = after B (w_srv w) b (map ev_of_e reqs)
      /\ map en_req (w_log w') = map en_req (w_log w) ++ rs
      /\ Forall2 same_request rs reqs.
  Proof.
    intros Hbs Hb. cbv zeta. unfold pager_requests. rewrite <- pager_trace_run.
    unfold pager. cbn [e_construct_ok stack_env].
    rewrite (SB.page_construct_ok linked cc K repo R ctail Hsafe Hconstruct Hparse start Hbs).
    exact (bridge_loop_e fuel (SB.page_req cc K repo start) start [] budget w
             (SB.page_req_request cc K repo ctail HK Hsafe Hconstruct start Hbs) Hb).
  Qed.
  End WithErrors.

  End Granted.

  (* ---------------------------------------------------------- the page size the server refuses *)

  Lemma E_big_conf : conf_err E_big.
  Proof. split; [reflexivity|]. vm_compute. split; discriminate. Qed.

  (* bridge_refused.  MaxListPageSize > 0 and the client's page size above it: on both sides the
     iterator makes one request and one yield call, an error with the code UNSUPPORTED, whatever
     the backend, the start point and the budget.  (The two models write the error differently:
     Listing.v as [wire err_n_too_large] with [wire] a parameter, Client.v as the result of the
     line-by-line error hop [wire_error]; the code is what both keep.) *)
  Theorem bridge_refused fuel budget (w : W) start b' a :
    (0 <? o_max_list_page_size o) && (o_max_list_page_size o <? n) = true ->
    (forall bb req s0 b'' a0 e0 wr,
        parse_req linked (hq_method req) (hq_path req) (hq_rawquery req) = Ok (R s0) ->
        bstep bb (mkop s0) = (b'', a0) ->
        match as_list a0 with Ok it => next_list_results o req (R s0) it = Err e0 | _ => False end ->
        serve_error go_sprefix go_cprefix e0 = Ok wr ->
        shandle bb req = (b'', [ECall (mkop s0) a0], Ok (err_resp enc [] wr))) ->
    media json_ct = json_ct -> (forall x, dec_errors (enc (JErr x)) = Some [x]) ->
    byte_list start = true -> (1 <= fuel)%nat ->
    bstep (sv_b (w_srv w)) (mkop start) = (b', a) -> a <> Panic -> a <> OutOfFuel ->
    blen (enc (JErr (r_err (marshal_error go_sprefix go_cprefix E_big)))) <= 8192 ->
    let final := L.pager_run wire fuel srvL n start _ budget_y ([], budget) in
    exists w',
      pager (srv B) serve env fuel tagsflag (q_of start) budget w
      = (w', ([inr (wire_error enc false E_big)], PDone))
      /\ fst (fst final) = [inr (wire L.err_n_too_large)] /\ snd final = L.PDone
      /\ pager_requests wire fuel srvL n start _ budget_y ([], budget) = [L.listParams n start]
      /\ w_srv w' = after B (w_srv w) b' [ECall (mkop start) a]
      /\ marshal_code (wire_error enc false E_big) = std_code SUnsupported
      /\ e_code L.err_n_too_large = UNSUPPORTED.
  Proof.
    intros Hbig Hemit_err Hmj Hjr Hbs Hfuel Hb Hnp Hnf Hlen. cbv zeta.
    pose proof n_pos as Hn.
    assert (HaccT : ((L.so_max so >? 0) && (n >? L.so_max so))%Z = true).
    { cbn [so L.so_max]. rewrite !Z.gtb_ltb. exact Hbig. }
    (* Listing.v *)
    rewrite (LP.pager_refused wire so backL n start fuel HaccT) by lia.
    assert (Hreqs : pager_requests wire fuel srvL n start _ budget_y ([], budget) = [L.listParams n start]).
    { unfold pager_requests. destruct fuel as [|fuel']; [lia|]. cbn [pager_trace]. unfold L.handleList.
      rewrite LP.setListQueryParams_listParams by lia. rewrite LP.nextListResults_refuses by exact HaccT.
      reflexivity. }
    rewrite Hreqs.
    (* Client.v over the stack *)
    unfold pager. cbn [e_construct_ok stack_env].
    rewrite (SB.page_construct_ok linked cc K repo R ctail Hsafe Hconstruct Hparse start Hbs).
    destruct fuel as [|fuel']; [lia|]. cbn [pager_loop].
    destruct (SB.page_req_request cc K repo ctail HK Hsafe Hconstruct start Hbs) as (Hts & Hm & _).
    pose proof E_big_conf as He. pose proof He as [Hte Hst].
    destruct (err_status_facts _ Hst) as (Hrd & Hnb & Hok).
    match goal with |- context [client_do (srv B) serve env ?rq [] w] => change rq with (SB.page_req cc K repo start) end.
    rewrite (client_do_stack linked hash subject_of media enc dec_errors dec_names dec_index redirect B bstep o
               (SB.page_req cc K repo start) [] w _ b' [ECall (mkop start) a]
               (err_resp enc [] (marshal_error go_sprefix go_cprefix E_big)) Hts).
    2:{ apply (Hemit_err (sv_b (w_srv w)) (plain_req MGet cpath (cquery start)) start b' a E_big _ (Hparse start Hbs) Hb);
          [|exact (conf_err_serve E_big He)].
        assert (Hn_big : forall it, next_list_results o (plain_req MGet cpath (cquery start)) (R start) it = Err E_big).
        { intros it. unfold next_list_results. rewrite HR_n, Hbig. reflexivity. }
        destruct a as [v|e0| |]; cbn [as_list]; try congruence; apply Hn_big. }
    2:{ exact Hrd. }
    cbv zeta. cbn [p_status err_resp r_status marshal_error status_accepted]. rewrite Hok. cbn [negb].
    destruct (Z.eqb_spec (marshal_status E_big) 200) as [E200|_]; [vm_compute in E200; discriminate|].
    unfold fail_make_error.
    erewrite make_error_stack; try eassumption; try reflexivity; [|apply Hjr].
    rewrite Hm. cbn [meth_eqb app]. eexists. split; [reflexivity|].
    split; [destruct budget as [[|k]|]; reflexivity|]. split; [reflexivity|]. split; [reflexivity|].
    split; [reflexivity|]. split; [|reflexivity].
    destruct (wire_error_body enc E_big Hlen) as (Hc & _ & _). rewrite Hc. reflexivity.
  Qed.

End Bridge.

(* ================================================================ nextListResults, every input *)

(* The page function of ociserver on the two sides, with no hypothesis on the backend iterator's
   content: any ListN (absent = -1, zero, negative, positive), any items (empty strings and
   URL metacharacters included), with or without a final error, any options, any request of
   Listing.v.  [f] is how an error of Server.v is written in Listing.v. *)
Definition link_header_text (p : bytes) (link : option L.wquery) : bytes :=
  match link with
  | None => []
  | Some ql => 60%N :: (path_escape_mode p ++ 63%N :: wq_text ql) ++ s ">;rel=""next"""
  end.

Lemma nlr_loop_next_items listN xs : forall acc,
  Sq.slice_loop xs (L.nlr_cb listN) {| L.nl_items := acc; L.nl_trunc := false; L.nl_err := None |}
  = ({| L.nl_items := fst (next_items listN xs acc); L.nl_trunc := snd (next_items listN xs acc);
        L.nl_err := None |}, negb (snd (next_items listN xs acc))).
Proof.
  induction xs as [|x xs IH]; intros acc; cbn [Sq.slice_loop next_items]; [reflexivity|].
  unfold L.nlr_cb at 1. cbn [L.nl_items L.nl_trunc L.nl_err]. rewrite Z.gtb_ltb, Z.geb_leb.
  destruct ((0 <? listN) && (listN <=? Z.of_nat (length acc))); [reflexivity | apply IH].
Qed.

Theorem bridge_nextListResults (o : opts) m p q rreq xs (oe : option gerr) (f : gerr -> err) :
  wq_wf q ->
  match L.nextListResults (so o) q (q_listn rreq) (Sq.seq_of xs (option_map f oe)),
        next_list_results o (plain_req m p (wq_text q)) rreq (xs, oe) with
  | L.LR_ok items link, Ok (items', text) => items' = items /\ text = link_header_text p link
  | L.LR_err e, Err e' => (e = L.err_n_too_large /\ e' = E_big) \/ (oe = Some e' /\ e = f e')
  | L.LR_panic, Panic => True
  | _, _ => False
  end.
Proof.
  intros Hq. unfold L.nextListResults, next_list_results. cbn [so L.so_max L.so_omit_link].
  rewrite !Z.gtb_ltb.
  destruct ((0 <? o_max_list_page_size o) && (o_max_list_page_size o <? q_listn rreq)).
  { left. split; reflexivity. }
  cbv zeta. unfold Sq.seq_of. rewrite nlr_loop_next_items.
  destruct (next_items (q_listn rreq) xs []) as [items tr]. cbn [fst snd].
  destruct tr; cbn [negb L.nl_err L.nl_trunc L.nl_items andb].
  - rewrite last_opt_rev. destruct (o_omit_link o); cbn [negb]; [split; reflexivity|].
    destruct (rev items) as [|last rest]; [exact I|]. split; [reflexivity|].
    cbn [link_header_text]. apply bridge_link_text. exact Hq.
  - destruct oe as [e|]; cbn [option_map].
    + unfold L.nlr_cb. cbn [fst L.nl_err]. right. split; reflexivity.
    + cbn [L.nl_err L.nl_trunc L.nl_items andb]. split; reflexivity.
Qed.

(* ================================================================ Tags and Repositories *)

Section Instances.
  Variable linked : alg -> bool.
  Variable hash : bytes -> bytes -> bytes.
  Variable subject_of : bytes -> option (option bytes).
  Variable media : bytes -> bytes.
  Variable enc : jval -> bytes.
  Variable dec_errors : bytes -> option (list werr).
  Variable dec_names : bool -> bytes -> option (list bytes).
  Variable dec_index : bytes -> option (list desc).
  Variable redirect : bytes -> bytes -> bytes * bytes.
  Variable B : Type.
  Variable bstep : backend B.
  Variable o : opts.
  Variable cc : ccfg.

  (* the JSON round trip, exactly as Proofs/StackListingB.v asks for it (Proofs/StackJson.v
     discharges it for the encoder of Obs/StackRun.v) *)
  Hypothesis json_tags_rt : forall name l, dec_names true (enc (JTags name l)) = Some l.
  Hypothesis json_catalog_rt : forall l, dec_names false (enc (JCatalog l)) = Some l.

  Notation call_ := (stack_call linked hash subject_of media enc dec_errors dec_names dec_index redirect bstep o cc).
  Notation W := (world (srv B)).
  Notation nn := (c_page_size (stack_client cc)).
  Notation shandle := (server_handle linked hash subject_of enc redirect B bstep o).

  Definition tags_tail (repo : bytes) : bytes := repo ++ 47%N :: s "tags" ++ 47%N :: s "list".
  Definition catalog_tail : bytes := s "_catalog".
  Definition tags_R (repo s0 : bytes) : request := mkreq Request.ReqTagsList repo [] [] [] [] nn s0.
  Definition catalog_R (s0 : bytes) : request := mkreq Request.ReqCatalogList [] [] [] [] [] nn s0.

  Lemma nn_digits : digits (dec_Z nn).
  Proof. apply dec_digits. pose proof (nn_pos cc). lia. Qed.

  Lemma tags_safe repo : vrepo repo = true -> forallb safe (tags_tail repo) = true.
  Proof. intros Hr. unfold tags_tail. rewrite forallb_app, (repo_safe repo Hr). reflexivity. Qed.

  Lemma tags_dot repo : vrepo repo = true -> dot_free (SB.cpath (tags_tail repo)) = true.
  Proof.
    intros Hr. unfold SB.cpath, tags_tail.
    apply (v2_repo_dot_free repo (47%N :: s "tags" ++ 47%N :: s "list") Hr). reflexivity.
  Qed.

  Lemma tags_construct repo s0 :
    construct (req_of (SB.q_of cc Http.ReqTagsList repo s0))
    = (m_GET, SB.cpath (tags_tail repo) ++ optq (SB.cquery cc s0)).
  Proof.
    pose proof (nn_pos cc) as Hn1. pose proof nn_digits as Hd.
    unfold SB.q_of, list_rreq, req_of, construct. cbn [Request.q_kind kind_of Http.q_kind Http.q_repo
      Http.q_digest Http.q_tag Http.q_from Http.q_upload Http.q_n Http.q_last Request.q_repo].
    f_equal. rewrite list_params_eq, lp_values_lvals by (cbn [q_listn]; lia). cbn [q_listn Request.q_last].
    rewrite (lq_encode _ _ Hd). unfold SB.cpath, SB.cquery, v2, SB.n, tags_tail. rewrite <- !app_assoc. reflexivity.
  Qed.

  Lemma tags_parse repo s0 : vrepo repo = true -> nn <= max_int64 -> byte_list s0 = true ->
    parse_req linked m_GET (SB.cpath (tags_tail repo)) (SB.cquery cc s0) = Ok (tags_R repo s0).
  Proof.
    intros Hr Hnmax Hb0. pose proof (nn_pos cc) as Hn1. pose proof nn_digits as Hd.
    unfold SB.cpath, SB.cquery, SB.n, tags_tail, tags_R.
    rewrite (parse_tags linked m_GET repo _ (lparsed (dec_Z nn) s0) nn s0 Hr Hnmax (lq_parse _ _ Hd Hb0)).
    - cbn [negb]. lit_beqb. unfold norm_listn. destruct (Z.ltb_spec nn 0); [lia | reflexivity].
    - rewrite lparsed_n. destruct (Z.leb_spec 0 nn); [reflexivity | lia].
    - apply lparsed_last.
  Qed.

  Lemma tags_emit repo bb req s0 b' v items link :
    parse_req linked (hq_method req) (hq_path req) (hq_rawquery req) = Ok (tags_R repo s0) ->
    bstep bb (Tags repo s0) = (b', Ok v) ->
    next_list_results o req (tags_R repo s0) (items_of v, iter_err_of v) = Ok (items, link) ->
    shandle bb req = (b', [ECall (Tags repo s0) (Ok v)],
                      Ok (mkresp 200 (list_hdrs (enc (JTags repo items)) link None) (enc (JTags repo items))
                                 (Some (JTags repo items)))).
  Proof.
    intros Hp Hb Hnl.
    exact (emit_tags linked (digest_of hash) subject_of enc redirect B bstep o bb req _ Hp b' v items link eq_refl Hb Hnl).
  Qed.

  Lemma catalog_construct s0 :
    construct (req_of (SB.q_of cc Http.ReqCatalogList [] s0))
    = (m_GET, SB.cpath catalog_tail ++ optq (SB.cquery cc s0)).
  Proof.
    pose proof (nn_pos cc) as Hn1. pose proof nn_digits as Hd.
    unfold SB.q_of, list_rreq, req_of, construct. cbn [Request.q_kind kind_of Http.q_kind Http.q_repo
      Http.q_digest Http.q_tag Http.q_from Http.q_upload Http.q_n Http.q_last Request.q_repo].
    f_equal. rewrite list_params_eq, lp_values_lvals by (cbn [q_listn]; lia). cbn [q_listn Request.q_last].
    rewrite (lq_encode _ _ Hd). reflexivity.
  Qed.

  Lemma catalog_parse s0 : nn <= max_int64 -> byte_list s0 = true ->
    parse_req linked m_GET (SB.cpath catalog_tail) (SB.cquery cc s0) = Ok (catalog_R s0).
  Proof.
    intros Hnmax Hb0. pose proof (nn_pos cc) as Hn1. pose proof nn_digits as Hd.
    unfold SB.cpath, SB.cquery, SB.n, catalog_tail, catalog_R.
    rewrite (parse_catalog linked _ (lparsed (dec_Z nn) s0) nn s0 Hnmax (lq_parse _ _ Hd Hb0)).
    - unfold norm_listn. destruct (Z.ltb_spec nn 0); [lia | reflexivity].
    - rewrite lparsed_n. destruct (Z.leb_spec 0 nn); [reflexivity | lia].
    - apply lparsed_last.
  Qed.

  Lemma catalog_emit bb req s0 b' v items link :
    parse_req linked (hq_method req) (hq_path req) (hq_rawquery req) = Ok (catalog_R s0) ->
    bstep bb (Repositories s0) = (b', Ok v) ->
    next_list_results o req (catalog_R s0) (items_of v, iter_err_of v) = Ok (items, link) ->
    shandle bb req = (b', [ECall (Repositories s0) (Ok v)],
                      Ok (mkresp 200 (list_hdrs (enc (JCatalog items)) link None) (enc (JCatalog items))
                                 (Some (JCatalog items)))).
  Proof.
    intros Hp Hb Hnl.
    exact (emit_catalog linked (digest_of hash) subject_of enc redirect B bstep o bb req _ Hp b' v items link eq_refl Hb Hnl).
  Qed.

  (* a backend whose listing (one of the two) neither changes it nor fails *)
  Definition lists (bk : B) (mkop : bytes -> op) (full : bytes -> list bytes) : Prop :=
    (forall s0, bstep bk (mkop s0) = (bk, Ok (VList (full s0) None))) /\
    (forall s0 x, In x (full s0) -> x <> [] /\ byte_list x = true).

  (* the server options and the client page size of the composed model, in Listing.v's terms *)
  Notation so_ := (so o).

  (* bridge_Tags.  [stack_call (CTags repo start budget)] - Client.tags over serve_stack over the
     backend - and Listing.v's client pager over its handleList over the same listing: the same
     yields, the same end, the same requests; for every repository name, start point, budget,
     fuel, page size and server options that grant it. *)
  Theorem bridge_Tags (w : W) repo start budget full wire ue backL :
    vrepo repo = true -> byte_list start = true -> page_size_ok o cc ->
    lists (sv_b (w_srv w)) (Tags repo) full -> SB.pages_small enc cc (JTags repo) full ->
    (forall s0, Sq.represents (backL s0) (full s0) None) ->
    let final := L.pager_run wire (cc_fuel cc) (L.handleList so_ backL) nn start _ budget_y ([], budget) in
    let reqs := pager_requests wire (cc_fuel cc) (L.handleList so_ backL) nn start _ budget_y ([], budget) in
    exists w' rs,
      call_ (CTags repo start budget) w
      = (w', ONames (map (up ue) (fst (fst final))) (pend_of (snd final)))
      /\ w_srv w' = after B (w_srv w) (sv_b (w_srv w)) (map (ev_of (Tags repo) full) reqs)
      /\ map en_req (w_log w') = map en_req (w_log w) ++ rs
      /\ Forall2 (same_request (tags_tail repo)) rs reqs.
  Proof.
    intros Hr Hbs [Hmax Hnmax] [Hback Hitems] Hsm HbackL. cbv zeta.
    unfold stack_call, Client.run, tags.
    destruct (bridge_pager linked hash subject_of media enc dec_errors dec_names dec_index redirect B bstep o cc
                Http.ReqTagsList repo (Tags repo) (JTags repo) true (tags_R repo) (tags_tail repo)
                (or_introl eq_refl) (tags_safe repo Hr) (tags_dot repo Hr) (tags_construct repo)
                (fun s0 Hb0 => tags_parse repo s0 Hr Hnmax Hb0) (fun _ => eq_refl) (tags_emit repo)
                (json_tags_rt repo) (sv_b (w_srv w)) full Hback Hitems Hsm wire ue backL HbackL Hmax
                start (cc_fuel cc) budget w Hbs eq_refl) as (w' & rs & E & H1 & H2 & H3).
    cbv zeta in E. unfold SB.q_of, SB.n in E. rewrite E. exists w', rs. repeat split; assumption.
  Qed.

  Theorem bridge_Repositories (w : W) start budget full wire ue backL :
    byte_list start = true -> page_size_ok o cc ->
    lists (sv_b (w_srv w)) Repositories full -> SB.pages_small enc cc JCatalog full ->
    (forall s0, Sq.represents (backL s0) (full s0) None) ->
    let final := L.pager_run wire (cc_fuel cc) (L.handleList so_ backL) nn start _ budget_y ([], budget) in
    let reqs := pager_requests wire (cc_fuel cc) (L.handleList so_ backL) nn start _ budget_y ([], budget) in
    exists w' rs,
      call_ (CRepositories start budget) w
      = (w', ONames (map (up ue) (fst (fst final))) (pend_of (snd final)))
      /\ w_srv w' = after B (w_srv w) (sv_b (w_srv w)) (map (ev_of Repositories full) reqs)
      /\ map en_req (w_log w') = map en_req (w_log w) ++ rs
      /\ Forall2 (same_request catalog_tail) rs reqs.
  Proof.
    intros Hbs [Hmax Hnmax] [Hback Hitems] Hsm HbackL. cbv zeta.
    unfold stack_call, Client.run, repositories.
    destruct (bridge_pager linked hash subject_of media enc dec_errors dec_names dec_index redirect B bstep o cc
                Http.ReqCatalogList [] Repositories JCatalog false catalog_R catalog_tail
                (or_intror eq_refl) eq_refl eq_refl catalog_construct
                (fun s0 Hb0 => catalog_parse s0 Hnmax Hb0) (fun _ => eq_refl) catalog_emit
                json_catalog_rt (sv_b (w_srv w)) full Hback Hitems Hsm wire ue backL HbackL Hmax
                start (cc_fuel cc) budget w Hbs eq_refl) as (w' & rs & E & H1 & H2 & H3).
    cbv zeta in E. unfold SB.q_of, SB.n in E. rewrite E. exists w', rs. repeat split; assumption.
  Qed.

  (* ---------------------------------------------------------- transfer of C05's headline theorem *)

  (* what the budget consumer has seen of a represented iterator *)
  Lemma budget_seq_of (xs : list bytes) budget :
    fst (Sq.seq_of xs (@None err) _ budget_y ([], budget)) = map inl (fst (fst (yield_items xs budget))).
  Proof.
    unfold Sq.seq_of. rewrite slice_budget. destruct (yield_items xs budget) as [[ys b'] c].
    destruct c; reflexivity.
  Qed.

  (* C05_pager_complete on the composed model.  For every strictly sorted listing l of names that
     can be written into a URL, every backend that lists l from any start point, every page size
     and server options that grant it, every start point and every budget: Client.tags over
     serve_stack ends normally having yielded the elements of l after the start point, in order,
     up to the budget; cc_fuel >= len l / n + 2 requests suffice; the backend is as it was. *)
  Theorem C05_pager_complete_Tags (w : W) repo l start budget :
    vrepo repo = true -> byte_list start = true -> page_size_ok o cc ->
    ssorted l -> (forall x, In x l -> x <> [] /\ byte_list x = true) ->
    (forall s0, bstep (sv_b (w_srv w)) (Tags repo s0) = (sv_b (w_srv w), Ok (VList (filter (bltb s0) l) None))) ->
    SB.pages_small enc cc (JTags repo) (fun s0 => filter (bltb s0) l) ->
    (length l / Z.to_nat nn + 2 <= cc_fuel cc)%nat ->
    exists w',
      call_ (CTags repo start budget) w
      = (w', ONames (map inl (fst (fst (yield_items (filter (bltb start) l) budget)))) PDone)
      /\ sv_b (w_srv w') = sv_b (w_srv w).
  Proof.
    intros Hr Hbs Hps Hl Hnames Hback Hsm Hfuel.
    set (backL := fun s0 => Sq.seq_of (filter (bltb s0) l) (@None err)).
    assert (HbackL : forall s0, Sq.represents (backL s0) (filter (bltb s0) l) None)
      by (intros s0; apply SqP.represents_seq_of).
    destruct (bridge_Tags w repo start budget (fun s0 => filter (bltb s0) l) (fun e => e) (fun _ => Plain []) backL
                Hr Hbs Hps) as (w' & rs & E & Hsrv & _ & _).
    { split; [exact Hback|]. intros s0 x Hi. apply filter_In in Hi as [Hi _]. now apply Hnames. }
    { exact Hsm. }
    { exact HbackL. }
    cbv zeta in E.
    destruct (C05.C05_pager_complete (fun e => e) so_ l Hl backL HbackL nn) with (fuel := cc_fuel cc) (start := start)
      as [Hrep Hdone].
    { pose proof (nn_pos cc). lia. }
    { destruct Hps as [Hmax _]. apply (Hacc o cc Hmax). }
    { exact Hfuel. }
    rewrite Hdone in E.
    change (fst (L.pager_run (fun e => e) (cc_fuel cc) (L.handleList so_ backL) nn start _ budget_y ([], budget)))
      with (L.pager (fun e => e) (cc_fuel cc) (L.handleList so_ backL) nn start _ budget_y ([], budget)) in E.
    rewrite Hrep, budget_seq_of, map_up_inl in E.
    exists w'. split; [exact E|]. rewrite Hsrv. reflexivity.
  Qed.

  Theorem C05_pager_complete_Repositories (w : W) l start budget :
    byte_list start = true -> page_size_ok o cc ->
    ssorted l -> (forall x, In x l -> x <> [] /\ byte_list x = true) ->
    (forall s0, bstep (sv_b (w_srv w)) (Repositories s0) = (sv_b (w_srv w), Ok (VList (filter (bltb s0) l) None))) ->
    SB.pages_small enc cc JCatalog (fun s0 => filter (bltb s0) l) ->
    (length l / Z.to_nat nn + 2 <= cc_fuel cc)%nat ->
    exists w',
      call_ (CRepositories start budget) w
      = (w', ONames (map inl (fst (fst (yield_items (filter (bltb start) l) budget)))) PDone)
      /\ sv_b (w_srv w') = sv_b (w_srv w).
  Proof.
    intros Hbs Hps Hl Hnames Hback Hsm Hfuel.
    set (backL := fun s0 => Sq.seq_of (filter (bltb s0) l) (@None err)).
    assert (HbackL : forall s0, Sq.represents (backL s0) (filter (bltb s0) l) None)
      by (intros s0; apply SqP.represents_seq_of).
    destruct (bridge_Repositories w start budget (fun s0 => filter (bltb s0) l) (fun e => e) (fun _ => Plain []) backL
                Hbs Hps) as (w' & rs & E & Hsrv & _ & _).
    { split; [exact Hback|]. intros s0 x Hi. apply filter_In in Hi as [Hi _]. now apply Hnames. }
    { exact Hsm. }
    { exact HbackL. }
    cbv zeta in E.
    destruct (C05.C05_pager_complete (fun e => e) so_ l Hl backL HbackL nn) with (fuel := cc_fuel cc) (start := start)
      as [Hrep Hdone].
    { pose proof (nn_pos cc). lia. }
    { destruct Hps as [Hmax _]. apply (Hacc o cc Hmax). }
    { exact Hfuel. }
    rewrite Hdone in E.
    change (fst (L.pager_run (fun e => e) (cc_fuel cc) (L.handleList so_ backL) nn start _ budget_y ([], budget)))
      with (L.pager (fun e => e) (cc_fuel cc) (L.handleList so_ backL) nn start _ budget_y ([], budget)) in E.
    rewrite Hrep, budget_seq_of, map_up_inl in E.
    exists w'. split; [exact E|]. rewrite Hsrv. reflexivity.
  Qed.

  (* ---------------------------------------------------------- the refused page size, per listing *)

  Section Refused.
  Hypothesis media_json : media json_ct = json_ct.
  Hypothesis json_errors_rt : forall x, dec_errors (enc (JErr x)) = Some [x].

  Theorem bridge_Tags_refused (w : W) repo start budget wire backL b' a :
    vrepo repo = true -> byte_list start = true -> nn <= max_int64 ->
    (0 <? o_max_list_page_size o) && (o_max_list_page_size o <? nn) = true -> (1 <= cc_fuel cc)%nat ->
    bstep (sv_b (w_srv w)) (Tags repo start) = (b', a) -> a <> Panic -> a <> OutOfFuel ->
    blen (enc (JErr (r_err (marshal_error go_sprefix go_cprefix E_big)))) <= 8192 ->
    let final := L.pager_run wire (cc_fuel cc) (L.handleList so_ backL) nn start _ budget_y ([], budget) in
    exists w',
      call_ (CTags repo start budget) w = (w', ONames [inr (wire_error enc false E_big)] PDone)
      /\ fst (fst final) = [inr (wire L.err_n_too_large)] /\ snd final = L.PDone
      /\ pager_requests wire (cc_fuel cc) (L.handleList so_ backL) nn start _ budget_y ([], budget) = [L.listParams nn start]
      /\ w_srv w' = after B (w_srv w) b' [ECall (Tags repo start) a]
      /\ marshal_code (wire_error enc false E_big) = std_code SUnsupported
      /\ e_code L.err_n_too_large = UNSUPPORTED.
  Proof.
    intros Hr Hbs Hnmax Hbig Hfuel Hb Hnp Hnf Hlen. cbv zeta. unfold stack_call, Client.run, tags.
    destruct (bridge_refused linked hash subject_of media enc dec_errors dec_names dec_index redirect B bstep o cc
                Http.ReqTagsList repo (Tags repo) true (tags_R repo) (tags_tail repo)
                (or_introl eq_refl) (tags_safe repo Hr) (tags_construct repo)
                (fun s0 Hb0 => tags_parse repo s0 Hr Hnmax Hb0) (fun _ => eq_refl) wire backL
                (cc_fuel cc) budget w start b' a Hbig) as (w' & E & H); try assumption.
    { intros bb req s0 b'' a0 e0 wr Hp Hbb Hnl Hs.
      exact (emit_tags_err linked (digest_of hash) subject_of enc redirect B bstep o bb req _ Hp b'' a0 e0 wr eq_refl Hbb Hnl Hs). }
    unfold SB.q_of, SB.n in E. rewrite E. exists w'. split; [reflexivity | exact H].
  Qed.

  Theorem bridge_Repositories_refused (w : W) start budget wire backL b' a :
    byte_list start = true -> nn <= max_int64 ->
    (0 <? o_max_list_page_size o) && (o_max_list_page_size o <? nn) = true -> (1 <= cc_fuel cc)%nat ->
    bstep (sv_b (w_srv w)) (Repositories start) = (b', a) -> a <> Panic -> a <> OutOfFuel ->
    blen (enc (JErr (r_err (marshal_error go_sprefix go_cprefix E_big)))) <= 8192 ->
    let final := L.pager_run wire (cc_fuel cc) (L.handleList so_ backL) nn start _ budget_y ([], budget) in
    exists w',
      call_ (CRepositories start budget) w = (w', ONames [inr (wire_error enc false E_big)] PDone)
      /\ fst (fst final) = [inr (wire L.err_n_too_large)] /\ snd final = L.PDone
      /\ pager_requests wire (cc_fuel cc) (L.handleList so_ backL) nn start _ budget_y ([], budget) = [L.listParams nn start]
      /\ w_srv w' = after B (w_srv w) b' [ECall (Repositories start) a]
      /\ marshal_code (wire_error enc false E_big) = std_code SUnsupported
      /\ e_code L.err_n_too_large = UNSUPPORTED.
  Proof.
    intros Hbs Hnmax Hbig Hfuel Hb Hnp Hnf Hlen. cbv zeta. unfold stack_call, Client.run, repositories.
    destruct (bridge_refused linked hash subject_of media enc dec_errors dec_names dec_index redirect B bstep o cc
                Http.ReqCatalogList [] Repositories false catalog_R catalog_tail
                (or_intror eq_refl) eq_refl catalog_construct
                (fun s0 Hb0 => catalog_parse s0 Hnmax Hb0) (fun _ => eq_refl) wire backL
                (cc_fuel cc) budget w start b' a Hbig) as (w' & E & H); try assumption.
    { intros bb req s0 b'' a0 e0 wr Hp Hbb Hnl Hs.
      exact (emit_catalog_err linked (digest_of hash) subject_of enc redirect B bstep o bb req _ Hp b'' a0 e0 wr eq_refl Hbb Hnl Hs). }
    unfold SB.q_of, SB.n in E. rewrite E. exists w'. split; [reflexivity | exact H].
  Qed.
  (* ---------------------------------------------------------- listings that may fail, per listing *)

  (* a backend whose listing does not change it; the iterator for s0 yields [full s0] then
     [ferr s0]; the errors can be served and fit the client's error buffer *)
  Definition lists_e (bk : B) (mkop : bytes -> op) (full : bytes -> list bytes) (ferr : bytes -> option gerr) : Prop :=
    (forall s0, bstep bk (mkop s0) = (bk, Ok (VList (full s0) (ferr s0)))) /\
    (forall s0 x, In x (full s0) -> x <> [] /\ byte_list x = true) /\
    (forall s0 e, ferr s0 = Some e ->
       conf_err e /\ blen (enc (JErr (r_err (marshal_error go_sprefix go_cprefix e)))) <= 8192).

  Theorem bridge_Tags_e (w : W) repo start budget full ferr wire f down_e backL :
    vrepo repo = true -> byte_list start = true -> page_size_ok o cc ->
    lists_e (sv_b (w_srv w)) (Tags repo) full ferr -> SB.pages_small enc cc (JTags repo) full ->
    (forall s0, Sq.represents (backL s0) (full s0) (option_map f (ferr s0))) ->
    (forall s0 e, ferr s0 = Some e -> wire (f e) = down_e (wire_error enc false e)) ->
    let final := L.pager_run wire (cc_fuel cc) (L.handleList so_ backL) nn start _ budget_y ([], budget) in
    let reqs := pager_requests wire (cc_fuel cc) (L.handleList so_ backL) nn start _ budget_y ([], budget) in
    exists w' ysC rs,
      call_ (CTags repo start budget) w = (w', ONames ysC (pend_of (snd final)))
      /\ map (down down_e) ysC = fst (fst final)
      /\ w_srv w' = after B (w_srv w) (sv_b (w_srv w)) (map (ev_of_e (Tags repo) full ferr) reqs)
      /\ map en_req (w_log w') = map en_req (w_log w) ++ rs
      /\ Forall2 (same_request (tags_tail repo)) rs reqs.
  Proof.
    intros Hr Hbs [Hmax Hnmax] (Hback & Hitems & Hferr) Hsm HbackL Hwire. cbv zeta.
    unfold stack_call, Client.run, tags.
    destruct (bridge_pager_e linked hash subject_of media enc dec_errors dec_names dec_index redirect B bstep o cc
                Http.ReqTagsList repo (Tags repo) (JTags repo) true (tags_R repo) (tags_tail repo)
                (or_introl eq_refl) (tags_safe repo Hr) (tags_dot repo Hr) (tags_construct repo)
                (fun s0 Hb0 => tags_parse repo s0 Hr Hnmax Hb0) (fun _ => eq_refl) (tags_emit repo)
                (json_tags_rt repo) (sv_b (w_srv w)) full Hitems Hsm wire Hmax start ferr Hback)
      with (f := f) (down_e := down_e) (backLe := backL) (fuel := cc_fuel cc) (budget := budget) (w := w)
      as (w' & ysC & rs & E & H0 & H1 & H2 & H3); try assumption; try reflexivity.
    { intros bb req s0 b'' a0 e0 wr Hp Hbb Hnl Hs.
      exact (emit_tags_err linked (digest_of hash) subject_of enc redirect B bstep o bb req _ Hp b'' a0 e0 wr eq_refl Hbb Hnl Hs). }
    cbv zeta in E. unfold SB.q_of, SB.n in E. rewrite E. exists w', ysC, rs. repeat split; assumption.
  Qed.

  Theorem bridge_Repositories_e (w : W) start budget full ferr wire f down_e backL :
    byte_list start = true -> page_size_ok o cc ->
    lists_e (sv_b (w_srv w)) Repositories full ferr -> SB.pages_small enc cc JCatalog full ->
    (forall s0, Sq.represents (backL s0) (full s0) (option_map f (ferr s0))) ->
    (forall s0 e, ferr s0 = Some e -> wire (f e) = down_e (wire_error enc false e)) ->
    let final := L.pager_run wire (cc_fuel cc) (L.handleList so_ backL) nn start _ budget_y ([], budget) in
    let reqs := pager_requests wire (cc_fuel cc) (L.handleList so_ backL) nn start _ budget_y ([], budget) in
    exists w' ysC rs,
      call_ (CRepositories start budget) w = (w', ONames ysC (pend_of (snd final)))
      /\ map (down down_e) ysC = fst (fst final)
      /\ w_srv w' = after B (w_srv w) (sv_b (w_srv w)) (map (ev_of_e Repositories full ferr) reqs)
      /\ map en_req (w_log w') = map en_req (w_log w) ++ rs
      /\ Forall2 (same_request catalog_tail) rs reqs.
  Proof.
    intros Hbs [Hmax Hnmax] (Hback & Hitems & Hferr) Hsm HbackL Hwire. cbv zeta.
    unfold stack_call, Client.run, repositories.
    destruct (bridge_pager_e linked hash subject_of media enc dec_errors dec_names dec_index redirect B bstep o cc
                Http.ReqCatalogList [] Repositories JCatalog false catalog_R catalog_tail
                (or_intror eq_refl) eq_refl eq_refl catalog_construct
                (fun s0 Hb0 => catalog_parse s0 Hnmax Hb0) (fun _ => eq_refl) catalog_emit
                json_catalog_rt (sv_b (w_srv w)) full Hitems Hsm wire Hmax start ferr Hback)
      with (f := f) (down_e := down_e) (backLe := backL) (fuel := cc_fuel cc) (budget := budget) (w := w)
      as (w' & ysC & rs & E & H0 & H1 & H2 & H3); try assumption; try reflexivity.
    { intros bb req s0 b'' a0 e0 wr Hp Hbb Hnl Hs.
      exact (emit_catalog_err linked (digest_of hash) subject_of enc redirect B bstep o bb req _ Hp b'' a0 e0 wr eq_refl Hbb Hnl Hs). }
    cbv zeta in E. unfold SB.q_of, SB.n in E. rewrite E. exists w', ysC, rs. repeat split; assumption.
  Qed.
  End Refused.

End Instances.

(* ================================================================ the client's page size *)

(* Listing.v's hop takes the client's ListPageSize p and pages with [client_page_size p];
   Client.v's New gives [c_page_size (new_client current p)].  They agree for p >= 0 (all that
   Listing.v's well-formed stacks contain: stack_wfb asks n >= 0 of every KHop) ... *)
Lemma page_size_agrees p : 0 <= p -> L.client_page_size p = c_page_size (new_client current p).
Proof.
  intros Hp. unfold L.client_page_size, new_client. cbn [b_page_default_le0 current c_page_size].
  destruct (Z.eqb_spec p 0) as [->|Hne]; [reflexivity|]. destruct (Z.leb_spec p 0); [lia | reflexivity].
Qed.

(* ... and differ for a negative ListPageSize: Listing.v keeps it (n = -1: no "n" parameter, the
   pager's "short page" test never fires), Client.v falls back to 1000.  Client.v is the one that
   follows the Go code as it is now (ociclient/client.go New: "if opts.ListPageSize <= 0", since
   the repair ec0179c); Listing.v's line is the code before that repair, which is why its
   domain is restricted to p >= 0.  A difference between the two models, outside C05's domain. *)
Theorem page_size_default_refuted :
  exists p, L.client_page_size p <> c_page_size (new_client current p).
Proof. exists (-1). vm_compute. discriminate. Qed.

(* the tags / repositories listing of Listing.v's hop is the pager the bridge is about *)
Lemma hop_lister_tags wire fuel p so bk repo start : 0 <= p ->
  L.l_tags (L.hop_lister wire fuel p so bk) repo start
  = L.pager wire fuel (L.handleList so (L.l_tags bk repo)) (c_page_size (new_client current p)) start.
Proof. intros Hp. unfold L.hop_lister. cbn [L.l_tags]. now rewrite page_size_agrees. Qed.

Lemma hop_lister_repos wire fuel p so bk start : 0 <= p ->
  L.l_repos (L.hop_lister wire fuel p so bk) start
  = L.pager wire fuel (L.handleList so (L.l_repos bk)) (c_page_size (new_client current p)) start.
Proof. intros Hp. unfold L.hop_lister. cbn [L.l_repos]. now rewrite page_size_agrees. Qed.

(* ================================================================ the hypotheses are satisfiable *)

Module SR := OCI.Obs.StackRun.
Module SJ := OCI.Proofs.StackJson.

(* the page documents of the concrete encoder of Obs/StackRun.v are no longer than the document
   of the whole listing *)
Lemma el_eb_sub (f : bytes -> bool) l : forall k,
  (length (flat_map (fun a => 1%N :: SR.eb a) (firstn k (filter f l)))
   <= length (flat_map (fun a => 1%N :: SR.eb a) l))%nat.
Proof.
  induction l as [|a l IH]; intros k; cbn [filter]; [rewrite firstn_nil; cbn; lia|].
  cbn [flat_map]. rewrite app_length. destruct (f a).
  - destruct k as [|k]; cbn [firstn flat_map]; [cbn [length]; lia|].
    rewrite app_length. specialize (IH k). lia.
  - specialize (IH k). lia.
Qed.

Lemma enc0_tags_small repo l k f : blen (SR.enc0 (JTags repo l)) <= max_int64 ->
  blen (SR.enc0 (JTags repo (firstn k (filter f l)))) <= max_int64.
Proof.
  unfold blen, SR.enc0, SR.el. cbn [length]. rewrite !app_length. pose proof (el_eb_sub f l k). lia.
Qed.

(* A backend listing four tags whose names are full of URL metacharacters, page size 2, Link
   header on or off, any budget: the hypotheses of C05_pager_complete_Tags hold (so do those of
   bridge_Tags, which it is proved from), over the concrete JSON of Obs/StackRun.v. *)
Example bridge_example :
  let l := [s "a&b=c"; s "d e?#"; s "f%2F+>"; s "g<h>;i"] in
  let bstep := fun (_ : unit) (c : op) =>
                 match c with
                 | Tags _ s0 => (tt, Ok (VList (filter (bltb s0) l) None))
                 | _ => (tt, Err (Plain []))
                 end in
  let cc := mkccfg 2 512 10 in
  forall omit budget,
    let o := mkopts false false 0 false omit None in
    exists w',
      stack_call (fun _ => true) (fun _ _ => []) (fun _ => None) SR.media0 SR.enc0 SR.dec_errors0 SR.dec_names0
                 SR.dec_index0 SR.redirect0 bstep o cc (CTags (s "repo") (s "a&b=c") budget) (init_world (srv0 tt))
      = (w', ONames (map inl (fst (fst (yield_items [s "d e?#"; s "f%2F+>"; s "g<h>;i"] budget)))) PDone).
Proof.
  intros l bstep cc omit budget o.
  destruct (C05_pager_complete_Tags (fun _ => true) (fun _ _ => []) (fun _ => None) SR.media0 SR.enc0 SR.dec_errors0
              SR.dec_names0 SR.dec_index0 SR.redirect0 unit bstep o cc SJ.json_tags_rt0
              (init_world (srv0 tt)) (s "repo") l (s "a&b=c") budget) as (w' & E & _).
  - reflexivity.
  - reflexivity.
  - split; [reflexivity | vm_compute; discriminate].
  - apply ssortedb_spec. reflexivity.
  - intros x Hx. cbn in Hx. repeat (destruct Hx as [<-|Hx]; [split; [discriminate | reflexivity]|]). contradiction.
  - intros s0. reflexivity.
  - intros s0. apply enc0_tags_small. vm_compute. discriminate.
  - vm_compute. lia.
  - exists w'. exact E.
Qed.

(* A backend whose iterators end with an error (name unknown) after three tags, page size 2: the
   hypotheses of bridge_Tags_e hold, with both error views the projection Model/Stack.v uses
   ([err_of_gerr]) and [wire] the line-by-line hop seen through it.  The first page is cut short
   before the error; the second page fails: "a", "b", then the error - on both sides ("c" is lost
   on both sides: ociserver answers a failing page with the error alone). *)
Example bridge_example_e :
  let e0 := Wire (W (std_code SNameUnknown) (s "gone") None) in
  let bstep := fun (_ : unit) (c : op) =>
                 match c with
                 | Tags _ s0 => (tt, Ok (VList (filter (bltb s0) [s "a"; s "b"; s "c"]) (Some e0)))
                 | _ => (tt, Err (Plain []))
                 end in
  let cc := mkccfg 2 512 10 in
  let o := mkopts false false 0 false false None in
  exists w' ysC,
    stack_call (fun _ => true) (fun _ _ => []) (fun _ => None) SR.media0 SR.enc0 SR.dec_errors0 SR.dec_names0
               SR.dec_index0 SR.redirect0 bstep o cc (CTags (s "repo") [] None) (init_world (srv0 tt))
    = (w', ONames ysC PDone)
    /\ map (down err_of_gerr) ysC
       = [inl (s "a"); inl (s "b"); inr (err_of_gerr (wire_error SR.enc0 false e0))].
Proof.
  intros e0 bstep cc o.
  set (wire := fun _ : err => err_of_gerr (wire_error SR.enc0 false e0)).
  set (backL := fun s0 => Sq.seq_of (filter (bltb s0) [s "a"; s "b"; s "c"]) (Some (err_of_gerr e0))).
  destruct (bridge_Tags_e (fun _ => true) (fun _ _ => []) (fun _ => None) SR.media0 SR.enc0 SR.dec_errors0
              SR.dec_names0 SR.dec_index0 SR.redirect0 unit bstep o cc SJ.json_tags_rt0 SJ.media_json0 SJ.json_errors_rt0
              (init_world (srv0 tt)) (s "repo") [] None (fun s0 => filter (bltb s0) [s "a"; s "b"; s "c"])
              (fun _ => Some e0) wire err_of_gerr err_of_gerr backL)
    as (w' & ysC & rs & E & Hys & _).
  - reflexivity.
  - reflexivity.
  - split; [reflexivity | vm_compute; discriminate].
  - split; [intros s0; reflexivity|]. split.
    + intros s0 x Hx. apply filter_In in Hx as [Hx _]. cbn in Hx.
      repeat (destruct Hx as [<-|Hx]; [split; [discriminate | reflexivity]|]). contradiction.
    + intros s0 e He. injection He as <-. split; [split; [reflexivity | vm_compute; split; discriminate]|].
      vm_compute. discriminate.
  - intros s0. apply enc0_tags_small. vm_compute. discriminate.
  - intros s0. apply SqP.represents_seq_of.
  - intros s0 e He. injection He as <-. reflexivity.
  - cbv zeta in E, Hys. exists w', ysC.
    assert (Hf : L.pager_run wire 10 (L.handleList (so o) backL) 2 [] _ (@budget_y err) ([], None)
                 = (([inl (s "a"); inl (s "b"); inr (err_of_gerr (wire_error SR.enc0 false e0))], None), L.PDone)).
    { unfold wire. generalize (err_of_gerr (wire_error SR.enc0 false e0)). intros x. vm_compute. reflexivity. }
    change (c_page_size (stack_client cc)) with 2 in E, Hys. change (cc_fuel cc) with 10%nat in E, Hys.
    rewrite Hf in E, Hys. split; [exact E | exact Hys].
Qed.

(* ================================================================ assumptions *)

Print Assumptions pager_trace_erase.
Print Assumptions bridge_link_text.
Print Assumptions bridge_nextListResults.
Print Assumptions bridge_link_header.
Print Assumptions bridge_next_request.
Print Assumptions bridge_pager.
Print Assumptions bridge_every_consumer.
Print Assumptions bridge_refused.
Print Assumptions bridge_pager_e.
Print Assumptions bridge_Tags_e.
Print Assumptions bridge_Repositories_e.
Print Assumptions bridge_Tags.
Print Assumptions bridge_Repositories.
Print Assumptions bridge_Tags_refused.
Print Assumptions bridge_Repositories_refused.
Print Assumptions C05_pager_complete_Tags.
Print Assumptions C05_pager_complete_Repositories.
Print Assumptions page_size_agrees.
Print Assumptions page_size_default_refuted.
Print Assumptions bridge_example.
Print Assumptions bridge_example_e.
