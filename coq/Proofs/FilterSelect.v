(* Proofs about the model of ocifilter/select.go (Model/Filter.v): property C12. *)
From Coq Require Import String.
From OCI Require Import Model.Filter Proofs.Funcs.

(* ---------- checks ---------- *)

Lemma first_denial_none check l :
  first_denial check l = None <-> (forall rk, In rk l -> check (fst rk) (snd rk) = None).
Proof.
  induction l as [|[r k] l IH]; cbn.
  - split; [intros _ rk [] | reflexivity].
  - destruct (check r k) eqn:E.
    + split; [discriminate|]. intros H. specialize (H (r, k) (or_introl eq_refl)). cbn in H. congruence.
    + rewrite IH. split.
      * intros H rk [<-|Hi]; [exact E | now apply H].
      * intros H rk Hi. apply H. now right.
Qed.

Lemma first_denial_some check l :
  (exists rk, In rk l /\ check (fst rk) (snd rk) <> None) <-> first_denial check l <> None.
Proof.
  split.
  - intros [rk [Hi Hc]] Hn. apply Hc. now apply (proj1 (first_denial_none check l) Hn).
  - induction l as [|[r k] l IH]; cbn; [congruence|].
    destruct (check r k) eqn:E.
    + intros _. exists (r, k). split; [now left | cbn; congruence].
    + intros H. destruct (IH H) as [rk [Hi Hc]]. exists rk. split; [now right | exact Hc].
Qed.

(* the error is the one the policy gave for one of the checks made *)
Lemma first_denial_in check l e :
  first_denial check l = Some e -> exists rk, In rk l /\ check (fst rk) (snd rk) = Some e.
Proof.
  induction l as [|[r k] l IH]; cbn; [discriminate|].
  destruct (check r k) eqn:E.
  - intros H. injection H as <-. exists (r, k). split; [now left | exact E].
  - intros H. destruct (IH H) as [rk [Hi Hc]]. exists rk. split; [now right | exact Hc].
Qed.

Lemma op_checks_repos o : map fst (op_checks o) = op_repos o.
Proof. destruct o; reflexivity. Qed.

(* ---------- one call ---------- *)

(* how a rejection is delivered: the error return value, or an iterator of one error *)
Definition deliver (o : op) (e : err) : result :=
  match op_method o with
  | Some m => if is_iter m then error_seq m e else Err e
  | None => Err e
  end.

(* what the wrapper does to the backend's result *)
Definition post (check : checker) (o : op) (r : result) : result :=
  match o with
  | Repositories _ => repos_result (ac_keep check) r
  | _ => r
  end.

Section OneCall.
  Context {B : Type}.
  Variable check : checker.
  Variable listAll : bool.
  Variable bstep : registry B.

  Lemma ac_step_spec st o :
    ac_step check listAll bstep st o =
      match first_denial check (pre_checks listAll o) with
      | Some e => (st, deliver o e, [])
      | None => (fst (bstep st o), post check o (snd (bstep st o)), [o])
      end.
  Proof.
    destruct o; cbn -[star]; unfold delegate;
      repeat match goal with
        | |- context [check ?r ?k] => destruct (check r k) eqn:?; cbn -[star]
        | |- context [if listAll then _ else _] => destruct listAll; cbn -[star]
        | |- context [bstep ?s ?o] => destruct (bstep s o); cbn -[star]
        end; first [reflexivity | congruence].
  Qed.

  Lemma ac_denied st o :
    (exists rk, In rk (pre_checks listAll o) /\ check (fst rk) (snd rk) <> None) ->
    exists e, first_denial check (pre_checks listAll o) = Some e /\
              ac_step check listAll bstep st o = (st, deliver o e, []).
  Proof.
    intros H. apply first_denial_some in H. rewrite ac_step_spec.
    destruct (first_denial check (pre_checks listAll o)) as [e|]; [|congruence].
    exists e. split; reflexivity.
  Qed.

  Lemma ac_allowed st o :
    (forall rk, In rk (pre_checks listAll o) -> check (fst rk) (snd rk) = None) ->
    ac_step check listAll bstep st o = (fst (bstep st o), post check o (snd (bstep st o)), [o]).
  Proof.
    intros H. apply first_denial_none in H. rewrite ac_step_spec, H. reflexivity.
  Qed.

  (* the trace of one call is empty or the call itself, and then every check passed *)
  Lemma ac_trace_step st o o' :
    In o' (snd (ac_step check listAll bstep st o)) ->
    o' = o /\ first_denial check (pre_checks listAll o) = None.
  Proof.
    rewrite ac_step_spec. destruct (first_denial check (pre_checks listAll o)); cbn; [tauto|].
    intros [<-|[]]. split; reflexivity.
  Qed.

  Lemma ac_state_step st o :
    fst (fst (ac_step check listAll bstep st o)) =
      final bstep st (snd (ac_step check listAll bstep st o)).
  Proof.
    rewrite ac_step_spec. destruct (first_denial check (pre_checks listAll o)); cbn; [reflexivity|].
    unfold final. cbn. destruct (bstep st o). reflexivity.
  Qed.
End OneCall.

Lemma deliver_error o e : result_error (deliver o e) = Some e.
Proof. unfold deliver. destruct o; reflexivity. Qed.

(* ---------- histories ---------- *)

Lemma ttrace_cons {B C} (step : tstep B C) st o h :
  ttrace step st (o :: h) = snd (step st o) ++ ttrace step (fst (fst (step st o))) h.
Proof.
  unfold ttrace. cbn. destruct (step st o) as [[s1 r] t]. cbn.
  destruct (trun step s1 h) as [s2 rs]. reflexivity.
Qed.

Lemma trun_cons_state {B C} (step : tstep B C) st o h :
  fst (trun step st (o :: h)) = fst (trun step (fst (fst (step st o))) h).
Proof.
  cbn. destruct (step st o) as [[s1 r] t]. cbn. destruct (trun step s1 h). reflexivity.
Qed.

Section Histories.
  Context {B : Type}.
  Variable check : checker.
  Variable listAll : bool.
  Variable bstep : registry B.

  (* every backend call of every history passed every check its method requires *)
  Lemma ac_trace_allowed h st o' :
    In o' (ttrace (ac_step check listAll bstep) st h) ->
    forall rk, In rk (op_checks o') -> check (fst rk) (snd rk) = None.
  Proof.
    revert st; induction h as [|o h IH]; intros st; [intros []|].
    rewrite ttrace_cons. intros Hi. apply in_app_or in Hi as [Hi|Hi]; [|eapply IH; eauto].
    apply ac_trace_step in Hi as [-> Hn]. intros rk Hrk.
    apply (proj1 (first_denial_none check _) Hn).
    destruct o; cbn in *; auto; contradiction.
  Qed.

  (* the wrapper changes the backend only through the calls in the trace *)
  Lemma ac_state_replay h st :
    fst (trun (ac_step check listAll bstep) st h) =
      final bstep st (ttrace (ac_step check listAll bstep) st h).
  Proof.
    revert st; induction h as [|o h IH]; intros st; [reflexivity|].
    rewrite trun_cons_state, ttrace_cons, final_app, IH, <- ac_state_step. reflexivity.
  Qed.
End Histories.

(* ---------- Select ---------- *)

Lemma select_check_none allow r k : select_check allow r k = None <-> allow r = true.
Proof.
  unfold select_check. destruct (allow r); [tauto|].
  destruct (akind_eqb k AccessWrite); split; discriminate.
Qed.

(* the error Select gives for a call, by the kind of the method *)
Definition select_error (allow : bytes -> bool) (o : op) : option err :=
  match o with
  | GetBlob r _ | GetBlobRange r _ _ _ | GetManifest r _ | GetTag r _
  | ResolveBlob r _ | ResolveManifest r _ | ResolveTag r _
  | DeleteBlob r _ | DeleteManifest r _ | DeleteTag r _
  | Tags r _ | Referrers r _ _ =>
      if allow r then None else Some ErrNameUnknown
  | PushBlob r _ _ | PushBlobChunked r _ | PushBlobChunkedResume r _ _ _ | PushManifest r _ _ _ =>
      if allow r then None else Some ErrDenied
  | MountBlob f t _ =>
      if allow f then (if allow t then None else Some ErrDenied) else Some ErrNameUnknown
  | _ => None
  end.

Lemma select_first_denial allow o :
  first_denial (select_check allow) (pre_checks true o) = select_error allow o.
Proof.
  destruct o; cbn; unfold select_check; cbn;
    repeat match goal with |- context [allow ?r] => destruct (allow r); cbn end; reflexivity.
Qed.

Lemma pre_checks_true o : pre_checks true o = op_checks o.
Proof. destruct o; reflexivity. Qed.

Lemma select_error_some allow o :
  select_error allow o <> None <-> exists r, In r (op_repos o) /\ allow r = false.
Proof.
  rewrite <- select_first_denial, <- first_denial_some, pre_checks_true. split.
  - intros [[r k] [Hi Hc]]. exists r. split.
    + rewrite <- op_checks_repos. apply in_map_iff. exists (r, k). split; [reflexivity | exact Hi].
    + cbn in Hc. destruct (allow r) eqn:E; [|reflexivity].
      exfalso. apply Hc. now apply select_check_none.
  - intros [r [Hi Hf]]. rewrite <- op_checks_repos in Hi. apply in_map_iff in Hi as [[r' k] [<- Hi]].
    exists (r', k). split; [exact Hi|].
    cbn in *. intros Hn. apply select_check_none in Hn. congruence.
Qed.

Section Select.
  Context {B : Type}.
  Variable allow : bytes -> bool.
  Variable bstep : registry B.

  Lemma select_spec st o :
    select allow bstep st o =
      match select_error allow o with
      | Some e => (st, deliver o e, [])
      | None => (fst (bstep st o), post (select_check allow) o (snd (bstep st o)), [o])
      end.
  Proof. unfold select. rewrite ac_step_spec, select_first_denial. reflexivity. Qed.

  Lemma select_trace_allowed h st o' :
    In o' (ttrace (select allow bstep) st h) ->
    forall r, In r (op_repos o') -> allow r = true.
  Proof.
    intros Hi r Hr. unfold select in Hi.
    rewrite <- op_checks_repos in Hr. apply in_map_iff in Hr as [[r' k] [<- Hr]].
    apply (select_check_none allow r' k). exact (ac_trace_allowed _ _ _ h st o' Hi (r', k) Hr).
  Qed.
End Select.

(* ---------- listings ---------- *)

Lemma filter_map_filter {A} (p : A -> bool) (l : list A) :
  filter_map (fun a => if p a then Some a else None) l = filter p l.
Proof. induction l as [|a l IH]; cbn; [reflexivity|]. destruct (p a); now rewrite IH. Qed.

Definition visible (check : checker) (repo : bytes) : bool :=
  match check repo AccessRead with None => true | Some _ => false end.

Lemma ac_keep_filter check l : filter_map (ac_keep check) l = filter (visible check) l.
Proof.
  induction l as [|a l IH]; cbn; [reflexivity|].
  unfold ac_keep at 1, visible at 1. destruct (check a AccessRead); now rewrite IH.
Qed.

Lemma ac_listing {B} check listAll (bstep : registry B) st start st' l e :
  (listAll = true \/ check star AccessList = None) ->
  bstep st (Repositories start) = (st', Ok (RList l e)) ->
  ac_step check listAll bstep st (Repositories start) =
    (st', Ok (RList (filter (visible check) l) e), [Repositories start]).
Proof.
  intros Hs Hb. rewrite ac_allowed.
  - rewrite Hb. cbn [post repos_result fst snd]. now rewrite ac_keep_filter.
  - intros rk. cbn -[star]. destruct listAll; [intros []|].
    destruct Hs as [Hs|Hs]; [discriminate|]. intros [<-|[]]. exact Hs.
Qed.

(* --- the function literal, yield by yield --- *)

Definition always : nat -> bool := fun _ => true.

Lemma drive_all keep l e i :
  repos_drive keep always i (yields_of l e) =
    (yields_of (filter_map keep l) e, length (yields_of l e)).
Proof.
  unfold yields_of. revert i; induction l as [|a l IH]; intros i; cbn.
  - destruct e; reflexivity.
  - destruct (keep a); cbn; rewrite IH; reflexivity.
Qed.

Definition is_error (y : yld) : bool := match snd y with Some _ => true | None => false end.

(* an error yield is the last one: nothing is yielded after an error *)
Lemma drive_error_last keep more evs i pre y post0 :
  fst (repos_drive keep more i evs) = pre ++ y :: post0 -> is_error y = true -> post0 = [].
Proof.
  revert i pre; induction evs as [|[repo [e|]] evs IH]; intros i pre; cbn.
  - destruct pre; discriminate.
  - destruct pre as [|? [|? ?]]; cbn; try discriminate. intros H _. now injection H.
  - destruct (keep repo) as [p|].
    + destruct (more i).
      * specialize (IH (S i)). destruct (repos_drive keep more (S i) evs) as [ys n]. cbn in *.
        destruct pre as [|y0 pre]; cbn; intros H He.
        -- injection H as <- _. discriminate.
        -- injection H as _ H. eauto.
      * cbn. destruct pre as [|? [|? ?]]; cbn; try discriminate. intros H He.
        injection H as <- _. discriminate.
    + specialize (IH i). destruct (repos_drive keep more i evs) as [ys n]. cbn in *. eauto.
Qed.

(* the items before the first error of a raw event sequence *)
Fixpoint items_before_error (evs : list yld) : list bytes :=
  match evs with
  | (repo, None) :: evs' => repo :: items_before_error evs'
  | _ => []
  end.

Definition item_yields (ys : list yld) : list bytes :=
  map fst (filter (fun y => negb (is_error y)) ys).

(* what the consumer receives is a prefix of the kept items, in the backend's order:
   nothing is invented, reordered or taken from behind an error *)
Lemma drive_items_prefix keep more evs i :
  exists rest,
    filter_map keep (items_before_error evs) =
      item_yields (fst (repos_drive keep more i evs)) ++ rest.
Proof.
  revert i; induction evs as [|[repo [e|]] evs IH]; intros i; cbn.
  - exists []. reflexivity.
  - exists []. reflexivity.
  - destruct (keep repo) as [p|].
    + destruct (more i).
      * destruct (IH (S i)) as [rest Hr]. destruct (repos_drive keep more (S i) evs) as [ys n].
        cbn in *. exists rest. unfold item_yields in *. cbn. now rewrite Hr.
      * cbn. eexists. unfold item_yields. cbn. reflexivity.
    + destruct (IH i) as [rest Hr]. destruct (repos_drive keep more i evs) as [ys n].
      cbn in *. exists rest. exact Hr.
Qed.

(* when the consumer is never the one to stop, it receives all of them, and then the
   error if there is one *)
Lemma drive_all_items keep evs i :
  item_yields (fst (repos_drive keep always i evs)) = filter_map keep (items_before_error evs).
Proof.
  revert i; induction evs as [|[repo [e|]] evs IH]; intros i; cbn; try reflexivity.
  destruct (keep repo) as [p|]; cbn.
  - specialize (IH (S i)). destruct (repos_drive keep always (S i) evs). cbn in *.
    unfold item_yields in *. cbn. now rewrite IH.
  - specialize (IH i). destruct (repos_drive keep always i evs). exact IH.
Qed.

(* the wrapper stops as soon as its consumer declines: the yield answered with false is
   the last one *)
Lemma drive_stops keep more evs i ys n :
  repos_drive keep more i evs = (ys, n) ->
  forall k, (k < length ys)%nat -> more (i + k)%nat = false -> S k = length ys.
Proof.
  revert i ys n; induction evs as [|[repo [e|]] evs IH]; intros i ys n; cbn.
  - intros H. injection H as <- <-. cbn. lia.
  - intros H. injection H as <- <-. cbn. lia.
  - destruct (keep repo) as [p|].
    + destruct (more i) eqn:Em.
      * destruct (repos_drive keep more (S i) evs) as [ys' n'] eqn:E. intros H. injection H as <- <-.
        intros [|k] Hk Hm; cbn in *.
        -- rewrite Nat.add_0_r in Hm. congruence.
        -- f_equal. apply (IH (S i) ys' n' E k); [lia|].
           now replace (S i + k)%nat with (i + S k)%nat by lia.
      * intros H. injection H as <- <-. cbn. intros k Hk _. lia.
    + destruct (repos_drive keep more i evs) as [ys' n'] eqn:E. intros H. injection H as <- <-.
      eauto.
Qed.

(* the backend's iterator is told to stop (fewer events delivered than it has) only after
   an error or after the consumer declined *)
Lemma drive_delivered keep more evs i ys n :
  repos_drive keep more i evs = (ys, n) -> (n <= length evs)%nat.
Proof.
  revert i ys n; induction evs as [|[repo [e|]] evs IH]; intros i ys n; cbn.
  - intros H. injection H as <- <-. lia.
  - intros H. injection H as <- <-. lia.
  - destruct (keep repo) as [p|].
    + destruct (more i).
      * destruct (repos_drive keep more (S i) evs) as [ys' n'] eqn:E. intros H. injection H as <- <-.
        specialize (IH _ _ _ E). lia.
      * intros H. injection H as <- <-. lia.
    + destruct (repos_drive keep more i evs) as [ys' n'] eqn:E. intros H. injection H as <- <-.
      specialize (IH _ _ _ E). lia.
Qed.

(* ---------- the embedded nil Funcs ---------- *)

Lemma promoted_result_unsupported m :
  promoted_result m =
    if is_iter m then error_seq m (unsupported_err (method_name m))
    else Err (unsupported_err (method_name m)).
Proof.
  unfold promoted_result. rewrite (call_nil nil_funcs m [] eq_refl). destruct m; reflexivity.
Qed.

Lemma promoted_fail_closed {B C} (declared : method -> bool) (step : tstep B C) st o m :
  op_method o = Some m -> declared m = false ->
  with_embedded_funcs declared step st o = (st, promoted_result m, []) /\
  result_error (promoted_result m) = Some (unsupported_err (method_name m)).
Proof.
  intros Hm Hd. unfold with_embedded_funcs. rewrite Hm, Hd. split; [reflexivity|].
  rewrite promoted_result_unsupported. destruct m; reflexivity.
Qed.

Lemma declared_all_is_step {B C} (step : tstep B C) st o :
  with_embedded_funcs declared_all step st o = step st o.
Proof. unfold with_embedded_funcs, declared_all. destruct (op_method o); reflexivity. Qed.
