(* Facts about the reference registry's event log: lookups, live keys, has_content. *)
From Coq Require Import String.
From OCI Require Import Model.Mem Model.MemSpec.

Lemma is_some_true {A} (o : option A) : is_some o = true <-> o <> None.
Proof. destruct o; cbn; split; congruence. Qed.

(* a successful lookup comes from an event of the log *)
Lemma sblob_In l r d v : sblob l r d = Some v -> exists r' d', In (EvBlob r' d' (Some v)) l /\ r' = r /\ d' = d.
Proof.
  induction l as [|ev l IH]; cbn; [discriminate|].
  destruct ev as [r' d' v'|r' d' v'|r' t' v']; try (intros H; destruct (IH H) as (a & b & Hi & E1 & E2); eauto 6).
  destruct (beqb r r' && beqb d d') eqn:B.
  - intros ->. apply andb_true_iff in B as [B1 B2]. apply beqb_eq in B1, B2. subst. eauto 6.
  - intros H; destruct (IH H) as (a & b & Hi & E1 & E2); eauto 6.
Qed.
Lemma sman_In l r d v : sman l r d = Some v -> exists r' d', In (EvMan r' d' (Some v)) l /\ r' = r /\ d' = d.
Proof.
  induction l as [|ev l IH]; cbn; [discriminate|].
  destruct ev as [r' d' v'|r' d' v'|r' t' v']; try (intros H; destruct (IH H) as (a & b & Hi & E1 & E2); eauto 6).
  destruct (beqb r r' && beqb d d') eqn:B.
  - intros ->. apply andb_true_iff in B as [B1 B2]. apply beqb_eq in B1, B2. subst. eauto 6.
  - intros H; destruct (IH H) as (a & b & Hi & E1 & E2); eauto 6.
Qed.
Lemma stag_In l r t v : stag l r t = Some v -> exists r' t', In (EvTag r' t' (Some v)) l /\ r' = r /\ t' = t.
Proof.
  induction l as [|ev l IH]; cbn; [discriminate|].
  destruct ev as [r' d' v'|r' d' v'|r' t' v']; try (intros H; destruct (IH H) as (a & b & Hi & E1 & E2); eauto 6).
  destruct (beqb r r' && beqb t t') eqn:B.
  - intros ->. apply andb_true_iff in B as [B1 B2]. apply beqb_eq in B1, B2. subst. eauto 6.
  - intros H; destruct (IH H) as (a & b & Hi & E1 & E2); eauto 6.
Qed.

Lemma has_content_spec l r :
  has_content l r = true <->
  (exists k, sblob l r k <> None) \/ (exists k, sman l r k <> None) \/ (exists k, stag l r k <> None).
Proof.
  unfold has_content. rewrite existsb_exists. split.
  - intros [ev [Hi H]]. apply andb_true_iff in H as [H1 H2]. apply beqb_eq in H1.
    destruct ev as [r' d v|r' d v|r' t v]; cbn in H1, H2; subst r'; apply is_some_true in H2; eauto.
  - intros [[k H]|[[k H]|[k H]]].
    + destruct (sblob l r k) as [v|] eqn:E; [|congruence].
      destruct (sblob_In _ _ _ _ E) as (r' & d' & Hi & -> & ->).
      exists (EvBlob r k (Some v)). split; [exact Hi|]. cbn. rewrite beqb_refl, E. reflexivity.
    + destruct (sman l r k) as [v|] eqn:E; [|congruence].
      destruct (sman_In _ _ _ _ E) as (r' & d' & Hi & -> & ->).
      exists (EvMan r k (Some v)). split; [exact Hi|]. cbn. rewrite beqb_refl, E. reflexivity.
    + destruct (stag l r k) as [v|] eqn:E; [|congruence].
      destruct (stag_In _ _ _ _ E) as (r' & d' & Hi & -> & ->).
      exists (EvTag r k (Some v)). split; [exact Hi|]. cbn. rewrite beqb_refl, E. reflexivity.
Qed.

Lemma has_content_false l r :
  has_content l r = false ->
  (forall k, sblob l r k = None) /\ (forall k, sman l r k = None) /\ (forall k, stag l r k = None).
Proof.
  intros H. repeat split; intros k.
  - destruct (sblob l r k) eqn:E; [|reflexivity].
    assert (has_content l r = true) by (apply has_content_spec; left; exists k; congruence). congruence.
  - destruct (sman l r k) eqn:E; [|reflexivity].
    assert (has_content l r = true) by (apply has_content_spec; right; left; exists k; congruence). congruence.
  - destruct (stag l r k) eqn:E; [|reflexivity].
    assert (has_content l r = true) by (apply has_content_spec; right; right; exists k; congruence). congruence.
Qed.

(* live key lists: membership and duplicate-freedom *)
Lemma tag_keys_In l r t : In t (tag_keys l r) <-> stag l r t <> None.
Proof.
  unfold tag_keys. rewrite nodup_In, in_flat_map. split.
  - intros [ev [Hi H]]. destruct ev as [| |r' t' v]; try contradiction.
    destruct (beqb r r' && is_some (stag l r t')) eqn:B; [|contradiction].
    destruct H as [<-|[]]. apply andb_true_iff in B as [_ B]. now apply is_some_true.
  - intros H. destruct (stag l r t) as [v|] eqn:E; [|congruence].
    destruct (stag_In _ _ _ _ E) as (r' & t' & Hi & -> & ->).
    exists (EvTag r t (Some v)). split; [exact Hi|]. rewrite beqb_refl, E. cbn. now left.
Qed.
Lemma man_keys_In l r d : In d (man_keys l r) <-> sman l r d <> None.
Proof.
  unfold man_keys. rewrite nodup_In, in_flat_map. split.
  - intros [ev [Hi H]]. destruct ev as [|r' d' v|]; try contradiction.
    destruct (beqb r r' && is_some (sman l r d')) eqn:B; [|contradiction].
    destruct H as [<-|[]]. apply andb_true_iff in B as [_ B]. now apply is_some_true.
  - intros H. destruct (sman l r d) as [v|] eqn:E; [|congruence].
    destruct (sman_In _ _ _ _ E) as (r' & t' & Hi & -> & ->).
    exists (EvMan r d (Some v)). split; [exact Hi|]. rewrite beqb_refl, E. cbn. now left.
Qed.
Lemma repo_keys_In l r : In r (repo_keys l) <-> has_content l r = true.
Proof.
  unfold repo_keys, has_content. rewrite nodup_In, in_flat_map, existsb_exists. split.
  - intros [ev [Hi H]]. exists ev. split; [exact Hi|]. destruct (ev_live l ev); [|contradiction].
    destruct H as [<-|[]]. now rewrite beqb_refl.
  - intros [ev [Hi H]]. apply andb_true_iff in H as [H1 H2]. apply beqb_eq in H1.
    exists ev. split; [exact Hi|]. rewrite H2. now left.
Qed.
Lemma tag_keys_NoDup l r : NoDup (tag_keys l r).
Proof. apply NoDup_nodup. Qed.
Lemma man_keys_NoDup l r : NoDup (man_keys l r).
Proof. apply NoDup_nodup. Qed.
Lemma repo_keys_NoDup l : NoDup (repo_keys l).
Proof. apply NoDup_nodup. Qed.

(* filtering a strictly sorted list keeps it strictly sorted *)
Lemma ssorted_filter f l : ssorted l -> ssorted (filter f l).
Proof.
  unfold ssorted. induction 1 as [|a l Hs IH Hall]; cbn; [constructor|].
  destruct (f a); [|exact IH]. constructor; [exact IH|].
  rewrite Forall_forall in *. intros b Hb. apply filter_In in Hb as [Hb _]. auto.
Qed.
