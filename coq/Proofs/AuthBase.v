(* Proofs about Model/Auth.v, part 1: how the history functions of the specification
   (Model/AuthSpec.v) behave when events are added, and the exact shape of the token traffic
   that acquireToken / acquireAccessToken produce. *)
From Coq Require Import String ZArith Lia.
From OCI Require Import Base.Outcome Model.Scope Model.Challenge Model.Auth Model.AuthSpec Proofs.Challenge.

Local Open Scope Z_scope.

Definition is_start (id : nat) (e : event) : bool := match e with EStart i _ => Nat.eqb i id | _ => false end.
Definition is_reg (id : nat) (e : event) : bool := match e with ESend i (MReg _ _) _ => Nat.eqb i id | _ => false end.
Definition is_ret (id : nat) (e : event) : bool := match e with EReturn i _ => Nat.eqb i id | _ => false end.
Definition is_selfclose (id : nat) (e : event) : bool := match e with ESelfClose i => Nat.eqb i id | _ => false end.

Lemma other_id_facts id e : ev_id e <> id ->
  is_start id e = false /\ is_marker id e = false /\ is_reg id e = false /\ is_ret id e = false /\ is_selfclose id e = false.
Proof.
  intros H. destruct e as [i q|i|i m r|i|i|i|i r]; cbn in *; try destruct m;
    repeat split; try reflexivity; now apply Nat.eqb_neq.
Qed.

(* ---------- one more event ---------- *)

Lemma req_of_cons id e h : is_start id e = false -> req_of id (e :: h) = req_of id h.
Proof. destruct e; cbn; try reflexivity. now intros ->. Qed.

Lemma before_phase_cons id e h : is_marker id e = false -> before_phase id (e :: h) = before_phase id h.
Proof. cbn. now intros ->. Qed.

Lemma phase_events_cons id e h : is_marker id e = false -> ev_id e = id -> phase_events id (e :: h) = e :: phase_events id h.
Proof. cbn. intros -> ->. now rewrite Nat.eqb_refl. Qed.

Lemma phase_events_other id e h : ev_id e <> id -> phase_events id (e :: h) = phase_events id h.
Proof.
  intros H. cbn. destruct (is_marker id e) eqn:Em.
  - destruct e; cbn in *; try discriminate; apply Nat.eqb_eq in Em; congruence.
  - apply Nat.eqb_neq in H. now rewrite H.
Qed.

Lemma last_reg_cons id e h : is_reg id e = false -> last_reg id (e :: h) = last_reg id h.
Proof. destruct e as [| |i m r| | | |]; cbn; try reflexivity. destruct m; try reflexivity. now intros ->. Qed.

Lemma count_reg_cons id e h : is_reg id e = false -> count_reg id (e :: h) = count_reg id h.
Proof. destruct e as [| |i m r| | | |]; cbn; try reflexivity. destruct m; try reflexivity. now intros ->. Qed.

Lemma returned_cons id e h : is_ret id e = false -> returned id (e :: h) = returned id h.
Proof. destruct e; cbn; try reflexivity. now intros ->. Qed.

Lemma self_closed_cons id e h : is_selfclose id e = false -> self_closed id (e :: h) = self_closed id h.
Proof. destruct e; cbn; try reflexivity. now intros ->. Qed.

(* ---------- several more events, none of them by call [id] ---------- *)

Definition others (id : nat) (new : hist) : Prop := Forall (fun e => ev_id e <> id) new.

Lemma req_of_app id new h : others id new -> req_of id (new ++ h) = req_of id h.
Proof.
  induction 1 as [|e l He _ IH]; [reflexivity|]. cbn [app].
  rewrite req_of_cons; [exact IH | apply other_id_facts, He].
Qed.
Lemma before_phase_app id new h : others id new -> before_phase id (new ++ h) = before_phase id h.
Proof.
  induction 1 as [|e l He _ IH]; [reflexivity|]. cbn [app].
  rewrite before_phase_cons; [exact IH | apply other_id_facts, He].
Qed.
Lemma last_reg_app id new h : others id new -> last_reg id (new ++ h) = last_reg id h.
Proof.
  induction 1 as [|e l He _ IH]; [reflexivity|]. cbn [app].
  rewrite last_reg_cons; [exact IH | apply other_id_facts, He].
Qed.
Lemma count_reg_app id new h : others id new -> count_reg id (new ++ h) = count_reg id h.
Proof.
  induction 1 as [|e l He _ IH]; [reflexivity|]. cbn [app].
  rewrite count_reg_cons; [exact IH | apply other_id_facts, He].
Qed.
Lemma returned_app id new h : others id new -> returned id (new ++ h) = returned id h.
Proof.
  induction 1 as [|e l He _ IH]; [reflexivity|]. cbn [app].
  rewrite returned_cons; [exact IH | apply other_id_facts, He].
Qed.


(* a call without any event has no request on record *)
Lemma req_of_none id h : (forall e, In e h -> ev_id e <> id) -> req_of id h = None.
Proof.
  induction h as [|e h IH]; intros H; [reflexivity|].
  rewrite req_of_cons; [apply IH; intros; apply H; now right|].
  apply other_id_facts, H. now left.
Qed.

(* an event that does not start a call anew *)
Definition fresh_ev (e : event) (h : hist) : Prop := forall i q, e = EStart i q -> req_of i h = None.

Lemma on_host_cons i host e h : fresh_ev e h -> on_host i host h = true -> on_host i host (e :: h) = true.
Proof.
  intros Hf H. unfold on_host in *. destruct (is_start i e) eqn:Es.
  - destruct e; try discriminate. cbn in Es. apply Nat.eqb_eq in Es. subst.
    rewrite (Hf _ _ eq_refl) in H. discriminate.
  - now rewrite req_of_cons.
Qed.

Lemma existsb_mono {A} (f g : A -> bool) (l l' : list A) :
  (forall x, In x l -> f x = true -> In x l' /\ g x = true) -> existsb f l = true -> existsb g l' = true.
Proof.
  intros H Hx. apply existsb_exists in Hx as [x [Hi Hf]]. apply existsb_exists. exists x. now apply H.
Qed.

Section WithEnv.
  Variable E : env.

  Lemma issues_cons e h : issues E (e :: h) = ocons (issue_at E (e :: h)) (issues E h).
  Proof. reflexivity. Qed.

  Lemma in_issues_cons i e h : In i (issues E h) -> In i (issues E (e :: h)).
  Proof. rewrite issues_cons. destruct (issue_at E (e :: h)); cbn; auto. Qed.

  Lemma named_cons host p e h : named host p h = true -> named host p (e :: h) = true.
  Proof.
    intros H. destruct e as [| |i m r| | | |]; cbn; auto. destruct m; auto. rewrite H. apply orb_true_r.
  Qed.

  Lemma named_app host p new h : named host p h = true -> named host p (new ++ h) = true.
  Proof. induction new; cbn [app]; auto. intros. now apply named_cons, IHnew. Qed.

  Lemma token_of_host_cons host t e h :
    fresh_ev e h -> token_of_host E host t h = true -> token_of_host E host t (e :: h) = true.
  Proof.
    intros Hf. unfold token_of_host. intros H. apply orb_true_iff in H as [H|H]; [now rewrite H|].
    apply orb_true_iff. right. revert H. apply existsb_mono. intros x Hi Hx.
    apply andb_true_iff in Hx as [H1 H2]. split; [now apply in_issues_cons|].
    now rewrite (on_host_cons _ _ _ _ Hf H1).
  Qed.

  Lemma refresh_of_host_cons host t e h :
    fresh_ev e h -> refresh_of_host E host t h = true -> refresh_of_host E host t (e :: h) = true.
  Proof.
    intros Hf. unfold refresh_of_host. intros H. apply orb_true_iff in H as [H|H]; [now rewrite H|].
    apply orb_true_iff. right. revert H. apply existsb_mono. intros x Hi Hx.
    apply andb_true_iff in Hx as [H1 H2]. split; [now apply in_issues_cons|].
    now rewrite (on_host_cons _ _ _ _ Hf H1).
  Qed.

  (* ---------- token traffic ---------- *)

  Definition tok_result (rsp : resp) : R terr wire_token :=
    match rsp with
    | RFail => Err TPlain
    | RHttp st _ b =>
        if negb (st =? 200)%N then Err (THttp st)
        else match b with TBJSON w => Ok w | _ => Err TPlain end
    end.

  Lemma do_token_request_eq id m h :
    do_token_request E id m h = (tok_result (e_net E h m), ESend id m (e_net E h m) :: h).
  Proof.
    unfold do_token_request, send, tok_result. destruct (e_net E h m) as [|st www b]; [reflexivity|].
    destruct (negb (st =? 200)%N); [reflexivity|]. now destruct b.
  Qed.

  Definition realm_of (www : auth_header) : bytes := pget k_realm (ah_params www).
  Definition service_of (www : auth_header) : bytes := pget k_service (ah_params www).

  Definition post_form (rf : bytes) (www : auth_header) (txt : bytes) : list (bytes * bytes) :=
    [(k_client_id, oauthClientID); (k_grant_type, k_refresh_token); (k_refresh_token, rf); (k_scope, txt)]
    ++ (if nonempty (service_of www) then [(k_service, service_of www)] else []).

  Definition get_query (www : auth_header) (txt : bytes) (q : values) : values :=
    let v := vset k_scope (split_byte space txt) q in
    if nonempty (service_of www) then vset k_service [service_of www] v else v.

  Definition is_post_for (rf : bytes) (www : auth_header) (txt : bytes) (m : msg) : Prop :=
    nonempty rf = true /\ e_purl E (realm_of www) <> None /\ m = MPost (realm_of www) (post_form rf www txt) ANone.

  Definition is_get_for (bs : authz) (www : auth_header) (txt : bytes) (m : msg) : Prop :=
    exists base q, e_purl E (realm_of www) = Some (base, q) /\ m = MGet base (get_query www txt q) bs.

  (* what one acquireToken adds to the history, and its result *)
  Definition tok_seq (id : nat) (rf : bytes) (bs : authz) (www : auth_header) (txt : bytes)
      (new : hist) (res : R terr wire_token) : Prop :=
    (new = [] /\ res = Err TPlain)
    \/ (exists m rsp, new = [ESend id m rsp] /\ (is_post_for rf www txt m \/ is_get_for bs www txt m)
                      /\ res = tok_result rsp)
    \/ (exists mp wwwp bp mg rg, new = [ESend id mg rg; ESend id mp (RHttp 404 wwwp bp)]
                      /\ is_post_for rf www txt mp /\ is_get_for bs www txt mg /\ res = tok_result rg).

  Lemma acquire_token_get_shape id r www sc h res h' :
    acquire_token_get E id r www sc h = (res, h') ->
    (e_purl E (realm_of www) = None /\ h' = h /\ res = Err TPlain)
    \/ exists m rsp, h' = ESend id m rsp :: h /\ is_get_for (basic_of r) www (String sc) m /\ res = tok_result rsp.
  Proof.
    unfold acquire_token_get. fold (realm_of www).
    destruct (e_purl E (realm_of www)) as [[base q]|] eqn:Ep.
    - rewrite do_token_request_eq. intros [= <- <-]. right. eexists _, _. split; [reflexivity|].
      split; [|reflexivity]. exists base, q. split; [exact Ep|]. reflexivity.
    - intros [= <- <-]. now left.
  Qed.


  Lemma acquire_token_shape id r www sc h res h' :
    r_www r = Some www -> acquire_token E id r sc h = (res, h') ->
    exists new, h' = new ++ h /\ tok_seq id (r_refresh r) (basic_of r) www (String sc) new res.
  Proof.
    intros Hw. unfold acquire_token. rewrite Hw. fold (realm_of www).
    destruct (is_nil (realm_of www)). { intros [= <- <-]. exists []. split; [reflexivity|]. now left. }
    destruct (nonempty (r_refresh r)) eqn:Erf.
    - destruct (e_purl E (realm_of www)) as [pu|] eqn:Ep.
      2:{ intros [= <- <-]. exists []. split; [reflexivity|]. now left. }
      rewrite do_token_request_eq. fold (service_of www).
      set (form := _ ++ _). set (rsp := e_net E h (MPost (realm_of www) form ANone)).
      assert (is_post_for (r_refresh r) www (String sc) (MPost (realm_of www) form ANone)) as Hpost.
      { split; [exact Erf|]. split; [congruence|]. reflexivity. }
      assert (forall res, (tok_result rsp, ESend id (MPost (realm_of www) form ANone) rsp :: h) = (res, h') ->
              exists new, h' = new ++ h /\ tok_seq id (r_refresh r) (basic_of r) www (String sc) new res) as Hone.
      { intros res0 [= <- <-]. exists [ESend id (MPost (realm_of www) form ANone) rsp]. split; [reflexivity|].
        right. left. eexists _, _. split; [reflexivity|]. split; [now left | reflexivity]. }
      destruct (tok_result rsp) as [w|e| |] eqn:Er; try (apply Hone).
      destruct e as [|st]; [apply Hone|].
      destruct (st =? 404)%N eqn:E404; [|apply Hone].
      apply N.eqb_eq in E404. subst st.
      assert (exists wwwp bp, rsp = RHttp 404 wwwp bp) as [wwwp [bp Hrsp]].
      { unfold tok_result in Er. destruct rsp as [|st www' b]; [discriminate|].
        destruct (negb (st =? 200)%N); [injection Er as ->; eauto|]. destruct b; discriminate. }
      intros Hg. apply acquire_token_get_shape in Hg as [[Hno _]|[m [rg [-> [Hget ->]]]]].
      + congruence.
      + exists [ESend id m rg; ESend id (MPost (realm_of www) form ANone) rsp]. split; [reflexivity|].
        right. right. rewrite Hrsp. eexists _, _, _, _, _. split; [reflexivity|]. split; [exact Hpost|]. split; [exact Hget | reflexivity].
    - intros Hg. apply acquire_token_get_shape in Hg as [[_ [-> ->]]|[m [rg [-> [Hget ->]]]]].
      + exists []. split; [reflexivity|]. now left.
      + exists [ESend id m rg]. split; [reflexivity|]. right. left. eexists _, _. split; [reflexivity|].
        split; [now right | reflexivity].
  Qed.
End WithEnv.
