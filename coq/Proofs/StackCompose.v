(* C03 (d), composition: the answer of the stack to a conforming answer is a conforming answer
   again ([conf_view]), so a second client -> server hop in front of the stack-as-backend
   ([stack_bstep], independent option sets and client configurations) is covered by the same
   step lemma: [two_hops_one] gives two hops for every method that is one client call, from one
   statement, instead of Proofs/StackTwoHops.v's three representative methods.  The innermost
   backend receives the one call [bop c]; the caller gets [view o2 c (view o1 c r)].

   What does not compose for free: an error grows on each hop (the client wraps what it read), so
   that the twice-relayed error still fits the client's 8 KiB limit is a hypothesis of its own
   ([relayable (wire_error ...)], as in Proofs/StackTwoHops.v). *)
From Coq Require Import String.
From OCI Require Import Model.Stack Proofs.Request Proofs.StackBase Proofs.StackDesc Proofs.StackRange.
From OCI Require Import Proofs.RequestCodec Proofs.StackTransparent Proofs.StackListing Proofs.StackListingB Proofs.StackTwoHops.
From OCI Require Import Proofs.StackUpload Proofs.StackStep.

Local Open Scope Z_scope.

Lemma bop_idem c : bop (bop c) = bop c.
Proof.
  destruct c; try reflexivity. cbn [bop]. unfold whole_range. destruct ((o0 =? 0) && (o1 <? 0)) eqn:E; [reflexivity|].
  cbn [bop]. unfold whole_range, server_end.
  destruct (Z.ltb_spec o1 0).
  - change (-1 <? 0) with true. rewrite andb_true_r in E |- *. now rewrite E.
  - destruct (Z.ltb_spec o1 0); [lia|]. rewrite andb_false_r. reflexivity.
Qed.

Lemma one_call_bop c : one_call c = true -> one_call (bop c) = true.
Proof. destruct c; try discriminate; try reflexivity. cbn [bop]. destruct (whole_range o0 o1); reflexivity. Qed.

Lemma reads_bop c : reads (bop c) = reads c.
Proof. destruct c; try reflexivity. cbn [bop]. destruct (whole_range o0 o1); reflexivity. Qed.

Lemma events_bop c r : events (bop c) r = events c r.
Proof. unfold events. now rewrite bop_idem, reads_bop. Qed.

Section Compose.
  Variable linked : alg -> bool.
  Variable hash : bytes -> bytes -> bytes.
  Variable subject_of : bytes -> option (option bytes).
  Variable media : bytes -> bytes.
  Variable enc : jval -> bytes.
  Variable dec_errors : bytes -> option (list werr).
  Variable dec_names : bool -> bytes -> option (list bytes).
  Variable dec_index : bytes -> option (list desc).
  Variable redirect : bytes -> bytes -> bytes * bytes.

  Notation wf := (wf_op linked hash subject_of).
  Notation conf := (conf_answer linked hash enc).
  Notation viewv := (view hash enc).
  Notation relay := (relayable enc).
  Notation werror := (wire_error enc).

  Lemma wf_bop c : wf c -> wf (bop c).
  Proof.
    destruct c; try (intros H; exact H). cbn [bop wf_op]. intros (Hr & Hd & Hex).
    destruct (whole_range o0 o1) eqn:E; cbn [wf_op]; [auto|]. repeat split; try assumption.
    - apply Hex.
    - apply Hex.
    - unfold whole_range in E. destruct Hex as (H0 & [Hn | Hp]); unfold server_end.
      + destruct (Z.ltb_spec o1 0); [left; lia | lia].
      + destruct (Z.ltb_spec o1 0); [lia | right; exact Hp].
  Qed.

  Lemma server_end_idem o1 : server_end (server_end o1) = server_end o1.
  Proof. unfold server_end. destruct (Z.ltb_spec o1 0); [reflexivity|]. destruct (Z.ltb_spec o1 0); [lia | reflexivity]. Qed.

  Lemma whole_range_bop o0 o1 : whole_range o0 o1 = false -> whole_range o0 (server_end o1) = false.
  Proof.
    unfold whole_range, server_end. intros E. destruct (Z.ltb_spec o1 0).
    - rewrite andb_true_r in E. rewrite E. reflexivity.
    - destruct (Z.ltb_spec o1 0); [lia|]. apply andb_false_r.
  Qed.

  Lemma conf_bop o c r : conf o (bop c) r <-> conf o c r.
  Proof.
    destruct c; try tauto. cbn [bop]. destruct (whole_range o0 o1) eqn:E.
    - destruct r; cbn [conf_answer conf_ok]; try tauto. rewrite E. tauto.
    - destruct r; cbn [conf_answer conf_ok]; try tauto. rewrite E, (whole_range_bop _ _ E), server_end_idem. tauto.
  Qed.

  Lemma view_bop o c r : viewv o (bop c) r = viewv o c r.
  Proof.
    destruct c; try reflexivity. cbn [bop]. destruct (whole_range o0 o1); destruct r; reflexivity.
  Qed.

  Lemma tag_small_bop o c r : tag_small o (bop c) r <-> tag_small o c r.
  Proof. destruct c; try tauto. cbn [bop]. destruct (whole_range o0 o1); tauto. Qed.

  Lemma referrers_ok_bop o c : referrers_ok o (bop c) <-> referrers_ok o c.
  Proof. destruct c; try tauto. cbn [bop]. destruct (whole_range o0 o1); tauto. Qed.

  Lemma media_or_octet_nonempty m : media_or_octet m <> [].
  Proof. destruct m; discriminate. Qed.

  (* ---------------------------------------------------------- conformance is kept by a hop *)

  (* the error of an answer, when it has one to relay *)
  Definition answer_error (c : op) (r : bres) : option (bool * gerr) :=
    match r with
    | Err e => Some (is_head c, e)
    | Ok v => match c with
              | Referrers _ _ _ => match iter_err_of v with Some e => Some (false, e) | None => None end
              | _ => None
              end
    | _ => None
    end.

  (* The stack's answer [view o1 c r] to a conforming answer [r] of the backend is conforming for
     a hop with options [o2] in front of it, provided the relayed error (if the answer is one) can
     be relayed once more. *)
  Theorem conf_view o1 o2 c r :
    one_call c = true -> wf c ->
    conf o1 c r -> conf o2 c r -> tag_small o1 c r ->
    (forall h e, answer_error c r = Some (h, e) -> relay (werror h e)) ->
    conf o2 c (viewv o1 c r).
  Proof.
    intros H1 Hwf Hc1 Hc2 Hts Herr.
    destruct r as [v|e| |]; cbn [conf_answer] in *; try contradiction.
    - destruct c as [rp d|rp d o0 o1'|rp d|rp t|rp d|rp d|rp t|rp de content|rp hint|rp id off hint|from to d|rp t content med|rp d|rp d|rp t|st0|rp st0|rp d art|h data|h|h|h|h|h d|h];
        try discriminate H1; cbn [view view_ok conf_answer conf_ok wf_op answer_error] in *; cbn [tag_small] in Hts.
      + destruct Hc2 as ((A & B0 & C) & D). unfold read_view, conf_read. cbn [desc_of data_of d_size d_digest]. auto.
      + destruct (whole_range o0 o1').
        * destruct Hc2 as ((A & B0 & C) & D). unfold read_view, conf_read. cbn [desc_of data_of d_size d_digest]. auto.
        * unfold read_view. cbn [desc_of data_of d_size d_digest].
          destruct Hc2 as (A & B0 & C & D). split; [exact A|]. split; [exact B0|]. split; [exact C | reflexivity].
      + destruct Hc2 as ((A & B0 & C) & D & E). unfold read_view, conf_read. cbn [desc_of data_of d_size d_digest d_media].
        repeat split; auto. apply media_or_octet_nonempty.
      + destruct Hc1 as (A1 & (B1 & C1 & D1) & E1 & F1). destruct Hc2 as (A2 & (B2 & C2 & D2) & E2 & F2).
        unfold omit in *. destruct (o_omit_digest_from_tag_get o1) eqn:Eo1.
        * (* the inner hop reports the sha256 digest of the body *)
          cbn [tag_small] in Hts. unfold omit in Hts. destruct (F1 eq_refl (Hts eq_refl)) as (Hl & Hdg).
          unfold read_view, conf_read. cbn [desc_of data_of d_size d_digest d_media]. rewrite <- Hdg.
          split; [exact A1|]. split; [auto|]. split; [apply media_or_octet_nonempty|]. intros _ _. split; [exact Hl | reflexivity].
        * unfold head_desc, conf_read. cbn [desc_of data_of d_size d_digest d_media].
          split; [exact A2|]. split; [auto|]. split; [apply media_or_octet_nonempty | exact F2].
      + exact Hc2.
      + destruct Hc2 as ((A & B0) & C & D). destruct Hwf as (_ & Hd). unfold conf_desc in *. cbn [desc_of d_size d_digest d_media].
        split; [split; [destruct (omit o1); [exact Hd | exact A] | exact B0]|].
        split; [destruct (omit o1); [reflexivity | exact C] | apply media_or_octet_nonempty].
      + destruct Hc2 as ((A & B0) & C). unfold head_desc, conf_desc in *. cbn [desc_of d_size d_digest d_media].
        split; [split; [exact A | exact B0] | apply media_or_octet_nonempty].
      + exact Hc2.
      + unfold manifest_desc. cbn [desc_of d_size d_digest d_media]. auto.
      + exact I.
      + exact I.
      + exact I.
      + destruct (iter_err_of v) as [e|] eqn:Ei; cbn [iter_err_of descs_of].
        * split; [apply (Herr false e eq_refl) | reflexivity].
        * exact Hc2.
    - destruct c as [rp d|rp d o0 o1'|rp d|rp t|rp d|rp d|rp t|rp de content|rp hint|rp id off hint|from to d|rp t content med|rp d|rp d|rp t|st0|rp st0|rp d art|h data|h|h|h|h|h d|h];
        try discriminate H1; cbn [view conf_answer conf_ok is_head answer_error iter_err_of descs_of] in *;
        try (apply (Herr _ e eq_refl)).
      split; [apply (Herr false e eq_refl) | reflexivity].
  Qed.
End Compose.

(* ================================================================ two hops, every one-call method *)

Section TwoHops.
  Variable linked : alg -> bool.
  Variable hash : bytes -> bytes -> bytes.
  Variable subject_of : bytes -> option (option bytes).
  Variable media : bytes -> bytes.
  Variable enc : jval -> bytes.
  Variable dec_errors : bytes -> option (list werr).
  Variable dec_names : bool -> bytes -> option (list bytes).
  Variable dec_index : bytes -> option (list desc).
  Variable redirect : bytes -> bytes -> bytes * bytes.
  Variable B : Type.
  Variable bstep : backend B.
  Variable o1 o2 : opts.
  Variable cc1 cc2 : ccfg.

  Hypothesis media_json : media json_ct = json_ct.
  Hypothesis json_errors_rt : forall w, dec_errors (enc (JErr w)) = Some [w].
  Hypothesis json_index_rt : forall l, dec_index (enc (JIndex l)) = Some l.
  Hypothesis no_locs1 : o_locs o1 = None.
  Hypothesis no_locs2 : o_locs o2 = None.
  Hypothesis bufsz1 : (1 <= cc_bufsz cc1)%nat.
  Hypothesis bufsz2 : (1 <= cc_bufsz cc2)%nat.

  Notation stackv o cc bs := (stack_bstep linked hash subject_of media enc dec_errors dec_names dec_index redirect bs o cc).
  Notation hop1 := (stackv o1 cc1 bstep).
  Notation hop2 := (stackv o2 cc2 hop1).
  Notation wf := (wf_op linked hash subject_of).
  Notation conf := (conf_answer linked hash enc).
  Notation viewv := (view hash enc).

  (* the state behind the outer hop is the inner stack's state *)
  Definition inner (st2 : sstate (sstate B)) : sstate B := sv_b (st_srv st2).

  Theorem two_hops_one (st2 : sstate (sstate B)) c b' r :
    one_call c = true -> wf c -> clean st2 -> clean (inner st2) ->
    bstep (sv_b (st_srv (inner st2))) (bop c) = (b', r) ->
    conf o1 c r -> conf o2 c (viewv o1 c r) ->
    tag_small o1 c r -> tag_small o2 c (viewv o1 c r) -> referrers_ok o1 c -> referrers_ok o2 c ->
    hop2 st2 c
    = (stepped (sstate B) st2 (stepped B (inner st2) b' (events c r)) (events c (viewv o1 c r)),
       viewv o2 c (viewv o1 c r)).
  Proof.
    intros H1 Hwf Hcl2 Hcl1 Hb Hc1 Hc2 Ht1 Ht2 Hr1 Hr2.
    assert (Hin : hop1 (inner st2) (bop c) = (stepped B (inner st2) b' (events c r), viewv o1 c r)).
    { rewrite <- (events_bop c r), <- (view_bop hash enc o1 c r).
      apply (step_one linked hash subject_of media enc dec_errors dec_names dec_index redirect B bstep o1 cc1
               media_json json_errors_rt json_index_rt no_locs1 bufsz1 (inner st2) (bop c) b' r).
      - now apply one_call_bop.
      - now apply wf_bop.
      - exact Hcl1.
      - rewrite bop_idem. exact Hb.
      - now apply conf_bop.
      - now apply tag_small_bop.
      - now apply referrers_ok_bop. }
    exact (step_one linked hash subject_of media enc dec_errors dec_names dec_index redirect (sstate B) hop1 o2 cc2
             media_json json_errors_rt json_index_rt no_locs2 bufsz2 st2 c _ _ H1 Hwf Hcl2 Hin Hc2 Ht2 Hr2).
  Qed.

  (* with [conf_view]: what is asked of the backend's one answer *)
  Corollary two_hops_conforming (st2 : sstate (sstate B)) c b' r :
    one_call c = true -> wf c -> clean st2 -> clean (inner st2) ->
    bstep (sv_b (st_srv (inner st2))) (bop c) = (b', r) ->
    conf o1 c r -> conf o2 c r ->
    (forall h e, answer_error c r = Some (h, e) -> relayable enc (wire_error enc h e)) ->
    tag_small o1 c r -> tag_small o2 c (viewv o1 c r) -> referrers_ok o1 c -> referrers_ok o2 c ->
    hop2 st2 c
    = (stepped (sstate B) st2 (stepped B (inner st2) b' (events c r)) (events c (viewv o1 c r)),
       viewv o2 c (viewv o1 c r))
    /\ sv_b (st_srv (inner (fst (hop2 st2 c)))) = b'
    /\ sv_tr (st_srv (inner (fst (hop2 st2 c)))) = events c r.
  Proof.
    intros H1 Hwf Hcl2 Hcl1 Hb Hc1 Hc2 Herr Ht1 Ht2 Hr1 Hr2.
    pose proof (conf_view linked hash subject_of enc o1 o2 c r H1 Hwf Hc1 Hc2 Ht1 Herr) as Hcv.
    rewrite (two_hops_one st2 c b' r H1 Hwf Hcl2 Hcl1 Hb Hc1 Hcv Ht1 Ht2 Hr1 Hr2).
    split; [reflexivity|]. split; reflexivity.
  Qed.
End TwoHops.

Print Assumptions conf_view.
Print Assumptions two_hops_one.
Print Assumptions two_hops_conforming.
