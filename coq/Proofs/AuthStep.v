(* Proofs about Model/Auth.v, part 4: every step of every schedule preserves the invariant. *)
From Coq Require Import String ZArith Lia.
From OCI Require Import Base.Outcome Model.Scope Model.Challenge Model.Auth Model.AuthSpec
  Proofs.Challenge Proofs.AuthBase Proofs.AuthShape Proofs.AuthInv.

Local Open Scope Z_scope.

Section Step.
  Variable E : env.

  (* the issue made by a successful token block is the newest event *)
  Lemma block_issue id rf bs www A B toks sc2 w h :
    tok_block E id rf bs www A B toks sc2 (Ok w) ->
    exists rest, toks = rest /\ toks <> [] /\
      issue_at E (toks ++ h) = Some {| i_id := id; i_text := String sc2; i_tok := tok_of w; i_refresh := wt_refresh w;
                                       i_exp := e_clock E (toks ++ h) + life w |}.
  Proof.
    intros Hb. apply tok_block_ok in Hb as [m [www' [rest [-> Hm]]]].
    destruct (tokmsg_facts E _ _ _ _ _ Hm) as [Hm1 Hm2].
    eexists. split; [reflexivity|]. split; [discriminate|].
    cbn [app issue_at]. rewrite Hm1, Hm2. reflexivity.
  Qed.

  Lemma issue_head_in i toks h : toks <> [] -> issue_at E (toks ++ h) = Some i -> In i (issues E (toks ++ h)).
  Proof.
    destruct toks as [|e toks]; [congruence|]. intros _ Hi. cbn [app] in *. rewrite issues_cons, Hi. now left.
  Qed.

  Lemma block_RI host id r0 www A B toks sc2 res2 resa r1 h :
    RI E host r0 h -> r_www r0 = Some www -> on_host id host h = true ->
    tok_block E id (r_refresh r0) (basic_of r0) www A B toks sc2 res2 ->
    aat_final E r0 sc2 res2 (toks ++ h) resa r1 -> static_eq r0 r1 ->
    incl (r_asked r0) (r_asked r1) -> In sc2 (r_asked r1) ->
    RI E host r1 (toks ++ h).
  Proof.
    intros Hri Hw Hon Hb Hf [Hs1 [Hs2 [Hs3 Hs4]]] Hinc Hin.
    pose proof (tok_block_sends E _ _ _ _ _ _ _ _ _ Hb) as Hsends.
    pose proof (tok_sends_fresh _ _ h Hsends) as Hfresh.
    pose proof (RI_app E _ _ _ _ Hfresh Hri) as [R1 R2 R3 R4 R5].
    assert (on_host id host (toks ++ h) = true) as Hon' by now apply on_host_app.
    assert (forall tok, In tok (r_tokens r0) -> tok_just E host r1 tok (toks ++ h)) as Hold.
    { intros tok Ht. eapply tok_just_asked; [exact Hinc | now apply R5]. }
    split.
    - congruence.
    - intros Hi. rewrite Hs4. apply R2. congruence.
    - unfold aat_final in Hf. destruct res2 as [w|e| |]; try contradiction.
      + destruct Hf as [Hrf _]. rewrite Hrf. destruct (nonempty (wt_refresh w)) eqn:En; [|exact R3].
        right. destruct (block_issue _ _ _ _ _ _ _ _ _ h Hb) as [_ [_ [Hne Hi]]].
        unfold refresh_of_host. apply orb_true_iff. right. apply existsb_exists.
        eexists. split; [exact (issue_head_in _ _ _ Hne Hi)|]. cbn. now rewrite Hon', beqb_refl.
      + destruct Hf as [_ [Hrf _]]. rewrite Hrf. exact R3.
    - intros ch Hc. apply R4. congruence.
    - unfold aat_final in Hf. destruct res2 as [w|e| |]; try contradiction.
      + destruct Hf as [_ Hf]. destruct (is_nil (tok_of w)) eqn:En.
        * destruct Hf as [_ Ht]. rewrite Ht. exact Hold.
        * destruct Hf as [_ Ht]. rewrite Ht. intros tok Hin'. apply in_app_or in Hin' as [Hin'|[<-|[]]]; [now apply Hold|].
          right. destruct (block_issue _ _ _ _ _ _ _ _ _ h Hb) as [_ [_ [Hne Hi]]].
          eexists. split; [exact (issue_head_in _ _ _ Hne Hi)|]. cbn.
          repeat split; auto. unfold nonempty. now rewrite En.
      + destruct Hf as [_ [_ Ht]]. rewrite Ht. exact Hold.
  Qed.

  (* dropping expired tokens, recording a challenge *)
  Lemma RI_delete host r h now : RI E host r h -> RI E host (delete_expired r now) h.
  Proof.
    intros [R1 R2 R3 R4 R5]. split; auto. cbn. intros tok Ht. apply filter_In in Ht as [Ht _].
    destruct (R5 tok Ht) as [H|H]; [now left | now right].
  Qed.

  Lemma RI_set_www host r ch h : RI E host r h -> Named host ch h -> RI E host (set_www r ch) h.
  Proof.
    intros [R1 R2 R3 R4 R5] Hn. split; auto.
    cbn. intros c [= <-]. exact Hn.
  Qed.

  Lemma RI_init host h : RI E host (init_inner (e_cfg E host)) h.
  Proof.
    unfold init_inner. destruct (e_cfg E host) as [ce|] eqn:Ec.
    - split; cbn; auto.
      + intros _. unfold cfg_basic. now rewrite Ec.
      + right. unfold refresh_of_host. now rewrite Ec, beqb_refl.
      + discriminate.
      + intros tok Ht. destruct (nonempty (ce_access ce)) eqn:En; [|destruct Ht].
        destruct Ht as [<-|[]]. left. now exists ce.
    - split; cbn; auto; try discriminate. contradiction.
  Qed.

  (* ---------- the end of a call ---------- *)

  Lemma finish_Inv st id q hdr rg' res new :
    Inv E st ->
    mine id new -> fresh_new new (history st) ->
    (forall host r', reg_get host rg' = Some r' -> RI E host r' (new ++ history st)) ->
    (forall host r, reg_get host (regs st) = Some r -> r_initerr r = false ->
                    exists r', reg_get host rg' = Some r' /\ r_initerr r' = false) ->
    req_of id (new ++ history st) = Some q ->
    Inv E (finish st id q hdr rg' res (new ++ history st)).
  Proof.
    intros Hinv Hm Hf Hri Hie Hq. unfold finish.
    change (EReturn id res :: new ++ history st) with ((EReturn id res :: new) ++ history st).
    apply Inv_update; auto.
    - constructor; [reflexivity | exact Hm].
    - apply fresh_new_cons; [intros i q' Hx; discriminate | exact Hf].
    - intros host r' Hg. apply (RI_cons E _ _ (EReturn id res)); [intros i q' Hx; discriminate|]. now apply Hri.
    - split; cbn [th_q th_pc app].
      + now rewrite req_of_cons.
      + cbn. now rewrite Nat.eqb_refl.
  Qed.

  (* ---------- events that are neither a phase marker, nor an attempt, nor a return ---------- *)

  Definition quiet (id : nat) (e : event) : bool := negb (is_marker id e || is_reg id e || is_ret id e).
  Definition quiets (id : nat) (new : hist) : Prop := Forall (fun e => quiet id e = true) new.

  Lemma quiet_facts id e : quiet id e = true ->
    is_marker id e = false /\ is_reg id e = false /\ is_ret id e = false /\ is_start id e = false.
  Proof.
    unfold quiet. intros H. apply negb_true_iff in H. apply orb_false_iff in H as [H H3].
    apply orb_false_iff in H as [H1 H2]. repeat split; auto.
    destruct e; cbn in *; auto.
  Qed.

  Lemma tok_sends_quiets id new : tok_sends id new -> quiets id new.
  Proof. apply Forall_impl. intros e [m [rsp [-> Hm]]]. destruct m; [discriminate| |]; reflexivity. Qed.

  Lemma quiets_app id a b : quiets id a -> quiets id b -> quiets id (a ++ b).
  Proof. intros. now apply Forall_app. Qed.

  Lemma req_of_quiets id new h : quiets id new -> req_of id (new ++ h) = req_of id h.
  Proof. induction 1 as [|e l He _ IH]; [reflexivity|]. cbn [app]. rewrite req_of_cons; [exact IH | apply quiet_facts, He]. Qed.
  Lemma before_phase_quiets id new h : quiets id new -> before_phase id (new ++ h) = before_phase id h.
  Proof. induction 1 as [|e l He _ IH]; [reflexivity|]. cbn [app]. rewrite before_phase_cons; [exact IH | apply quiet_facts, He]. Qed.
  Lemma last_reg_quiets id new h : quiets id new -> last_reg id (new ++ h) = last_reg id h.
  Proof. induction 1 as [|e l He _ IH]; [reflexivity|]. cbn [app]. rewrite last_reg_cons; [exact IH | apply quiet_facts, He]. Qed.
  Lemma count_reg_quiets id new h : quiets id new -> count_reg id (new ++ h) = count_reg id h.
  Proof. induction 1 as [|e l He _ IH]; [reflexivity|]. cbn [app]. rewrite count_reg_cons; [exact IH | apply quiet_facts, He]. Qed.
  Lemma returned_quiets id new h : quiets id new -> returned id (new ++ h) = returned id h.
  Proof. induction 1 as [|e l He _ IH]; [reflexivity|]. cbn [app]. rewrite returned_cons; [exact IH | apply quiet_facts, He]. Qed.

  (* a call that has not started has left no trace *)
  Lemma untouched_facts id h : (forall e, In e h -> ev_id e <> id) ->
    req_of id h = None /\ returned id h = false /\ count_reg id h = O /\ last_reg id h = None /\ before_phase id h = [].
  Proof.
    induction h as [|e h IH]; intros H; [now repeat split|].
    destruct IH as [I1 [I2 [I3 [I4 I5]]]]; [intros; apply H; now right|].
    destruct (other_id_facts id e) as [F1 [F2 [F3 [F4 F5]]]]; [apply H; now left|].
    rewrite req_of_cons, returned_cons, count_reg_cons, last_reg_cons, before_phase_cons by assumption.
    now repeat split.
  Qed.

  (* all registries keep their invariant under more history / after replacing one of them *)
  Definition regs_ok (rg : list (bytes * registry)) (h : hist) : Prop :=
    forall host r, reg_get host rg = Some r -> RI E host r h.

  Lemma regs_ok_app rg new h : fresh_new new h -> regs_ok rg h -> regs_ok rg (new ++ h).
  Proof. intros Hf H host r Hg. apply RI_app; auto. Qed.

  Lemma regs_ok_set rg host r h : regs_ok rg h -> RI E host r h -> regs_ok (reg_set host r rg) h.
  Proof.
    intros H Hr host0 r0 Hg. destruct (beqb host0 host) eqn:Eh.
    - apply beqb_eq in Eh. subst host0. rewrite reg_get_set_same in Hg. now injection Hg as <-.
    - rewrite reg_get_set_other in Hg by exact Eh. now apply H.
  Qed.

  Definition initerr_kept (rg rg' : list (bytes * registry)) : Prop :=
    forall host r, reg_get host rg = Some r -> r_initerr r = false ->
                   exists r', reg_get host rg' = Some r' /\ r_initerr r' = false.

  Lemma initerr_kept_refl rg : initerr_kept rg rg.
  Proof. intros host r Hg Hi. now exists r. Qed.

  Lemma initerr_kept_set rg rg' host r' :
    initerr_kept rg rg' ->
    (forall r, reg_get host rg' = Some r -> r_initerr r = false -> r_initerr r' = false) ->
    initerr_kept rg (reg_set host r' rg').
  Proof.
    intros Hk H host0 r Hg Hi. destruct (Hk host0 r Hg Hi) as [r1 [Hg1 Hi1]].
    destruct (beqb host0 host) eqn:Eh.
    - apply beqb_eq in Eh. subst host0. exists r'. rewrite reg_get_set_same. split; [reflexivity|]. now apply (H r1).
    - exists r1. now rewrite reg_get_set_other.
  Qed.

  Lemma self_close_eq id q h : exists sc, self_close id q h = sc ++ h /\ (sc = [] \/ sc = [ESelfClose id]).
  Proof. unfold self_close. destruct (has_body (q_body q)); [exists [ESelfClose id] | exists []]; auto. Qed.

  Definition no_starts (new : hist) : Prop := forall e, In e new -> forall i q, e <> EStart i q.

  Lemma fresh_new_app new rest h : no_starts new -> fresh_new rest h -> fresh_new (new ++ rest) h.
  Proof.
    induction new as [|e new IH]; intros Hn Hr; [exact Hr|]. cbn [app]. apply fresh_new_cons.
    - intros i q Hx. exfalso. apply (Hn e (or_introl eq_refl) i q Hx).
    - apply IH; auto. intros e' He'. apply Hn. now right.
  Qed.

  Lemma tok_sends_no_starts id new : tok_sends id new -> no_starts new.
  Proof.
    intros H e He i q ->. unfold tok_sends in H. rewrite Forall_forall in H.
    destruct (H _ He) as [m [rsp [Hx _]]]. discriminate.
  Qed.

  Lemma sc_facts id sc : sc = [] \/ sc = [ESelfClose id] -> mine id sc /\ quiets id sc /\ no_starts sc.
  Proof.
    intros [->| ->]; repeat split; try constructor; auto; try constructor.
    - intros e [].
    - intros e [<-|[]] i q Hx. discriminate.
  Qed.

  Lemma aat_final_res r sc2 res2 h' resa r1 :
    aat_final E r sc2 res2 h' resa r1 -> (exists t, resa = Ok t /\ exists w, res2 = Ok w /\ t = tok_of w /\ is_nil (tok_of w) = false) \/ (exists e, resa = Err e).
  Proof.
    unfold aat_final. destruct res2 as [w|e| |]; try contradiction.
    - intros [_ H]. destruct (is_nil (tok_of w)) eqn:En.
      + right. destruct H as [-> _]. eauto.
      + left. destruct H as [-> _]. exists (tok_of w). split; [reflexivity|]. now exists w.
    - intros [-> _]. right. eauto.
  Qed.

  Lemma phase1_Inv st id q : Inv E st -> th_get id (threads st) = None -> Inv E (phase1 E st id q).
  Proof.
    intros Hinv Hnone.
    pose proof (untouched_facts id (history st) (inv_none _ _ Hinv id Hnone)) as [U1 [U2 [U3 [U4 U5]]]].
    unfold phase1.
    set (h := history st) in *. set (h0 := EStart id q :: h). set (host := q_host q).
    set (ra := match reg_get host (regs st) with Some r => r | None => new_registry end).
    set (r := if r_inited ra then ra else init_inner (e_cfg E host)).
    assert (Hfresh0 : fresh_ev (EStart id q) h). { intros i q' [= <- <-]. exact U1. }
    assert (Hfn0 : fresh_new [EStart id q] h). { apply fresh_new_cons; [exact Hfresh0 | apply fresh_new_nil]. }
    assert (Hr : RI E host r h0).
    { unfold r, ra. destruct (reg_get host (regs st)) as [rx|] eqn:Eg.
      - pose proof (inv_reg _ _ Hinv _ _ Eg) as Hx. rewrite (ri_inited _ _ _ _ Hx). apply RI_cons; auto.
      - cbn. apply RI_init. }
    assert (Hkeep : forall rx, reg_get host (regs st) = Some rx -> r_initerr rx = false -> r_initerr r = false).
    { intros rx Eg Hi. unfold r, ra. rewrite Eg. pose proof (inv_reg _ _ Hinv _ _ Eg) as Hx.
      now rewrite (ri_inited _ _ _ _ Hx). }
    set (rg := reg_set host r (regs st)).
    assert (Hrg0 : regs_ok rg h0).
    { apply regs_ok_set; [|exact Hr]. apply (regs_ok_app _ [EStart id q]); [exact Hfn0 | exact (inv_reg _ _ Hinv)]. }
    assert (Hk0 : initerr_kept (regs st) rg). { apply initerr_kept_set; [apply initerr_kept_refl | exact Hkeep]. }
    assert (Hq0 : req_of id h0 = Some q). { cbn. now rewrite Nat.eqb_refl. }
    assert (Hon0 : on_host id host h0 = true). { unfold on_host. rewrite Hq0. apply beqb_refl. }
    destruct (r_initerr r) eqn:Eie.
    - (* the configuration lookup failed *)
      destruct (self_close_eq id q h0) as [sc [-> Hsc]]. destruct (sc_facts id sc Hsc) as [S1 [S2 S3]].
      change (sc ++ h0) with (sc ++ [EStart id q] ++ h). rewrite app_assoc.
      apply finish_Inv; auto.
      + apply Forall_app. split; [exact S1 | now constructor].
      + now apply fresh_new_app.
      + rewrite <- app_assoc. apply regs_ok_app; [|exact Hrg0]. apply no_start_fresh, S3.
      + rewrite <- app_assoc. rewrite req_of_quiets by exact S2. exact Hq0.
    - destruct (set_authorization E id r (q_auth q) (q_required q) (q_want q) h0) as [[res r1] h1] eqn:Esa.
      apply sa_shape in Esa. cbn zeta in Esa.
      set (r0 := delete_expired r (e_clock E h0 + second)) in *.
      assert (Hr0 : RI E host r0 h0) by now apply RI_delete.
      (* the common end: the first attempt is handed to the transport *)
      assert (forall a toks r1,
        tok_sends id toks -> RI E host r1 (toks ++ h0) -> r_initerr r1 = false ->
        Inv E (let (rsp, h2) := send E id (MReg host a) (toks ++ h0) in
               {| regs := reg_set host r1 rg;
                  threads := th_set id {| th_q := q; th_hdr := a; th_pc := PAwait1 rsp |} (threads st);
                  history := h2 |})) as Hsend.
      { intros a toks rx Hts Hrx Hix. unfold send.
        set (rsp := e_net E (toks ++ h0) (MReg host a)).
        pose proof (tok_sends_quiets _ _ Hts) as Hqt.
        assert (Heq : ESend id (MReg host a) rsp :: toks ++ h0 = (ESend id (MReg host a) rsp :: toks ++ [EStart id q]) ++ h).
        { cbn [app]. now rewrite <- app_assoc. }
        rewrite Heq. apply Inv_update; auto.
        - constructor; [reflexivity|]. apply Forall_app. split; [now apply tok_sends_mine | now constructor].
        - apply fresh_new_cons; [intros i q' Hx; discriminate|].
          apply fresh_new_app; [now apply tok_sends_no_starts with (id := id) | exact Hfn0].
        - fold h. rewrite <- Heq. apply regs_ok_set.
          + apply (regs_ok_app rg (ESend id (MReg host a) rsp :: toks)); [|exact Hrg0].
            apply no_start_fresh. intros e [<-|He] i q' Hx; [discriminate|].
            exact (tok_sends_no_starts _ _ Hts e He i q' Hx).
          + apply RI_cons; [intros i q' Hx; discriminate | exact Hrx].
        - apply initerr_kept_set; [exact Hk0 | intros; exact Hix].
        - fold h. rewrite <- Heq. split; cbn [th_q th_pc th_hdr].
          + rewrite req_of_cons by reflexivity. now rewrite req_of_quiets.
          + repeat split.
            * rewrite returned_cons by reflexivity. rewrite returned_quiets by exact Hqt. exact U2.
            * cbn [count_reg]. rewrite Nat.eqb_refl. rewrite count_reg_quiets by exact Hqt.
              unfold h0. rewrite count_reg_cons by reflexivity. now rewrite U3.
            * cbn [last_reg]. now rewrite Nat.eqb_refl.
            * now left.
            * exists h. rewrite before_phase_cons by reflexivity. rewrite before_phase_quiets by exact Hqt.
              unfold h0. cbn. now rewrite Nat.eqb_refl.
            * exists rx. now rewrite reg_get_set_same. }
      (* the other end: setAuthorization failed *)
      assert (forall toks r1,
        tok_sends id toks -> RI E host r1 (toks ++ h0) -> r_initerr r1 = false ->
        Inv E (finish st id q (q_auth q) (reg_set host r1 rg) (RetErr None) (self_close id q (toks ++ h0)))) as Hfail.
      { intros toks rx Hts Hrx Hix.
        pose proof (tok_sends_quiets _ _ Hts) as Hqt.
        destruct (self_close_eq id q (toks ++ h0)) as [sc [-> Hsc]]. destruct (sc_facts id sc Hsc) as [S1 [S2 S3]].
        assert (Heq : sc ++ toks ++ h0 = (sc ++ toks ++ [EStart id q]) ++ h).
        { now rewrite <- !app_assoc. }
        rewrite Heq. apply finish_Inv; auto.
        - apply Forall_app. split; [exact S1|]. apply Forall_app. split; [now apply tok_sends_mine | now constructor].
        - apply fresh_new_app; [exact S3|]. apply fresh_new_app; [now apply tok_sends_no_starts with (id := id) | exact Hfn0].
        - fold h. rewrite <- Heq. apply regs_ok_set.
          + rewrite app_assoc. apply regs_ok_app; [|exact Hrg0]. apply no_start_fresh.
            intros e He. apply in_app_or in He as [He|He]; [now apply S3 | exact (tok_sends_no_starts _ _ Hts e He)].
          + apply RI_app; [now apply no_start_fresh | exact Hrx].
        - apply initerr_kept_set; [exact Hk0 | intros; exact Hix].
        - fold h. rewrite <- Heq. rewrite req_of_quiets by exact S2. now rewrite req_of_quiets. }
      assert (Hi0 : r_initerr r0 = false) by exact Eie.
      destruct Esa as [[tok [Ha [-> [-> ->]]]]|[[Ha [-> [-> ->]]]|[[Ha [www [u [p [Hw [Hb [Hbs [-> [-> ->]]]]]]]]]|
                       [Ha [www [toks [sc2 [res2 [resa [Hw [Hb [Hrf [Hblk [-> [Hfin [Hst [Hinc [Hin [HinU ->]]]]]]]]]]]]]]]]]]].
      + apply (Hsend _ [] r0); auto. constructor.
      + apply (Hsend _ [] r0); auto. constructor.
      + apply (Hsend _ [] r0); auto. constructor.
      + pose proof (tok_block_sends E _ _ _ _ _ _ _ _ _ Hblk) as Hts.
        assert (Hr1 : RI E host r1 (toks ++ h0)). { eapply block_RI; eauto. }
        assert (Hi1 : r_initerr r1 = false). { destruct Hst as [_ [Hs2 _]]. congruence. }
        destruct (aat_final_res _ _ _ _ _ _ Hfin) as [[t [-> _]]|[e ->]]; cbn [lift_tok].
        * now apply Hsend.
        * now apply Hfail.
  Qed.

  Lemma phase_issues_mono id e X f :
    is_marker id e = false -> existsb f (phase_issues E id X) = true -> existsb f (phase_issues E id (e :: X)) = true.
  Proof.
    intros Hm H. cbn [phase_issues]. rewrite Hm. destruct (Nat.eqb (ev_id e) id); [|exact H].
    destruct (issue_at E (e :: X)); cbn; [|exact H]. rewrite H. apply orb_true_r.
  Qed.

  Lemma phase_issues_mono_app id new X f :
    Forall (fun e => is_marker id e = false) new ->
    existsb f (phase_issues E id X) = true -> existsb f (phase_issues E id (new ++ X)) = true.
  Proof. induction 1; cbn [app]; auto. intros. apply phase_issues_mono; auto. Qed.

  Lemma quiets_nomarker id new : quiets id new -> Forall (fun e => is_marker id e = false) new.
  Proof. apply Forall_impl. intros e He. now apply quiet_facts in He. Qed.

  (* simple closing moves: the events between the phase marker and the end *)
  Definition mids (id : nat) (mid : hist) : Prop :=
    Forall (fun e => e = ERespClose id \/ e = EGetBody id) mid.

  Lemma mids_facts id mid : mids id mid -> mine id mid /\ quiets id mid /\ no_starts mid.
  Proof.
    intros H. repeat split.
    - eapply Forall_impl; [|exact H]. intros e [->| ->]; reflexivity.
    - eapply Forall_impl; [|exact H]. intros e [->| ->]; reflexivity.
    - intros e He i q ->. unfold mids in H. rewrite Forall_forall in H. destruct (H _ He); discriminate.
  Qed.

  Lemma phase2_Inv st id th rsp :
    Inv E st -> th_get id (threads st) = Some th -> th_pc th = PAwait1 rsp -> Inv E (phase2 E st id th rsp).
  Proof.
    intros Hinv Hth Hpc. pose proof (inv_thr _ _ Hinv _ _ Hth) as [Hq Hok]. rewrite Hpc in Hok.
    destruct Hok as [T1 [T2 [T3 [T4 [[older T5] [r [T6 T7]]]]]]].
    unfold phase2. set (q := th_q th) in *. set (hdr := th_hdr th) in *. set (host := q_host q) in *.
    set (h := history st) in *. set (h1 := EResume id :: h).
    assert (Hfn1 : fresh_new [EResume id] h).
    { apply fresh_new_cons; [intros i q' Hx; discriminate | apply fresh_new_nil]. }
    assert (Hq1 : req_of id h1 = Some q) by (unfold h1; now rewrite req_of_cons).
    assert (Hon1 : on_host id host h1 = true). { unfold on_host. rewrite Hq1. apply beqb_refl. }
    assert (Hrg1 : regs_ok (regs st) h1).
    { apply (regs_ok_app _ [EResume id]); [exact Hfn1 | exact (inv_reg _ _ Hinv)]. }
    (* a plain end: nothing but the marker was added *)
    assert (forall hx res, Inv E (finish st id q hx (regs st) res h1)) as Hplain.
    { intros hx res. change h1 with ([EResume id] ++ h). apply finish_Inv; auto.
      - now constructor.
      - apply initerr_kept_refl. }
    destruct rsp as [|status www b]; [apply Hplain|].
    destruct (negb (status =? 401)%N) eqn:E401; [apply Hplain|].
    apply negb_false_iff, N.eqb_eq in E401. subst status.
    destruct (challenge_from_response www) as [ch|] eqn:Ech; [|apply Hplain].
    rewrite T6.
    assert (Hnamed : Named host ch h1).
    { exists id, hdr, (RHttp 401 www b). split; [now right|]. cbn. exact Ech. }
    destruct (set_authorization_from_challenge E id r hdr ch (q_required q) (q_want q) h1) as [[res r1] h2] eqn:Esac.
    apply sac_shape in Esac. cbn zeta in Esac. set (r0 := set_www r ch) in *.
    assert (Hr0 : RI E host r0 h1).
    { apply RI_set_www; [|exact Hnamed]. apply RI_cons; [intros i q' Hx; discriminate|]. exact (inv_reg _ _ Hinv _ _ T6). }
    (* an end after token traffic and closing moves *)
    assert (forall mid toks rx hx rs,
      mids id mid -> tok_sends id toks -> RI E host rx (toks ++ h1) -> r_initerr rx = false ->
      Inv E (finish st id q hx (reg_set host rx (regs st)) rs (mid ++ toks ++ h1))) as Hend.
    { intros mid toks rx hx rs Hmid Hts Hrx Hix.
      destruct (mids_facts _ _ Hmid) as [M1 [M2 M3]].
      pose proof (tok_sends_quiets _ _ Hts) as Hqt.
      assert (Heq : mid ++ toks ++ h1 = (mid ++ toks ++ [EResume id]) ++ h).
      { unfold h1. now rewrite <- !app_assoc. }
      rewrite Heq. apply finish_Inv; auto.
      - apply Forall_app. split; [exact M1|]. apply Forall_app. split; [now apply tok_sends_mine | now constructor].
      - apply fresh_new_app; [exact M3|]. apply fresh_new_app; [now apply tok_sends_no_starts with (id := id) | exact Hfn1].
      - fold h. rewrite <- Heq. apply regs_ok_set.
        + rewrite app_assoc. apply regs_ok_app; [|exact Hrg1]. apply no_start_fresh.
          intros e He. apply in_app_or in He as [He|He]; [now apply M3 | exact (tok_sends_no_starts _ _ Hts e He)].
        + apply RI_app; [now apply no_start_fresh | exact Hrx].
      - apply initerr_kept_set; [apply initerr_kept_refl | intros; exact Hix].
      - fold h. rewrite <- Heq. rewrite req_of_quiets by exact M2. now rewrite req_of_quiets. }
    (* the second attempt is handed to the transport *)
    assert (forall (a : authz) (toks : hist) (rx : registry) (ta : bool),
      tok_sends id toks -> RI E host rx (toks ++ h1) -> r_initerr rx = false ->
      (if ta then exists t, a = ABearer t /\ existsb (fun i => beqb (i_tok i) t) (phase_issues E id (toks ++ h1)) = true
       else exists u p, a = ABasic u p) ->
      Inv E (let h2 := ERespClose id :: toks ++ h1 in
             match q_body q with
             | BGetFail => finish st id q a (reg_set host rx (regs st)) (RetErr None) (EGetBody id :: h2)
             | b0 =>
                 let h3 := match b0 with BGet => EGetBody id :: h2 | _ => h2 end in
                 let (rsp2, h4) := send E id (MReg host a) h3 in
                 {| regs := reg_set host rx (regs st);
                    threads := th_set id {| th_q := q; th_hdr := a; th_pc := PAwait2 rsp2 ta |} (threads st);
                    history := h4 |}
             end)) as Hretry.
    { intros a toks rx ta Hts Hrx Hix Hta. cbn zeta.
      pose proof (tok_sends_quiets _ _ Hts) as Hqt.
      assert (forall mid, mids id mid ->
        Inv E (let (rsp2, h4) := send E id (MReg host a) (mid ++ toks ++ h1) in
               {| regs := reg_set host rx (regs st);
                  threads := th_set id {| th_q := q; th_hdr := a; th_pc := PAwait2 rsp2 ta |} (threads st);
                  history := h4 |})) as Hgo.
      { intros mid Hmid. destruct (mids_facts _ _ Hmid) as [M1 [M2 M3]]. unfold send.
        set (rsp2 := e_net E (mid ++ toks ++ h1) (MReg host a)).
        assert (Heq : ESend id (MReg host a) rsp2 :: mid ++ toks ++ h1
                      = (ESend id (MReg host a) rsp2 :: mid ++ toks ++ [EResume id]) ++ h).
        { unfold h1. cbn [app]. now rewrite <- !app_assoc. }
        rewrite Heq. apply Inv_update; auto.
        - constructor; [reflexivity|]. apply Forall_app. split; [exact M1|].
          apply Forall_app. split; [now apply tok_sends_mine | now constructor].
        - apply fresh_new_cons; [intros i q' Hx; discriminate|]. apply fresh_new_app; [exact M3|].
          apply fresh_new_app; [now apply tok_sends_no_starts with (id := id) | exact Hfn1].
        - fold h. rewrite <- Heq. apply regs_ok_set.
          + replace (ESend id (MReg host a) rsp2 :: mid ++ toks ++ h1)
              with ((ESend id (MReg host a) rsp2 :: mid ++ toks) ++ h1) by (cbn [app]; now rewrite <- app_assoc).
            apply regs_ok_app; [|exact Hrg1].
            apply no_start_fresh. intros e [<-|He] i q' Hx; [discriminate|].
            apply in_app_or in He as [He|He]; [exact (M3 e He i q' Hx) | exact (tok_sends_no_starts _ _ Hts e He i q' Hx)].
          + apply RI_cons; [intros i q' Hx; discriminate|]. apply RI_app; [now apply no_start_fresh | exact Hrx].
        - apply initerr_kept_set; [apply initerr_kept_refl | intros; exact Hix].
        - fold h. rewrite <- Heq. split; cbn [th_q th_pc th_hdr].
          + rewrite req_of_cons by reflexivity. rewrite req_of_quiets by exact M2. now rewrite req_of_quiets.
          + repeat split.
            * rewrite returned_cons by reflexivity. rewrite returned_quiets by exact M2.
              rewrite returned_quiets by exact Hqt. unfold h1. now rewrite returned_cons.
            * cbn [count_reg]. rewrite Nat.eqb_refl. rewrite count_reg_quiets by exact M2.
              rewrite count_reg_quiets by exact Hqt. unfold h1. rewrite count_reg_cons by reflexivity. now rewrite T2.
            * cbn [last_reg]. now rewrite Nat.eqb_refl.
            * exists h. rewrite before_phase_cons by reflexivity. rewrite before_phase_quiets by exact M2.
              rewrite before_phase_quiets by exact Hqt. unfold h1. cbn. now rewrite Nat.eqb_refl.
            * destruct ta; [|exact Hta]. destruct Hta as [t [-> Ht]]. exists t. split; [reflexivity|].
              apply phase_issues_mono; [reflexivity|].
              apply phase_issues_mono_app; [now apply quiets_nomarker | exact Ht]. }
      destruct (q_body q).
      - apply (Hgo [ERespClose id]). constructor; [now left | constructor].
      - apply (Hgo [ERespClose id]). constructor; [now left | constructor].
      - apply (Hgo [EGetBody id; ERespClose id]). constructor; [now right|]. constructor; [now left | constructor].
      - apply (Hend [EGetBody id; ERespClose id]); auto.
        constructor; [now right|]. constructor; [now left | constructor]. }
    destruct Esac as [[Hb [toks [sc2 [res2 [resa [Hblk [-> [Hfin [Hst [Hinc [Hin [HinU ->]]]]]]]]]]]]|
                      [[Hb [u [p [Hbs [-> [-> ->]]]]]]|[Hb [Hbs [-> [-> ->]]]]]].
    - pose proof (tok_block_sends E _ _ _ _ _ _ _ _ _ Hblk) as Hts.
      assert (Hr1 : RI E host r1 (toks ++ h1)). { eapply block_RI; eauto. reflexivity. }
      assert (Hi1 : r_initerr r1 = false). { destruct Hst as [_ [Hs2 _]]. cbn in Hs2. congruence. }
      destruct (aat_final_res _ _ _ _ _ _ Hfin) as [[t [-> [w [-> [-> Hne]]]]]|[e ->]].
      + cbn [negb]. apply Hretry; auto. exists (tok_of w). split; [reflexivity|].
        destruct (block_issue _ _ _ _ _ _ _ _ _ h1 Hblk) as [_ [_ [Hnn Hi]]].
        destruct toks as [|e0 toks0]; [congruence|].
        assert (ev_id e0 = id /\ is_marker id e0 = false) as [He1 He2].
        { inversion Hts as [|x l [m [rsp0 [-> _]]] _]. now split. }
        cbn [app phase_issues]. rewrite He2, He1, Nat.eqb_refl. cbn [app] in Hi. rewrite Hi. cbn. now rewrite beqb_refl.
      + apply (Hend [ERespClose id]); auto. constructor; [now left | constructor].
    - cbn [negb]. apply (Hretry (ABasic u p) [] r0 false); [constructor | exact Hr0 | exact T7 | now exists u, p].
    - cbn [negb]. apply (Hend [] [] r0); [constructor | constructor | exact Hr0 | exact T7].
  Qed.

  Lemma phase3_Inv st id th rsp ta :
    Inv E st -> th_get id (threads st) = Some th -> th_pc th = PAwait2 rsp ta -> Inv E (phase3 st id th rsp ta).
  Proof.
    intros Hinv Hth Hpc. pose proof (inv_thr _ _ Hinv _ _ Hth) as [Hq _].
    unfold phase3. set (h := history st) in *.
    assert (forall mid hx res, mids id mid -> Inv E (finish st id (th_q th) hx (regs st) res (mid ++ EResume id :: h))) as Hend.
    { intros mid hx res Hmid. destruct (mids_facts _ _ Hmid) as [M1 [M2 M3]].
      assert (Heq : mid ++ EResume id :: h = (mid ++ [EResume id]) ++ h) by now rewrite <- app_assoc.
      rewrite Heq. apply finish_Inv; auto.
      - apply Forall_app. split; [exact M1 | now constructor].
      - apply fresh_new_app; [exact M3|]. apply fresh_new_cons; [intros i q' Hx; discriminate | apply fresh_new_nil].
      - apply regs_ok_app; [|exact (inv_reg _ _ Hinv)]. apply no_start_fresh.
        intros e He. apply in_app_or in He as [He|[<-|[]]]; [now apply M3|]. intros i q' Hx. discriminate.
      - apply initerr_kept_refl.
      - fold h. rewrite <- Heq. rewrite req_of_quiets by exact M2. now rewrite req_of_cons. }
    destruct rsp as [|status www b]; [apply (Hend []); constructor|].
    destruct (negb (status =? 401)%N || negb ta).
    - apply (Hend []). constructor.
    - apply (Hend [ERespClose id]). constructor; [now left | constructor].
  Qed.

  Lemma step_Inv st x : Inv E st -> Inv E (step E st x).
  Proof.
    intros Hinv. destruct x as [id q|id]; cbn [step].
    - destruct (th_get id (threads st)) eqn:Et; [exact Hinv | now apply phase1_Inv].
    - destruct (th_get id (threads st)) as [th|] eqn:Et; [|exact Hinv].
      destruct (th_pc th) eqn:Epc; [now apply phase2_Inv | now apply phase3_Inv | exact Hinv].
  Qed.

  Lemma run_from_Inv l : forall st, Inv E st -> Inv E (fold_left (step E) l st).
  Proof. induction l as [|x l IH]; intros st H; [exact H|]. cbn. apply IH. now apply step_Inv. Qed.

  Theorem run_Inv l : Inv E (run E l).
  Proof. apply run_from_Inv, Inv_init. Qed.
End Step.
