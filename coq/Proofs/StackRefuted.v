(* C03 (c), the refutations: concrete inputs on which the composed model is NOT transparent,
   evaluated inside the kernel.  The backend is Model/Mem.v with the small oracle tables of
   Obs/StackRun.v's smoke test; the stack is one client -> server hop with default options unless
   said otherwise.  Each witness is a finding about the real code the models follow (the
   correspondence checks C06 / C18 / C03 tie them to it). *)
From Coq Require Import String.
From OCI Require Import Obs.StackRun.

Import Smoke.

(* the projected observables of an answer: success, code, descriptor digest / size / media type,
   bytes, listing *)
Definition same_desc (a b : desc) : bool :=
  beqb (d_digest a) (d_digest b) && Z.eqb (d_size a) (d_size b) && beqb (d_media a) (d_media b).

Definition same_answer (a b : result) : bool :=
  match a, b with
  | Ok (RDesc x), Ok (RDesc y) => same_desc x y
  | Ok (RRead x dx), Ok (RRead y dy) => same_desc x y && beqb dx dy
  | Ok (RList l e), Ok (RList l' e') => list_eqb beqb l l' && option_eqb ecode_eqb (opt_code e) (opt_code e')
  | Ok (RDescs l e), Ok (RDescs l' e') => list_eqb same_desc l l' && option_eqb ecode_eqb (opt_code e) (opt_code e')
  | Ok x, Ok y => res_eqb x y
  | Err x, Err y => ecode_eqb (e_code x) (e_code y)
  | _, _ => false
  end.

(* the answers to the last operation of a history: directly, and through one hop *)
Definition last_direct (h : list op) : result := last (snd (run (mem_step orc false) init h)) Panic.
Definition last_via (sv : opts) (cc : ccfg) (h : list op) : result :=
  last (snd (run (one_hop orc [] false sv cc) (sstate0 init) h)) Panic.

Definition transparent_on (sv : opts) (cc : ccfg) (h : list op) : Prop :=
  same_answer (last_direct h) (last_via sv cc h) = true.

Definition push1 : op := PushBlob repo1 (bdesc blob1) blob1.

(* MountBlob: the descriptor comes back with size 0 (ociclient.MountBlob: "TODO: is it OK to omit
   the size from the returned descriptor here?") *)
Theorem transparent_MountBlob_refuted :
  exists h, ~ transparent_on default_opts default_ccfg h.
Proof. exists [push1; MountBlob repo1 repo2 (dg blob1)]. vm_compute. discriminate. Qed.

Example MountBlob_sizes :
  (match last_direct [push1; MountBlob repo1 repo2 (dg blob1)] with Ok (RDesc d) => d_size d | _ => (-1)%Z end,
   match last_via default_opts default_ccfg [push1; MountBlob repo1 repo2 (dg blob1)] with Ok (RDesc d) => d_size d | _ => (-1)%Z end)
  = (100%Z, 0%Z).
Proof. vm_compute. reflexivity. Qed.

(* GetBlobRange(o, o): the empty range cannot be written as a Range header ("bytes=5-4" is
   refused with 416, code UNKNOWN, before the backend is asked); directly it is the empty content *)
Theorem transparent_GetBlobRange_empty_refuted :
  exists h, ~ transparent_on default_opts default_ccfg h.
Proof. exists [push1; GetBlobRange repo1 (dg blob1) 5 5]. vm_compute. discriminate. Qed.

Example GetBlobRange_empty_answers :
  (is_ok (last_direct [push1; GetBlobRange repo1 (dg blob1) 5 5]),
   match last_via default_opts default_ccfg [push1; GetBlobRange repo1 (dg blob1) 5 5] with
   | Err e => Some (e_code e, e_tag e) | _ => None end)
  = (true, Some (ECustom (s "UNKNOWN"), s "416")).
Proof. vm_compute. reflexivity. Qed.

(* a reversed range on a blob that does not exist: 416 (code UNKNOWN) from the server, which does
   not consult the backend; BLOB_UNKNOWN directly *)
Theorem transparent_GetBlobRange_unasked_refuted :
  exists h, ~ transparent_on default_opts default_ccfg h.
Proof. exists [push1; GetBlobRange repo1 (dg blob2) 7 3]. vm_compute. discriminate. Qed.

Example GetBlobRange_unasked_codes :
  (match last_direct [push1; GetBlobRange repo1 (dg blob2) 7 3] with Err e => Some (e_code e) | _ => None end,
   match last_via default_opts default_ccfg [push1; GetBlobRange repo1 (dg blob2) 7 3] with Err e => Some (e_code e) | _ => None end)
  = (Some BLOB_UNKNOWN, Some (ECustom (s "UNKNOWN"))).
Proof. vm_compute. reflexivity. Qed.

(* the media type of a blob: PushBlob over HTTP is an upload session, whose commit stores
   application/octet-stream; and the HEAD / GET responses for blobs are rebuilt by the client from
   headers that do not carry it for ResolveBlob *)
Definition xdesc (c : bytes) : desc :=
  {| d_media := s "application/x-custom"; d_digest := dg c; d_size := blen c; d_artifact := [] |}.

Theorem transparent_PushBlob_media_refuted :
  exists h, ~ transparent_on default_opts default_ccfg h.
Proof. exists [PushBlob repo1 (xdesc blob1) blob1; GetBlob repo1 (dg blob1)]. vm_compute. discriminate. Qed.

Example PushBlob_media_answers :
  (match last_direct [PushBlob repo1 (xdesc blob1) blob1; GetBlob repo1 (dg blob1)] with Ok (RRead d _) => d_media d | _ => [] end,
   match last_via default_opts default_ccfg [PushBlob repo1 (xdesc blob1) blob1; GetBlob repo1 (dg blob1)] with Ok (RRead d _) => d_media d | _ => [] end)
  = (s "application/x-custom", s "application/octet-stream").
Proof. vm_compute. reflexivity. Qed.

(* MaxListPageSize below the client's page size: the listing is refused (UNSUPPORTED) *)
Definition max2 : opts := mkopts false false 2 false false None.

Theorem transparent_Tags_page_size_refuted :
  exists h, ~ transparent_on max2 default_ccfg h.
Proof. exists [push1; Tags repo1 []]. vm_compute. discriminate. Qed.

Example Tags_page_size_answers :
  (match last_direct [push1; Tags repo1 []] with Ok (RList l e) => Some (l, opt_code e) | _ => None end,
   match last_via max2 default_ccfg [push1; Tags repo1 []] with Ok (RList l e) => Some (l, opt_code e) | _ => None end,
   transparent_on max2 (mkccfg 2 512 1000) [push1; Tags repo1 []])
  = (Some ([], None), Some ([], Some UNSUPPORTED), transparent_on max2 (mkccfg 2 512 1000) [push1; Tags repo1 []]).
Proof. vm_compute. reflexivity. Qed.

Example Tags_page_size_fits : transparent_on max2 (mkccfg 2 512 1000) [push1; Tags repo1 []].
Proof. vm_compute. reflexivity. Qed.

(* not refutations: the single-request methods on the same data are transparent *)
Example transparent_examples :
  Forall (transparent_on default_opts default_ccfg)
    [ [push1; ResolveBlob repo1 (dg blob1)];
      [push1; GetBlob repo1 (dg blob1)];
      [push1; GetBlobRange repo1 (dg blob1) 5 50];
      [push1; GetBlobRange repo1 (dg blob1) 5 (-1)];
      [push1; PushManifest repo1 tag1 man1 mt; GetTag repo1 tag1];
      [push1; PushManifest repo1 tag1 man1 mt; ResolveTag repo1 tag1];
      [push1; PushManifest repo1 tag1 man1 mt; Tags repo1 []];
      [push1; PushManifest repo1 tag1 man1 mt; DeleteTag repo1 tag1];
      [push1; DeleteBlob repo1 (dg blob1)] ].
Proof. repeat constructor; vm_compute; reflexivity. Qed.

Print Assumptions transparent_MountBlob_refuted.
Print Assumptions transparent_GetBlobRange_empty_refuted.
Print Assumptions transparent_GetBlobRange_unasked_refuted.
Print Assumptions transparent_PushBlob_media_refuted.
Print Assumptions transparent_Tags_page_size_refuted.
