(* C02 corollaries about the implementation model on its own: which operations can change
   what a (repository, digest) or (repository, tag) lookup finds.  From these: pushed things
   are found until deleted, deleted things are not found until pushed again, a tag resolves
   to the last manifest pushed under it. *)
From Coq Require Import String Lia.
From OCI Require Import Model.Mem Model.MemSpec Model.MemRel Proofs.MemBasics Proofs.MemInv.

(* operations that can change the blob / manifest / tag binding at a key *)
Definition touches_blob (o : op) (r d : bytes) : bool :=
  match o with
  | PushBlob r' de _ => beqb r r' && beqb d (d_digest de)
  | MountBlob _ to d' => beqb r to && beqb d d'
  | DeleteBlob r' d' => beqb r r' && beqb d d'
  | WCommit _ d' => beqb d d'
  | _ => false
  end.
Definition touches_manifest (hash : bytes -> bytes) (o : op) (r d : bytes) : bool :=
  match o with
  | PushManifest r' _ data _ => beqb r r' && beqb d (hash data)
  | DeleteManifest r' d' => beqb r r' && beqb d d'
  | _ => false
  end.
Definition touches_tag (o : op) (r t : bytes) : bool :=
  match o with
  | PushManifest r' t' _ _ => beqb r r' && beqb t t'
  | DeleteTag r' t' => beqb r r' && beqb t t'
  | _ => false
  end.

(* the three views of a state *)
Definition same_views (st st' : state) : Prop :=
  (forall r d, iblob st' r d = iblob st r d) /\
  (forall r d, iman st' r d = iman st r d) /\
  (forall r t, itag st' r t = itag st r t).

Lemma same_views_refl st : same_views st st.
Proof. repeat split. Qed.
Lemma same_views_trans a b c : same_views a b -> same_views b c -> same_views a c.
Proof. intros (A1 & A2 & A3) (B1 & B2 & B3). repeat split; intros; congruence. Qed.

Lemma same_views_repos st st' : repos st' = repos st -> same_views st st'.
Proof. intros H. repeat split; intros; unfold iblob, iman, itag, get_repo; now rewrite H. Qed.

Lemma same_views_make_repo valid_repo st r st1 : make_repo valid_repo st r = Some st1 -> same_views st st1.
Proof. intros H. apply make_repo_views in H. exact H. Qed.

Lemma same_views_upd st r f :
  (forall rp, tags (f rp) = tags rp /\ manifests (f rp) = manifests rp /\ blobs (f rp) = blobs rp) ->
  same_views st (upd_repo st r f).
Proof.
  intros Hf. repeat split; intros r' k.
  - rewrite iblob_upd. destruct (beqb r' r) eqn:B; [|reflexivity]. apply beqb_eq in B. subst.
    unfold iblob. destruct (get_repo st r) as [rp|]; [|reflexivity]. now rewrite (proj2 (proj2 (Hf rp))).
  - rewrite iman_upd. destruct (beqb r' r) eqn:B; [|reflexivity]. apply beqb_eq in B. subst.
    unfold iman. destruct (get_repo st r) as [rp|]; [|reflexivity]. now rewrite (proj1 (proj2 (Hf rp))).
  - rewrite itag_upd. destruct (beqb r' r) eqn:B; [|reflexivity]. apply beqb_eq in B. subst.
    unfold itag. destruct (get_repo st r) as [rp|]; [|reflexivity]. now rewrite (proj1 (Hf rp)).
Qed.

Lemma same_views_new_upload st r rp id i bs nx :
  get_repo st r = Some rp ->
  same_views st {| repos := aset r (rp_set_upload id i rp) (repos st); bufs := bs; next_id := nx |}.
Proof.
  intros ER.
  assert (Hg : forall r', get_repo {| repos := aset r (rp_set_upload id i rp) (repos st); bufs := bs; next_id := nx |} r' =
                 if beqb r' r then Some (rp_set_upload id i rp) else get_repo st r').
  { intros r'. unfold get_repo; cbn. apply alookup_aset. }
  repeat split; intros r' k; unfold iblob, iman, itag; rewrite Hg;
    (destruct (beqb r' r) eqn:B; [apply beqb_eq in B; subst; now rewrite ER | reflexivity]).
Qed.

(* single-map updates *)
Lemma iblob_set_blob st r d b r' d' :
  iblob (upd_repo st r (rp_set_blob d b)) r' d' =
  if beqb r' r && beqb d' d then (match get_repo st r with Some _ => Some b | None => None end) else iblob st r' d'.
Proof.
  rewrite iblob_upd. destruct (beqb r' r) eqn:B; [|reflexivity]. apply beqb_eq in B. subst. cbn [andb].
  unfold iblob. destruct (get_repo st r); [|now destruct (beqb d' d)]. cbn. apply alookup_aset.
Qed.
Lemma iblob_del_blob st r d r' d' :
  iblob (upd_repo st r (rp_del_blob d)) r' d' = if beqb r' r && beqb d' d then None else iblob st r' d'.
Proof.
  rewrite iblob_upd. destruct (beqb r' r) eqn:B; [|reflexivity]. apply beqb_eq in B. subst. cbn [andb].
  unfold iblob. destruct (get_repo st r); [|now destruct (beqb d' d)]. cbn. apply alookup_adel.
Qed.
Lemma iman_set_manifest st r d b r' d' :
  iman (upd_repo st r (rp_set_manifest d b)) r' d' =
  if beqb r' r && beqb d' d then (match get_repo st r with Some _ => Some b | None => None end) else iman st r' d'.
Proof.
  rewrite iman_upd. destruct (beqb r' r) eqn:B; [|reflexivity]. apply beqb_eq in B. subst. cbn [andb].
  unfold iman. destruct (get_repo st r); [|now destruct (beqb d' d)]. cbn. apply alookup_aset.
Qed.
Lemma iman_del_manifest st r d r' d' :
  iman (upd_repo st r (rp_del_manifest d)) r' d' = if beqb r' r && beqb d' d then None else iman st r' d'.
Proof.
  rewrite iman_upd. destruct (beqb r' r) eqn:B; [|reflexivity]. apply beqb_eq in B. subst. cbn [andb].
  unfold iman. destruct (get_repo st r); [|now destruct (beqb d' d)]. cbn. apply alookup_adel.
Qed.
Lemma itag_set_tag st r t de r' t' :
  itag (upd_repo st r (rp_set_tag t de)) r' t' =
  if beqb r' r && beqb t' t then (match get_repo st r with Some _ => Some de | None => None end) else itag st r' t'.
Proof.
  rewrite itag_upd. destruct (beqb r' r) eqn:B; [|reflexivity]. apply beqb_eq in B. subst. cbn [andb].
  unfold itag. destruct (get_repo st r); [|now destruct (beqb t' t)]. cbn. apply alookup_aset.
Qed.
Lemma itag_del_tag st r t r' t' :
  itag (upd_repo st r (rp_del_tag t)) r' t' = if beqb r' r && beqb t' t then None else itag st r' t'.
Proof.
  rewrite itag_upd. destruct (beqb r' r) eqn:B; [|reflexivity]. apply beqb_eq in B. subst. cbn [andb].
  unfold itag. destruct (get_repo st r); [|now destruct (beqb t' t)]. cbn. apply alookup_adel.
Qed.

Lemma iblob_upd_same st r f r' d :
  (forall rp, blobs (f rp) = blobs rp) -> iblob (upd_repo st r f) r' d = iblob st r' d.
Proof.
  intros Hf. rewrite iblob_upd. destruct (beqb r' r) eqn:B; [|reflexivity]. apply beqb_eq in B. subst.
  unfold iblob. destruct (get_repo st r); [now rewrite Hf | reflexivity].
Qed.
Lemma iman_upd_same st r f r' d :
  (forall rp, manifests (f rp) = manifests rp) -> iman (upd_repo st r f) r' d = iman st r' d.
Proof.
  intros Hf. rewrite iman_upd. destruct (beqb r' r) eqn:B; [|reflexivity]. apply beqb_eq in B. subst.
  unfold iman. destruct (get_repo st r); [now rewrite Hf | reflexivity].
Qed.
Lemma itag_upd_same st r f r' t :
  (forall rp, tags (f rp) = tags rp) -> itag (upd_repo st r f) r' t = itag st r' t.
Proof.
  intros Hf. rewrite itag_upd. destruct (beqb r' r) eqn:B; [|reflexivity]. apply beqb_eq in B. subst.
  unfold itag. destruct (get_repo st r); [now rewrite Hf | reflexivity].
Qed.

Lemma iman_upd_set st r f d b r' d' :
  (forall rp, manifests (f rp) = aset d b (manifests rp)) ->
  iman (upd_repo st r f) r' d' =
  if beqb r' r && beqb d' d then (match get_repo st r with Some _ => Some b | None => None end) else iman st r' d'.
Proof.
  intros Hf. rewrite iman_upd. destruct (beqb r' r) eqn:B; [|reflexivity]. apply beqb_eq in B. subst. cbn [andb].
  unfold iman. destruct (get_repo st r); [|now destruct (beqb d' d)]. rewrite Hf. apply alookup_aset.
Qed.
Lemma itag_upd_set st r f t de r' t' :
  (forall rp, tags (f rp) = aset t de (tags rp)) ->
  itag (upd_repo st r f) r' t' =
  if beqb r' r && beqb t' t then (match get_repo st r with Some _ => Some de | None => None end) else itag st r' t'.
Proof.
  intros Hf. rewrite itag_upd. destruct (beqb r' r) eqn:B; [|reflexivity]. apply beqb_eq in B. subst. cbn [andb].
  unfold itag. destruct (get_repo st r); [|now destruct (beqb t' t)]. rewrite Hf. apply alookup_aset.
Qed.

Section Frame.
  Variable hash : bytes -> bytes.
  Variable valid_digest : bytes -> bool.
  Variable valid_repo : bytes -> bool.
  Variable valid_tag : bytes -> bool.
  Variable decode_image : bytes -> option image_manifest.
  Variable decode_index : bytes -> option index_manifest.
  Variable cfg : config.

  Local Notation step := (step hash valid_digest valid_repo valid_tag decode_image decode_index cfg).
  Local Notation Inv := (Inv hash decode_image decode_index).
  Local Notation touches_manifest := (touches_manifest hash).

  (* the state after an upload-session start *)
  Lemma chunked_views st r id off :
    same_views st (fst (match make_repo valid_repo st r with
        | None => (st, Err e_name_invalid)
        | Some st1 =>
            match get_repo st1 r with
            | None => (st1, Err e_name_invalid)
            | Some rp =>
                match alookup id (uploads rp) with
                | Some i =>
                    (with_buf st1 (N.to_nat i) (fun b =>
                       {| u_repo := u_repo b; u_id := u_id b; u_buf := u_buf b; u_check := off;
                          u_committed := u_committed b; u_desc := u_desc b; u_err := u_err b |}),
                     Ok (RWriter i))
                | None =>
                    let id' := match id with [] => fresh_id (next_id st1) | _ => id end in
                    let i := N.of_nat (length (bufs st1)) in
                    ({| repos := aset r (rp_set_upload id' i rp) (repos st1);
                        bufs := bufs st1 ++ [new_buffer r id' off];
                        next_id := match id with [] => N.succ (next_id st1) | _ => next_id st1 end |},
                     Ok (RWriter i))
                end
            end
        end : state * result)).
  Proof.
    destruct (make_repo valid_repo st r) as [st1|] eqn:EM; [|apply same_views_refl].
    pose proof (same_views_make_repo _ _ _ _ EM) as H1.
    destruct (get_repo st1 r) as [rp|] eqn:ER; [|exact H1].
    destruct (alookup id (uploads rp)); cbn [fst].
    - eapply same_views_trans; [exact H1 | now apply same_views_repos].
    - eapply same_views_trans; [exact H1 | now apply same_views_new_upload].
  Qed.

  (* the PushManifest update leaves blobs alone; other updates leave manifests / tags alone *)
  Ltac leaf :=
    cbn [fst];
    repeat first
      [ reflexivity
      | rewrite iblob_upd_same by (intros; try match goal with |- context [match ?t with [] => _ | _ => _ end] => destruct t end; reflexivity)
      | rewrite iman_upd_same by (intros; reflexivity)
      | rewrite itag_upd_same by (intros; reflexivity)
      | match goal with
        | H : make_repo _ ?st ?r = Some ?st1 |- context [iblob ?st1 _ _] =>
            rewrite (proj1 (make_repo_views _ _ _ _ H))
        | H : make_repo _ ?st ?r = Some ?st1 |- context [iman ?st1 _ _] =>
            rewrite (proj1 (proj2 (make_repo_views _ _ _ _ H)))
        | H : make_repo _ ?st ?r = Some ?st1 |- context [itag ?st1 _ _] =>
            rewrite (proj2 (proj2 (make_repo_views _ _ _ _ H)))
        end ].

  Ltac crunch :=
    repeat match goal with
           | |- context [match ?x with _ => _ end] => destruct x eqn:?
           end.

  Lemma blob_frame st o r d :
    touches_blob o r d = false -> iblob (fst (step st o)) r d = iblob st r d.
  Proof.
    intros Ht. destruct o; cbn [touches_blob] in Ht; try reflexivity.
    - (* PushBlob *) cbn [Mem.step]. crunch; leaf. now rewrite iblob_set_blob, Ht; leaf.
    - apply (chunked_views st r0 [] 0%Z).
    - apply (chunked_views st r0 id off).
    - (* MountBlob *) cbn [Mem.step]. crunch; leaf. now rewrite iblob_set_blob, Ht; leaf.
    - (* PushManifest *) cbn [Mem.step]. crunch; leaf.
    - (* DeleteBlob *) cbn [Mem.step]. crunch; leaf; now rewrite iblob_del_blob, Ht.
    - (* DeleteManifest *) cbn [Mem.step]. crunch; leaf.
    - (* DeleteTag *) cbn [Mem.step]. crunch; leaf.
    - (* WWrite *) cbn [Mem.step]. crunch; leaf.
    - (* WCommit *) cbn [Mem.step]. crunch; leaf.
      rewrite iblob_set_blob, Ht, andb_false_r. reflexivity.
    - (* WCancel *) cbn [Mem.step]. crunch; leaf.
  Qed.

  Lemma man_frame st o r d :
    touches_manifest o r d = false -> iman (fst (step st o)) r d = iman st r d.
  Proof.
    intros Ht. destruct o; cbn [MemFrame.touches_manifest] in Ht; try reflexivity.
    - (* PushBlob *) cbn [Mem.step]. crunch; leaf.
    - apply (chunked_views st r0 [] 0%Z).
    - apply (chunked_views st r0 id off).
    - (* MountBlob *) cbn [Mem.step]. crunch; leaf.
    - (* PushManifest *) cbn [Mem.step]. crunch; leaf;
        (erewrite iman_upd_set by (intros; reflexivity)); rewrite Ht; leaf.
    - (* DeleteBlob *) cbn [Mem.step]. crunch; leaf.
    - (* DeleteManifest *) cbn [Mem.step]. crunch; leaf; now rewrite iman_del_manifest, Ht.
    - (* DeleteTag *) cbn [Mem.step]. crunch; leaf.
    - (* WWrite *) cbn [Mem.step]. crunch; leaf.
    - (* WCommit *) cbn [Mem.step]. crunch; leaf.
    - (* WCancel *) cbn [Mem.step]. crunch; leaf.
  Qed.

  Lemma tag_frame st o r t :
    touches_tag o r t = false -> itag (fst (step st o)) r t = itag st r t.
  Proof.
    intros Ht. destruct o; cbn [touches_tag] in Ht; try reflexivity.
    - (* PushBlob *) cbn [Mem.step]. crunch; leaf.
    - apply (chunked_views st r0 [] 0%Z).
    - apply (chunked_views st r0 id off).
    - (* MountBlob *) cbn [Mem.step]. crunch; leaf.
    - (* PushManifest *) cbn [Mem.step]. crunch; leaf;
        (erewrite itag_upd_set by (intros; reflexivity)); rewrite Ht; leaf.
    - (* DeleteBlob *) cbn [Mem.step]. crunch; leaf.
    - (* DeleteManifest *) cbn [Mem.step]. crunch; leaf.
    - (* DeleteTag *) cbn [Mem.step]. crunch; leaf; now rewrite itag_del_tag, Ht.
    - (* WWrite *) cbn [Mem.step]. crunch; leaf.
    - (* WCommit *) cbn [Mem.step]. crunch; leaf.
    - (* WCancel *) cbn [Mem.step]. crunch; leaf.
  Qed.

  (* ---- what a successful push / delete leaves behind ---- *)
  Lemma push_blob_sets st r de c :
    is_ok (snd (step st (PushBlob r de c))) = true ->
    iblob (fst (step st (PushBlob r de c))) r (d_digest de) =
      Some {| b_media := d_media de; b_data := c; b_subject := [] |} /\
    hash c = d_digest de /\ d_size de = blen c.
  Proof.
    cbn [Mem.step]. unfold check_descriptor.
    destruct (valid_digest (d_digest de)); cbn [negb]; [|discriminate].
    destruct (beqb (hash c) (d_digest de)) eqn:EH; cbn [negb]; [|discriminate].
    destruct (d_size de =? blen c)%Z eqn:ES; cbn [negb]; [|discriminate].
    destruct (d_media de) eqn:EMd; [discriminate|].
    destruct (make_repo valid_repo st r) as [st1|] eqn:EM; [|discriminate]. cbn [fst snd]. intros _.
    apply beqb_eq in EH. apply Z.eqb_eq in ES. repeat split; auto.
    rewrite iblob_set_blob, !beqb_refl. cbn [andb].
    destruct (make_repo_some _ _ _ _ EM) as (_ & Hne & _). destruct (get_repo st1 r); congruence.
  Qed.

  Lemma delete_blob_unsets st r d :
    is_ok (snd (step st (DeleteBlob r d))) = true -> iblob (fst (step st (DeleteBlob r d))) r d = None.
  Proof.
    cbn [Mem.step]. crunch; cbn [fst snd]; try discriminate; intros _.
    - now rewrite iblob_del_blob, !beqb_refl.
    - now rewrite iblob_del_blob, !beqb_refl.
    - unfold iblob. match goal with H : get_repo st r = None |- _ => now rewrite H end.
  Qed.

  Lemma delete_manifest_unsets st r d :
    is_ok (snd (step st (DeleteManifest r d))) = true -> iman (fst (step st (DeleteManifest r d))) r d = None.
  Proof.
    cbn [Mem.step]. crunch; cbn [fst snd]; try discriminate; intros _.
    - now rewrite iman_del_manifest, !beqb_refl.
    - now rewrite iman_del_manifest, !beqb_refl.
    - unfold iman. match goal with H : get_repo st r = None |- _ => now rewrite H end.
  Qed.

  (* a present blob stays present under everything except its own deletion *)
  Lemma blob_stays st o r d :
    iblob st r d <> None -> o <> DeleteBlob r d -> iblob (fst (step st o)) r d <> None.
  Proof.
    intros Hs Hn. destruct (touches_blob o r d) eqn:Ht; [|now rewrite blob_frame].
    assert (Hr : get_repo st r <> None) by (unfold iblob in Hs; destruct (get_repo st r); congruence).
    destruct o; cbn [touches_blob] in Ht; try discriminate.
    - (* PushBlob *) apply andb_true_iff in Ht as [H1 H2]. apply beqb_eq in H1, H2. subst.
      cbn [Mem.step]. crunch; leaf; try exact Hs.
      rewrite iblob_set_blob, !beqb_refl. cbn [andb].
      match goal with H : make_repo _ st r0 = Some ?s |- _ =>
        destruct (make_repo_some _ _ _ _ H) as (_ & Hne & _); destruct (get_repo s r0); congruence end.
    - (* MountBlob *) apply andb_true_iff in Ht as [H1 H2]. apply beqb_eq in H1, H2. subst.
      cbn [Mem.step]. crunch; leaf; try exact Hs.
      rewrite iblob_set_blob, !beqb_refl. cbn [andb].
      match goal with H : make_repo _ st to = Some ?s |- _ =>
        destruct (make_repo_some _ _ _ _ H) as (_ & Hne & _); destruct (get_repo s to); congruence end.
    - (* DeleteBlob *) apply andb_true_iff in Ht as [H1 H2]. apply beqb_eq in H1, H2. subst. now elim Hn.
    - (* WCommit *) apply beqb_eq in Ht. subst.
      cbn [Mem.step]. crunch; leaf; try exact Hs.
      rewrite iblob_set_blob, beqb_refl, andb_true_r.
      destruct (beqb r (u_repo b)) eqn:B; [|exact Hs]. apply beqb_eq in B. subst r.
      unfold with_buf, get_repo in *. cbn [repos]. destruct (alookup (u_repo b) (repos st)); congruence.
  Qed.

  Lemma manifest_stays st o r d :
    iman st r d <> None -> o <> DeleteManifest r d -> iman (fst (step st o)) r d <> None.
  Proof.
    intros Hs Hn. destruct (touches_manifest o r d) eqn:Ht; [|now rewrite man_frame].
    destruct o; cbn [MemFrame.touches_manifest] in Ht; try discriminate.
    - (* PushManifest *) apply andb_true_iff in Ht as [H1 H2]. apply beqb_eq in H1, H2. subst.
      cbn [Mem.step]. crunch; leaf; try exact Hs;
        (erewrite iman_upd_set by (intros; reflexivity)); rewrite !beqb_refl; cbn [andb];
        match goal with H : get_repo ?s r0 = Some _ |- _ => rewrite H; discriminate end.
    - (* DeleteManifest *) apply andb_true_iff in Ht as [H1 H2]. apply beqb_eq in H1, H2. subst. now elim Hn.
  Qed.

  Lemma push_manifest_sets st r t data media :
    is_ok (snd (step st (PushManifest r t data media))) = true ->
    (immutable_tags cfg = false \/ itag st r t = None) ->
    iman (fst (step st (PushManifest r t data media))) r (hash data) =
      Some {| b_media := media; b_data := data;
              b_subject := subject_of decode_image decode_index media data |}.
  Proof.
    cbn [Mem.step]. intros Hok Hcase.
    destruct (make_repo valid_repo st r) as [st1|] eqn:EM; [|discriminate].
    destruct (get_repo st1 r) as [rp|] eqn:ER; [|discriminate].
    assert (Htag : itag st1 r t = itag st r t) by (apply (make_repo_views _ _ _ _ EM)).
    revert Hok. crunch; cbn [fst snd]; try discriminate; intros _;
      try (erewrite iman_upd_set by (intros; reflexivity); rewrite !beqb_refl, ER; cbn [andb];
           match goal with H : check_manifest _ _ _ _ _ _ _ = Some _ |- _ =>
             apply check_manifest_ok in H as [_ ->] end; reflexivity).
    all: exfalso; destruct Hcase as [Hc|Hc]; try congruence;
      rewrite Hc in Htag; unfold itag in Htag; rewrite ER in Htag; congruence.
  Qed.

  Lemma push_manifest_sets_tag st r t data media de :
    snd (step st (PushManifest r t data media)) = Ok (RDesc de) -> t <> [] ->
    itag (fst (step st (PushManifest r t data media))) r t = Some de /\
    d_digest de = hash data /\ d_media de = media.
  Proof.
    cbn [Mem.step]. intros Hok Ht.
    destruct (make_repo valid_repo st r) as [st1|] eqn:EM; [|discriminate].
    destruct (get_repo st1 r) as [rp|] eqn:ER; [|discriminate].
    revert Hok. crunch; cbn [fst snd]; try discriminate; try congruence; intros Hok;
      injection Hok as <-.
    all: try (split; [|split; reflexivity];
              erewrite itag_upd_set by (intros; reflexivity); rewrite !beqb_refl, ER; reflexivity).
    all: repeat match goal with H : beqb _ _ = true |- _ => apply beqb_eq in H end.
    all: split; [unfold itag; rewrite ER; assumption | split; congruence].
  Qed.

  (* where a stored manifest comes from: it was there before, or this operation pushed it *)
  Lemma man_origin st o r d b :
    iman (fst (step st o)) r d = Some b ->
    iman st r d = Some b \/ exists r' t data media, o = PushManifest r' t data media /\ b_data b = data.
  Proof.
    destruct (touches_manifest o r d) eqn:Ht; [|rewrite man_frame by exact Ht; auto].
    destruct o; cbn [MemFrame.touches_manifest] in Ht; try discriminate.
    - (* PushManifest *)
      apply andb_true_iff in Ht as [H1 H2]. apply beqb_eq in H1, H2. subst.
      cbn [Mem.step]. crunch; leaf; auto;
        (erewrite iman_upd_set by (intros; reflexivity)); rewrite !beqb_refl; cbn [andb];
        match goal with H : get_repo ?s r0 = Some _ |- _ => rewrite H end;
        intros H; injection H as <-; right; do 4 eexists; split; reflexivity.
    - (* DeleteManifest *) apply andb_true_iff in Ht as [H1 H2]. apply beqb_eq in H1, H2. subst.
      cbn [Mem.step]. crunch; leaf; auto; rewrite iman_del_manifest, !beqb_refl; discriminate.
  Qed.

  (* ---- lifted over histories ---- *)
  Lemma final_preserve (P : state -> Prop) (ok : op -> Prop) :
    (forall st o, P st -> ok o -> P (fst (step st o))) ->
    forall h st, P st -> Forall ok h -> P (final step st h).
  Proof.
    intros Hstep h; induction h as [|o h IH]; intros st HP Hall; [exact HP|].
    rewrite final_cons. inversion Hall; subst. apply IH; auto.
  Qed.

  Lemma inv_final st h : Inv st -> Inv (final step st h).
  Proof. intros HI. apply invariant_final; [intros; now apply inv_step | exact HI]. Qed.

  Lemma get_blob_found st r d b :
    iblob st r d = Some b -> snd (step st (GetBlob r d)) = Ok (RRead (blob_desc hash b) (b_data b)).
  Proof.
    cbn [Mem.step snd]. unfold blob_for, iblob. destruct (get_repo st r); [|discriminate].
    intros ->. reflexivity.
  Qed.
  Lemma get_blob_absent st r d :
    iblob st r d = None ->
    exists e, snd (step st (GetBlob r d)) = Err e /\ (e_code e = BLOB_UNKNOWN \/ e_code e = NAME_UNKNOWN).
  Proof.
    cbn [Mem.step snd]. unfold blob_for, iblob. destruct (get_repo st r).
    - intros ->. eexists. split; [reflexivity | now left].
    - intros _. eexists. split; [reflexivity | now right].
  Qed.
  Lemma get_manifest_found st r d b :
    iman st r d = Some b -> snd (step st (GetManifest r d)) = Ok (RRead (blob_desc hash b) (b_data b)).
  Proof.
    cbn [Mem.step snd]. unfold manifest_for, iman. destruct (get_repo st r); [|discriminate].
    intros ->. reflexivity.
  Qed.
  Lemma get_manifest_absent st r d :
    iman st r d = None ->
    exists e, snd (step st (GetManifest r d)) = Err e /\ (e_code e = MANIFEST_UNKNOWN \/ e_code e = NAME_UNKNOWN).
  Proof.
    cbn [Mem.step snd]. unfold manifest_for, iman. destruct (get_repo st r).
    - intros ->. eexists. split; [reflexivity | now left].
    - intros _. eexists. split; [reflexivity | now right].
  Qed.

  (* pushed blobs are found until deleted *)
  Theorem blob_found_until_deleted st r de c h :
    Inv st -> is_ok (snd (step st (PushBlob r de c))) = true ->
    Forall (fun o => o <> DeleteBlob r (d_digest de)) h ->
    exists de' data,
      snd (step (final step (fst (step st (PushBlob r de c))) h) (GetBlob r (d_digest de))) = Ok (RRead de' data) /\
      d_digest de' = d_digest de /\ hash data = d_digest de /\ d_size de' = blen data.
  Proof.
    intros HI Hok Hall. set (st1 := fst (step st (PushBlob r de c))).
    assert (HI1 : Inv st1) by (apply inv_step; exact HI).
    assert (H1 : iblob st1 r (d_digest de) <> None).
    { unfold st1. rewrite (proj1 (push_blob_sets st r de c Hok)). discriminate. }
    assert (H2 : iblob (final step st1 h) r (d_digest de) <> None).
    { apply (final_preserve (fun s => iblob s r (d_digest de) <> None) (fun o => o <> DeleteBlob r (d_digest de)));
        auto. intros s o. apply blob_stays. }
    destruct (iblob (final step st1 h) r (d_digest de)) as [b|] eqn:E; [|congruence].
    exists (blob_desc hash b), (b_data b). rewrite (get_blob_found _ _ _ _ E).
    pose proof (inv_iblob _ _ _ _ _ _ _ (inv_final st1 h HI1) E) as Hh. cbn. auto.
  Qed.

  (* ... with exactly the pushed bytes and media type while nothing else is stored under that digest *)
  Theorem blob_found_exact st r de c h :
    is_ok (snd (step st (PushBlob r de c))) = true ->
    Forall (fun o => touches_blob o r (d_digest de) = false) h ->
    snd (step (final step (fst (step st (PushBlob r de c))) h) (GetBlob r (d_digest de))) =
      Ok (RRead (sdesc (d_media de) (d_digest de) c) c).
  Proof.
    intros Hok Hall. set (st1 := fst (step st (PushBlob r de c))).
    destruct (push_blob_sets st r de c Hok) as (H1 & Hh & Hs). fold st1 in H1.
    assert (H2 : iblob (final step st1 h) r (d_digest de) = iblob st1 r (d_digest de)).
    { apply (final_preserve (fun s => iblob s r (d_digest de) = iblob st1 r (d_digest de))
                            (fun o => touches_blob o r (d_digest de) = false)); auto.
      intros s o Hs' Ht. now rewrite blob_frame. }
    rewrite H1 in H2. rewrite (get_blob_found _ _ _ _ H2). unfold blob_desc, sdesc. cbn. now rewrite Hh.
  Qed.

  (* deleted blobs are not found until stored again *)
  Theorem blob_deleted_not_found st r d h :
    is_ok (snd (step st (DeleteBlob r d))) = true ->
    Forall (fun o => touches_blob o r d = false) h ->
    exists e, snd (step (final step (fst (step st (DeleteBlob r d))) h) (GetBlob r d)) = Err e /\
              (e_code e = BLOB_UNKNOWN \/ e_code e = NAME_UNKNOWN).
  Proof.
    intros Hok Hall. apply get_blob_absent.
    apply (final_preserve (fun s => iblob s r d = None) (fun o => touches_blob o r d = false)); auto.
    - intros s o Hs Ht. now rewrite blob_frame.
    - now apply delete_blob_unsets.
  Qed.

  (* the same for manifests *)
  Theorem manifest_found_until_deleted st r t data media h :
    Inv st -> is_ok (snd (step st (PushManifest r t data media))) = true ->
    (immutable_tags cfg = false \/ itag st r t = None) ->
    Forall (fun o => o <> DeleteManifest r (hash data)) h ->
    exists de' data',
      snd (step (final step (fst (step st (PushManifest r t data media))) h) (GetManifest r (hash data))) =
        Ok (RRead de' data') /\
      d_digest de' = hash data /\ hash data' = hash data /\ d_size de' = blen data'.
  Proof.
    intros HI Hok Hcase Hall. set (st1 := fst (step st (PushManifest r t data media))).
    assert (HI1 : Inv st1) by (apply inv_step; exact HI).
    assert (H1 : iman st1 r (hash data) <> None).
    { unfold st1. rewrite (push_manifest_sets st r t data media Hok Hcase). discriminate. }
    assert (H2 : iman (final step st1 h) r (hash data) <> None).
    { apply (final_preserve (fun s => iman s r (hash data) <> None) (fun o => o <> DeleteManifest r (hash data)));
        auto. intros s o. apply manifest_stays. }
    destruct (iman (final step st1 h) r (hash data)) as [b|] eqn:E; [|congruence].
    exists (blob_desc hash b), (b_data b). rewrite (get_manifest_found _ _ _ _ E).
    destruct (inv_iman _ _ _ _ _ _ _ (inv_final st1 h HI1) E) as [Hh _]. cbn. auto.
  Qed.

  Theorem manifest_found_exact st r t data media h :
    is_ok (snd (step st (PushManifest r t data media))) = true ->
    (immutable_tags cfg = false \/ itag st r t = None) ->
    Forall (fun o => touches_manifest o r (hash data) = false) h ->
    snd (step (final step (fst (step st (PushManifest r t data media))) h) (GetManifest r (hash data))) =
      Ok (RRead (sdesc media (hash data) data) data).
  Proof.
    intros Hok Hcase Hall. set (st1 := fst (step st (PushManifest r t data media))).
    pose proof (push_manifest_sets st r t data media Hok Hcase) as H1. fold st1 in H1.
    assert (H2 : iman (final step st1 h) r (hash data) = iman st1 r (hash data)).
    { apply (final_preserve (fun s => iman s r (hash data) = iman st1 r (hash data))
                            (fun o => touches_manifest o r (hash data) = false)); auto.
      intros s o Hs' Ht. now rewrite man_frame. }
    rewrite H1 in H2. rewrite (get_manifest_found _ _ _ _ H2). reflexivity.
  Qed.

  Theorem manifest_deleted_not_found st r d h :
    is_ok (snd (step st (DeleteManifest r d))) = true ->
    Forall (fun o => touches_manifest o r d = false) h ->
    exists e, snd (step (final step (fst (step st (DeleteManifest r d))) h) (GetManifest r d)) = Err e /\
              (e_code e = MANIFEST_UNKNOWN \/ e_code e = NAME_UNKNOWN).
  Proof.
    intros Hok Hall. apply get_manifest_absent.
    apply (final_preserve (fun s => iman s r d = None) (fun o => touches_manifest o r d = false)); auto.
    - intros s o Hs Ht. now rewrite man_frame.
    - now apply delete_manifest_unsets.
  Qed.

  (* a tag resolves to the last manifest pushed under it *)
  Theorem tag_resolves_to_last_push st r t data media de h :
    snd (step st (PushManifest r t data media)) = Ok (RDesc de) -> t <> [] ->
    Forall (fun o => touches_tag o r t = false) h ->
    snd (step (final step (fst (step st (PushManifest r t data media))) h) (ResolveTag r t)) = Ok (RDesc de) /\
    d_digest de = hash data /\ d_media de = media.
  Proof.
    intros Hok Ht Hall. set (st1 := fst (step st (PushManifest r t data media))).
    destruct (push_manifest_sets_tag st r t data media de Hok Ht) as (H1 & Hd & Hm). fold st1 in H1.
    split; [|auto].
    assert (H2 : itag (final step st1 h) r t = Some de).
    { apply (final_preserve (fun s => itag s r t = Some de) (fun o => touches_tag o r t = false)); auto.
      intros s o Hs' Ht'. now rewrite tag_frame. }
    cbn [Mem.step snd]. unfold itag in H2. destruct (get_repo (final step st1 h) r); [|discriminate].
    now rewrite H2.
  Qed.

  (* a deleted tag no longer resolves *)
  Theorem tag_deleted_not_found st r t h :
    is_ok (snd (step st (DeleteTag r t))) = true ->
    Forall (fun o => touches_tag o r t = false) h ->
    exists e, snd (step (final step (fst (step st (DeleteTag r t))) h) (ResolveTag r t)) = Err e /\
              (e_code e = MANIFEST_UNKNOWN \/ e_code e = NAME_UNKNOWN).
  Proof.
    intros Hok Hall.
    assert (H1 : itag (fst (step st (DeleteTag r t))) r t = None).
    { revert Hok. cbn [Mem.step]. crunch; cbn [fst snd]; try discriminate. intros _.
      now rewrite itag_del_tag, !beqb_refl. }
    assert (H2 : itag (final step (fst (step st (DeleteTag r t))) h) r t = None).
    { apply (final_preserve (fun s => itag s r t = None) (fun o => touches_tag o r t = false)); auto.
      intros s o Hs' Ht'. now rewrite tag_frame. }
    set (st1 := fst (step st (DeleteTag r t))) in *.
    cbn [Mem.step snd]. unfold itag in H2.
    destruct (get_repo (final step st1 h) r).
    - rewrite H2. eexists. split; [reflexivity | now left].
    - eexists. split; [reflexivity | now right].
  Qed.
End Frame.
