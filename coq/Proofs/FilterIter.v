(* Proofs about the iterator methods of ocifilter/select.go as Go evaluates them
   (Model/FilterIter.v): property C12 for Repositories / Tags / Referrers under EVERY caller
   of the returned Seq - one that stops anywhere, one that stops when handed an error, one
   that carries on after it was handed an error, one that iterates again, one that never
   iterates. *)
From Coq Require Import String.
From OCI Require Import Model.FilterIter Proofs.Funcs Proofs.FilterSelect Proofs.FilterStack.

(* ---------- what a caller receives from a sequence of yields ---------- *)

(* the yields of [l] up to and including the first one the caller answers "stop" to; [i] is
   the number of yields the caller has received before *)
Fixpoint take_more (c : cons) (i : nat) (l : list yld) : list yld :=
  match l with
  | [] => []
  | y :: l' => y :: (if answer c i y then take_more c (S i) l' else [])
  end.

(* what the function literal of Repositories makes of the wrapped iterator's yields for a
   caller that never stops: the kept names up to the first error, then that error and
   nothing more *)
Fixpoint kept_upto_error (keep : bytes -> option bytes) (evs : list yld) : list yld :=
  match evs with
  | [] => []
  | (_, Some e) :: _ => [([], Some e)]
  | (repo, None) :: evs' =>
      match keep repo with
      | Some p => (p, None) :: kept_upto_error keep evs'
      | None => kept_upto_error keep evs'
      end
  end.

(* ---------- the innermost iterator under a caller ---------- *)

Lemma raw_take c evs : forall got n cs,
  raw_seqf bump evs (consumer_fn c) (got, n, cs) =
    (got ++ take_more c (length got) evs, (n + length (take_more c (length got) evs))%nat, cs).
Proof.
  induction evs as [|y evs IH]; intros got n cs; cbn [raw_seqf take_more].
  - now rewrite app_nil_r, Nat.add_0_r.
  - cbn [bump consumer_fn]. destruct (answer c (length got) y).
    + rewrite IH, app_length. cbn [length]. rewrite Nat.add_1_r, <- app_assoc. cbn [app length].
      f_equal. f_equal. lia.
    + cbn [length]. f_equal. f_equal. lia.
Qed.

(* ... and under the callbacks of at least one level of Repositories function literals *)
Lemma raw_callbacks_take l ls c evs : forall got n cs,
  exists n',
    raw_seqf bump evs (stack_callback (l :: ls) (consumer_fn c)) (got, n, cs) =
      (got ++ take_more c (length got) (kept_upto_error (stack_keep (l :: ls)) evs), n', cs).
Proof.
  induction evs as [|[repo [e|]] evs IH]; intros got n cs; cbn [raw_seqf kept_upto_error].
  - exists n. cbn. now rewrite app_nil_r.
  - rewrite stack_callback_cons. cbn [bump consumer_fn fst snd take_more]. exists (S n).
    destruct (answer c (length got) ([], Some e)); reflexivity.
  - rewrite stack_callback_cons. unfold stack_keep at 1. cbn [bump fst snd].
    destruct (stack_visible (l :: ls) repo).
    + cbn [consumer_fn take_more]. destruct (answer c (length got) (repo, None)).
      * destruct (IH (got ++ [(repo, None)]) (S n) cs) as [n' H]. exists n'.
        etransitivity; [exact H|]. rewrite app_length. cbn [length]. rewrite Nat.add_1_r, <- app_assoc. reflexivity.
      * exists (S n). reflexivity.
    + apply IH.
Qed.

(* ---------- a method call through a stack ---------- *)

Definition is_list_op (o : op) : bool :=
  match o with Tags _ _ | Referrers _ _ _ => true | _ => false end.

(* Tags / Referrers: the outermost level that rejects answers with ErrorSeq and nothing
   underneath is touched; when no level rejects, the caller holds the innermost registry's
   own Seq, obtained by one call made while the method body ran *)
Lemma istack_list ls evs o :
  is_list_op o = true ->
  istack ls evs o =
    match stack_denial ls o with
    | Some e => ([], error_seqf e)
    | None => ibottom evs o
    end.
Proof.
  intros Ho. induction ls as [|l ls IH]; cbn [istack stack_denial]; [reflexivity|].
  destruct o; try discriminate; cbn [iover pre_checks op_checks first_denial];
    (destruct (l_check l r AccessList); [reflexivity | exact IH]).
Qed.

Lemma istack_repos_fst l ls evs start : fst (istack (l :: ls) evs (Repositories start)) = [].
Proof.
  cbn [istack iover]. destruct (if l_listAll l then None else l_check l star AccessList); reflexivity.
Qed.

Lemma note_nil s : note [] s = s.
Proof. destruct s as [[got n] cs]. cbn. now rewrite app_nil_r. Qed.

(* Repositories: for ANY callback and state.  Either some level refuses the listing, and the
   callback is called once with that level's error whatever it answers; or the innermost
   registry's Repositories is called - now, during the iteration - and its Seq runs under
   the composed function literals *)
Lemma istack_repos_snd ls evs start : forall yield s,
  snd (istack ls evs (Repositories start)) yield s =
    match ls with
    | [] => raw_seqf bump evs yield s
    | _ :: _ =>
        match star_denial ls with
        | Some e => fst (yield ([], Some e) s)
        | None => raw_seqf bump evs (stack_callback ls yield) (note [Repositories start] s)
        end
    end.
Proof.
  induction ls as [|l ls IH]; intros yield s; [reflexivity|].
  cbn [istack iover star_denial].
  destruct (if l_listAll l then None else l_check l star AccessList) as [e|]; [reflexivity|].
  cbn [snd]. unfold repos_literal. rewrite IH. destruct ls as [|l' ls'].
  - reflexivity.
  - rewrite istack_repos_fst, note_nil. destruct (star_denial (l' :: ls')); reflexivity.
Qed.

(* ---------- rejected: nothing reaches the innermost registry, under every caller ---------- *)

(* A level rejects the call: the method body makes no call on the innermost registry, and
   the returned Seq, given ANY callback in ANY state, calls it exactly once, with the
   zero item and the error of the outermost level that rejects - whatever the callback
   answers - and does nothing else: the state afterwards is the callback's own. *)
Theorem iter_denied l ls evs o e :
  is_iter_op o = true -> stack_denial (l :: ls) o = Some e ->
  fst (istack (l :: ls) evs o) = [] /\
  forall (yield : yfun istate) (s : istate),
    snd (istack (l :: ls) evs o) yield s = fst (yield ([], Some e) s).
Proof.
  intros Ho Hd. destruct o; try discriminate.
  - rewrite istack_repos_fst. split; [reflexivity|]. intros yield s.
    rewrite istack_repos_snd, (star_denial_is_stack_denial _ start), Hd. reflexivity.
  - rewrite istack_list, Hd by reflexivity. split; reflexivity.
  - rewrite istack_list, Hd by reflexivity. split; reflexivity.
Qed.

(* in particular for the callers of the model, iterating any number of times: every
   iteration receives the error alone, the innermost iterator makes no yield and the
   innermost registry is not called *)
Corollary irun_denied l ls evs o e cs :
  is_iter_op o = true -> stack_denial (l :: ls) o = Some e ->
  irun (l :: ls) evs o cs = ([], map (fun _ => ([([], Some e)], 0%nat, [])) cs).
Proof.
  intros Ho Hd. destruct (iter_denied l ls evs o e Ho Hd) as [Hf Hs]. unfold irun. rewrite Hf.
  f_equal. apply map_ext. intros c. unfold iterate. rewrite Hs. reflexivity.
Qed.

(* ---------- allowed: exactly the wrapped registry ---------- *)

(* Tags / Referrers allowed by every level: the very call and the very Seq of the innermost
   registry (so every caller receives what it would receive from the registry directly) *)
Theorem iter_allowed_list ls evs o :
  is_list_op o = true -> stack_denial ls o = None -> istack ls evs o = ibottom evs o.
Proof. intros Ho Hd. now rewrite istack_list, Hd. Qed.

Corollary irun_allowed_list ls evs o cs :
  is_list_op o = true -> stack_denial ls o = None ->
  irun ls evs o cs =
    ([o], map (fun c => (take_more c 0 evs, length (take_more c 0 evs), [])) cs).
Proof.
  intros Ho Hd. unfold irun. rewrite (iter_allowed_list ls evs o Ho Hd). cbn [ibottom fst snd].
  f_equal. apply map_ext. intros c. unfold iterate. now rewrite raw_take.
Qed.

(* Repositories allowed by every level: the method body calls nothing; every iteration
   calls the innermost registry's Repositories once, with the same argument, and the caller
   receives the names every level lets be read, in order, up to the first error, then that
   error and nothing more - cut after the first yield the caller answers "stop" to *)
Theorem irun_allowed_repos l ls evs start cs :
  star_denial (l :: ls) = None ->
  fst (irun (l :: ls) evs (Repositories start) cs) = [] /\
  Forall2 (fun c it =>
             i_got it = take_more c 0 (kept_upto_error (stack_keep (l :: ls)) evs) /\
             snd it = [Repositories start])
          cs (snd (irun (l :: ls) evs (Repositories start) cs)).
Proof.
  intros Hd. unfold irun. cbn [fst snd]. split; [apply istack_repos_fst|].
  induction cs as [|c cs IH]; cbn [map]; constructor; [|exact IH].
  unfold iterate. rewrite istack_repos_snd, Hd.
  destruct (raw_callbacks_take l ls c evs [] 0%nat ([] ++ [Repositories start])) as [n' H].
  cbn [note]. rewrite H. split; reflexivity.
Qed.

(* every call that reaches the innermost registry, at any time (while the method body runs
   or during any iteration, under any callers), is the call itself, and then no level
   rejects it *)
Theorem irun_calls l ls evs o cs o' :
  is_iter_op o = true ->
  In o' (fst (irun (l :: ls) evs o cs) ++ concat (map snd (snd (irun (l :: ls) evs o cs)))) ->
  o' = o /\ stack_denial (l :: ls) o = None.
Proof.
  intros Ho Hi. destruct (stack_denial (l :: ls) o) as [e|] eqn:Hd.
  - exfalso. rewrite (irun_denied l ls evs o e cs Ho Hd) in Hi. cbn [fst snd app] in Hi.
    induction cs as [|c cs IH]; cbn in Hi; [contradiction | exact (IH Hi)].
  - split; [|reflexivity]. destruct o; try discriminate.
    + destruct (irun_allowed_repos l ls evs start cs) as [Hf Hs].
      { now rewrite (star_denial_is_stack_denial _ start). }
      rewrite Hf in Hi. cbn [app] in Hi. clear Hf. revert Hs Hi.
      generalize (snd (irun (l :: ls) evs (Repositories start) cs)). intros its Hs.
      induction Hs as [|c it cs' its' [_ Hc] _ IH]; cbn; [contradiction|].
      rewrite Hc. cbn. intros [<-|Hi]; [reflexivity | exact (IH Hi)].
    + rewrite (irun_allowed_list (l :: ls) evs _ cs (eq_refl : is_list_op (Tags r start) = true) Hd) in Hi. cbn [fst snd app] in Hi.
      destruct Hi as [<-|Hi]; [reflexivity|]. exfalso.
      induction cs as [|c cs IH]; cbn in Hi; [contradiction | exact (IH Hi)].
    + rewrite (irun_allowed_list (l :: ls) evs _ cs (eq_refl : is_list_op (Referrers r d art) = true) Hd) in Hi. cbn [fst snd app] in Hi.
      destruct Hi as [<-|Hi]; [reflexivity|]. exfalso.
      induction cs as [|c cs IH]; cbn in Hi; [contradiction | exact (IH Hi)].
Qed.
