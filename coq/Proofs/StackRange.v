(* The Range header of ociclient.GetBlobRange as ociserver's parseRange reads it. *)
From Coq Require Import String.
From OCI Require Import Model.Stack Proofs.Request Proofs.StackBase.
From OCI Require Proofs.Server.

Local Open Scope Z_scope.

Lemma split_byte_aux_none c a : forall cur, ~ In c a -> split_byte_aux c a cur = [rev cur ++ a].
Proof.
  induction a as [|d a IH]; intros cur Hn; cbn [split_byte_aux].
  - rewrite app_nil_r. reflexivity.
  - destruct (N.eqb_spec d c) as [->|Hd]; [exfalso; apply Hn; left; reflexivity|].
    rewrite IH by (intros Hi; apply Hn; right; exact Hi). cbn [rev]. rewrite <- app_assoc. reflexivity.
Qed.

Lemma split_byte_none c a : ~ In c a -> split_byte c a = [a].
Proof. intros H. unfold split_byte. now rewrite split_byte_aux_none. Qed.

Definition no_space (a : bytes) : bool := forallb (fun c => negb (is_ascii_space c)) a.

Lemma trim_left_no_space a : no_space a = true -> trim_left a = a.
Proof. destruct a as [|c a]; [reflexivity|]. cbn. intros H. apply andb_true_iff in H as [H _]. apply negb_true_iff in H. now rewrite H. Qed.

Lemma no_space_rev a : no_space a = true -> no_space (rev a) = true.
Proof.
  unfold no_space. rewrite !forallb_forall. intros H x Hx. apply H. now apply in_rev.
Qed.

Lemma trim_string_no_space a : no_space a = true -> trim_string a = a.
Proof.
  intros H. unfold trim_string. rewrite (trim_left_no_space a H), (trim_left_no_space _ (no_space_rev a H)).
  apply rev_involutive.
Qed.

Lemma digits_no_space l : forallb Request.is_digit l = true -> no_space l = true.
Proof.
  unfold no_space. rewrite !forallb_forall. intros H x Hx. specialize (H x Hx).
  apply is_digit_range in H. unfold is_ascii_space.
  destruct (N.eqb_spec x 32), (N.eqb_spec x 9), (N.eqb_spec x 10), (N.eqb_spec x 13); try lia; reflexivity.
Qed.

Lemma no_space_app a b : no_space a = true -> no_space b = true -> no_space (a ++ b) = true.
Proof. unfold no_space. intros Ha Hb. now rewrite forallb_app, Ha, Hb. Qed.

Lemma digits_no_comma l : forallb Request.is_digit l = true -> ~ In 44%N l.
Proof. intros H. apply forallb_digit_not_in; [exact H | lia]. Qed.

(* "bytes=a-b" with 0 <= a <= b *)
Lemma parse_range_closed a b : 0 <= a -> a <= b -> b <= max_int64 ->
  parse_range_header (s "bytes=" ++ dec_Z a ++ 45%N :: dec_Z b) = Ok [(a, wrap64 (b + 1))].
Proof.
  intros Ha Hab Hb.
  pose proof (Proofs.Server.dec_Z_nonneg_digits a Ha) as Da.
  pose proof (Proofs.Server.dec_Z_nonneg_digits b ltac:(lia)) as Db.
  unfold parse_range_header.
  change (s "bytes=" ++ dec_Z a ++ 45%N :: dec_Z b) with (98%N :: (s "ytes=" ++ dec_Z a ++ 45%N :: dec_Z b)).
  cbv iota.
  change (98%N :: (s "ytes=" ++ dec_Z a ++ 45%N :: dec_Z b)) with (s "bytes=" ++ (dec_Z a ++ 45%N :: dec_Z b)).
  rewrite has_prefix_app. cbn [negb].
  change (skipn 6 (s "bytes=" ++ (dec_Z a ++ 45%N :: dec_Z b))) with (dec_Z a ++ 45%N :: dec_Z b).
  assert (Hns : no_space (dec_Z a ++ 45%N :: dec_Z b) = true).
  { apply no_space_app; [now apply digits_no_space|]. cbn [no_space forallb]. change (negb (is_ascii_space 45)) with true.
    cbn [andb]. now apply digits_no_space. }
  assert (Hnc : ~ In 44%N (dec_Z a ++ 45%N :: dec_Z b)).
  { intros Hi. apply in_app_or in Hi as [Hi|[Hi|Hi]]; [now apply (digits_no_comma _ Da) | discriminate | now apply (digits_no_comma _ Db)]. }
  rewrite (split_byte_none _ _ Hnc). cbn [parse_range_list]. unfold parse_range_one.
  rewrite (trim_string_no_space _ Hns).
  destruct (dec_Z a ++ 45%N :: dec_Z b) as [|c0 l0] eqn:El; [destruct (dec_Z a); discriminate|]. rewrite <- El.
  rewrite (Proofs.Server.cut_byte_app' 45%N (dec_Z a) (dec_Z b) (Proofs.Server.dec_Z_nonneg_no_dash a Ha)).
  rewrite (trim_string_no_space _ (digits_no_space _ Da)), (trim_string_no_space _ (digits_no_space _ Db)).
  destruct (dec_Z a) as [|a0 la] eqn:Ea.
  { pose proof (parse_int_dec_Z a ltac:(unfold min_int64; lia)) as P. rewrite Ea in P. discriminate P. }
  rewrite <- Ea. rewrite (parse_int_dec_Z a) by (unfold min_int64; lia).
  destruct (Z.ltb_spec a 0); [lia|].
  destruct (dec_Z b) as [|b0 lb] eqn:Eb.
  { pose proof (parse_int_dec_Z b ltac:(unfold min_int64; lia)) as P. rewrite Eb in P. discriminate P. }
  rewrite <- Eb. rewrite (parse_int_dec_Z b) by (unfold min_int64; lia).
  destruct (Z.ltb_spec b a); [lia|]. reflexivity.
Qed.

(* "bytes=a-" with 0 <= a *)
Lemma parse_range_open a : 0 <= a -> a <= max_int64 ->
  parse_range_header (s "bytes=" ++ dec_Z a ++ [45%N]) = Ok [(a, -1)].
Proof.
  intros Ha Hb.
  pose proof (Proofs.Server.dec_Z_nonneg_digits a Ha) as Da.
  unfold parse_range_header.
  change (s "bytes=" ++ dec_Z a ++ [45%N]) with (98%N :: (s "ytes=" ++ dec_Z a ++ [45%N])).
  cbv iota.
  change (98%N :: (s "ytes=" ++ dec_Z a ++ [45%N])) with (s "bytes=" ++ (dec_Z a ++ [45%N])).
  rewrite has_prefix_app. cbn [negb].
  change (skipn 6 (s "bytes=" ++ (dec_Z a ++ [45%N]))) with (dec_Z a ++ [45%N]).
  assert (Hns : no_space (dec_Z a ++ [45%N]) = true).
  { apply no_space_app; [now apply digits_no_space | reflexivity]. }
  assert (Hnc : ~ In 44%N (dec_Z a ++ [45%N])).
  { intros Hi. apply in_app_or in Hi as [Hi|[Hi|[]]]; [now apply (digits_no_comma _ Da) | discriminate]. }
  rewrite (split_byte_none _ _ Hnc). cbn [parse_range_list]. unfold parse_range_one.
  rewrite (trim_string_no_space _ Hns).
  destruct (dec_Z a ++ [45%N]) as [|c0 l0] eqn:El; [destruct (dec_Z a); discriminate|]. rewrite <- El.
  rewrite (Proofs.Server.cut_byte_app' 45%N (dec_Z a) [] (Proofs.Server.dec_Z_nonneg_no_dash a Ha)).
  rewrite (trim_string_no_space _ (digits_no_space _ Da)).
  destruct (dec_Z a) as [|a0 la] eqn:Ea.
  { pose proof (parse_int_dec_Z a ltac:(unfold min_int64; lia)) as P. rewrite Ea in P. discriminate P. }
  rewrite <- Ea. rewrite (parse_int_dec_Z a) by (unfold min_int64; lia).
  destruct (Z.ltb_spec a 0); [lia|]. reflexivity.
Qed.

(* the client's header for the two shapes *)
Lemma range_header_closed o0 o1 : 0 <= o1 -> range_header o0 o1 = s "bytes=" ++ dec_Z o0 ++ 45%N :: dec_Z (o1 - 1).
Proof. intros H. unfold range_header. destruct (Z.ltb_spec o1 0); [lia|]. now rewrite !fmt_d_dec_Z. Qed.

Lemma range_header_open o0 o1 : o1 < 0 -> range_header o0 o1 = s "bytes=" ++ dec_Z o0 ++ [45%N].
Proof. intros H. unfold range_header. destruct (Z.ltb_spec o1 0); [|lia]. now rewrite !fmt_d_dec_Z. Qed.

(* what the server reads: the caller's range, for every range the header can express *)
Definition expressible (o0 o1 : Z) : Prop := 0 <= o0 <= max_int64 /\ (o1 < 0 \/ (o0 < o1 /\ o1 <= max_int64)).

Definition server_end (o1 : Z) : Z := if o1 <? 0 then -1 else o1.

Theorem range_header_parses o0 o1 : expressible o0 o1 ->
  parse_range_header (range_header o0 o1) = Ok [(o0, server_end o1)].
Proof.
  intros [[H0 H0m] [Hneg|[Hlt Hm]]]; unfold server_end.
  - rewrite (range_header_open o0 o1 Hneg), (parse_range_open o0 H0 H0m).
    destruct (Z.ltb_spec o1 0); [reflexivity | lia].
  - rewrite (range_header_closed o0 o1) by lia. rewrite (parse_range_closed o0 (o1 - 1)) by lia.
    destruct (Z.ltb_spec o1 0); [lia|]. replace (o1 - 1 + 1) with o1 by lia.
    rewrite wrap64_small by (unfold min_int64; lia). reflexivity.
Qed.

Print Assumptions range_header_parses.
