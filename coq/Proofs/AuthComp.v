(* Proofs about Model/Auth.v, part 9: the cache is complete - every token that was handed out
   to a call on a host (and the configured one) is still cached for that host unless a call on
   that host has already started at a time when the token had less than a second to live. *)
From Coq Require Import String ZArith Lia.
From OCI Require Import Base.Outcome Model.Scope Model.Challenge Model.Auth Model.AuthSpec
  Proofs.Challenge Proofs.AuthBase Proofs.AuthShape Proofs.AuthInv Proofs.AuthStep Proofs.AuthTrace Proofs.AuthC11.

Local Open Scope Z_scope.

Section Comp.
  Variable E : env.

  (* at some earlier moment of the history the deadline X was already less than a second away *)
  Definition Dead (h : hist) (X : Z) : Prop :=
    exists pre h0, h = pre ++ h0 /\ h0 <> [] /\ X < e_clock E h0 + second.

  Lemma Dead_app new h X : Dead h X -> Dead (new ++ h) X.
  Proof. intros [pre [h0 [-> H]]]. exists (new ++ pre), h0. now rewrite app_assoc. Qed.

  Record CI (host : bytes) (r : registry) (h : hist) : Prop := {
    ci_iss : forall i, In i (issues E h) -> on_host (i_id i) host h = true -> nonempty (i_tok i) = true ->
             (exists tok, In tok (r_tokens r) /\ String (st_scope tok) = i_text i /\ st_expires tok = i_exp i)
             \/ Dead h (i_exp i);
    ci_cfg : r_initerr r = false -> forall ce, e_cfg E host = Some ce -> nonempty (ce_access ce) = true ->
             (exists tok, In tok (r_tokens r) /\ st_scope tok = UnlimitedScope /\ st_expires tok = forever)
             \/ Dead h forever
  }.

  Record CompRH (rg : list (bytes * registry)) (h : hist) : Prop := {
    comp_reg : forall host r, reg_get host rg = Some r -> CI host r h;
    comp_started : forall id q, In (EStart id q) h -> reg_get (q_host q) rg <> None
  }.

  Definition Comp (st : state) : Prop := CompRH (regs st) (history st).

  Lemma Comp_init : Comp init_state.
  Proof. split; cbn; intros; [discriminate | contradiction]. Qed.

  (* ---------- issues and events ---------- *)

  Lemma start_in id q h : req_of id h = Some q -> In (EStart id q) h.
  Proof.
    induction h as [|e h IH]; [discriminate|].
    destruct e as [i q0| | | | | |]; cbn; try (intros H; right; now apply IH).
    destruct (Nat.eqb i id) eqn:Ei; [|intros H; right; now apply IH].
    apply Nat.eqb_eq in Ei. intros [= ->]. subst. now left.
  Qed.

  Lemma issue_ids h i : In i (issues E h) -> exists e, In e h /\ ev_id e = i_id i.
  Proof.
    induction h as [|e h IH]; [intros []|]. rewrite issues_cons.
    destruct (issue_at E (e :: h)) as [i0|] eqn:Ei; cbn [ocons].
    - intros [<-|Hin].
      + exists e. split; [now left|]. unfold issue_at in Ei. destruct e as [| |id m r| | | |]; try discriminate.
        destruct r as [|st www b]; try discriminate. destruct b; try discriminate.
        destruct (is_tok_msg m && (st =? 200)%N); [|discriminate]. now injection Ei as <-.
      + destruct (IH Hin) as [e' [He' Hid]]. exists e'. split; [now right | exact Hid].
    - intros Hin. destruct (IH Hin) as [e' [He' Hid]]. exists e'. split; [now right | exact Hid].
  Qed.

  Definition no_issue (e : event) : bool :=
    match e with ESend _ m _ => negb (is_tok_msg m) | _ => true end.

  Lemma no_issue_at e h : no_issue e = true -> issue_at E (e :: h) = None.
  Proof.
    destruct e as [| |id m r| | | |]; try reflexivity. cbn. intros Hm. apply negb_true_iff in Hm.
    destruct r as [|st www b]; [reflexivity|]. destruct b; try reflexivity. now rewrite Hm.
  Qed.

  (* one more event that hands out nothing and starts no call that already holds a token *)
  Lemma CI_cons host r e h :
    no_issue e = true -> (forall i, In i (issues E h) -> is_start (i_id i) e = false) ->
    CI host r h -> CI host r (e :: h).
  Proof.
    intros Hn Hs [C1 C2]. split.
    - intros i Hi Ho Hne. rewrite issues_cons, (no_issue_at _ _ Hn) in Hi. cbn [ocons] in Hi.
      pose proof (Hs i Hi) as Hst. unfold on_host in Ho. rewrite req_of_cons in Ho by exact Hst.
      destruct (C1 i Hi Ho Hne) as [H|H]; [now left | right; now apply (Dead_app [e])].
    - intros Hi ce Hc Hne. destruct (C2 Hi ce Hc Hne) as [H|H]; [now left | right; now apply (Dead_app [e])].
  Qed.

  Lemma not_start_facts e : (forall i q, e <> EStart i q) -> forall id, is_start id e = false.
  Proof. intros H id. destruct e; try reflexivity. exfalso. now apply (H id0 q). Qed.

  Lemma CI_app host r new h :
    Forall (fun e => no_issue e = true) new -> no_starts new -> CI host r h -> CI host r (new ++ h).
  Proof.
    induction new as [|e new IH]; intros Hn Hs Hc; [exact Hc|]. cbn [app].
    inversion Hn as [|x l Hn1 Hn2]. subst. apply CI_cons; [exact Hn1| |].
    - intros i _. apply not_start_facts. intros i0 q. apply (Hs e (or_introl eq_refl)).
    - apply IH; auto. intros e' He'. apply Hs. now right.
  Qed.

  (* the start of a call that has left no trace yet *)
  Lemma CI_start host r id q h :
    (forall e, In e h -> ev_id e <> id) -> CI host r h -> CI host r (EStart id q :: h).
  Proof.
    intros Hu. apply CI_cons; [reflexivity|]. intros i Hi. destruct (issue_ids _ _ Hi) as [e [He Hid]].
    cbn. apply Nat.eqb_neq. intros Heq. apply (Hu e He). congruence.
  Qed.

  (* ---------- token traffic ---------- *)

  Definition mk_issue (id : nat) (txt : bytes) (w : wire_token) (t : Z) : issue :=
    {| i_id := id; i_text := txt; i_tok := tok_of w; i_refresh := wt_refresh w; i_exp := t + life w |}.

  Lemma issue_at_tok id m rsp h :
    is_tok_msg m = true ->
    issue_at E (ESend id m rsp :: h)
    = match tok_result rsp with
      | Ok w => Some (mk_issue id (scope_text m) w (e_clock E (ESend id m rsp :: h)))
      | _ => None
      end.
  Proof.
    intros Hm. unfold issue_at, tok_result. destruct rsp as [|st www b]; [reflexivity|]. rewrite Hm. cbn [andb].
    destruct (st =? 200)%N; cbn [negb]; destruct b; reflexivity.
  Qed.

  Lemma tok_seq_issues id rf bs www txt n res X :
    tok_seq E id rf bs www txt n res ->
    issues E (n ++ X) = match res with Ok w => [mk_issue id txt w (e_clock E (n ++ X))] | _ => [] end ++ issues E X.
  Proof.
    intros [[-> ->]|[[m [rsp [-> [Hm ->]]]]|[mp [wwwp [bp [mg [rg [-> [Hp [Hg ->]]]]]]]]]].
    - reflexivity.
    - destruct (tokmsg_facts E _ _ _ _ _ Hm) as [Hm1 Hm2]. cbn [app]. rewrite issues_cons, issue_at_tok by exact Hm1.
      rewrite Hm2. now destruct (tok_result rsp).
    - destruct (tokmsg_facts E rf bs www txt _ (or_intror Hg)) as [Hg1 Hg2].
      destruct (tokmsg_facts E rf bs www txt _ (or_introl Hp)) as [Hp1 Hp2].
      cbn [app]. rewrite issues_cons, issue_at_tok by exact Hg1. rewrite Hg2.
      rewrite issues_cons, issue_at_tok by exact Hp1. cbn [tok_result N.eqb Pos.eqb negb ocons].
      now destruct (tok_result rg).
  Qed.

  Lemma tok_block_issues id rf bs www A B toks sc2 res2 X :
    tok_block E id rf bs www A B toks sc2 res2 ->
    issues E (toks ++ X)
    = match res2 with Ok w => [mk_issue id (String sc2) w (e_clock E (toks ++ X))] | _ => [] end ++ issues E X.
  Proof.
    intros [n1 [res1 [H1 [[_ [-> [-> ->]]]|[Hr [n2 [H2 [-> ->]]]]]]]].
    - now apply (tok_seq_issues id rf bs www).
    - rewrite <- app_assoc. rewrite (tok_seq_issues id rf bs www _ _ _ (n1 ++ X) H2).
      rewrite (tok_seq_issues id rf bs www _ _ _ X H1). subst res1. reflexivity.
  Qed.

  Lemma req_of_sends j id toks hb : tok_sends id toks -> req_of j (toks ++ hb) = req_of j hb.
  Proof.
    intros Hts. induction Hts as [|e l [m [rsp [-> _]]] _ IH]; [reflexivity|]. cbn [app]. now rewrite req_of_cons.
  Qed.

  (* the registry after a block is complete for the history after the block *)
  Lemma blk_CI id host q r0 www A B hb toks sc2 res2 resa r1 :
    blk E id r0 www A B hb toks sc2 res2 resa r1 ->
    req_of id hb = Some q -> q_host q = host ->
    CI host r0 hb -> CI host r1 (toks ++ hb).
  Proof.
    intros [_ Hb Hf [_ [Hs2 _]] _ _ _] Hq Hh [C1 C2].
    pose proof (tok_block_sends E _ _ _ _ _ _ _ _ _ Hb) as Hts.
    pose proof (tok_sends_quiets _ _ Hts) as Hqt.
    assert (Hsub : forall tok, In tok (r_tokens r0) -> In tok (r_tokens r1)).
    { intros tok Hin. unfold aat_final in Hf. destruct res2 as [w|e| |]; try contradiction.
      - destruct Hf as [_ Hf]. destruct (is_nil (tok_of w)); destruct Hf as [_ ->]; [exact Hin | apply in_or_app; now left].
      - destruct Hf as [_ [_ ->]]. exact Hin. }
    split.
    - intros i Hi Ho Hne. rewrite (tok_block_issues _ _ _ _ _ _ _ _ _ hb Hb) in Hi.
      apply in_app_or in Hi as [Hi|Hi].
      + destruct res2 as [w|e| |]; [| destruct Hi | destruct Hi | destruct Hi]. destruct Hi as [<-|[]]. left.
        unfold aat_final in Hf. destruct Hf as [_ Hf]. cbn [mk_issue i_tok] in Hne.
        unfold nonempty in Hne. apply negb_true_iff in Hne. rewrite Hne in Hf. destruct Hf as [_ ->].
        eexists. split; [apply in_or_app; right; now left|]. now split.
      + unfold on_host in Ho. rewrite (req_of_sends _ _ _ _ Hts) in Ho.
        destruct (C1 i Hi Ho Hne) as [[tok [Hin Hrest]]|Hd]; [left; exists tok; split; auto | right; now apply Dead_app].
    - intros Hi ce Hc Hne. rewrite Hs2 in Hi.
      destruct (C2 Hi ce Hc Hne) as [[tok [Hin Hrest]]|Hd]; [left; exists tok; split; auto | right; now apply Dead_app].
  Qed.

  (* token traffic of a call on another host *)
  Lemma blk_CI_other id host' q r0 www A B hb toks sc2 res2 resa r1 r' :
    blk E id r0 www A B hb toks sc2 res2 resa r1 ->
    req_of id hb = Some q -> beqb (q_host q) host' = false ->
    CI host' r' hb -> CI host' r' (toks ++ hb).
  Proof.
    intros [_ Hb _ _ _ _ _] Hq Hh [C1 C2].
    pose proof (tok_block_sends E _ _ _ _ _ _ _ _ _ Hb) as Hts.
    pose proof (tok_sends_quiets _ _ Hts) as Hqt.
    split.
    - intros i Hi Ho Hne. rewrite (tok_block_issues _ _ _ _ _ _ _ _ _ hb Hb) in Hi.
      apply in_app_or in Hi as [Hi|Hi].
      + exfalso. destruct res2 as [w|e| |]; [| destruct Hi | destruct Hi | destruct Hi]. destruct Hi as [<-|[]].
        unfold on_host in Ho. cbn [mk_issue i_id] in Ho. rewrite req_of_quiets, Hq in Ho by exact Hqt. congruence.
      + unfold on_host in Ho. rewrite (req_of_sends _ _ _ _ Hts) in Ho. destruct (C1 i Hi Ho Hne) as [H|H]; [now left | right; now apply Dead_app].
    - intros Hi ce Hc Hne. destruct (C2 Hi ce Hc Hne) as [H|H]; [now left | right; now apply Dead_app].
  Qed.

  Lemma CI_delete host r h :
    h <> [] -> CI host r h -> CI host (delete_expired r (e_clock E h + second)) h.
  Proof.
    intros Hne [C1 C2].
    assert (forall tok, In tok (r_tokens r) ->
              In tok (r_tokens (delete_expired r (e_clock E h + second))) \/ Dead h (st_expires tok)) as Hk.
    { intros tok Hin. cbn. destruct (st_expires tok <? e_clock E h + second) eqn:El.
      - right. exists [], h. split; [reflexivity|]. split; [exact Hne|]. now apply Z.ltb_lt.
      - left. apply filter_In. split; [exact Hin|]. now rewrite El. }
    split.
    - intros i Hi Ho Hn. destruct (C1 i Hi Ho Hn) as [[tok [Hin [Ht Hx]]]|Hd]; [|now right].
      destruct (Hk tok Hin) as [H|H]; [left; now exists tok | right; now rewrite <- Hx].
    - intros Hi ce Hc Hn. destruct (C2 Hi ce Hc Hn) as [[tok [Hin [Ht Hx]]]|Hd]; [|now right].
      destruct (Hk tok Hin) as [H|H]; [left; now exists tok | right; now rewrite <- Hx].
  Qed.

  Lemma CI_set_www host r ch h : CI host r h -> CI host (set_www r ch) h.
  Proof. intros [C1 C2]. split; [exact C1 | exact C2]. Qed.

  (* a freshly initialised registry of a host no call was ever started on *)
  Lemma CI_init host h :
    (forall id q, In (EStart id q) h -> q_host q <> host) -> CI host (init_inner (e_cfg E host)) h.
  Proof.
    intros Hno. split.
    - intros i Hi Ho _. exfalso. unfold on_host in Ho. destruct (req_of (i_id i) h) as [q|] eqn:Eq; [|discriminate].
      apply beqb_eq in Ho. apply start_in in Eq. exact (Hno _ _ Eq Ho).
    - intros Hi ce Hc Hne. left. unfold init_inner. rewrite Hc. cbn [r_tokens]. rewrite Hne.
      eexists. split; [now left|]. now split.
  Qed.

  (* ---------- steps ---------- *)

  Lemma reg_get_set_some k host r (m : list (bytes * registry)) :
    reg_get k m <> None -> reg_get k (reg_set host r m) <> None.
  Proof.
    intros H. destruct (beqb k host) eqn:Ek.
    - apply beqb_eq in Ek. subst. rewrite reg_get_set_same. discriminate.
    - now rewrite reg_get_set_other.
  Qed.

  Definition quiet_new (new : hist) : Prop := Forall (fun e => no_issue e = true) new /\ no_starts new.

  Lemma quiet_new_cons e new : no_issue e = true -> (forall i q, e <> EStart i q) -> quiet_new new -> quiet_new (e :: new).
  Proof.
    intros H1 H2 [H3 H4]. split; [now constructor|]. intros x [<-|Hx]; [exact H2 | now apply H4].
  Qed.

  Lemma quiet_new_nil : quiet_new [].
  Proof. split; [constructor | intros e []]. Qed.

  Lemma quiet_new_app a b : quiet_new a -> quiet_new b -> quiet_new (a ++ b).
  Proof.
    intros [A1 A2] [B1 B2]. split; [now apply Forall_app|]. intros e He. apply in_app_or in He as [He|He]; auto.
  Qed.

  Lemma quiet_sc id (b : bool) : quiet_new (if b then [ESelfClose id] else []).
  Proof. destruct b; [apply quiet_new_cons; [reflexivity | discriminate | apply quiet_new_nil] | apply quiet_new_nil]. Qed.

  Lemma quiet_mids id mid : mids id mid -> quiet_new mid.
  Proof.
    induction 1 as [|e l He _ IH]; [apply quiet_new_nil|].
    apply quiet_new_cons; [destruct He as [->| ->]; reflexivity | destruct He as [->| ->]; discriminate | exact IH].
  Qed.

  (* the common end of a phase: the acting call's host gets registry [rX], complete for the
     history up to the token traffic; quiet events follow *)
  Lemma Comp_finish (rg : list (bytes * registry)) host rX pre mid hb :
    quiet_new pre ->
    CI host rX (mid ++ hb) ->
    (forall host' r', beqb host' host = false -> reg_get host' rg = Some r' -> CI host' r' (mid ++ hb)) ->
    (forall id q, In (EStart id q) (mid ++ hb) -> reg_get (q_host q) (reg_set host rX rg) <> None) ->
    CompRH (reg_set host rX rg) (pre ++ mid ++ hb).
  Proof.
    intros [P1 P2] HX Ho Hs. split.
    - intros host0 r0 Hg. destruct (beqb host0 host) eqn:Eh.
      + apply beqb_eq in Eh. subst host0. rewrite reg_get_set_same in Hg. injection Hg as <-. now apply CI_app.
      + rewrite reg_get_set_other in Hg by exact Eh. apply CI_app; auto.
    - intros id q Hin. apply in_app_or in Hin as [Hin|Hin]; [exfalso; exact (P2 _ Hin id q eq_refl) | exact (Hs id q Hin)].
  Qed.

  Lemma phase1_Comp st id q : Inv E st -> Comp st -> th_get id (threads st) = None -> Comp (phase1 E st id q).
  Proof.
    intros Hinv [Cr Cs] Hnone. pose proof (inv_none _ _ Hinv id Hnone) as Hu.
    unfold phase1, Comp.
    set (h := history st) in *. set (h0 := EStart id q :: h). set (host := q_host q).
    fold (p1_reg E st host). set (r := p1_reg E st host).
    set (rg := reg_set host r (regs st)).
    assert (Hq0 : req_of id h0 = Some q). { cbn. now rewrite Nat.eqb_refl. }
    assert (CIr : CI host r h).
    { unfold r. destruct (reg_get host (regs st)) as [rx|] eqn:Eg.
      - rewrite (p1_reg_grow E _ _ Hinv _ Eg). now apply Cr.
      - unfold p1_reg. rewrite Eg. cbn [r_inited new_registry]. apply CI_init.
        intros id' q' Hin Hh. apply (Cs id' q' Hin). now rewrite Hh. }
    assert (CIr0 : CI host r h0) by now apply CI_start.
    assert (Hothers : forall host' r', beqb host' host = false -> reg_get host' rg = Some r' -> CI host' r' h0).
    { intros host' r' Hb Hg. unfold rg in Hg. rewrite reg_get_set_other in Hg by exact Hb. apply CI_start; auto. }
    assert (Hstarted : forall rX id' q', In (EStart id' q') h0 -> reg_get (q_host q') (reg_set host rX rg) <> None).
    { intros rX id' q' [Hin|Hin].
      - injection Hin as <- <-. fold host. rewrite reg_get_set_same. discriminate.
      - apply reg_get_set_some. unfold rg. apply reg_get_set_some. exact (Cs id' q' Hin). }
    destruct (r_initerr r) eqn:Eie.
    - unfold finish, self_close. cbn [regs history].
      assert (rg = reg_set host r rg) as ->.
      { unfold rg. clear. induction (regs st) as [|[k r'] m IH]; cbn; [now rewrite beqb_refl|].
        destruct (beqb host k) eqn:Ek; cbn; rewrite Ek; [reflexivity | now rewrite <- IH]. }
      destruct (has_body (q_body q)).
      + change (EReturn id (RetErr None) :: ESelfClose id :: h0) with ([EReturn id (RetErr None); ESelfClose id] ++ [] ++ h0).
        apply Comp_finish; auto.
        * apply quiet_new_cons; [reflexivity | discriminate|].
          apply quiet_new_cons; [reflexivity | discriminate | apply quiet_new_nil].
        * intros id' q' Hin. exact (Hstarted r id' q' Hin).
      + change (EReturn id (RetErr None) :: h0) with ([EReturn id (RetErr None)] ++ [] ++ h0).
        apply Comp_finish; auto.
        * apply quiet_new_cons; [reflexivity | discriminate | apply quiet_new_nil].
        * intros id' q' Hin. exact (Hstarted r id' q' Hin).
    - destruct (set_authorization E id r (q_auth q) (q_required q) (q_want q) h0) as [[res r1] h1] eqn:Esa.
      apply sa_shape in Esa. cbn zeta in Esa.
      set (r0 := delete_expired r (e_clock E h0 + second)) in *.
      assert (CI0 : CI host r0 h0). { apply CI_delete; [discriminate | exact CIr0]. }
      assert (Hsend : forall a toks rX,
        CI host rX (toks ++ h0) ->
        (forall host' r', beqb host' host = false -> reg_get host' rg = Some r' -> CI host' r' (toks ++ h0)) ->
        tok_sends id toks ->
        CompRH (regs (let (rsp, h2) := send E id (MReg host a) (toks ++ h0) in
                      {| regs := reg_set host rX rg;
                         threads := th_set id {| th_q := q; th_hdr := a; th_pc := PAwait1 rsp |} (threads st);
                         history := h2 |}))
               (history (let (rsp, h2) := send E id (MReg host a) (toks ++ h0) in
                      {| regs := reg_set host rX rg;
                         threads := th_set id {| th_q := q; th_hdr := a; th_pc := PAwait1 rsp |} (threads st);
                         history := h2 |}))).
      { intros a toks rX HX Ho Hts. unfold send. cbn [regs history].
        change (ESend id (MReg host a) (e_net E (toks ++ h0) (MReg host a)) :: toks ++ h0)
          with ([ESend id (MReg host a) (e_net E (toks ++ h0) (MReg host a))] ++ toks ++ h0).
        apply Comp_finish; auto.
        - apply quiet_new_cons; [reflexivity | discriminate | apply quiet_new_nil].
        - intros id' q' Hin. apply in_app_or in Hin as [Hin|Hin]; [|exact (Hstarted rX id' q' Hin)].
          exfalso. exact (tok_sends_no_starts _ _ Hts _ Hin id' q' eq_refl). }
      assert (Hfail : forall toks rX,
        CI host rX (toks ++ h0) ->
        (forall host' r', beqb host' host = false -> reg_get host' rg = Some r' -> CI host' r' (toks ++ h0)) ->
        tok_sends id toks ->
        CompRH (reg_set host rX rg) (EReturn id (RetErr None) :: self_close id q (toks ++ h0))).
      { intros toks rX HX Ho Hts. unfold self_close.
        assert (Hst' : forall id' q', In (EStart id' q') (toks ++ h0) -> reg_get (q_host q') (reg_set host rX rg) <> None).
        { intros id' q' Hin. apply in_app_or in Hin as [Hin|Hin]; [|exact (Hstarted rX id' q' Hin)].
          exfalso. exact (tok_sends_no_starts _ _ Hts _ Hin id' q' eq_refl). }
        destruct (has_body (q_body q)).
        - change (EReturn id (RetErr None) :: ESelfClose id :: toks ++ h0) with ([EReturn id (RetErr None); ESelfClose id] ++ toks ++ h0).
          apply Comp_finish; auto.
          apply quiet_new_cons; [reflexivity | discriminate|].
          apply quiet_new_cons; [reflexivity | discriminate | apply quiet_new_nil].
        - change (EReturn id (RetErr None) :: toks ++ h0) with ([EReturn id (RetErr None)] ++ toks ++ h0).
          apply Comp_finish; auto.
          apply quiet_new_cons; [reflexivity | discriminate | apply quiet_new_nil]. }
      destruct Esa as [[tok [Ha [-> [-> ->]]]]|[[Ha [-> [-> ->]]]|[[Ha [www [u [p [Hw [Hb [Hbs [-> [-> ->]]]]]]]]]|
                       [Ha [www [toks [sc2 [res2 [resa [Hw [Hb [Hrf [Hblk [-> [Hfin [Hst [Hinc [Hin [HinU ->]]]]]]]]]]]]]]]]]]].
      + apply (Hsend _ [] r0); auto. constructor.
      + apply (Hsend _ [] r0); auto. constructor.
      + apply (Hsend _ [] r0); auto. constructor.
      + assert (Hblk' : blk E id r0 www (q_required q) (q_want q) h0 toks sc2 res2 resa r1) by now split.
        pose proof (tok_block_sends E _ _ _ _ _ _ _ _ _ Hblk) as Hts.
        assert (CI1 : CI host r1 (toks ++ h0)) by (eapply blk_CI; eauto).
        assert (Ho1 : forall host' r', beqb host' host = false -> reg_get host' rg = Some r' -> CI host' r' (toks ++ h0)).
        { intros host' r' Hb' Hg. eapply blk_CI_other; eauto.
          fold host. rewrite beqb_sym. exact Hb'. }
        destruct (aat_final_res _ _ _ _ _ _ _ Hfin) as [[t [-> _]]|[e ->]]; cbn [lift_tok].
        * now apply Hsend.
        * unfold finish. cbn [regs history]. now apply Hfail.
  Qed.

  Lemma Comp_quiet rg pre h : quiet_new pre -> CompRH rg h -> CompRH rg (pre ++ h).
  Proof.
    intros [P1 P2] [Cr Cs]. split.
    - intros host r Hg. apply CI_app; auto.
    - intros id q Hin. apply in_app_or in Hin as [Hin|Hin]; [exfalso; exact (P2 _ Hin id q eq_refl) | exact (Cs id q Hin)].
  Qed.

  Lemma quiet_resume id : quiet_new [EResume id].
  Proof. apply quiet_new_cons; [reflexivity | discriminate | apply quiet_new_nil]. Qed.

  Lemma phase2_Comp st id th rsp :
    Inv E st -> Comp st -> th_get id (threads st) = Some th -> th_pc th = PAwait1 rsp -> Comp (phase2 E st id th rsp).
  Proof.
    intros Hinv HC Hth Hpc. pose proof HC as [Cr Cs].
    pose proof (inv_thr _ _ Hinv _ _ Hth) as [Hq Hok]. rewrite Hpc in Hok.
    destruct Hok as [T1 [T2 [T3 [T4 [[older T5] [r [T6 T7]]]]]]].
    unfold phase2, Comp. set (q := th_q th) in *. set (hdr := th_hdr th) in *. set (host := q_host q) in *.
    set (h := history st) in *. set (h1 := EResume id :: h).
    assert (Hq1 : req_of id h1 = Some q) by (unfold h1; now rewrite req_of_cons).
    assert (Hplain : forall hx res, CompRH (regs (finish st id q hx (regs st) res h1)) (history (finish st id q hx (regs st) res h1))).
    { intros hx res. unfold finish. cbn [regs history].
      change (EReturn id res :: h1) with ([EReturn id res; EResume id] ++ h). apply Comp_quiet; [|exact HC].
      apply quiet_new_cons; [reflexivity | discriminate | apply quiet_resume]. }
    destruct rsp as [|status www b]; [apply Hplain|].
    destruct (negb (status =? 401)%N) eqn:E401; [apply Hplain|].
    destruct (challenge_from_response www) as [ch|] eqn:Ech; [|apply Hplain].
    rewrite T6.
    destruct (set_authorization_from_challenge E id r hdr ch (q_required q) (q_want q) h1) as [[res r1] h2] eqn:Esac.
    apply sac_shape in Esac. cbn zeta in Esac. set (r0 := set_www r ch) in *.
    assert (CI0 : CI host r0 h1).
    { apply CI_set_www. apply (CI_app _ _ [EResume id]); [repeat constructor | intros e [<-|[]] i q'; discriminate | now apply Cr]. }
    assert (Ho1 : forall host' r', beqb host' host = false -> reg_get host' (regs st) = Some r' -> CI host' r' h1).
    { intros host' r' _ Hg. apply (CI_app _ _ [EResume id]); [repeat constructor | intros e [<-|[]] i q'; discriminate | now apply Cr]. }
    assert (Hend : forall pre toks rX,
      quiet_new pre -> tok_sends id toks -> CI host rX (toks ++ h1) ->
      (forall host' r', beqb host' host = false -> reg_get host' (regs st) = Some r' -> CI host' r' (toks ++ h1)) ->
      CompRH (reg_set host rX (regs st)) (pre ++ toks ++ h1)).
    { intros pre toks rX Hpre Hts HX Ho. apply Comp_finish; auto.
      intros id' q' Hin. apply reg_get_set_some. apply (Cs id' q').
      apply in_app_or in Hin as [Hin|[Hin|Hin]]; [|discriminate|exact Hin].
      exfalso. exact (tok_sends_no_starts _ _ Hts _ Hin id' q' eq_refl). }
    assert (Hretry : forall a toks rX ta,
      tok_sends id toks -> CI host rX (toks ++ h1) ->
      (forall host' r', beqb host' host = false -> reg_get host' (regs st) = Some r' -> CI host' r' (toks ++ h1)) ->
      let st' := (let h2 := ERespClose id :: toks ++ h1 in
                  match q_body q with
                  | BGetFail => finish st id q a (reg_set host rX (regs st)) (RetErr None) (EGetBody id :: h2)
                  | b0 =>
                      let h3 := match b0 with BGet => EGetBody id :: h2 | _ => h2 end in
                      let (rsp2, h4) := send E id (MReg host a) h3 in
                      {| regs := reg_set host rX (regs st);
                         threads := th_set id {| th_q := q; th_hdr := a; th_pc := PAwait2 rsp2 ta |} (threads st);
                         history := h4 |}
                  end) in
      CompRH (regs st') (history st')).
    { intros a toks rX ta Hts HX Ho. cbn zeta. unfold send, finish.
      assert (Q1 : forall e, no_issue e = true -> (forall i q', e <> EStart i q') -> quiet_new [e; ERespClose id]).
      { intros e H1 H2. apply quiet_new_cons; auto. apply quiet_new_cons; [reflexivity | discriminate | apply quiet_new_nil]. }
      destruct (q_body q); cbn [regs history].
      - apply (Hend [_; ERespClose id]); auto. apply Q1; [reflexivity | discriminate].
      - apply (Hend [_; ERespClose id]); auto. apply Q1; [reflexivity | discriminate].
      - apply (Hend [_; EGetBody id; ERespClose id]); auto.
        apply quiet_new_cons; [reflexivity | discriminate|]. apply Q1; [reflexivity | discriminate].
      - apply (Hend [_; EGetBody id; ERespClose id]); auto.
        apply quiet_new_cons; [reflexivity | discriminate|]. apply Q1; [reflexivity | discriminate]. }
    destruct Esac as [[Hb [toks [sc2 [res2 [resa [Hblk [-> [Hfin [Hst [Hinc [Hin [HinU ->]]]]]]]]]]]]|
                      [[Hb [u [p [Hbs [-> [-> ->]]]]]]|[Hb [Hbs [-> [-> ->]]]]]].
    - assert (Hblk' : blk E id r0 ch (ParseScope (pget k_scope (ah_params ch))) (Union (q_want q) (q_required q))
                          h1 toks sc2 res2 resa r1) by now split.
      pose proof (tok_block_sends E _ _ _ _ _ _ _ _ _ Hblk) as Hts.
      assert (CI1 : CI host r1 (toks ++ h1)) by (eapply blk_CI; eauto).
      assert (Ho2 : forall host' r', beqb host' host = false -> reg_get host' (regs st) = Some r' -> CI host' r' (toks ++ h1)).
      { intros host' r' Hb' Hg. eapply blk_CI_other; eauto. fold host. rewrite beqb_sym. exact Hb'. }
      destruct (aat_final_res _ _ _ _ _ _ _ Hfin) as [[t [-> _]]|[e ->]].
      + cbn [negb]. now apply Hretry.
      + unfold finish. cbn [regs history]. apply (Hend [_; ERespClose id]); auto.
        apply quiet_new_cons; [reflexivity | discriminate|].
        apply quiet_new_cons; [reflexivity | discriminate | apply quiet_new_nil].
    - cbn [negb]. apply (Hretry _ [] r0 false); auto. constructor.
    - cbn [negb]. unfold finish. cbn [regs history]. apply (Hend [_] [] r0); auto; [|constructor].
      apply quiet_new_cons; [reflexivity | discriminate | apply quiet_new_nil].
  Qed.

  Lemma phase3_Comp st id th rsp ta : Comp st -> Comp (phase3 st id th rsp ta).
  Proof.
    intros HC. unfold phase3, Comp.
    assert (forall pre res, quiet_new pre ->
              CompRH (regs (finish st id (th_q th) (th_hdr th) (regs st) res (pre ++ history st)))
                     (history (finish st id (th_q th) (th_hdr th) (regs st) res (pre ++ history st)))) as Hend.
    { intros pre res Hpre. unfold finish. cbn [regs history].
      change (EReturn id res :: pre ++ history st) with ((EReturn id res :: pre) ++ history st).
      apply Comp_quiet; [|exact HC]. apply quiet_new_cons; [reflexivity | discriminate | exact Hpre]. }
    destruct rsp as [|status www b]; [apply (Hend [EResume id]), quiet_resume|].
    destruct (negb (status =? 401)%N || negb ta).
    - apply (Hend [EResume id]), quiet_resume.
    - apply (Hend [ERespClose id; EResume id]). apply quiet_new_cons; [reflexivity | discriminate | apply quiet_resume].
  Qed.

  Lemma step_Comp st x : Inv E st -> Comp st -> Comp (step E st x).
  Proof.
    intros Hinv HC. destruct x as [id q|id]; cbn [step].
    - destruct (th_get id (threads st)) eqn:Et; [exact HC | now apply phase1_Comp].
    - destruct (th_get id (threads st)) as [th|] eqn:Et; [|exact HC].
      destruct (th_pc th) eqn:Epc; [now apply phase2_Comp | now apply phase3_Comp | exact HC].
  Qed.

  Lemma run_from_Comp l : forall st, Inv E st -> Comp st -> Comp (fold_left (step E) l st).
  Proof.
    induction l as [|x l IH]; intros st Hi Hc; [exact Hc|]. cbn. apply IH; [now apply step_Inv | now apply step_Comp].
  Qed.

  Theorem run_Comp l : Comp (run E l).
  Proof. apply run_from_Comp; [apply Inv_init | apply Comp_init]. Qed.
End Comp.
