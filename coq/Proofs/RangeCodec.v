(* Proofs about Model/RangeCodec.v: the decimal codec round trip, RangeString / ParseRange
   as mutual inverses (with the one exception the text "0-0" forces), chunkRange recovering
   every range from header + Content-Length. *)
From Coq Require Import String.
From OCI Require Import Model.RangeCodec.

Local Open Scope Z_scope.

(* ------------------------------------------------------------ decimal digits *)

(* value of a digit list, least significant first *)
Fixpoint val_lsf (a : bytes) : N :=
  match a with
  | [] => 0%N
  | c :: a' => ((c - 48) + 10 * val_lsf a')%N
  end.

Lemma digits_val_app acc a c :
  digits_val acc (a ++ [c]) =
  match digits_val acc a with
  | Some v => if is_digit c then Some (10 * v + (c - 48))%N else None
  | None => None
  end.
Proof.
  revert acc; induction a as [|d a IH]; intros acc; cbn.
  - destruct (is_digit c); reflexivity.
  - destruct (is_digit d); [apply IH | reflexivity].
Qed.

Lemma digits_val_rev a :
  forallb is_digit a = true -> digits_val 0%N (rev a) = Some (val_lsf a).
Proof.
  induction a as [|c a IH]; cbn [rev forallb val_lsf]; [reflexivity|].
  intros H. apply andb_true_iff in H as [Hc Ha].
  rewrite digits_val_app, (IH Ha), Hc. f_equal. lia.
Qed.

Lemma digit_of_mod n : is_digit (48 + n mod 10)%N = true.
Proof.
  unfold is_digit. pose proof (N.mod_upper_bound n 10%N ltac:(lia)) as H.
  revert H. generalize (n mod 10)%N. intros m H.
  apply andb_true_iff; split; apply N.leb_le; lia.
Qed.

Lemma dec_rev_spec fuel n :
  (n < 2 ^ N.of_nat fuel)%N -> (0 < fuel)%nat ->
  forallb is_digit (dec_rev fuel n) = true /\ val_lsf (dec_rev fuel n) = n /\ dec_rev fuel n <> [].
Proof.
  revert n; induction fuel as [|f IH]; intros n Hn Hf; [lia|].
  pose proof (N.div_mod n 10%N ltac:(lia)) as Hdm.
  pose proof (N.mod_upper_bound n 10%N ltac:(lia)) as Hm.
  assert (Hq : (n / 10 =? 0)%N = false -> (n / 10 < 2 ^ N.of_nat f)%N /\ (0 < f)%nat).
  { intros E. apply N.eqb_neq in E. rewrite Nnat.Nat2N.inj_succ, N.pow_succ_r' in Hn.
    split.
    - apply N.div_lt_upper_bound; [lia|]. revert Hn. generalize (2 ^ N.of_nat f)%N. intros; lia.
    - destruct f; [|lia]. cbn in Hn. exfalso. apply E. apply N.div_small. lia. }
  cbn [dec_rev forallb val_lsf]. rewrite digit_of_mod.
  revert Hdm Hm Hq. generalize (n / 10)%N (n mod 10)%N. intros q m Hdm Hm Hq.
  destruct (N.eqb_spec q 0) as [E|E].
  - subst q. cbn [forallb val_lsf]. split; [reflexivity|]. split; [lia|discriminate].
  - destruct (Hq eq_refl) as [H1 H2]. destruct (IH q H1 H2) as (Ha & Hb & _).
    rewrite Ha, Hb. split; [reflexivity|]. split; [lia|discriminate].
Qed.

Lemma size_bound n : (n < 2 ^ N.of_nat (S (N.to_nat (N.size n))))%N.
Proof.
  rewrite Nnat.Nat2N.inj_succ, Nnat.N2Nat.id, N.pow_succ_r'.
  pose proof (N.size_gt n). lia.
Qed.

Lemma forallb_rev {A} (f : A -> bool) l : forallb f (rev l) = forallb f l.
Proof.
  induction l as [|a l IH]; [reflexivity|]. cbn [rev forallb].
  rewrite forallb_app, IH. cbn. rewrite andb_true_r. apply andb_comm.
Qed.

Lemma fmt_N_digits n : forallb is_digit (fmt_N n) = true.
Proof.
  unfold fmt_N. rewrite forallb_rev.
  apply (dec_rev_spec _ n (size_bound n)). lia.
Qed.

Lemma fmt_N_nonempty n : fmt_N n <> [].
Proof.
  unfold fmt_N. destruct (dec_rev_spec _ n (size_bound n) ltac:(lia)) as (_ & _ & Hne).
  intros E. apply Hne. apply (f_equal (@rev N)) in E. rewrite rev_involutive in E. exact E.
Qed.

Theorem parse_digits_fmt_N n : parse_digits (fmt_N n) = Some n.
Proof.
  unfold parse_digits. pose proof (fmt_N_nonempty n) as Hne.
  destruct (fmt_N n) as [|c r] eqn:E; [congruence|]. rewrite <- E. clear E Hne c r.
  unfold fmt_N. destruct (dec_rev_spec _ n (size_bound n) ltac:(lia)) as (Hd & Hv & _).
  rewrite digits_val_rev by exact Hd. now rewrite Hv.
Qed.

(* a digit string contains no '-' and does not start with a sign *)
Lemma digits_no_dash a : forallb is_digit a = true -> ~ In DASH a.
Proof.
  induction a as [|c a IH]; cbn; [tauto|].
  intros H. apply andb_true_iff in H as [Hc Ha]. intros [E|Hi]; [|now apply IH].
  subst c. discriminate.
Qed.

Lemma fmt_N_head n : exists c r, fmt_N n = c :: r /\ is_digit c = true.
Proof.
  pose proof (fmt_N_nonempty n) as Hne. pose proof (fmt_N_digits n) as Hd.
  destruct (fmt_N n) as [|c r]; [congruence|]. cbn in Hd. apply andb_true_iff in Hd as [Hc _].
  eauto.
Qed.

(* ------------------------------------------------------------ strconv / %d *)

Lemma fmt_int_nonneg z : 0 <= z -> fmt_int z = fmt_N (Z.to_N z).
Proof. destruct z; cbn [fmt_int Z.to_N]; try reflexivity. lia. Qed.

Theorem parse_int_fmt_int z : in_int64 z = true -> parse_int (fmt_int z) = Some z.
Proof.
  intros Hr. destruct z as [|q|q]; cbn [fmt_int].
  - reflexivity.
  - destruct (fmt_N_head (N.pos q)) as (c & r & E & Hc). unfold parse_int. rewrite E.
    assert (c =? 43 = false /\ c =? 45 = false)%N as [-> ->].
    { unfold is_digit in Hc. apply andb_true_iff in Hc as [H1 H2]. apply N.leb_le in H1.
      split; apply N.eqb_neq; lia. }
    rewrite <- E, parse_digits_fmt_N. cbn [Z.of_N]. now rewrite Hr.
  - unfold parse_int. cbn [N.eqb Pos.eqb]. rewrite parse_digits_fmt_N. cbn [Z.of_N Z.opp].
    now rewrite Hr.
Qed.

Lemma fmt_int_no_dash z : 0 <= z -> ~ In DASH (fmt_int z).
Proof. intros H. rewrite (fmt_int_nonneg z H). apply digits_no_dash, fmt_N_digits. Qed.

Lemma fmt_int_nonempty z : fmt_int z <> [].
Proof. destruct z; cbn [fmt_int]; try apply fmt_N_nonempty. discriminate. Qed.

Lemma cut_byte_app c l r : ~ In c l -> cut_byte c (l ++ c :: r) = Some (l, r).
Proof.
  induction l as [|d l IH]; cbn; intros H.
  - now rewrite N.eqb_refl.
  - destruct (N.eqb_spec d c) as [E|E]; [exfalso; auto|]. rewrite IH; auto.
Qed.

(* ------------------------------------------------------------ RangeString / ParseRange *)

Lemma wrap64_id z : MIN64 <= z <= MAX64 -> wrap64 z = z.
Proof.
  unfold wrap64, MIN64, MAX64. intros H. rewrite Z.mod_small; lia.
Qed.

Lemma in_int64_iff z : in_int64 z = true <-> MIN64 <= z <= MAX64.
Proof. unfold in_int64. rewrite andb_true_iff, !Z.leb_le. tauto. Qed.

(* what RangeString writes for a range with 0 <= start, 0 <= end *)
Lemma range_string_spec a b :
  0 <= b <= MAX64 ->
  range_string a b = fmt_int a ++ DASH :: fmt_int (if b =? 0 then 0 else b - 1).
Proof.
  intros Hb. unfold range_string.
  destruct (Z.eqb_spec b 0) as [->|Hn].
  - reflexivity.
  - rewrite wrap64_id by (unfold MIN64, MAX64 in *; lia).
    destruct (Z.ltb_spec (b - 1) 0); [lia|reflexivity].
Qed.

(* "0-0" is written for the empty range at zero and for the first byte alike *)
Theorem range_string_ambiguous : range_string 0 0 = range_string 0 1.
Proof. reflexivity. Qed.

(* ParseRange inverts RangeString on every range 0 <= start <= end except (0, 1) *)
Theorem parse_range_range_string a b :
  0 <= a <= b -> b <= MAX64 -> (a, b) <> (0, 1) ->
  parse_range (range_string a b) = Some (a, b).
Proof.
  intros Hab Hb Hne. rewrite range_string_spec by lia. unfold parse_range.
  rewrite cut_byte_app by (apply fmt_int_no_dash; lia).
  rewrite parse_int_fmt_int by (apply in_int64_iff; unfold MIN64, MAX64 in *; lia).
  rewrite parse_int_fmt_int
    by (apply in_int64_iff; unfold MIN64, MAX64 in *; destruct (b =? 0); lia).
  destruct (Z.eqb_spec b 0) as [->|Hn].
  - assert (a = 0) by lia. subst a. reflexivity.
  - destruct (Z.gtb_spec (b - 1) 0) as [H1|H1]; cbn [orb].
    + rewrite wrap64_id by (unfold MIN64, MAX64 in *; lia). do 2 f_equal. lia.
    + assert (b = 1) by lia. subst b.
      destruct (Z.gtb_spec a 0) as [H2|H2].
      * reflexivity.
      * exfalso. apply Hne. f_equal. lia.
Qed.

(* the excluded pair really is lost: the text "0-0" reads as the empty range *)
Theorem parse_range_first_byte : parse_range (range_string 0 1) = Some (0, 0).
Proof. reflexivity. Qed.

Lemma range_string_nonempty a b : range_string a b <> [].
Proof.
  unfold range_string. intros E. apply app_eq_nil in E as [_ E]. discriminate.
Qed.

(* chunkRange once the header has parsed and the length is known *)
Lemma chunk_range_parsed cr cl st en :
  cr <> [] -> parse_range cr = Some (st, en) -> 0 <= cl ->
  chunk_range cr cl =
    let en1 := if (st =? 0) && (en =? 0) && (cl =? 1) then 1 else en in
    if wrap64 (en1 - st) =? cl then CROk st en1 else CRBadLength (wrap64 (en1 - st)).
Proof.
  intros Hne Hp Hcl. unfold chunk_range. destruct cr as [|c r]; [congruence|].
  rewrite Hp. destruct (Z.geb_spec cl 0); [|lia]. cbn [andb negb].
  destruct ((st =? 0) && (en =? 0) && (cl =? 1)); cbn zeta;
    match goal with |- context [?x =? cl] => destruct (x =? cl) end; reflexivity.
Qed.

(* chunkRange recovers every range from the header and the Content-Length *)
Theorem chunk_range_range_string a b :
  0 <= a <= b -> b <= MAX64 ->
  chunk_range (range_string a b) (b - a) = CROk a b.
Proof.
  intros Hab Hb.
  destruct (Z.eq_dec a 0) as [Ha|Ha]; [destruct (Z.eq_dec b 1) as [Hb1|Hb1]|].
  - subst a b. reflexivity.
  - rewrite (chunk_range_parsed _ _ a b (range_string_nonempty a b)); [|apply parse_range_range_string; [lia|lia|congruence]|lia].
    cbn zeta. subst a.
    destruct (Z.eqb_spec b 0) as [->|Hb0]; [reflexivity|].
    rewrite andb_false_r. cbn [andb]. rewrite wrap64_id by (unfold MIN64, MAX64 in *; lia).
    rewrite Z.eqb_refl. reflexivity.
  - rewrite (chunk_range_parsed _ _ a b (range_string_nonempty a b)); [|apply parse_range_range_string; [lia|lia|congruence]|lia].
    cbn zeta. destruct (Z.eqb_spec a 0); [lia|]. cbn [andb].
    rewrite wrap64_id by (unfold MIN64, MAX64 in *; lia). rewrite Z.eqb_refl. reflexivity.
Qed.

(* a header that disagrees with the Content-Length is refused (the two excluded triples
   are the two readings of the text 0-0) *)
Theorem chunk_range_length_mismatch a b cl :
  0 <= a <= b -> b <= MAX64 -> 0 <= cl -> cl <> b - a ->
  (a, b, cl) <> (0, 0, 1) -> (a, b, cl) <> (0, 1, 0) ->
  exists n, chunk_range (range_string a b) cl = CRBadLength n.
Proof.
  intros Hab Hb Hcl Hne Hne2 Hne3.
  destruct (Z.eq_dec a 0) as [Ha|Ha]; [destruct (Z.eq_dec b 1) as [Hb1|Hb1]|].
  - subst a b. rewrite <- range_string_ambiguous.
    rewrite (chunk_range_parsed _ _ 0 0 (range_string_nonempty 0 0) eq_refl Hcl). cbn zeta.
    cbn [Z.eqb andb]. destruct (Z.eqb_spec cl 1); [lia|].
    change (wrap64 (0 - 0)) with 0.
    destruct (Z.eqb_spec 0 cl) as [E0|]; [|eauto].
    exfalso. apply Hne3. f_equal. lia.
  - rewrite (chunk_range_parsed _ _ a b (range_string_nonempty a b)); [|apply parse_range_range_string; [lia|lia|congruence]|lia].
    cbn zeta. subst a. cbn [Z.eqb andb].
    destruct (Z.eqb_spec b 0) as [->|Hb0].
    + cbn [andb]. destruct (Z.eqb_spec cl 1) as [->|]; [exfalso; now apply Hne2|].
      change (wrap64 (0 - 0)) with 0. destruct (Z.eqb_spec 0 cl); [lia|]. eauto.
    + cbn [andb]. rewrite wrap64_id by (unfold MIN64, MAX64 in *; lia).
      destruct (Z.eqb_spec (b - 0) cl); [lia|]. eauto.
  - rewrite (chunk_range_parsed _ _ a b (range_string_nonempty a b)); [|apply parse_range_range_string; [lia|lia|congruence]|lia].
    cbn zeta. destruct (Z.eqb_spec a 0); [lia|]. cbn [andb].
    rewrite wrap64_id by (unfold MIN64, MAX64 in *; lia).
    destruct (Z.eqb_spec (b - a) cl); [lia|]. eauto.
Qed.

(* what the client learns from the upload-status Range header: the size, unless it is 1 *)
Theorem status_range_roundtrip n :
  0 <= n <= MAX64 -> n <> 1 -> parse_range (range_string 0 n) = Some (0, n).
Proof. intros H Hn. apply parse_range_range_string; [lia|lia|congruence]. Qed.

Theorem status_range_one : parse_range (range_string 0 1) = Some (0, 0).
Proof. reflexivity. Qed.
