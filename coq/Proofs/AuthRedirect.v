(* Proofs about Model/AuthRedirect.v: what http.Client sends when a token server redirects, for
   every network behaviour - where the Authorization header of the token request can go, where
   its form body can go, how many requests are made, and what Do returns. *)
From Coq Require Import String ZArith Lia Bool.
From OCI Require Import Base.Outcome Model.Auth Model.AuthSpec Model.AuthRedirect.

(* ---------- host names ---------- *)

Lemma has_suffix_spec q a : has_suffix q a = true <-> exists p, a = p ++ q.
Proof.
  unfold has_suffix. rewrite has_prefix_spec. split.
  - intros [r Hr]. exists (rev r). apply (f_equal (@rev N)) in Hr. rewrite rev_involutive, rev_app_distr, rev_involutive in Hr. exact Hr.
  - intros [p ->]. exists (rev p). now rewrite rev_app_distr.
Qed.

Lemma nth_last_app (p : bytes) (c : N) (q : bytes) : nth (List.length (p ++ [c]) - 1) ((p ++ [c]) ++ q) 0%N = c.
Proof.
  rewrite app_length. cbn [List.length]. replace (List.length p + 1 - 1)%nat with (List.length p) by lia.
  rewrite <- app_assoc. rewrite app_nth2 by lia. now rewrite Nat.sub_diag.
Qed.

(* what the client takes for "the same site" is the same host name or a name that ends in a dot
   and the site's name: the reading of "a sub-domain" the specification uses ([in_site]) *)
Lemma dom_or_sub_in_site sub parent : dom_or_sub sub parent = true -> in_site sub parent = true.
Proof.
  unfold dom_or_sub, in_site. destruct (beqb sub parent) eqn:Eq; [reflexivity|]. cbn [orb].
  destruct (existsb _ sub); [discriminate|].
  destruct (has_suffix parent sub) eqn:Es; cbn [negb]; [|discriminate].
  apply has_suffix_spec in Es as [p ->]. intros Hn. apply N.eqb_eq in Hn.
  destruct (exists_last (l := p)) as [p' [c ->]].
  { intros ->. cbn in Eq. now rewrite beqb_refl in Eq. }
  rewrite app_length in Hn.
  replace (List.length (p' ++ [c]) + List.length parent - List.length parent - 1)%nat
    with (List.length (p' ++ [c]) - 1)%nat in Hn by lia.
  rewrite nth_last_app in Hn. subst c.
  apply has_suffix_spec. exists p'. now rewrite <- app_assoc.
Qed.

Lemma dom_or_sub_refl h : dom_or_sub h h = true.
Proof. unfold dom_or_sub. now rewrite beqb_refl. Qed.

(* ---------- the chain ---------- *)

Section Client.
  Variable net : cnet.
  Variables (first : msg) (ihost ihp : bytes).

  (* where the Authorization header may be: nowhere, or - unchanged - on a request to the first
     request's host name or a sub-domain of it *)
  Definition conf (w : wire) : Prop :=
    auth_of (w_msg w) = ANone \/ (auth_of (w_msg w) = auth_of first /\ dom_or_sub (w_host w) ihost = true).

  (* a form body on the wire is the first request's own, which then is a POST as well, and it
     goes to the very host (URL.Host) the first request went to *)
  Definition form_ok (w : wire) : Prop :=
    match w_msg w with
    | MPost _ f _ => (exists u0 a0, first = MPost u0 f a0) /\ w_hostport w = ihp
    | MGet _ _ _ => True
    | MReg _ _ => False
    end.

  Lemma next_msg_auth mt ib t strip : auth_of (next_msg first mt ib t strip) = if strip then ANone else auth_of first.
  Proof. unfold next_msg. destruct mt, first; reflexivity. Qed.

  Lemma do_loop_facts fuel : forall cur chost chp strip sent r out,
    do_loop net fuel first ihost ihp cur chost chp strip sent = (r, out) ->
    (strip = true -> auth_of cur = ANone) ->
    conf (cur, chost, chp) -> form_ok (cur, chost, chp) ->
    exists new, out = new ++ sent /\ (1 <= List.length new <= S fuel)%nat
                /\ Forall conf new /\ Forall form_ok new
                /\ (r = RFail \/ exists w rest l, new = w :: rest /\ net (rest ++ sent) (w_msg w) (w_host w) = (r, l)).
  Proof.
    induction fuel as [|fuel IH]; intros cur chost chp strip sent r out Hd Hs Hc Hf; cbn [do_loop] in Hd;
      destruct (net sent cur chost) as [rsp l] eqn:En.
    - assert (Hone : forall r0, (r0 = RFail \/ r0 = rsp) -> (r0, (cur, chost, chp) :: sent) = (r, out) ->
        exists new, out = new ++ sent /\ (1 <= List.length new <= 1)%nat /\ Forall conf new /\ Forall form_ok new
                    /\ (r = RFail \/ exists w rest l, new = w :: rest /\ net (rest ++ sent) (w_msg w) (w_host w) = (r, l))).
      { intros r0 Hr0 [= <- <-]. exists [(cur, chost, chp)]. split; [reflexivity|]. split; [cbn; lia|].
        split; [now constructor|]. split; [now constructor|].
        destruct Hr0 as [->| ->]; [now left|]. right. exists (cur, chost, chp), [], l. split; [reflexivity|]. exact En. }
      destruct rsp as [|st www b]; [apply Hone in Hd; auto|].
      destruct (redirect_behavior (meth_of cur) st) as [[mt ib]|]; [|apply Hone in Hd; auto].
      destruct l as [| |t]; apply Hone in Hd; auto.
    - assert (Hone : forall r0, (r0 = RFail \/ r0 = rsp) -> (r0, (cur, chost, chp) :: sent) = (r, out) ->
        exists new, out = new ++ sent /\ (1 <= List.length new <= S (S fuel))%nat /\ Forall conf new /\ Forall form_ok new
                    /\ (r = RFail \/ exists w rest l, new = w :: rest /\ net (rest ++ sent) (w_msg w) (w_host w) = (r, l))).
      { intros r0 Hr0 [= <- <-]. exists [(cur, chost, chp)]. split; [reflexivity|]. split; [cbn; lia|].
        split; [now constructor|]. split; [now constructor|].
        destruct Hr0 as [->| ->]; [now left|]. right. exists (cur, chost, chp), [], l. split; [reflexivity|]. exact En. }
      destruct rsp as [|st www b]; [apply Hone in Hd; auto|].
      destruct (redirect_behavior (meth_of cur) st) as [[mt ib]|] eqn:Erb; [|apply Hone in Hd; auto].
      destruct l as [| |t]; [apply Hone in Hd; auto | apply Hone in Hd; auto |].
      destruct ((match mt with MethPost => true | MethGet => false end) && negb (beqb (t_hostport t) ihp)) eqn:Eref;
        [apply Hone in Hd; auto|].
      apply IH in Hd.
      + destruct Hd as [new [-> [Hlen [Hcf [Hff Hres]]]]].
        exists (new ++ [(cur, chost, chp)]). split; [now rewrite <- app_assoc|].
        split; [rewrite app_length; cbn; lia|].
        split; [apply Forall_app; split; [exact Hcf | now constructor]|].
        split; [apply Forall_app; split; [exact Hff | now constructor]|].
        destruct Hres as [->|[w [rest [l' [-> Hn]]]]]; [now left|].
        right. exists w, (rest ++ [(cur, chost, chp)]), l'. split; [reflexivity|].
        rewrite <- app_assoc. exact Hn.
      + intros E1. rewrite next_msg_auth. now rewrite E1.
      + unfold conf, w_msg, w_host. cbn [fst snd]. rewrite next_msg_auth.
        destruct strip; cbn [orb]; [now left|].
        destruct (dom_or_sub (t_host t) ihost) eqn:Ed; cbn [negb]; [right; now split | now left].
      + unfold form_ok, w_msg, w_hostport. cbn [fst snd]. unfold next_msg. destruct mt; [exact I|].
        destruct first as [h a|u f a|u q a] eqn:Ef; try exact I.
        (* a POST hop: only after 307 / 308, which keep the body, and only to the first request's host *)
        cbn [andb] in Eref. apply negb_false_iff, beqb_eq in Eref.
        unfold redirect_behavior in Erb.
        destruct ((st =? 301)%N || (st =? 302)%N || (st =? 303)%N); [discriminate|].
        destruct ((st =? 307)%N || (st =? 308)%N); [|discriminate].
        injection Erb as _ <-. split; [eauto | exact Eref].
  Qed.

  Lemma do_loop_oldest fuel : forall cur chost chp strip sent r out,
    do_loop net fuel first ihost ihp cur chost chp strip sent = (r, out) -> exists pre, out = pre ++ (cur, chost, chp) :: sent.
  Proof.
    induction fuel as [|fuel IH]; intros cur chost chp strip sent r0 out0 H; cbn [do_loop] in H;
      destruct (net sent cur chost) as [rsp l];
      (destruct rsp as [|st www b]; [injection H as _ <-; now exists []|]);
      (destruct (redirect_behavior (meth_of cur) st) as [[mt ib]|]; [|injection H as _ <-; now exists []]);
      (destruct l as [| |t]; [injection H as _ <-; now exists [] | injection H as _ <-; now exists [] |]).
    - injection H as _ <-. now exists [].
    - destruct (_ && _); [injection H as _ <-; now exists []|].
      apply IH in H as [pre ->]. eexists (pre ++ [_]). now rewrite <- app_assoc.
  Qed.
End Client.

Section Theorems.
  Variable net : cnet.
  Variables (m : msg) (host hostport : bytes).

  Lemma client_do_facts r out :
    is_tok_msg m = true -> client_do net m host hostport = (r, out) ->
    (1 <= List.length out <= 10)%nat
    /\ Forall (conf m host) out /\ Forall (form_ok m hostport) out
    /\ (r = RFail \/ exists w rest l, out = w :: rest /\ net rest (w_msg w) (w_host w) = (r, l))
    /\ exists rest, out = rest ++ [(m, host, hostport)].
  Proof.
    intros Hm Hd. unfold client_do in Hd.
    assert (Hd' := Hd).
    apply do_loop_facts in Hd.
    - destruct Hd as [new [-> [Hlen [Hc [Hf Hr]]]]]. rewrite app_nil_r in *.
      split; [lia|]. split; [exact Hc|]. split; [exact Hf|]. split.
      + destruct Hr as [->|[w [rest [l [-> Hn]]]]]; [now left|]. right. exists w, rest, l. now rewrite app_nil_r in Hn.
      + (* the first request is the oldest entry *)
        apply do_loop_oldest in Hd' as [pre ->]. now exists pre.
    - discriminate.
    - right. split; [reflexivity | apply dom_or_sub_refl].
    - unfold form_ok, w_msg, w_hostport. cbn [fst snd]. destruct m; [discriminate | split; eauto | exact I].
  Qed.
End Theorems.
