(* Proofs about whole stacks of registries (Model/Listing.v [stack], [interp]) for property
   C05: every listing through every stack is a represented iterator (hence obeys the
   iterator protocol against every consumer), and for the well-formed stacks it lists exactly
   what the naive reading of the stack (Model/ListingSpec.v [names], [fails]) says. *)
From Coq Require Import String Sorted Permutation.
From OCI Require Import Model.Listing Model.ListingSpec Proofs.Seq Proofs.Listing.

(* ================================================================= the pager, any server *)

(* Whatever the server answers (any function from requests to responses: wrong pages,
   missing or bogus links, errors, panics) and however much fuel there is, the pager is a
   represented iterator: its calls against any consumer are a prefix of one fixed sequence
   "items, then maybe an error", cut where the consumer declines. *)
Lemma pager_loop_represented wire (srv : wquery -> lresp) n fuel : forall req,
  exists xs oe, forall S (y : consumer err bytes S) s,
    fst (pager_loop wire fuel srv n req S y s) = seq_of xs oe S y s.
Proof.
  induction fuel as [|fuel IH]; intros req.
  - exists [], None. reflexivity.
  - cbn [pager_loop]. destruct (srv req) as [items link|e|].
    + destruct (Z.ltb_spec (Z.of_nat (length items)) n) as [Hlt|Hge].
      * exists items, None. intros S y s. unfold seq_of.
        destruct (slice_loop items y s) as [s1 ok]. destruct ok; reflexivity.
      * destruct (last_opt items) as [l|] eqn:El.
        -- destruct (IH (nextLink link n l)) as (xs & oe & H).
           exists (items ++ xs), oe. intros S y s. rewrite seq_of_app.
           destruct (slice_loop items y s) as [s1 ok]. destruct ok; cbn [negb fst]; [apply H | reflexivity].
        -- exists items, None. intros S y s. unfold seq_of.
           destruct (slice_loop items y s) as [s1 ok]. destruct ok; reflexivity.
    + exists [], (Some (wire e)). reflexivity.
    + exists [], (Some transport_error). reflexivity.
Qed.

Theorem pager_represented wire srv fuel n start :
  exists xs oe, represents (pager wire fuel srv n start) xs oe.
Proof.
  destruct (pager_loop_represented wire srv n fuel (listParams n start)) as (xs & oe & H).
  exists xs, oe. intros S y s. unfold pager, pager_run. apply H.
Qed.

Lemma client_Referrers_represented wire resp : exists xs oe, represents (client_Referrers wire resp) xs oe.
Proof.
  destruct resp as [items link|e|]; cbn.
  - exists items, None. apply represents_SliceSeq.
  - exists [], (Some (wire e)). apply represents_ErrorSeq.
  - exists [], (Some transport_error). apply represents_ErrorSeq.
Qed.

(* ================================================================= every stack is represented *)

Definition represented (q : Seq err bytes) : Prop := exists xs oe, represents q xs oe.

Lemma represented_ErrorSeq e : represented (ErrorSeq e).
Proof. exists [], (Some e). apply represents_ErrorSeq. Qed.

Lemma represented_SliceSeq xs : represented (SliceSeq xs).
Proof. exists xs, None. apply represents_SliceSeq. Qed.

Lemma represented_seq_of xs oe : represented (seq_of xs oe).
Proof. exists xs, oe. apply represents_seq_of. Qed.

Lemma ac_Repositories_represented check listAll backend start :
  represented (backend start) -> represented (ac_Repositories check listAll backend start).
Proof.
  intros (xs & oe & H).
  destruct (if listAll then @None err else check star AccessList) as [e|] eqn:E.
  - unfold ac_Repositories. rewrite E. apply represented_ErrorSeq.
  - exists (filter (ac_visible check) xs), oe. now apply ac_Repositories_represents.
Qed.

Lemma ac_Tags_represented check backend repo start :
  represented (backend repo start) -> represented (ac_Tags check backend repo start).
Proof.
  intros H. unfold ac_Tags. destruct (check repo AccessList); [apply represented_ErrorSeq | exact H].
Qed.

Lemma mergeIter_represented it0 it1 : represented it0 -> represented it1 -> represented (mergeIter it0 it1).
Proof.
  intros (xs0 & oe0 & H0) (xs1 & oe1 & H1). eexists _, _. exact (mergeIter_represents _ _ _ _ _ _ H0 H1).
Qed.

(* no hypothesis on the stack (contents need not be sorted or duplicate-free) nor on the fuel *)
Theorem stack_represented k fuel : forall q start, represented (ask (interp fuel k) q start).
Proof.
  induction k as [m|xs oe| |n o i IH|al i IH|p i IH|a IHa b IHb|i IH]; intros q start.
  - destruct q as [|r|r d]; cbn [ask interp mem_lister script_lister funcs_lister hop_lister ac_lister sub_lister unify_lister debug_lister l_repos l_tags l_refs].
    + apply represented_SliceSeq.
    + unfold mem_Tags. destruct (mem_repo m r); [apply represented_SliceSeq | apply represented_ErrorSeq].
    + unfold mem_Referrers. destruct (mem_repo m r); [apply represented_SliceSeq | apply represented_ErrorSeq].
  - destruct q; cbn; apply represented_seq_of.
  - destruct q; cbn; apply represented_ErrorSeq.
  - destruct q as [|r|r d]; cbn [ask interp mem_lister script_lister funcs_lister hop_lister ac_lister sub_lister unify_lister debug_lister l_repos l_tags l_refs].
    + apply pager_represented.
    + apply pager_represented.
    + apply client_Referrers_represented.
  - destruct q as [|r|r d]; cbn [ask interp mem_lister script_lister funcs_lister hop_lister ac_lister sub_lister unify_lister debug_lister l_repos l_tags l_refs].
    + apply ac_Repositories_represented. apply (IH QRepos).
    + apply ac_Tags_represented. apply (IH (QTags r)).
    + apply (ac_Tags_represented _ (l_refs (interp fuel i)) r d). apply (IH (QRefs r d) start).
  - destruct q as [|r|r d]; cbn [ask interp mem_lister script_lister funcs_lister hop_lister ac_lister sub_lister unify_lister debug_lister l_repos l_tags l_refs].
    + destruct (IH QRepos (sub_start p start)) as (xs & oe & H).
      eexists _, _. apply sub_Repositories_represents. exact H.
    + apply (IH (QTags (sub_repo p r))).
    + apply (IH (QRefs (sub_repo p r) d) start).
  - destruct q as [|r|r d]; cbn [ask interp mem_lister script_lister funcs_lister hop_lister ac_lister sub_lister unify_lister debug_lister l_repos l_tags l_refs]; apply mergeIter_represented;
      first [apply (IHa QRepos) | apply (IHb QRepos) | apply (IHa (QTags r)) | apply (IHb (QTags r))
            | apply (IHa (QRefs r d) start) | apply (IHb (QRefs r d) start)].
  - destruct q as [|r|r d]; cbn [ask interp mem_lister script_lister funcs_lister hop_lister ac_lister sub_lister unify_lister debug_lister l_repos l_tags l_refs].
    + destruct (IH QRepos start) as (xs & oe & H). eexists _, _. apply logIterReturn_represents. exact H.
    + destruct (IH (QTags r) start) as (xs & oe & H). eexists _, _. apply logIterReturn_represents. exact H.
    + destruct (IH (QRefs r d) start) as (xs & oe & H). eexists _, _. apply logIterReturn_represents. exact H.
Qed.

(* the iterator protocol, for every stack, query, start point and consumer *)
Theorem stack_protocol k q start S (y : consumer err bytes S) s :
  protocol_ok (calls (listing k q start) y s).
Proof.
  destruct (stack_represented k (stack_fuel k) q start) as (xs & oe & H).
  exact (protocol_represents _ _ _ y s H).
Qed.

(* ================================================================= sizes *)

Lemma strip_all_length p l : (length (strip_all p l) <= length l)%nat.
Proof.
  unfold strip_all. induction l as [|a l IH]; cbn; [lia|].
  destruct (cut_prefix p a); cbn; lia.
Qed.

Lemma mem_size_cons k v m :
  mem_size ((k, v) :: m) = (1 + length (mr_tags v) + length (mr_manifests v) + mem_size m)%nat.
Proof. reflexivity. Qed.

Lemma mem_size_repo m r repo : mem_repo m r = Some repo ->
  (length (mr_tags repo) + length (mr_manifests repo) < mem_size m)%nat.
Proof.
  induction m as [|[k v] m IH]; [discriminate|]. rewrite mem_size_cons. cbn [mem_repo].
  destruct (beqb k r).
  - intros H. injection H as ->. lia.
  - intros H. specialize (IH H). lia.
Qed.

Lemma mem_size_length m : (length m <= mem_size m)%nat.
Proof. induction m as [|[k v] m IH]; [cbn; lia|]. rewrite mem_size_cons. cbn [length]. lia. Qed.

Lemma names_length k : forall q, (length (names k q) <= stack_size k)%nat.
Proof.
  induction k as [m|xs oe| |n o i IH|al i IH|p i IH|a IHa b IHb|i IH]; intros q; cbn [names stack_size].
  - destruct q as [|r|r d].
    + rewrite map_length. apply mem_size_length.
    + destruct (mem_repo m r) as [repo|] eqn:E; [|cbn; lia].
      pose proof (mem_size_repo _ _ _ E). lia.
    + destruct (mem_repo m r) as [repo|] eqn:E; [|cbn; lia].
      pose proof (mem_size_repo _ _ _ E). rewrite map_length.
      pose proof (filter_length_le (fun b => beqb (snd b) d) (mr_manifests repo)). lia.
  - lia.
  - cbn. lia.
  - apply IH.
  - destruct q as [|r|r d].
    + pose proof (filter_length_le (fun r => mem_bytes r al) (names i QRepos)). specialize (IH QRepos). lia.
    + destruct (select_passes al r); [apply IH | cbn; lia].
    + destruct (select_passes al r); [apply IH | cbn; lia].
  - destruct q as [|r|r d]; try apply IH.
    pose proof (strip_all_length (p ++ slash) (names i QRepos)). specialize (IH QRepos). lia.
  - rewrite app_length. specialize (IHa q). specialize (IHb q). lia.
  - apply IH.
Qed.

(* ================================================================= the leaves *)

Lemma forallb_In {A} (f : A -> bool) l a : forallb f l = true -> In a l -> f a = true.
Proof. intros H. rewrite forallb_forall in H. auto. Qed.

Lemma mem_lgood m q start :
  stack_wfb (KMem m) = true -> lgood (names (KMem m) q) (fails (KMem m) q) (after q start) (ask (mem_lister m) q start).
Proof.
  cbn [stack_wfb]. intros Hw. apply andb_true_iff in Hw as [Hnd Hall].
  destruct q as [|r|r d]; cbn [names fails after ask mem_lister l_repos l_tags l_refs].
  - apply lgood_keys. now apply nodupb_NoDup.
  - unfold mem_Tags. destruct (mem_repo m r) as [repo|] eqn:E.
    + apply lgood_keys. apply nodupb_NoDup.
      apply mem_repo_In in E. pose proof (forallb_In _ _ _ Hall E) as Hr. cbn in Hr.
      unfold mrepo_wfb in Hr. apply andb_true_iff in Hr as [Hr _]. now apply andb_true_iff in Hr as [Hr _].
    + apply lgood_not_found.
  - unfold mem_Referrers. destruct (mem_repo m r) as [repo|] eqn:E.
    + apply lgood_sorted_complete.
      * apply sort_bytes_ssorted. apply NoDup_map_filter. apply nodupb_NoDup.
        apply mem_repo_In in E. pose proof (forallb_In _ _ _ Hall E) as Hr. cbn in Hr.
        unfold mrepo_wfb in Hr. apply andb_true_iff in Hr as [Hr _]. now apply andb_true_iff in Hr as [_ Hr].
      * intros x. rewrite sort_bytes_In. tauto.
    + apply lgood_not_found.
Qed.

Lemma script_lgood nm aft xs oe :
  ssorted xs -> (forall x, In x xs <-> In x nm /\ aft x = true) -> err_wfb nm oe = true ->
  lgood nm (match oe with
            | None => FNo
            | Some e => if ecode_eqb (e_code e) NAME_UNKNOWN then FNotFound else FErr
            end) aft (seq_of xs oe).
Proof.
  intros Hs Hm He. exists xs, oe. split; [apply represents_seq_of|]. split; auto.
  split; [intros x Hx; now apply Hm|].
  destruct oe as [e|].
  - destruct (ecode_eqb (e_code e) NAME_UNKNOWN) eqn:Ec.
    + split; [|exists e; auto]. unfold err_wfb in He. rewrite Ec in He. cbn in He. destruct nm; [reflexivity|discriminate].
    + exists e. auto.
  - split; auto. intros x H1 H2. apply Hm. auto.
Qed.

Lemma script_wf_lgood xs oe q start :
  stack_wfb (KScript xs oe) = true ->
  lgood (names (KScript xs oe) q) (fails (KScript xs oe) q) (after q start) (ask (script_lister xs oe) q start).
Proof.
  cbn [stack_wfb]. intros Hw. apply andb_true_iff in Hw as [Hw _]. apply andb_true_iff in Hw as [Ha He].
  apply ascending_spec in Ha.
  destruct q as [|r|r d]; cbn [names fails after ask script_lister funcs_lister l_repos l_tags l_refs];
    unfold funcs_Repositories, funcs_Tags, funcs_Referrers; cbn [script_funcs f_Repositories f_Tags f_Referrers].
  - apply script_lgood; auto; [now apply ssorted_filter | intros x; apply filter_In].
  - apply script_lgood; auto; [now apply ssorted_filter | intros x; apply filter_In].
  - apply script_lgood; auto. intros x. tauto.
Qed.

Lemma funcs_unset_lgood q start aft :
  lgood [] FErr aft (ask (funcs_lister funcs_unset) q start).
Proof.
  exists [], (Some ErrUnsupported). split.
  - destruct q; cbn; apply represents_ErrorSeq.
  - split; [apply ssorted_nil|]. split; [intros x []|]. exists ErrUnsupported. auto.
Qed.

(* ================================================================= every well-formed stack *)

Lemma client_page_size_pos n : (0 <= n)%Z -> (1 <= client_page_size n)%Z.
Proof. intros H. unfold client_page_size, DefaultListPageSize. destruct (Z.eqb_spec n 0); lia. Qed.

Lemma wire_id_not_found e : is_not_found (Some (wire_id e)) = is_not_found (Some e).
Proof. reflexivity. Qed.

Lemma hop_pager_lgood fuel n o nm fc (backend : bytes -> Seq err bytes) start :
  (0 <= n)%Z -> (length nm + 2 <= fuel)%nat ->
  (forall st, lgood nm fc (bltb st) (backend st)) ->
  lgood nm (if refuses n o then FErr else fc) (bltb start)
        (pager wire_id fuel (handleList o backend) (client_page_size n) start).
Proof.
  intros Hn Hf Hb. pose proof (client_page_size_pos n Hn) as Hp. unfold refuses.
  destruct ((so_max o >? 0)%Z && (client_page_size n >? so_max o)%Z) eqn:Hr.
  - apply pager_refused_lgood; auto; try lia; apply wire_id_not_found.
  - apply pager_lgood; auto; apply wire_id_not_found.
Qed.

Theorem interp_lgood k : forall fuel, stack_wfb k = true -> (stack_size k + 2 <= fuel)%nat ->
  forall q start, lgood (names k q) (fails k q) (after q start) (ask (interp fuel k) q start).
Proof.
  induction k as [m|xs oe| |n o i IH|al i IH|p i IH|a IHa b IHb|i IH]; intros fuel Hw Hf q start.
  - now apply mem_lgood.
  - now apply script_wf_lgood.
  - apply funcs_unset_lgood.
  - cbn [stack_wfb] in Hw. apply andb_true_iff in Hw as [Hn Hw]. apply Z.geb_le in Hn.
    cbn [stack_size] in Hf. specialize (IH fuel Hw Hf).
    destruct q as [|r|r d]; cbn [names fails after ask interp hop_lister l_repos l_tags l_refs].
    + apply hop_pager_lgood; auto.
      * pose proof (names_length i QRepos). lia.
      * intros st. apply (IH QRepos st).
    + apply hop_pager_lgood; auto.
      * pose proof (names_length i (QTags r)). lia.
      * intros st. apply (IH (QTags r) st).
    + apply refs_hop_lgood; [apply wire_id_not_found|]. apply (IH (QRefs r d) start).
  - cbn [stack_wfb] in Hw. cbn [stack_size] in Hf. specialize (IH fuel Hw Hf).
    destruct q as [|r|r d]; cbn [names fails after ask interp ac_lister l_repos l_tags l_refs].
    + apply (select_lgood (fun r => mem_bytes r al)). apply (IH QRepos start).
    + unfold ac_Tags, select_check, select_passes. destruct (mem_bytes r al).
      * apply (IH (QTags r) start).
      * apply lgood_not_found.
    + unfold ac_Tags, select_check, select_passes. destruct (mem_bytes r al).
      * apply (IH (QRefs r d) start).
      * apply lgood_not_found.
  - cbn [stack_wfb] in Hw. apply andb_true_iff in Hw as [Hp Hw]. cbn [stack_size] in Hf.
    specialize (IH fuel Hw Hf).
    destruct q as [|r|r d]; cbn [names fails after ask interp sub_lister l_repos l_tags l_refs].
    + apply sub_lgood.
      * intros Hi. apply mem_bytes_In in Hi. rewrite Hi in Hp. discriminate.
      * apply (IH QRepos (sub_start p start)).
    + apply (IH (QTags (sub_repo p r)) start).
    + apply (IH (QRefs (sub_repo p r) d) start).
  - cbn [stack_wfb] in Hw. apply andb_true_iff in Hw as [Hwa Hwb]. cbn [stack_size] in Hf.
    assert (Ha := IHa fuel Hwa ltac:(lia)). assert (Hb := IHb fuel Hwb ltac:(lia)).
    destruct q as [|r|r d]; cbn [names fails after ask interp unify_lister l_repos l_tags l_refs].
    + exact (merge_lgood _ _ _ _ _ _ _ (Ha QRepos start) (Hb QRepos start)).
    + exact (merge_lgood _ _ _ _ _ _ _ (Ha (QTags r) start) (Hb (QTags r) start)).
    + exact (merge_lgood _ _ _ _ _ _ _ (Ha (QRefs r d) start) (Hb (QRefs r d) start)).
  - cbn [stack_wfb] in Hw. cbn [stack_size] in Hf. specialize (IH fuel Hw Hf).
    destruct q as [|r|r d]; cbn [names fails after ask interp debug_lister l_repos l_tags l_refs];
      apply debug_lgood; [apply (IH QRepos start) | apply (IH (QTags r) start) | apply (IH (QRefs r d) start)].
Qed.

(* stack_listing: the listing of a well-formed stack - any nesting of hops (any page sizes,
   server limits, Link on or off), Select, Sub, unify, debug over in-memory registries, scripted
   backends and unset function tables - is a strictly ascending run of the stack's names
   after the start point; it is all of them and ends cleanly when nothing in the stack
   fails, and it ends with an error when something does. *)
Theorem stack_listing k q start :
  stack_wfb k = true -> lgood (names k q) (fails k q) (after q start) (listing k q start).
Proof. intros Hw. unfold listing. apply interp_lgood; auto. Qed.

(* against a consumer that never declines: everything, then the error if the stack fails *)
Corollary stack_listing_always k q start :
  stack_wfb k = true ->
  exists xs oe,
    map fst (calls (listing k q start) always tt) = map inl xs ++ match oe with Some e => [inr e] | None => [] end
    /\ ssorted xs
    /\ (forall x, In x xs -> In x (names k q) /\ after q start x = true)
    /\ match fails k q with
       | FNo => oe = None /\ (forall x, In x (names k q) -> after q start x = true -> In x xs)
       | FNotFound => xs = [] /\ exists e, oe = Some e /\ is_not_found (Some e) = true
       | FErr => exists e, oe = Some e /\ is_not_found (Some e) = false
       end.
Proof.
  intros Hw. destruct (stack_listing k q start Hw) as (xs & oe & Hrep & Hs & Hin & Hfc).
  exists xs, oe. split; [|split; [|split]]; auto.
  - rewrite (calls_represents _ _ _ always tt Hrep), trace_of_always, map_app, map_map. cbn [fst].
    destruct oe; reflexivity.
  - destruct (fails k q); auto. destruct Hfc as (Hnm & H). split; auto.
    destruct xs as [|x xs]; auto. destruct (Hin x (or_introl eq_refl)) as [Hx _]. rewrite Hnm in Hx. destruct Hx.
Qed.
