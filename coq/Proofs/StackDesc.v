(* C03 (b): descriptors survive the wire.  For each of the four handlers that describe content
   (handleBlobHead, handleManifestHead, handleManifestGet, handleBlobGet): the headers the handler
   emits for a backend descriptor [d] (valid digest, size a non-negative int64), taken through the
   response adapter [of_server_resp] and the client's descriptorFromResponse, give back digest,
   size and - for manifests - media type; for every option set, including the OmitDigest path. *)
From Coq Require Import String.
From OCI Require Import Model.Stack Proofs.Request Proofs.StackBase.
From OCI Require Proofs.Server.

Local Open Scope Z_scope.

(* ---------------------------------------------------------------- digests *)

Lemma vdigest_cut linked d : vdigest linked d = true ->
  exists a e, cut_byte 58%N d = Some (a, e) /\ Ref.available linked a = true /\ a <> [].
Proof.
  unfold vdigest, is_valid_digest, digest_validate. change b_colon with 58%N.
  destruct (cut_byte 58%N d) as [[a e]|]; [|discriminate]. intros H. exists a, e. split; [reflexivity|].
  destruct a as [|a0 a]; [cbn in H; discriminate|]. cbn [nonempty negb orb] in H.
  destruct (nonempty e); cbn [negb orb] in H; [|discriminate].
  destruct (Ref.available linked (a0 :: a)); [split; [reflexivity | discriminate]|].
  cbn [negb] in H. destruct (matches digestRegexp d); discriminate.
Qed.

Lemma vdigest_nonempty linked d : vdigest linked d = true -> is_empty d = false.
Proof. intros H. destruct d; [|reflexivity]. apply vdigest_cut in H as (a & e & C & _). discriminate. Qed.

Definition int64 (z : Z) : Prop := 0 <= z <= max_int64.

Lemma declared_clen (h : Server.headers) z : int64 z -> Server.hget H_clen h = Some (dec_Z z) -> declared_length h = Some z.
Proof.
  intros [H0 H1] Hh. unfold declared_length. rewrite Hh, parse_int_dec_Z by (unfold min_int64; lia).
  destruct (Z.leb_spec 0 z); [reflexivity | lia].
Qed.

(* ---------------------------------------------------------------- what the handlers emit *)

Definition hdrs_blob_head (d : desc) : Server.headers :=
  hset H_accept_ranges (s "bytes") (hset H_dcd (d_digest d) (hset H_clen (dec_Z (d_size d)) [])).

Definition hdrs_manifest_head (o : opts) (has_tag : bool) (d : desc) : Server.headers :=
  hset H_clen (dec_Z (d_size d)) (hset H_ctype (d_media d)
    (if negb (o_omit_digest_from_tag_get o) || has_tag then hset H_dcd (d_digest d) [] else [])).

Definition hdrs_manifest_get (o : opts) (d : desc) : Server.headers :=
  hset H_clen (dec_Z (d_size d)) (hset H_ctype (d_media d)
    (if negb (o_omit_digest_from_tag_get o) then hset H_dcd (d_digest d) [] else [])).

Definition hdrs_blob_get (dig : bytes) (d : desc) : Server.headers :=
  hset H_dcd dig (hset H_clen (dec_Z (d_size d)) (hset H_ctype (d_media d) [])).

Definition content_range (start end_ size : Z) : bytes :=
  s "bytes " ++ dec_Z start ++ 45%N :: dec_Z (end_ - 1) ++ 47%N :: dec_Z size.

Definition hdrs_blob_range (dig : bytes) (d : desc) (start end_ : Z) : Server.headers :=
  hset H_crange (content_range start end_ (d_size d))
    (hset H_dcd dig (hset H_clen (dec_Z (end_ - start)) (hset H_ctype (d_media d) []))).

Definition media_or_octet (m : bytes) : bytes := match m with [] => octet_stream | _ => m end.

Section Desc.
  Variable linked : alg -> bool.
  Variable hash : bytes -> bytes -> bytes.
  Variable media : bytes -> bytes.
  Variable dec_errors : bytes -> option (list werr).
  Variable dec_names : bool -> bytes -> option (list bytes).
  Variable dec_index : bytes -> option (list desc).

  Notation env := (stack_env linked hash media dec_errors dec_names dec_index).
  Notation dfr := (descriptor_from_response env current).

  (* a response in the client's hands *)
  Definition in_hand (idx : nat) (rq : Http.hreq) (m : meth) (resp : Server.hresp) : Http.resp :=
    {| hr_idx := idx; hr_req := rq; hr_rs := of_server_resp m resp;
       hr_rest := b_data (rs_body (of_server_resp m resp)) |}.

  Ltac open_dfr :=
    unfold descriptor_from_response, in_hand, rheader, Http.status;
    cbn [hr_rs]; rewrite ?rs_status_of_server_resp, ?rs_header_of_server_resp; cbn [p_status p_hdrs].

  Lemma clen_head resp z : int64 z -> Server.hget H_clen (p_hdrs resp) = Some (dec_Z z) ->
    rs_clen (of_server_resp MHead resp) = z.
  Proof. intros Hz Hh. unfold of_server_resp. cbn [meth_eqb]. now rewrite (declared_clen _ _ Hz Hh). Qed.

  Lemma clen_get resp z : int64 z -> no_body_status (p_status resp) = false ->
    Server.hget H_clen (p_hdrs resp) = Some (dec_Z z) ->
    rs_clen (of_server_resp MGet resp) = z.
  Proof.
    intros Hz Hn Hh. unfold of_server_resp. cbn [meth_eqb]. rewrite Hn. now rewrite (declared_clen _ _ Hz Hh).
  Qed.

  (* handleBlobHead -> ResolveBlob *)
  Theorem descriptor_roundtrip_blob_head idx rq d known :
    vdigest linked (d_digest d) = true -> int64 (d_size d) ->
    dfr (in_hand idx rq MHead (mkresp 200 (hdrs_blob_head d) [] None)) known true true
    = Ok {| d_media := octet_stream; d_digest := d_digest d; d_size := d_size d; d_artifact := [] |}.
  Proof.
    intros Hd Hz. open_dfr. unfold hdrs_blob_head. hdrs.
    rewrite (clen_head _ (d_size d) Hz) by (cbn [p_hdrs]; hdrs; reflexivity).
    cbn [is_empty]. destruct Hz as [H0 H1]. destruct (Z.ltb_spec (d_size d) 0); [lia|]. cbn [rbind].
    rewrite (vdigest_nonempty _ _ Hd). cbn [negb e_valid_digest stack_env]. rewrite Hd. cbn [rbind andb].
    rewrite (vdigest_nonempty _ _ Hd). reflexivity.
  Qed.

  Lemma is_empty_media m : (if is_empty m then octet_stream else m) = media_or_octet m.
  Proof. destruct m; reflexivity. Qed.

  (* handleManifestHead -> ResolveManifest / ResolveTag.  The digest is on the wire unless the
     server omits it, which it does only for a request by digest: then the client falls back on
     the digest it asked for. *)
  Theorem descriptor_roundtrip_manifest_head o idx rq has_tag d known :
    vdigest linked (d_digest d) = true -> int64 (d_size d) ->
    vdigest linked known = true \/ known = [] ->
    dfr (in_hand idx rq MHead (mkresp 200 (hdrs_manifest_head o has_tag d) [] None)) known true true
    = let dg := if negb (o_omit_digest_from_tag_get o) || has_tag then d_digest d else known in
      if is_empty dg then Err (Plain (s "no digest found in response"))
      else Ok {| d_media := media_or_octet (d_media d); d_digest := dg; d_size := d_size d; d_artifact := [] |}.
  Proof.
    intros Hd Hz Hk. open_dfr. unfold hdrs_manifest_head.
    rewrite (clen_head _ (d_size d) Hz) by (cbn [p_hdrs]; hdrs; reflexivity).
    destruct Hz as [H0 H1]. destruct (Z.ltb_spec (d_size d) 0); [lia|]. cbn [rbind].
    hdrs. rewrite is_empty_media. cbn [e_valid_digest stack_env].
    destruct (negb (o_omit_digest_from_tag_get o) || has_tag); hdrs.
    - rewrite !(vdigest_nonempty _ _ Hd), Hd. change (200 =? 206) with false. cbn [rbind negb andb].
      rewrite ?(vdigest_nonempty _ _ Hd). reflexivity.
    - cbn [is_empty negb]. destruct Hk as [Hk| ->]; [rewrite Hk, andb_false_r|]; reflexivity.
  Qed.

  (* handleManifestGet -> GetManifest / GetTag (the descriptor part; requireSize only) *)
  Theorem descriptor_roundtrip_manifest_get o idx rq d data known :
    vdigest linked (d_digest d) = true -> int64 (d_size d) ->
    vdigest linked known = true \/ known = [] ->
    dfr (in_hand idx rq MGet (mkresp 200 (hdrs_manifest_get o d) data None)) known true false
    = Ok {| d_media := media_or_octet (d_media d);
            d_digest := if o_omit_digest_from_tag_get o then known else d_digest d;
            d_size := d_size d; d_artifact := [] |}.
  Proof.
    intros Hd Hz Hk. open_dfr. unfold hdrs_manifest_get.
    rewrite (clen_get _ (d_size d) Hz) by (cbn [p_hdrs p_status]; hdrs; reflexivity).
    destruct Hz as [H0 H1]. destruct (Z.ltb_spec (d_size d) 0); [lia|]. cbn [rbind].
    hdrs. rewrite is_empty_media. cbn [e_valid_digest stack_env].
    destruct (o_omit_digest_from_tag_get o); cbn [negb]; hdrs.
    - cbn [is_empty negb]. destruct Hk as [Hk| ->]; [rewrite Hk, andb_false_r|]; reflexivity.
    - rewrite !(vdigest_nonempty _ _ Hd), Hd. change (200 =? 206) with false. cbn [rbind negb andb].
      rewrite ?(vdigest_nonempty _ _ Hd). reflexivity.
  Qed.

  (* handleBlobGet, whole blob: the digest header is the REQUESTED digest *)
  Theorem descriptor_roundtrip_blob_get idx rq dig d data known :
    vdigest linked dig = true -> int64 (d_size d) ->
    dfr (in_hand idx rq MGet (mkresp 200 (hdrs_blob_get dig d) data None)) known true false
    = Ok {| d_media := media_or_octet (d_media d); d_digest := dig; d_size := d_size d; d_artifact := [] |}.
  Proof.
    intros Hd Hz. open_dfr. unfold hdrs_blob_get.
    rewrite (clen_get _ (d_size d) Hz) by (cbn [p_hdrs p_status]; hdrs; reflexivity).
    destruct Hz as [H0 H1]. destruct (Z.ltb_spec (d_size d) 0); [lia|]. cbn [rbind].
    hdrs. rewrite is_empty_media. cbn [e_valid_digest stack_env].
    rewrite !(vdigest_nonempty _ _ Hd), Hd. change (200 =? 206) with false. cbn [rbind negb andb].
      rewrite ?(vdigest_nonempty _ _ Hd). reflexivity.
  Qed.

  Lemma client_cut_last_total start e1 size :
    Client.cut_last 47%N (s "bytes " ++ dec_Z start ++ 45%N :: dec_Z e1 ++ 47%N :: dec_Z size)
    = Some (s "bytes " ++ dec_Z start ++ 45%N :: dec_Z e1, dec_Z size).
  Proof.
    change Client.cut_last with Request.cut_last.
    replace (s "bytes " ++ dec_Z start ++ 45%N :: dec_Z e1 ++ 47%N :: dec_Z size)
      with ((s "bytes " ++ dec_Z start ++ 45%N :: dec_Z e1) ++ 47%N :: dec_Z size)
      by (rewrite <- !app_assoc; cbn [app]; rewrite <- ?app_assoc; reflexivity).
    apply cut_last_app. apply Proofs.Server.dec_Z_no_slash.
  Qed.

  (* handleBlobGet, one range: 206 with Content-Range; the size that comes back is the size of
     the whole blob (after the last "/"), the digest the requested one *)
  Theorem descriptor_roundtrip_blob_range idx rq dig d data start end_ known :
    vdigest linked dig = true -> int64 (d_size d) ->
    dfr (in_hand idx rq MGet (mkresp 206 (hdrs_blob_range dig d start end_) data None)) known true false
    = Ok {| d_media := media_or_octet (d_media d); d_digest := dig; d_size := d_size d; d_artifact := [] |}.
  Proof.
    intros Hd [H0 H1]. open_dfr. unfold hdrs_blob_range. hdrs. rewrite is_empty_media.
    change (206 =? 206) with true. cbn iota.
    unfold content_range. rewrite client_cut_last_total.
    replace (is_empty (s "bytes " ++ dec_Z start ++ 45%N :: dec_Z (end_ - 1) ++ 47%N :: dec_Z (d_size d))) with false
      by reflexivity.
    rewrite parse_int64_parse_int, parse_int_dec_Z by (unfold min_int64; lia).
    cbn [rbind e_valid_digest stack_env]. rewrite !(vdigest_nonempty _ _ Hd), Hd. cbn [rbind negb andb].
    rewrite ?(vdigest_nonempty _ _ Hd). reflexivity.
  Qed.

End Desc.

(* ---------------------------------------------------------------- nextListResults *)

Lemma next_items_spec n l : forall items, (length items <= n)%nat -> (0 < n)%nat ->
  next_items (Z.of_nat n) l items
  = (items ++ firstn (n - length items) l, Nat.ltb (n - length items) (length l)).
Proof.
  induction l as [|x l IH]; intros items Hle Hn; cbn [next_items].
  - rewrite firstn_nil, app_nil_r. reflexivity.
  - destruct (Z.ltb_spec 0 (Z.of_nat n)); [|lia]. cbn [andb].
    destruct (Z.leb_spec (Z.of_nat n) (Z.of_nat (length items))) as [Hge|Hlt].
    + assert (length items = n) by lia. replace (n - length items)%nat with 0%nat by lia.
      cbn [firstn length Nat.ltb Nat.leb]. rewrite app_nil_r. reflexivity.
    + rewrite IH; [|rewrite app_length; cbn [length]; lia|lia].
      rewrite app_length. cbn [length]. replace (n - length items)%nat with (S (n - (length items + 1)))%nat by lia.
      cbn [firstn length]. rewrite <- app_assoc. cbn [app]. reflexivity.
Qed.

Lemma next_items_page n l : (0 < n)%nat ->
  next_items (Z.of_nat n) l [] = (firstn n l, Nat.ltb n (length l)).
Proof. intros Hn. rewrite (next_items_spec n l [] (Nat.le_0_l n) Hn). cbn [length app]. now rewrite Nat.sub_0_r. Qed.

(* ---------------------------------------------------------------- the handlers emit exactly these *)

Section Emit.
  Variable linked : alg -> bool.
  Variable digest_of : bytes -> bytes.
  Variable subject_of : bytes -> option (option bytes).
  Variable enc : jval -> bytes.
  Variable redirect : bytes -> bytes -> bytes * bytes.
  Variable B : Type.
  Variable bstep : backend B.
  Variable o : opts.

  Notation H := (handle linked digest_of subject_of enc redirect B bstep o).

  Ltac route Hp Hk :=
    unfold handle, v2; rewrite Hp; unfold Server.dispatch; rewrite Hk.

  Ltac fin :=
    cbn [h_b h_tr h_w fst snd set_hdr write_header write_body upd_w log rev app finish
         w_status w_hdrs w_body w_json rw0 as_desc as_read as_unit desc_of data_of negb].

  Lemma write_error_rw0 (b' : B) tr e wr :
    serve_error go_sprefix go_cprefix e = Ok wr ->
    write_error enc B e (mkst b' tr rw0) =
      (mkst b' tr (mkrw (hset H_ctype json_ct []) (Some (r_status wr)) (enc (JErr (r_err wr)))
                        (Some (JErr (r_err wr)))), Ok tt).
  Proof. intros Hs. apply (write_error_ok enc B (mkst b' tr rw0) e wr Hs); reflexivity. Qed.

  Section Routed.
    Variable b : B.
    Variable req : Server.hreq.
    Variable r : request.
    Hypothesis Hp : parse_req linked (hq_method req) (hq_path req) (hq_rawquery req) = Ok r.

    Lemma emit_blob_head b' v :
      Request.q_kind r = Request.ReqBlobHead ->
      bstep b (ResolveBlob (q_repo r) (q_digest r)) = (b', Ok v) ->
      H b req = (b', [ECall (ResolveBlob (q_repo r) (q_digest r)) (Ok v)],
                 Ok (mkresp 200 (hdrs_blob_head (desc_of v)) [] None)).
    Proof. intros Hk Hb. route Hp Hk. unfold handle_blob_head, call. fin. rewrite Hb. fin. reflexivity. Qed.

    Lemma emit_blob_head_err b' e wr :
      Request.q_kind r = Request.ReqBlobHead ->
      bstep b (ResolveBlob (q_repo r) (q_digest r)) = (b', Err e) ->
      serve_error go_sprefix go_cprefix e = Ok wr ->
      H b req = (b', [ECall (ResolveBlob (q_repo r) (q_digest r)) (Err e)], Ok (err_resp enc [] wr)).
    Proof.
      intros Hk Hb Hs. route Hp Hk. unfold handle_blob_head, call. fin. rewrite Hb. fin.
      rewrite (write_error_rw0 _ _ _ _ Hs). fin. reflexivity.
    Qed.

    Ltac ok_case Hk Hb hd :=
      route Hp Hk; unfold hd, call; fin; rewrite Hb; fin; try reflexivity.
    Ltac err_case Hk Hb Hs hd :=
      route Hp Hk; unfold hd, call; fin; rewrite Hb; fin;
      rewrite (write_error_rw0 _ _ _ _ Hs); fin; try reflexivity.

    Lemma emit_blob_delete b' v :
      Request.q_kind r = Request.ReqBlobDelete ->
      bstep b (DeleteBlob (q_repo r) (q_digest r)) = (b', Ok v) ->
      H b req = (b', [ECall (DeleteBlob (q_repo r) (q_digest r)) (Ok v)], Ok (mkresp 202 [] [] None)).
    Proof. intros Hk Hb. ok_case Hk Hb handle_blob_delete. Qed.

    Lemma emit_blob_delete_err b' e wr :
      Request.q_kind r = Request.ReqBlobDelete ->
      bstep b (DeleteBlob (q_repo r) (q_digest r)) = (b', Err e) ->
      serve_error go_sprefix go_cprefix e = Ok wr ->
      H b req = (b', [ECall (DeleteBlob (q_repo r) (q_digest r)) (Err e)], Ok (err_resp enc [] wr)).
    Proof. intros Hk Hb Hs. err_case Hk Hb Hs handle_blob_delete. Qed.

    (* the backend call of the three manifest kinds that address by tag or digest *)
    Definition by_ref (ftag fdig : bytes -> bytes -> op) : op :=
      match q_tag r with _ :: _ => ftag (q_repo r) (q_tag r) | [] => fdig (q_repo r) (q_digest r) end.

    Definition has_tag : bool := match q_tag r with [] => false | _ => true end.

    Lemma emit_manifest_head b' v :
      Request.q_kind r = Request.ReqManifestHead ->
      bstep b (by_ref ResolveTag ResolveManifest) = (b', Ok v) ->
      H b req = (b', [ECall (by_ref ResolveTag ResolveManifest) (Ok v)],
                 Ok (mkresp 200 (hdrs_manifest_head o has_tag (desc_of v)) [] None)).
    Proof.
      unfold by_ref, has_tag. intros Hk Hb. route Hp Hk. unfold handle_manifest_head, call, hdrs_manifest_head.
      destruct (q_tag r); fin; rewrite Hb; fin;
        destruct (o_omit_digest_from_tag_get o); fin; reflexivity.
    Qed.

    Lemma emit_manifest_head_err b' e wr :
      Request.q_kind r = Request.ReqManifestHead ->
      bstep b (by_ref ResolveTag ResolveManifest) = (b', Err e) ->
      serve_error go_sprefix go_cprefix e = Ok wr ->
      H b req = (b', [ECall (by_ref ResolveTag ResolveManifest) (Err e)], Ok (err_resp enc [] wr)).
    Proof.
      unfold by_ref. intros Hk Hb Hs. route Hp Hk. unfold handle_manifest_head, call.
      destruct (q_tag r); fin; rewrite Hb; fin; rewrite (write_error_rw0 _ _ _ _ Hs); fin; reflexivity.
    Qed.

    Lemma emit_manifest_get b' v :
      Request.q_kind r = Request.ReqManifestGet ->
      bstep b (by_ref GetTag GetManifest) = (b', Ok v) ->
      H b req = (b', [ECall (by_ref GetTag GetManifest) (Ok v); ECloseR],
                 Ok (mkresp 200 (hdrs_manifest_get o (desc_of v)) (data_of v) None)).
    Proof.
      unfold by_ref. intros Hk Hb. route Hp Hk. unfold handle_manifest_get, call, hdrs_manifest_get.
      destruct (q_tag r); fin; rewrite Hb; fin;
        destruct (o_omit_digest_from_tag_get o); fin; reflexivity.
    Qed.

    Lemma emit_manifest_get_err b' e wr :
      Request.q_kind r = Request.ReqManifestGet ->
      bstep b (by_ref GetTag GetManifest) = (b', Err e) ->
      serve_error go_sprefix go_cprefix e = Ok wr ->
      H b req = (b', [ECall (by_ref GetTag GetManifest) (Err e)], Ok (err_resp enc [] wr)).
    Proof.
      unfold by_ref. intros Hk Hb Hs. route Hp Hk. unfold handle_manifest_get, call.
      destruct (q_tag r); fin; rewrite Hb; fin; rewrite (write_error_rw0 _ _ _ _ Hs); fin; reflexivity.
    Qed.

    Lemma emit_manifest_delete b' v :
      Request.q_kind r = Request.ReqManifestDelete ->
      bstep b (by_ref DeleteTag DeleteManifest) = (b', Ok v) ->
      H b req = (b', [ECall (by_ref DeleteTag DeleteManifest) (Ok v)], Ok (mkresp 202 [] [] None)).
    Proof.
      unfold by_ref. intros Hk Hb. route Hp Hk. unfold handle_manifest_delete, call.
      destruct (q_tag r); fin; rewrite Hb; fin; reflexivity.
    Qed.

    Lemma emit_manifest_delete_err b' e wr :
      Request.q_kind r = Request.ReqManifestDelete ->
      bstep b (by_ref DeleteTag DeleteManifest) = (b', Err e) ->
      serve_error go_sprefix go_cprefix e = Ok wr ->
      H b req = (b', [ECall (by_ref DeleteTag DeleteManifest) (Err e)], Ok (err_resp enc [] wr)).
    Proof.
      unfold by_ref. intros Hk Hb Hs. route Hp Hk. unfold handle_manifest_delete, call.
      destruct (q_tag r); fin; rewrite Hb; fin; rewrite (write_error_rw0 _ _ _ _ Hs); fin; reflexivity.
    Qed.

    (* handleBlobGet without LocationsForDescriptor and without a Range header *)
    Lemma emit_blob_get b' v :
      Request.q_kind r = Request.ReqBlobGet -> o_locs o = None -> hq_range req = [] ->
      bstep b (GetBlob (q_repo r) (q_digest r)) = (b', Ok v) ->
      H b req = (b', [ECall (GetBlob (q_repo r) (q_digest r)) (Ok v); ECloseR],
                 Ok (mkresp 200 (hdrs_blob_get (q_digest r) (desc_of v)) (data_of v) None)).
    Proof.
      intros Hk Hl Hrg Hb. route Hp Hk. unfold handle_blob_get. rewrite Hl.
      unfold handle_blob_get_body, call. rewrite Hrg. cbn [parse_range_header]. fin. rewrite Hb. fin. reflexivity.
    Qed.

    Lemma emit_blob_get_err b' e wr :
      Request.q_kind r = Request.ReqBlobGet -> o_locs o = None -> hq_range req = [] ->
      bstep b (GetBlob (q_repo r) (q_digest r)) = (b', Err e) ->
      serve_error go_sprefix go_cprefix e = Ok wr ->
      H b req = (b', [ECall (GetBlob (q_repo r) (q_digest r)) (Err e)], Ok (err_resp enc [] wr)).
    Proof.
      intros Hk Hl Hrg Hb Hs. route Hp Hk. unfold handle_blob_get. rewrite Hl.
      unfold handle_blob_get_body, call. rewrite Hrg. cbn [parse_range_header]. fin. rewrite Hb. fin.
      rewrite (write_error_rw0 _ _ _ _ Hs); fin; reflexivity.
    Qed.

    Definition blob_location (repo dig : bytes) : bytes := s "/v2/" ++ repo ++ s "/blobs/" ++ dig.

    Lemma emit_blob_mount b' v :
      Request.q_kind r = Request.ReqBlobMount -> o_locs o = None ->
      bstep b (MountBlob (q_from r) (q_repo r) (q_digest r)) = (b', Ok v) ->
      H b req = (b', [ECall (MountBlob (q_from r) (q_repo r) (q_digest r)) (Ok v)],
                 Ok (mkresp 201 (hset H_dcd (d_digest (desc_of v))
                                    (hset H_location (blob_location (q_repo r) (q_digest r)) [])) [] None)).
    Proof.
      intros Hk Hl Hb. route Hp Hk. unfold handle_blob_mount, call. fin. rewrite Hb. fin.
      unfold set_location_header. rewrite Hl. fin. reflexivity.
    Qed.

    Lemma emit_blob_mount_err b' e wr :
      Request.q_kind r = Request.ReqBlobMount ->
      bstep b (MountBlob (q_from r) (q_repo r) (q_digest r)) = (b', Err e) ->
      serve_error go_sprefix go_cprefix e = Ok wr ->
      H b req = (b', [ECall (MountBlob (q_from r) (q_repo r) (q_digest r)) (Err e)], Ok (err_resp enc [] wr)).
    Proof. intros Hk Hb Hs. err_case Hk Hb Hs handle_blob_mount. Qed.

    Definition manifest_location (repo dig : bytes) : bytes := s "/v2/" ++ repo ++ s "/manifests/" ++ dig.

    (* handleManifestPut: the checks before the backend is asked *)
    Definition put_checks_ok : Prop :=
      match q_tag r with _ :: _ => True | [] => q_digest r = digest_of (hq_body req) end
      /\ subject_from_manifest subject_of (hq_ctype req) (hq_body req) <> None.

    Definition put_media : bytes := match hq_ctype req with [] => media_octet_stream | m => m end.

    Lemma emit_manifest_put b' v :
      Request.q_kind r = Request.ReqManifestPut -> o_locs o = None -> put_checks_ok ->
      bstep b (PushManifest (q_repo r) (q_tag r) (hq_body req) put_media) = (b', Ok v) ->
      exists hdrs,
        H b req = (b', [ECall (PushManifest (q_repo r) (q_tag r) (hq_body req) put_media) (Ok v)],
                   Ok (mkresp 201 hdrs [] None)).
    Proof.
      unfold put_checks_ok, put_media. intros Hk Hl [Hdg Hsj] Hb. route Hp Hk. unfold handle_manifest_put.
      destruct (subject_from_manifest subject_of (hq_ctype req) (hq_body req)) as [sj|] eqn:Esj; [|congruence].
      destruct (q_tag r) as [|t0 tg] eqn:Et.
      - rewrite Hdg, beqb_refl. cbn [negb]. unfold call. fin. rewrite Hb. fin.
        unfold set_location_header. rewrite Hl. fin. destruct sj; fin; eexists; reflexivity.
      - unfold call. fin. rewrite Hb. fin.
        unfold set_location_header. rewrite Hl. fin. destruct sj; fin; eexists; reflexivity.
    Qed.

    Lemma emit_manifest_put_err b' e wr :
      Request.q_kind r = Request.ReqManifestPut -> put_checks_ok ->
      bstep b (PushManifest (q_repo r) (q_tag r) (hq_body req) put_media) = (b', Err e) ->
      serve_error go_sprefix go_cprefix e = Ok wr ->
      H b req = (b', [ECall (PushManifest (q_repo r) (q_tag r) (hq_body req) put_media) (Err e)],
                 Ok (err_resp enc [] wr)).
    Proof.
      unfold put_checks_ok, put_media. intros Hk [Hdg Hsj] Hb Hs. route Hp Hk. unfold handle_manifest_put.
      destruct (subject_from_manifest subject_of (hq_ctype req) (hq_body req)) as [sj|] eqn:Esj; [|congruence].
      destruct (q_tag r) as [|t0 tg] eqn:Et.
      - rewrite Hdg, beqb_refl. cbn [negb]. unfold call. fin. rewrite Hb. fin.
        rewrite (write_error_rw0 _ _ _ _ Hs); fin; reflexivity.
      - unfold call. fin. rewrite Hb. fin. rewrite (write_error_rw0 _ _ _ _ Hs); fin; reflexivity.
    Qed.

    (* handleBlobGet with one range *)
    Definition range_end (size end_ : Z) : Z := if (end_ =? -1) || (size <? end_) then size else end_.

    Lemma emit_blob_range b' v start end_ :
      Request.q_kind r = Request.ReqBlobGet -> o_locs o = None ->
      parse_range_header (hq_range req) = Ok [(start, end_)] ->
      bstep b (GetBlobRange (q_repo r) (q_digest r) start end_) = (b', Ok v) ->
      start <= d_size (desc_of v) -> start <= range_end (d_size (desc_of v)) end_ ->
      H b req = (b', [ECall (GetBlobRange (q_repo r) (q_digest r) start end_) (Ok v); ECloseR],
                 Ok (mkresp 206 (hdrs_blob_range (q_digest r) (desc_of v) start
                                   (range_end (d_size (desc_of v)) end_)) (data_of v) None)).
    Proof.
      unfold range_end. intros Hk Hl Hrg Hb H1 H2. route Hp Hk. unfold handle_blob_get. rewrite Hl.
      unfold handle_blob_get_body, call. rewrite Hrg. fin. rewrite Hb. fin.
      destruct (Z.ltb_spec (d_size (desc_of v)) start); [lia|].
      match goal with |- context [if ?c <? start then _ else _] => destruct (Z.ltb_spec c start); [lia|] end.
      fin. reflexivity.
    Qed.

    Lemma emit_blob_range_err b' e wr start end_ :
      Request.q_kind r = Request.ReqBlobGet -> o_locs o = None ->
      parse_range_header (hq_range req) = Ok [(start, end_)] ->
      bstep b (GetBlobRange (q_repo r) (q_digest r) start end_) = (b', Err e) ->
      serve_error go_sprefix go_cprefix e = Ok wr ->
      H b req = (b', [ECall (GetBlobRange (q_repo r) (q_digest r) start end_) (Err e)], Ok (err_resp enc [] wr)).
    Proof.
      intros Hk Hl Hrg Hb Hs. route Hp Hk. unfold handle_blob_get. rewrite Hl.
      unfold handle_blob_get_body, call. rewrite Hrg. fin. rewrite Hb. fin.
      rewrite (write_error_rw0 _ _ _ _ Hs); fin; reflexivity.
    Qed.

    (* ---- listings ---- *)

    Definition list_hdrs (msg link : bytes) (ct : option bytes) : Server.headers :=
      let h := hset H_clen (dec_Z (blen msg)) (match link with [] => [] | _ => hset H_link link [] end) in
      match ct with Some c => hset H_ctype c h | None => h end.

    Lemma list_response_rw0 (b' : B) tr j link ct :
      list_response enc B (mkst b' tr rw0) j link ct
      = (mkst b' tr (mkrw (list_hdrs (enc j) link ct) (Some 200) (enc j) (Some j)), Ok tt).
    Proof. unfold list_response, list_hdrs. destruct link, ct; fin; reflexivity. Qed.

    Lemma emit_referrers b' v :
      Request.q_kind r = Request.ReqReferrersList -> o_disable_referrers o = false ->
      bstep b (Referrers (q_repo r) (q_digest r) []) = (b', Ok v) -> iter_err_of v = None ->
      H b req = (b', [ECall (Referrers (q_repo r) (q_digest r) []) (Ok v)],
                 Ok (mkresp 200 (list_hdrs (enc (JIndex (descs_of v))) [] (Some media_image_index))
                            (enc (JIndex (descs_of v))) (Some (JIndex (descs_of v))))).
    Proof.
      intros Hk Hd Hb Hie. route Hp Hk. unfold handle_referrers_list. rewrite Hd. unfold call. fin. rewrite Hb.
      cbn [as_descs]. rewrite Hie. rewrite list_response_rw0. fin. reflexivity.
    Qed.

    (* the iterator's error, or the error of the call *)
    Definition listing_error (a : bres) : option gerr :=
      match a with
      | Ok v => iter_err_of v
      | Err e => Some e
      | _ => None
      end.

    Lemma emit_referrers_err b' a e wr :
      Request.q_kind r = Request.ReqReferrersList -> o_disable_referrers o = false ->
      bstep b (Referrers (q_repo r) (q_digest r) []) = (b', a) -> listing_error a = Some e ->
      serve_error go_sprefix go_cprefix e = Ok wr ->
      H b req = (b', [ECall (Referrers (q_repo r) (q_digest r) []) a], Ok (err_resp enc [] wr)).
    Proof.
      intros Hk Hd Hb Hle Hs. route Hp Hk. unfold handle_referrers_list. rewrite Hd. unfold call. fin. rewrite Hb.
      destruct a as [v|e0| |]; try discriminate Hle; cbn [listing_error] in Hle; cbn [as_descs].
      - rewrite Hle. fin. rewrite (write_error_rw0 _ _ _ _ Hs); fin; reflexivity.
      - injection Hle as ->. fin. rewrite (write_error_rw0 _ _ _ _ Hs); fin; reflexivity.
    Qed.

    Lemma emit_tags b' v tags link :
      Request.q_kind r = Request.ReqTagsList ->
      bstep b (Tags (q_repo r) (Request.q_last r)) = (b', Ok v) ->
      next_list_results o req r (items_of v, iter_err_of v) = Ok (tags, link) ->
      H b req = (b', [ECall (Tags (q_repo r) (Request.q_last r)) (Ok v)],
                 Ok (mkresp 200 (list_hdrs (enc (JTags (q_repo r) tags)) link None)
                            (enc (JTags (q_repo r) tags)) (Some (JTags (q_repo r) tags)))).
    Proof.
      intros Hk Hb Hn. route Hp Hk. unfold handle_tags_list, call. fin. rewrite Hb. cbn [as_list]. rewrite Hn.
      rewrite list_response_rw0. fin. reflexivity.
    Qed.

    Lemma emit_catalog b' v repos link :
      Request.q_kind r = Request.ReqCatalogList ->
      bstep b (Repositories (Request.q_last r)) = (b', Ok v) ->
      next_list_results o req r (items_of v, iter_err_of v) = Ok (repos, link) ->
      H b req = (b', [ECall (Repositories (Request.q_last r)) (Ok v)],
                 Ok (mkresp 200 (list_hdrs (enc (JCatalog repos)) link None)
                            (enc (JCatalog repos)) (Some (JCatalog repos)))).
    Proof.
      intros Hk Hb Hn. route Hp Hk. unfold handle_catalog_list, call. fin. rewrite Hb. cbn [as_list]. rewrite Hn.
      rewrite list_response_rw0. fin. reflexivity.
    Qed.

    (* a listing that fails: the error of the call, the error of the iterator when the page is
       not cut short before it, or the page size check *)
    Lemma emit_tags_err b' a e wr :
      Request.q_kind r = Request.ReqTagsList ->
      bstep b (Tags (q_repo r) (Request.q_last r)) = (b', a) ->
      match as_list a with Ok it => next_list_results o req r it = Err e | _ => False end ->
      serve_error go_sprefix go_cprefix e = Ok wr ->
      H b req = (b', [ECall (Tags (q_repo r) (Request.q_last r)) a], Ok (err_resp enc [] wr)).
    Proof.
      intros Hk Hb Hn Hs. route Hp Hk. unfold handle_tags_list, call. fin. rewrite Hb.
      destruct (as_list a) as [it|?| |]; try contradiction. rewrite Hn. fin.
      rewrite (write_error_rw0 _ _ _ _ Hs); fin; reflexivity.
    Qed.

    Lemma emit_catalog_err b' a e wr :
      Request.q_kind r = Request.ReqCatalogList ->
      bstep b (Repositories (Request.q_last r)) = (b', a) ->
      match as_list a with Ok it => next_list_results o req r it = Err e | _ => False end ->
      serve_error go_sprefix go_cprefix e = Ok wr ->
      H b req = (b', [ECall (Repositories (Request.q_last r)) a], Ok (err_resp enc [] wr)).
    Proof.
      intros Hk Hb Hn Hs. route Hp Hk. unfold handle_catalog_list, call. fin. rewrite Hb.
      destruct (as_list a) as [it|?| |]; try contradiction. rewrite Hn. fin.
      rewrite (write_error_rw0 _ _ _ _ Hs); fin; reflexivity.
    Qed.

    (* ---- the upload session ---- *)

    (* POST .../blobs/uploads/ : PushBlobChunked, ID, ChunkSize, (deferred) Close *)
    Lemma emit_start_upload b1 b2 b3 b4 vw vid vcs rc loc :
      Request.q_kind r = Request.ReqBlobStartUpload ->
      bstep b (PushBlobChunked (q_repo r) 0) = (b1, Ok vw) ->
      bstep b1 (WID (wid_of vw)) = (b2, Ok vid) ->
      location_for_upload_id linked (q_repo r) (str_of vid) = Ok loc ->
      bstep b2 (WChunkSize (wid_of vw)) = (b3, Ok vcs) ->
      bstep b3 (WClose (wid_of vw)) = (b4, rc) -> rc <> Panic -> rc <> OutOfFuel ->
      H b req = (b4, [ECall (PushBlobChunked (q_repo r) 0) (Ok vw); ECall (WID (wid_of vw)) (Ok vid);
                      ECall (WChunkSize (wid_of vw)) (Ok vcs); ECall (WClose (wid_of vw)) rc],
                 Ok (mkresp 202 (hset H_chunk_min (dec_Z (n_of vcs)) (hset H_range (s "0-0") (hset H_location loc [])))
                            [] None)).
    Proof.
      intros Hk H1 H2 Hloc H3 H4 Hnp Hnf. route Hp Hk.
      unfold handle_blob_start_upload, call. fin. rewrite H1. cbn [as_writer].
      unfold with_upload_location, call. fin. rewrite H2. cbn [as_str]. rewrite Hloc. fin. rewrite H3. cbn [as_n].
      unfold defer_close, call. fin. rewrite H4. destruct rc; try congruence; fin; reflexivity.
    Qed.

    (* PUT <location>?digest=... with content: Resume, Write, Commit, (deferred) Close *)
    Lemma emit_complete_upload_hdrs b1 b2 b3 b4 start end_ vw vn vd rc :
      Request.q_kind r = Request.ReqBlobCompleteUpload -> o_locs o = None ->
      chunk_range req = Ok (start, end_) -> hq_body req <> [] ->
      bstep b (PushBlobChunkedResume (q_repo r) (q_upload r) start (wrap64 (end_ - start))) = (b1, Ok vw) ->
      bstep b1 (WWrite (wid_of vw) (hq_body req)) = (b2, Ok vn) -> n_of vn = blen (hq_body req) ->
      bstep b2 (WCommit (wid_of vw) (q_digest r)) = (b3, Ok vd) ->
      bstep b3 (WClose (wid_of vw)) = (b4, rc) -> rc <> Panic -> rc <> OutOfFuel ->
      H b req = (b4, [ECall (PushBlobChunkedResume (q_repo r) (q_upload r) start (wrap64 (end_ - start))) (Ok vw);
                      ECall (WWrite (wid_of vw) (hq_body req)) (Ok vn);
                      ECall (WCommit (wid_of vw) (q_digest r)) (Ok vd); ECall (WClose (wid_of vw)) rc],
                 Ok (mkresp 201 (hset H_dcd (d_digest (desc_of vd))
                                    (hset H_location (blob_location (q_repo r) (d_digest (desc_of vd))) [])) [] None)).
    Proof.
      intros Hk Hl Hcr Hbody H1 H2 Hn H3 H4 Hnp Hnf. route Hp Hk.
      unfold handle_blob_complete_upload. rewrite Hcr. unfold call. fin. rewrite H1. cbn [as_writer].
      unfold copy_body, call. destruct (hq_body req) as [|c0 body] eqn:Eb; [congruence|]. fin. rewrite H2.
      rewrite Hn, Z.eqb_refl. fin. rewrite H3. cbn [as_desc]. unfold set_location_header. rewrite Hl. fin.
      unfold defer_close, call. fin. rewrite H4. destruct rc; try congruence; fin; reflexivity.
    Qed.

    Lemma emit_complete_upload b1 b2 b3 b4 start end_ vw vn vd rc :
      Request.q_kind r = Request.ReqBlobCompleteUpload -> o_locs o = None ->
      chunk_range req = Ok (start, end_) -> hq_body req <> [] ->
      bstep b (PushBlobChunkedResume (q_repo r) (q_upload r) start (wrap64 (end_ - start))) = (b1, Ok vw) ->
      bstep b1 (WWrite (wid_of vw) (hq_body req)) = (b2, Ok vn) -> n_of vn = blen (hq_body req) ->
      bstep b2 (WCommit (wid_of vw) (q_digest r)) = (b3, Ok vd) ->
      bstep b3 (WClose (wid_of vw)) = (b4, rc) -> rc <> Panic -> rc <> OutOfFuel ->
      exists hdrs,
      H b req = (b4, [ECall (PushBlobChunkedResume (q_repo r) (q_upload r) start (wrap64 (end_ - start))) (Ok vw);
                      ECall (WWrite (wid_of vw) (hq_body req)) (Ok vn);
                      ECall (WCommit (wid_of vw) (q_digest r)) (Ok vd); ECall (WClose (wid_of vw)) rc],
                 Ok (mkresp 201 hdrs [] None)).
    Proof. intros. eexists. eapply emit_complete_upload_hdrs; eassumption. Qed.

    (* PATCH <location> with a chunk: Resume at the chunk's offset, Write, Close, ID, Size *)
    Lemma emit_upload_chunk b1 b2 b3 b4 b5 start end_ vw vn vc vid vs loc :
      Request.q_kind r = Request.ReqBlobUploadChunk ->
      chunk_range req = Ok (start, end_) -> hq_body req <> [] ->
      bstep b (PushBlobChunkedResume (q_repo r) (q_upload r) start (wrap64 (end_ - start))) = (b1, Ok vw) ->
      bstep b1 (WWrite (wid_of vw) (hq_body req)) = (b2, Ok vn) -> n_of vn = blen (hq_body req) ->
      bstep b2 (WClose (wid_of vw)) = (b3, Ok vc) ->
      bstep b3 (WID (wid_of vw)) = (b4, Ok vid) ->
      location_for_upload_id linked (q_repo r) (str_of vid) = Ok loc ->
      bstep b4 (WSize (wid_of vw)) = (b5, Ok vs) ->
      H b req = (b5, [ECall (PushBlobChunkedResume (q_repo r) (q_upload r) start (wrap64 (end_ - start))) (Ok vw);
                      ECall (WWrite (wid_of vw) (hq_body req)) (Ok vn); ECall (WClose (wid_of vw)) (Ok vc);
                      ECall (WID (wid_of vw)) (Ok vid); ECall (WSize (wid_of vw)) (Ok vs)],
                 Ok (mkresp 202 (hset H_range (range_string 0 (n_of vs)) (hset H_location loc [])) [] None)).
    Proof.
      intros Hk Hcr Hbody H1 H2 Hn H3 H4 Hloc H5. route Hp Hk.
      unfold handle_blob_upload_chunk. rewrite Hcr. unfold call. fin. rewrite H1. cbn [as_writer].
      unfold copy_body, call. destruct (hq_body req) as [|c0 body] eqn:Eb; [congruence|]. fin. rewrite H2.
      rewrite Hn, Z.eqb_refl. fin. rewrite H3. cbn [as_unit].
      unfold with_upload_location, call. fin. rewrite H4. cbn [as_str]. rewrite Hloc. fin. rewrite H5. cbn [as_n].
      fin. reflexivity.
    Qed.

  End Routed.
End Emit.

Print Assumptions descriptor_roundtrip_blob_head.
Print Assumptions descriptor_roundtrip_manifest_head.
Print Assumptions descriptor_roundtrip_manifest_get.
Print Assumptions descriptor_roundtrip_blob_get.
Print Assumptions descriptor_roundtrip_blob_range.
