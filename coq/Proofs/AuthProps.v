(* Proofs about Model/Auth.v, part 8: readable corollaries of the clause theorems. *)
From Coq Require Import String ZArith Lia.
From OCI Require Import Base.Outcome Model.Scope Model.Challenge Model.Auth Model.AuthSpec
  Proofs.Challenge Proofs.AuthBase Proofs.AuthShape Proofs.AuthInv Proofs.AuthStep Proofs.AuthTrace Proofs.AuthC11.

Lemma all_ok_at ev pre e post : all_ok ev (pre ++ e :: post) = true -> ev e post = true.
Proof.
  induction pre as [|x pre IH]; cbn [app all_ok]; intros H; apply andb_true_iff in H as [H1 H2]; auto.
Qed.

Section Props.
  Variable E : env.

  (* the caller's request value is never replaced: what a call in flight holds is the request
     it was started with *)
  Lemma request_untouched l id th :
    th_get id (threads (run E l)) = Some th -> req_of id (history (run E l)) = Some (th_q th).
  Proof. intros H. exact (proj1 (inv_thr _ _ (run_Inv E l) id th H)). Qed.

  (* Basic credentials reach a registry host only if they are that host's configured ones and
     that host has answered an earlier request with a Basic challenge (or the caller put them
     there itself) *)
  Lemma password_to_registry l later id host u p rsp earlier :
    history (run E l) = later ++ ESend id (MReg host (ABasic u p)) rsp :: earlier ->
    (exists q, req_of id earlier = Some q /\ q_host q = host /\ q_auth q = ABasic u p)
    \/ (cfg_basic E host = Some (u, p) /\ named host is_basic_ch earlier = true).
  Proof.
    intros Hh. pose proof (P1_holds E l) as H. rewrite Hh in H. apply all_ok_at in H.
    cbn [evP1] in H. destruct (req_of id earlier) as [q|]; [|discriminate].
    apply andb_true_iff in H as [Hhost H]. apply beqb_eq in Hhost. apply orb_true_iff in H as [H|H].
    - left. exists q. repeat split; auto. destruct (q_auth q); cbn in H; try discriminate.
      apply andb_true_iff in H as [H1 H2]. apply beqb_eq in H1, H2. now subst.
    - right. destruct (cfg_basic E host) as [[u' p']|]; [|discriminate].
      apply andb_true_iff in H as [H H3]. apply andb_true_iff in H as [H1 H2].
      apply beqb_eq in H1, H2. now subst.
  Qed.

  (* a refresh token is only ever posted to a realm that the call's host named in a Bearer
     challenge, and it is that host's refresh token *)
  Lemma refresh_to_realm l later id realm form a rsp earlier :
    history (run E l) = later ++ ESend id (MPost realm form a) rsp :: earlier ->
    exists q, a = ANone /\ req_of id earlier = Some q
      /\ named (q_host q) (fun ch => is_bearer_ch ch && beqb (pget k_realm (ah_params ch)) realm) earlier = true
      /\ refresh_of_host E (q_host q) (pget k_refresh_token form) earlier = true.
  Proof.
    intros Hh. pose proof (P2_holds E l) as H. rewrite Hh in H. apply all_ok_at in H.
    cbn [evP2] in H. destruct (req_of id earlier) as [q|]; [|discriminate]. exists q.
    apply andb_true_iff in H as [H _]. apply andb_true_iff in H as [H1 H2]. apply andb_true_iff in H1 as [H0 H1].
    destruct a; try discriminate. now repeat split.
  Qed.

  (* at most two attempts against the registry per call *)
  Lemma two_attempts l id : (count_reg id (history (run E l)) <= 2)%nat.
  Proof.
    pose proof (P3_holds E l) as H. induction (history (run E l)) as [|e h IH]; [cbn; lia|].
    cbn [all_ok] in H. apply andb_true_iff in H as [He Hh]. specialize (IH Hh).
    destruct e as [| |i m r| | | |]; cbn [count_reg]; auto. destruct m as [host a| |]; auto.
    destruct (Nat.eqb i id) eqn:Ei; auto. apply Nat.eqb_eq in Ei. subst i.
    cbn [evP3] in He. apply andb_true_iff in He as [He _]. apply Nat.leb_le in He. lia.
  Qed.
End Props.
