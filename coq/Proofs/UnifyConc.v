(* Proofs about the protocol model of runReadConcurrent (Model/UnifyConc.v).
   The state space is finite: the set of reachable states is computed inside Coq, its closure
   under every step (internal and environment) is checked by the kernel, and each invariant is
   evaluated on every state of it.  The closure lemma lifts this to all traces. *)
From OCI Require Import Model.UnifyConc Model.UnifyConcSpec.
From Coq Require Import Lia.

(* ---------- equality reflection ---------- *)

Lemma state_beq_eq a b : state_beq a b = true <-> a = b.
Proof.
  split; [apply internal_state_dec_bl | apply internal_state_dec_lb].
Qed.

Lemma memb_In s l : memb s l = true <-> In s l.
Proof.
  unfold memb. rewrite existsb_exists. split.
  - intros [x [Hx E]]. apply state_beq_eq in E. now subst.
  - intros H. exists s. split; [assumption | now apply state_beq_eq].
Qed.

Lemma snapshot_eqb_eq a b : snapshot_eqb a b = true -> a = b.
Proof.
  unfold snapshot_eqb. intros H.
  repeat (apply andb_true_iff in H as [H ?]).
  destruct a as [a1 a2 a3 a4 ra a6 a7 a8 a9], b as [b1 b2 b3 b4 rb b6 b7 b8 b9]; cbn in *.
  repeat match goal with
         | E : Bool.eqb _ _ = true |- _ => apply Bool.eqb_prop in E
         | E : N.eqb _ _ = true |- _ => apply N.eqb_eq in E
         | E : msnap_beq _ _ = true |- _ => apply internal_msnap_dec_bl in E
         end.
  assert (ra = rb).
  { destruct ra, rb; cbn in *; try discriminate; try reflexivity.
    f_equal. now apply internal_result_dec_bl. }
  now subst.
Qed.

Lemma snapshot_eqb_refl a : snapshot_eqb a a = true.
Proof.
  unfold snapshot_eqb. rewrite !Bool.eqb_reflx, !N.eqb_refl.
  rewrite !(internal_msnap_dec_lb _ _ eq_refl).
  destruct (o_res a); cbn; [rewrite (internal_result_dec_lb _ _ eq_refl)|]; reflexivity.
Qed.

(* ---------- reachability ---------- *)

Inductive reach : state -> Prop :=
  | reach_init c : In c inits -> reach c
  | reach_step s s' : reach s -> In s' (step s) -> reach s'.

(* one entry per configuration: the initial state and the states found from it *)
Definition reach_table : list (state * list state) :=
  Eval vm_compute in map (fun c => (c, bfs 200 [c] [c])) inits.

Definition reachable : list state := flat_map snd reach_table.

Definition closed_entry (e : state * list state) : bool :=
  let (c, l) := e in
  memb c l && forallb (fun s => forallb (fun s' => memb s' l) (step s)) l.

Lemma table_closed : forallb closed_entry reach_table = true.
Proof. vm_cast_no_check (eq_refl true). Qed.

Lemma table_inits : map fst reach_table = inits.
Proof. vm_compute. reflexivity. Qed.

Lemma reachable_init c : In c inits -> In c reachable.
Proof.
  intros H. rewrite <- table_inits in H. apply in_map_iff in H as [[c' l] [E Hin]].
  cbn in E. subst c'.
  pose proof table_closed as T. rewrite forallb_forall in T. specialize (T _ Hin).
  cbn in T. apply andb_true_iff in T as [T _]. apply memb_In in T.
  unfold reachable. apply in_flat_map. exists (c, l). split; assumption.
Qed.

Lemma reachable_step s s' : In s reachable -> In s' (step s) -> In s' reachable.
Proof.
  unfold reachable. intros H Hs. apply in_flat_map in H as [[c l] [Hin Hl]]. cbn in Hl.
  pose proof table_closed as T. rewrite forallb_forall in T. specialize (T _ Hin).
  cbn in T. apply andb_true_iff in T as [_ T]. rewrite forallb_forall in T.
  specialize (T _ Hl). rewrite forallb_forall in T. specialize (T _ Hs).
  apply memb_In in T. apply in_flat_map. exists (c, l). split; assumption.
Qed.

Theorem reach_closed :
  (forall c, In c inits -> In c reachable) /\
  (forall s s', In s reachable -> In s' (step s) -> In s' reachable).
Proof. split; [exact reachable_init | exact reachable_step]. Qed.

Theorem reach_in_reachable s : reach s -> In s reachable.
Proof.
  induction 1 as [c H | s s' _ IH Hs].
  - now apply reachable_init.
  - now apply (reachable_step s).
Qed.

(* a boolean predicate evaluated on the whole list holds of every reachable state *)
Lemma check_all (p : state -> bool) :
  forallb p reachable = true -> forall s, reach s -> p s = true.
Proof.
  intros H s R. rewrite forallb_forall in H. apply H. now apply reach_in_reachable.
Qed.

(* the configuration set is complete *)
Lemma inits_complete y k0 k1 : In (init y k0 k1) inits.
Proof.
  destruct y, k0 as [|[|]], k1 as [|[|]]; vm_compute; tauto.
Qed.

(* using the returned reader (Read, Descriptor) is not a step of the protocol: the member's
   reader sees the context of the call that opened it (touch_rd), and in every reachable state
   that context has not been cancelled under it - nothing is recorded, nothing changes *)
Definition chk_use (s : state) : bool :=
  forallb (fun u => match estep (EUse u) s with Some s' => state_beq s' s | None => true end)
          [UPartial; UDrain; UDesc].
Lemma chk_use_all : forallb chk_use reachable = true.
Proof. vm_cast_no_check (eq_refl true). Qed.

Theorem use_neutral s u s' : reach s -> estep (EUse u) s = Some s' -> s' = s.
Proof.
  intros R E. pose proof (check_all _ chk_use_all s R) as C. unfold chk_use in C.
  rewrite forallb_forall in C.
  assert (I : In u [UPartial; UDrain; UDesc]) by (destruct u; cbn; tauto).
  specialize (C u I). rewrite E in C. now apply state_beq_eq in C.
Qed.

Theorem use_enabled s u : reach s -> main s = M_returned -> st s = Blob -> (exists j, res s = ROk j) ->
  cl s = Cl_none -> estep (EUse u) s = Some s.
Proof.
  intros Rs M Y [j R] C.
  assert (E : estep (EUse u) s = Some (touch_rd j s)) by (cbn; now rewrite M, Y, R, C).
  rewrite E. f_equal. now apply (use_neutral s u).
Qed.

(* ---------- everything the harness-style runner visits satisfies any step-closed predicate ---------- *)

Section Closed.
  Variable P : state -> Prop.
  Hypothesis Pstep : forall s s', P s -> In s' (step s) -> P s'.

  Definition allP (l : list state) : Prop := forall s, In s l -> P s.

  Lemma istep_P s s' : P s -> In s' (istep s) -> P s'.
  Proof. intros H Hs. apply (Pstep s); [assumption|]. unfold step. apply in_or_app. now left. Qed.

  Lemma all_events_complete e : In e all_events.
  Proof. destruct e as [|[|] [|]| | |[| |]]; cbn; tauto. Qed.

  Lemma estep_in e s s' : estep e s = Some s' -> In s' (env_steps s).
  Proof.
    intros H. unfold env_steps. apply in_flat_map. exists e. split; [apply all_events_complete|].
    rewrite H. now left.
  Qed.

  Lemma apply_ev_P e s : P s -> P (apply_ev e s).
  Proof.
    intros H. unfold apply_ev. destruct (estep e s) as [s'|] eqn:E; [|assumption].
    apply (Pstep s); [assumption|]. unfold step. apply in_or_app. right. now apply (estep_in e).
  Qed.

  Lemma dedup_In s l : In s (dedup l) -> In s l.
  Proof.
    induction l as [|a l IH]; cbn; [tauto|].
    destruct (memb a (dedup l)); cbn; intros H; [right; now apply IH|].
    destruct H as [H|H]; [now left | right; now apply IH].
  Qed.

  Lemma flat_istep_P l : allP l -> allP (flat_map istep l).
  Proof.
    intros H s Hs. apply in_flat_map in Hs as [s0 [H0 H1]]. apply (istep_P s0); auto.
  Qed.

  Lemma closure_P f : forall front, allP front -> allP (closure f front).
  Proof.
    induction f as [|f IH]; intros front H; cbn; [assumption|].
    destruct (dedup (flat_map istep front)) as [|a nxt] eqn:E; [assumption|].
    intros s Hs. apply in_app_or in Hs as [Hs|Hs]; [now apply H|].
    apply (IH (a :: nxt)); [|assumption].
    intros s1 H1. rewrite <- E in H1. apply dedup_In in H1. now apply (flat_istep_P front).
  Qed.

  Lemma settle_P f front q : allP front -> In q (settle f front) -> P q /\ quiescent q = true.
  Proof.
    intros H Hq. unfold settle in Hq. apply dedup_In in Hq. apply filter_In in Hq as [Hq Q].
    split; [|assumption]. now apply (closure_P f front).
  Qed.

  Lemma map_apply_P e l : allP l -> allP (dedup (map (apply_ev e) l)).
  Proof.
    intros H s Hs. apply dedup_In in Hs. apply in_map_iff in Hs as [s0 [E H0]]. subst s.
    apply apply_ev_P. now apply H.
  Qed.

  Lemma run_P f evs : forall front snaps, allP front -> In snaps (run f evs front) ->
    Forall (fun x => exists q, P q /\ quiescent q = true /\ x = snap q) snaps.
  Proof.
    induction evs as [|[e w] evs IH]; intros front snaps H Hin; cbn in Hin.
    - destruct Hin as [<-|[]]. constructor.
    - destruct w.
      + apply in_flat_map in Hin as [q [Hq Hin]]. apply in_map_iff in Hin as [tl [<- Htl]].
        apply settle_P in Hq as [Pq Qq].
        2:{ apply map_apply_P. now apply closure_P. }
        constructor.
        * exists q. auto.
        * apply (IH [q]); [|assumption]. intros s [<-|[]]. assumption.
      + apply (IH _ _ (map_apply_P e _ (closure_P f front H)) Hin).
  Qed.
End Closed.

Lemma reach_step_closed s s' : reach s -> In s' (step s) -> reach s'.
Proof. intros; now apply (reach_step s). Qed.

(* every snapshot the runner produces is the snapshot of a reachable quiescent state *)
Lemma run_reach f evs c snaps : In c inits -> In snaps (run f evs [c]) ->
  Forall (fun x => exists q, reach q /\ quiescent q = true /\ x = snap q) snaps.
Proof.
  intros Hc. apply (run_P reach reach_step_closed).
  intros s [<-|[]]. now apply reach_init.
Qed.

Lemma run_witness evs c x : In c inits ->
  existsb (fun l => existsb (snapshot_eqb x) l) (run run_fuel evs [c]) = true ->
  exists q, reach q /\ quiescent q = true /\ snap q = x.
Proof.
  intros Hc H. apply existsb_exists in H as [l [Hl H]]. apply existsb_exists in H as [x' [Hx E]].
  apply snapshot_eqb_eq in E. subst x'.
  pose proof (run_reach _ _ _ _ Hc Hl) as F. rewrite Forall_forall in F.
  destruct (F _ Hx) as [q [R [Q E]]]. exists q. auto.
Qed.

(* ====================================================================================== *)
(* The invariants.  Each is a boolean evaluated on every reachable state by the kernel,    *)
(* then restated as a readable implication.                                               *)
(* ====================================================================================== *)

Definition is_ret (m : mret) : bool := match m with NotRet => false | Ret _ => true end.
Definition is_succ (m : mret) : bool := match m with Ret Succ => true | _ => false end.
Definition is_fail (m : mret) : bool := match m with Ret Fail => true | _ => false end.
Definition returned_b (s : state) : bool := match main s with M_returned => true | _ => false end.
Definition started_b (s : state) : bool := match main s with M_idle => false | _ => true end.

(* --- 1a. what was returned is a member's successful answer; an error means both failed or the
           caller cancelled (in every state, from the moment the result is fixed) --- *)
Definition chk_answer (s : state) : bool :=
  match res s with
  | RNone => true
  | ROk j => is_succ (mr (sd j s))
  | RErrM j => is_fail (mr (sd0 s)) && is_fail (mr (sd1 s))
  | RErrCtx => cctx s
  end.
Lemma chk_answer_all : forallb chk_answer reachable = true.
Proof. vm_cast_no_check (eq_refl true). Qed.

Theorem answer_valid s j : reach s -> res s = ROk j -> mr (sd j s) = Ret Succ.
Proof.
  intros R E. pose proof (check_all _ chk_answer_all s R) as C. unfold chk_answer in C.
  rewrite E in C. destruct (mr (sd j s)) as [|[|]]; cbn in C; congruence.
Qed.

Theorem error_only_when s : reach s -> (res s = RErrCtx \/ exists j, res s = RErrM j) ->
  (mr (sd0 s) = Ret Fail /\ mr (sd1 s) = Ret Fail) \/ cctx s = true.
Proof.
  intros R E. pose proof (check_all _ chk_answer_all s R) as C. unfold chk_answer in C.
  destruct E as [E|[j E]]; rewrite E in C.
  - now right.
  - left. apply andb_true_iff in C as [C0 C1].
    destruct (mr (sd0 s)) as [|[|]], (mr (sd1 s)) as [|[|]]; cbn in *; try discriminate; auto.
Qed.

(* the result is fixed exactly from the return statement on, and never before *)
Definition chk_res_pc (s : state) : bool :=
  match main s with
  | M_defer | M_wrap | M_returned => negb (result_beq (res s) RNone)
  | _ => result_beq (res s) RNone
  end.
Lemma chk_res_pc_all : forallb chk_res_pc reachable = true.
Proof. vm_cast_no_check (eq_refl true). Qed.

Theorem returned_has_result s : reach s -> main s = M_returned -> res s <> RNone.
Proof.
  intros R E. pose proof (check_all _ chk_res_pc_all s R) as C. unfold chk_res_pc in C.
  rewrite E in C. intros N. rewrite N in C. discriminate.
Qed.

(* --- 1b. promptness: at a quiet moment, a call that was made has returned as soon as a member
           has answered successfully, or both have answered, or the caller has cancelled --- *)
Definition chk_prompt (s : state) : bool :=
  implb (quiescent s && started_b s
         && (is_succ (mr (sd0 s)) || is_succ (mr (sd1 s))
             || (is_ret (mr (sd0 s)) && is_ret (mr (sd1 s))) || cctx s))
        (returned_b s).
Lemma chk_prompt_all : forallb chk_prompt reachable = true.
Proof. vm_cast_no_check (eq_refl true). Qed.

Lemma prompt_gen s : reach s -> quiescent s = true -> main s <> M_idle ->
  (is_succ (mr (sd0 s)) || is_succ (mr (sd1 s))
   || (is_ret (mr (sd0 s)) && is_ret (mr (sd1 s))) || cctx s) = true ->
  main s = M_returned.
Proof.
  intros R Q St H. pose proof (check_all _ chk_prompt_all s R) as C. unfold chk_prompt in C.
  rewrite Q, H in C. unfold started_b, returned_b in C.
  destruct (main s); cbn in C; try discriminate; try reflexivity. now elim St.
Qed.

Theorem first_success_returned s i : reach s -> quiescent s = true -> main s <> M_idle ->
  mr (sd i s) = Ret Succ ->
  main s = M_returned /\ ((exists j, res s = ROk j) \/ (res s = RErrCtx /\ cctx s = true)).
Proof.
  intros R Q St E.
  assert (M : main s = M_returned).
  { apply prompt_gen; auto. destruct i; cbn in E; rewrite E; cbn;
      rewrite ?orb_true_r; reflexivity. }
  split; [assumption|].
  pose proof (check_all _ chk_answer_all s R) as C. unfold chk_answer in C.
  pose proof (returned_has_result s R M) as N.
  destruct (res s) as [|j|j|] eqn:Er.
  - now elim N.
  - left. now exists j.
  - exfalso. apply andb_true_iff in C as [C0 C1].
    destruct i; cbn in E; rewrite E in *; discriminate.
  - right. auto.
Qed.

Theorem both_answered_returned s : reach s -> quiescent s = true ->
  mr (sd0 s) <> NotRet -> mr (sd1 s) <> NotRet -> main s = M_returned.
Proof.
  intros R Q H0 H1.
  pose proof (check_all _ chk_prompt_all s R) as C. unfold chk_prompt in C.
  rewrite Q in C.
  assert (St : started_b s = true).
  { (* a member can only have answered after the call was made *)
    pose proof (check_all (fun s => implb (is_ret (mr (sd0 s))) (started_b s))) as G.
    assert (T : forallb (fun s => implb (is_ret (mr (sd0 s))) (started_b s)) reachable = true)
      by (vm_cast_no_check (eq_refl true)).
    specialize (G T s R). cbn in G. destruct (mr (sd0 s)); [now elim H0 | exact G]. }
  rewrite St in C.
  destruct (mr (sd0 s)); [now elim H0|]. destruct (mr (sd1 s)); [now elim H1|].
  cbn in C. rewrite orb_true_r in C. cbn in C. unfold returned_b in C.
  destruct (main s); try discriminate; reflexivity.
Qed.

Theorem cancelled_returned s : reach s -> quiescent s = true -> main s <> M_idle ->
  cctx s = true -> main s = M_returned.
Proof.
  intros R Q St E. apply prompt_gen; auto. rewrite E. now rewrite orb_true_r.
Qed.

(* --- 2. readers --- *)
(* at a quiet moment an open reader belongs to the chosen member of a returned call and the
   caller has not closed it yet; no reader is ever closed twice; the chosen member's reader is
   open until the caller's Close and closed from then on *)
Definition chk_readers (s : state) : bool :=
  forallb (fun i =>
    let r := rd (sd i s) in
    negb (rdst_beq r RdTwice)
    && implb (quiescent s && rdst_beq r RdOpen)
             (result_beq (res s) (ROk i) && returned_b s && clpc_beq (cl s) Cl_none)
    && implb (style_beq (st s) Blob && result_beq (res s) (ROk i))
             (rdst_beq r (match cl s with Cl_none | Cl_inner => RdOpen | _ => RdClosed end)))
    [M0; M1].
Lemma chk_readers_all : forallb chk_readers reachable = true.
Proof. vm_cast_no_check (eq_refl true). Qed.

Lemma chk_readers_at s i : reach s ->
  let r := rd (sd i s) in
  (negb (rdst_beq r RdTwice)
    && implb (quiescent s && rdst_beq r RdOpen)
             (result_beq (res s) (ROk i) && returned_b s && clpc_beq (cl s) Cl_none)
    && implb (style_beq (st s) Blob && result_beq (res s) (ROk i))
             (rdst_beq r (match cl s with Cl_none | Cl_inner => RdOpen | _ => RdClosed end))) = true.
Proof.
  intros R. pose proof (check_all _ chk_readers_all s R) as C. unfold chk_readers in C.
  rewrite forallb_forall in C. apply (C i). destruct i; cbn; tauto.
Qed.

Theorem loser_closed s i : reach s -> quiescent s = true -> rd (sd i s) = RdOpen ->
  res s = ROk i /\ main s = M_returned /\ cl s = Cl_none.
Proof.
  intros R Q E. pose proof (chk_readers_at s i R) as C. cbn in C. rewrite Q, E in C. cbn in C.
  apply andb_true_iff in C as [C _].
  apply andb_true_iff in C as [C C3]. apply andb_true_iff in C as [C1 C2].
  apply internal_result_dec_bl in C1. apply internal_clpc_dec_bl in C3.
  unfold returned_b in C2. destruct (main s); try discriminate. auto.
Qed.

Theorem never_closed_twice s i : reach s -> rd (sd i s) <> RdTwice.
Proof.
  intros R E. pose proof (chk_readers_at s i R) as C. cbn in C. rewrite E in C. discriminate.
Qed.

Theorem chosen_reader s j : reach s -> st s = Blob -> res s = ROk j ->
  rd (sd j s) = match cl s with Cl_none | Cl_inner => RdOpen | _ => RdClosed end.
Proof.
  intros R Y E. pose proof (chk_readers_at s j R) as C. cbn in C. rewrite Y, E in C.
  rewrite (internal_result_dec_lb _ _ eq_refl) in C. cbn in C.
  apply andb_true_iff in C as [_ C]. now apply internal_rdst_dec_bl in C.
Qed.

(* --- 3. the chosen member's context --- *)
(* Blob style: its own cancel function has run exactly when the caller's Close has completed;
   Resolve style: exactly when the call has returned; and it was not done when the member
   answered unless the caller had cancelled *)
Definition chk_ctx (s : state) : bool :=
  match res s with
  | ROk j =>
      Bool.eqb (own (sd j s))
               (match st s with
                | Blob => clpc_beq (cl s) Cl_done
                | Resolve => returned_b s
                end)
      && implb (rdead (sd j s)) (cctx s)
  | _ => true
  end.
Lemma chk_ctx_all : forallb chk_ctx reachable = true.
Proof. vm_cast_no_check (eq_refl true). Qed.

Theorem chosen_ctx_live s j : reach s -> st s = Blob -> res s = ROk j -> cl s <> Cl_done ->
  own (sd j s) = false /\ dead j s = cctx s.
Proof.
  intros R Y E N. pose proof (check_all _ chk_ctx_all s R) as C. unfold chk_ctx in C.
  rewrite E, Y in C. apply andb_true_iff in C as [C _]. apply Bool.eqb_prop in C.
  assert (O : own (sd j s) = false).
  { rewrite C. destruct (cl s); try reflexivity. now elim N. }
  split; [assumption|]. unfold dead. rewrite O. apply orb_false_r.
Qed.

Theorem chosen_ctx_cancelled_after_close s j : reach s -> st s = Blob -> res s = ROk j ->
  cl s = Cl_done -> own (sd j s) = true /\ dead j s = true.
Proof.
  intros R Y E D. pose proof (check_all _ chk_ctx_all s R) as C. unfold chk_ctx in C.
  rewrite E, Y, D in C. apply andb_true_iff in C as [C _]. apply Bool.eqb_prop in C. cbn in C.
  split; [assumption|]. unfold dead. rewrite C. apply orb_true_r.
Qed.

Theorem chosen_ctx_resolve s j : reach s -> st s = Resolve -> res s = ROk j ->
  own (sd j s) = match main s with M_returned => true | _ => false end.
Proof.
  intros R Y E. pose proof (check_all _ chk_ctx_all s R) as C. unfold chk_ctx in C.
  rewrite E, Y in C. apply andb_true_iff in C as [C _]. now apply Bool.eqb_prop in C.
Qed.

Theorem chosen_ctx_live_at_answer s j : reach s -> res s = ROk j -> rdead (sd j s) = true ->
  cctx s = true.
Proof.
  intros R E D. pose proof (check_all _ chk_ctx_all s R) as C. unfold chk_ctx in C.
  rewrite E, D in C. apply andb_true_iff in C as [_ C]. exact C.
Qed.

(* --- 3d. no context is cancelled under a reader that is still open --- *)
(* the ghost that the member readers' methods set is never set: whenever a method of a member's
   reader starts on the open reader - Close called by the losing sender, Close called by
   blobReader.Close, Read / Descriptor through the returned reader - the member's context has
   not been cancelled by the unifier *)
Definition chk_early (s : state) : bool :=
  forallb (fun i =>
    negb (early (sd i s))
    && implb (spc_beq (pc (sd i s)) S_dclose) (negb (own (sd i s)))
    && implb (clpc_beq (cl s) Cl_inner && result_beq (res s) (ROk i)) (negb (own (sd i s))))
    [M0; M1].
Lemma chk_early_all : forallb chk_early reachable = true.
Proof. vm_cast_no_check (eq_refl true). Qed.

Lemma chk_early_at s i : reach s ->
  (negb (early (sd i s))
   && implb (spc_beq (pc (sd i s)) S_dclose) (negb (own (sd i s)))
   && implb (clpc_beq (cl s) Cl_inner && result_beq (res s) (ROk i)) (negb (own (sd i s)))) = true.
Proof.
  intros R. pose proof (check_all _ chk_early_all s R) as C. unfold chk_early in C.
  rewrite forallb_forall in C. apply (C i). destruct i; cbn; tauto.
Qed.

Theorem never_cancelled_under_open_reader s i : reach s -> early (sd i s) = false.
Proof.
  intros R. pose proof (chk_early_at s i R) as C.
  apply andb_true_iff in C as [C _]. apply andb_true_iff in C as [C _].
  now apply negb_true_iff in C.
Qed.

(* the chosen member's context is live (the caller's cancellation aside) at the moment
   blobReader.Close calls the member reader's Close *)
Theorem chosen_ctx_live_at_close s j : reach s -> cl s = Cl_inner -> res s = ROk j ->
  own (sd j s) = false /\ dead j s = cctx s.
Proof.
  intros R C E. pose proof (chk_early_at s j R) as H.
  apply andb_true_iff in H as [_ H]. rewrite C, E in H.
  rewrite (internal_result_dec_lb _ _ eq_refl) in H. cbn in H. apply negb_true_iff in H.
  split; [assumption|]. unfold dead. rewrite H. apply orb_false_r.
Qed.

(* ... and so is the context of the member that was not chosen when its sender closes its reader *)
Theorem loser_ctx_live_at_close s i : reach s -> pc (sd i s) = S_dclose ->
  own (sd i s) = false /\ dead i s = cctx s.
Proof.
  intros R P. pose proof (chk_early_at s i R) as H.
  apply andb_true_iff in H as [H _]. apply andb_true_iff in H as [_ H]. rewrite P in H.
  cbn in H. apply negb_true_iff in H.
  split; [assumption|]. unfold dead. rewrite H. apply orb_false_r.
Qed.

(* --- 4. goroutines --- *)
(* at a quiet moment a sender is either not spawned, inside its member call, or gone; the
   Close call is not in progress; and main is in flight only at one of its two selects *)
Definition chk_threads (s : state) : bool :=
  implb (quiescent s)
        (forallb (fun i => match pc (sd i s) with S_idle | S_call | S_exit => true | _ => false end)
                 [M0; M1]
         && match cl s with Cl_none | Cl_done => true | _ => false end
         && match main s with M_idle | M_sel1 | M_sel2 | M_returned => true | _ => false end
         && implb (is_ret (mr (sd0 s))) (spc_beq (pc (sd0 s)) S_exit)
         && implb (is_ret (mr (sd1 s))) (spc_beq (pc (sd1 s)) S_exit)).
Lemma chk_threads_all : forallb chk_threads reachable = true.
Proof. vm_cast_no_check (eq_refl true). Qed.

Theorem sender_never_stuck s i : reach s -> quiescent s = true -> mr (sd i s) <> NotRet ->
  pc (sd i s) = S_exit.
Proof.
  intros R Q H. pose proof (check_all _ chk_threads_all s R) as C. unfold chk_threads in C.
  rewrite Q in C. cbn [implb] in C.
  apply andb_true_iff in C as [C C1]. apply andb_true_iff in C as [C C0].
  destruct i; cbn in *.
  - destruct (mr (sd0 s)); [now elim H|]. now apply internal_spc_dec_bl in C0.
  - destruct (mr (sd1 s)); [now elim H|]. now apply internal_spc_dec_bl in C1.
Qed.

Theorem no_goroutine_blocked s : reach s -> quiescent s = true ->
  mr (sd0 s) <> NotRet -> mr (sd1 s) <> NotRet ->
  main s = M_returned /\ pc (sd0 s) = S_exit /\ pc (sd1 s) = S_exit
  /\ (cl s = Cl_none \/ cl s = Cl_done).
Proof.
  intros R Q H0 H1. split; [now apply both_answered_returned|].
  split; [now apply (sender_never_stuck s M0)|]. split; [now apply (sender_never_stuck s M1)|].
  pose proof (check_all _ chk_threads_all s R) as C. unfold chk_threads in C.
  rewrite Q in C. cbn [implb] in C. repeat (apply andb_true_iff in C as [C ?]).
  destruct (cl s); try discriminate; auto.
Qed.

(* --- extra: the context of a member that answered and was not chosen is cancelled --- *)
Definition chk_unchosen_ctx (s : state) : bool :=
  forallb (fun i => implb (quiescent s && is_ret (mr (sd i s)) && negb (result_beq (res s) (ROk i)))
                          (own (sd i s))) [M0; M1].
Lemma chk_unchosen_ctx_all : forallb chk_unchosen_ctx reachable = true.
Proof. vm_cast_no_check (eq_refl true). Qed.

Theorem unchosen_ctx_cancelled s i : reach s -> quiescent s = true -> mr (sd i s) <> NotRet ->
  res s <> ROk i -> own (sd i s) = true.
Proof.
  intros R Q H N. pose proof (check_all _ chk_unchosen_ctx_all s R) as C.
  unfold chk_unchosen_ctx in C. rewrite forallb_forall in C.
  assert (I : In i [M0; M1]) by (destruct i; cbn; tauto).
  specialize (C i I). rewrite Q in C. destruct (mr (sd i s)); [now elim H|]. cbn in C.
  destruct (result_beq (res s) (ROk i)) eqn:E; [apply internal_result_dec_bl in E; now elim N|].
  exact C.
Qed.

(* --- the whole specification of Model/UnifyConcSpec.v holds of the snapshot of every
       reachable quiescent state --- *)
Definition chk_spec (s : state) : bool := implb (quiescent s) (snap_ok (st s) (snap s)).
Lemma chk_spec_all : forallb chk_spec reachable = true.
Proof. vm_cast_no_check (eq_refl true). Qed.

Theorem spec_holds s : reach s -> quiescent s = true -> snap_ok (st s) (snap s) = true.
Proof.
  intros R Q. pose proof (check_all _ chk_spec_all s R) as C. unfold chk_spec in C.
  now rewrite Q in C.
Qed.

(* the configuration never changes *)
Definition same_cfg (a b : state) : bool :=
  style_beq (st a) (st b) && kind_beq (kd0 a) (kd0 b) && kind_beq (kd1 a) (kd1 b).
Lemma chk_cfg_all : forallb (fun s => forallb (same_cfg s) (step s)) reachable = true.
Proof. vm_cast_no_check (eq_refl true). Qed.

Lemma step_style s s' : reach s -> In s' (step s) -> st s' = st s.
Proof.
  intros R H. pose proof (check_all _ chk_cfg_all s R) as C. rewrite forallb_forall in C.
  specialize (C _ H). unfold same_cfg in C. repeat (apply andb_true_iff in C as [C ?]).
  symmetry. now apply internal_style_dec_bl.
Qed.

(* ---------- termination of internal steps ---------- *)

Definition chk_rank (s : state) : bool := forallb (fun s' => Nat.ltb (rank s') (rank s)) (istep s).
Lemma chk_rank_all : forallb chk_rank reachable = true.
Proof. vm_cast_no_check (eq_refl true). Qed.

Inductive isteps : nat -> state -> state -> Prop :=
  | isteps_0 s : isteps O s s
  | isteps_S n s s' s'' : In s' (istep s) -> isteps n s' s'' -> isteps (S n) s s''.

Lemma istep_reach s s' : reach s -> In s' (istep s) -> reach s'.
Proof. intros R H. apply (reach_step s); [assumption|]. unfold step. apply in_or_app. now left. Qed.

Theorem internal_steps_bounded s : reach s -> forall n s', isteps n s s' -> (n + rank s' <= rank s)%nat.
Proof.
  intros R n s' H. induction H as [s | n s s1 s2 H1 _ IH].
  - cbn. lia.
  - pose proof (check_all _ chk_rank_all s R) as C. unfold chk_rank in C.
    rewrite forallb_forall in C. specialize (C _ H1). apply Nat.ltb_lt in C.
    specialize (IH (istep_reach _ _ R H1)). lia.
Qed.

Lemma rank_bound s : (rank s <= 24)%nat.
Proof.
  unfold rank.
  assert (rank_mpc (main s) <= 9)%nat by (destruct (main s); cbn; lia).
  assert (rank_spc (pc (sd0 s)) <= 6)%nat by (destruct (pc (sd0 s)); cbn; lia).
  assert (rank_spc (pc (sd1 s)) <= 6)%nat by (destruct (pc (sd1 s)); cbn; lia).
  assert (rank_cl (cl s) <= 3)%nat by (destruct (cl s); cbn; lia).
  lia.
Qed.

Theorem internal_steps_terminate s : reach s -> forall n s', isteps n s s' -> (n <= 24)%nat.
Proof.
  intros R n s' H. pose proof (internal_steps_bounded s R n s' H). pose proof (rank_bound s). lia.
Qed.

(* ---------- schedules: what the harness-style runner can observe satisfies the spec ---------- *)

Lemma first_from_result p x : result_ok p = true -> first_ok p x = true.
Proof.
  unfold result_ok, first_ok. destruct (o_res p) as [[| | |]|]; try reflexivity.
  destruct (o_res x) as [[|j| |]|]; try reflexivity.
  intros H. apply andb_true_iff in H as [H _]. apply andb_true_iff in H as [H0 H1].
  destruct j; cbn; assumption.
Qed.

Lemma firsts_from_results y l : forallb (snap_ok y) l = true -> forall prev, 
  match prev with None => True | Some p => result_ok p = true end -> firsts_ok prev l = true.
Proof.
  induction l as [|x l IH]; cbn; intros H prev Hp; [reflexivity|].
  apply andb_true_iff in H as [Hx Hl].
  assert (Rx : result_ok x = true).
  { unfold snap_ok in Hx. repeat (apply andb_true_iff in Hx as [Hx ?]). assumption. }
  apply andb_true_iff. split.
  - destruct prev as [p|]; [now apply first_from_result | reflexivity].
  - apply IH; assumption.
Qed.

Lemma run_style f evs : forall front snaps y, (forall s, In s front -> reach s /\ st s = y) ->
  In snaps (run f evs front) ->
  Forall (fun x => exists q, (reach q /\ st q = y) /\ quiescent q = true /\ x = snap q) snaps.
Proof.
  intros front snaps y H. apply (run_P (fun s => reach s /\ st s = y)); [|exact H].
  intros s s' [R Y] Hs. split; [now apply (reach_step s)|]. rewrite <- Y. now apply step_style.
Qed.

Theorem schedules_ok y k0 k1 evs snaps :
  In snaps (run run_fuel evs [init y k0 k1]) -> seq_ok y snaps = true.
Proof.
  intros H.
  assert (F : forallb (snap_ok y) snaps = true).
  { apply forallb_forall. intros x Hx.
    pose proof (run_style run_fuel evs [init y k0 k1] snaps y) as G.
    assert (I : forall s, In s [init y k0 k1] -> reach s /\ st s = y).
    { intros s [<-|[]]. split; [apply reach_init, inits_complete | reflexivity]. }
    specialize (G I H). rewrite Forall_forall in G. destruct (G x Hx) as [q [[R Y] [Q E]]].
    subst x. rewrite <- Y. now apply spec_holds. }
  unfold seq_ok. rewrite F. cbn. now apply (firsts_from_results y).
Qed.

(* ---------- witnesses: the hypotheses of the theorems are met by reachable states ---------- *)

Lemma run_witness_p (p : snapshot -> bool) evs c : In c inits ->
  existsb (existsb p) (run run_fuel evs [c]) = true ->
  exists q, reach q /\ quiescent q = true /\ p (snap q) = true.
Proof.
  intros Hc H. apply existsb_exists in H as [l [Hl H]]. apply existsb_exists in H as [x [Hx E]].
  pose proof (run_reach _ _ _ _ Hc Hl) as F. rewrite Forall_forall in F.
  destruct (F _ Hx) as [q [R [Q E']]]. subst x. exists q. auto.
Qed.

Definition all_wait (l : list ev) : list (ev * bool) := map (fun e => (e, true)) l.

Definition res_is (r : result) (x : snapshot) : bool := option_eqb result_beq (o_res x) (Some r).

(* the first answer fails, the second succeeds: the second is returned, its reader is open and
   its context live; the first member's context has been cancelled; nothing is left running *)
Definition w_second_answer_wins (x : snapshot) : bool :=
  res_is (ROk M1) x && ret_fail (o_m0 x) && ms_dead (o_m0 x)
  && rdst_beq (ms_rd (o_m1 x)) RdOpen && negb (ms_dead (o_m1 x)) && N.eqb (o_live x) 0.
Example ex_second_answer_wins :
  exists q, reach q /\ quiescent q = true /\ w_second_answer_wins (snap q) = true.
Proof.
  apply (run_witness_p w_second_answer_wins (all_wait [EStart; ERet M0 Fail; ERet M1 Succ])
           (init Blob Gated Gated)); [apply inits_complete | vm_compute; reflexivity].
Qed.

(* both succeed, member 0 first: member 0 is returned, member 1's reader has been closed and
   its context cancelled, no goroutine is left *)
Definition w_loser_closed (x : snapshot) : bool :=
  res_is (ROk M0) x && ret_succ (o_m1 x) && rdst_beq (ms_rd (o_m1 x)) RdClosed
  && ms_dead (o_m1 x) && rdst_beq (ms_rd (o_m0 x)) RdOpen && N.eqb (o_live x) 0.
Example ex_loser_closed :
  exists q, reach q /\ quiescent q = true /\ w_loser_closed (snap q) = true.
Proof.
  apply (run_witness_p w_loser_closed (all_wait [EStart; ERet M0 Succ; ERet M1 Succ])
           (init Blob Gated Gated)); [apply inits_complete | vm_compute; reflexivity].
Qed.

(* both fail: the error of the member that answered second is returned, nobody cancelled *)
Definition w_both_fail (x : snapshot) : bool :=
  res_is (RErrM M0) x && negb (o_cancelled x) && N.eqb (o_live x) 0.
Example ex_both_fail :
  exists q, reach q /\ quiescent q = true /\ w_both_fail (snap q) = true.
Proof.
  apply (run_witness_p w_both_fail (all_wait [EStart; ERet M1 Fail; ERet M0 Fail])
           (init Resolve Gated Gated)); [apply inits_complete | vm_compute; reflexivity].
Qed.

(* the caller closes the returned reader: the chosen member's context is done afterwards *)
Definition w_close_cancels (x : snapshot) : bool :=
  res_is (ROk M0) x && o_closed x && negb (o_cancelled x) && ms_dead (o_m0 x)
  && rdst_beq (ms_rd (o_m0 x)) RdClosed.
Example ex_close_cancels :
  exists q, reach q /\ quiescent q = true /\ w_close_cancels (snap q) = true.
Proof.
  apply (run_witness_p w_close_cancels (all_wait [EStart; ERet M0 Succ; EClose])
           (init Blob Gated Gated)); [apply inits_complete | vm_compute; reflexivity].
Qed.

(* the caller cancels while both members are still working: the call returns the context error
   and the two senders stay inside their member calls *)
Definition w_cancel_returns (x : snapshot) : bool :=
  res_is RErrCtx x && N.eqb (o_inmem x) 2 && N.eqb (o_live x) 2.
Example ex_cancel_returns :
  exists q, reach q /\ quiescent q = true /\ w_cancel_returns (snap q) = true.
Proof.
  apply (run_witness_p w_cancel_returns (all_wait [EStart; ECancel])
           (init Blob Gated Gated)); [apply inits_complete | vm_compute; reflexivity].
Qed.

(* Observation outside the property's statement: choosing a winner does NOT cancel the other
   member's context.  A member that only returns once its context is done is still inside its
   call, with a live context, after the call has returned and even after the caller has closed
   the returned reader - until the caller cancels its own context. *)
Definition w_loser_left_running (x : snapshot) : bool :=
  res_is (ROk M0) x && o_closed x && ms_started (o_m1 x) && negb (returned (o_m1 x))
  && negb (ms_dead (o_m1 x)) && N.eqb (o_inmem x) 1.
Example loser_left_running :
  exists q, reach q /\ quiescent q = true /\ w_loser_left_running (snap q) = true.
Proof.
  apply (run_witness_p w_loser_left_running (all_wait [EStart; ERet M0 Succ; EClose])
           (init Blob Gated (OnCancel Fail))); [apply inits_complete | vm_compute; reflexivity].
Qed.

Lemma witnesses :
  (exists q, reach q /\ quiescent q = true /\ w_second_answer_wins (snap q) = true) /\
  (exists q, reach q /\ quiescent q = true /\ w_loser_closed (snap q) = true) /\
  (exists q, reach q /\ quiescent q = true /\ w_both_fail (snap q) = true) /\
  (exists q, reach q /\ quiescent q = true /\ w_close_cancels (snap q) = true) /\
  (exists q, reach q /\ quiescent q = true /\ w_cancel_returns (snap q) = true).
Proof.
  exact (conj ex_second_answer_wins (conj ex_loser_closed (conj ex_both_fail
          (conj ex_close_cancels ex_cancel_returns)))).
Qed.
