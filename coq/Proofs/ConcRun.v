(* The replay of Model/ConcRun.v is a genuine execution of the sectioned model; a valid
   linearisation of the model's trace is one of the observed trace when the observed
   responses agree with the model's; [weave] only inserts linearisation points. *)
From Coq Require Import String Lia.
From OCI Require Import Model.ConcRun Proofs.Conc.

Section RunProofs.
  Variable hash : bytes -> bytes.
  Variable valid_digest : bytes -> bool.
  Variable valid_repo : bytes -> bool.
  Variable valid_tag : bytes -> bool.
  Variable decode_image : bytes -> option image_manifest.
  Variable decode_index : bytes -> option index_manifest.
  Variable cfg : config.
  Local Notation cstep := (cstep hash valid_digest valid_repo valid_tag decode_image decode_index cfg).
  Local Notation csteps := (csteps hash valid_digest valid_repo valid_tag decode_image decode_index cfg).
  Local Notation step_thread := (step_thread hash valid_digest valid_repo valid_tag decode_image decode_index cfg).
  Local Notation run_to_lp := (run_to_lp hash valid_digest valid_repo valid_tag decode_image decode_index cfg).
  Local Notation run_to_ret := (run_to_ret hash valid_digest valid_repo valid_tag decode_image decode_index cfg).

  Context {Resp : Type}.
  Variable cmp : Resp -> result -> bool.
  Local Notation exec := (exec hash valid_digest valid_repo valid_tag decode_image decode_index cfg cmp).

  Lemma csteps_trans c tr1 ms1 c1 tr2 ms2 c2 :
    csteps c tr1 ms1 c1 -> csteps c1 tr2 ms2 c2 -> exists ms, csteps c (tr1 ++ tr2) ms c2.
  Proof.
    induction 1 as [c | c l c' tr ms c1 S _ IH]; intros H2.
    - eexists. exact H2.
    - destruct (IH H2) as [ms' H']. exists (c_mem c :: ms'). rewrite <- app_assoc.
      econstructor; eauto.
  Qed.

  Lemma csteps_one c l c' : cstep c l c' -> csteps c l [c_mem c; c_mem c'] c'.
  Proof. intros S. rewrite <- (app_nil_r l). econstructor; [exact S | constructor]. Qed.

  Lemma step_thread_sound c t c' lp :
    step_thread c t = Some (c', lp) -> cstep c (if lp then [ALin t] else []) c'.
  Proof.
    unfold ConcRun.step_thread. destruct c as [m ths]. cbn.
    destruct (nth_error ths t) as [th|] eqn:Ht; [|discriminate].
    destruct (t_cur th) as [[o p]|] eqn:Hc; [|discriminate].
    destruct (sec_step _ _ _ _ _ _ _ _ _ _) as [[[m' lp'] p']|] eqn:Hs; [|discriminate].
    intros H. injection H as <- <-. eapply CSection; eauto.
  Qed.

  Lemma run_to_lp_sound fuel c t c' :
    run_to_lp fuel c t = Some c' -> exists ms, csteps c [ALin t] ms c'.
  Proof.
    revert c; induction fuel as [|f IH]; intros c; cbn; [discriminate|].
    destruct (step_thread c t) as [[c1 [|]]|] eqn:E; [| |discriminate].
    - intros H. injection H as <-. eexists. apply csteps_one. exact (step_thread_sound _ _ _ _ E).
    - intros H. destruct (IH _ H) as [ms Hs]. eexists.
      change [ALin t] with ([] ++ [@ALin result t]). econstructor; [exact (step_thread_sound _ _ _ _ E) | exact Hs].
  Qed.

  Lemma run_to_ret_sound fuel c t c' r :
    run_to_ret fuel c t = Some (c', r) -> exists ms, csteps c [ARes t r] ms c'.
  Proof.
    revert c; induction fuel as [|f IH]; intros c; cbn;
      destruct (nth_error (c_threads c) t) as [th|] eqn:Ht; try discriminate;
      destruct (t_cur th) as [[o p]|] eqn:Hc; try discriminate.
    - destruct p; try discriminate. intros H. injection H as <- <-. eexists. apply csteps_one.
      destruct c as [m ths]. eapply CReturn; eauto.
    - assert (Hret : forall r0, p = PDone r0 ->
                Some ({| c_mem := c_mem c; c_threads := set_nth t {| t_cur := None |} (c_threads c) |}, r0) = Some (c', r) ->
                exists ms, csteps c [ARes t r] ms c').
      { intros r0 -> H. injection H as <- <-. eexists. apply csteps_one.
        destruct c as [m ths]. eapply CReturn; eauto. }
      assert (Hgo : match step_thread c t with Some (c1, false) => run_to_ret f c1 t | _ => None end = Some (c', r) ->
                    exists ms, csteps c [ARes t r] ms c').
      { destruct (step_thread c t) as [[c1 [|]]|] eqn:E; try discriminate.
        intros H. destruct (IH _ H) as [ms Hs]. eexists.
        change [ARes t r] with ([] ++ [ARes t r]). econstructor; [exact (step_thread_sound _ _ _ _ E) | exact Hs]. }
      destruct p; eauto.
  Qed.

  (* same events; observed responses agree with the model's *)
  Inductive ev_match : aev Resp -> aev result -> Prop :=
    | EM_inv t o : ev_match (AInv t o) (AInv t o)
    | EM_lin t : ev_match (ALin t) (ALin t)
    | EM_res t r r' : cmp r r' = true -> ev_match (ARes t r) (ARes t r').

  Lemma exec_sound tr : forall c c' mt,
    exec c tr = Some (c', mt) -> (exists ms, csteps c mt ms c') /\ Forall2 ev_match tr mt.
  Proof.
    induction tr as [|e tr IH]; intros c c' mt; cbn [ConcRun.exec].
    - intros H. injection H as <- <-. split; [eexists; constructor | constructor].
    - destruct e as [t o|t|t r].
      + destruct (nth_error (c_threads c) t) as [th|] eqn:Ht; [|discriminate].
        destruct (t_cur th) eqn:Hc; [discriminate|].
        destruct (exec _ tr) as [[c1 mt1]|] eqn:E; [|discriminate].
        intros H. injection H as <- <-. destruct (IH _ _ _ E) as [[ms Hs] Hm]. split.
        * eexists. change (AInv t o :: mt1) with ([AInv t o] ++ mt1). econstructor; [|exact Hs].
          destruct c as [m ths]. eapply CInvoke; eauto.
        * constructor; [constructor | exact Hm].
      + destruct (run_to_lp 3 c t) as [c1|] eqn:R; [|discriminate].
        destruct (exec c1 tr) as [[c2 mt1]|] eqn:E; [|discriminate].
        intros H. injection H as <- <-. destruct (IH _ _ _ E) as [[ms Hs] Hm].
        destruct (run_to_lp_sound _ _ _ _ R) as [ms1 Hs1]. split.
        * exact (csteps_trans _ _ _ _ _ _ _ Hs1 Hs).
        * constructor; [constructor | exact Hm].
      + destruct (run_to_ret 3 c t) as [[c1 r']|] eqn:R; [|discriminate].
        destruct (cmp r r') eqn:Hcmp; [|discriminate].
        destruct (exec c1 tr) as [[c2 mt1]|] eqn:E; [|discriminate].
        intros H. injection H as <- <-. destruct (IH _ _ _ E) as [[ms Hs] Hm].
        destruct (run_to_ret_sound _ _ _ _ _ R) as [ms1 Hs1]. split.
        * exact (csteps_trans _ _ _ _ _ _ _ Hs1 Hs).
        * constructor; [now constructor | exact Hm].
  Qed.

  (* a valid linearisation of the model's trace is one of the observed trace *)
  Lemma aug_transfer tr mt : Forall2 ev_match tr mt -> forall a st x,
    aug_run hash valid_digest valid_repo valid_tag decode_image decode_index cfg result_eqb a st mt = Some x ->
    aug_run hash valid_digest valid_repo valid_tag decode_image decode_index cfg cmp a st tr = Some x.
  Proof.
    induction 1 as [|e e' tr mt M _ IH]; intros a st x; [auto|].
    destruct M as [t o|t|t r r' Hc]; cbn [aug_run].
    - destruct (sget st t); auto.
    - destruct (sget st t); auto. destruct (mstep _ _ _ _ _ _ _ a o). auto.
    - destruct (sget st t) as [| |r0]; auto.
      destruct (result_eqb r' r0) eqn:E; [|discriminate]. apply result_eqb_eq in E. subst r0.
      rewrite Hc. auto.
  Qed.

  Lemma weave_history (h : list (hev (Resp := Resp))) : forall w, history (weave h w) = map ev_of h.
  Proof.
    induction h as [|e h IH]; intros w; cbn [weave map]; [reflexivity|].
    assert (L : forall l rest, history (map ALin l ++ rest) = history (Resp := Resp) rest).
    { induction l; cbn; auto. }
    destruct w as [|l w]; [|rewrite L]; destruct e; cbn [history ev_of]; now rewrite IH.
  Qed.
End RunProofs.
