(* C03, one step of the stack seen as a backend ([stack_bstep], Model/Stack.v), for every
   Interface method that is one client call: the per-method theorems of
   Proofs/StackTransparent.v / StackListingB.v (stated on [stack_call]) carried over to the
   history-level runner, in ONE statement:

     step_one      for an operation [c] with well-formed arguments ([wf_op]), when the backend's
                   answer [r] to the one call [bop c] the server makes is conforming
                   ([conf_answer]): the stack answers [view c r], the backend behind it is in the
                   state after that call and has received [events c r], nothing else.

   [bop], [wf_op], [conf_answer] and [view] are functions of the operation; they collect the
   hypotheses and conclusions of the per-method theorems.  The remaining shapes (a tag GET whose
   digest the server omits and whose body is above the client's in-memory threshold; a listing,
   which is one call per page; PushBlob, which is an upload session) have their own lemmas. *)
From Coq Require Import String.
From OCI Require Import Model.Stack Proofs.Request Proofs.StackBase Proofs.StackDesc Proofs.StackRange.
From OCI Require Import Proofs.RequestCodec Proofs.StackTransparent Proofs.StackListing Proofs.StackListingB Proofs.StackTwoHops.
From OCI Require Import Proofs.StackUpload Proofs.StackUploadEmpty.
From OCI Require Proofs.Errors.

Local Open Scope Z_scope.

(* ================================================================ outcomes as backend results *)

Definition bres_of_outcome (out : outcome) : bres :=
  match out with
  | ODesc r => lift_res r VDesc
  | ORead r => read_res r
  | OUnit r => lift_res r (fun _ => VUnit)
  | ONames ys e => names_res (ys, e)
  | ODescs ys e => descs_res (ys, e)
  | OWriter _ => OutOfFuel
  end.

(* the client call an operation of a history is (the chunked-upload operations are writers
   kept in the state: not one call) *)
Definition call_of_op (cc : ccfg) (c : op) : option Client.call :=
  match c with
  | GetBlob r d => Some (CGetBlob r d (cc_bufsz cc))
  | GetBlobRange r d o0 o1 => Some (CGetBlobRange r d o0 o1 (cc_bufsz cc))
  | GetManifest r d => Some (CGetManifest r d (cc_bufsz cc))
  | GetTag r t => Some (CGetTag r t (cc_bufsz cc))
  | ResolveBlob r d => Some (CResolveBlob r d)
  | ResolveManifest r d => Some (CResolveManifest r d)
  | ResolveTag r t => Some (CResolveTag r t)
  | PushBlob r de content => Some (CPushBlob r de true true content)
  | MountBlob f t d => Some (CMountBlob f t d)
  | PushManifest r t content med => Some (CPushManifest r t content med)
  | DeleteBlob r d => Some (CDeleteBlob r d)
  | DeleteManifest r d => Some (CDeleteManifest r d)
  | DeleteTag r t => Some (CDeleteTag r t)
  | Repositories st => Some (CRepositories st None)
  | Tags r st => Some (CTags r st None)
  | Referrers r d art => Some (CReferrers r d art None)
  | _ => None
  end.

Lemma split_yields_inl {A} (l : list A) : split_yields (map inl l) = (l, None).
Proof. induction l as [|a l IH]; cbn [map split_yields]; [reflexivity|]. now rewrite IH. Qed.

Section Step.
  Variable linked : alg -> bool.
  Variable hash : bytes -> bytes -> bytes.
  Variable subject_of : bytes -> option (option bytes).
  Variable media : bytes -> bytes.
  Variable enc : jval -> bytes.
  Variable dec_errors : bytes -> option (list werr).
  Variable dec_names : bool -> bytes -> option (list bytes).
  Variable dec_index : bytes -> option (list desc).
  Variable redirect : bytes -> bytes -> bytes * bytes.
  Variable B : Type.
  Variable bstep : backend B.
  Variable o : opts.
  Variable cc : ccfg.

  Notation stack := (stack_bstep linked hash subject_of media enc dec_errors dec_names dec_index redirect bstep o cc).
  Notation raw := (raw_step linked hash subject_of media enc dec_errors dec_names dec_index redirect bstep o cc).
  Notation callv := (stack_call linked hash subject_of media enc dec_errors dec_names dec_index redirect bstep o cc).
  Notation merr := (marshal_error go_sprefix go_cprefix).
  Notation werror := (wire_error enc).

  (* ---------------------------------------------------------- from a call to a step *)

  Lemma raw_step_call (st : sstate B) c cl :
    call_of_op cc c = Some cl ->
    raw st c = (let '(w, out) := callv cl (start B st) in (with_srv B st w, bres_of_outcome out)).
  Proof.
    intros H. unfold raw_step, stack_call, Client.run.
    destruct c; cbn [call_of_op] in H; try discriminate H; injection H as <-; cbn [bres_of_outcome].
    all: try (match goal with |- context [read_and_drain ?a ?b ?c ?d ?e] => destruct (read_and_drain a b c d e) as [w1 r1] end;
              reflexivity).
    all: try (match goal with |- (let '(w, r) := ?m in _) = _ => destruct m as [w1 r1] end; reflexivity).
    all: match goal with |- (let '(w, x) := ?m in _) = _ => destruct m as [w1 [ys e]] end; reflexivity.
  Qed.

  (* the state a step leaves behind: the backend after the calls, the events of this step *)
  Definition stepped (st : sstate B) (b' : B) (tr : list ev) : sstate B :=
    mksstate (mksrv b' tr (sv_panic (st_srv st)) false) (st_writers st).

  Lemma step_of_call (st : sstate B) c cl w' out b' tr :
    call_of_op cc c = Some cl -> clean st ->
    callv cl (start B st) = (w', out) ->
    w_srv w' = after B (w_srv (start B st)) b' tr ->
    stack st c = (stepped st b' tr, bres_of_outcome out).
  Proof.
    intros Hc Hcl E Hw. unfold stack_bstep. rewrite (raw_step_call st c cl Hc), E.
    unfold with_srv. cbn [st_srv st_writers]. rewrite Hw. unfold after, start, init_world, stepped.
    cbn [w_srv sv_b sv_tr sv_panic sv_outside app]. unfold clean in Hcl. rewrite Hcl. reflexivity.
  Qed.

  Lemma after_after (v : srv B) b1 t1 b2 t2 : after B (after B v b1 t1) b2 t2 = after B v b2 (t1 ++ t2).
  Proof. unfold after. cbn [sv_tr sv_panic sv_outside]. now rewrite app_assoc. Qed.

  (* ---------------------------------------------------------- the table *)

  (* an error the server can serve and the client can read back *)
  Definition relayable (e : gerr) : Prop :=
    conf_err e /\ blen (enc (JErr (r_err (merr e)))) <= 8192.

  Definition is_head (c : op) : bool :=
    match c with ResolveBlob _ _ | ResolveManifest _ _ | ResolveTag _ _ => true | _ => false end.

  (* GetBlobRange(0, negative) is sent without a Range header *)
  Definition whole_range (o0 o1 : Z) : bool := (o0 =? 0) && (o1 <? 0).

  (* the backend call the server makes for the caller's operation *)
  Definition bop (c : op) : op :=
    match c with
    | GetBlobRange r d o0 o1 => if whole_range o0 o1 then GetBlob r d else GetBlobRange r d o0 (server_end o1)
    | Referrers r d _ => Referrers r d []
    | _ => c
    end.

  (* operations that are one request and one backend call *)
  Definition one_call (c : op) : bool :=
    match c with
    | GetBlob _ _ | GetBlobRange _ _ _ _ | GetManifest _ _ | GetTag _ _ | ResolveBlob _ _
    | ResolveManifest _ _ | ResolveTag _ _ | MountBlob _ _ _ | PushManifest _ _ _ _ | DeleteBlob _ _
    | DeleteManifest _ _ | DeleteTag _ _ | Referrers _ _ _ => true
    | _ => false
    end.

  (* well-formed arguments: names (ociref / go-digest validity as modelled in Model/Request.v and
     Model/Ref.v), a range a Range header can express, a manifest the server can look into, a blob
     whose descriptor announces its length *)
  Definition wf_op (c : op) : Prop :=
    match c with
    | GetBlob r d | ResolveBlob r d | DeleteBlob r d | GetManifest r d | ResolveManifest r d
    | DeleteManifest r d | Referrers r d _ => vrepo r = true /\ vdigest linked d = true
    | GetBlobRange r d o0 o1 => vrepo r = true /\ vdigest linked d = true /\ expressible o0 o1
    | GetTag r t | ResolveTag r t | DeleteTag r t => vrepo r = true /\ vtag t = true
    | MountBlob f t d => vrepo f = true /\ vrepo t = true /\ vdigest linked d = true
    | PushManifest r t content med =>
        vrepo r = true /\ tag_or_valid_digest linked hash t content /\ med <> []
        /\ subject_from_manifest subject_of med content <> None
    | PushBlob r de data =>
        vrepo r = true /\ vdigest linked (d_digest de) = true /\ d_size de = blen data /\ blen data <= max_int64
    | Tags r st => vrepo r = true /\ byte_list st = true
    | Repositories st => byte_list st = true
    | _ => True
    end.

  (* a reader: the descriptor announces the length, the content hashes to the digest *)
  Definition conf_read (dig : bytes) (v : bval) : Prop :=
    d_size (desc_of v) = blen (data_of v) /\ blen (data_of v) <= max_int64
    /\ content_of hash dig (data_of v).

  Definition omit := o_omit_digest_from_tag_get o.

  (* a conforming successful answer to [bop c] *)
  Definition conf_ok (c : op) (v : bval) : Prop :=
    match c with
    | ResolveBlob _ _ => conf_desc linked (desc_of v)
    | ResolveManifest _ d => conf_desc linked (desc_of v) /\ d_digest (desc_of v) = d /\ d_media (desc_of v) <> []
    | ResolveTag _ _ => conf_desc linked (desc_of v) /\ d_media (desc_of v) <> []
    | GetBlob _ d => conf_read d v /\ d_digest (desc_of v) = d
    | GetManifest _ d => conf_read d v /\ d_digest (desc_of v) = d /\ d_media (desc_of v) <> []
    | GetBlobRange _ d o0 o1 =>
        if whole_range o0 o1 then conf_read d v /\ d_digest (desc_of v) = d
        else int64 (d_size (desc_of v)) /\ o0 <= d_size (desc_of v)
             /\ blen (data_of v) = range_end (d_size (desc_of v)) (server_end o1) - o0
             /\ d_digest (desc_of v) = d
    | GetTag _ _ =>
        vdigest linked (d_digest (desc_of v)) = true /\ conf_read (d_digest (desc_of v)) v
        /\ d_media (desc_of v) <> []
        /\ (omit = true -> blen (data_of v) <= in_mem_threshold ->
            linked SHA256 = true /\ d_digest (desc_of v) = digest_of hash (data_of v))
    | MountBlob _ _ _ => vdigest linked (d_digest (desc_of v)) = true
    | PushManifest _ _ content med =>
        d_digest (desc_of v) = digest_of hash content /\ d_size (desc_of v) = blen content
        /\ d_media (desc_of v) = med
    | Referrers _ _ _ =>
        match iter_err_of v with
        | None => blen (enc (JIndex (descs_of v))) <= max_int64
        | Some e => relayable e /\ descs_of v = []     (* the server drops the items of a failing iterator *)
        end
    | _ => True
    end.

  Definition conf_answer (c : op) (r : bres) : Prop :=
    match r with
    | Ok v => conf_ok c v
    | Err e => relayable e
    | _ => False
    end.

  Definition read_view (dig : bytes) (v : bval) : bval :=
    VRead {| d_media := media_or_octet (d_media (desc_of v)); d_digest := dig;
             d_size := d_size (desc_of v); d_artifact := [] |} (data_of v).

  (* what the caller of the stack gets for the backend's answer *)
  Definition view_ok (c : op) (v : bval) : bval :=
    match c with
    | ResolveBlob _ _ => VDesc (head_desc false (desc_of v))
    | ResolveManifest _ d =>
        VDesc {| d_media := media_or_octet (d_media (desc_of v));
                 d_digest := if omit then d else d_digest (desc_of v);
                 d_size := d_size (desc_of v); d_artifact := [] |}
    | ResolveTag _ _ => VDesc (head_desc true (desc_of v))
    | GetBlob _ d | GetManifest _ d | GetBlobRange _ d _ _ => read_view d v
    | GetTag _ _ =>
        if omit then read_view (digest_of hash (data_of v)) v
        else VRead (head_desc true (desc_of v)) (data_of v)
    | MountBlob _ _ _ =>
        VDesc {| d_media := octet_stream; d_digest := d_digest (desc_of v); d_size := 0; d_artifact := [] |}
    | PushManifest _ _ content med => VDesc (manifest_desc hash content med)
    | Referrers _ _ _ =>
        match iter_err_of v with
        | None => VDescs (descs_of v) None
        | Some e => VDescs [] (Some (werror false e))
        end
    | _ => VUnit
    end.

  Definition view (c : op) (r : bres) : bres :=
    match r with
    | Ok v => Ok (view_ok c v)
    | Err e => match c with
               | Referrers _ _ _ => Ok (VDescs [] (Some (werror false e)))
               | _ => Err (werror (is_head c) e)
               end
    | other => other
    end.

  Definition reads (c : op) : bool :=
    match c with GetBlob _ _ | GetBlobRange _ _ _ _ | GetManifest _ _ | GetTag _ _ => true | _ => false end.

  (* the backend events of the step *)
  Definition events (c : op) (r : bres) : list ev :=
    match r with
    | Ok _ => if reads c then [ECall (bop c) r; ECloseR] else [ECall (bop c) r]
    | _ => [ECall (bop c) r]
    end.

  Hypothesis media_json : media json_ct = json_ct.
  Hypothesis json_errors_rt : forall w, dec_errors (enc (JErr w)) = Some [w].
  Hypothesis json_index_rt : forall l, dec_index (enc (JIndex l)) = Some l.

  Hypothesis no_locs : o_locs o = None.
  Hypothesis bufsz_pos : (1 <= cc_bufsz cc)%nat.

  (* a tag GET whose digest the server omits: this statement is about a body the client keeps
     in memory (the other case is [step_GetTag_large]) *)
  Definition tag_small (c : op) (r : bres) : Prop :=
    match c, r with
    | GetTag _ _, Ok v => omit = true -> blen (data_of v) <= in_mem_threshold
    | _, _ => True
    end.

  Definition referrers_ok (c : op) : Prop :=
    match c with Referrers _ _ _ => o_disable_referrers o = false | _ => True end.

  Ltac finish E Hw :=
    match goal with
    | Hcl : clean ?st |- _ ?st ?c = _ => rewrite (step_of_call st c _ _ _ _ _ eq_refl Hcl E Hw); reflexivity
    end.

  Ltac use T :=
    let w' := fresh "w'" in let E := fresh "E" in let Hw := fresh "Hw" in
    destruct T as (w' & E & Hw);
    [ .. | finish E Hw ].

  Notation TT L := (L linked hash subject_of media enc dec_errors dec_names dec_index redirect B bstep o cc).

  Theorem step_one (st : sstate B) c b' r :
    one_call c = true -> wf_op c -> clean st ->
    bstep (sv_b (st_srv st)) (bop c) = (b', r) -> conf_answer c r -> tag_small c r -> referrers_ok c ->
    stack st c = (stepped st b' (events c r), view c r).
  Proof.
    intros H1 Hwf Hcl Hb Hc Hts referrers_on.
    destruct r as [v|e| |]; cbn [conf_answer] in Hc; try contradiction.
    - (* the backend answers *)
      destruct c as [rp d|rp d o0 o1|rp d|rp t|rp d|rp d|rp t|rp de content|rp hint|rp id off hint|from to d|rp t content med|rp d|rp d|rp t|st0|rp st0|rp d art|h data|h|h|h|h|h d|h]; try discriminate H1; cbn [wf_op bop conf_ok view view_ok events reads is_head tag_small referrers_ok] in *.
      + (* GetBlob *)
        destruct Hwf as (Hr & Hd). destruct Hc as ((Hsz & Hmax & Hco) & Hdd).
        use (TT transparent_GetBlob_ok (start B st) rp d (cc_bufsz cc) b' v no_locs bufsz_pos Hr Hd Hb Hsz Hmax Hco).
      + (* GetBlobRange *)
        destruct Hwf as (Hr & Hd & Hex). unfold whole_range in *.
        destruct ((o0 =? 0) && (o1 <? 0)) eqn:Ew.
        * destruct Hc as ((Hsz & Hmax & Hco) & Hdd).
          apply andb_true_iff in Ew as [E0 E1]. apply Z.eqb_eq in E0. apply Z.ltb_lt in E1. subst o0.
          destruct (TT transparent_GetBlob_ok (start B st) rp d (cc_bufsz cc) b' v no_locs bufsz_pos Hr Hd Hb Hsz Hmax Hco)
            as (w' & E & Hw).
          rewrite <- (TT GetBlobRange_whole_is_GetBlob (start B st) rp d o1 (cc_bufsz cc) E1) in E.
          finish E Hw.
        * destruct Hc as (Hi & Hle & Hlen & Hdd).
          use (TT transparent_GetBlobRange_ok (start B st) rp d o0 o1 (cc_bufsz cc) b' v no_locs bufsz_pos Hr Hd Hex Ew Hb
                  Hi Hle Hlen).
      + (* GetManifest *)
        destruct Hwf as (Hr & Hd). destruct Hc as ((Hsz & Hmax & Hco) & Hdd & _).
        use (TT transparent_GetManifest_ok (start B st) rp d (cc_bufsz cc) b' v bufsz_pos Hr Hd Hb Hdd Hsz Hmax Hco).
      + (* GetTag *)
        destruct Hwf as (Hr & Ht). destruct Hc as (Hvd & (Hsz & Hmax & Hco) & _ & Hom). unfold omit in *.
        destruct (o_omit_digest_from_tag_get o) eqn:Eo.
        * pose proof (Hts eq_refl) as Hth. destruct (Hom eq_refl Hth) as (Hl & _).
          use (TT transparent_GetTag_omitted_small (start B st) rp t (cc_bufsz cc) b' v Eo Hl bufsz_pos Hr Ht Hb Hvd Hsz Hth).
        * use (TT transparent_GetTag_ok (start B st) rp t (cc_bufsz cc) b' v Eo bufsz_pos Hr Ht Hb Hvd Hsz Hmax Hco).
      + (* ResolveBlob *)
        destruct Hwf as (Hr & Hd).
        use (TT transparent_ResolveBlob_ok (start B st) rp d b' v Hr Hd Hb Hc).
      + (* ResolveManifest *)
        destruct Hwf as (Hr & Hd). destruct Hc as (Hc & Hdd & _).
        use (TT transparent_ResolveManifest_ok (start B st) rp d b' v Hr Hd Hb Hc).
      + (* ResolveTag *)
        destruct Hwf as (Hr & Ht). destruct Hc as (Hc & _).
        use (TT transparent_ResolveTag_ok (start B st) rp t b' v Hr Ht Hb Hc).
      + (* MountBlob *)
        destruct Hwf as (Hf & Ht & Hd).
        use (TT transparent_MountBlob_ok (start B st) from to d b' v no_locs Hf Ht Hd Hb Hc).
      + (* PushManifest *)
        destruct Hwf as (Hr & Htd & Hm & Hsj).
        use (TT transparent_PushManifest_ok (start B st) rp t content med b' v no_locs Hm Hr Htd Hsj Hb).
      + (* DeleteBlob *)
        destruct Hwf as (Hr & Hd).
        use (TT transparent_DeleteBlob_ok (start B st) rp d b' v Hr Hd Hb).
      + (* DeleteManifest *)
        destruct Hwf as (Hr & Hd).
        use (TT transparent_DeleteManifest_ok (start B st) rp d b' v Hr Hd Hb).
      + (* DeleteTag *)
        destruct Hwf as (Hr & Ht).
        use (TT transparent_DeleteTag_ok (start B st) rp t b' v Hr Ht Hb).
      + (* Referrers *)
        destruct Hwf as (Hr & Hd). destruct (iter_err_of v) as [e|] eqn:Ei.
        * destruct Hc as ((He & Hlen) & _).
          destruct (TT transparent_Referrers_err media_json json_errors_rt (start B st) rp d art None b' (Ok v) e
                      referrers_on Hr Hd Hb Ei He Hlen) as (w' & E & Hw).
          finish E Hw.
        * destruct (StackListingB.transparent_Referrers_ok linked hash subject_of media enc dec_errors dec_names dec_index
                      redirect B bstep o cc json_index_rt (start B st) rp d art None b' v referrers_on Hr Hd Hb Ei Hc)
            as (w' & E & Hw).
          rewrite yield_all in E. cbn [fst] in E.
          rewrite (step_of_call st (Referrers rp d art) _ _ _ _ _ eq_refl Hcl E Hw).
          cbn [bres_of_outcome descs_res snd fst]. rewrite split_yields_inl. reflexivity.
    - (* the backend refuses *)
      destruct Hc as (He & Hlen).
      destruct c as [rp d|rp d o0 o1|rp d|rp t|rp d|rp d|rp t|rp de content|rp hint|rp id off hint|from to d|rp t content med|rp d|rp d|rp t|st0|rp st0|rp d art|h data|h|h|h|h|h d|h]; try discriminate H1; cbn [wf_op bop view events is_head referrers_ok] in *.
      + destruct Hwf as (Hr & Hd).
        use (TT transparent_GetBlob_err media_json json_errors_rt (start B st) rp d (cc_bufsz cc) b' e no_locs Hr Hd Hb He Hlen).
      + destruct Hwf as (Hr & Hd & Hex). unfold whole_range in *.
        destruct ((o0 =? 0) && (o1 <? 0)) eqn:Ew.
        * apply andb_true_iff in Ew as [E0 E1]. apply Z.eqb_eq in E0. apply Z.ltb_lt in E1. subst o0.
          destruct (TT transparent_GetBlob_err media_json json_errors_rt (start B st) rp d (cc_bufsz cc) b' e no_locs Hr Hd Hb He Hlen)
            as (w' & E & Hw).
          rewrite <- (TT GetBlobRange_whole_is_GetBlob (start B st) rp d o1 (cc_bufsz cc) E1) in E.
          finish E Hw.
        * use (TT transparent_GetBlobRange_err media_json json_errors_rt (start B st) rp d o0 o1 (cc_bufsz cc) b' e no_locs
                  Hr Hd Hex Ew Hb He Hlen).
      + destruct Hwf as (Hr & Hd).
        use (TT transparent_GetManifest_err media_json json_errors_rt (start B st) rp d (cc_bufsz cc) b' e Hr Hd Hb He Hlen).
      + destruct Hwf as (Hr & Ht).
        use (TT transparent_GetTag_err media_json json_errors_rt (start B st) rp t (cc_bufsz cc) b' e Hr Ht Hb He Hlen).
      + destruct Hwf as (Hr & Hd).
        use (TT transparent_ResolveBlob_err media_json json_errors_rt (start B st) rp d b' e Hr Hd Hb He Hlen).
      + destruct Hwf as (Hr & Hd).
        use (TT transparent_ResolveManifest_err media_json json_errors_rt (start B st) rp d b' e Hr Hd Hb He Hlen).
      + destruct Hwf as (Hr & Ht).
        use (TT transparent_ResolveTag_err media_json json_errors_rt (start B st) rp t b' e Hr Ht Hb He Hlen).
      + destruct Hwf as (Hf & Ht & Hd).
        use (TT transparent_MountBlob_err media_json json_errors_rt (start B st) from to d b' e Hf Ht Hd Hb He Hlen).
      + destruct Hwf as (Hr & Htd & Hm & Hsj).
        use (TT transparent_PushManifest_err media_json json_errors_rt (start B st) rp t content med b' e Hm Hr Htd Hsj Hb He Hlen).
      + destruct Hwf as (Hr & Hd).
        use (TT transparent_DeleteBlob_err media_json json_errors_rt (start B st) rp d b' e Hr Hd Hb He Hlen).
      + destruct Hwf as (Hr & Hd).
        use (TT transparent_DeleteManifest_err media_json json_errors_rt (start B st) rp d b' e Hr Hd Hb He Hlen).
      + destruct Hwf as (Hr & Ht).
        use (TT transparent_DeleteTag_err media_json json_errors_rt (start B st) rp t b' e Hr Ht Hb He Hlen).
      + destruct Hwf as (Hr & Hd).
        destruct (TT transparent_Referrers_err media_json json_errors_rt (start B st) rp d art None b' (Err e) e
                    referrers_on Hr Hd Hb eq_refl He Hlen) as (w' & E & Hw).
        finish E Hw.
  Qed.

  (* ---------------------------------------------------------- a tag GET above the in-memory threshold,
     digest omitted: the client asks again with HEAD, the backend sees GetTag then ResolveTag *)

  Lemma step_GetTag_large (st : sstate B) rp t b' v b'' v1 :
    omit = true -> wf_op (GetTag rp t) -> clean st ->
    bstep (sv_b (st_srv st)) (GetTag rp t) = (b', Ok v) ->
    vdigest linked (d_digest (desc_of v)) = true ->
    d_size (desc_of v) = blen (data_of v) -> blen (data_of v) <= max_int64 ->
    in_mem_threshold < blen (data_of v) ->
    bstep b' (ResolveTag rp t) = (b'', Ok v1) ->
    vdigest linked (d_digest (desc_of v1)) = true ->
    d_size (desc_of v1) = blen (data_of v) ->
    content_of hash (d_digest (desc_of v1)) (data_of v) ->
    stack st (GetTag rp t)
    = (stepped st b'' [ECall (GetTag rp t) (Ok v); ECloseR; ECall (ResolveTag rp t) (Ok v1)],
       Ok (VRead (head_desc true (desc_of v1)) (data_of v))).
  Proof.
    intros Hom (Hr & Ht) Hcl Hb Hvd Hsz Hmax Hth Hb1 Hvd1 Hsz1 Hco.
    destruct (TT transparent_GetTag_omitted_large (start B st) rp t (cc_bufsz cc) b' v b'' v1 Hom bufsz_pos Hr Ht Hb Hvd Hsz
                Hmax Hth Hb1 Hvd1 Hsz1 Hco) as (w' & E & Hw).
    rewrite after_after in Hw.
    rewrite (step_of_call st (GetTag rp t) _ _ _ _ _ eq_refl Hcl E Hw). reflexivity.
  Qed.

  (* ---------------------------------------------------------- listings: one backend call per page *)

  Hypothesis json_tags_rt : forall name l, dec_names true (enc (JTags name l)) = Some l.
  Hypothesis json_catalog_rt : forall l, dec_names false (enc (JCatalog l)) = Some l.
  Hypothesis page_ok : page_size_ok o cc.

  Definition list_call (c : op) (st0 : bytes) : op :=
    match c with Tags r _ => Tags r st0 | _ => Repositories st0 end.

  Definition list_doc (c : op) (l : list bytes) : jval :=
    match c with Tags r _ => JTags r l | _ => JCatalog l end.

  Definition list_start (c : op) : bytes :=
    match c with Tags _ s0 => s0 | Repositories s0 => s0 | _ => [] end.

  Definition is_listing (c : op) : bool :=
    match c with Tags _ _ | Repositories _ => true | _ => false end.

  Lemma step_list_ok (st : sstate B) c full :
    is_listing c = true -> wf_op c -> clean st ->
    pages_well B bstep (sv_b (st_srv st)) (list_call c) full ->
    pages_small enc cc (list_doc c) full ->
    (length (full (list_start c)) < cc_fuel cc)%nat ->
    exists starts,
      stack st c = (stepped st (sv_b (st_srv st))
                      (map (fun s0 => ECall (list_call c s0) (Ok (VList (full s0) None))) starts),
                    Ok (VList (full (list_start c)) None)).
  Proof.
    intros Hl Hwf Hcl Hpw Hps Hf.
    destruct c as [rp d|rp d o0 o1|rp d|rp t|rp d|rp d|rp t|rp de content|rp hint|rp id off hint|from to d|rp t content med|rp d|rp d|rp t|st0|rp st0|rp d art|h data|h|h|h|h|h d|h];
      try discriminate Hl; cbn [wf_op list_call list_doc list_start] in *.
    - destruct (StackListingB.transparent_Repositories_ok linked hash subject_of media enc dec_errors dec_names dec_index
                  redirect B bstep o cc json_catalog_rt (start B st) st0 full Hwf page_ok Hpw Hps Hf)
        as (w' & E & starts & Hw).
      exists starts. rewrite (step_of_call st (Repositories st0) _ _ _ _ _ eq_refl Hcl E Hw).
      cbn [bres_of_outcome names_res snd fst]. rewrite split_yields_inl. reflexivity.
    - destruct Hwf as (Hr & Hbs).
      destruct (StackListingB.transparent_Tags_ok linked hash subject_of media enc dec_errors dec_names dec_index
                  redirect B bstep o cc json_tags_rt (start B st) rp st0 full Hr Hbs page_ok Hpw Hps Hf)
        as (w' & E & starts & Hw).
      exists starts. rewrite (step_of_call st (Tags rp st0) _ _ _ _ _ eq_refl Hcl E Hw).
      cbn [bres_of_outcome names_res snd fst]. rewrite split_yields_inl. reflexivity.
  Qed.

  Lemma step_list_err (st : sstate B) c b' a e :
    is_listing c = true -> wf_op c -> clean st -> (1 <= cc_fuel cc)%nat ->
    bstep (sv_b (st_srv st)) c = (b', a) -> first_error a = Some e -> relayable e ->
    stack st c = (stepped st b' [ECall c a], Ok (VList [] (Some (werror false e)))).
  Proof.
    intros Hl Hwf Hcl Hfu Hb Hfe (He & Hlen).
    destruct c as [rp d|rp d o0 o1|rp d|rp t|rp d|rp d|rp t|rp de content|rp hint|rp id off hint|from to d|rp t content med|rp d|rp d|rp t|st0|rp st0|rp d art|h data|h|h|h|h|h d|h];
      try discriminate Hl; cbn [wf_op] in *.
    - destruct (TT transparent_Repositories_err media_json json_errors_rt (start B st) st0 b' a e Hwf page_ok Hfu Hb Hfe He Hlen)
        as (w' & E & Hw).
      rewrite (step_of_call st (Repositories st0) _ _ _ _ _ eq_refl Hcl E Hw). reflexivity.
    - destruct Hwf as (Hr & Hbs).
      destruct (TT transparent_Tags_err media_json json_errors_rt (start B st) rp st0 b' a e Hr Hbs page_ok Hfu Hb Hfe He Hlen)
        as (w' & E & Hw).
      rewrite (step_of_call st (Tags rp st0) _ _ _ _ _ eq_refl Hcl E Hw). reflexivity.
  Qed.

  (* ---------------------------------------------------------- PushBlob: an upload session *)

  (* the backend calls of PushBlob for a non-empty content *)
  Lemma step_PushBlob (st : sstate B) rp d data b1 b2 b3 b4 b5 b6 b7 b8 vw vid vcs rc vw2 vn vd rc2 :
    wf_op (PushBlob rp d data) -> clean st -> 1 <= blen data ->
    bstep (sv_b (st_srv st)) (PushBlobChunked rp 0) = (b1, Ok vw) ->
    bstep b1 (WID (wid_of vw)) = (b2, Ok vid) -> good_upload_id (str_of vid) ->
    bstep b2 (WChunkSize (wid_of vw)) = (b3, Ok vcs) ->
    bstep b3 (WClose (wid_of vw)) = (b4, rc) -> rc <> Panic -> rc <> OutOfFuel ->
    bstep b4 (PushBlobChunkedResume rp (str_of vid) 0 (blen data)) = (b5, Ok vw2) ->
    bstep b5 (WWrite (wid_of vw2) data) = (b6, Ok vn) -> n_of vn = blen data ->
    bstep b6 (WCommit (wid_of vw2) (d_digest d)) = (b7, Ok vd) ->
    bstep b7 (WClose (wid_of vw2)) = (b8, rc2) -> rc2 <> Panic -> rc2 <> OutOfFuel ->
    stack st (PushBlob rp d data)
    = (stepped st b8
         [ECall (PushBlobChunked rp 0) (Ok vw); ECall (WID (wid_of vw)) (Ok vid);
          ECall (WChunkSize (wid_of vw)) (Ok vcs); ECall (WClose (wid_of vw)) rc;
          ECall (PushBlobChunkedResume rp (str_of vid) 0 (blen data)) (Ok vw2);
          ECall (WWrite (wid_of vw2) data) (Ok vn);
          ECall (WCommit (wid_of vw2) (d_digest d)) (Ok vd); ECall (WClose (wid_of vw2)) rc2],
       Ok (VDesc d)).
  Proof.
    intros (Hr & Hd & Hsz & Hmax) Hcl Hpos H1 H2 Hid H3 H4 Hc1 Hc2 H5 H6 Hn H7 H8 Hc3 Hc4.
    destruct (TT transparent_PushBlob_ok (start B st) rp d data b1 b2 b3 b4 b5 b6 b7 b8 vw vid vcs rc vw2 vn vd rc2
                no_locs Hr Hd Hsz (conj Hpos Hmax) H1 H2 Hid H3 H4 Hc1 Hc2 H5 H6 Hn H7 H8 Hc3 Hc4) as (w' & E & Hw).
    rewrite after_after in Hw.
    rewrite (step_of_call st (PushBlob rp d data) _ _ _ _ _ eq_refl Hcl E Hw). reflexivity.
  Qed.

  (* the backend calls of PushBlob for the empty content: no Write *)
  Lemma step_PushBlob_empty (st : sstate B) rp d b1 b2 b3 b4 b5 b7 b8 vw vid vcs rc vw2 vd rc2 :
    wf_op (PushBlob rp d []) -> clean st ->
    bstep (sv_b (st_srv st)) (PushBlobChunked rp 0) = (b1, Ok vw) ->
    bstep b1 (WID (wid_of vw)) = (b2, Ok vid) -> good_upload_id (str_of vid) ->
    bstep b2 (WChunkSize (wid_of vw)) = (b3, Ok vcs) ->
    bstep b3 (WClose (wid_of vw)) = (b4, rc) -> rc <> Panic -> rc <> OutOfFuel ->
    bstep b4 (PushBlobChunkedResume rp (str_of vid) 0 0) = (b5, Ok vw2) ->
    bstep b5 (WCommit (wid_of vw2) (d_digest d)) = (b7, Ok vd) ->
    bstep b7 (WClose (wid_of vw2)) = (b8, rc2) -> rc2 <> Panic -> rc2 <> OutOfFuel ->
    stack st (PushBlob rp d [])
    = (stepped st b8
         [ECall (PushBlobChunked rp 0) (Ok vw); ECall (WID (wid_of vw)) (Ok vid);
          ECall (WChunkSize (wid_of vw)) (Ok vcs); ECall (WClose (wid_of vw)) rc;
          ECall (PushBlobChunkedResume rp (str_of vid) 0 0) (Ok vw2);
          ECall (WCommit (wid_of vw2) (d_digest d)) (Ok vd); ECall (WClose (wid_of vw2)) rc2],
       Ok (VDesc d)).
  Proof.
    intros (Hr & Hd & Hsz & Hmax) Hcl H1 H2 Hid H3 H4 Hc1 Hc2 H5 H7 H8 Hc3 Hc4.
    destruct (TT transparent_PushBlob_empty (start B st) rp d b1 b2 b3 b4 b5 b7 b8 vw vid vcs rc vw2 vd rc2
                no_locs Hr Hd Hsz H1 H2 Hid H3 H4 Hc1 Hc2 H5 H7 H8 Hc3 Hc4) as (w' & E & Hw).
    rewrite after_after in Hw.
    rewrite (step_of_call st (PushBlob rp d []) _ _ _ _ _ eq_refl Hcl E Hw). reflexivity.
  Qed.

End Step.
