(* The lock structure the C08 theorems are about is the one extracted from the Go source.
   Generated/MemSections.v is rewritten by harness/extract on every run of ./check C08,
   so this file is re-checked whenever ociregistry/ocimem/*.go changes its lock structure. *)
From Coq Require Import String.
From OCI Require Import Model.Conc Generated.MemSections.

Lemma structure_matches : table_eq MemSections.table Conc.structure = true.
Proof. vm_compute. reflexivity. Qed.
