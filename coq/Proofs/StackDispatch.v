(* C03 (a): the handler table of ociserver maps every routed request to exactly the backend calls
   of [dispatch_table] (Model/Stack.v), for every backend, option set, header set and body; every
   call carries the request's own names. *)
From Coq Require Import String.
From OCI Require Import Model.Stack Proofs.Request.

Local Open Scope Z_scope.

(* ---------------------------------------------------------------- running a plan, with its flag *)

Fixpoint run_plan_f {B} (bstep : backend B) (b : B) (p : plan) : B * list (op * bres) * bool :=
  match p with
  | PEnd f => (b, [], f)
  | PCall c k =>
      let '(b1, r) := bstep b c in
      let '(b2, l, f) := run_plan_f bstep b1 (k r) in
      (b2, (c, r) :: l, f)
  end.

Lemma run_plan_f_fst {B} (bstep : backend B) p : forall b,
  run_plan bstep b p = fst (run_plan_f bstep b p).
Proof.
  induction p as [f|c k IH]; intros b; cbn; [reflexivity|].
  destruct (bstep b c) as [b1 r]. rewrite IH. destruct (run_plan_f bstep b1 (k r)) as [[b2 l] f]. reflexivity.
Qed.

Lemma run_then {B} (bstep : backend B) q p : forall b,
  run_plan_f bstep b (then_ p q) =
  let '(b1, l1, f1) := run_plan_f bstep b p in
  if f1 then (b1, l1, true)
  else let '(b2, l2, f2) := run_plan_f bstep b1 q in (b2, l1 ++ l2, f2).
Proof.
  induction p as [f|c k IH]; intros b.
  - destruct f; cbn; [reflexivity|]. destruct (run_plan_f bstep b q) as [[b2 l2] f2]. reflexivity.
  - cbn. destruct (bstep b c) as [b1 r]. rewrite IH.
    destruct (run_plan_f bstep b1 (k r)) as [[b2 l] f]. destruct f; [reflexivity|].
    destruct (run_plan_f bstep b2 q) as [[b3 l3] f3]. reflexivity.
Qed.

Lemma calls_of_app a b : calls_of (a ++ b) = calls_of a ++ calls_of b.
Proof. induction a as [|[c r| |m d] a IH]; cbn; rewrite ?IH; reflexivity. Qed.

Lemma calls_of_rev tr : calls_of (rev tr) = rev (calls_of tr).
Proof.
  induction tr as [|e tr IH]; [reflexivity|]. cbn [rev]. rewrite calls_of_app, IH.
  destruct e; cbn; rewrite ?app_nil_r; reflexivity.
Qed.

Definition is_fuel {E A} (r : R E A) : bool := match r with OutOfFuel => true | _ => false end.

Section Dispatch.
  Variable linked : alg -> bool.
  Variable digest_of : bytes -> bytes.
  Variable subject_of : bytes -> option (option bytes).
  Variable enc : jval -> bytes.
  Variable redirect : bytes -> bytes -> bytes * bytes.
  Variable B : Type.
  Variable bstep : backend B.
  Variable o : opts.

  Notation hst := (hst B).

  (* what a handler did, against what a plan says: final backend state, the calls (most
     recent first, on top of the earlier ones), whether it stopped for lack of fuel *)
  Definition sim (st : hst) (x : hst * R gerr unit) (p : plan) : Prop :=
    (h_b (fst x), calls_of (h_tr (fst x)), is_fuel (snd x))
    = (let '(b', l, f) := run_plan_f bstep (h_b st) p in (b', rev l ++ calls_of (h_tr st), f)).

  Ltac bcall :=
    match goal with
    | |- context [bstep ?b ?c] =>
        let b' := fresh "b" in let v := fresh "v" in let e := fresh "e" in
        destruct (bstep b c) as [b' [v|e| |]]
    end.

  Ltac rd :=
    cbn [run_plan_f then_ p_one p_last p_close end_of fst snd h_b h_tr h_w call log upd_w set_hdr write_header
         write_body calls_of is_fuel as_desc as_read as_writer as_unit as_n as_str as_list as_descs as_val
         rev app defer_close negb].

  Ltac rdin H :=
    cbn [run_plan_f then_ p_one p_last p_close end_of fst snd h_b h_tr h_w call log upd_w set_hdr write_header
         write_body calls_of is_fuel as_desc as_read as_writer as_unit as_n as_str as_list as_descs as_val
         rev app defer_close negb] in H.

  Ltac leaf := rd; try reflexivity.

  Ltac start H := intros st; unfold sim, H, call; rd.

  Lemma sim_defer st x p w : sim st x p -> sim st (defer_close B bstep w x) (then_ p (p_close w)).
  Proof.
    unfold sim. destruct x as [st1 res]. rewrite run_then.
    destruct (run_plan_f bstep (h_b st) p) as [[b1 l1] f1]. cbn [fst snd]. intros H.
    injection H as Hb Hc Hf. unfold defer_close.
    destruct res; cbn in Hf; subst f1; cbn [is_fuel]; try (rewrite <- Hb, <- Hc; reflexivity);
      unfold call; rd; rewrite Hb; bcall; rd; rewrite Hc, rev_app_distr; reflexivity.
  Qed.

  Lemma sim_location st repo w k K :
    (forall st1, sim st1 (k st1) K) ->
    sim st (with_upload_location linked B bstep st repo w k) (p_location linked repo w K).
  Proof.
    intros HK. unfold sim, with_upload_location, p_location, call. rd.
    bcall; rd; try reflexivity.
    - destruct (location_for_upload_id linked repo (str_of v)) as [loc|?| |]; rd; try reflexivity.
      match goal with |- context [k ?s] => specialize (HK s) end. unfold sim in HK. rewrite HK. rd.
      destruct (run_plan_f bstep b K) as [[b2 l] f]. rd. rewrite <- app_assoc. reflexivity.
    - destruct (location_for_upload_id linked repo []) as [loc|?| |]; rd; try reflexivity.
      match goal with |- context [k ?s] => specialize (HK s) end. unfold sim in HK. rewrite HK. rd.
      destruct (run_plan_f bstep b K) as [[b2 l] f]. rd. rewrite <- app_assoc. reflexivity.
  Qed.

  Lemma sim_last_n st c (f : hst -> Z -> hst * R gerr unit) :
    (forall s n, h_b (fst (f s n)) = h_b s /\ h_tr (fst (f s n)) = h_tr s /\ is_fuel (snd (f s n)) = false) ->
    sim st (let '(s, rc) := call B bstep st c in
            match as_n rc with
            | Ok n => f s n
            | Err e => (s, Err e)
            | Panic => (s, Panic)
            | OutOfFuel => (s, OutOfFuel)
            end) (p_last c as_n).
  Proof.
    intros Hf. unfold sim, call, p_last. rd. bcall; rd; try reflexivity.
    - destruct (Hf (mkst b (ECall c (Ok v) :: h_tr st) (h_w st)) (n_of v)) as (H1 & H2 & H3).
      rewrite H1, H2, H3. reflexivity.
    - destruct (Hf (mkst b (ECall c (Err e) :: h_tr st) (h_w st)) 0) as (H1 & H2 & H3).
      rewrite H1, H2, H3. reflexivity.
  Qed.

  Ltac sloc :=
    unfold set_location_header, p_locs; rd;
    destruct (o_locs o) as [?f|]; rd; try reflexivity;
    try match goal with
        | |- context [match ?f ?m ?d with _ => _ end] => destruct (f m d) as [[|? ?]|?| |]
        end; rd; try reflexivity.

  Lemma sim_blob_head st r : sim st (handle_blob_head B bstep st r) (p_one (ResolveBlob (q_repo r) (q_digest r))).
  Proof. revert st. start handle_blob_head. bcall; leaf. Qed.

  Lemma sim_blob_delete st r : sim st (handle_blob_delete B bstep st r) (p_one (DeleteBlob (q_repo r) (q_digest r))).
  Proof. revert st. start handle_blob_delete. bcall; leaf. Qed.

  Lemma sim_blob_get_body st req r :
    sim st (handle_blob_get_body B bstep st req r) (p_blob_get_body req r).
  Proof.
    revert st. start handle_blob_get_body. unfold p_blob_get_body.
    destruct (parse_range_header (hq_range req)) as [[|[s0 e0] [|? ?]]|[]| |]; rd; try reflexivity.
    - bcall; leaf.
    - bcall; rd; try reflexivity.
      destruct (d_size (desc_of v) <? s0); rd; [reflexivity|].
      destruct ((if (e0 =? -1) || (d_size (desc_of v) <? e0) then d_size (desc_of v) else e0) <? s0); rd; reflexivity.
  Qed.

  Lemma sim_blob_get st req r :
    sim st (handle_blob_get redirect B bstep o st req r)
        (match o_locs o with
         | None => p_blob_get_body req r
         | Some f =>
             PCall (ResolveBlob (q_repo r) (q_digest r)) (fun a =>
               match as_desc a with
               | Ok d => match f false d with
                         | Ok [] => p_blob_get_body req r
                         | other => end_of other
                         end
               | other => end_of other
               end)
         end).
  Proof.
    unfold handle_blob_get. destruct (o_locs o) as [f|]; [|apply sim_blob_get_body].
    unfold sim, call. rd. bcall; rd; try reflexivity.
    destruct (f false (desc_of v)) as [[|l0 ls]|?| |]; rd; try reflexivity.
    - match goal with |- context [handle_blob_get_body B bstep ?s req r] =>
        pose proof (sim_blob_get_body s req r) as H end.
      unfold sim in H. rewrite H. rd. destruct (run_plan_f bstep b (p_blob_get_body req r)) as [[b2 l] fl].
      rd. rewrite <- app_assoc. reflexivity.
    - destruct (redirect (hq_path req) l0) as [loc body]. rd.
      match goal with |- context [match ?x with Some _ => _ | None => _ end] => destruct x end; rd; reflexivity.
  Qed.

  Lemma sim_manifest_get st r :
    sim st (handle_manifest_get B bstep o st r)
        (match q_tag r with
         | _ :: _ => p_one (GetTag (q_repo r) (q_tag r))
         | [] => p_one (GetManifest (q_repo r) (q_digest r))
         end).
  Proof.
    revert st. start handle_manifest_get.
    destruct (q_tag r); rd; bcall; rd; try reflexivity; destruct (o_omit_digest_from_tag_get o); rd; reflexivity.
  Qed.

  Lemma sim_manifest_head st r :
    sim st (handle_manifest_head B bstep o st r)
        (match q_tag r with
         | _ :: _ => p_one (ResolveTag (q_repo r) (q_tag r))
         | [] => p_one (ResolveManifest (q_repo r) (q_digest r))
         end).
  Proof.
    revert st. start handle_manifest_head.
    destruct (q_tag r); rd; bcall; rd; try reflexivity; destruct (o_omit_digest_from_tag_get o); rd; reflexivity.
  Qed.

  Lemma sim_manifest_delete st r :
    sim st (handle_manifest_delete B bstep st r)
        (match q_tag r with
         | _ :: _ => p_one (DeleteTag (q_repo r) (q_tag r))
         | [] => p_one (DeleteManifest (q_repo r) (q_digest r))
         end).
  Proof. revert st. start handle_manifest_delete. destruct (q_tag r); rd; bcall; leaf. Qed.

  Lemma sim_blob_mount st r :
    sim st (handle_blob_mount B bstep o st r)
        (PCall (MountBlob (q_from r) (q_repo r) (q_digest r))
               (fun a => match as_desc a with Ok d => p_locs o true d | other => end_of other end)).
  Proof.
    revert st. start handle_blob_mount. unfold p_locs. bcall; rd; try reflexivity.
    unfold set_location_header. destruct (o_locs o) as [f|]; rd; [|reflexivity].
    destruct (f true (desc_of v)) as [[|? ?]|?| |]; rd; reflexivity.
  Qed.

  Lemma sim_start_upload st r :
    sim st (handle_blob_start_upload linked B bstep st r) (p_start_upload linked (q_repo r)).
  Proof.
    unfold handle_blob_start_upload, p_start_upload.
    unfold sim at 1. unfold call. rd. bcall; rd; try reflexivity.
    match goal with |- context [defer_close B bstep ?w ?x] =>
      match x with with_upload_location _ _ _ ?s _ _ _ =>
        pose proof (sim_defer s x (p_location linked (q_repo r) w (p_last (WChunkSize w) as_n)) w) as H
      end end.
    unfold sim in H at 2. rewrite H; clear H.
    - rd. match goal with |- context [run_plan_f bstep b ?p] => destruct (run_plan_f bstep b p) as [[b2 l] fl] end.
      rd. rewrite <- app_assoc. reflexivity.
    - apply sim_location. intros st1.
      apply (sim_last_n (set_hdr B H_range (s "0-0") st1) (WChunkSize (wid_of v))
               (fun s n => (write_header B 202 (set_hdr B H_chunk_min (dec_Z n) s), Ok tt))).
      intros s0 n. rd. auto.
  Qed.

  Lemma sim_upload_info st r :
    sim st (handle_blob_upload_info linked B bstep st r)
        (PCall (PushBlobChunkedResume (q_repo r) (q_upload r) (-1) 0) (fun a =>
           match as_writer a with
           | Ok w => then_ (p_location linked (q_repo r) w (p_last (WSize w) as_n)) (p_close w)
           | other => end_of other
           end)).
  Proof.
    unfold handle_blob_upload_info.
    unfold sim at 1. unfold call. rd. bcall; rd; try reflexivity.
    match goal with |- context [defer_close B bstep ?w ?x] =>
      match x with with_upload_location _ _ _ ?s _ _ _ =>
        pose proof (sim_defer s x (p_location linked (q_repo r) w (p_last (WSize w) as_n)) w) as H
      end end.
    unfold sim in H at 2. rewrite H; clear H.
    - rd. match goal with |- context [run_plan_f bstep b ?p] => destruct (run_plan_f bstep b p) as [[b2 l] fl] end.
      rd. rewrite <- app_assoc. reflexivity.
    - apply sim_location. intros st1.
      apply (sim_last_n st1 (WSize (wid_of v))
               (fun s n => (write_header B 204 (set_hdr B H_range (range_string 0 n) s), Ok tt))).
      intros s0 n. rd. auto.
  Qed.

  (* the upload-location tail shared by the PATCH handler *)
  Lemma sim_loc_size st repo w :
    sim st (with_upload_location linked B bstep st repo w (fun st =>
              let '(st, rs) := call B bstep st (WSize w) in
              match as_n rs with
              | Ok n => let st := set_hdr B H_range (range_string 0 n) st in (write_header B 202 st, Ok tt)
              | Err e => (st, Err e)
              | Panic => (st, Panic)
              | OutOfFuel => (st, OutOfFuel)
              end))
        (p_location linked repo w (p_last (WSize w) as_n)).
  Proof.
    apply sim_location. intros st1.
    apply (sim_last_n st1 (WSize w)
             (fun s n => (write_header B 202 (set_hdr B H_range (range_string 0 n) s), Ok tt))).
    intros s0 n. rd. auto.
  Qed.

  Ltac use_sim L :=
    let H := fresh "H" in pose proof L as H; unfold sim, call in H; rdin H; rewrite H; clear H; rd;
    match goal with |- context [run_plan_f bstep ?b ?p] => destruct (run_plan_f bstep b p) as [[?b2 ?l] ?fl] end;
    rd; rewrite <- ?app_assoc; try reflexivity.

  Lemma sim_upload_chunk st req r :
    sim st (handle_blob_upload_chunk linked B bstep st req r)
        (match chunk_range req with
         | Ok (start, end_) =>
             PCall (PushBlobChunkedResume (q_repo r) (q_upload r) start (wrap64 (end_ - start))) (fun a =>
               match as_writer a with
               | Ok w =>
                   p_copy w (hq_body req) (fun copied =>
                     if copied then
                       PCall (WClose w) (fun c =>
                         match as_unit c with
                         | Ok _ => p_location linked (q_repo r) w (p_last (WSize w) as_n)
                         | other => end_of other
                         end)
                     else p_close w)
               | other => end_of other
               end)
         | other => end_of other
         end).
  Proof.
    unfold handle_blob_upload_chunk.
    destruct (chunk_range req) as [[start end_]|e| |]; try (unfold sim; rd; reflexivity).
    unfold sim at 1. unfold call. rd. bcall; rd; try reflexivity.
    unfold copy_body, p_copy, call. destruct (hq_body req) as [|c0 body]; rd.
    - bcall; rd; try reflexivity.
      match goal with |- context [with_upload_location linked B bstep ?s ?rp ?w _] =>
        use_sim (sim_loc_size s rp w) end.
    - bcall; rd; try reflexivity.
      + destruct (n_of v0 =? blen (c0 :: body)); rd.
        * bcall; rd; try reflexivity;
          match goal with |- context [with_upload_location linked B bstep ?s ?rp ?w _] =>
            use_sim (sim_loc_size s rp w) end.
        * bcall; rd; reflexivity.
      + bcall; rd; reflexivity.
  Qed.

  Lemma sim_complete_upload st req r :
    sim st (handle_blob_complete_upload B bstep o st req r)
        (match chunk_range req with
         | Ok (start, end_) =>
             PCall (PushBlobChunkedResume (q_repo r) (q_upload r) start (wrap64 (end_ - start))) (fun a =>
               match as_writer a with
               | Ok w =>
                   then_ (p_copy w (hq_body req) (fun copied =>
                            if copied then
                              PCall (WCommit w (q_digest r)) (fun c =>
                                match as_desc c with Ok d => p_locs o false d | other => end_of other end)
                            else PEnd false))
                         (p_close w)
               | other => end_of other
               end)
         | other => end_of other
         end).
  Proof.
    unfold handle_blob_complete_upload.
    destruct (chunk_range req) as [[start end_]|e| |]; try (unfold sim; rd; reflexivity).
    unfold sim at 1. unfold call. rd. bcall; rd; try reflexivity.
    match goal with |- context [defer_close B bstep ?w ?x] =>
      match goal with |- context [then_ ?p (p_close w)] =>
        pose proof (sim_defer {| h_b := b; h_tr := ECall (PushBlobChunkedResume (q_repo r) (q_upload r) start (wrap64 (end_ - start))) (Ok v) :: h_tr st; h_w := h_w st |} x p w) as H
      end end.
    unfold sim in H at 2. rewrite H; clear H.
    - rd. match goal with |- context [run_plan_f bstep b ?p] => destruct (run_plan_f bstep b p) as [[b2 l] fl] end.
      rd. rewrite <- app_assoc. reflexivity.
    - unfold sim, copy_body, p_copy, p_locs, call. destruct (hq_body req) as [|c0 body]; rd.
      + bcall; rd; try reflexivity. sloc.
      + bcall; rd; try reflexivity.
        destruct (n_of v0 =? blen (c0 :: body)); rd; [|reflexivity].
        bcall; rd; try reflexivity. sloc.
  Qed.

  Lemma sim_upload_blob st req r :
    sim st (handle_blob_upload_blob linked B bstep o st req r)
        (if o_disable_single_post o then p_start_upload linked (q_repo r)
         else PCall (PushBlob (q_repo r)
                       {| d_media := media_octet_stream; d_digest := q_digest r; d_size := hq_clen req;
                          d_artifact := [] |} (hq_body req))
                    (fun a => match as_desc a with Ok d => p_locs o false d | other => end_of other end)).
  Proof.
    unfold handle_blob_upload_blob. destruct (o_disable_single_post o); [apply sim_start_upload|].
    unfold sim, call, p_locs. rd. bcall; rd; try reflexivity. sloc.
  Qed.

  Lemma sim_manifest_put st req r :
    sim st (handle_manifest_put digest_of subject_of B bstep o st req r)
        (let data := hq_body req in
         let media := match hq_ctype req with [] => media_octet_stream | m => m end in
         let digest_ok := match q_tag r with _ :: _ => true | [] => beqb (q_digest r) (digest_of data) end in
         if negb digest_ok then PEnd false
         else match subject_from_manifest subject_of (hq_ctype req) data with
              | None => PEnd false
              | Some _ =>
                  PCall (PushManifest (q_repo r) (q_tag r) data media)
                        (fun a => match as_desc a with Ok d => p_locs o false d | other => end_of other end)
              end).
  Proof.
    unfold handle_manifest_put, sim, call. cbv zeta.
    destruct (q_tag r) as [|t0 tg]; [destruct (beqb (q_digest r) (digest_of (hq_body req)))|]; rd; try reflexivity.
    all: destruct (subject_from_manifest subject_of (hq_ctype req) (hq_body req)) as [sj|]; rd; try reflexivity.
    all: bcall; rd; try reflexivity.
    all: sloc.
    all: destruct sj; rd; reflexivity.
  Qed.

  Lemma sim_list_response st j link ct : sim st (list_response enc B st j link ct) (PEnd false).
  Proof. unfold sim, list_response. destruct link, ct; rd; reflexivity. Qed.

  Lemma next_list_results_fuel req r it : is_fuel (next_list_results o req r it) = false.
  Proof.
    unfold next_list_results. destruct ((0 <? o_max_list_page_size o) && (o_max_list_page_size o <? q_listn r)); [reflexivity|].
    destruct it as [l e]. destruct (next_items (q_listn r) l []) as [items tr].
    destruct (if tr then None else e); [reflexivity|].
    destruct (tr && negb (o_omit_link o)); [|reflexivity]. destruct (rev items); reflexivity.
  Qed.

  Lemma sim_tags_list st req r :
    sim st (handle_tags_list enc B bstep o st req r) (p_one (Tags (q_repo r) (Request.q_last r))).
  Proof.
    unfold handle_tags_list, sim, call. rd. bcall; rd; try reflexivity;
      match goal with |- context [next_list_results o req r ?it] =>
        pose proof (next_list_results_fuel req r it) as Hf;
        destruct (next_list_results o req r it) as [[tags link]|?| |] end;
      try discriminate Hf; rd; try reflexivity;
      match goal with |- context [list_response enc B ?s ?j ?l ?c] => pose proof (sim_list_response s j l c) as H end;
      unfold sim in H; rdin H; rewrite H; reflexivity.
  Qed.

  Lemma sim_catalog_list st req r :
    sim st (handle_catalog_list enc B bstep o st req r) (p_one (Repositories (Request.q_last r))).
  Proof.
    unfold handle_catalog_list, sim, call. rd. bcall; rd; try reflexivity;
      match goal with |- context [next_list_results o req r ?it] =>
        pose proof (next_list_results_fuel req r it) as Hf;
        destruct (next_list_results o req r it) as [[tags link]|?| |] end;
      try discriminate Hf; rd; try reflexivity;
      match goal with |- context [list_response enc B ?s ?j ?l ?c] => pose proof (sim_list_response s j l c) as H end;
      unfold sim in H; rdin H; rewrite H; reflexivity.
  Qed.

  Lemma sim_referrers_list st r :
    sim st (handle_referrers_list enc B bstep o st r)
        (if o_disable_referrers o then PEnd false else p_one (Referrers (q_repo r) (q_digest r) [])).
  Proof.
    unfold handle_referrers_list. destruct (o_disable_referrers o); [unfold sim; rd; reflexivity|].
    unfold sim, call. rd. bcall; rd; try reflexivity.
    - destruct (iter_err_of v); rd; [reflexivity|].
      match goal with |- context [list_response enc B ?s ?j ?l ?c] => pose proof (sim_list_response s j l c) as H end.
      unfold sim in H; rdin H; rewrite H; reflexivity.
  Qed.

  Lemma sim_dispatch st req r :
    sim st (Server.dispatch linked digest_of subject_of enc redirect B bstep o st req r)
        (dispatch_table linked digest_of subject_of o req r).
  Proof.
    unfold Server.dispatch, dispatch_table. destruct (Request.q_kind r).
    - unfold sim. rd. reflexivity.
    - apply sim_blob_get.
    - apply sim_blob_head.
    - apply sim_blob_delete.
    - apply sim_start_upload.
    - apply sim_upload_blob.
    - apply sim_blob_mount.
    - apply sim_upload_info.
    - apply sim_upload_chunk.
    - apply sim_complete_upload.
    - apply sim_manifest_get.
    - apply sim_manifest_head.
    - apply sim_manifest_put.
    - apply sim_manifest_delete.
    - apply sim_tags_list.
    - apply sim_referrers_list.
    - apply sim_catalog_list.
  Qed.

  (* C03 (a).  For every request the router accepts, every header set and body, every backend
     and option set: the backend state after ServeHTTP and the backend calls in its trace are
     exactly those of the dispatch table run against that backend. *)
  Theorem dispatch b req r :
    parse_req linked (hq_method req) (hq_path req) (hq_rawquery req) = Ok r ->
    let '(b', tr, _) := handle linked digest_of subject_of enc redirect B bstep o b req in
    (b', calls_of tr) = run_plan bstep b (dispatch_table linked digest_of subject_of o req r).
  Proof.
    intros Hp. unfold handle, v2. rewrite Hp.
    pose proof (sim_dispatch (mkst b [] rw0) req r) as H. unfold sim in H.
    destruct (Server.dispatch linked digest_of subject_of enc redirect B bstep o (mkst b [] rw0) req r) as [st res].
    rewrite run_plan_f_fst. cbn [fst snd h_b h_tr calls_of] in H.
    destruct (run_plan_f bstep b (dispatch_table linked digest_of subject_of o req r)) as [[b' l] f].
    rewrite app_nil_r in H. injection H as Hb Hc _. cbn [fst].
    assert (Hrev : calls_of (rev (h_tr st)) = l) by (rewrite calls_of_rev, Hc; apply rev_involutive).
    destruct res as [[]|e| |]; try (rewrite Hb, Hrev; reflexivity).
    unfold write_error. destruct (serve_error go_sprefix go_cprefix e) as [wr|?| |];
      cbn [fst snd h_b h_tr set_hdr write_header write_body upd_w]; rewrite Hb, Hrev; reflexivity.
  Qed.

  (* a request the router refuses reaches no backend method *)
  Theorem dispatch_refused b req :
    (forall r, parse_req linked (hq_method req) (hq_path req) (hq_rawquery req) <> Ok r) ->
    let '(b', tr, _) := handle linked digest_of subject_of enc redirect B bstep o b req in
    b' = b /\ tr = [].
  Proof.
    intros Hp. unfold handle, v2.
    destruct (parse_req linked (hq_method req) (hq_path req) (hq_rawquery req)) as [r|e| |];
      [exfalso; eapply Hp; reflexivity| | |]; cbn [fst snd h_b h_tr set_hdr upd_w]; try (split; reflexivity).
    unfold write_error. destruct (serve_error go_sprefix go_cprefix _) as [wr|?| |];
      cbn [fst snd h_b h_tr set_hdr write_header write_body upd_w rev]; split; reflexivity.
  Qed.

  (* ---------------------------------------------------------- every call carries the request's names *)

  Fixpoint plan_ok (P : op -> bool) (p : plan) : Prop :=
    match p with
    | PEnd _ => True
    | PCall c k => P c = true /\ forall r, plan_ok P (k r)
    end.

  Lemma plan_ok_run P p : forall b, plan_ok P p -> Forall (fun cr => P (fst cr) = true) (snd (run_plan bstep b p)).
  Proof.
    induction p as [f|c k IH]; intros b Hp; cbn; [constructor|].
    destruct Hp as [Hc Hk]. destruct (bstep b c) as [b1 r].
    specialize (IH r b1 (Hk r)). destruct (run_plan bstep b1 (k r)) as [b2 l]. constructor; assumption.
  Qed.

  Lemma plan_ok_then P p q : plan_ok P p -> plan_ok P q -> plan_ok P (then_ p q).
  Proof.
    induction p as [f|c k IH]; intros Hp Hq; cbn.
    - destruct f; [exact I | exact Hq].
    - destruct Hp as [Hc Hk]. split; [exact Hc|]. intros r. apply IH; auto.
  Qed.

  Lemma plan_ok_end P {E A} (x : R E A) : plan_ok P (end_of x).
  Proof. destruct x; exact I. Qed.

  Lemma plan_ok_one P c : P c = true -> plan_ok P (p_one c).
  Proof. intros H. split; [exact H|]. intros r. apply plan_ok_end. Qed.

  Lemma plan_ok_last P {A} c (view : bres -> R gerr A) : P c = true -> plan_ok P (p_last c view).
  Proof. intros H. split; [exact H|]. intros r. apply plan_ok_end. Qed.

  Lemma plan_ok_locs P m d : plan_ok P (p_locs o m d).
  Proof. unfold p_locs. destruct (o_locs o); [apply plan_ok_end | exact I]. Qed.

  Lemma plan_ok_location P repo w k :
    P (WID w) = true -> plan_ok P k -> plan_ok P (p_location linked repo w k).
  Proof.
    intros Hw Hk. split; [exact Hw|]. intros rid.
    destruct (as_str rid) as [id|?| |]; try exact I.
    destruct (location_for_upload_id linked repo id); try exact I. exact Hk.
  Qed.

  Lemma plan_ok_copy P w body k :
    P (WWrite w body) = true -> (forall c, plan_ok P (k c)) -> plan_ok P (p_copy w body k).
  Proof.
    intros Hw Hk. unfold p_copy. destruct body; [apply Hk|].
    split; [exact Hw|]. intros [v|e| |]; try exact I; apply Hk.
  Qed.

  Lemma plan_ok_start_upload r : plan_ok (op_of_request r) (p_start_upload linked (q_repo r)).
  Proof.
    split; [cbn; apply beqb_refl|]. intros a. destruct (as_writer a) as [w|?| |]; try exact I.
    apply plan_ok_then; [apply plan_ok_location; [reflexivity | apply plan_ok_last; reflexivity]
                        | apply plan_ok_one; reflexivity].
  Qed.

  Lemma table_ok req r : plan_ok (op_of_request r) (dispatch_table linked digest_of subject_of o req r).
  Proof.
    assert (Hrd : beqb (q_repo r) (q_repo r) && beqb (q_digest r) (q_digest r) = true)
      by (rewrite !beqb_refl; reflexivity).
    assert (Hrt : beqb (q_repo r) (q_repo r) && beqb (q_tag r) (q_tag r) = true)
      by (rewrite !beqb_refl; reflexivity).
    assert (Hbody : plan_ok (op_of_request r) (p_blob_get_body req r)).
    { unfold p_blob_get_body. destruct (parse_range_header (hq_range req)) as [[|[s0 e0] [|? ?]]|[]| |];
        try exact I; apply plan_ok_one; exact Hrd. }
    unfold dispatch_table. destruct (Request.q_kind r).
    - exact I.
    - destruct (o_locs o) as [f|]; [|exact Hbody]. split; [exact Hrd|]. intros a.
      destruct (as_desc a) as [d|?| |]; try exact I. destruct (f false d) as [[|? ?]|?| |]; try exact I. exact Hbody.
    - apply plan_ok_one; exact Hrd.
    - apply plan_ok_one; exact Hrd.
    - apply plan_ok_start_upload.
    - destruct (o_disable_single_post o); [apply plan_ok_start_upload|].
      split; [cbn; rewrite !beqb_refl; reflexivity|]. intros a.
      destruct (as_desc a); try exact I. apply plan_ok_locs.
    - split; [cbn; rewrite !beqb_refl; reflexivity|]. intros a.
      destruct (as_desc a); try exact I. apply plan_ok_locs.
    - split; [cbn; rewrite !beqb_refl; reflexivity|]. intros a.
      destruct (as_writer a) as [w|?| |]; try exact I.
      apply plan_ok_then; [apply plan_ok_location; [reflexivity | apply plan_ok_last; reflexivity]
                          | apply plan_ok_one; reflexivity].
    - destruct (chunk_range req) as [[start end_]|?| |]; try exact I.
      split; [cbn; rewrite !beqb_refl; reflexivity|]. intros a.
      destruct (as_writer a) as [w|?| |]; try exact I.
      apply plan_ok_copy; [reflexivity|]. intros [|]; [|apply plan_ok_one; reflexivity].
      split; [reflexivity|]. intros c. destruct (as_unit c); try exact I.
      apply plan_ok_location; [reflexivity | apply plan_ok_last; reflexivity].
    - destruct (chunk_range req) as [[start end_]|?| |]; try exact I.
      split; [cbn; rewrite !beqb_refl; reflexivity|]. intros a.
      destruct (as_writer a) as [w|?| |]; try exact I.
      apply plan_ok_then; [|apply plan_ok_one; reflexivity].
      apply plan_ok_copy; [reflexivity|]. intros [|]; [|exact I].
      split; [cbn; apply beqb_refl|]. intros c. destruct (as_desc c); try exact I. apply plan_ok_locs.
    - destruct (q_tag r) eqn:Et; apply plan_ok_one; cbn [op_of_request]; rewrite ?Et, !beqb_refl; reflexivity.
    - destruct (q_tag r) eqn:Et; apply plan_ok_one; cbn [op_of_request]; rewrite ?Et, !beqb_refl; reflexivity.
    - cbv zeta. destruct (negb _); [exact I|].
      destruct (subject_from_manifest subject_of (hq_ctype req) (hq_body req)); [|exact I].
      split; [cbn; rewrite !beqb_refl; reflexivity|]. intros a. destruct (as_desc a); try exact I. apply plan_ok_locs.
    - destruct (q_tag r) eqn:Et; apply plan_ok_one; cbn [op_of_request]; rewrite ?Et, !beqb_refl; reflexivity.
    - apply plan_ok_one. cbn. rewrite !beqb_refl. reflexivity.
    - destruct (o_disable_referrers o); [exact I|]. apply plan_ok_one. exact Hrd.
    - apply plan_ok_one. cbn. apply beqb_refl.
  Qed.

  Lemma Forall_calls_of (P : op -> bool) tr :
    Forall (fun cr => P (fst cr) = true) (calls_of tr) ->
    Forall (fun e => match e with ECall c _ => P c = true | _ => True end) tr.
  Proof.
    induction tr as [|[c r| |m d] tr IH]; cbn; intros H; constructor; auto.
    - inversion H; assumption.
    - inversion H; auto.
  Qed.

  (* C03 (a), corollary: every backend call the server makes for a routed request carries the
     request's own repository / digest / tag / from / upload ID. *)
  Theorem dispatch_args_exact b req r :
    parse_req linked (hq_method req) (hq_path req) (hq_rawquery req) = Ok r ->
    let '(_, tr, _) := handle linked digest_of subject_of enc redirect B bstep o b req in
    Forall (fun e => match e with ECall c _ => op_of_request r c = true | _ => True end) tr.
  Proof.
    intros Hp. pose proof (dispatch b req r Hp) as H.
    destruct (handle linked digest_of subject_of enc redirect B bstep o b req) as [[b' tr] res].
    apply Forall_calls_of.
    replace (calls_of tr) with (snd (run_plan bstep b (dispatch_table linked digest_of subject_of o req r)))
      by (rewrite <- H; reflexivity).
    apply plan_ok_run, table_ok.
  Qed.

  (* the kinds whose handler makes exactly one call, whatever the backend answers *)
  Definition simple_call (req : Server.hreq) (r : request) : option op :=
    match Request.q_kind r with
    | Request.ReqBlobHead => Some (ResolveBlob (q_repo r) (q_digest r))
    | Request.ReqBlobDelete => Some (DeleteBlob (q_repo r) (q_digest r))
    | Request.ReqBlobMount => Some (MountBlob (q_from r) (q_repo r) (q_digest r))
    | Request.ReqManifestGet =>
        Some (match q_tag r with _ :: _ => GetTag (q_repo r) (q_tag r) | [] => GetManifest (q_repo r) (q_digest r) end)
    | Request.ReqManifestHead =>
        Some (match q_tag r with _ :: _ => ResolveTag (q_repo r) (q_tag r) | [] => ResolveManifest (q_repo r) (q_digest r) end)
    | Request.ReqManifestDelete =>
        Some (match q_tag r with _ :: _ => DeleteTag (q_repo r) (q_tag r) | [] => DeleteManifest (q_repo r) (q_digest r) end)
    | Request.ReqTagsList => Some (Tags (q_repo r) (Request.q_last r))
    | Request.ReqCatalogList => Some (Repositories (Request.q_last r))
    | Request.ReqReferrersList => if o_disable_referrers o then None else Some (Referrers (q_repo r) (q_digest r) [])
    | Request.ReqBlobGet =>
        match o_locs o with
        | Some _ => None
        | None => match parse_range_header (hq_range req) with
                  | Ok [] => Some (GetBlob (q_repo r) (q_digest r))
                  | Ok [(s0, e0)] => Some (GetBlobRange (q_repo r) (q_digest r) s0 e0)
                  | _ => None
                  end
        end
    | _ => None
    end.

  Lemma run_one b c : run_plan bstep b (p_one c) = (fst (bstep b c), [(c, snd (bstep b c))]).
  Proof. cbn. destruct (bstep b c) as [b1 r]. destruct r; reflexivity. Qed.

  Theorem dispatch_one_call b req r c :
    parse_req linked (hq_method req) (hq_path req) (hq_rawquery req) = Ok r ->
    simple_call req r = Some c ->
    let '(b', tr, _) := handle linked digest_of subject_of enc redirect B bstep o b req in
    b' = fst (bstep b c) /\ calls_of tr = [(c, snd (bstep b c))].
  Proof.
    intros Hp Hs. pose proof (dispatch b req r Hp) as H.
    destruct (handle linked digest_of subject_of enc redirect B bstep o b req) as [[b' tr] res].
    assert (E : run_plan bstep b (dispatch_table linked digest_of subject_of o req r)
                = (fst (bstep b c), [(c, snd (bstep b c))])).
    { unfold simple_call in Hs. unfold dispatch_table. destruct (Request.q_kind r); try discriminate Hs.
      - destruct (o_locs o); [discriminate|]. unfold p_blob_get_body.
        destruct (parse_range_header (hq_range req)) as [[|[s0 e0] [|? ?]]|[]| |]; try discriminate Hs;
          injection Hs as <-; apply run_one.
      - injection Hs as <-; apply run_one.
      - injection Hs as <-; apply run_one.
      - injection Hs as <-. cbn. destruct (bstep b _) as [b1 a]. cbn.
        destruct (as_desc a) as [d|?| |]; try reflexivity.
        unfold p_locs. destruct (o_locs o) as [f|]; [destruct (f true d)|]; reflexivity.
      - injection Hs as <-. destruct (q_tag r); apply run_one.
      - injection Hs as <-. destruct (q_tag r); apply run_one.
      - injection Hs as <-. destruct (q_tag r); apply run_one.
      - injection Hs as <-; apply run_one.
      - destruct (o_disable_referrers o); [discriminate|]. injection Hs as <-; apply run_one.
      - injection Hs as <-; apply run_one. }
    rewrite E in H. injection H as -> ->. split; reflexivity.
  Qed.

End Dispatch.

Print Assumptions dispatch.
Print Assumptions dispatch_args_exact.
Print Assumptions dispatch_one_call.
Print Assumptions dispatch_refused.
