(* A concrete pair of members satisfying every hypothesis of C15_equal_stay_equal (the
   hypotheses are jointly satisfiable by a registry that hands out writers and upload IDs,
   stores blobs and answers reads), and the resulting closed statement. *)
From Coq Require Import String.
From OCI Require Import Model.Unify Proofs.Unify.

(* a small registry: remembers the digests pushed, numbers its writers, the upload ID of
   writer w is the one-byte string [w] *)
Record toy := { t_blobs : list bytes; t_nw : N }.

Definition toy_step : registry toy := fun s o =>
  match o with
  | PushBlob _ de _ => ({| t_blobs := d_digest de :: t_blobs s; t_nw := t_nw s |}, Ok (RDesc de))
  | PushBlobChunked _ _ | PushBlobChunkedResume _ _ _ _ =>
      ({| t_blobs := t_blobs s; t_nw := N.succ (t_nw s) |}, Ok (RWriter (t_nw s)))
  | WID w => (s, Ok (RStr [w]))
  | WSize _ => (s, Ok (RN 0))
  | ResolveBlob _ d =>
      (s, if mem_bytes d (t_blobs s) then Ok (RDesc {| d_media := []; d_digest := d; d_size := 0; d_artifact := [] |})
          else Err (E BLOB_UNKNOWN []))
  | _ => (s, Err (E UNSUPPORTED []))
  end.

Definition toy_enc (a b : bytes) : bytes := a ++ b.
Definition toy_dec (id : bytes) : option (list bytes) :=
  match id with [x; y] => Some [[x]; [y]] | _ => None end.
Definition toy_idok (a : bytes) : Prop := exists n, a = [n].

(* both members run the same code: related = equal, under the identity renaming *)
Definition toy_R (p : ren) (s0 s1 : toy) : Prop :=
  s0 = s1 /\ (forall a b, In (a, b) (r_ids p) -> a = b) /\ (forall a b, In (a, b) (r_ws p) -> a = b).

Lemma toy_op_rel p o0 o1 :
  (forall a b, In (a, b) (r_ids p) -> a = b) -> (forall a b, In (a, b) (r_ws p) -> a = b) ->
  op_rel p o0 o1 -> o0 = o1.
Proof.
  intros Hi Hw. destruct o0, o1; cbn; try (intros [E _]; exact E); try tauto; try discriminate.
  - intros (-> & -> & -> & H). now rewrite (Hi _ _ H).
  - intros (-> & H). now rewrite (Hw _ _ H).
  - intros H. now rewrite (Hw _ _ H).
  - intros H. now rewrite (Hw _ _ H).
  - intros H. now rewrite (Hw _ _ H).
  - intros H. now rewrite (Hw _ _ H).
  - intros (-> & H). now rewrite (Hw _ _ H).
  - intros H. now rewrite (Hw _ _ H).
Qed.

Definition toy_ext (p : ren) (r : result) : ren :=
  {| r_ids := match r with Ok (RStr a) => [(a, a)] | _ => [] end ++ r_ids p;
     r_ws := match r with Ok (RWriter w) => [(w, w)] | _ => [] end ++ r_ws p |}.

Lemma toy_sim p s0 s1 o0 o1 :
  toy_R p s0 s1 -> op_rel p o0 o1 ->
  exists p', ren_incl p p'
             /\ toy_R p' (fst (toy_step s0 o0)) (fst (toy_step s1 o1))
             /\ res_rel p' (snd (toy_step s0 o0)) (snd (toy_step s1 o1)).
Proof.
  intros (-> & Hi & Hw) Hop. apply (toy_op_rel p _ _ Hi Hw) in Hop. subst o1.
  exists (toy_ext p (snd (toy_step s1 o0))). split; [|split].
  - split; cbn; intros x Hx; apply in_or_app; now right.
  - split; [reflexivity|]. split; cbn; intros a b H; apply in_app_or in H as [H|H]; auto;
      destruct (snd (toy_step s1 o0)) as [[]| | |]; cbn in H; try tauto;
      destruct H as [H|[]]; now injection H as <- <-.
  - destruct (snd (toy_step s1 o0)) as [[]| | |]; cbn; auto.
Qed.

Lemma toy_obs p s0 s1 o : toy_R p s0 s1 -> is_observer o = true -> toy_R p (fst (toy_step s0 o)) s1.
Proof. intros H Ho. destruct o; cbn in Ho; try discriminate; exact H. Qed.

Lemma toy_fail0 p s0 s1 r de data :
  toy_R p s0 s1 -> is_err (snd (toy_step s0 (PushBlob r de data))) = true ->
  toy_R p (fst (toy_step s0 (PushBlob r de data))) s1.
Proof. cbn. discriminate. Qed.

Lemma toy_fail1 p s0 s1 r de data :
  toy_R p s0 s1 -> is_err (snd (toy_step s1 (PushBlob r de data))) = true ->
  toy_R p s0 (fst (toy_step s1 (PushBlob r de data))).
Proof. cbn. discriminate. Qed.

Lemma toy_codec a b : toy_idok a -> toy_idok b -> toy_dec (toy_enc a b) = Some [a; b].
Proof. intros [n ->] [m ->]. reflexivity. Qed.

Lemma toy_idok_step s w id : snd (toy_step s (WID w)) = Ok (RStr id) -> toy_idok id.
Proof. cbn. intros H. injection H as <-. now exists w. Qed.

(* two such members, started in the same state, are in the same state after every history
   through the unifier in which uploads are resumed with the IDs the unifier handed out;
   and every ID handed out decodes to two equal member IDs *)
Lemma toy_equal_stay_equal pol s h :
  closed_loop toy_step toy_step toy_enc toy_dec pol [] (uinit s s) h ->
  let st' := fst (urun toy_step toy_step toy_enc toy_dec pol (uinit s s) h) in
  u_b0 st' = u_b1 st'
  /\ forall id, In id (issued_after toy_step toy_step toy_enc toy_dec pol [] (uinit s s) h) ->
       exists a, toy_dec id = Some [a; a].
Proof.
  intros Hcl.
  destruct (equal_stay_equal_ids toy_step toy_step toy_enc toy_dec toy_R toy_sim toy_obs toy_fail0 toy_fail1
              toy_idok toy_codec toy_idok_step toy_idok_step pol h (uinit s s)
              {| r_ids := []; r_ws := [] |} []) as (p' & _ & [(E & Hi & _) _] & _ & Hdec).
  - split; [|constructor]. split; [reflexivity|]. split; intros a b [].
  - intros id [].
  - exact Hcl.
  - cbv zeta. split; [exact E|]. intros id Hid. destruct (Hdec id Hid) as (a & b & D & Hab).
    exists a. now rewrite (Hi _ _ Hab) in *.
Qed.

(* the hypothesis is not vacuous: a chunked upload, its ID, resume by that ID, a blob push *)
Definition toy_history : list (choice * op) :=
  [ (choose false, PushBlobChunked (s "foo") 0);
    (choose true, WID 0);
    (choose false, PushBlobChunkedResume (s "foo") [0%N; 0%N] 0 0);
    (choose true, PushBlob (s "foo") zero_desc []);
    (choose false, ResolveBlob (s "foo") []) ].

Lemma toy_history_closed :
  closed_loop toy_step toy_step toy_enc toy_dec ReadConcurrent [] (uinit {| t_blobs := []; t_nw := 0 |} {| t_blobs := []; t_nw := 0 |}) toy_history.
Proof. cbn. repeat split; auto. Qed.

Lemma toy_history_results :
  snd (urun toy_step toy_step toy_enc toy_dec ReadConcurrent
         (uinit {| t_blobs := []; t_nw := 0 |} {| t_blobs := []; t_nw := 0 |}) toy_history)
  = [Ok (RWriter 0); Ok (RStr [0%N; 0%N]); Ok (RWriter 1); Ok (RDesc zero_desc);
     Ok (RDesc {| d_media := []; d_digest := []; d_size := 0; d_artifact := [] |})].
Proof. reflexivity. Qed.
