(* The in-memory registry (Model/Mem.v) in immutable-tags mode, over ALL histories:
     - what one operation can do to one repository ([step_effect]): the only case analysis
       over the 25 operations; everything else is derived from it;
     - the refersTo walk is sound: it answers "no" only for digests that no tag reaches
       through stored manifests ([refers_false_not_reach]); under the acyclicity hypothesis
       its fuel is never exhausted ([tagged_refers_to_fuel]);
     - a tag, once bound, stays bound to the same descriptor; its manifest stays stored
       with the same bytes; everything a tag reaches through stored manifests and that is
       stored stays stored with the same bytes ([imm_keeps]).
   Hypotheses are stated where they are used:
     hash_inj   : digest.FromBytes is collision-free (needed only for "the same bytes");
     acyclic    : no chain of stored manifests leads back to itself (needed only to show the
                  model's fuel is enough, i.e. that the unfuelled Go recursion terminates). *)
From Coq Require Import String Lia.
From OCI Require Import Model.Mem Proofs.MemBasics Proofs.MemInv.

(* the view of one repository; one that does not exist holds nothing *)
Definition repo_of (st : state) (r : bytes) : repo :=
  match get_repo st r with Some rp => rp | None => empty_repo end.

Definition same3 (rp rp' : repo) : Prop :=
  tags rp' = tags rp /\ manifests rp' = manifests rp /\ blobs rp' = blobs rp.

Lemma same3_refl rp : same3 rp rp.
Proof. repeat split. Qed.

Lemma repo_of_upd st r f r' :
  repo_of (upd_repo st r f) r' =
  if beqb r' r then match get_repo st r with Some rp => f rp | None => empty_repo end
  else repo_of st r'.
Proof.
  unfold repo_of. rewrite get_repo_upd_repo. destruct (beqb r' r); [|reflexivity].
  destruct (get_repo st r); reflexivity.
Qed.

Lemma repo_of_with_buf st i f r : repo_of (with_buf st i f) r = repo_of st r.
Proof. reflexivity. Qed.

Lemma iblob_repo_of st r d : iblob st r d = alookup d (blobs (repo_of st r)).
Proof. unfold iblob, repo_of. destruct (get_repo st r); reflexivity. Qed.
Lemma iman_repo_of st r d : iman st r d = alookup d (manifests (repo_of st r)).
Proof. unfold iman, repo_of. destruct (get_repo st r); reflexivity. Qed.
Lemma itag_repo_of st r t : itag st r t = alookup t (tags (repo_of st r)).
Proof. unfold itag, repo_of. destruct (get_repo st r); reflexivity. Qed.

Section Effect.
  Variable hash : bytes -> bytes.
  Variable valid_digest : bytes -> bool.
  Variable valid_repo : bytes -> bool.
  Variable valid_tag : bytes -> bool.
  Variable decode_image : bytes -> option image_manifest.
  Variable decode_index : bytes -> option index_manifest.
  Variable cfg : config.

  Local Notation step := (step hash valid_digest valid_repo valid_tag decode_image decode_index cfg).
  Local Notation manifest_refs := (manifest_refs decode_image decode_index).
  Local Notation tagged_refers_to := (tagged_refers_to decode_image decode_index).
  Local Notation refers_to := (refers_to decode_image decode_index).
  Local Notation make_repo := (make_repo valid_repo).

  Lemma repo_of_make st r st1 : make_repo st r = Some st1 -> forall r', repo_of st1 r' = repo_of st r'.
  Proof.
    intros H r'. apply make_repo_some in H as (_ & _ & _ & _ & Hg). unfold repo_of. rewrite Hg.
    destruct (get_repo st r'); [reflexivity|]. destruct (beqb r' r); reflexivity.
  Qed.

  Lemma make_repo_get st r st1 : make_repo st r = Some st1 -> get_repo st1 r = Some (repo_of st r).
  Proof.
    intros H. pose proof (repo_of_make _ _ _ H r) as Hr.
    apply make_repo_some in H as (_ & Hne & _). unfold repo_of in Hr at 1.
    destruct (get_repo st1 r); congruence.
  Qed.

  (* what operation [o] can do to repository [r] *)
  Inductive effect (o : op) (r : bytes) (rp rp' : repo) : Prop :=
  | ef_same : same3 rp rp' -> effect o r rp rp'
  | ef_set_blob d b :
      tags rp' = tags rp -> manifests rp' = manifests rp -> blobs rp' = aset d b (blobs rp) ->
      effect o r rp rp'
  | ef_del_blob d :
      o = DeleteBlob r d ->
      (immutable_tags cfg = true -> tagged_refers_to rp d = Ok false) ->
      tags rp' = tags rp -> manifests rp' = manifests rp -> blobs rp' = adel d (blobs rp) ->
      effect o r rp rp'
  | ef_set_man t data media subj :
      o = PushManifest r t data media ->
      blobs rp' = blobs rp ->
      manifests rp' = aset (hash data) {| b_media := media; b_data := data; b_subject := subj |} (manifests rp) ->
      (immutable_tags cfg = true ->
         forall cur, alookup (hash data) (manifests rp) = Some cur -> b_media cur = media) ->
      tags rp' = match t with
                 | [] => tags rp
                 | _ => aset t {| d_media := media; d_digest := hash data; d_size := blen data; d_artifact := [] |} (tags rp)
                 end ->
      (immutable_tags cfg = true -> t <> [] -> alookup t (tags rp) = None) ->
      effect o r rp rp'
  | ef_del_man d :
      o = DeleteManifest r d ->
      (immutable_tags cfg = true -> tagged_refers_to rp d = Ok false) ->
      tags rp' = tags rp -> blobs rp' = blobs rp -> manifests rp' = adel d (manifests rp) ->
      effect o r rp rp'
  | ef_del_tag t :
      o = DeleteTag r t ->
      immutable_tags cfg = false ->
      manifests rp' = manifests rp -> blobs rp' = blobs rp -> tags rp' = adel t (tags rp) ->
      effect o r rp rp'.

  Ltac same := apply ef_same, same3_refl.

  Lemma repo_of_get st r rp : get_repo st r = Some rp -> repo_of st r = rp.
  Proof. unfold repo_of. now intros ->. Qed.

  (* the shared body of PushBlobChunked / PushBlobChunkedResume *)
  Lemma chunked_effect o st r0 id off r :
    effect o r (repo_of st r) (repo_of (fst (
      match make_repo st r0 with
      | None => (st, Err e_name_invalid)
      | Some st1 =>
          match get_repo st1 r0 with
          | None => (st1, Err e_name_invalid)
          | Some rp =>
              match alookup id (uploads rp) with
              | Some i =>
                  (with_buf st1 (N.to_nat i) (fun b =>
                     {| u_repo := u_repo b; u_id := u_id b; u_buf := u_buf b; u_check := off;
                        u_committed := u_committed b; u_desc := u_desc b; u_err := u_err b |}),
                   Ok (RWriter i))
              | None =>
                  let id' := match id with [] => fresh_id (next_id st1) | _ => id end in
                  let i := N.of_nat (length (bufs st1)) in
                  ({| repos := aset r0 (rp_set_upload id' i rp) (repos st1);
                      bufs := bufs st1 ++ [new_buffer r0 id' off];
                      next_id := match id with [] => N.succ (next_id st1) | _ => next_id st1 end |},
                   Ok (RWriter i))
              end
          end
      end : state * result)) r).
  Proof.
    destruct (make_repo st r0) as [st1|] eqn:EM; [|same].
    pose proof (repo_of_make _ _ _ EM r) as Hr.
    rewrite (make_repo_get _ _ _ EM).
    destruct (alookup id (uploads (repo_of st r0))); cbn [fst].
    - rewrite repo_of_with_buf, Hr. same.
    - unfold repo_of at 2. unfold get_repo. cbn [repos]. rewrite alookup_aset.
      destruct (beqb r r0) eqn:B.
      + apply beqb_eq in B. subst. apply ef_same. repeat split.
      + fold (get_repo st1 r). fold (repo_of st1 r). rewrite Hr. same.
  Qed.

  Theorem step_effect st o r : effect o r (repo_of st r) (repo_of (fst (step st o)) r).
  Proof.
    destruct o; cbn [Mem.step fst]; try same.
    - (* PushBlob *)
      destruct (check_descriptor hash valid_digest de (Some content)); [same|].
      destruct (make_repo st r0) as [st1|] eqn:EM; [|same]. cbn [fst].
      rewrite repo_of_upd, (make_repo_get _ _ _ EM).
      destruct (beqb r r0) eqn:B.
      + apply beqb_eq in B. subst. eapply ef_set_blob; reflexivity.
      + rewrite (repo_of_make _ _ _ EM). same.
    - apply chunked_effect.
    - apply chunked_effect.
    - (* MountBlob *)
      destruct (make_repo st to) as [st1|] eqn:EM; [|same].
      pose proof (repo_of_make _ _ _ EM r) as Hr.
      destruct (blob_for st1 from d) as [b| | |]; cbn [fst]; try (rewrite Hr; same).
      rewrite repo_of_upd, (make_repo_get _ _ _ EM).
      destruct (beqb r to) eqn:B.
      + apply beqb_eq in B. subst. eapply ef_set_blob; reflexivity.
      + rewrite Hr. same.
    - (* PushManifest *)
      destruct (make_repo st r0) as [st1|] eqn:EM; [|same].
      pose proof (repo_of_make _ _ _ EM r) as Hr.
      rewrite (make_repo_get _ _ _ EM).
      set (rp := repo_of st r0).
      assert (Hstore :
        (immutable_tags cfg = true -> t <> [] -> alookup t (tags rp) = None) ->
        forall X : state * result,
        X = (if immutable_tags cfg
                && match alookup (hash content) (manifests rp) with
                   | Some cur => negb (beqb (b_media cur) media)
                   | None => false
                   end
             then (st1, Err (E DENIED (s "mismatched media type")))
             else
             match check_descriptor hash valid_digest
                     {| d_media := media; d_digest := hash content; d_size := blen content; d_artifact := [] |}
                     (Some content) with
             | Some e => (st1, Err (e_plain (s "invalid descriptor")))
             | None =>
                 match check_manifest hash valid_digest decode_image decode_index rp media content with
                 | None => (st1, Err (e_plain (s "invalid manifest")))
                 | Some subject =>
                     (upd_repo st1 r0 (fun rp0 =>
                        let rp1 := rp_set_manifest (hash content)
                                     {| b_media := media; b_data := content; b_subject := subject |} rp0 in
                        match t with
                        | [] => rp1
                        | _ => rp_set_tag t {| d_media := media; d_digest := hash content;
                                               d_size := blen content; d_artifact := [] |} rp1
                        end),
                      Ok (RDesc {| d_media := media; d_digest := hash content; d_size := blen content; d_artifact := [] |}))
                 end
             end) ->
        effect (PushManifest r0 t content media) r (repo_of st r) (repo_of (fst X) r)).
      { intros Htag X ->.
        destruct (immutable_tags cfg
                  && match alookup (hash content) (manifests rp) with
                     | Some cur => negb (beqb (b_media cur) media)
                     | None => false
                     end) eqn:EMT; [cbn [fst]; rewrite Hr; same|].
        destruct (check_descriptor _ _ _ _); [cbn [fst]; rewrite Hr; same|].
        destruct (check_manifest _ _ _ _ _ _ _) as [subj|]; [|cbn [fst]; rewrite Hr; same].
        cbn [fst]. rewrite repo_of_upd, (make_repo_get _ _ _ EM). fold rp.
        destruct (beqb r r0) eqn:B; [|rewrite Hr; same].
        apply beqb_eq in B. subst r. fold rp.
        eapply (ef_set_man _ _ _ _ t content media subj).
        - reflexivity.
        - destruct t; reflexivity.
        - destruct t; reflexivity.
        - intros Hi cur Hc. rewrite Hi, Hc in EMT. cbn in EMT.
          apply negb_false_iff, beqb_eq in EMT. exact EMT.
        - destruct t; reflexivity.
        - exact Htag. }
      destruct t as [|c t'].
      + apply Hstore; [congruence | reflexivity].
      + destruct (negb (valid_tag (c :: t'))); [cbn [fst]; rewrite Hr; same|].
        destruct (immutable_tags cfg) eqn:EI.
        * destruct (alookup (c :: t') (tags rp)) as [cur|] eqn:ET.
          -- destruct (beqb (hash content) (d_digest cur)); [destruct (beqb (d_media cur) media)|];
               cbn [fst]; rewrite Hr; same.
          -- apply Hstore; [intros _ _; reflexivity | reflexivity].
        * apply Hstore; [discriminate | reflexivity].
    - (* DeleteBlob *)
      destruct (blob_for st r0 d); cbn [fst]; try same.
      destruct (get_repo st r0) as [rp|] eqn:ER; [|same].
      assert (Hdel : (immutable_tags cfg = true -> tagged_refers_to rp d = Ok false) ->
                     effect (DeleteBlob r0 d) r (repo_of st r) (repo_of (upd_repo st r0 (rp_del_blob d)) r)).
      { intros Hc. rewrite repo_of_upd, ER. destruct (beqb r r0) eqn:B; [|same].
        apply beqb_eq in B. subst r. rewrite (repo_of_get _ _ _ ER).
        eapply ef_del_blob; try reflexivity. exact Hc. }
      destruct (immutable_tags cfg); [|apply Hdel; discriminate].
      destruct (tagged_refers_to rp d) as [[|]| | |] eqn:ET; cbn [fst]; try same.
      apply Hdel. auto.
    - (* DeleteManifest *)
      destruct (manifest_for st r0 d); cbn [fst]; try same.
      destruct (get_repo st r0) as [rp|] eqn:ER; [|same].
      assert (Hdel : (immutable_tags cfg = true -> tagged_refers_to rp d = Ok false) ->
                     effect (DeleteManifest r0 d) r (repo_of st r) (repo_of (upd_repo st r0 (rp_del_manifest d)) r)).
      { intros Hc. rewrite repo_of_upd, ER. destruct (beqb r r0) eqn:B; [|same].
        apply beqb_eq in B. subst r. rewrite (repo_of_get _ _ _ ER).
        eapply ef_del_man; try reflexivity. exact Hc. }
      destruct (immutable_tags cfg); [|apply Hdel; discriminate].
      destruct (tagged_refers_to rp d) as [[|]| | |] eqn:ET; cbn [fst]; try same.
      apply Hdel. auto.
    - (* DeleteTag *)
      destruct (get_repo st r0) as [rp|] eqn:ER; [|same].
      destruct (alookup t (tags rp)); [|same].
      destruct (immutable_tags cfg) eqn:EI; [same|]. cbn [fst].
      rewrite repo_of_upd, ER. destruct (beqb r r0) eqn:B; [|same].
      apply beqb_eq in B. subst r. rewrite (repo_of_get _ _ _ ER).
      eapply ef_del_tag; try reflexivity. exact EI.
    - (* WWrite *)
      destruct (nth_error (bufs st) (N.to_nat w)) as [b|]; [|same].
      destruct (negb (u_check b =? -1)%Z && negb (blen (u_buf b) =? u_check b)%Z); same.
    - (* WCommit *)
      destruct (nth_error (bufs st) (N.to_nat w)) as [b|]; [|same].
      destruct (u_err b); [same|].
      destruct (beqb (hash (u_buf b)) d); cbn [fst]; [|same].
      rewrite repo_of_upd. change (get_repo (with_buf st (N.to_nat w) _) (u_repo b)) with (get_repo st (u_repo b)).
      rewrite repo_of_with_buf.
      destruct (beqb r (u_repo b)) eqn:B; [|same].
      apply beqb_eq in B. subst r. unfold repo_of.
      destruct (get_repo st (u_repo b)); [eapply ef_set_blob; reflexivity | same].
    - (* WCancel *)
      destruct (nth_error (bufs st) (N.to_nat w)) as [b|]; same.
  Qed.
End Effect.

(* ------------------------------------------------------------------------------------ *)
(* Reachability through stored manifests and the refersTo walk                          *)
(* ------------------------------------------------------------------------------------ *)

Lemma aset_fresh {V} k (v : V) m : alookup k m = None -> aset k v m = m ++ [(k, v)].
Proof.
  induction m as [|[k' v'] m IH]; cbn; [reflexivity|].
  destruct (beqb k k'); [discriminate|]. intros H. now rewrite IH.
Qed.

Section Reach.
  Variable decode_image : bytes -> option image_manifest.
  Variable decode_index : bytes -> option index_manifest.

  Local Notation manifest_refs := (manifest_refs decode_image decode_index).
  Local Notation refers_to := (refers_to decode_image decode_index).
  Local Notation tagged_refers_to := (tagged_refers_to decode_image decode_index).

  (* the references of a stored manifest, decoded with the media type it is stored with *)
  Definition mrefs (b : blob) : option (list (refkind * desc)) := manifest_refs (b_media b) (b_data b).

  (* [reach mv refs x]: digest x is named by one of [refs], or by a manifest that is stored
     (according to the lookup [mv]) and reached from [refs] through manifest / subject
     references.  Blob references are not followed. *)
  Inductive reach (mv : bytes -> option blob) : list (refkind * desc) -> bytes -> Prop :=
  | reach_here refs k de : In (k, de) refs -> reach mv refs (d_digest de)
  | reach_down refs k de b rs x :
      In (k, de) refs -> k <> KBlob -> mv (d_digest de) = Some b -> mrefs b = Some rs ->
      reach mv rs x -> reach mv refs x.

  Definition mlk (rp : repo) : bytes -> option blob := fun d => alookup d (manifests rp).

  (* reached from some tag of the repository *)
  Definition treach (rp : repo) (x : bytes) : Prop := reach (mlk rp) (tag_refs rp) x.

  Lemma refers_to_0 rp refs d : refers_to 0 rp refs d = OutOfFuel.
  Proof. reflexivity. Qed.
  Lemma refers_to_nil f rp d : refers_to (S f) rp [] d = Ok false.
  Proof. reflexivity. Qed.
  Lemma refers_to_cons f rp k de rest d :
    refers_to (S f) rp ((k, de) :: rest) d =
    if beqb (d_digest de) d then Ok true
    else match k with
         | KBlob => refers_to (S f) rp rest d
         | _ => match alookup (d_digest de) (manifests rp) with
                | None => refers_to (S f) rp rest d
                | Some b =>
                    match mrefs b with
                    | None => Err (e_plain (s "cannot unmarshal"))
                    | Some rs =>
                        match refers_to f rp rs d with
                        | Ok true => Ok true
                        | Ok false => refers_to (S f) rp rest d
                        | other => other
                        end
                    end
                end
         end.
  Proof. destruct k; reflexivity. Qed.

  (* a "no" means: no listed reference names d, and the walk below every stored manifest
     reference said "no" as well *)
  Lemma refers_false_inv f rp refs d :
    refers_to (S f) rp refs d = Ok false ->
    forall k de, In (k, de) refs ->
      d_digest de <> d /\
      (k <> KBlob -> forall b rs, alookup (d_digest de) (manifests rp) = Some b -> mrefs b = Some rs ->
                     refers_to f rp rs d = Ok false).
  Proof.
    induction refs as [|[k0 de0] rest IH]; intros H k de Hin; [destruct Hin|].
    rewrite refers_to_cons in H. destruct (beqb (d_digest de0) d) eqn:E; [discriminate|].
    apply beqb_neq in E.
    assert (Hrest : refers_to (S f) rp rest d = Ok false /\
                    (k0 <> KBlob -> forall b rs, alookup (d_digest de0) (manifests rp) = Some b ->
                                    mrefs b = Some rs -> refers_to f rp rs d = Ok false)).
    { destruct k0.
      - destruct (alookup (d_digest de0) (manifests rp)) as [b|] eqn:EL.
        + destruct (mrefs b) as [rs|] eqn:ER; [|discriminate].
          destruct (refers_to f rp rs d) as [[|]| | |] eqn:EF; try discriminate.
          split; [exact H|]. intros _ b' rs' Hb' Hrs'. congruence.
        + split; [exact H|]. intros _ b' rs' Hb'. discriminate.
      - split; [exact H|]. intros Hk. congruence.
      - destruct (alookup (d_digest de0) (manifests rp)) as [b|] eqn:EL.
        + destruct (mrefs b) as [rs|] eqn:ER; [|discriminate].
          destruct (refers_to f rp rs d) as [[|]| | |] eqn:EF; try discriminate.
          split; [exact H|]. intros _ b' rs' Hb' Hrs'. congruence.
        + split; [exact H|]. intros _ b' rs' Hb'. discriminate. }
    destruct Hrest as [Hrest Hhead].
    destruct Hin as [Heq|Hin].
    - injection Heq as <- <-. split; [exact E | exact Hhead].
    - exact (IH Hrest k de Hin).
  Qed.

  (* soundness of the walk: it says "not referred to" only for digests nothing reaches *)
  Theorem refers_false_not_reach f : forall rp refs d,
    refers_to f rp refs d = Ok false -> ~ reach (mlk rp) refs d.
  Proof.
    induction f as [|f IHf]; intros rp refs d H; [discriminate|].
    intros Hr. inversion Hr as [refs0 k de Hin | refs0 k de b rs x Hin Hk Hb Hrs Hsub]; subst.
    - destruct (refers_false_inv _ _ _ _ H k de Hin) as [Hne _]. now apply Hne.
    - destruct (refers_false_inv _ _ _ _ H k de Hin) as [_ Hdown].
      exact (IHf rp rs d (Hdown Hk b rs Hb Hrs) Hsub).
  Qed.

  Corollary tagged_refers_false rp d : tagged_refers_to rp d = Ok false -> ~ treach rp d.
  Proof. apply refers_false_not_reach. Qed.

  (* a listed reference is never answered "no" *)
  Lemma refers_direct f rp refs k de :
    In (k, de) refs -> refers_to f rp refs (d_digest de) <> Ok false.
  Proof.
    intros Hin H. apply refers_false_not_reach in H. apply H. eapply reach_here; eauto.
  Qed.

  (* reach is monotone in the references and in the stored manifests (as long as what is
     stored keeps its references) *)
  Lemma reach_mono mv mv' refs refs' x :
    (forall d b rs, mv d = Some b -> mrefs b = Some rs -> exists b', mv' d = Some b' /\ mrefs b' = Some rs) ->
    incl refs refs' -> reach mv refs x -> reach mv' refs' x.
  Proof.
    intros Hm Hi Hr. revert refs' Hi.
    induction Hr as [refs k de Hin | refs k de b rs x Hin Hk Hb Hrs Hsub IH]; intros refs' Hi.
    - eapply reach_here. apply Hi. exact Hin.
    - destruct (Hm _ _ _ Hb Hrs) as [b' [Hb' Hrs']].
      eapply reach_down; [apply Hi; exact Hin | exact Hk | exact Hb' | exact Hrs' |].
      apply IH. apply incl_refl.
  Qed.

  (* removing a manifest that nothing reaches removes no path *)
  Lemma reach_del mv d0 refs x :
    reach mv refs x -> ~ reach mv refs d0 ->
    reach (fun d => if beqb d d0 then None else mv d) refs x.
  Proof.
    induction 1 as [refs k de Hin | refs k de b rs x Hin Hk Hb Hrs Hsub IH]; intros Hn.
    - eapply reach_here; eauto.
    - eapply reach_down; [exact Hin | exact Hk | | exact Hrs |].
      + destruct (beqb (d_digest de) d0) eqn:E; [|exact Hb].
        apply beqb_eq in E. exfalso. apply Hn. rewrite <- E. eapply reach_here; eauto.
      + apply IH. intros Hc. apply Hn. eapply reach_down; eauto.
  Qed.

  Lemma tag_ref_in rp t de : alookup t (tags rp) = Some de -> In (KManifest, de) (tag_refs rp).
  Proof.
    intros H. apply alookup_In in H. unfold tag_refs.
    apply (in_map (fun kv : bytes * desc => (KManifest, snd kv))) in H. exact H.
  Qed.

  Lemma tagged_is_reached rp t de : alookup t (tags rp) = Some de -> treach rp (d_digest de).
  Proof. intros H. eapply reach_here. eapply tag_ref_in; eauto. Qed.
End Reach.

(* ------------------------------------------------------------------------------------ *)
(* Immutable-tags mode: what every operation keeps                                      *)
(* ------------------------------------------------------------------------------------ *)

Section Keep.
  Variable hash : bytes -> bytes.
  Variable valid_digest : bytes -> bool.
  Variable valid_repo : bytes -> bool.
  Variable valid_tag : bytes -> bool.
  Variable decode_image : bytes -> option image_manifest.
  Variable decode_index : bytes -> option index_manifest.
  Variable cfg : config.

  Local Notation step := (step hash valid_digest valid_repo valid_tag decode_image decode_index cfg).
  Local Notation effect := (effect hash decode_image decode_index cfg).
  Local Notation treach_ := (treach decode_image decode_index).
  Local Notation mrefs_ := (mrefs decode_image decode_index).
  Local Notation Inv := (Inv hash decode_image decode_index).

  Hypothesis Himm : immutable_tags cfg = true.
  (* digest.FromBytes is collision-free *)
  Hypothesis hash_inj : forall a b, hash a = hash b -> a = b.

  (* the store invariant of one repository (C01's content clause, from MemInv.Inv) *)
  Definition hashed (rp : repo) : Prop :=
    (forall d b, alookup d (manifests rp) = Some b -> hash (b_data b) = d) /\
    (forall d b, alookup d (blobs rp) = Some b -> hash (b_data b) = d).

  Record keeps (rp rp' : repo) : Prop := {
    (* a tag stays bound to the same descriptor *)
    k_tag : forall t de, alookup t (tags rp) = Some de -> alookup t (tags rp') = Some de;
    (* what a tag reaches, it still reaches *)
    k_reach : forall x, treach_ rp x -> treach_ rp' x;
    (* a stored manifest a tag reaches stays stored: same bytes, same media type *)
    k_man : forall x b, treach_ rp x -> alookup x (manifests rp) = Some b ->
              exists b', alookup x (manifests rp') = Some b' /\ b_data b' = b_data b /\ b_media b' = b_media b;
    (* a stored blob a tag reaches stays stored with the same bytes *)
    k_blob : forall x b, treach_ rp x -> alookup x (blobs rp) = Some b ->
              exists b', alookup x (blobs rp') = Some b' /\ b_data b' = b_data b
  }.

  Lemma keeps_refl rp : keeps rp rp.
  Proof. constructor; eauto. Qed.

  Lemma keeps_trans rp1 rp2 rp3 : keeps rp1 rp2 -> keeps rp2 rp3 -> keeps rp1 rp3.
  Proof.
    intros [T1 R1 M1 B1] [T2 R2 M2 B2]. constructor.
    - eauto.
    - eauto.
    - intros x b Hr Hb. destruct (M1 x b Hr Hb) as [b' [Hb' [Hd Hm]]].
      destruct (M2 x b' (R1 x Hr) Hb') as [b'' [Hb'' [Hd' Hm']]]. exists b''. repeat split; congruence.
    - intros x b Hr Hb. destruct (B1 x b Hr Hb) as [b' [Hb' Hd]].
      destruct (B2 x b' (R1 x Hr) Hb') as [b'' [Hb'' Hd']]. exists b''. split; congruence.
  Qed.

  Lemma keeps_same rp rp' : same3 rp rp' -> keeps rp rp'.
  Proof.
    intros (Ht & Hm & Hb). unfold treach, mlk, tag_refs.
    constructor; unfold treach, mlk, tag_refs; rewrite ?Ht, ?Hm, ?Hb; eauto.
  Qed.

  Theorem effect_keeps o r rp rp' :
    effect o r rp rp' -> hashed rp -> hashed rp' -> keeps rp rp'.
  Proof.
    intros He [HM HB] [HM' HB'].
    destruct He as [Hs | d b Ht Hm Hb | d Ho Hc Ht Hm Hb
                    | t data media subj Ho Hb Hm Hmt Ht Htn | d Ho Hc Ht Hb Hm | t Ho Hi Hm Hb Ht].
    - now apply keeps_same.
    - (* a blob stored *)
      constructor; unfold treach, mlk, tag_refs; rewrite ?Ht, ?Hm; eauto.
      intros x b0 _ Hx. rewrite Hb, alookup_aset. destruct (beqb x d) eqn:E; [|eauto].
      apply beqb_eq in E. subst x. exists b. split; [reflexivity|].
      apply hash_inj. rewrite (HB _ _ Hx). apply HB'. rewrite Hb. apply alookup_aset_eq.
    - (* a blob deleted: nothing reached it *)
      pose proof (tagged_refers_false _ _ _ _ (Hc Himm)) as Hn.
      constructor; unfold treach, mlk, tag_refs; rewrite ?Ht, ?Hm; eauto.
      intros x b0 Hr Hx. rewrite Hb, alookup_adel. destruct (beqb x d) eqn:E; [|eauto].
      apply beqb_eq in E. subst x. contradiction.
    - (* a manifest stored, maybe under a new tag *)
      set (nb := {| b_media := media; b_data := data; b_subject := subj |}) in *.
      assert (Hmv : forall d b rs, mlk rp d = Some b -> mrefs_ b = Some rs ->
                      exists b', mlk rp' d = Some b' /\ mrefs_ b' = Some rs).
      { intros d b rs Hd Hrs. unfold mlk in *. rewrite Hm, alookup_aset.
        destruct (beqb d (hash data)) eqn:E; [|eauto].
        apply beqb_eq in E. subst d. exists nb. split; [reflexivity|].
        unfold mrefs in *. cbn [nb b_media b_data].
        rewrite <- (Hmt Himm _ Hd). rewrite <- (hash_inj _ _ (HM _ _ Hd)). exact Hrs. }
      assert (Hti : incl (tag_refs rp) (tag_refs rp')).
      { unfold tag_refs. rewrite Ht. destruct t as [|c t']; [apply incl_refl|].
        rewrite (aset_fresh _ _ _ (Htn Himm ltac:(discriminate))), map_app. apply incl_appl, incl_refl. }
      constructor.
      + intros t0 de0 H0. rewrite Ht. destruct t as [|c t']; [exact H0|].
        rewrite alookup_aset. destruct (beqb t0 (c :: t')) eqn:E; [|exact H0].
        apply beqb_eq in E. subst t0. rewrite (Htn Himm ltac:(discriminate)) in H0. discriminate.
      + intros x Hr. eapply reach_mono; eauto.
      + intros x b0 _ Hx. rewrite Hm, alookup_aset. destruct (beqb x (hash data)) eqn:E; [|eauto].
        apply beqb_eq in E. subst x. exists nb. cbn [nb b_media b_data].
        split; [reflexivity|]. split.
        * apply hash_inj. now rewrite (HM _ _ Hx).
        * symmetry. exact (Hmt Himm _ Hx).
      + intros x b0 _ Hx. rewrite Hb. eauto.
    - (* a manifest deleted: nothing reached it *)
      pose proof (tagged_refers_false _ _ _ _ (Hc Himm)) as Hn.
      assert (Hmv : forall x, mlk rp' x = if beqb x d then None else mlk rp x).
      { intros x. unfold mlk. rewrite Hm. apply alookup_adel. }
      constructor.
      + intros t0 de0 H0. now rewrite Ht.
      + intros x Hr. unfold treach, tag_refs. rewrite Ht.
        eapply reach_mono; [| apply incl_refl | exact (reach_del _ _ _ d _ _ Hr Hn)].
        intros d0 b0 rs H0 Hrs. cbn beta in H0. rewrite <- Hmv in H0. eauto.
      + intros x b0 Hr Hx. fold (mlk rp' x). rewrite Hmv. destruct (beqb x d) eqn:E; [|eauto].
        apply beqb_eq in E. subst x. contradiction.
      + intros x b0 _ Hx. rewrite Hb. eauto.
    - congruence.
  Qed.
End Keep.

(* ------------------------------------------------------------------------------------ *)
(* Over states and histories                                                            *)
(* ------------------------------------------------------------------------------------ *)

Section Histories.
  Variable hash : bytes -> bytes.
  Variable valid_digest : bytes -> bool.
  Variable valid_repo : bytes -> bool.
  Variable valid_tag : bytes -> bool.
  Variable decode_image : bytes -> option image_manifest.
  Variable decode_index : bytes -> option index_manifest.
  Variable cfg : config.

  Local Notation step := (step hash valid_digest valid_repo valid_tag decode_image decode_index cfg).
  Local Notation treach_ := (treach decode_image decode_index).
  Local Notation Inv := (Inv hash decode_image decode_index).
  Local Notation keeps_ := (keeps decode_image decode_index).
  Local Notation tagged_refers_to := (tagged_refers_to decode_image decode_index).

  Lemma inv_hashed st r : Inv st -> hashed hash (repo_of st r).
  Proof.
    intros HI. split; intros d b H.
    - rewrite <- iman_repo_of in H. exact (proj1 (inv_iman _ _ _ _ _ _ _ HI H)).
    - rewrite <- iblob_repo_of in H. exact (inv_iblob _ _ _ _ _ _ _ HI H).
  Qed.

  Hypothesis Himm : immutable_tags cfg = true.

  (* a tag's manifest is stored (immutable-tags mode only: elsewhere it can be deleted
     from under the tag) *)
  Definition tagman (rp : repo) : Prop :=
    forall t de, alookup t (tags rp) = Some de -> exists b, alookup (d_digest de) (manifests rp) = Some b.

  Lemma effect_tagman o r rp rp' :
    effect hash decode_image decode_index cfg o r rp rp' -> tagman rp -> tagman rp'.
  Proof.
    intros He HT.
    destruct He as [(Ht & Hm & Hb) | d b Ht Hm Hb | d Ho Hc Ht Hm Hb
                    | t data media subj Ho Hb Hm Hmt Ht Htn | d Ho Hc Ht Hb Hm | t Ho Hi Hm Hb Ht];
      unfold tagman in *.
    - rewrite Ht, Hm. exact HT.
    - rewrite Ht, Hm. exact HT.
    - rewrite Ht, Hm. exact HT.
    - intros t0 de0 H0. rewrite Hm, alookup_aset.
      destruct (beqb (d_digest de0) (hash data)) eqn:E; [eauto|].
      rewrite Ht in H0. destruct t as [|c t']; [eauto|].
      rewrite alookup_aset in H0. destruct (beqb t0 (c :: t')); [|eauto].
      injection H0 as <-. cbn in E. now rewrite beqb_refl in E.
    - pose proof (tagged_refers_false _ _ _ _ (Hc Himm)) as Hn.
      intros t0 de0 H0. rewrite Ht in H0. rewrite Hm, alookup_adel.
      destruct (beqb (d_digest de0) d) eqn:E; [|eauto].
      apply beqb_eq in E. subst d. exfalso. apply Hn. eapply tagged_is_reached; eauto.
    - congruence.
  Qed.

  Hypothesis hash_inj : forall a b, hash a = hash b -> a = b.

  Theorem step_keeps st o r : Inv st -> keeps_ (repo_of st r) (repo_of (fst (step st o)) r).
  Proof.
    intros HI. eapply (effect_keeps hash decode_image decode_index cfg Himm hash_inj o r).
    - apply step_effect.
    - now apply inv_hashed.
    - apply inv_hashed. now apply inv_step.
  Qed.

  Theorem history_keeps h : forall st r, Inv st -> keeps_ (repo_of st r) (repo_of (final step st h) r).
  Proof.
    induction h as [|o h IH]; intros st r HI; [apply keeps_refl|].
    rewrite final_cons. eapply keeps_trans; [apply step_keeps; exact HI|].
    apply IH. now apply inv_step.
  Qed.

  Theorem step_tagman st o r : tagman (repo_of st r) -> tagman (repo_of (fst (step st o)) r).
  Proof. apply (effect_tagman o r), step_effect. Qed.

  Theorem history_tagman h : forall st r, tagman (repo_of st r) -> tagman (repo_of (final step st h) r).
  Proof.
    induction h as [|o h IH]; intros st r HT; [exact HT|].
    rewrite final_cons. apply IH. now apply step_tagman.
  Qed.

  Lemma tagman_init r : tagman (repo_of init r).
  Proof. intros t de H. discriminate. Qed.
End Histories.

(* ------------------------------------------------------------------------------------ *)
(* What the read operations answer, in terms of the three views (any configuration)     *)
(* ------------------------------------------------------------------------------------ *)

Definition mem_read (o : op) : bool :=
  match o with
  | GetBlob _ _ | GetBlobRange _ _ _ _ | GetManifest _ _ | GetTag _ _ | ResolveBlob _ _
  | ResolveManifest _ _ | ResolveTag _ _ | Repositories _ | Tags _ _ | Referrers _ _ _ => true
  | _ => false
  end.

Definition is_delete (o : op) : bool :=
  match o with DeleteBlob _ _ | DeleteManifest _ _ | DeleteTag _ _ => true | _ => false end.

Section Results.
  Variable hash : bytes -> bytes.
  Variable valid_digest : bytes -> bool.
  Variable valid_repo : bytes -> bool.
  Variable valid_tag : bytes -> bool.
  Variable decode_image : bytes -> option image_manifest.
  Variable decode_index : bytes -> option index_manifest.
  Variable cfg : config.

  Local Notation step := (step hash valid_digest valid_repo valid_tag decode_image decode_index cfg).
  Local Notation blob_desc := (blob_desc hash).

  Lemma read_pure st o : mem_read o = true -> fst (step st o) = st.
  Proof. destruct o; try discriminate; reflexivity. Qed.

  Lemma resolve_tag_res st r t :
    snd (step st (ResolveTag r t)) =
    match itag st r t with
    | Some de => Ok (RDesc de)
    | None => Err (match get_repo st r with None => e_name_unknown | Some _ => e_manifest_unknown end)
    end.
  Proof. cbn. unfold itag. destruct (get_repo st r) as [rp|]; [|reflexivity]. now destruct (alookup t (tags rp)). Qed.

  Lemma get_tag_res st r t :
    snd (step st (GetTag r t)) =
    match itag st r t with
    | Some de => match iman st r (d_digest de) with
                 | Some b => Ok (RRead (blob_desc b) (b_data b))
                 | None => Err e_manifest_unknown
                 end
    | None => Err (match get_repo st r with None => e_name_unknown | Some _ => e_manifest_unknown end)
    end.
  Proof.
    cbn. unfold itag, iman, manifest_for. destruct (get_repo st r) as [rp|]; [|reflexivity].
    destruct (alookup t (tags rp)) as [de|]; [|reflexivity].
    now destruct (alookup (d_digest de) (manifests rp)).
  Qed.

  Lemma get_manifest_res st r d :
    snd (step st (GetManifest r d)) =
    match iman st r d with
    | Some b => Ok (RRead (blob_desc b) (b_data b))
    | None => Err (match get_repo st r with None => e_name_unknown | Some _ => e_manifest_unknown end)
    end.
  Proof.
    cbn. unfold iman, manifest_for. destruct (get_repo st r) as [rp|]; [|reflexivity].
    now destruct (alookup d (manifests rp)).
  Qed.

  Lemma resolve_manifest_res st r d :
    snd (step st (ResolveManifest r d)) =
    match iman st r d with
    | Some b => Ok (RDesc (blob_desc b))
    | None => Err (match get_repo st r with None => e_name_unknown | Some _ => e_manifest_unknown end)
    end.
  Proof.
    cbn. unfold iman, manifest_for. destruct (get_repo st r) as [rp|]; [|reflexivity].
    now destruct (alookup d (manifests rp)).
  Qed.

  Lemma get_blob_res st r d :
    snd (step st (GetBlob r d)) =
    match iblob st r d with
    | Some b => Ok (RRead (blob_desc b) (b_data b))
    | None => Err (match get_repo st r with None => e_name_unknown | Some _ => e_blob_unknown end)
    end.
  Proof.
    cbn. unfold iblob, blob_for. destruct (get_repo st r) as [rp|]; [|reflexivity].
    now destruct (alookup d (blobs rp)).
  Qed.

  Lemma resolve_blob_res st r d :
    snd (step st (ResolveBlob r d)) =
    match iblob st r d with
    | Some b => Ok (RDesc (blob_desc b))
    | None => Err (match get_repo st r with None => e_name_unknown | Some _ => e_blob_unknown end)
    end.
  Proof.
    cbn. unfold iblob, blob_for. destruct (get_repo st r) as [rp|]; [|reflexivity].
    now destruct (alookup d (blobs rp)).
  Qed.

  (* ---- tagged pushes in immutable-tags mode ---- *)

  Hypothesis Himm : immutable_tags cfg = true.

  (* a push under a bound tag answers the bound descriptor (and only when the bytes have its
     digest) or fails *)
  Lemma push_on_bound_tag st r t c m cur :
    t <> [] -> itag st r t = Some cur ->
    (snd (step st (PushManifest r t c m)) = Ok (RDesc cur) /\ d_digest cur = hash c) \/
    (exists e, snd (step st (PushManifest r t c m)) = Err e).
  Proof.
    intros Ht Hb. cbn [Mem.step].
    destruct (make_repo valid_repo st r) as [st1|] eqn:EM; [|right; eexists; reflexivity].
    rewrite (make_repo_get _ _ _ _ EM). rewrite itag_repo_of in Hb.
    destruct t as [|n t']; [congruence|].
    destruct (negb (valid_tag (n :: t'))); [right; eexists; reflexivity|]. rewrite Himm, Hb.
    destruct (beqb (hash c) (d_digest cur)) eqn:E; [|right; eexists; reflexivity].
    destruct (beqb (d_media cur) m); [|right; eexists; reflexivity].
    left. apply beqb_eq in E. split; [reflexivity | now symmetry].
  Qed.

  (* a successful tagged push leaves the tag bound to the answered descriptor, whose digest
     is the digest of the pushed bytes *)
  Lemma push_tagged_ok st r t c m de :
    t <> [] -> snd (step st (PushManifest r t c m)) = Ok (RDesc de) ->
    itag (fst (step st (PushManifest r t c m))) r t = Some de /\ d_digest de = hash c.
  Proof.
    intros Ht. cbn [Mem.step].
    destruct (make_repo valid_repo st r) as [st1|] eqn:EM; [|cbn [fst snd]; intro HX; discriminate HX].
    rewrite (make_repo_get _ _ _ _ EM).
    pose proof (repo_of_make _ _ _ _ EM r) as Hr.
    destruct t as [|n t']; [congruence|].
    destruct (negb (valid_tag (n :: t'))); [cbn [fst snd]; intro HX; discriminate HX|]. rewrite Himm.
    set (rp := repo_of st r) in *.
    assert (Hstore : forall X : state * result,
      X = (if true && match alookup (hash c) (manifests rp) with
                      | Some cur => negb (beqb (b_media cur) m)
                      | None => false
                      end
           then (st1, Err (E DENIED (s "mismatched media type")))
           else
           match check_descriptor hash valid_digest
                   {| d_media := m; d_digest := hash c; d_size := blen c; d_artifact := [] |} (Some c) with
           | Some e => (st1, Err (e_plain (s "invalid descriptor")))
           | None =>
               match check_manifest hash valid_digest decode_image decode_index rp m c with
               | None => (st1, Err (e_plain (s "invalid manifest")))
               | Some subject =>
                   (upd_repo st1 r (fun rp0 =>
                      rp_set_tag (n :: t') {| d_media := m; d_digest := hash c; d_size := blen c; d_artifact := [] |}
                        (rp_set_manifest (hash c) {| b_media := m; b_data := c; b_subject := subject |} rp0)),
                    Ok (RDesc {| d_media := m; d_digest := hash c; d_size := blen c; d_artifact := [] |}))
               end
           end) ->
      snd X = Ok (RDesc de) -> itag (fst X) r (n :: t') = Some de /\ d_digest de = hash c).
    { intros X ->.
      destruct (true && _); [cbn [fst snd]; intro HX; discriminate HX|].
      destruct (check_descriptor _ _ _ _); [cbn [fst snd]; intro HX; discriminate HX|].
      destruct (check_manifest _ _ _ _ _ _ _); [|cbn [fst snd]; intro HX; discriminate HX].
      cbn [fst snd]. intros H. injection H as <-. split; [|reflexivity].
      rewrite itag_upd, beqb_refl, (make_repo_get _ _ _ _ EM). cbn. apply alookup_aset_eq. }
    destruct (alookup (n :: t') (tags rp)) as [cur|] eqn:ET.
    - destruct (beqb (hash c) (d_digest cur)) eqn:E; [|cbn [fst snd]; intro HX; discriminate HX].
      destruct (beqb (d_media cur) m); [|cbn [fst snd]; intro HX; discriminate HX].
      cbn [fst snd]. intros H. injection H as <-. apply beqb_eq in E. split; [|now symmetry].
      rewrite itag_repo_of, Hr. exact ET.
    - apply Hstore. reflexivity.
  Qed.
End Results.

(* ------------------------------------------------------------------------------------ *)
(* Any configuration: an operation that is not a delete removes nothing                 *)
(* ------------------------------------------------------------------------------------ *)

Section Grows.
  Variable hash : bytes -> bytes.
  Variable valid_digest : bytes -> bool.
  Variable valid_repo : bytes -> bool.
  Variable valid_tag : bytes -> bool.
  Variable decode_image : bytes -> option image_manifest.
  Variable decode_index : bytes -> option index_manifest.
  Variable cfg : config.

  Local Notation step := (step hash valid_digest valid_repo valid_tag decode_image decode_index cfg).
  Local Notation Inv := (Inv hash decode_image decode_index).

  Hypothesis hash_inj : forall a b, hash a = hash b -> a = b.

  Record grows (rp rp' : repo) : Prop := {
    g_man : forall x b, alookup x (manifests rp) = Some b ->
              exists b', alookup x (manifests rp') = Some b' /\ b_data b' = b_data b;
    g_blob : forall x b, alookup x (blobs rp) = Some b ->
              exists b', alookup x (blobs rp') = Some b' /\ b_data b' = b_data b
  }.

  Lemma grows_refl rp : grows rp rp.
  Proof. constructor; eauto. Qed.
  Lemma grows_trans a b c : grows a b -> grows b c -> grows a c.
  Proof.
    intros [M1 B1] [M2 B2]. constructor; intros x bl H.
    - destruct (M1 _ _ H) as [b' [H' E']]. destruct (M2 _ _ H') as [b'' [H'' E'']]. exists b''. split; congruence.
    - destruct (B1 _ _ H) as [b' [H' E']]. destruct (B2 _ _ H') as [b'' [H'' E'']]. exists b''. split; congruence.
  Qed.

  Theorem step_grows st o r :
    Inv st -> is_delete o = false -> grows (repo_of st r) (repo_of (fst (step st o)) r).
  Proof.
    intros HI Hd.
    pose proof (inv_hashed hash decode_image decode_index st r HI) as [HM HB].
    pose proof (inv_hashed hash decode_image decode_index _ r
                  (inv_step hash valid_digest valid_repo valid_tag decode_image decode_index cfg st o HI)) as [HM' HB'].
    destruct (step_effect hash valid_digest valid_repo valid_tag decode_image decode_index cfg st o r)
      as [(Ht & Hm & Hb) | d b Ht Hm Hb | d Ho Hc Ht Hm Hb
          | t data media subj Ho Hb Hm Hmt Ht Htn | d Ho Hc Ht Hb Hm | t Ho Hi Hm Hb Ht];
      try (subst o; discriminate).
    - constructor; intros x bl H; [rewrite Hm | rewrite Hb]; eauto.
    - constructor; intros x bl H; [rewrite Hm; eauto|].
      rewrite Hb, alookup_aset. destruct (beqb x d) eqn:E; [|eauto].
      apply beqb_eq in E. subst x. exists b. split; [reflexivity|].
      apply hash_inj. rewrite (HB _ _ H). apply HB'. rewrite Hb. apply alookup_aset_eq.
    - constructor; intros x bl H; [|rewrite Hb; eauto].
      rewrite Hm, alookup_aset. destruct (beqb x (hash data)) eqn:E; [|eauto].
      apply beqb_eq in E. subst x. eexists. split; [reflexivity|]. cbn.
      apply hash_inj. now rewrite (HM _ _ H).
  Qed.

  (* the tag table: only a push under that very tag, or a delete, changes a binding *)
  Theorem step_tag_frame st o r t :
    is_delete o = false ->
    (forall c m, o <> PushManifest r t c m) \/ t = [] ->
    itag (fst (step st o)) r t = itag st r t.
  Proof.
    intros Hd Hp. rewrite !itag_repo_of.
    destruct (step_effect hash valid_digest valid_repo valid_tag decode_image decode_index cfg st o r)
      as [(Ht & Hm & Hb) | d b Ht Hm Hb | d Ho Hc Ht Hm Hb
          | t0 data media subj Ho Hb Hm Hmt Ht Htn | d Ho Hc Ht Hb Hm | t0 Ho Hi Hm Hb Ht];
      try (subst o; discriminate); try (now rewrite Ht).
    rewrite Ht. destruct t0 as [|n t0]; [reflexivity|].
    rewrite alookup_aset. destruct (beqb t (n :: t0)) eqn:E; [|reflexivity].
    apply beqb_eq in E. subst t. destruct Hp as [Hp|Hp]; [|discriminate].
    exfalso. exact (Hp _ _ Ho).
  Qed.
End Grows.

(* ------------------------------------------------------------------------------------ *)
(* The walk a client makes from a tag, and tag bindings                                 *)
(* ------------------------------------------------------------------------------------ *)

Section Walk.
  Variable decode_image : bytes -> option image_manifest.
  Variable decode_index : bytes -> option index_manifest.
  Local Notation treach_ := (treach decode_image decode_index).
  Local Notation reach_ := (reach decode_image decode_index).
  Local Notation mrefs_ := (mrefs decode_image decode_index).

  (* manifests visited when walking down from the tags: a tag's manifest, or something a
     visited stored manifest names as a manifest / subject *)
  Inductive walk (rp : repo) : bytes -> Prop :=
  | walk_tag t de : alookup t (tags rp) = Some de -> walk rp (d_digest de)
  | walk_child x b rs k de :
      walk rp x -> mlk rp x = Some b -> mrefs_ b = Some rs -> In (k, de) rs -> k <> KBlob ->
      walk rp (d_digest de).

  Lemma walk_below rp x :
    walk rp x -> forall b rs, mlk rp x = Some b -> mrefs_ b = Some rs ->
    forall y, reach_ (mlk rp) rs y -> treach_ rp y.
  Proof.
    induction 1 as [t de Ht | x b0 rs0 k de Hw IH Hb0 Hrs0 Hin Hk]; intros b rs Hb Hrs y Hy.
    - eapply reach_down; [eapply tag_ref_in; eauto | discriminate | exact Hb | exact Hrs | exact Hy].
    - apply (IH b0 rs0 Hb0 Hrs0). eapply reach_down; eauto.
  Qed.

  (* everything a visited stored manifest names is reached from a tag *)
  Lemma walk_names rp x b rs k de :
    walk rp x -> mlk rp x = Some b -> mrefs_ b = Some rs -> In (k, de) rs -> treach_ rp (d_digest de).
  Proof. intros Hw Hb Hrs Hin. eapply walk_below; eauto. eapply reach_here; eauto. Qed.

  Lemma walk_treach rp x : walk rp x -> treach_ rp x.
  Proof.
    destruct 1 as [t de Ht | x b rs k de Hw Hb Hrs Hin Hk].
    - eapply tagged_is_reached; eauto.
    - eapply walk_names; eauto.
  Qed.
End Walk.

(* ------------------------------------------------------------------------------------ *)
(* The fuel of the refersTo walk is enough when stored manifests form no cycle          *)
(* ------------------------------------------------------------------------------------ *)

Lemma filter_length_le {A} (p : A -> bool) l : (length (filter p l) <= length l)%nat.
Proof. induction l as [|a l IH]; cbn; [lia|]. destruct (p a); cbn; lia. Qed.

Lemma filter_length_mono {A} (p q : A -> bool) l :
  (forall a, p a = true -> q a = true) -> (length (filter p l) <= length (filter q l))%nat.
Proof.
  intros H. induction l as [|a l IH]; cbn; [lia|].
  destruct (p a) eqn:E; [rewrite (H a E); cbn; lia|]. destruct (q a); cbn; lia.
Qed.

Lemma filter_length_strict {A} (p q : A -> bool) l a0 :
  (forall a, p a = true -> q a = true) -> In a0 l -> p a0 = false -> q a0 = true ->
  (length (filter p l) < length (filter q l))%nat.
Proof.
  intros H. induction l as [|a l IH]; cbn; [intros []|].
  intros [->|Hin] Hp Hq.
  - rewrite Hp, Hq. cbn. pose proof (filter_length_mono p q l H). lia.
  - specialize (IH Hin Hp Hq). destruct (p a) eqn:E; [rewrite (H a E); cbn; lia|].
    destruct (q a); cbn; lia.
Qed.

Section Fuel.
  Variable decode_image : bytes -> option image_manifest.
  Variable decode_index : bytes -> option index_manifest.
  Local Notation refers_to := (refers_to decode_image decode_index).
  Local Notation tagged_refers_to := (tagged_refers_to decode_image decode_index).
  Local Notation mrefs_ := (mrefs decode_image decode_index).

  (* no chain of stored manifests returns to itself: there is a rank that strictly decreases
     along every manifest / subject reference between stored manifests.  With a real hash
     this is the statement that no manifest contains (transitively) its own digest. *)
  Definition acyclic (rp : repo) : Prop :=
    exists rk : bytes -> nat,
      forall m b rs k de b',
        mlk rp m = Some b -> mrefs_ b = Some rs -> In (k, de) rs -> k <> KBlob ->
        mlk rp (d_digest de) = Some b' -> (rk (d_digest de) < rk m)%nat.

  Section WithRank.
    Variable rp : repo.
    Variable rk : bytes -> nat.
    Hypothesis Hrk : forall m b rs k de b',
        mlk rp m = Some b -> mrefs_ b = Some rs -> In (k, de) rs -> k <> KBlob ->
        mlk rp (d_digest de) = Some b' -> (rk (d_digest de) < rk m)%nat.

    (* how many stored manifests rank below x *)
    Definition below (x : bytes) : nat :=
      length (filter (fun kv : bytes * blob => Nat.ltb (rk (fst kv)) (rk x)) (manifests rp)).

    Lemma below_child x b rs k de b' :
      mlk rp x = Some b -> mrefs_ b = Some rs -> In (k, de) rs -> k <> KBlob ->
      mlk rp (d_digest de) = Some b' -> (below (d_digest de) < below x)%nat.
    Proof.
      intros Hx Hrs Hin Hk Hy. pose proof (Hrk _ _ _ _ _ _ Hx Hrs Hin Hk Hy) as Hlt.
      unfold below. apply (filter_length_strict _ _ _ (d_digest de, b')).
      - intros [z bz] Hz. cbn in *. apply Nat.ltb_lt in Hz. apply Nat.ltb_lt. lia.
      - apply alookup_In. exact Hy.
      - cbn. apply Nat.ltb_irrefl.
      - cbn. now apply Nat.ltb_lt.
    Qed.

    Lemma below_stored x b : mlk rp x = Some b -> (below x < length (manifests rp))%nat.
    Proof.
      intros Hx. unfold below.
      pose proof (filter_length_strict (fun kv : bytes * blob => Nat.ltb (rk (fst kv)) (rk x)) (fun _ => true)
                    (manifests rp) (x, b) (fun _ _ => eq_refl) (alookup_In _ _ _ Hx)) as H.
      assert (H' := H (Nat.ltb_irrefl _) eq_refl).
      pose proof (filter_length_le (fun _ : bytes * blob => true) (manifests rp)). lia.
    Qed.

    Lemma refers_to_enough_fuel d : forall f refs,
      (1 <= f)%nat ->
      (forall k de b, In (k, de) refs -> k <> KBlob -> mlk rp (d_digest de) = Some b ->
                      (below (d_digest de) + 2 <= f)%nat) ->
      refers_to f rp refs d <> OutOfFuel.
    Proof.
      induction f as [|f IHf]; intros refs Hf Hb; [lia|].
      induction refs as [|[k de] rest IHr]; [rewrite refers_to_nil; discriminate|].
      rewrite refers_to_cons. destruct (beqb (d_digest de) d); [discriminate|].
      assert (Hrest : refers_to (S f) rp rest d <> OutOfFuel).
      { apply IHr. intros k' de' b' Hin. apply Hb. now right. }
      assert (Hman : k <> KBlob ->
                match alookup (d_digest de) (manifests rp) with
                | None => refers_to (S f) rp rest d
                | Some b =>
                    match mrefs_ b with
                    | None => Err (e_plain (s "cannot unmarshal"))
                    | Some rs =>
                        match refers_to f rp rs d with
                        | Ok true => Ok true
                        | Ok false => refers_to (S f) rp rest d
                        | other => other
                        end
                    end
                end <> OutOfFuel).
      { intros Hk. destruct (alookup (d_digest de) (manifests rp)) as [b|] eqn:E; [|exact Hrest].
        destruct (mrefs_ b) as [rs|] eqn:Er; [|discriminate].
        pose proof (Hb k de b (or_introl eq_refl) Hk E) as Hbx.
        assert (Hsub : refers_to f rp rs d <> OutOfFuel).
        { apply IHf; [lia|]. intros k' de' b' Hin' Hk' E'.
          pose proof (below_child _ _ _ _ _ _ E Er Hin' Hk' E'). lia. }
        destruct (refers_to f rp rs d) as [[|]| | |]; try discriminate; [exact Hrest | congruence]. }
      destruct k; [apply Hman; discriminate | exact Hrest | apply Hman; discriminate].
    Qed.
  End WithRank.

  (* the model's fuel never runs out on an acyclic store: [OutOfFuel] stands for the
     non-terminating Go recursion only *)
  Theorem tagged_refers_to_fuel rp d : acyclic rp -> tagged_refers_to rp d <> OutOfFuel.
  Proof.
    intros [rk Hrk]. unfold Mem.tagged_refers_to. apply (refers_to_enough_fuel rp rk Hrk); [lia|].
    intros k de b _ _ Hst. pose proof (below_stored rp rk _ _ Hst). lia.
  Qed.
End Fuel.

(* ------------------------------------------------------------------------------------ *)
(* The property, on results, for every history of the in-memory registry in             *)
(* immutable-tags mode (from the empty registry)                                        *)
(* ------------------------------------------------------------------------------------ *)

(* an interleaving of the operation sequences of any number of threads *)
Inductive schedule {A} : list (list A) -> list A -> Prop :=
| sch_done ths : Forall (fun th => th = []) ths -> schedule ths []
| sch_step ths1 a th ths2 m :
    schedule (ths1 ++ th :: ths2) m -> schedule (ths1 ++ (a :: th) :: ths2) (a :: m).

Section Observed.
  Variable hash : bytes -> bytes.
  Variable valid_digest : bytes -> bool.
  Variable valid_repo : bytes -> bool.
  Variable valid_tag : bytes -> bool.
  Variable decode_image : bytes -> option image_manifest.
  Variable decode_index : bytes -> option index_manifest.
  Variable cfg : config.

  Local Notation step := (step hash valid_digest valid_repo valid_tag decode_image decode_index cfg).
  Local Notation Inv := (Inv hash decode_image decode_index).
  Local Notation blob_desc := (blob_desc hash).
  Local Notation treach_ := (treach decode_image decode_index).
  Local Notation keeps_ := (keeps decode_image decode_index).

  Hypothesis Himm : immutable_tags cfg = true.

  (* a tag stays bound to the same descriptor: no collision-freeness needed *)
  Lemma step_tag_kept st o r t de : itag st r t = Some de -> itag (fst (step st o)) r t = Some de.
  Proof.
    rewrite !itag_repo_of. intros H.
    destruct (step_effect hash valid_digest valid_repo valid_tag decode_image decode_index cfg st o r)
      as [(Ht & _) | d b Ht _ _ | d _ _ Ht _ _ | t0 data media subj _ _ _ _ Ht Htn | d _ _ Ht _ _ | t0 _ Hi _ _ _];
      try (now rewrite Ht); [|congruence].
    rewrite Ht. destruct t0 as [|n t0]; [exact H|].
    rewrite alookup_aset. destruct (beqb t (n :: t0)) eqn:E; [|exact H].
    apply beqb_eq in E. subst t. rewrite (Htn Himm ltac:(discriminate)) in H. discriminate.
  Qed.

  Lemma history_tag_kept h : forall st r t de,
    itag st r t = Some de -> itag (final step st h) r t = Some de.
  Proof.
    induction h as [|o h IH]; intros st r t de H; [exact H|].
    rewrite final_cons. apply IH. now apply step_tag_kept.
  Qed.

  (* once ResolveTag answered a descriptor it answers that descriptor after every
     continuation, and GetTag succeeds with content of that digest *)
  Theorem resolve_forever h1 h2 r t de :
    let s1 := final step init h1 in
    snd (step s1 (ResolveTag r t)) = Ok (RDesc de) ->
    let s2 := final step s1 h2 in
    snd (step s2 (ResolveTag r t)) = Ok (RDesc de) /\
    exists b, snd (step s2 (GetTag r t)) = Ok (RRead (blob_desc b) (b_data b)) /\
              d_digest (blob_desc b) = d_digest de.
  Proof.
    cbn zeta. rewrite resolve_tag_res.
    destruct (itag (final step init h1) r t) as [de0|] eqn:Et; [|discriminate].
    intros H. injection H as ->.
    pose proof (history_tag_kept h2 _ _ _ _ Et) as Et2.
    rewrite resolve_tag_res, get_tag_res, Et2. split; [reflexivity|].
    rewrite <- final_app.
    pose proof (history_tagman hash valid_digest valid_repo valid_tag decode_image decode_index cfg Himm
                  (h1 ++ h2) init r (tagman_init r)) as HT.
    rewrite <- final_app in Et2. rewrite itag_repo_of in Et2.
    destruct (HT _ _ Et2) as [b Hb]. rewrite iman_repo_of, Hb. exists b. split; [reflexivity|].
    rewrite <- iman_repo_of in Hb.
    exact (proj1 (inv_iman _ _ _ _ _ _ _ (inv_reachable hash valid_digest valid_repo valid_tag
                                            decode_image decode_index cfg (h1 ++ h2)) Hb)).
  Qed.

  Hypothesis hash_inj : forall a b, hash a = hash b -> a = b.

  (* once GetTag returned bytes it returns exactly that answer after every continuation *)
  Theorem get_tag_forever h1 h2 r t de data :
    let s1 := final step init h1 in
    snd (step s1 (GetTag r t)) = Ok (RRead de data) ->
    snd (step (final step s1 h2) (GetTag r t)) = Ok (RRead de data).
  Proof.
    cbn zeta. rewrite get_tag_res.
    destruct (itag (final step init h1) r t) as [tde|] eqn:Et; [|discriminate].
    destruct (iman (final step init h1) r (d_digest tde)) as [b|] eqn:Em; [|discriminate].
    intros H. injection H as <- <-.
    pose proof (history_keeps hash valid_digest valid_repo valid_tag decode_image decode_index cfg Himm hash_inj
                  h2 (final step init h1) r (inv_reachable _ _ _ _ _ _ _ h1)) as HK.
    rewrite get_tag_res, (history_tag_kept h2 _ _ _ _ Et).
    rewrite iman_repo_of in Em. rewrite itag_repo_of in Et.
    destruct (k_man _ _ _ _ HK _ _ (tagged_is_reached _ _ _ _ _ Et) Em) as [b' [Hb' [Hd Hm]]].
    rewrite iman_repo_of, Hb'. unfold Mem.blob_desc. now rewrite Hd, Hm.
  Qed.

  (* a successful push under a tag makes the tag resolve to the digest of the pushed bytes,
     and GetTag return those bytes, forever *)
  Theorem tagged_push_forever h1 h2 r t c m de :
    t <> [] ->
    let s1 := final step init h1 in
    snd (step s1 (PushManifest r t c m)) = Ok (RDesc de) ->
    let s2 := final step (fst (step s1 (PushManifest r t c m))) h2 in
    d_digest de = hash c /\
    snd (step s2 (ResolveTag r t)) = Ok (RDesc de) /\
    exists de', snd (step s2 (GetTag r t)) = Ok (RRead de' c) /\ d_digest de' = hash c.
  Proof.
    intros Ht. cbn zeta. intros Hp.
    destruct (push_tagged_ok hash valid_digest valid_repo valid_tag decode_image decode_index cfg Himm
                _ _ _ _ _ _ Ht Hp) as [Hb Hd].
    split; [exact Hd|].
    assert (Es : fst (step (final step init h1) (PushManifest r t c m))
                 = final step init (h1 ++ [PushManifest r t c m])).
    { rewrite final_app, final_cons. reflexivity. }
    rewrite Es in *. rewrite <- final_app.
    set (h := (h1 ++ [PushManifest r t c m]) ++ h2).
    pose proof (history_tag_kept h2 _ _ _ _ Hb) as Hb2. rewrite <- final_app in Hb2. fold h in Hb2.
    rewrite resolve_tag_res, get_tag_res, Hb2. split; [reflexivity|].
    pose proof (history_tagman hash valid_digest valid_repo valid_tag decode_image decode_index cfg Himm
                  h init r (tagman_init r)) as HT.
    rewrite itag_repo_of in Hb2. destruct (HT _ _ Hb2) as [b Hm]. rewrite <- iman_repo_of in Hm.
    rewrite Hm.
    pose proof (proj1 (inv_iman _ _ _ _ _ _ _ (inv_reachable hash valid_digest valid_repo valid_tag
                                                 decode_image decode_index cfg h) Hm)) as Hh.
    rewrite Hd in Hh. apply hash_inj in Hh. rewrite Hh. eexists. split; [reflexivity|]. cbn. now rewrite Hh.
  Qed.

  (* everything a tag reaches through stored manifests and that is retrievable stays
     retrievable with the same bytes, after every continuation *)
  Theorem tagged_closure_kept h1 h2 r x :
    let s1 := final step init h1 in
    let s2 := final step s1 h2 in
    treach_ (repo_of s1 r) x ->
    treach_ (repo_of s2 r) x /\
    (forall de data, snd (step s1 (GetBlob r x)) = Ok (RRead de data) ->
       exists de', snd (step s2 (GetBlob r x)) = Ok (RRead de' data) /\ d_digest de' = d_digest de) /\
    (forall de data, snd (step s1 (GetManifest r x)) = Ok (RRead de data) ->
       snd (step s2 (GetManifest r x)) = Ok (RRead de data)).
  Proof.
    cbn zeta. intros Hr.
    pose proof (history_keeps hash valid_digest valid_repo valid_tag decode_image decode_index cfg Himm hash_inj
                  h2 (final step init h1) r (inv_reachable _ _ _ _ _ _ _ h1)) as HK.
    split; [now apply (k_reach _ _ _ _ HK)|]. split.
    - intros de data. rewrite !get_blob_res, !iblob_repo_of.
      destruct (alookup x (blobs (repo_of (final step init h1) r))) as [b|] eqn:E; [|discriminate].
      intros H. injection H as <- <-.
      destruct (k_blob _ _ _ _ HK _ _ Hr E) as [b' [-> Hd]]. eexists. split; [now rewrite Hd|].
      cbn. now rewrite Hd.
    - intros de data. rewrite !get_manifest_res, !iman_repo_of.
      destruct (alookup x (manifests (repo_of (final step init h1) r))) as [b|] eqn:E; [|discriminate].
      intros H. injection H as <- <-.
      destruct (k_man _ _ _ _ HK _ _ Hr E) as [b' [-> [Hd Hm]]]. unfold Mem.blob_desc. now rewrite Hd, Hm.
  Qed.

  (* a delete that succeeds removes nothing a tag reaches: the refusal is exactly the
     refersTo answer, which is sound *)
  Theorem delete_only_unreached st r d :
    (snd (step st (DeleteBlob r d)) = Ok RUnit \/ snd (step st (DeleteManifest r d)) = Ok RUnit) ->
    ~ treach_ (repo_of st r) d.
  Proof.
    intros H Hr.
    assert (HD : tagged_refers_to decode_image decode_index (repo_of st r) d <> Ok false).
    { intros HF. now apply (tagged_refers_false _ _ _ _ HF). }
    destruct H as [H|H]; cbn [Mem.step] in H.
    - destruct (blob_for st r d); try discriminate.
      unfold repo_of in HD, Hr. destruct (get_repo st r) as [rp|]; [|].
      + rewrite Himm in H. destruct (tagged_refers_to _ _ rp d) as [[|]| | |]; try discriminate. congruence.
      + inversion Hr as [? ? ? Hin|? ? ? ? ? ? Hin]; destruct Hin.
    - destruct (manifest_for st r d); try discriminate.
      unfold repo_of in HD, Hr. destruct (get_repo st r) as [rp|]; [|].
      + rewrite Himm in H. destruct (tagged_refers_to _ _ rp d) as [[|]| | |]; try discriminate. congruence.
      + inversion Hr as [? ? ? Hin|? ? ? ? ? ? Hin]; destruct Hin.
  Qed.

  (* DeleteTag never succeeds *)
  Theorem delete_tag_refused st r t : snd (step st (DeleteTag r t)) <> Ok RUnit.
  Proof.
    cbn. destruct (get_repo st r) as [rp|]; [|discriminate].
    destruct (alookup t (tags rp)); [|discriminate]. rewrite Himm. discriminate.
  Qed.

  (* concurrency: every operation is one atomic step of the registry (the lock table of
     C08), so a concurrent execution is some interleaving of the threads' operations; what
     holds after every history holds after every interleaving *)
  Theorem concurrent_keeps ths h st r :
    schedule ths h -> Inv st -> keeps_ (repo_of st r) (repo_of (final step st h) r).
  Proof. intros _. apply history_keeps; assumption. Qed.
End Observed.

(* ------------------------------------------------------------------------------------ *)
(* A boundary of the closure clause, on the model (and on the real registry: scenario
   incomplete_at_tagging of harness/cmd/c14).  PushManifest checks only the DIRECT
   references of what is pushed, so a child manifest whose layer was deleted while the
   child was untagged can afterwards be tagged through an index.  The tag then reaches a
   digest that is not stored.  The theorems above claim that what is stored and reached
   stays stored; they do not claim that everything reached is stored. *)
(* ------------------------------------------------------------------------------------ *)

Example closure_can_be_incomplete_at_tagging :
  let hash := fun b : bytes => b in
  let dsc := fun (m d : bytes) => {| d_media := m; d_digest := d; d_size := 1; d_artifact := [] |} in
  let di := fun b : bytes => if beqb b (s "C") then
              Some {| im_layers := [dsc (s "l") (s "L")]; im_config := dsc (s "c") (s "K"); im_subject := None |}
            else None in
  let dx := fun b : bytes => if beqb b (s "I") then
              Some {| ix_manifests := [dsc MT_IMAGE (s "C")]; ix_subject := None |} else None in
  let step := step hash (fun _ => true) (fun _ => true) (fun _ => true) di dx {| immutable_tags := true |} in
  let h := [ PushBlob (s "r") (dsc (s "l") (s "L")) (s "L");
             PushBlob (s "r") (dsc (s "c") (s "K")) (s "K");
             PushManifest (s "r") [] (s "C") MT_IMAGE;
             DeleteBlob (s "r") (s "L");
             PushManifest (s "r") (s "t") (s "I") MT_INDEX ] in
  map is_ok (snd (run step init h)) = [true; true; true; true; true] /\
  treach di dx (repo_of (final step init h) (s "r")) (s "L") /\
  iblob (final step init h) (s "r") (s "L") = None.
Proof.
  intros hash dsc di dx step h. split; [vm_compute; reflexivity|]. split; [|vm_compute; reflexivity].
  apply (reach_down di dx _ _ KManifest
           {| d_media := MT_INDEX; d_digest := s "I"; d_size := 1; d_artifact := [] |}
           {| b_media := MT_INDEX; b_data := s "I"; b_subject := [] |}
           [(KManifest, dsc MT_IMAGE (s "C"))]);
    [vm_compute; now left | discriminate | vm_compute; reflexivity | vm_compute; reflexivity |].
  apply (reach_down di dx _ _ KManifest (dsc MT_IMAGE (s "C"))
           {| b_media := MT_IMAGE; b_data := s "C"; b_subject := [] |}
           [(KBlob, dsc (s "l") (s "L")); (KBlob, dsc (s "c") (s "K"))]);
    [now left | discriminate | vm_compute; reflexivity | vm_compute; reflexivity |].
  apply (reach_here di dx _ _ KBlob (dsc (s "l") (s "L"))). now left.
Qed.
