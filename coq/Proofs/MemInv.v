(* The representation invariant of the in-memory registry and its preservation by every
   operation (hence for every reachable state).  Its content clause is C01's store
   invariant: whatever is stored under a digest hashes to that digest. *)
From Coq Require Import String.
From OCI Require Import Model.Mem Model.MemSpec Proofs.MemBasics.

Section Inv.
  Variable hash : bytes -> bytes.
  Variable valid_digest : bytes -> bool.
  Variable valid_repo : bytes -> bool.
  Variable valid_tag : bytes -> bool.
  Variable decode_image : bytes -> option image_manifest.
  Variable decode_index : bytes -> option index_manifest.
  Variable cfg : config.

  Local Notation step := (step hash valid_digest valid_repo valid_tag decode_image decode_index cfg).
  Local Notation manifest_refs := (manifest_refs decode_image decode_index).
  Local Notation subject_of := (subject_of decode_image decode_index).
  Local Notation check_refs := (check_refs hash valid_digest).
  Local Notation check_manifest := (check_manifest hash valid_digest decode_image decode_index).
  Local Notation check_descriptor := (check_descriptor hash valid_digest).
  Local Notation make_repo := (make_repo valid_repo).

  (* the subject a reference list names: the digest of its last KSubject entry *)
  Fixpoint refs_subject (refs : list (refkind * desc)) (acc : bytes) : bytes :=
    match refs with
    | [] => acc
    | (KSubject, de) :: rest => refs_subject rest (d_digest de)
    | _ :: rest => refs_subject rest acc
    end.

  Lemma check_refs_subject rp refs acc x :
    check_refs rp refs acc = Some x -> x = refs_subject refs acc.
  Proof.
    revert acc; induction refs as [|[k de] rest IH]; cbn; intros acc H; [congruence|].
    destruct (check_descriptor de None); [discriminate|].
    destruct k.
    - now apply IH.
    - destruct (alookup (d_digest de) (blobs rp)); [now apply IH | discriminate].
    - destruct (alookup (d_digest de) (manifests rp)); [now apply IH | discriminate].
  Qed.

  Lemma refs_subject_app l1 l2 acc :
    refs_subject (l1 ++ l2) acc = refs_subject l2 (refs_subject l1 acc).
  Proof.
    revert acc; induction l1 as [|[k de] l1 IH]; intros acc; cbn; [reflexivity|].
    destruct k; apply IH.
  Qed.
  Lemma refs_subject_blobs l acc : refs_subject (map (pair KBlob) l) acc = acc.
  Proof. induction l; cbn; auto. Qed.
  Lemma refs_subject_mans l acc : refs_subject (map (pair KManifest) l) acc = acc.
  Proof. induction l; cbn; auto. Qed.

  Lemma subject_of_refs media data refs :
    manifest_refs media data = Some refs -> subject_of media data = refs_subject refs [].
  Proof.
    unfold Mem.manifest_refs, MemSpec.subject_of.
    destruct (beqb media MT_IMAGE).
    - destruct (decode_image data) as [m|]; cbn; [|discriminate]. intros H; injection H as <-.
      unfold image_refs. rewrite !refs_subject_app, refs_subject_blobs. cbn.
      destruct (im_subject m); reflexivity.
    - destruct (beqb media MT_INDEX).
      + destruct (decode_index data) as [m|]; cbn; [|discriminate]. intros H; injection H as <-.
        unfold index_refs. rewrite !refs_subject_app, refs_subject_mans.
        destruct (ix_subject m); reflexivity.
      + intros H; injection H as <-. reflexivity.
  Qed.

  (* a stored manifest decodes under its stored media type and its cached subject is the
     subject its content names *)
  Definition man_ok (b : blob) : Prop :=
    manifest_refs (b_media b) (b_data b) <> None /\ b_subject b = subject_of (b_media b) (b_data b).

  Record repo_ok (st : state) (r : bytes) (rp : repo) : Prop := {
    ok_tkeys : NoDup (akeys (tags rp));
    ok_mkeys : NoDup (akeys (manifests rp));
    ok_bkeys : NoDup (akeys (blobs rp));
    ok_blob : forall d b, alookup d (blobs rp) = Some b -> hash (b_data b) = d;
    ok_man : forall d b, alookup d (manifests rp) = Some b -> hash (b_data b) = d /\ man_ok b;
    ok_up : forall id i, alookup id (uploads rp) = Some i ->
                         exists b, nth_error (bufs st) (N.to_nat i) = Some b /\ u_repo b = r
  }.

  Record Inv (st : state) : Prop := {
    inv_keys : NoDup (akeys (repos st));
    inv_repo : forall r rp, get_repo st r = Some rp -> repo_ok st r rp;
    inv_buf : forall i b, nth_error (bufs st) i = Some b -> get_repo st (u_repo b) <> None
  }.

  Lemma inv_init : Inv init.
  Proof.
    constructor; cbn.
    - constructor.
    - intros r rp H. discriminate.
    - intros [|i] b H; discriminate.
  Qed.

  Lemma empty_repo_ok st r : repo_ok st r empty_repo.
  Proof. constructor; cbn; try constructor; intros; discriminate. Qed.

  (* store content clause, as views *)
  Lemma inv_iblob st r d b : Inv st -> iblob st r d = Some b -> hash (b_data b) = d.
  Proof.
    intros HI. unfold iblob. destruct (get_repo st r) as [rp|] eqn:E; [|discriminate].
    intros H. eapply ok_blob; [eapply inv_repo; eauto | exact H].
  Qed.
  Lemma inv_iman st r d b : Inv st -> iman st r d = Some b -> hash (b_data b) = d /\ man_ok b.
  Proof.
    intros HI. unfold iman. destruct (get_repo st r) as [rp|] eqn:E; [|discriminate].
    intros H. eapply ok_man; [eapply inv_repo; eauto | exact H].
  Qed.

  (* repo_ok does not depend on the repository table, only on the buffers *)
  Lemma repo_ok_bufs st st' r rp :
    (forall i b, nth_error (bufs st) i = Some b -> exists b', nth_error (bufs st') i = Some b' /\ u_repo b' = u_repo b) ->
    repo_ok st r rp -> repo_ok st' r rp.
  Proof.
    intros Hb [A B C D E F]. constructor; auto.
    intros id i Hi. destruct (F id i Hi) as [b [Hn Hr]].
    destruct (Hb _ _ Hn) as [b' [Hn' Hr']]. exists b'. split; congruence.
  Qed.

  Lemma inv_make_repo st r st1 : Inv st -> make_repo st r = Some st1 -> Inv st1.
  Proof.
    intros HI H. pose proof (make_repo_some _ _ _ _ H) as (_ & _ & Hb & _ & Hg).
    constructor.
    - eapply make_repo_keys; eauto. apply HI.
    - intros r' rp' Hr. rewrite Hg in Hr.
      assert (Hbufs : forall i b, nth_error (bufs st) i = Some b ->
                exists b', nth_error (bufs st1) i = Some b' /\ u_repo b' = u_repo b)
        by (intros i b Hn; exists b; rewrite Hb; auto).
      destruct (get_repo st r') as [rp0|] eqn:E.
      + injection Hr as <-. eapply repo_ok_bufs; [exact Hbufs|]. eapply inv_repo; eauto.
      + destruct (beqb r' r); [|discriminate]. injection Hr as <-. apply empty_repo_ok.
    - intros i b Hn. rewrite Hb in Hn. rewrite Hg. pose proof (inv_buf _ HI _ _ Hn) as Hne.
      destruct (get_repo st (u_repo b)); congruence.
  Qed.

  (* updating one repository with a function that keeps it well-formed and keeps its uploads *)
  Lemma inv_upd_repo st r f :
    Inv st ->
    (forall rp, get_repo st r = Some rp -> repo_ok st r rp -> repo_ok st r (f rp)) ->
    Inv (upd_repo st r f).
  Proof.
    intros HI Hf.
    assert (Hbufs : forall i b, nth_error (bufs st) i = Some b ->
              exists b', nth_error (bufs (upd_repo st r f)) i = Some b' /\ u_repo b' = u_repo b)
      by (intros i b Hn; exists b; rewrite bufs_upd_repo; auto).
    constructor.
    - rewrite akeys_repos_upd_repo. apply HI.
    - intros r' rp' Hr. rewrite get_repo_upd_repo in Hr.
      destruct (beqb r' r) eqn:B.
      + apply beqb_eq in B. subst r'. destruct (get_repo st r) as [rp|] eqn:E; [|discriminate].
        cbn in Hr. injection Hr as <-. eapply repo_ok_bufs; [exact Hbufs|].
        apply Hf; auto. eapply inv_repo; eauto.
      + eapply repo_ok_bufs; [exact Hbufs|]. eapply inv_repo; eauto.
    - intros i b Hn. rewrite bufs_upd_repo in Hn. rewrite get_repo_upd_repo.
      pose proof (inv_buf _ HI _ _ Hn) as Hne.
      destruct (beqb (u_repo b) r) eqn:B; [|exact Hne].
      apply beqb_eq in B. rewrite B in Hne. destruct (get_repo st r); cbn; congruence.
  Qed.

  Lemma repo_ok_set_blob st r rp d b :
    hash (b_data b) = d -> repo_ok st r rp -> repo_ok st r (rp_set_blob d b rp).
  Proof.
    intros Hh [A B C D E F]. constructor; cbn; auto.
    - now apply NoDup_akeys_aset.
    - intros d' b' H. rewrite alookup_aset in H. destruct (beqb d' d) eqn:Bq.
      + apply beqb_eq in Bq. injection H as <-. congruence.
      + eauto.
  Qed.
  Lemma repo_ok_del_blob st r rp d : repo_ok st r rp -> repo_ok st r (rp_del_blob d rp).
  Proof.
    intros [A B C D E F]. constructor; cbn; auto.
    - now apply NoDup_akeys_adel.
    - intros d' b' H. rewrite alookup_adel in H. destruct (beqb d' d); [discriminate | eauto].
  Qed.
  Lemma repo_ok_set_manifest st r rp d b :
    hash (b_data b) = d -> man_ok b -> repo_ok st r rp -> repo_ok st r (rp_set_manifest d b rp).
  Proof.
    intros Hh Hm [A B C D E F]. constructor; cbn; auto.
    - now apply NoDup_akeys_aset.
    - intros d' b' H. rewrite alookup_aset in H. destruct (beqb d' d) eqn:Bq.
      + apply beqb_eq in Bq. injection H as <-. subst. auto.
      + eauto.
  Qed.
  Lemma repo_ok_del_manifest st r rp d : repo_ok st r rp -> repo_ok st r (rp_del_manifest d rp).
  Proof.
    intros [A B C D E F]. constructor; cbn; auto.
    - now apply NoDup_akeys_adel.
    - intros d' b' H. rewrite alookup_adel in H. destruct (beqb d' d); [discriminate | eauto].
  Qed.
  Lemma repo_ok_set_tag st r rp t de : repo_ok st r rp -> repo_ok st r (rp_set_tag t de rp).
  Proof. intros [A B C D E F]. constructor; cbn; auto. now apply NoDup_akeys_aset. Qed.
  Lemma repo_ok_del_tag st r rp t : repo_ok st r rp -> repo_ok st r (rp_del_tag t rp).
  Proof. intros [A B C D E F]. constructor; cbn; auto. now apply NoDup_akeys_adel. Qed.

  (* buffer updates that keep every buffer's repository *)
  Lemma inv_with_buf st i f :
    Inv st -> (forall b, u_repo (f b) = u_repo b) -> Inv (with_buf st i f).
  Proof.
    intros HI Hf.
    assert (Hbufs : forall j b, nth_error (bufs st) j = Some b ->
              exists b', nth_error (bufs (with_buf st i f)) j = Some b' /\ u_repo b' = u_repo b).
    { intros j b Hn. cbn. rewrite nth_error_upd_nth, Hn. destruct (Nat.eqb j i); cbn; eauto. }
    constructor; cbn.
    - apply HI.
    - intros r rp Hr. eapply repo_ok_bufs; [exact Hbufs|]. eapply inv_repo; eauto.
    - intros j b Hn. rewrite nth_error_upd_nth in Hn.
      destruct (nth_error (bufs st) j) as [b0|] eqn:E.
      + pose proof (inv_buf _ HI _ _ E) as Hne. unfold get_repo in *. cbn.
        destruct (Nat.eqb j i); cbn in Hn; injection Hn as <-; [rewrite Hf|]; exact Hne.
      + destruct (Nat.eqb j i); discriminate.
  Qed.

  Lemma check_manifest_ok rp media data subj :
    check_manifest rp media data = Some subj ->
    manifest_refs media data <> None /\ subj = subject_of media data.
  Proof.
    unfold Mem.check_manifest. destruct (manifest_refs media data) as [refs|] eqn:E; [|discriminate].
    intros H. split; [discriminate|]. apply check_refs_subject in H. cbn in H.
    rewrite (subject_of_refs _ _ _ E). exact H.
  Qed.

  (* creating a new upload session *)
  Lemma inv_new_upload st r rp id off nx :
    Inv st -> get_repo st r = Some rp ->
    Inv {| repos := aset r (rp_set_upload id (N.of_nat (length (bufs st))) rp) (repos st);
           bufs := bufs st ++ [new_buffer r id off]; next_id := nx |}.
  Proof.
    intros HI ER.
    set (st' := {| repos := _; bufs := _; next_id := _ |}).
    assert (Hg : forall r', get_repo st' r' =
                   if beqb r' r then Some (rp_set_upload id (N.of_nat (length (bufs st))) rp) else get_repo st r').
    { intros r'. unfold get_repo, st'; cbn. apply alookup_aset. }
    assert (Hbufs : forall j b, nth_error (bufs st) j = Some b ->
              exists b', nth_error (bufs st') j = Some b' /\ u_repo b' = u_repo b).
    { intros j b Hn. exists b. split; [|reflexivity]. unfold st'; cbn.
      rewrite nth_error_app1; [exact Hn|]. apply nth_error_Some. rewrite Hn. discriminate. }
    constructor.
    - unfold st'; cbn. apply NoDup_akeys_aset. apply HI.
    - intros r' rp' Hr. rewrite Hg in Hr. destruct (beqb r' r) eqn:B.
      + apply beqb_eq in B. subst r'. injection Hr as <-.
        pose proof (inv_repo _ HI _ _ ER) as [A Bm C D E F].
        constructor; cbn; auto.
        intros id' i Hi. rewrite alookup_aset in Hi. destruct (beqb id' id).
        * injection Hi as <-. exists (new_buffer r id off). split; [|reflexivity].
          rewrite Nat2N.id. rewrite nth_error_app2 by apply le_n. now rewrite Nat.sub_diag.
        * destruct (F _ _ Hi) as [b [Hn Hrb]]. destruct (Hbufs _ _ Hn) as [b' [Hn' Hr']].
          exists b'. split; [exact Hn' | congruence].
      + eapply repo_ok_bufs; [exact Hbufs|]. eapply inv_repo; eauto.
    - intros j b Hn. unfold st' in Hn; cbn in Hn. rewrite Hg.
      destruct (Nat.lt_ge_cases j (length (bufs st))) as [Hlt|Hge].
      + rewrite nth_error_app1 in Hn by exact Hlt. pose proof (inv_buf _ HI _ _ Hn) as Hne.
        destruct (beqb (u_repo b) r); [discriminate | exact Hne].
      + rewrite nth_error_app2 in Hn by exact Hge.
        destruct (j - length (bufs st))%nat as [|k]; cbn in Hn.
        * injection Hn as <-. cbn. rewrite beqb_refl. discriminate.
        * destruct k; discriminate.
  Qed.

  Lemma inv_chunked st r id off :
    Inv st ->
    Inv (fst (match make_repo st r with
        | None => (st, Err e_name_invalid)
        | Some st1 =>
            match get_repo st1 r with
            | None => (st1, Err e_name_invalid)
            | Some rp =>
                match alookup id (uploads rp) with
                | Some i =>
                    (with_buf st1 (N.to_nat i) (fun b =>
                       {| u_repo := u_repo b; u_id := u_id b; u_buf := u_buf b; u_check := off;
                          u_committed := u_committed b; u_desc := u_desc b; u_err := u_err b |}),
                     Ok (RWriter i))
                | None =>
                    let id' := match id with [] => fresh_id (next_id st1) | _ => id end in
                    let i := N.of_nat (length (bufs st1)) in
                    ({| repos := aset r (rp_set_upload id' i rp) (repos st1);
                        bufs := bufs st1 ++ [new_buffer r id' off];
                        next_id := match id with [] => N.succ (next_id st1) | _ => next_id st1 end |},
                     Ok (RWriter i))
                end
            end
        end : state * result)).
  Proof.
    intros HI. destruct (make_repo st r) as [st1|] eqn:EM; [|exact HI].
    pose proof (inv_make_repo _ _ _ HI EM) as HI1.
    destruct (get_repo st1 r) as [rp|] eqn:ER; [|exact HI1].
    destruct (alookup id (uploads rp)) as [i|] eqn:EU; cbn.
    - apply inv_with_buf; auto.
    - apply inv_new_upload; auto.
  Qed.

  Theorem inv_step st o : Inv st -> Inv (fst (step st o)).
  Proof.
    intros HI. destruct o; cbn [Mem.step fst]; try exact HI.
    - (* PushBlob *)
      destruct (check_descriptor de (Some content)) eqn:EC; [exact HI|].
      destruct (make_repo st r) as [st1|] eqn:EM; [|exact HI]. cbn.
      apply inv_upd_repo; [eapply inv_make_repo; eauto|].
      intros rp _ Hok. apply repo_ok_set_blob; [|exact Hok]. cbn.
      unfold Mem.check_descriptor in EC. destruct (negb (valid_digest (d_digest de))); [discriminate|].
      destruct (negb (beqb (hash content) (d_digest de))) eqn:EH; [discriminate|].
      apply negb_false_iff, beqb_eq in EH. exact EH.
    - (* PushBlobChunked *) apply inv_chunked; exact HI.
    - (* PushBlobChunkedResume *) apply inv_chunked; exact HI.
    - (* MountBlob *)
      destruct (make_repo st to) as [st1|] eqn:EM; [|exact HI].
      pose proof (inv_make_repo _ _ _ HI EM) as HI1.
      destruct (blob_for st1 from d) as [b| | |] eqn:EB; cbn; try exact HI1.
      apply inv_upd_repo; [exact HI1|]. intros rp _ Hok. apply repo_ok_set_blob; [|exact Hok].
      unfold blob_for in EB. destruct (get_repo st1 from) as [rpf|] eqn:EF; [|discriminate].
      destruct (alookup d (blobs rpf)) eqn:EL; [|discriminate]. injection EB as ->.
      eapply ok_blob; [eapply inv_repo; eauto | exact EL].
    - (* PushManifest *)
      destruct (make_repo st r) as [st1|] eqn:EM; [|exact HI].
      pose proof (inv_make_repo _ _ _ HI EM) as HI1.
      destruct (get_repo st1 r) as [rp|] eqn:ER; [|exact HI1].
      set (de := {| d_media := media; d_digest := hash content; d_size := blen content; d_artifact := [] |}).
      assert (Hstore : Inv (fst (
        if immutable_tags cfg
           && match alookup (hash content) (manifests rp) with
              | Some cur => negb (beqb (b_media cur) media)
              | None => false
              end
        then (st1, Err (E DENIED (s "mismatched media type")))
        else
        match check_descriptor de (Some content) with
        | Some _ => (st1, Err (e_plain (s "invalid descriptor")))
        | None =>
            match check_manifest rp media content with
            | None => (st1, Err (e_plain (s "invalid manifest")))
            | Some subject =>
                (upd_repo st1 r (fun rp0 =>
                   let rp1 := rp_set_manifest (hash content) {| b_media := media; b_data := content; b_subject := subject |} rp0 in
                   match t with [] => rp1 | _ => rp_set_tag t de rp1 end), Ok (RDesc de))
            end
        end : state * result))).
      { destruct (immutable_tags cfg && _); [exact HI1|].
        destruct (check_descriptor de (Some content)); [exact HI1|].
        destruct (check_manifest rp media content) as [subj|] eqn:ECM; [|exact HI1]. cbn.
        apply inv_upd_repo; [exact HI1|]. intros rp0 _ Hok.
        apply check_manifest_ok in ECM as [Hp Hs].
        assert (repo_ok st1 r (rp_set_manifest (hash content) {| b_media := media; b_data := content; b_subject := subj |} rp0)).
        { apply repo_ok_set_manifest; auto. split; cbn; auto. }
        destruct t; [assumption | now apply repo_ok_set_tag]. }
      destruct t as [|c t']; [exact Hstore|].
      destruct (negb (valid_tag (c :: t'))); [exact HI1|].
      destruct (immutable_tags cfg); [|exact Hstore].
      destruct (alookup (c :: t') (tags rp)) as [cur|]; [|exact Hstore].
      destruct (beqb (hash content) (d_digest cur)); [destruct (beqb (d_media cur) media)|]; exact HI1.
    - (* DeleteBlob *)
      destruct (blob_for st r d); cbn [fst]; try exact HI.
      destruct (get_repo st r) as [rp|] eqn:ER; [|exact HI].
      assert (Hdel : Inv (upd_repo st r (rp_del_blob d))).
      { apply inv_upd_repo; auto. intros rp0 _ Hok. now apply repo_ok_del_blob. }
      destruct (immutable_tags cfg); [|exact Hdel].
      destruct (tagged_refers_to decode_image decode_index rp d) as [[|]| | |]; cbn [fst]; auto.
    - (* DeleteManifest *)
      destruct (manifest_for st r d); cbn [fst]; try exact HI.
      destruct (get_repo st r) as [rp|] eqn:ER; [|exact HI].
      assert (Hdel : Inv (upd_repo st r (rp_del_manifest d))).
      { apply inv_upd_repo; auto. intros rp0 _ Hok. now apply repo_ok_del_manifest. }
      destruct (immutable_tags cfg); [|exact Hdel].
      destruct (tagged_refers_to decode_image decode_index rp d) as [[|]| | |]; cbn [fst]; auto.
    - (* DeleteTag *)
      destruct (get_repo st r) as [rp|] eqn:ER; [|exact HI].
      destruct (alookup t (tags rp)); [|exact HI].
      destruct (immutable_tags cfg); [exact HI|]. cbn.
      apply inv_upd_repo; auto. intros rp0 _ Hok. now apply repo_ok_del_tag.
    - (* WWrite *)
      destruct (nth_error (bufs st) (N.to_nat w)) as [b|]; [|exact HI].
      destruct (negb (u_check b =? -1)%Z && negb (blen (u_buf b) =? u_check b)%Z); [exact HI|]. cbn.
      apply inv_with_buf; auto.
    - (* WCommit *)
      destruct (nth_error (bufs st) (N.to_nat w)) as [b|]; [|exact HI].
      destruct (u_err b); [exact HI|].
      destruct (beqb (hash (u_buf b)) d) eqn:EH; cbn.
      + apply inv_upd_repo; [apply inv_with_buf; auto|].
        intros rp _ Hok. apply repo_ok_set_blob; [|exact Hok]. cbn. now apply beqb_eq.
      + apply inv_with_buf; auto.
    - (* WCancel *)
      destruct (nth_error (bufs st) (N.to_nat w)) as [b|]; [|exact HI]. cbn.
      apply inv_with_buf; auto.
  Qed.

  (* every reachable state satisfies the invariant *)
  Theorem inv_reachable h : Inv (final step init h).
  Proof. apply invariant_final; [intros; now apply inv_step | exact inv_init]. Qed.
End Inv.
