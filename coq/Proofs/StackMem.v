(* C03: the contract of Proofs/StackHistory.v is inhabited.  The in-memory registry of
   Model/Mem.v (ImmutableTags off), with the oracle tables of Obs/MemObs.v, seen as a backend
   ([backend_of_registry (mem_step orc false)]), is [Conforming] for the stack oracles
   [soracles_of orc more] of Obs/StackRun.v, provided the tables are consistent ([orc_sane]):
   valid names of the tables are valid names of the router's model, the digest of a content is
   its sha256 digest as the stack's hash oracle computes it, no two contents share a digest.

     InvM    C02's representation invariant (Proofs/MemInv.v) and: repository names, tags and
             the digests of manifests and of tag descriptors are valid, manifests have a media
             type, a tag's descriptor is the descriptor of some content, no upload has the
             empty ID
     simM    the same repositories in the same order with the same tags and manifests; the same
             blobs with the same bytes (the media type of a blob is not compared); uploads,
             buffers and the ID counter are not compared *)
From Coq Require Import String.
From OCI Require Import Obs.StackRun Model.MemSpec Proofs.MemBasics Proofs.MemInv.
From OCI Require Import Proofs.Request Proofs.RequestCodec Proofs.StackBase Proofs.StackDesc Proofs.StackRange Proofs.StackUpload.
From OCI Require Import Proofs.StackTransparent Proofs.StackListing Proofs.StackListingB Proofs.StackTwoHops.
From OCI Require Import Proofs.StackStep Proofs.StackHistory.

Local Open Scope Z_scope.

Definition orel {A} (R : A -> A -> Prop) (x y : option A) : Prop :=
  match x, y with
  | Some a, Some b => R a b
  | None, None => True
  | _, _ => False
  end.

Section Mem.
  Variable orc : oracles.
  Variable more : list (bytes * bytes * bytes).

  Notation all := (fun _ : alg => true).
  Notation hashhex := (orc_hashhex orc more).
  Notation mhash := (orc_hash orc).
  Notation vd := (orc_vd orc).
  Notation vr := (orc_vr orc).
  Notation vt := (orc_vt orc).
  Notation cfg0 := {| immutable_tags := false |}.
  Notation mem := (mem_step orc false).
  Notation BaseInv := (MemInv.Inv mhash (orc_img orc) (orc_idx orc)).

  (* the backend *)
  Definition mstep : backend state := backend_of_registry mem.

  (* consistency of the oracle tables with the models of the router and of the stack *)
  Record orc_sane : Prop := {
    sane_vd : forall d, vd d = true -> vdigest all d = true;
    sane_vr : forall r, vr r = true -> r <> [] /\ byte_list r = true;
    sane_vt : forall t, vt t = true -> t <> [] /\ byte_list t = true;
    sane_hash : forall c, vdigest all (mhash c) = true -> mhash c = digest_of hashhex c;
    sane_inj : forall a b, mhash a = mhash b -> vdigest all (mhash a) = true -> a = b
  }.

  Hypothesis sane : orc_sane.

  (* ---------------------------------------------------------- the invariant *)

  Definition tag_ok (t : bytes) (de : desc) : Prop :=
    vt t = true /\ vd (d_digest de) = true /\ d_media de <> []
    /\ exists data, d_digest de = mhash data /\ d_size de = blen data.

  Record rpx (rp : repo) : Prop := {
    x_man : forall d b, alookup d (manifests rp) = Some b -> vd d = true /\ b_media b <> [];
    x_tag : forall t de, alookup t (tags rp) = Some de -> tag_ok t de;
    x_up : alookup [] (uploads rp) = None
  }.

  Definition InvM (st : state) : Prop :=
    BaseInv st /\ forall r rp, get_repo st r = Some rp -> vr r = true /\ rpx rp.

  Lemma rpx_empty : rpx empty_repo.
  Proof. constructor; cbn; intros; discriminate || reflexivity. Qed.

  Lemma rpx_set_blob d b rp : rpx rp -> rpx (rp_set_blob d b rp).
  Proof. intros [A B0 C]. constructor; cbn; assumption. Qed.
  Lemma rpx_del_blob d rp : rpx rp -> rpx (rp_del_blob d rp).
  Proof. intros [A B0 C]. constructor; cbn; assumption. Qed.
  Lemma rpx_del_manifest d rp : rpx rp -> rpx (rp_del_manifest d rp).
  Proof.
    intros [A B0 C]. constructor; cbn; try assumption. intros d' b. rewrite alookup_adel.
    destruct (beqb d' d); [discriminate | apply A].
  Qed.
  Lemma rpx_del_tag t rp : rpx rp -> rpx (rp_del_tag t rp).
  Proof.
    intros [A B0 C]. constructor; cbn; try assumption. intros t' de. rewrite alookup_adel.
    destruct (beqb t' t); [discriminate | apply B0].
  Qed.
  Lemma rpx_set_manifest d b rp : vd d = true -> b_media b <> [] -> rpx rp -> rpx (rp_set_manifest d b rp).
  Proof.
    intros Hd Hm [A B0 C]. constructor; cbn; try assumption. intros d' b'. rewrite alookup_aset.
    destruct (beqb d' d) eqn:E; [|apply A]. apply beqb_eq in E. subst d'. intros H; injection H as <-. auto.
  Qed.
  Lemma rpx_set_tag t de rp : tag_ok t de -> rpx rp -> rpx (rp_set_tag t de rp).
  Proof.
    intros Ht [A B0 C]. constructor; cbn; try assumption. intros t' de'. rewrite alookup_aset.
    destruct (beqb t' t) eqn:E; [|apply B0]. apply beqb_eq in E. subst t'. intros H; injection H as <-. exact Ht.
  Qed.
  Lemma rpx_set_upload id i rp : id <> [] -> rpx rp -> rpx (rp_set_upload id i rp).
  Proof.
    intros Hid [A B0 C]. constructor; cbn; try assumption. rewrite alookup_aset.
    destruct (beqb [] id) eqn:E; [|exact C]. apply beqb_eq in E. congruence.
  Qed.

  Definition repos_ok (st : state) : Prop := forall r rp, get_repo st r = Some rp -> vr r = true /\ rpx rp.

  Lemma repos_ok_make_repo st r st1 : repos_ok st -> make_repo vr st r = Some st1 -> repos_ok st1.
  Proof.
    intros H E. apply make_repo_some in E as (Hv & _ & _ & _ & Hg). intros r' rp. rewrite Hg.
    destruct (get_repo st r') eqn:E'; [intros X; injection X as <-; exact (H _ _ E')|].
    destruct (beqb r' r) eqn:B; [|discriminate]. apply beqb_eq in B. subst r'.
    intros X; injection X as <-. split; [exact Hv | exact rpx_empty].
  Qed.

  Lemma repos_ok_upd_repo st r f : repos_ok st -> (forall rp, rpx rp -> rpx (f rp)) -> repos_ok (upd_repo st r f).
  Proof.
    intros H Hf r' rp. rewrite get_repo_upd_repo. destruct (beqb r' r) eqn:B; [|apply H].
    apply beqb_eq in B. subst r'. destruct (get_repo st r) as [rp0|] eqn:E; [|discriminate].
    cbn. intros X; injection X as <-. destruct (H _ _ E). auto.
  Qed.

  Lemma repos_ok_with_buf st i f : repos_ok st -> repos_ok (with_buf st i f).
  Proof. intros H. exact H. Qed.

  Lemma fresh_id_ne n : fresh_id n <> [].
  Proof. discriminate. Qed.

  (* PushBlobChunked / PushBlobChunkedResume *)
  Lemma repos_ok_chunked st c : repos_ok st ->
    match c with PushBlobChunked _ _ | PushBlobChunkedResume _ _ _ _ => True | _ => False end ->
    repos_ok (fst (mem st c)).
  Proof.
    intros H Hc. unfold mem_step.
    assert (G : forall r id off,
      repos_ok (fst (match make_repo vr st r with
                     | None => (st, Err e_name_invalid)
                     | Some st1 =>
                         match get_repo st1 r with
                         | None => (st1, Err e_name_invalid)
                         | Some rp =>
                             match alookup id (uploads rp) with
                             | Some i =>
                                 (with_buf st1 (N.to_nat i) (fun b =>
                                    {| u_repo := u_repo b; u_id := u_id b; u_buf := u_buf b; u_check := off;
                                       u_committed := u_committed b; u_desc := u_desc b; u_err := u_err b |}),
                                  Ok (RWriter i))
                             | None =>
                                 let id' := match id with [] => fresh_id (next_id st1) | _ => id end in
                                 let i := N.of_nat (length (bufs st1)) in
                                 ({| repos := aset r (rp_set_upload id' i rp) (repos st1);
                                     bufs := bufs st1 ++ [new_buffer r id' off];
                                     next_id := match id with [] => N.succ (next_id st1) | _ => next_id st1 end |},
                                  Ok (RWriter i))
                             end
                         end
                     end : state * result))).
    { intros r id off. destruct (make_repo vr st r) as [st1|] eqn:EM; [|exact H].
      pose proof (repos_ok_make_repo _ _ _ H EM) as H1.
      destruct (get_repo st1 r) as [rp|] eqn:ER; [|exact H1].
      destruct (alookup id (uploads rp)); [exact H1|]. cbn [fst].
      intros r' rp'. unfold get_repo. cbn [repos]. rewrite alookup_aset.
      destruct (beqb r' r) eqn:B; [|apply H1]. apply beqb_eq in B. subst r'.
      intros X; injection X as <-. destruct (H1 _ _ ER) as (Hv & Hx). split; [exact Hv|].
      apply rpx_set_upload; [|exact Hx]. destruct id; [apply fresh_id_ne | discriminate]. }
    destruct c; try contradiction; cbn [step]; apply G.
  Qed.

  Lemma check_descriptor_some de data :
    check_descriptor mhash vd de (Some data) = None ->
    vd (d_digest de) = true /\ mhash data = d_digest de /\ d_size de = blen data /\ d_media de <> [].
  Proof.
    unfold check_descriptor. destruct (vd (d_digest de)); cbn [negb]; [|discriminate].
    destruct (beqb (mhash data) (d_digest de)) eqn:E1; cbn [negb]; [|discriminate].
    destruct (d_size de =? blen data) eqn:E2; cbn [negb]; [|discriminate].
    destruct (d_media de); [discriminate|]. intros _. apply beqb_eq in E1. apply Z.eqb_eq in E2.
    repeat split; auto. discriminate.
  Qed.

  Theorem invm_step st c : InvM st -> InvM (fst (mem st c)).
  Proof.
    intros (HB & HR). split; [apply inv_step; exact HB|].
    destruct c; try exact HR; try (apply repos_ok_chunked; [exact HR | exact I]); unfold mem_step; cbn [step].
    - (* PushBlob *)
      destruct (check_descriptor mhash vd de (Some content)); [exact HR|].
      destruct (make_repo vr st r) as [st1|] eqn:EM; [|exact HR]. cbn [fst].
      apply repos_ok_upd_repo; [eapply repos_ok_make_repo; eauto|]. intros rp. apply rpx_set_blob.
    - (* MountBlob *)
      destruct (make_repo vr st to) as [st1|] eqn:EM; [|exact HR].
      pose proof (repos_ok_make_repo _ _ _ HR EM) as H1.
      destruct (blob_for st1 from d); cbn [fst]; try exact H1.
      apply repos_ok_upd_repo; [exact H1|]. intros rp. apply rpx_set_blob.
    - (* PushManifest *)
      destruct (make_repo vr st r) as [st1|] eqn:EM; [|exact HR].
      pose proof (repos_ok_make_repo _ _ _ HR EM) as H1.
      destruct (get_repo st1 r) as [rp|] eqn:ER; [|exact H1].
      cbn [immutable_tags andb].
      set (de := {| d_media := media; d_digest := mhash content; d_size := blen content; d_artifact := [] |}).
      assert (Hst : forall tv : bool, (t <> [] -> vt t = true) -> repos_ok (fst (
        match check_descriptor mhash vd de (Some content) with
        | Some _ => (st1, Err (e_plain (s "invalid descriptor")))
        | None =>
            match check_manifest mhash vd (orc_img orc) (orc_idx orc) rp media content with
            | None => (st1, Err (e_plain (s "invalid manifest")))
            | Some subject =>
                (upd_repo st1 r (fun rp0 =>
                   let rp1 := rp_set_manifest (mhash content) {| b_media := media; b_data := content; b_subject := subject |} rp0 in
                   match t with [] => rp1 | _ => rp_set_tag t de rp1 end), Ok (RDesc de))
            end
        end : state * result))).
      { intros _ Hvt. destruct (check_descriptor mhash vd de (Some content)) eqn:EC; [exact H1|].
        apply check_descriptor_some in EC as (Hvd & _ & _ & Hm). cbn [d_digest d_media de] in Hvd, Hm.
        destruct (check_manifest mhash vd (orc_img orc) (orc_idx orc) rp media content); [|exact H1]. cbn [fst].
        apply repos_ok_upd_repo; [exact H1|]. intros rp0 Hx.
        assert (Hx1 : rpx (rp_set_manifest (mhash content) {| b_media := media; b_data := content; b_subject := b |} rp0))
          by (apply rpx_set_manifest; assumption).
        destruct t as [|c0 t']; [exact Hx1|]. apply rpx_set_tag; [|exact Hx1].
        split; [apply Hvt; discriminate|]. split; [exact Hvd|]. split; [exact Hm|]. exists content. split; reflexivity. }
      destruct t as [|c0 t'].
      + apply (Hst true). congruence.
      + destruct (vt (c0 :: t')) eqn:Evt; cbn [negb]; [|exact H1]. apply (Hst true). intros _. reflexivity.
    - (* DeleteBlob *)
      destruct (blob_for st r d); cbn [fst]; try exact HR.
      destruct (get_repo st r); [|exact HR]. cbn [immutable_tags fst].
      apply repos_ok_upd_repo; [exact HR|]. intros rp. apply rpx_del_blob.
    - (* DeleteManifest *)
      destruct (manifest_for st r d); cbn [fst]; try exact HR.
      destruct (get_repo st r); [|exact HR]. cbn [immutable_tags fst].
      apply repos_ok_upd_repo; [exact HR|]. intros rp. apply rpx_del_manifest.
    - (* DeleteTag *)
      destruct (get_repo st r); [|exact HR]. destruct (alookup t (tags r0)); [|exact HR]. cbn [immutable_tags fst].
      apply repos_ok_upd_repo; [exact HR|]. intros rp. apply rpx_del_tag.
    - (* WWrite *)
      destruct (nth_error (bufs st) (N.to_nat w)); [|exact HR].
      destruct (negb (u_check b =? -1) && negb (blen (u_buf b) =? u_check b)); exact HR.
    - (* WCommit *)
      destruct (nth_error (bufs st) (N.to_nat w)) as [b|]; [|exact HR].
      destruct (u_err b); [exact HR|]. destruct (beqb (mhash (u_buf b)) d); cbn [fst]; [|exact HR].
      apply repos_ok_upd_repo; [exact HR|]. intros rp. apply rpx_set_blob.
    - (* WCancel *)
      destruct (nth_error (bufs st) (N.to_nat w)); exact HR.
  Qed.

  Lemma invm_init : InvM init.
  Proof. split; [apply inv_init | intros r rp H; discriminate]. Qed.

  (* ---------------------------------------------------------- the relation between states *)

  Definition blob_sim (b1 b2 : blob) : Prop := b_data b1 = b_data b2.

  Definition repo_sim (rp1 rp2 : repo) : Prop :=
    tags rp1 = tags rp2 /\ manifests rp1 = manifests rp2
    /\ forall d, orel blob_sim (alookup d (blobs rp1)) (alookup d (blobs rp2)).

  Definition simM (s1 s2 : state) : Prop :=
    akeys (repos s1) = akeys (repos s2) /\ forall r, orel repo_sim (get_repo s1 r) (get_repo s2 r).

  Lemma repo_sim_refl rp : repo_sim rp rp.
  Proof. repeat split. intros d. destruct (alookup d (blobs rp)); cbn; reflexivity || exact I. Qed.

  Lemma simM_refl st : simM st st.
  Proof. split; [reflexivity|]. intros r. destruct (get_repo st r); cbn; [apply repo_sim_refl | exact I]. Qed.

  Lemma sim_repos_eq s1 s2 s2' : simM s1 s2 -> repos s2' = repos s2 -> simM s1 s2'.
  Proof. intros (A & B0) E. unfold simM, get_repo in *. rewrite E. auto. Qed.

  Lemma sim_repos_eq_l s1 s1' s2 : simM s1 s2 -> repos s1' = repos s1 -> simM s1' s2.
  Proof. intros (A & B0) E. unfold simM, get_repo in *. rewrite E. auto. Qed.

  Lemma sim_make_repo s1 s2 r : simM s1 s2 ->
    match make_repo vr s1 r, make_repo vr s2 r with
    | Some t1, Some t2 => simM t1 t2
    | None, None => True
    | _, _ => False
    end.
  Proof.
    intros (A & B0). unfold make_repo. destruct (vr r); [|exact I].
    pose proof (B0 r) as Hr. destruct (get_repo s1 r) eqn:E1, (get_repo s2 r) eqn:E2; cbn in Hr; try contradiction.
    - split; assumption.
    - split.
      + unfold set_repo. cbn [repos]. unfold get_repo in E1, E2.
        rewrite !akeys_aset_notin by (now apply alookup_None_notin). now rewrite A.
      + intros r'. rewrite !get_repo_set_repo. destruct (beqb r' r); [cbn; apply repo_sim_refl | apply B0].
  Qed.

  Lemma sim_upd_repo s1 s2 r f1 f2 : simM s1 s2 ->
    (forall rp1 rp2, repo_sim rp1 rp2 -> repo_sim (f1 rp1) (f2 rp2)) ->
    simM (upd_repo s1 r f1) (upd_repo s2 r f2).
  Proof.
    intros (A & B0) Hf. split; [now rewrite !akeys_repos_upd_repo|].
    intros r'. rewrite !get_repo_upd_repo. destruct (beqb r' r); [|apply B0].
    pose proof (B0 r) as Hr. destruct (get_repo s1 r), (get_repo s2 r); cbn in *; auto.
  Qed.

  Lemma rs_set_blob d b1 b2 rp1 rp2 : blob_sim b1 b2 -> repo_sim rp1 rp2 ->
    repo_sim (rp_set_blob d b1 rp1) (rp_set_blob d b2 rp2).
  Proof.
    intros Hb (A & B0 & C). repeat split; cbn; try assumption. intros d'. rewrite !alookup_aset.
    destruct (beqb d' d); [exact Hb | apply C].
  Qed.
  Lemma rs_del_blob d rp1 rp2 : repo_sim rp1 rp2 -> repo_sim (rp_del_blob d rp1) (rp_del_blob d rp2).
  Proof.
    intros (A & B0 & C). repeat split; cbn; try assumption. intros d'. rewrite !alookup_adel.
    destruct (beqb d' d); [exact I | apply C].
  Qed.
  Lemma rs_same (f : repo -> repo) :
    (forall rp, blobs (f rp) = blobs rp) ->
    (forall rp1 rp2, tags rp1 = tags rp2 -> manifests rp1 = manifests rp2 ->
                     tags (f rp1) = tags (f rp2) /\ manifests (f rp1) = manifests (f rp2)) ->
    forall rp1 rp2, repo_sim rp1 rp2 -> repo_sim (f rp1) (f rp2).
  Proof.
    intros Hb Hf rp1 rp2 (A & B0 & C). destruct (Hf rp1 rp2 A B0) as (A' & B'). repeat split; try assumption.
    rewrite !Hb. exact C.
  Qed.

  Lemma blob_for_sim s1 s2 r d : simM s1 s2 ->
    match blob_for s1 r d, blob_for s2 r d with
    | Ok b1, Ok b2 => blob_sim b1 b2
    | Err e1, Err e2 => e1 = e2
    | _, _ => False
    end.
  Proof.
    intros (_ & B0). unfold blob_for. pose proof (B0 r) as Hr.
    destruct (get_repo s1 r) as [rp1|], (get_repo s2 r) as [rp2|]; cbn in Hr; try contradiction; [|reflexivity].
    destruct Hr as (_ & _ & C). specialize (C d).
    destruct (alookup d (blobs rp1)), (alookup d (blobs rp2)); cbn in C; try contradiction; [exact C | reflexivity].
  Qed.

  Lemma manifest_for_sim s1 s2 r d : simM s1 s2 ->
    match manifest_for s1 r d, manifest_for s2 r d with
    | Ok b1, Ok b2 => b1 = b2
    | Err e1, Err e2 => e1 = e2
    | _, _ => False
    end.
  Proof.
    intros (_ & B0). unfold manifest_for. pose proof (B0 r) as Hr.
    destruct (get_repo s1 r) as [rp1|], (get_repo s2 r) as [rp2|]; cbn in Hr; try contradiction; [|reflexivity].
    destruct Hr as (_ & -> & _). destruct (alookup d (manifests rp2)); reflexivity.
  Qed.

  Ltac same := cbn [bres_of_result bval_of_res ans_sim rbind fst snd]; try (unfold val_sim; cbn [blob_op]); reflexivity.

  (* references are checked for presence only *)
  Lemma check_refs_sim rp1 rp2 refs : repo_sim rp1 rp2 -> forall subj,
    check_refs mhash vd rp1 refs subj = check_refs mhash vd rp2 refs subj.
  Proof.
    intros (A & B0 & C). induction refs as [|[k de] rest IH]; intros subj; cbn [check_refs]; [reflexivity|].
    destruct (check_descriptor mhash vd de None); [reflexivity|]. destruct k.
    - apply IH.
    - specialize (C (d_digest de)).
      destruct (alookup (d_digest de) (blobs rp1)), (alookup (d_digest de) (blobs rp2)); cbn in C; try contradiction;
        [apply IH | reflexivity].
    - rewrite B0. destruct (alookup (d_digest de) (manifests rp2)); [apply IH | reflexivity].
  Qed.

  Lemma blob_desc_sim b1 b2 : blob_sim b1 b2 ->
    d_digest (blob_desc mhash b1) = d_digest (blob_desc mhash b2) /\ d_size (blob_desc mhash b1) = d_size (blob_desc mhash b2).
  Proof. unfold blob_sim, blob_desc. cbn. intros ->. split; reflexivity. Qed.

  Notation ans := (ans_sim).

  Lemma slice_whole (data : bytes) : slice data 0 (blen data) = data.
  Proof.
    unfold slice, blen. cbn [Z.to_nat skipn]. rewrite Z.sub_0_r, Nat2Z.id. apply firstn_all.
  Qed.

  (* one-call operations in related states *)
  Lemma mem_sim_step s1 s2 c : simM s1 s2 -> one_call c = true ->
    ans c (bres_of_result (snd (mem s1 c))) (bres_of_result (snd (mem s2 (bop c))))
    /\ simM (fst (mem s1 c)) (fst (mem s2 (bop c))).
  Proof.
    intros Hs H1. pose proof Hs as (HA & HB).
    destruct c as [rp d|rp d o0 o1|rp d|rp t|rp d|rp d|rp t|rp de content|rp hint|rp id off hint|from to d|rp t content med|rp d|rp d|rp t|st0|rp st0|rp d art|h data|h|h|h|h|h d|h];
      try discriminate H1; unfold mem_step; cbn [bop step fst snd].
    - (* GetBlob *)
      split; [|exact Hs]. pose proof (blob_for_sim s1 s2 rp d Hs) as Hb.
      destruct (blob_for s1 rp d) as [b1|e1| |], (blob_for s2 rp d) as [b2|e2| |]; try contradiction; cbn.
      + unfold val_sim. cbn [blob_op desc_of data_of bval_of_res]. destruct (blob_desc_sim b1 b2 Hb). auto.
      + now subst.
    - (* GetBlobRange *)
      pose proof (blob_for_sim s1 s2 rp d Hs) as Hb. unfold whole_range.
      destruct ((o0 =? 0) && (o1 <? 0)) eqn:Ew.
      + apply andb_true_iff in Ew as [E0 E1]. apply Z.eqb_eq in E0. subst o0. cbn [step fst snd]. split; [|exact Hs].
        destruct (blob_for s1 rp d) as [b1|e1| |], (blob_for s2 rp d) as [b2|e2| |]; try contradiction; cbn [rbind].
        * rewrite E1. cbn [orb].
          assert (Hn : (0 <? 0) || (0 >? blen (b_data b1)) = false).
          { unfold blen. destruct (Z.gtb_spec 0 (Z.of_nat (length (b_data b1)))); [lia | reflexivity]. }
          rewrite Hn, slice_whole. cbn. unfold val_sim. cbn [blob_op desc_of data_of bval_of_res].
          destruct (blob_desc_sim b1 b2 Hb). auto.
        * cbn. now subst.
      + cbn [step fst snd]. split; [|exact Hs].
        destruct (blob_for s1 rp d) as [b1|e1| |], (blob_for s2 rp d) as [b2|e2| |]; try contradiction; cbn [rbind].
        * unfold blob_sim in Hb. rewrite <- Hb.
          assert (Ee : (if (server_end o1 <? 0) || (server_end o1 >? blen (b_data b1)) then blen (b_data b1) else server_end o1)
                       = (if (o1 <? 0) || (o1 >? blen (b_data b1)) then blen (b_data b1) else o1)).
          { unfold server_end. destruct (Z.ltb_spec o1 0); [reflexivity|]. destruct (Z.ltb_spec o1 0); [lia | reflexivity]. }
          rewrite Ee.
          destruct ((o0 <? 0) || (o0 >? (if (o1 <? 0) || (o1 >? blen (b_data b1)) then blen (b_data b1) else o1))); cbn.
          -- reflexivity.
          -- unfold val_sim. cbn [blob_op desc_of data_of bval_of_res]. unfold blob_desc. cbn. rewrite Hb. auto.
        * cbn. now subst.
    - (* GetManifest *)
      split; [|exact Hs]. pose proof (manifest_for_sim s1 s2 rp d Hs) as Hb.
      destruct (manifest_for s1 rp d) as [b1|e1| |], (manifest_for s2 rp d) as [b2|e2| |]; try contradiction; subst; same.
    - (* GetTag *)
      split; [|exact Hs]. pose proof (HB rp) as Hr.
      destruct (get_repo s1 rp) as [rp1|], (get_repo s2 rp) as [rp2|]; cbn in Hr; try contradiction; [|same].
      destruct Hr as (-> & _ & _). destruct (alookup t (tags rp2)) as [de|]; [|same].
      pose proof (manifest_for_sim s1 s2 rp (d_digest de) Hs) as Hb.
      destruct (manifest_for s1 rp (d_digest de)) as [b1|e1| |], (manifest_for s2 rp (d_digest de)) as [b2|e2| |];
        try contradiction; subst; same.
    - (* ResolveBlob *)
      split; [|exact Hs]. pose proof (blob_for_sim s1 s2 rp d Hs) as Hb.
      destruct (blob_for s1 rp d) as [b1|e1| |], (blob_for s2 rp d) as [b2|e2| |]; try contradiction; cbn.
      + unfold val_sim. cbn [blob_op desc_of data_of bval_of_res]. destruct (blob_desc_sim b1 b2 Hb). auto.
      + now subst.
    - (* ResolveManifest *)
      split; [|exact Hs]. pose proof (manifest_for_sim s1 s2 rp d Hs) as Hb.
      destruct (manifest_for s1 rp d) as [b1|e1| |], (manifest_for s2 rp d) as [b2|e2| |]; try contradiction; subst; same.
    - (* ResolveTag *)
      split; [|exact Hs]. pose proof (HB rp) as Hr.
      destruct (get_repo s1 rp) as [rp1|], (get_repo s2 rp) as [rp2|]; cbn in Hr; try contradiction; [|same].
      destruct Hr as (-> & _ & _). destruct (alookup t (tags rp2)); same.
    - (* MountBlob *)
      pose proof (sim_make_repo s1 s2 to Hs) as Hm.
      destruct (make_repo vr s1 to) as [t1|], (make_repo vr s2 to) as [t2|]; try contradiction; [|split; [same | exact Hs]].
      pose proof (blob_for_sim t1 t2 from d Hm) as Hb.
      destruct (blob_for t1 from d) as [b1|e1| |], (blob_for t2 from d) as [b2|e2| |]; try contradiction; cbn [fst snd].
      + split.
        * cbn. unfold val_sim. cbn [blob_op desc_of data_of bval_of_res]. destruct (blob_desc_sim b1 b2 Hb). auto.
        * apply sim_upd_repo; [exact Hm|]. intros. now apply rs_set_blob.
      + split; [cbn; now subst | exact Hm].
    - (* PushManifest *)
      pose proof (sim_make_repo s1 s2 rp Hs) as Hm.
      destruct (make_repo vr s1 rp) as [t1|], (make_repo vr s2 rp) as [t2|]; try contradiction; [|split; [same | exact Hs]].
      pose proof Hm as (_ & HB1). pose proof (HB1 rp) as Hr.
      destruct (get_repo t1 rp) as [rp1|], (get_repo t2 rp) as [rp2|]; cbn in Hr; try contradiction; [|split; [same | exact Hm]].
      cbn [immutable_tags andb].
      assert (Hcm : check_manifest mhash vd (orc_img orc) (orc_idx orc) rp1 med content
                    = check_manifest mhash vd (orc_img orc) (orc_idx orc) rp2 med content).
      { unfold check_manifest. destruct (manifest_refs (orc_img orc) (orc_idx orc) med content); [|reflexivity].
        now apply check_refs_sim. }
      rewrite Hcm.
      set (de := {| d_media := med; d_digest := mhash content; d_size := blen content; d_artifact := [] |}).
      assert (Hst : forall tt0 : bytes,
        let X (st1 : state) (rpx0 : repo) : state * result :=
          match check_descriptor mhash vd de (Some content) with
          | Some _ => (st1, Err (e_plain (s "invalid descriptor")))
          | None =>
              match check_manifest mhash vd (orc_img orc) (orc_idx orc) rp2 med content with
              | None => (st1, Err (e_plain (s "invalid manifest")))
              | Some subject =>
                  (upd_repo st1 rp (fun rp0 =>
                     let rp1' := rp_set_manifest (mhash content) {| b_media := med; b_data := content; b_subject := subject |} rp0 in
                     match tt0 with [] => rp1' | _ => rp_set_tag tt0 de rp1' end), Ok (RDesc de))
              end
          end in
        ans (PushManifest rp t content med) (bres_of_result (snd (X t1 rp1))) (bres_of_result (snd (X t2 rp2)))
        /\ simM (fst (X t1 rp1)) (fst (X t2 rp2))).
      { intros tt0 X. unfold X. destruct (check_descriptor mhash vd de (Some content)); [split; [same | exact Hm]|].
        destruct (check_manifest mhash vd (orc_img orc) (orc_idx orc) rp2 med content); [|split; [same | exact Hm]].
        cbn [fst snd]. split; [same|]. apply sim_upd_repo; [exact Hm|].
        apply rs_same.
        - intros rp0. destruct tt0; reflexivity.
        - intros ra rb Ht Hmf. destruct tt0; cbn; rewrite ?Ht, ?Hmf; split; reflexivity. }
      destruct t as [|c0 t'].
      + apply (Hst []).
      + destruct (vt (c0 :: t')); cbn [negb]; [apply (Hst (c0 :: t')) | split; [same | exact Hm]].
    - (* DeleteBlob *)
      pose proof (blob_for_sim s1 s2 rp d Hs) as Hb.
      destruct (blob_for s1 rp d) as [b1|e1| |], (blob_for s2 rp d) as [b2|e2| |]; try contradiction; cbn [fst snd].
      + pose proof (HB rp) as Hr.
        destruct (get_repo s1 rp) as [rp1|], (get_repo s2 rp) as [rp2|]; cbn in Hr; try contradiction;
          [|split; [same | exact Hs]].
        cbn [immutable_tags fst snd]. split; [same|]. apply sim_upd_repo; [exact Hs|]. intros. now apply rs_del_blob.
      + split; [cbn; now subst | exact Hs].
    - (* DeleteManifest *)
      pose proof (manifest_for_sim s1 s2 rp d Hs) as Hb.
      destruct (manifest_for s1 rp d) as [b1|e1| |], (manifest_for s2 rp d) as [b2|e2| |]; try contradiction; subst;
        cbn [fst snd]; try (split; [same | exact Hs]).
      pose proof (HB rp) as Hr.
      destruct (get_repo s1 rp) as [rp1|], (get_repo s2 rp) as [rp2|]; cbn in Hr; try contradiction;
        [|split; [same | exact Hs]].
      cbn [immutable_tags fst snd]. split; [same|]. apply sim_upd_repo; [exact Hs|].
      apply rs_same; [reflexivity|]. intros ra rb Ht Hmf. cbn. rewrite Ht, Hmf. split; reflexivity.
    - (* DeleteTag *)
      pose proof (HB rp) as Hr.
      destruct (get_repo s1 rp) as [rp1|], (get_repo s2 rp) as [rp2|]; cbn in Hr; try contradiction;
        [|split; [same | exact Hs]].
      destruct Hr as (Ht & _ & _). rewrite Ht. destruct (alookup t (tags rp2)); [|split; [same | exact Hs]].
      cbn [immutable_tags fst snd]. split; [same|]. apply sim_upd_repo; [exact Hs|].
      apply rs_same; [reflexivity|]. intros ra rb Ht' Hmf. cbn. rewrite Ht', Hmf. split; reflexivity.
    - (* Referrers *)
      split; [|exact Hs]. pose proof (HB rp) as Hr.
      destruct (get_repo s1 rp) as [rp1|], (get_repo s2 rp) as [rp2|]; cbn in Hr; try contradiction; [|same].
      destruct Hr as (_ & -> & _). same.
  Qed.

  (* ---------------------------------------------------------- every answer is conforming *)

  Variable o : opts.

  Notation conf := (conf_answer all hashhex enc0 o).
  Notation relay := (relayable enc0).

  Ltac relay_const := split; [split; [reflexivity | vm_compute; split; discriminate] | vm_compute; discriminate].

  Lemma relay_name_unknown : relay (gerr_of_err e_name_unknown). Proof. relay_const. Qed.
  Lemma relay_name_invalid : relay (gerr_of_err e_name_invalid). Proof. relay_const. Qed.
  Lemma relay_blob_unknown : relay (gerr_of_err e_blob_unknown). Proof. relay_const. Qed.
  Lemma relay_manifest_unknown : relay (gerr_of_err e_manifest_unknown). Proof. relay_const. Qed.
  Lemma relay_invalid_range : relay (gerr_of_err (e_plain (s "invalid range"))). Proof. relay_const. Qed.
  Lemma relay_invalid_tag : relay (gerr_of_err (e_plain (s "invalid tag"))). Proof. relay_const. Qed.
  Lemma relay_invalid_descriptor : relay (gerr_of_err (e_plain (s "invalid descriptor"))). Proof. relay_const. Qed.
  Lemma relay_invalid_manifest : relay (gerr_of_err (e_plain (s "invalid manifest"))). Proof. relay_const. Qed.

  Lemma blob_for_cases st r d :
    (exists b rp, blob_for st r d = Ok b /\ get_repo st r = Some rp /\ alookup d (blobs rp) = Some b)
    \/ (blob_for st r d = Err e_name_unknown) \/ (blob_for st r d = Err e_blob_unknown).
  Proof.
    unfold blob_for. destruct (get_repo st r) as [rp|]; [|right; left; reflexivity].
    destruct (alookup d (blobs rp)) as [b|] eqn:E; [left; exists b, rp; auto | right; right; reflexivity].
  Qed.

  Lemma manifest_for_cases st r d :
    (exists b rp, manifest_for st r d = Ok b /\ get_repo st r = Some rp /\ alookup d (manifests rp) = Some b)
    \/ (manifest_for st r d = Err e_name_unknown) \/ (manifest_for st r d = Err e_manifest_unknown).
  Proof.
    unfold manifest_for. destruct (get_repo st r) as [rp|]; [|right; left; reflexivity].
    destruct (alookup d (manifests rp)) as [b|] eqn:E; [left; exists b, rp; auto | right; right; reflexivity].
  Qed.

  Lemma content_of_mhash data : vdigest all (mhash data) = true -> content_of hashhex (mhash data) data.
  Proof.
    intros Hv. rewrite (sane_hash sane data Hv). unfold content_of, digest_of.
    exists sha256_name, (hashhex sha256_name data). split; reflexivity.
  Qed.

  Lemma blen_nonneg (l : bytes) : 0 <= blen l.
  Proof. unfold blen. lia. Qed.

  Lemma slice_length (data : bytes) a e : 0 <= a -> a <= e -> e <= blen data -> blen (slice data a e) = e - a.
  Proof.
    intros H0 H1 H2. unfold slice, blen in *. rewrite firstn_length, skipn_length. lia.
  Qed.

  Lemma mem_conf st c : InvM st -> one_call c = true -> wf_op all hashhex (orc_subject orc) c ->
    sizes_ok enc0 c (bres_of_result (snd (mem st (bop c)))) ->
    conf c (bres_of_result (snd (mem st (bop c)))).
  Proof.
    intros (HB & HR) H1 Hwf Hsz.
    destruct c as [rp d|rp d o0 o1|rp d|rp t|rp d|rp d|rp t|rp de content|rp hint|rp id off hint|from to d|rp t content med|rp d|rp d|rp t|st0|rp st0|rp d art|h data|h|h|h|h|h d|h];
      try discriminate H1; unfold mem_step in *; cbn [bop step fst snd wf_op] in *.
    - (* GetBlob *)
      destruct Hwf as (Hr & Hd).
      destruct (blob_for_cases st rp d) as [(b & rp0 & E & Eg & El) | [E | E]]; rewrite E in *; cbn in Hsz |- *.
      + pose proof (ok_blob _ _ _ _ _ _ (inv_repo _ _ _ _ HB _ _ Eg) _ _ El) as Hh.
        repeat split; try tauto. rewrite <- Hh in Hd |- *. now apply content_of_mhash.
      + apply relay_name_unknown.
      + apply relay_blob_unknown.
    - (* GetBlobRange *)
      destruct Hwf as (Hr & Hd & Hex). unfold whole_range in *. destruct ((o0 =? 0) && (o1 <? 0)) eqn:Ew; cbn [step snd] in *.
      + destruct (blob_for_cases st rp d) as [(b & rp0 & E & Eg & El) | [E | E]]; rewrite E in *; cbn in Hsz |- *.
        * pose proof (ok_blob _ _ _ _ _ _ (inv_repo _ _ _ _ HB _ _ Eg) _ _ El) as Hh.
          unfold whole_range. rewrite Ew.
          repeat split; try tauto. rewrite <- Hh in Hd |- *. now apply content_of_mhash.
        * apply relay_name_unknown.
        * apply relay_blob_unknown.
      + destruct (blob_for_cases st rp d) as [(b & rp0 & E & Eg & El) | [E | E]]; rewrite E in *; cbn [rbind] in *.
        * pose proof (ok_blob _ _ _ _ _ _ (inv_repo _ _ _ _ HB _ _ Eg) _ _ El) as Hh.
          set (n := blen (b_data b)) in *. set (se := server_end o1) in *.
          set (e' := if (se <? 0) || (se >? n) then n else se) in *.
          assert (Hn : 0 <= n) by apply blen_nonneg.
          assert (He : e' = range_end n se).
          { unfold e', range_end, se, server_end. destruct (Z.ltb_spec o1 0).
            - reflexivity.
            - destruct (Z.ltb_spec o1 0); [lia|]. destruct (Z.eqb_spec o1 (-1)); [lia|]. cbn [orb].
              destruct (Z.gtb_spec o1 n), (Z.ltb_spec n o1); try lia; reflexivity. }
          destruct ((o0 <? 0) || (o0 >? e')) eqn:Eo; cbn in Hsz |- *; [apply relay_invalid_range|].
          apply orb_false_iff in Eo as [Eo1 Eo2]. apply Z.ltb_ge in Eo1.
          assert (Eo2' : o0 <= e') by (destruct (Z.gtb_spec o0 e'); [discriminate | lia]).
          assert (He'n : e' <= n) by (unfold e'; destruct ((se <? 0) || (se >? n)) eqn:X; [lia|];
                                       apply orb_false_iff in X as [_ X]; destruct (Z.gtb_spec se n); [discriminate | lia]).
          destruct Hsz as (Hs1 & Hs2). fold n in Hs1. unfold whole_range. rewrite Ew. fold n.
          split; [split; assumption|]. split; [lia|]. split; [|exact Hh].
          fold se. rewrite <- He. apply slice_length; assumption.
        * cbn. apply relay_name_unknown.
        * cbn. apply relay_blob_unknown.
    - (* GetManifest *)
      destruct Hwf as (Hr & Hd).
      destruct (manifest_for_cases st rp d) as [(b & rp0 & E & Eg & El) | [E | E]]; rewrite E in *; cbn in Hsz |- *.
      + destruct (ok_man _ _ _ _ _ _ (inv_repo _ _ _ _ HB _ _ Eg) _ _ El) as (Hh & _).
        destruct (HR _ _ Eg) as (_ & Hx). destruct (x_man _ Hx _ _ El) as (_ & Hm).
        repeat split; try tauto. rewrite <- Hh in Hd |- *. now apply content_of_mhash.
      + apply relay_name_unknown.
      + apply relay_manifest_unknown.
    - (* GetTag *)
      destruct Hwf as (Hr & Ht).
      destruct (get_repo st rp) as [rp0|] eqn:Eg; [|apply relay_name_unknown].
      destruct (alookup t (tags rp0)) as [de|] eqn:Et; [|apply relay_manifest_unknown].
      destruct (HR _ _ Eg) as (_ & Hx). destruct (x_tag _ Hx _ _ Et) as (_ & Hvd & _ & _).
      destruct (manifest_for_cases st rp (d_digest de)) as [(b & rp1 & E & Eg1 & El) | [E | E]]; rewrite E in *; cbn in Hsz |- *.
      + rewrite Eg in Eg1. injection Eg1 as <-.
        destruct (ok_man _ _ _ _ _ _ (inv_repo _ _ _ _ HB _ _ Eg) _ _ El) as (Hh & _).
        destruct (x_man _ Hx _ _ El) as (_ & Hm).
        assert (Hv : vdigest all (mhash (b_data b)) = true) by (rewrite Hh; apply (sane_vd sane); exact Hvd).
        split; [exact Hv|]. split; [repeat split; try tauto; now apply content_of_mhash|]. split; [exact Hm|].
        intros _ _. split; [reflexivity | apply (sane_hash sane); exact Hv].
      + apply relay_name_unknown.
      + apply relay_manifest_unknown.
    - (* ResolveBlob *)
      destruct Hwf as (Hr & Hd).
      destruct (blob_for_cases st rp d) as [(b & rp0 & E & Eg & El) | [E | E]]; rewrite E in *; cbn in Hsz |- *.
      + pose proof (ok_blob _ _ _ _ _ _ (inv_repo _ _ _ _ HB _ _ Eg) _ _ El) as Hh.
        unfold conf_desc, int64. cbn.
        split; [rewrite Hh; exact Hd|]. split; [apply blen_nonneg | tauto].
      + apply relay_name_unknown.
      + apply relay_blob_unknown.
    - (* ResolveManifest *)
      destruct Hwf as (Hr & Hd).
      destruct (manifest_for_cases st rp d) as [(b & rp0 & E & Eg & El) | [E | E]]; rewrite E in *; cbn in Hsz |- *.
      + destruct (ok_man _ _ _ _ _ _ (inv_repo _ _ _ _ HB _ _ Eg) _ _ El) as (Hh & _).
        destruct (HR _ _ Eg) as (_ & Hx). destruct (x_man _ Hx _ _ El) as (_ & Hm).
        unfold conf_desc, int64. cbn.
        split; [split; [rewrite Hh; exact Hd | split; [apply blen_nonneg | tauto]]|]. split; assumption.
      + apply relay_name_unknown.
      + apply relay_manifest_unknown.
    - (* ResolveTag *)
      destruct Hwf as (Hr & Ht).
      destruct (get_repo st rp) as [rp0|] eqn:Eg; [|apply relay_name_unknown].
      destruct (alookup t (tags rp0)) as [de|] eqn:Et; [|apply relay_manifest_unknown].
      destruct (HR _ _ Eg) as (_ & Hx). destruct (x_tag _ Hx _ _ Et) as (_ & Hvd & Hm & data & _ & Hsize).
      cbn in Hsz |- *. unfold conf_desc, int64. split; [|exact Hm]. split; [apply (sane_vd sane); exact Hvd|].
      split; [rewrite Hsize; apply blen_nonneg | tauto].
    - (* MountBlob *)
      destruct Hwf as (Hf & Ht & Hd).
      destruct (make_repo vr st to) as [st1|] eqn:EM; [|apply relay_name_invalid].
      pose proof (inv_make_repo _ _ _ _ _ _ _ HB EM) as HB1.
      destruct (blob_for_cases st1 from d) as [(b & rp0 & E & Eg & El) | [E | E]]; rewrite E in *; cbn in Hsz |- *.
      + pose proof (ok_blob _ _ _ _ _ _ (inv_repo _ _ _ _ HB1 _ _ Eg) _ _ El) as Hh. rewrite Hh. exact Hd.
      + apply relay_name_unknown.
      + apply relay_blob_unknown.
    - (* PushManifest *)
      destruct Hwf as (Hr & Htd & Hm & Hsj).
      destruct (make_repo vr st rp) as [st1|] eqn:EM; [|apply relay_name_invalid].
      destruct (get_repo st1 rp) as [rp0|] eqn:Eg; [|apply relay_name_invalid].
      cbn [immutable_tags andb] in *.
      set (de := {| d_media := med; d_digest := mhash content; d_size := blen content; d_artifact := [] |}) in *.
      assert (Hst : conf (PushManifest rp t content med) (bres_of_result (snd (
        match check_descriptor mhash vd de (Some content) with
        | Some _ => (st1, Err (e_plain (s "invalid descriptor")))
        | None =>
            match check_manifest mhash vd (orc_img orc) (orc_idx orc) rp0 med content with
            | None => (st1, Err (e_plain (s "invalid manifest")))
            | Some subject =>
                (upd_repo st1 rp (fun rp1 =>
                   let rp1' := rp_set_manifest (mhash content) {| b_media := med; b_data := content; b_subject := subject |} rp1 in
                   match t with [] => rp1' | _ => rp_set_tag t de rp1' end), Ok (RDesc de))
            end
        end : state * result)))).
      { destruct (check_descriptor mhash vd de (Some content)) eqn:EC; [apply relay_invalid_descriptor|].
        apply check_descriptor_some in EC as (Hvd & _ & _ & _). cbn [d_digest de] in Hvd.
        destruct (check_manifest mhash vd (orc_img orc) (orc_idx orc) rp0 med content); [|apply relay_invalid_manifest].
        cbn. split; [apply (sane_hash sane), (sane_vd sane); exact Hvd | split; reflexivity]. }
      destruct t as [|c0 t']; [exact Hst|].
      destruct (vt (c0 :: t')); cbn [negb]; [exact Hst | apply relay_invalid_tag].
    - (* DeleteBlob *)
      destruct (blob_for_cases st rp d) as [(b & rp0 & E & Eg & El) | [E | E]]; rewrite E in *.
      + rewrite Eg. cbn. exact I.
      + apply relay_name_unknown.
      + apply relay_blob_unknown.
    - (* DeleteManifest *)
      destruct (manifest_for_cases st rp d) as [(b & rp0 & E & Eg & El) | [E | E]]; rewrite E in *.
      + rewrite Eg. cbn. exact I.
      + apply relay_name_unknown.
      + apply relay_manifest_unknown.
    - (* DeleteTag *)
      destruct (get_repo st rp) as [rp0|]; [|apply relay_name_unknown].
      destruct (alookup t (tags rp0)); [cbn; exact I | apply relay_manifest_unknown].
    - (* Referrers *)
      destruct (get_repo st rp) as [rp0|]; cbn in Hsz |- *.
      + exact Hsz.
      + split; [apply relay_name_unknown | reflexivity].
  Qed.

  (* ---------------------------------------------------------- listings, reads, the tag HEAD *)

  Lemma mstep_eq st c : mstep st c = (fst (mem st c), bres_of_result (snd (mem st c))).
  Proof. unfold mstep, backend_of_registry. destruct (mem st c); reflexivity. Qed.

  Lemma mem_sim_list s1 s2 c : simM s1 s2 -> is_listing c = true ->
    snd (mem s1 c) = snd (mem s2 c) /\ simM (fst (mem s1 c)) (fst (mem s2 c)).
  Proof.
    intros Hs Hl. pose proof Hs as (HA & HB). destruct c; try discriminate Hl; unfold mem_step; cbn [step fst snd].
    - rewrite HA. split; [reflexivity | exact Hs].
    - split; [|exact Hs]. pose proof (HB r) as Hr.
      destruct (get_repo s1 r) as [rp1|], (get_repo s2 r) as [rp2|]; cbn in Hr; try contradiction; [|reflexivity].
      destruct Hr as (-> & _ & _). reflexivity.
  Qed.

  Lemma mem_read_only st c : read_only c = true -> fst (mem st c) = st.
  Proof. intros H. destruct c; try discriminate H; reflexivity. Qed.

  Lemma mem_tag_head st rp t v : InvM st ->
    snd (mem st (GetTag rp t)) = Ok v ->
    exists de, snd (mem st (ResolveTag rp t)) = Ok (RDesc de)
               /\ d_digest de = d_digest (desc_of (bval_of_res v)) /\ d_size de = d_size (desc_of (bval_of_res v)).
  Proof.
    intros (HB & HR). unfold mem_step. cbn [step snd].
    destruct (get_repo st rp) as [rp0|] eqn:Eg; [|discriminate].
    destruct (alookup t (tags rp0)) as [de|] eqn:Et; [|discriminate].
    destruct (manifest_for_cases st rp (d_digest de)) as [(b & rp1 & E & Eg1 & El) | [E | E]]; rewrite E; cbn [rbind];
      try discriminate.
    intros H. injection H as <-. exists de. split; [reflexivity|]. cbn [bval_of_res desc_of blob_desc d_digest d_size].
    rewrite Eg in Eg1. injection Eg1 as <-.
    destruct (ok_man _ _ _ _ _ _ (inv_repo _ _ _ _ HB _ _ Eg) _ _ El) as (Hh & _).
    destruct (HR _ _ Eg) as (_ & Hx). destruct (x_tag _ Hx _ _ Et) as (_ & Hvd & _ & data & Hdg & Hsize).
    split; [now rewrite Hh|]. rewrite Hsize. f_equal. symmetry. apply (sane_inj sane).
    - now rewrite Hh, Hdg.
    - rewrite Hh. apply (sane_vd sane). exact Hvd.
  Qed.

  Lemma gerr_name_unknown : gerr_of_err e_name_unknown = Wire (W (std_code SNameUnknown) (s "name unknown") None).
  Proof. reflexivity. Qed.

  Lemma mem_list st c : InvM st -> is_listing c = true ->
    (exists e, first_error (snd (mstep st c)) = Some e /\ relay e)
    \/ (exists full, pages_well state mstep st (list_call c) full).
  Proof.
    intros (HB & HR) Hl. destruct c as [rp d|rp d o0 o1|rp d|rp t|rp d|rp d|rp t|rp de content|rp hint|rp id off hint|from to d|rp t content med|rp d|rp d|rp t|st0|rp st0|rp d art|h data|h|h|h|h|h d|h];
      try discriminate Hl; cbn [list_call].
    - (* Repositories *)
      right. exists (fun s0 => list_after s0 (akeys (repos st))). apply pages_well_list_after.
      + apply (inv_keys _ _ _ _ HB).
      + intros x Hx. apply In_akeys_lookup in Hx as (rp0 & Hx). destruct (HR x rp0 Hx) as (Hv & _).
        apply (sane_vr sane). exact Hv.
      + intros s0. rewrite mstep_eq. reflexivity.
    - (* Tags *)
      destruct (get_repo st rp) as [rp0|] eqn:Eg.
      + right. exists (fun s0 => list_after s0 (akeys (tags rp0))). apply pages_well_list_after.
        * apply (ok_tkeys _ _ _ _ _ _ (inv_repo _ _ _ _ HB _ _ Eg)).
        * intros x Hx. apply In_akeys_lookup in Hx as (de & Hx). destruct (HR _ _ Eg) as (_ & Hxx).
          destruct (x_tag _ Hxx _ _ Hx) as (Hv & _). apply (sane_vt sane). exact Hv.
        * intros s0. rewrite mstep_eq. unfold mem_step. cbn [list_call step fst snd]. rewrite Eg. reflexivity.
      + left. exists (gerr_of_err e_name_unknown). rewrite mstep_eq. unfold mem_step. cbn [step fst snd]. rewrite Eg.
        split; [reflexivity | apply relay_name_unknown].
  Qed.

  (* ---------------------------------------------------------- the upload session is PushBlob *)

  Lemma utf8_ascii l : forallb (fun c => (c <? 128)%N) l = true -> utf8_valid l = true.
  Proof.
    induction l as [|c l IH]; cbn [forallb utf8_valid]; [reflexivity|]. intros H. apply andb_true_iff in H as [Hc Hl].
    rewrite Hc. now apply IH.
  Qed.

  Lemma dec_digits_ascii f : forall n acc, forallb (fun c => (c <? 128)%N) acc = true ->
    forallb (fun c => (c <? 128)%N) (dec_digits f n acc) = true.
  Proof.
    induction f as [|f IH]; intros n acc Ha; cbn [dec_digits]; [exact Ha|].
    assert (Hd : forallb (fun c => (c <? 128)%N) ((48 + n mod 10)%N :: acc) = true).
    { cbn [forallb]. rewrite Ha, andb_true_r. apply N.ltb_lt.
      pose proof (N.mod_lt n 10 ltac:(discriminate)). lia. }
    destruct (n / 10 =? 0)%N; [exact Hd | now apply IH].
  Qed.

  Lemma fresh_id_good n : good_upload_id (fresh_id n).
  Proof.
    split; [discriminate|]. apply utf8_ascii. unfold fresh_id. cbn [forallb].
    change (35 <? 128)%N with true. cbn [andb]. now apply dec_digits_ascii.
  Qed.

  Lemma rs_set_upload rp1 rp2 id i : repo_sim rp1 rp2 -> repo_sim rp1 (rp_set_upload id i rp2).
  Proof. intros (A & B0 & C). repeat split; assumption. Qed.

  Lemma mem_session s1 s2 rp de content s1' v :
    InvM s2 -> simM s1 s2 ->
    mem s1 (PushBlob rp de content) = (s1', Ok v) ->
    v = RDesc de /\ exists b8 tr, session_of state mstep s2 rp (d_digest de) content b8 tr /\ simM s1' b8.
  Proof.
    intros (HB2 & HR2) Hs. unfold mem_step at 1. cbn [step].
    destruct (check_descriptor mhash vd de (Some content)) eqn:EC; [discriminate|].
    apply check_descriptor_some in EC as (Hvd & Hh & Hsize & Hmed).
    pose proof (sim_make_repo s1 s2 rp Hs) as Hm.
    destruct (make_repo vr s1 rp) as [t1|] eqn:EM1; [|discriminate].
    destruct (make_repo vr s2 rp) as [t2|] eqn:EM2; [|contradiction].
    intros H. injection H as <- <-. split; [reflexivity|].
    pose proof (make_repo_some _ _ _ _ EM2) as (Hvr & Hne & _ & _ & _).
    destruct (get_repo t2 rp) as [rp2|] eqn:Eg2; [|congruence].
    pose proof (repos_ok_make_repo _ _ _ HR2 EM2) as HRt2.
    destruct (HRt2 _ _ Eg2) as (_ & Hx2). pose proof (x_up _ Hx2) as Hup.
    set (fid := fresh_id (next_id t2)). set (i := N.of_nat (length (bufs t2))).
    set (nb := new_buffer rp fid 0).
    set (rpu := rp_set_upload fid i rp2).
    set (A1 := {| repos := aset rp rpu (repos t2); bufs := bufs t2 ++ [nb]; next_id := N.succ (next_id t2) |}).
    assert (Hi : N.to_nat i = length (bufs t2)) by (unfold i; apply Nat2N.id).
    (* 1 *)
    assert (E1 : mem s2 (PushBlobChunked rp 0) = (A1, Ok (RWriter i))).
    { unfold mem_step. cbn [step]. rewrite EM2, Eg2, Hup. reflexivity. }
    assert (HgA1 : get_repo A1 rp = Some rpu) by (unfold get_repo, A1; cbn [repos]; apply alookup_aset_eq).
    assert (HnA1 : nth_error (bufs A1) (N.to_nat i) = Some nb).
    { unfold A1. cbn [bufs]. rewrite Hi, nth_error_app2, Nat.sub_diag by lia. reflexivity. }
    (* 2, 3, 4 *)
    assert (E2 : mem A1 (WID i) = (A1, Ok (RStr fid))) by (unfold mem_step; cbn [step]; rewrite HnA1; reflexivity).
    assert (E3 : mem A1 (WChunkSize i) = (A1, Ok (RN 8192))) by (unfold mem_step; cbn [step]; rewrite HnA1; reflexivity).
    assert (E4 : mem A1 (WClose i) = (A1, Ok RUnit)) by (unfold mem_step; cbn [step]; rewrite HnA1; reflexivity).
    (* 5 *)
    set (ck := fun b : buffer => {| u_repo := u_repo b; u_id := u_id b; u_buf := u_buf b; u_check := 0;
                                    u_committed := u_committed b; u_desc := u_desc b; u_err := u_err b |}).
    set (A5 := with_buf A1 (N.to_nat i) ck).
    assert (E5 : mem A1 (PushBlobChunkedResume rp fid 0 (blen content)) = (A5, Ok (RWriter i))).
    { unfold mem_step. cbn [step]. unfold make_repo. rewrite Hvr, HgA1, HgA1. unfold rpu at 1. cbn [uploads rp_set_upload].
      rewrite alookup_aset_eq. reflexivity. }
    assert (HnA5 : nth_error (bufs A5) (N.to_nat i) = Some (ck nb)).
    { unfold A5, with_buf. cbn [bufs]. rewrite nth_error_upd_nth, Nat.eqb_refl, HnA1. reflexivity. }
    (* the states: what remains to relate *)
    assert (HsimA1 : forall A, repos A = repos A1 -> forall bl, Mem.b_data bl = content ->
              simM (upd_repo t1 rp (rp_set_blob (d_digest de) {| b_media := d_media de; Mem.b_data := content; b_subject := [] |}))
                   (upd_repo A rp (rp_set_blob (d_digest de) bl))).
    { intros A HA bl Hbl. apply sim_upd_repo; [|intros ra rb Hab; apply rs_set_blob; [symmetry; exact Hbl | exact Hab]].
      apply (sim_repos_eq _ A1); [|exact HA].
      destruct Hm as (HAk & HBk). split.
      + unfold A1. cbn [repos]. rewrite akeys_aset_in; [exact HAk|]. unfold get_repo in Eg2. eapply alookup_Some_in; eauto.
      + intros r. unfold get_repo at 2. unfold A1. cbn [repos]. rewrite alookup_aset.
        destruct (beqb r rp) eqn:Er; [|apply HBk]. apply beqb_eq in Er. subst r.
        pose proof (HBk rp) as Hrp. rewrite Eg2 in Hrp. destruct (get_repo t1 rp); cbn in Hrp |- *; [|contradiction].
        now apply rs_set_upload. }
    destruct content as [|c0 content'] eqn:Econtent.
    { (* the empty content: Commit on the empty buffer *)
      change (blen []) with 0 in E5.
      set (dg := d_digest de).
      set (cm := fun b : buffer => {| u_repo := u_repo b; u_id := u_id b; u_buf := u_buf b; u_check := u_check b;
                                      u_committed := true; u_desc := octet_desc dg (blen []); u_err := None |}).
      set (A7 := upd_repo (with_buf A5 (N.to_nat i) cm) rp
                   (rp_set_blob dg {| b_media := MT_OCTET; Mem.b_data := []; b_subject := [] |})).
      assert (E7 : mem A5 (WCommit i dg) = (A7, Ok (RDesc (octet_desc dg (blen []))))).
      { unfold mem_step. cbn [step]. rewrite HnA5. cbn [u_err ck nb new_buffer u_buf u_repo].
        unfold dg. rewrite Hh, beqb_refl. reflexivity. }
      assert (E8 : mem A7 (WClose i) = (A7, Ok RUnit)).
      { unfold mem_step. cbn [step]. unfold A7. rewrite bufs_upd_repo. unfold with_buf. cbn [bufs].
        rewrite nth_error_upd_nth, Nat.eqb_refl, HnA5. reflexivity. }
      exists A7. eexists. split.
      - exists A1, A1, A1, A1, A5, A7, (VWriter i), (VStr fid), (VN 8192), (Ok VUnit), (VWriter i),
               (VDesc (octet_desc dg (blen []))), (Ok VUnit).
        rewrite !mstep_eq. cbn [wid_of str_of n_of].
        rewrite E1, E2, E3, E4, E5, E7, E8. cbn [fst snd bres_of_result bval_of_res].
        repeat split; try discriminate; try reflexivity. apply fresh_id_good.
      - unfold A7. apply HsimA1; reflexivity. }
    assert (Hso : forall b8 tr, session state mstep s2 rp (d_digest de) (c0 :: content') b8 tr ->
                                session_of state mstep s2 rp (d_digest de) (c0 :: content') b8 tr)
      by (intros b8 tr H; exact H).
    rewrite <- Econtent in *. clear Econtent.
    (* 6 *)
    set (wr := fun b : buffer => {| u_repo := u_repo b; u_id := u_id b; u_buf := u_buf b ++ content; u_check := -1;
                                    u_committed := u_committed b; u_desc := u_desc b; u_err := u_err b |}).
    set (A6 := with_buf A5 (N.to_nat i) wr).
    assert (E6 : mem A5 (WWrite i content) = (A6, Ok (RN (blen content)))).
    { unfold mem_step. cbn [step]. rewrite HnA5. reflexivity. }
    assert (HnA6 : nth_error (bufs A6) (N.to_nat i) = Some (wr (ck nb))).
    { unfold A6, with_buf. cbn [bufs]. rewrite nth_error_upd_nth, Nat.eqb_refl, HnA5. reflexivity. }
    (* 7 *)
    set (dg := d_digest de).
    set (cm := fun b : buffer => {| u_repo := u_repo b; u_id := u_id b; u_buf := u_buf b; u_check := u_check b;
                                    u_committed := true; u_desc := octet_desc dg (blen content); u_err := None |}).
    set (A7 := upd_repo (with_buf A6 (N.to_nat i) cm) rp
                 (rp_set_blob dg {| b_media := MT_OCTET; b_data := content; b_subject := [] |})).
    assert (E7 : mem A6 (WCommit i dg) = (A7, Ok (RDesc (octet_desc dg (blen content))))).
    { unfold mem_step. cbn [step]. rewrite HnA6. cbn [u_err wr ck nb new_buffer u_buf app u_repo].
      unfold dg. rewrite Hh, beqb_refl. reflexivity. }
    (* 8 *)
    assert (E8 : mem A7 (WClose i) = (A7, Ok RUnit)).
    { unfold mem_step. cbn [step]. unfold A7. rewrite bufs_upd_repo. unfold with_buf. cbn [bufs].
      rewrite nth_error_upd_nth, Nat.eqb_refl, HnA6. reflexivity. }
    exists A7. eexists. split.
    - apply Hso. fold dg. exists A1, A1, A1, A1, A5, A6, A7, (VWriter i), (VStr fid), (VN 8192), (Ok VUnit), (VWriter i), (VN (blen content)),
             (VDesc (octet_desc dg (blen content))), (Ok VUnit).
      rewrite !mstep_eq. cbn [wid_of str_of n_of].
      rewrite E1, E2, E3, E4, E5, E6, E7, E8. cbn [fst snd bres_of_result bval_of_res].
      repeat split; try discriminate; try reflexivity. apply fresh_id_good.
    - (* the states *)
      unfold A7. apply HsimA1; reflexivity.
  Qed.

  (* ---------------------------------------------------------- the contract *)

  Theorem mem_conforming : Conforming all hashhex (orc_subject orc) enc0 state mstep o InvM simM.
  Proof.
    constructor.
    - intros b c Hi. rewrite mstep_eq. cbn [fst]. now apply invm_step.
    - intros b _. apply simM_refl.
    - intros b c Hi H1 Hwf. rewrite mstep_eq. cbn [snd]. now apply mem_conf.
    - intros b1 b2 c _ _ Hs H1 _. rewrite !mstep_eq. cbn [fst snd]. now apply mem_sim_step.
    - intros b1 b2 c _ _ Hs Hl. rewrite !mstep_eq. cbn [fst snd].
      destruct (mem_sim_list b1 b2 c Hs Hl) as (E & Hs'). rewrite E. auto.
    - intros b1 b2 c _ Hs Hr. rewrite mstep_eq. cbn [fst]. now rewrite mem_read_only.
    - intros b rp t b' v Hi _ E0. rewrite mstep_eq in E0.
      assert (Eb := f_equal fst E0). assert (E := f_equal snd E0). cbn [fst snd] in Eb, E. clear E0. subst b'.
      destruct (snd (mem b (GetTag rp t))) as [rv| | |] eqn:Ev; try discriminate E. cbn [bres_of_result] in E.
      injection E as <-.
      assert (Hb' : fst (mem b (GetTag rp t)) = b) by reflexivity. rewrite Hb'.
      destruct (mem_tag_head b rp t rv Hi Ev) as (de & E1 & Hd & Hz).
      exists (VDesc de). rewrite mstep_eq. cbn [snd]. rewrite E1. auto.
    - intros b c Hi Hl. now apply mem_list.
    - intros b1 b2 rp d data b1' v _ Hi2 Hs _ E0. rewrite mstep_eq in E0.
      assert (Eb := f_equal fst E0). assert (E := f_equal snd E0). cbn [fst snd] in Eb, E. clear E0. subst b1'.
      destruct (mem b1 (PushBlob rp d data)) as [s1' r] eqn:Em. cbn [fst snd] in *.
      destruct r as [rv| | |]; try discriminate E. cbn [bres_of_result] in E. injection E as <-.
      destruct (mem_session b1 b2 rp d data s1' rv Hi2 Hs Em) as (-> & b8 & tr & Hse & Hs').
      split; [repeat split|]. exists b8, tr. auto.
  Qed.

End Mem.

Print Assumptions mem_conforming.
