(* C03, the chunked-upload writer over the stack, one client step at a time, for a writer whose
   location is ANY URL that the server reads as the path of the upload (repo, id):

     loc_at wr repo id      interp_url (wr_location wr) = Ok (upath repo id, [])

   Proofs/StackTransparent.v states the flush / commit steps for [writer_at] (a location the
   server handed out in a Location header: URef _ (upath repo id)).  A writer obtained from
   PushBlobChunkedResume with an explicit offset has the caller's ID as its location
   ([UId (upath repo id)]): the same steps are proved here for [loc_at], which covers both.

     flush_patch_at         blobWriter.flush of a non-empty chunk (PATCH)
     commit_at              blobWriter.Commit with a pending chunk (PUT with body)
     commit_empty_at        blobWriter.Commit with nothing pending (PUT without body)
     commit_err_at / commit_empty_err_at    the backend refuses Commit: the caller gets that
                            error (wrapped), the writer is unchanged, the backend has received
                            the pending chunk
     start_err              the backend refuses PushBlobChunked
     resume_info            PushBlobChunkedResume(id, -1): GET <location>, the backend sees
                            PushBlobChunkedResume(-1), ID, Size, Close; the writer starts at the
                            size the backend reports (when that size is not 1: the Range header
                            0-0 stands for 0 and for 1 byte, the recorded deviation)
     resume_at              PushBlobChunkedResume(id, offset >= 0): no request at all
     id_at                  BlobWriter.ID of a writer at (repo, id) is upath repo id *)
From Coq Require Import String.
From OCI Require Import Model.Stack Proofs.Request Proofs.StackBase Proofs.StackDesc Proofs.StackRead Proofs.StackRange.
From OCI Require Import Model.RequestCodecSpec Proofs.RequestCodec Proofs.StackUpload Proofs.StackQuery Proofs.StackTransparent.
From OCI Require Import Proofs.StackUploadEmpty Proofs.StackUploadErr.
From OCI Require Proofs.Errors Proofs.Server.

Local Open Scope Z_scope.

(* ---------------------------------------------------------------- the server: GET <location> *)

Section EmitInfo.
  Variable linked : alg -> bool.
  Variable digest_of : bytes -> bytes.
  Variable subject_of : bytes -> option (option bytes).
  Variable enc : jval -> bytes.
  Variable redirect : bytes -> bytes -> bytes * bytes.
  Variable B : Type.
  Variable bstep : backend B.
  Variable o : opts.

  Notation H := (handle linked digest_of subject_of enc redirect B bstep o).

  Ltac fin :=
    cbn [h_b h_tr h_w fst snd set_hdr write_header write_body upd_w log rev app finish
         w_status w_hdrs w_body w_json rw0 as_desc as_read as_unit desc_of data_of negb].

  (* GET <location>: PushBlobChunkedResume(-1), ID, Size, the deferred Close *)
  Lemma emit_upload_info b req r b1 b2 b3 b4 vw vid vs rc loc :
    parse_req linked (hq_method req) (hq_path req) (hq_rawquery req) = Ok r ->
    Request.q_kind r = Request.ReqBlobUploadInfo ->
    bstep b (PushBlobChunkedResume (q_repo r) (q_upload r) (-1) 0) = (b1, Ok vw) ->
    bstep b1 (WID (wid_of vw)) = (b2, Ok vid) ->
    location_for_upload_id linked (q_repo r) (str_of vid) = Ok loc ->
    bstep b2 (WSize (wid_of vw)) = (b3, Ok vs) ->
    bstep b3 (WClose (wid_of vw)) = (b4, rc) -> rc <> Panic -> rc <> OutOfFuel ->
    H b req = (b4, [ECall (PushBlobChunkedResume (q_repo r) (q_upload r) (-1) 0) (Ok vw);
                    ECall (WID (wid_of vw)) (Ok vid); ECall (WSize (wid_of vw)) (Ok vs);
                    ECall (WClose (wid_of vw)) rc],
               Ok (mkresp 204 (hset H_range (range_string 0 (n_of vs)) (hset H_location loc [])) [] None)).
  Proof.
    intros Hp Hk H1 H2 Hloc H3 H4 Hnp Hnf.
    unfold Server.handle, Server.v2. rewrite Hp. unfold Server.dispatch. rewrite Hk.
    unfold handle_blob_upload_info, call. fin. rewrite H1. cbn [as_writer].
    unfold with_upload_location, call. fin. rewrite H2. cbn [as_str]. rewrite Hloc. fin. rewrite H3. cbn [as_n].
    unfold defer_close, call. fin. rewrite H4. destruct rc; try congruence; fin; reflexivity.
  Qed.

  (* the closing PUT without body when Commit fails *)
  Lemma emit_complete_upload_empty_err b req r b1 b3 b4 start vw e rc wr :
    parse_req linked (hq_method req) (hq_path req) (hq_rawquery req) = Ok r ->
    Request.q_kind r = Request.ReqBlobCompleteUpload ->
    chunk_range req = Ok (start, start) -> hq_body req = [] ->
    bstep b (PushBlobChunkedResume (q_repo r) (q_upload r) start 0) = (b1, Ok vw) ->
    bstep b1 (WCommit (wid_of vw) (q_digest r)) = (b3, Err e) ->
    bstep b3 (WClose (wid_of vw)) = (b4, rc) -> rc <> Panic -> rc <> OutOfFuel ->
    serve_error go_sprefix go_cprefix e = Ok wr ->
    H b req = (b4, [ECall (PushBlobChunkedResume (q_repo r) (q_upload r) start 0) (Ok vw);
                    ECall (WCommit (wid_of vw) (q_digest r)) (Err e); ECall (WClose (wid_of vw)) rc],
               Ok (err_resp enc [] wr)).
  Proof.
    intros Hp Hk Hcr Hbody H1 H3 H4 Hnp Hnf Hs.
    unfold Server.handle, Server.v2. rewrite Hp. unfold Server.dispatch. rewrite Hk.
    unfold handle_blob_complete_upload. rewrite Hcr. rewrite Z.sub_diag. change (wrap64 0) with 0.
    unfold call. fin. rewrite H1. cbn [as_writer].
    unfold copy_body. rewrite Hbody. unfold call. fin. rewrite H3. cbn [as_desc].
    unfold defer_close, call. fin. rewrite H4.
    destruct rc; try congruence; fin; rewrite (write_error_rw0 _ _ _ _ _ _ Hs); fin; reflexivity.
  Qed.
End EmitInfo.

(* ---------------------------------------------------------------- the client *)

Section WriterStep.
  Variable linked : alg -> bool.
  Variable hash : bytes -> bytes -> bytes.
  Variable subject_of : bytes -> option (option bytes).
  Variable media : bytes -> bytes.
  Variable enc : jval -> bytes.
  Variable dec_errors : bytes -> option (list werr).
  Variable dec_names : bool -> bytes -> option (list bytes).
  Variable dec_index : bytes -> option (list desc).
  Variable redirect : bytes -> bytes -> bytes * bytes.
  Variable B : Type.
  Variable bstep : backend B.
  Variable o : opts.

  Notation serve := (serve_stack linked hash subject_of enc redirect bstep o).
  Notation env := (stack_env linked hash media dec_errors dec_names dec_index).
  Notation W := (world (srv B)).
  Notation EM L := (L linked (digest_of hash) subject_of enc redirect B bstep o).
  Notation merr := (marshal_error go_sprefix go_cprefix).
  Notation werror := (wire_error enc).

  Definition loc_at (wr : writer) (repo id : bytes) : Prop :=
    interp_url (wr_location wr) = Ok (upath repo id, []).

  Lemma writer_at_loc_at wr repo id : vrepo repo = true -> good_upload_id id ->
    writer_at wr repo id -> loc_at wr repo id.
  Proof. intros Hr Hid Hat. exact (writer_at_interp wr repo id Hr Hid Hat). Qed.

  Lemma loc_at_ref base repo id : vrepo repo = true -> good_upload_id id ->
    interp_url (URef base (upath repo id)) = Ok (upath repo id, []).
  Proof. intros Hr Hid. cbn [interp_url]. now rewrite (upath_dot_free repo id Hr Hid), (upath_parse repo id Hr Hid). Qed.

  (* BlobWriter.ID *)
  Lemma id_at wr repo id : vrepo repo = true -> good_upload_id id -> loc_at wr repo id ->
    url_string (wr_location wr) = Ok (upath repo id).
  Proof.
    intros Hr Hid Hl. unfold url_string. rewrite Hl. rewrite app_nil_r. f_equal.
    apply path_escape_safe. unfold upath. rewrite forallb_app. rewrite (upath_safe repo id Hr Hid). reflexivity.
  Qed.

  (* ---------------------------------------------------------- flush (PATCH) *)

  Theorem flush_patch_at (w : W) wr repo id buf b1 b2 b3 b4 b5 vw vn vc vid vs :
    let data := chunk_bytes wr ++ buf in
    let f := wr_flushed wr in
    vrepo repo = true -> good_upload_id id -> loc_at wr repo id ->
    data <> [] -> 0 <= f -> f + blen data <= max_int64 ->
    bstep (sv_b (w_srv w)) (PushBlobChunkedResume repo id f (blen data)) = (b1, Ok vw) ->
    bstep b1 (WWrite (wid_of vw) data) = (b2, Ok vn) -> n_of vn = blen data ->
    bstep b2 (WClose (wid_of vw)) = (b3, Ok vc) ->
    bstep b3 (WID (wid_of vw)) = (b4, Ok vid) -> good_upload_id (str_of vid) ->
    bstep b4 (WSize (wid_of vw)) = (b5, Ok vs) ->
    exists w',
      flush (srv B) serve env wr buf [] w
      = (w', Ok {| wr_chunk_size := wr_chunk_size wr; wr_closed := wr_closed wr;
                   wr_chunk := option_map (fun _ => []) (wr_chunk wr); wr_close_err := wr_close_err wr;
                   wr_size := wr_size wr; wr_flushed := f + blen data;
                   wr_location := URef (wr_location wr) (upath repo (str_of vid)) |})
      /\ w_srv w' = after B (w_srv w) b5
                       [ECall (PushBlobChunkedResume repo id f (blen data)) (Ok vw);
                        ECall (WWrite (wid_of vw) data) (Ok vn); ECall (WClose (wid_of vw)) (Ok vc);
                        ECall (WID (wid_of vw)) (Ok vid); ECall (WSize (wid_of vw)) (Ok vs)].
  Proof.
    intros data f Hr Hid Hat Hne Hf Hm H1 H2 Hn H3 H4 Hid' H5.
    assert (Hl : blenZ (chunk_bytes wr) + blenZ buf = blen data) by (unfold blenZ, blen, data; rewrite app_length; lia).
    unfold flush, bind. cbn [is_empty andb].
    assert (Hz : (blenZ buf + blenZ (chunk_bytes wr) =? 0) = false).
    { apply Z.eqb_neq. assert (0 < blen data) by (unfold blen; destruct data; [congruence | cbn [length]; lia]). lia. }
    rewrite Hz. cbn [negb].
    change {| rq_method := MPatch; rq_url := wr_location wr;
              rq_header := [(h_content_range, Http.range_string (wr_flushed wr)
                               (w64 (wr_flushed wr + (blenZ (chunk_bytes wr) + blenZ buf))))];
              rq_body := concat_body (chunk_bytes wr) buf; rq_clen := blenZ (chunk_bytes wr) + blenZ buf |}
      with (flush_request (wr_location wr) MPatch f (chunk_bytes wr) buf).
    set (sreq := mkhreq m_PATCH (upath repo id) [] [] (Request.range_string f (f + blen data)) [] (blen data) data).
    assert (Hcr : chunk_range sreq = Ok (f, f + blen data)).
    { apply (chunk_range_at sreq f (blen data)); try assumption; try reflexivity.
      unfold blen. destruct data; [congruence | cbn [length]; lia]. }
    assert (Hw64 : wrap64 (f + blen data - f) = blen data).
    { replace (f + blen data - f) with (blen data) by lia. apply wrap64_small.
      pose proof (Nat2Z.is_nonneg (length data)). unfold blen, min_int64, max_int64 in *. lia. }
    assert (H1' : bstep (sv_b (w_srv w)) (PushBlobChunkedResume repo id f (wrap64 (f + blen data - f))) = (b1, Ok vw))
      by (rewrite Hw64; exact H1).
    pose proof (EM emit_upload_chunk (sv_b (w_srv w)) sreq _ (chunk_parse linked repo id Hr Hid)
                  b1 b2 b3 b4 b5 f (f + blen data) vw vn vc vid vs (upath repo (str_of vid)) eq_refl Hcr Hne H1' H2 Hn H3 H4
                  (location_ok linked repo (str_of vid) Hr Hid') H5) as Eh.
    cbn [Request.q_repo Request.q_upload] in Eh. rewrite Hw64 in Eh.
    rewrite (client_do_stack linked hash subject_of media enc dec_errors dec_names dec_index redirect B bstep o
               (flush_request (wr_location wr) MPatch f (chunk_bytes wr) buf) [202] w sreq b5 _ _
               (to_server_req_flush _ MPatch f _ _ _ _ Hat Hne Hf Hm) Eh eq_refl).
    cbv zeta. cbn [p_status]. change (status_accepted [202] 202) with true. cbn iota.
    unfold lift, location_from_response, rheader, got. cbn [hr_rs hr_req].
    rewrite rs_header_of_server_resp. cbn [p_hdrs]. change location_hdr with H_location. hdrs.
    assert (Hnel : is_empty (upath repo (str_of vid)) = false) by reflexivity. rewrite Hnel.
    cbn [e_url_ok stack_env]. unfold url_ok. rewrite (upath_parse repo (str_of vid) Hr Hid'). cbn [negb flatten].
    unfold ret. rewrite Hl, w64_wrap64, wrap64_small.
    2:{ pose proof (Nat2Z.is_nonneg (length data)). unfold blen, min_int64, max_int64 in *. lia. }
    eexists. split; reflexivity.
  Qed.

  (* ---------------------------------------------------------- Commit *)

  Theorem commit_at (w : W) wr repo id dg b1 b2 b3 b4 vw vn vd rc :
    let data := chunk_bytes wr in
    let f := wr_flushed wr in
    o_locs o = None ->
    vrepo repo = true -> good_upload_id id -> loc_at wr repo id -> vdigest linked dg = true ->
    data <> [] -> 0 <= f -> f + blen data <= max_int64 ->
    bstep (sv_b (w_srv w)) (PushBlobChunkedResume repo id f (blen data)) = (b1, Ok vw) ->
    bstep b1 (WWrite (wid_of vw) data) = (b2, Ok vn) -> n_of vn = blen data ->
    bstep b2 (WCommit (wid_of vw) dg) = (b3, Ok vd) -> vdigest linked (d_digest (desc_of vd)) = true ->
    bstep b3 (WClose (wid_of vw)) = (b4, rc) -> rc <> Panic -> rc <> OutOfFuel ->
    exists w' wr',
      writer_commit (srv B) serve env wr dg w
      = (w', (wr', Ok {| d_media := octet_stream; d_digest := dg; d_size := wr_size wr; d_artifact := [] |}))
      /\ wr_flushed wr' = f + blen data /\ wr_size wr' = wr_size wr
      /\ w_srv w' = after B (w_srv w) b4
                       [ECall (PushBlobChunkedResume repo id f (blen data)) (Ok vw);
                        ECall (WWrite (wid_of vw) data) (Ok vn);
                        ECall (WCommit (wid_of vw) dg) (Ok vd); ECall (WClose (wid_of vw)) rc].
  Proof.
    intros data f Hl Hr Hid Hat Hd Hne Hf Hm H1 H2 Hn H3 Hvd H4 Hc1 Hc2.
    assert (Hdne : is_empty dg = false) by (now apply vdigest_nonempty in Hd).
    assert (Hl2 : blenZ (chunk_bytes wr) + blenZ [] = blen (data ++ [])).
    { unfold blenZ, blen, data. rewrite app_nil_r. cbn [length]. lia. }
    assert (Hdd : data ++ [] = data) by apply app_nil_r.
    unfold writer_commit. rewrite Hdne. unfold flush, bind. rewrite Hdne. cbn [andb negb].
    change {| rq_method := MPut; rq_url := UDigest (wr_location wr) dg;
              rq_header := [(h_content_range, Http.range_string (wr_flushed wr)
                               (w64 (wr_flushed wr + (blenZ (chunk_bytes wr) + blenZ []))))];
              rq_body := concat_body (chunk_bytes wr) []; rq_clen := blenZ (chunk_bytes wr) + blenZ [] |}
      with (flush_request (UDigest (wr_location wr) dg) MPut f (chunk_bytes wr) []).
    set (sreq := mkhreq m_PUT (upath repo id) (s "digest=" ++ query_escape dg) []
                        (Request.range_string f (f + blen data)) [] (blen data) data).
    assert (Hpos : 1 <= blen data) by (unfold blen; destruct data; [congruence | cbn [length]; lia]).
    assert (Hcr : chunk_range sreq = Ok (f, f + blen data))
      by (apply (chunk_range_at sreq f (blen data)); try assumption; reflexivity).
    assert (Hw64 : wrap64 (f + blen data - f) = blen data).
    { replace (f + blen data - f) with (blen data) by lia. apply wrap64_small. unfold min_int64, max_int64 in *. lia. }
    assert (H1' : bstep (sv_b (w_srv w)) (PushBlobChunkedResume repo id f (wrap64 (f + blen data - f))) = (b1, Ok vw))
      by (rewrite Hw64; exact H1).
    pose proof (EM emit_complete_upload_hdrs (sv_b (w_srv w)) sreq _ (complete_parse linked repo id dg Hr Hid Hd)
                  b1 b2 b3 b4 f (f + blen data) vw vn vd rc eq_refl Hl Hcr Hne H1' H2 Hn H3 H4 Hc1 Hc2) as Eh.
    cbn [Request.q_repo Request.q_upload Request.q_digest] in Eh. rewrite Hw64 in Eh.
    assert (Hint : interp_url (UDigest (wr_location wr) dg) = Ok (upath repo id, s "digest=" ++ query_escape dg)).
    { cbn [interp_url]. unfold loc_at in Hat. now rewrite Hat. }
    assert (Hts : to_server_req (flush_request (UDigest (wr_location wr) dg) MPut f (chunk_bytes wr) []) = Ok sreq).
    { rewrite (to_server_req_flush _ MPut f (chunk_bytes wr) [] _ _ Hint); fold data; rewrite ?Hdd; try assumption.
      reflexivity. }
    rewrite (client_do_stack linked hash subject_of media enc dec_errors dec_names dec_index redirect B bstep o
               _ [201] w sreq b4 _ _ Hts Eh eq_refl).
    cbv zeta. cbn [p_status]. change (status_accepted [201] 201) with true. cbn iota.
    unfold lift, location_from_response, rheader, got. cbn [hr_rs hr_req].
    rewrite rs_header_of_server_resp. cbn [p_hdrs]. change location_hdr with H_location. hdrs.
    assert (Hnel : is_empty (blob_location repo (d_digest (desc_of vd))) = false) by reflexivity. rewrite Hnel.
    cbn [e_url_ok stack_env]. unfold url_ok, blob_location.
    rewrite (blob_location_parse linked repo _ Hr Hvd). cbn [negb flatten]. unfold ret.
    eexists. eexists. split; [reflexivity|]. cbn [wr_flushed wr_size].
    rewrite Hl2, Hdd, w64_wrap64, wrap64_small by (unfold min_int64, max_int64 in *; lia).
    repeat split.
  Qed.

  Theorem commit_empty_at (w : W) wr repo id dg b1 b3 b4 vw vd rc :
    let f := wr_flushed wr in
    o_locs o = None ->
    vrepo repo = true -> good_upload_id id -> loc_at wr repo id -> vdigest linked dg = true ->
    chunk_bytes wr = [] -> 0 <= f <= max_int64 ->
    bstep (sv_b (w_srv w)) (PushBlobChunkedResume repo id f 0) = (b1, Ok vw) ->
    bstep b1 (WCommit (wid_of vw) dg) = (b3, Ok vd) -> vdigest linked (d_digest (desc_of vd)) = true ->
    bstep b3 (WClose (wid_of vw)) = (b4, rc) -> rc <> Panic -> rc <> OutOfFuel ->
    exists w' wr',
      writer_commit (srv B) serve env wr dg w
      = (w', (wr', Ok {| d_media := octet_stream; d_digest := dg; d_size := wr_size wr; d_artifact := [] |}))
      /\ wr_flushed wr' = f /\ wr_size wr' = wr_size wr
      /\ w_srv w' = after B (w_srv w) b4
                       [ECall (PushBlobChunkedResume repo id f 0) (Ok vw);
                        ECall (WCommit (wid_of vw) dg) (Ok vd); ECall (WClose (wid_of vw)) rc].
  Proof.
    intros f Hl Hr Hid Hat Hd Hch Hf H1 H3 Hvd H4 Hc1 Hc2.
    assert (Hdne : is_empty dg = false) by (now apply vdigest_nonempty in Hd).
    unfold writer_commit. rewrite Hdne. unfold flush, bind. rewrite Hdne. cbn [andb negb]. rewrite Hch.
    cbn [concat_body]. fold f. rewrite (empty_range f Hf). change (blenZ [] + blenZ []) with 0.
    assert (Hint : interp_url (UDigest (wr_location wr) dg) = Ok (upath repo id, s "digest=" ++ query_escape dg)).
    { cbn [interp_url]. unfold loc_at in Hat. now rewrite Hat. }
    set (sreq := mkhreq m_PUT (upath repo id) (s "digest=" ++ query_escape dg) [] (Request.range_string f f) [] 0 []).
    assert (Hcr : chunk_range sreq = Ok (f, f)) by (apply (chunk_range_empty sreq f Hf); reflexivity).
    pose proof (emit_complete_upload_empty linked (digest_of hash) subject_of enc redirect B bstep o
                  (sv_b (w_srv w)) sreq _ b1 b3 b4 f vw vd rc (complete_parse linked repo id dg Hr Hid Hd)
                  eq_refl Hl Hcr eq_refl H1 H3 H4 Hc1 Hc2) as Eh.
    cbn [Request.q_repo Request.q_upload Request.q_digest] in Eh.
    erewrite (client_do_stack linked hash subject_of media enc dec_errors dec_names dec_index redirect B bstep o
               _ [201] w sreq b4 _ _ _ Eh eq_refl).
    Unshelve.
    2:{ rewrite (to_server_req_put_empty (UDigest (wr_location wr) dg) _ _ _ [] Hint); reflexivity. }
    cbv zeta. cbn [p_status]. change (status_accepted [201] 201) with true. cbn iota.
    unfold lift, location_from_response, rheader, got. cbn [hr_rs hr_req].
    rewrite rs_header_of_server_resp. cbn [p_hdrs]. change location_hdr with H_location. hdrs.
    assert (Hnel : is_empty (blob_location repo (d_digest (desc_of vd))) = false) by reflexivity. rewrite Hnel.
    cbn [e_url_ok stack_env]. unfold url_ok, blob_location.
    rewrite (blob_location_parse linked repo _ Hr Hvd). cbn [negb flatten]. unfold ret.
    eexists. eexists. split; [reflexivity|]. cbn [wr_flushed wr_size].
    rewrite Z.add_0_r, w64_wrap64, wrap64_small by (unfold min_int64, max_int64 in *; lia).
    repeat split.
  Qed.

  (* ---------------------------------------------------------- PushBlobChunkedResume *)

  Lemma info_parse repo id : vrepo repo = true -> good_upload_id id ->
    parse_req linked m_GET (upath repo id) [] = Ok (mkreq Request.ReqBlobUploadInfo repo [] [] [] id 0 []).
  Proof.
    intros Hr [Hne Hu]. unfold upath. rewrite (upload_path_assoc repo (b64u_encode id)). change (s "/v2/") with v2.
    rewrite (parse_upload linked m_GET repo id [] [] Hr Hne Hu eq_refl). cbv zeta. lit_beqb. reflexivity.
  Qed.

  Lemma upath_url_ok rp id : vrepo rp = true -> good_upload_id id -> url_ok (upath rp id) = true.
  Proof. intros Hr Hid. unfold url_ok. now rewrite (upath_parse rp id Hr Hid). Qed.

  Lemma upath_url_rooted rp id : vrepo rp = true -> good_upload_id id -> url_rooted (upath rp id) = true.
  Proof. intros Hr Hid. unfold url_rooted. rewrite (upath_parse rp id Hr Hid). reflexivity. Qed.

  (* the Range header of the upload status: "0-(n-1)" gives n back, except that "0-0" is what
     both 0 and 1 byte look like *)
  Lemma parse_status_range n : 0 <= n <= max_int64 -> n <> 1 ->
    Request.parse_range (Request.range_string 0 n) = Some (0, n).
  Proof.
    intros Hn H1. destruct (Z.eq_dec n 0) as [->|Hnz]; [reflexivity|].
    rewrite (parse_range_whole n) by lia. destruct (Z.ltb_spec 0 (n - 1)); [reflexivity | lia].
  Qed.

  Definition resumed (loc : url) (cs off : Z) : writer :=
    {| wr_chunk_size := cs; wr_closed := false; wr_chunk := None; wr_close_err := None;
       wr_size := off; wr_flushed := off; wr_location := loc |}.

  (* resume by asking the registry *)
  Theorem resume_info (w : W) repo rp id cs b1 b2 b3 b4 vw vid vs rc :
    vrepo rp = true -> good_upload_id id ->
    bstep (sv_b (w_srv w)) (PushBlobChunkedResume rp id (-1) 0) = (b1, Ok vw) ->
    bstep b1 (WID (wid_of vw)) = (b2, Ok vid) -> good_upload_id (str_of vid) ->
    bstep b2 (WSize (wid_of vw)) = (b3, Ok vs) -> 0 <= n_of vs <= max_int64 -> n_of vs <> 1 ->
    bstep b3 (WClose (wid_of vw)) = (b4, rc) -> rc <> Panic -> rc <> OutOfFuel ->
    exists w',
      push_blob_chunked_resume (srv B) serve env repo (upath rp id) (-1) cs w
      = (w', Ok (resumed (URef (UId (upath rp id)) (upath rp (str_of vid))) (default_or cs) (n_of vs)))
      /\ w_srv w' = after B (w_srv w) b4
                       [ECall (PushBlobChunkedResume rp id (-1) 0) (Ok vw); ECall (WID (wid_of vw)) (Ok vid);
                        ECall (WSize (wid_of vw)) (Ok vs); ECall (WClose (wid_of vw)) rc].
  Proof.
    intros Hr Hid H1 H2 Hid' H3 Hn Hn1 H4 Hc1 Hc2.
    unfold push_blob_chunked_resume.
    assert (Hne : is_empty (upath rp id) = false) by reflexivity. rewrite Hne.
    change (-1 =? -1) with true. cbv iota. cbn [e_url_ok stack_env]. rewrite (upath_url_ok rp id Hr Hid). cbn [negb].
    set (rq := {| rq_method := MGet; rq_url := UId (upath rp id); rq_header := []; rq_body := BNil; rq_clen := 0 |}).
    assert (Hts : to_server_req rq = Ok (plain_req MGet (upath rp id) [])).
    { unfold to_server_req, rq. cbn [rq_url interp_url]. rewrite (upath_parse rp id Hr Hid). reflexivity. }
    pose proof (emit_upload_info linked (digest_of hash) subject_of enc redirect B bstep o
                  (sv_b (w_srv w)) (plain_req MGet (upath rp id) []) _ b1 b2 b3 b4 vw vid vs rc (upath rp (str_of vid))
                  (info_parse rp id Hr Hid) eq_refl H1 H2 (location_ok linked rp (str_of vid) Hr Hid') H3 H4 Hc1 Hc2) as Eh.
    cbn [Request.q_repo Request.q_upload] in Eh.
    rewrite (client_do_stack linked hash subject_of media enc dec_errors dec_names dec_index redirect B bstep o
               rq [204] w _ b4 _ _ Hts Eh eq_refl).
    cbv zeta. cbn [p_status]. change (status_accepted [204] 204) with true. cbn iota.
    unfold location_from_response, chunk_size_from_response, rheader, got. cbn [hr_rs hr_req].
    rewrite rs_header_of_server_resp. cbn [p_hdrs]. change location_hdr with H_location. hdrs.
    assert (Hnel : is_empty (upath rp (str_of vid)) = false) by reflexivity. rewrite Hnel.
    cbn [e_url_ok stack_env]. unfold url_ok. rewrite (upath_parse rp (str_of vid) Hr Hid'). cbn [negb flatten rbind].
    rewrite http_parse_range, (parse_status_range _ Hn Hn1). change (0 =? 0) with true. cbn [negb].
    fold (default_or cs). unfold atoi. cbn. eexists. split; reflexivity.
  Qed.

  (* resume at an offset the caller names: no request *)
  Theorem resume_at (w : W) repo rp id off cs :
    vrepo rp = true -> good_upload_id id -> 0 <= off ->
    push_blob_chunked_resume (srv B) serve env repo (upath rp id) off cs w
    = (w, Ok (resumed (UId (upath rp id)) (default_or cs) off)).
  Proof.
    intros Hr Hid Hoff. unfold push_blob_chunked_resume.
    assert (Hne : is_empty (upath rp id) = false) by reflexivity. rewrite Hne.
    destruct (Z.eqb_spec off (-1)); [lia|]. destruct (Z.ltb_spec off 0); [lia|].
    cbn [e_url_ok e_url_rooted stack_env]. rewrite (upath_url_ok rp id Hr Hid), (upath_url_rooted rp id Hr Hid).
    reflexivity.
  Qed.

  Lemma resumed_loc_id rp id cs off : vrepo rp = true -> good_upload_id id ->
    loc_at (resumed (UId (upath rp id)) cs off) rp id.
  Proof. intros Hr Hid. unfold loc_at. cbn [wr_location resumed interp_url]. apply (upath_parse rp id Hr Hid). Qed.

  (* ---------------------------------------------------------- the backend refuses *)

  Hypothesis media_json : media json_ct = json_ct.
  Hypothesis json_errors_rt : forall w, dec_errors (enc (JErr w)) = Some [w].

  Definition commit_wrap : bytes := s "cannot flush data before commit: ".

  (* Commit with a pending chunk, the backend refuses the digest: the chunk has reached the
     backend, the client's writer is as before *)
  Theorem commit_err_at (w : W) wr repo id dg b1 b2 b3 b4 vw vn e rc :
    let data := chunk_bytes wr in
    let f := wr_flushed wr in
    vrepo repo = true -> good_upload_id id -> loc_at wr repo id -> vdigest linked dg = true ->
    data <> [] -> 0 <= f -> f + blen data <= max_int64 ->
    bstep (sv_b (w_srv w)) (PushBlobChunkedResume repo id f (blen data)) = (b1, Ok vw) ->
    bstep b1 (WWrite (wid_of vw) data) = (b2, Ok vn) -> n_of vn = blen data ->
    bstep b2 (WCommit (wid_of vw) dg) = (b3, Err e) ->
    bstep b3 (WClose (wid_of vw)) = (b4, rc) -> rc <> Panic -> rc <> OutOfFuel ->
    conf_err e -> blen (enc (JErr (r_err (merr e)))) <= 8192 ->
    exists w',
      writer_commit (srv B) serve env wr dg w = (w', (wr, Err (Wrap commit_wrap (werror false e))))
      /\ w_srv w' = after B (w_srv w) b4
                       [ECall (PushBlobChunkedResume repo id f (blen data)) (Ok vw);
                        ECall (WWrite (wid_of vw) data) (Ok vn);
                        ECall (WCommit (wid_of vw) dg) (Err e); ECall (WClose (wid_of vw)) rc].
  Proof.
    intros data f Hr Hid Hat Hd Hne Hf Hm H1 H2 Hn H3 H4 Hc1 Hc2 He Hlen8.
    assert (Hdne : is_empty dg = false) by (now apply vdigest_nonempty in Hd).
    assert (Hdd : data ++ [] = data) by apply app_nil_r.
    unfold writer_commit. rewrite Hdne. unfold flush, bind. rewrite Hdne. cbn [andb negb].
    change {| rq_method := MPut; rq_url := UDigest (wr_location wr) dg;
              rq_header := [(h_content_range, Http.range_string (wr_flushed wr)
                               (w64 (wr_flushed wr + (blenZ (chunk_bytes wr) + blenZ []))))];
              rq_body := concat_body (chunk_bytes wr) []; rq_clen := blenZ (chunk_bytes wr) + blenZ [] |}
      with (flush_request (UDigest (wr_location wr) dg) MPut f (chunk_bytes wr) []).
    set (sreq := mkhreq m_PUT (upath repo id) (s "digest=" ++ query_escape dg) []
                        (Request.range_string f (f + blen data)) [] (blen data) data).
    assert (Hpos : 1 <= blen data) by (unfold blen; destruct data; [congruence | cbn [length]; lia]).
    assert (Hcr : chunk_range sreq = Ok (f, f + blen data))
      by (apply (chunk_range_at sreq f (blen data)); try assumption; reflexivity).
    assert (Hw64 : wrap64 (f + blen data - f) = blen data).
    { replace (f + blen data - f) with (blen data) by lia. apply wrap64_small. unfold min_int64, max_int64 in *. lia. }
    assert (H1' : bstep (sv_b (w_srv w)) (PushBlobChunkedResume repo id f (wrap64 (f + blen data - f))) = (b1, Ok vw))
      by (rewrite Hw64; exact H1).
    pose proof (emit_complete_upload_err linked (digest_of hash) subject_of enc redirect B bstep o
                  (sv_b (w_srv w)) sreq _ b1 b2 b3 b4 f (f + blen data) vw vn e rc (merr e)
                  (complete_parse linked repo id dg Hr Hid Hd) eq_refl Hcr Hne H1' H2 Hn H3 H4 Hc1 Hc2
                  (conf_err_serve e He)) as Eh.
    cbn [Request.q_repo Request.q_upload Request.q_digest] in Eh. rewrite Hw64 in Eh.
    assert (Hint : interp_url (UDigest (wr_location wr) dg) = Ok (upath repo id, s "digest=" ++ query_escape dg)).
    { cbn [interp_url]. unfold loc_at in Hat. now rewrite Hat. }
    assert (Hts : to_server_req (flush_request (UDigest (wr_location wr) dg) MPut f (chunk_bytes wr) []) = Ok sreq).
    { rewrite (to_server_req_flush _ MPut f (chunk_bytes wr) [] _ _ Hint); fold data; rewrite ?Hdd; try assumption.
      reflexivity. }
    pose proof He as [Hte Hst]. destruct (err_status_facts _ Hst) as (Hrd & Hnb & Hok).
    rewrite (client_do_stack linked hash subject_of media enc dec_errors dec_names dec_index redirect B bstep o
               _ [201] w sreq b4 _ _ Hts Eh Hrd).
    cbv zeta. cbn [p_status err_resp r_status marshal_error]. rewrite Hok. cbn [negb].
    rewrite (not_accepted _ [201] Hst) by (try (repeat constructor; lia); discriminate).
    unfold fail_make_error.
    erewrite make_error_stack; try eassumption; try reflexivity; [|apply json_errors_rt].
    cbn [rq_method flush_request meth_eqb]. rewrite client_error_hop. eexists. split; reflexivity.
  Qed.

  Theorem commit_empty_err_at (w : W) wr repo id dg b1 b3 b4 vw e rc :
    let f := wr_flushed wr in
    vrepo repo = true -> good_upload_id id -> loc_at wr repo id -> vdigest linked dg = true ->
    chunk_bytes wr = [] -> 0 <= f <= max_int64 ->
    bstep (sv_b (w_srv w)) (PushBlobChunkedResume repo id f 0) = (b1, Ok vw) ->
    bstep b1 (WCommit (wid_of vw) dg) = (b3, Err e) ->
    bstep b3 (WClose (wid_of vw)) = (b4, rc) -> rc <> Panic -> rc <> OutOfFuel ->
    conf_err e -> blen (enc (JErr (r_err (merr e)))) <= 8192 ->
    exists w',
      writer_commit (srv B) serve env wr dg w = (w', (wr, Err (Wrap commit_wrap (werror false e))))
      /\ w_srv w' = after B (w_srv w) b4
                       [ECall (PushBlobChunkedResume repo id f 0) (Ok vw);
                        ECall (WCommit (wid_of vw) dg) (Err e); ECall (WClose (wid_of vw)) rc].
  Proof.
    intros f Hr Hid Hat Hd Hch Hf H1 H3 H4 Hc1 Hc2 He Hlen8.
    assert (Hdne : is_empty dg = false) by (now apply vdigest_nonempty in Hd).
    unfold writer_commit. rewrite Hdne. unfold flush, bind. rewrite Hdne. cbn [andb negb]. rewrite Hch.
    cbn [concat_body]. fold f. rewrite (empty_range f Hf). change (blenZ [] + blenZ []) with 0.
    assert (Hint : interp_url (UDigest (wr_location wr) dg) = Ok (upath repo id, s "digest=" ++ query_escape dg)).
    { cbn [interp_url]. unfold loc_at in Hat. now rewrite Hat. }
    set (sreq := mkhreq m_PUT (upath repo id) (s "digest=" ++ query_escape dg) [] (Request.range_string f f) [] 0 []).
    assert (Hcr : chunk_range sreq = Ok (f, f)) by (apply (chunk_range_empty sreq f Hf); reflexivity).
    pose proof (emit_complete_upload_empty_err linked (digest_of hash) subject_of enc redirect B bstep o
                  (sv_b (w_srv w)) sreq _ b1 b3 b4 f vw e rc (merr e) (complete_parse linked repo id dg Hr Hid Hd)
                  eq_refl Hcr eq_refl H1 H3 H4 Hc1 Hc2 (conf_err_serve e He)) as Eh.
    cbn [Request.q_repo Request.q_upload Request.q_digest] in Eh.
    pose proof He as [Hte Hst]. destruct (err_status_facts _ Hst) as (Hrd & Hnb & Hok).
    erewrite (client_do_stack linked hash subject_of media enc dec_errors dec_names dec_index redirect B bstep o
               _ [201] w sreq b4 _ _ _ Eh Hrd).
    Unshelve.
    2:{ rewrite (to_server_req_put_empty (UDigest (wr_location wr) dg) _ _ _ [] Hint); reflexivity. }
    cbv zeta. cbn [p_status err_resp r_status marshal_error]. rewrite Hok. cbn [negb].
    rewrite (not_accepted _ [201] Hst) by (try (repeat constructor; lia); discriminate).
    unfold fail_make_error.
    erewrite make_error_stack; try eassumption; try reflexivity; [|apply json_errors_rt].
    cbn [rq_method meth_eqb]. rewrite client_error_hop. eexists. split; reflexivity.
  Qed.

  (* the backend refuses to open the upload *)
  Theorem start_err (w : W) repo cs b1 e :
    vrepo repo = true ->
    bstep (sv_b (w_srv w)) (PushBlobChunked repo 0) = (b1, Err e) ->
    conf_err e -> blen (enc (JErr (r_err (merr e)))) <= 8192 ->
    exists w',
      push_blob_chunked (srv B) serve env repo cs w = (w', Err (werror false e))
      /\ w_srv w' = after B (w_srv w) b1 [ECall (PushBlobChunked repo 0) (Err e)].
  Proof.
    intros Hr H1 He Hlen.
    destruct (do_request_stack_err linked hash subject_of media enc dec_errors dec_names dec_index redirect B bstep o
                media_json json_errors_rt (start_upload_rreq repo) [202] w
                (mkreq Request.ReqBlobStartUpload repo [] [] [] [] 0 []) b1 [ECall (PushBlobChunked repo 0) (Err e)] [] e)
      as (w' & E & Hw); try assumption; try reflexivity.
    - apply (start_codec linked repo Hr).
    - intros p rawq Hp.
      apply (emit_start_upload_err linked (digest_of hash) subject_of enc redirect B bstep o
               (sv_b (w_srv w)) (plain_req MPost p rawq) _ b1 e (merr e) Hp eq_refl H1 (conf_err_serve e He)).
    - repeat constructor.
    - unfold push_blob_chunked, bind. rewrite E. exists w'. split; [reflexivity | exact Hw].
  Qed.

End WriterStep.

Print Assumptions flush_patch_at.
Print Assumptions commit_at.
Print Assumptions commit_empty_at.
Print Assumptions resume_info.
Print Assumptions resume_at.
Print Assumptions commit_err_at.
Print Assumptions commit_empty_err_at.
Print Assumptions start_err.
