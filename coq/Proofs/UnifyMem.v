(* C15 for ocimem members: two in-memory registries (Model/Mem.v) that are equal up to
   upload-session identifiers ([mem_rel], Model/UnifyMemSpec.v) stay so along every history
   of calls through the unifier (Model/Unify.v), chunked uploads with resume included.

   Part 1 is a version of Proofs/Unify.v's [equal_stay_equal_ids] for a relation that
   carries a budget (the number of upload IDs the members may still allocate): the model's
   ID generator is injective only below 10^40, so [Mem.step] respects [mem_rel] only
   while the counters are below that bound, and the unbudgeted hypothesis of
   C15_equal_stay_equal cannot hold of it verbatim ([fresh_id_collides]).
   Part 2 proves that [Mem.step] respects the relation; part 3 puts them together;
   part 4 is the read side. *)
From Coq Require Import String Lia.
From OCI Require Import Model.UnifyMemSpec Proofs.MemBasics.

(* ================= Part 1: equal stay equal, with a budget ================= *)

Section EqualStayEqualBudget.
  Context {B0 B1 : Type}.
  Variable step0 : registry B0.
  Variable step1 : registry B1.
  Variable idenc : bytes -> bytes -> bytes.
  Variable iddec : bytes -> option (list bytes).

  Notation ustate := (ustate B0 B1).
  Notation ustep := (ustep step0 step1 idenc iddec).
  Notation urun := (urun step0 step1 idenc iddec).
  Notation ans0 := (ans0 step0).
  Notation ans1 := (ans1 step1).

  (* [R k p] = related under the renaming p, with room for k more upload IDs *)
  Variable R : nat -> ren -> B0 -> B1 -> Prop.
  Hypothesis H_mono : forall k p s0 s1, R (S k) p s0 s1 -> R k p s0 s1.
  (* the same call on both keeps them related and is answered alike; it uses up at most one
     unit of the budget, and none unless it starts a chunked upload *)
  Hypothesis H_sim : forall k p s0 s1 o0 o1,
    R (S k) p s0 s1 -> op_rel p o0 o1 ->
    exists p', ren_incl p p'
               /\ R k p' (fst (step0 s0 o0)) (fst (step1 s1 o1))
               /\ res_rel p' (snd (step0 s0 o0)) (snd (step1 s1 o1)).
  Hypothesis H_sim_free : forall k p s0 s1 o0 o1,
    is_chunk_start o0 = false ->
    R k p s0 s1 -> op_rel p o0 o1 ->
    exists p', ren_incl p p'
               /\ R k p' (fst (step0 s0 o0)) (fst (step1 s1 o1))
               /\ res_rel p' (snd (step0 s0 o0)) (snd (step1 s1 o1)).
  Hypothesis H_obs0 : forall k p s0 s1 o,
    R k p s0 s1 -> is_observer o = true -> R k p (fst (step0 s0 o)) s1.
  Hypothesis H_fail0 : forall k p s0 s1 r de data,
    R k p s0 s1 -> is_err (snd (step0 s0 (PushBlob r de data))) = true ->
    R k p (fst (step0 s0 (PushBlob r de data))) s1.
  Hypothesis H_fail1 : forall k p s0 s1 r de data,
    R k p s0 s1 -> is_err (snd (step1 s1 (PushBlob r de data))) = true ->
    R k p s0 (fst (step1 s1 (PushBlob r de data))).
  (* the codec round-trips on the IDs the renaming mentions *)
  Variable idok : bytes -> Prop.
  Hypothesis H_codec : forall a b, idok a -> idok b -> iddec (idenc a b) = Some [a; b].
  Hypothesis H_idok : forall k p s0 s1 a b, R k p s0 s1 -> In (a, b) (r_ids p) -> idok a /\ idok b.

  Notation Inv k := (Inv (R k)).
  Notation issued_ok := (issued_ok idenc idok).
  Notation resume_ok := (resume_ok iddec).
  Notation closed_loop := (closed_loop step0 step1 idenc iddec).
  Notation issued_after := (issued_after step0 step1 idenc iddec).
  Notation after_both := (after_both step0 step1).

  Lemma Inv_mono k p st : Inv (S k) p st -> Inv k p st.
  Proof. intros [HR Hw]. split; [now apply H_mono | exact Hw]. Qed.

  Lemma both_sim k p st o0 o1 :
    Inv (S k) p st -> op_rel p o0 o1 ->
    exists p', ren_incl p p' /\ Inv k p' (after_both st o0 o1) /\ res_rel p' (ans0 st o0) (ans1 st o1).
  Proof.
    intros [HR Hwf] Hop. destruct (H_sim k p _ _ o0 o1 HR Hop) as (p' & I & HR' & Hres).
    exists p'. split; [exact I|]. split; [|exact Hres].
    split; [exact HR'|]. cbn. eapply wf_incl; eauto.
  Qed.

  Lemma both_sim_free k p st o0 o1 :
    is_chunk_start o0 = false -> Inv k p st -> op_rel p o0 o1 ->
    exists p', ren_incl p p' /\ Inv k p' (after_both st o0 o1) /\ res_rel p' (ans0 st o0) (ans1 st o1).
  Proof.
    intros Hc [HR Hwf] Hop. destruct (H_sim_free k p _ _ o0 o1 Hc HR Hop) as (p' & I & HR' & Hres).
    exists p'. split; [exact I|]. split; [|exact Hres].
    split; [exact HR'|]. cbn. eapply wf_incl; eauto.
  Qed.

  Lemma sim_run_read k pol f st o p :
    is_digest_read o = true -> Inv k p st ->
    exists p', ren_incl p p' /\ Inv k p' (fst (run_read step0 step1 pol f st o)).
  Proof.
    intros Hd HI.
    assert (Hp : op_rel p o o) by (apply op_rel_plain; destruct o; try discriminate; reflexivity).
    assert (Hc : is_chunk_start o = false) by (destruct o; try discriminate; reflexivity).
    assert (Hobs : Inv k p {| u_b0 := fst (step0 (u_b0 st) o); u_b1 := u_b1 st; u_ws := u_ws st;
                              u_log0 := o :: u_log0 st; u_log1 := u_log1 st |}).
    { destruct HI as [HR Hw]. split; cbn; [|exact Hw].
      apply H_obs0; auto. unfold is_observer. now rewrite Hd. }
    destruct pol; cbn [run_read].
    - rewrite call0_eq. destruct (Unify.ans0 step0 st o) eqn:E; cbn [fst];
        try (exists p; split; [apply ren_incl_refl | exact Hobs]).
      rewrite call1_eq. cbn [fst u_b0 u_b1 u_ws u_log0 u_log1].
      destruct (both_sim_free k p st o o Hc HI Hp) as (p' & I & HI' & _). exists p'. split; [exact I | exact HI'].
    - rewrite both_eq. cbn [fst].
      destruct (both_sim_free k p st o o Hc HI Hp) as (p' & I & HI' & _). exists p'. split; [exact I | exact HI'].
  Qed.

  Lemma sim_push_blob k c st r de data p :
    Inv k p st ->
    exists p', ren_incl p p' /\ Inv k p' (fst (push_blob step0 step1 c st (PushBlob r de data))).
  Proof.
    intros HI. unfold push_blob. rewrite call0_eq, call1_eq.
    set (o := PushBlob r de data).
    set (cut0 := match c_cut0 c, c_cut1 c with Some _, None => is_errb (ans1 st o) | _, _ => false end).
    set (cut1 := match c_cut1 c, c_cut0 c with Some _, None => is_errb (ans0 st o) | _, _ => false end).
    cbn [fst u_b0 u_b1 u_ws u_log0 u_log1].
    assert (Hx : cut0 = true -> cut1 = false).
    { unfold cut0, cut1. destruct (c_cut0 c), (c_cut1 c); auto; discriminate. }
    assert (Herr : forall q, is_errb q = true -> is_err q = true) by (intros [| | |]; auto).
    destruct cut0 eqn:C0; [rewrite (Hx eq_refl)|destruct cut1 eqn:C1].
    - exists p. split; [apply ren_incl_refl|]. destruct HI as [HR Hw]. split; cbn; [|exact Hw].
      apply H_fail1; auto. apply Herr. unfold cut0 in C0.
      destruct (c_cut0 c), (c_cut1 c); try discriminate; exact C0.
    - exists p. split; [apply ren_incl_refl|]. destruct HI as [HR Hw]. split; cbn; [|exact Hw].
      apply H_fail0; auto. apply Herr. unfold cut1 in C1.
      destruct (c_cut1 c), (c_cut0 c); try discriminate; exact C1.
    - destruct (both_sim_free k p st o o eq_refl HI (op_rel_plain p o eq_refl)) as (p' & I & HI' & _).
      exists p'. split; [exact I | exact HI'].
  Qed.

  Lemma sim_push_chunked k st r hint p :
    Inv (S k) p st ->
    exists p', ren_incl p p' /\ Inv k p' (fst (push_chunked step0 step1 st (PushBlobChunked r hint))).
  Proof.
    intros HI. unfold push_chunked. rewrite both_eq.
    set (o := PushBlobChunked r hint).
    destruct (both_sim k p st o o HI (op_rel_plain p o eq_refl)) as (p' & I & HI' & Hres).
    destruct (ans0 st o) as [[]| | |] eqn:E0; destruct (ans1 st o) as [[]| | |] eqn:E1;
      cbn in Hres; try contradiction; try discriminate;
      unfold close0, close1;
      try (cbn [fst]; exists p'; split; [exact I | exact HI']).
    rewrite call0_eq. cbn [fst snd].
    exists p'. split; [exact I|]. destruct HI' as [HR Hw]. split.
    - cbn. apply H_obs0; [exact HR | reflexivity].
    - apply wf_add; [exact Hw | exact Hres].
  Qed.

  Lemma sim_push_resume k st r id off hint p issued :
    Inv (S k) p st -> issued_ok p issued -> resume_ok issued (PushBlobChunkedResume r id off hint) ->
    exists p', ren_incl p p' /\ Inv k p' (fst (push_resume step0 step1 iddec st r id off hint)).
  Proof.
    intros HI Hiss Hres. unfold push_resume.
    destruct Hres as [Hin | Hbad].
    - destruct (Hiss id Hin) as (a & b & -> & Hab & Ha & Hb).
      rewrite (H_codec a b Ha Hb). rewrite both_eq.
      set (o0 := PushBlobChunkedResume r a off hint). set (o1 := PushBlobChunkedResume r b off hint).
      assert (Hop : op_rel p o0 o1) by (cbn; auto).
      destruct (both_sim k p st o0 o1 HI Hop) as (p1 & I1 & HI1 & Hr1).
      destruct (ans0 st o0) as [[]| | |] eqn:E0; destruct (ans1 st o1) as [[]| | |] eqn:E1;
        cbn in Hr1; try contradiction; try discriminate;
        unfold close0, close1;
        try (cbn [fst]; exists p1; split; [exact I1 | exact HI1]).
      set (st2 := after_both st o0 o1) in *.
      rewrite call0_eq. rewrite call1_eq. cbn [fst snd u_b0 u_b1 u_ws u_log0 u_log1].
      assert (Hop2 : op_rel p1 (WSize w) (WSize w0)) by exact Hr1.
      destruct (both_sim_free k p1 st2 (WSize w) (WSize w0) eq_refl HI1 Hop2) as (p2 & I2 & HI2 & Hr2).
      destruct (Z.eqb _ _).
      + exists p2. split; [eapply ren_incl_trans; eauto|]. destruct HI2 as [HR2 Hw2]. split.
        * exact HR2.
        * apply wf_add; [exact Hw2 | apply I2; exact Hr1].
      + unfold close0, close1. rewrite call0_eq. cbn [fst]. rewrite call1_eq. cbn [fst u_b0 u_b1 u_ws u_log0 u_log1].
        assert (Hop3 : op_rel p2 (WClose w) (WClose w0)) by (apply I2; exact Hr1).
        destruct (both_sim_free k p2 _ (WClose w) (WClose w0) eq_refl HI2 Hop3) as (p3 & I3 & HI3 & _).
        exists p3. split; [eapply ren_incl_trans; [exact I1|]; eapply ren_incl_trans; eauto|].
        exact HI3.
    - apply Inv_mono in HI.
      destruct (iddec id) as [[|a [|b [|? ?]]]|] eqn:D;
        try (cbn [fst]; exists p; split; [apply ren_incl_refl | exact HI]).
      exfalso. eapply Hbad. reflexivity.
  Qed.

  Lemma sim_writer_op k st kk w mk fin p :
    Inv k p st -> In (uw0 w, uw1 w) (r_ws p) ->
    (forall wa, is_chunk_start (mk wa) = false) ->
    (forall q wa wb, In (wa, wb) (r_ws q) -> op_rel q (mk wa) (mk wb)) ->
    (forall q st2 r, Inv k q st2 -> Inv k q (fst (fin st2 r))) ->
    exists p', ren_incl p p' /\ Inv k p' (fst (writer_op step0 step1 st kk w mk fin)).
  Proof.
    intros HI Hin Hc Hmk Hfin. unfold writer_op. rewrite both_eq.
    destruct (both_sim_free k p st _ _ (Hc _) HI (Hmk p _ _ Hin)) as (p' & I & HI' & _).
    exists p'. split; [exact I|]. apply Hfin. exact HI'.
  Qed.

  (* one call through the unifier keeps the members related; it costs at most one unit *)
  Lemma step_sim_b k pol c st o p issued :
    Inv (S k) p st -> issued_ok p issued -> resume_ok issued o ->
    exists p', ren_incl p p' /\ Inv k p' (fst (ustep pol c st o))
               /\ issued_ok p' (issue issued o (snd (ustep pol c st o))).
  Proof.
    intros HI1 Hiss Hres. pose proof (Inv_mono _ _ _ HI1) as HI.
    assert (Done : forall q, (exists p', ren_incl p p' /\ Inv k p' q) ->
                   issue issued o (snd (ustep pol c st o)) = issued ->
                   exists p', ren_incl p p' /\ Inv k p' q
                              /\ issued_ok p' (issue issued o (snd (ustep pol c st o)))).
    { intros q (p' & I & HI') ->. exists p'. split; [exact I|]. split; [exact HI'|].
      eapply issued_ok_incl; eauto. }
    assert (Same : exists p', ren_incl p p' /\ Inv k p' st) by (exists p; split; [apply ren_incl_refl | exact HI]).
    assert (Plain : forall o', is_plain o' = true -> is_chunk_start o' = false ->
                    exists p', ren_incl p p' /\ Inv k p' (after_both st o' o')).
    { intros o' Hpl Hc. destruct (both_sim_free k p st o' o' Hc HI (op_rel_plain p o' Hpl)) as (p' & I & HI' & _). eauto. }
    destruct o; try (apply Done; [|reflexivity]).
    - rewrite ustep_digest_read by reflexivity. now apply sim_run_read.
    - rewrite ustep_digest_read by reflexivity. now apply sim_run_read.
    - rewrite ustep_digest_read by reflexivity. now apply sim_run_read.
    - cbn [Unify.ustep]. unfold tag_read. rewrite both_eq. cbn [fst]. now apply Plain.
    - rewrite ustep_digest_read by reflexivity. now apply sim_run_read.
    - rewrite ustep_digest_read by reflexivity. now apply sim_run_read.
    - cbn [Unify.ustep]. unfold tag_read. rewrite both_eq. cbn [fst]. now apply Plain.
    - cbn [Unify.ustep]. now apply sim_push_blob.
    - cbn [Unify.ustep]. now apply sim_push_chunked.
    - cbn [Unify.ustep]. eapply sim_push_resume; eauto.
    - cbn [Unify.ustep]. rewrite both_eq. cbn [fst]. now apply Plain.
    - cbn [Unify.ustep]. unfold push_manifest. rewrite both_eq. cbn [fst]. now apply Plain.
    - cbn [Unify.ustep]. rewrite both_eq. cbn [fst]. now apply Plain.
    - cbn [Unify.ustep]. rewrite both_eq. cbn [fst]. now apply Plain.
    - cbn [Unify.ustep]. rewrite both_eq. cbn [fst]. now apply Plain.
    - cbn [Unify.ustep]. rewrite both_eq. cbn [fst]. now apply Plain.
    - cbn [Unify.ustep]. rewrite both_eq. cbn [fst]. now apply Plain.
    - cbn [Unify.ustep]. rewrite both_eq. cbn [fst]. now apply Plain.
    - (* Write *)
      cbn [Unify.ustep]. destruct (get_writer st w) as [uw|] eqn:G; [|exact Same].
      apply sim_writer_op;
        [ exact HI | eapply get_writer_wf; eauto; apply HI | reflexivity | intros q wa wb Hin; cbn; auto | ].
      intros q st2 r HI2. destruct r; cbn [fst]; auto. now apply Inv_grow.
    - (* Close *)
      cbn [Unify.ustep]. destruct (get_writer st w) as [uw|] eqn:G; [|exact Same].
      apply sim_writer_op;
        [ exact HI | eapply get_writer_wf; eauto; apply HI | reflexivity | intros q wa wb Hin; cbn; auto
        | intros q st2 r HI2; cbn [fst]; exact HI2 ].
    - (* Size *)
      cbn [Unify.ustep]. destruct (get_writer st w) as [uw|] eqn:G; exact Same.
    - (* ChunkSize *)
      cbn [Unify.ustep]. destruct (get_writer st w) as [uw|] eqn:G; [|exact Same].
      rewrite both_eq. cbn [fst].
      assert (Hop : op_rel p (WChunkSize (uw0 uw)) (WChunkSize (uw1 uw))).
      { cbn. eapply get_writer_wf; eauto. apply HI. }
      destruct (both_sim_free k p st (WChunkSize (uw0 uw)) (WChunkSize (uw1 uw)) eq_refl HI Hop) as (p' & I & HI' & _). eauto.
    - (* ID: the composite handed out encodes a related pair *)
      cbn [Unify.ustep]. destruct (get_writer st w) as [uw|] eqn:G.
      2:{ cbn [fst snd issue]. exists p. split; [apply ren_incl_refl|]. split; [exact HI | exact Hiss]. }
      rewrite both_eq. cbn [fst snd].
      assert (Hop : op_rel p (WID (uw0 uw)) (WID (uw1 uw))).
      { cbn. eapply get_writer_wf; eauto. apply HI. }
      destruct (both_sim_free k p st (WID (uw0 uw)) (WID (uw1 uw)) eq_refl HI Hop) as (p' & I & HI' & Hr).
      exists p'. split; [exact I|]. split; [exact HI'|].
      destruct (ans0 st (WID (uw0 uw))) as [[]| | |] eqn:E0;
        destruct (ans1 st (WID (uw1 uw))) as [[]| | |] eqn:E1;
        cbn in Hr; try contradiction; try discriminate;
        cbn [issue both_results];
        try (eapply issued_ok_incl; eauto; fail).
      destruct (H_idok k p' _ _ _ _ (proj1 HI') Hr) as [K0 K1].
      intros id [<-|Hid].
      + exists s, s0. repeat split; auto.
      + destruct (Hiss id Hid) as (a & b & E & Hab & Ha & Hb). exists a, b. repeat split; auto. now apply I.
    - (* Commit *)
      cbn [Unify.ustep]. destruct (get_writer st w) as [uw|] eqn:G; [|exact Same].
      apply sim_writer_op;
        [ exact HI | eapply get_writer_wf; eauto; apply HI | reflexivity | intros q wa wb Hin; cbn; auto
        | intros q st2 r HI2; cbn [fst]; exact HI2 ].
    - (* Cancel *)
      cbn [Unify.ustep]. destruct (get_writer st w) as [uw|] eqn:G; [|exact Same].
      apply sim_writer_op;
        [ exact HI | eapply get_writer_wf; eauto; apply HI | reflexivity | intros q wa wb Hin; cbn; auto
        | intros q st2 r HI2; cbn [fst]; exact HI2 ].
  Qed.

  (* along every closed-loop history of n calls, members related with room for n + k more
     IDs end related with room for k; every composite ID handed out decodes to the two
     members' own IDs of one upload *)
  Lemma equal_stay_equal_budget pol h : forall k st p issued,
    Inv (length h + k) p st -> issued_ok p issued -> closed_loop pol issued st h ->
    exists p', ren_incl p p' /\ Inv k p' (fst (urun pol st h))
               /\ issued_ok p' (issued_after pol issued st h)
               /\ forall id, In id (issued_after pol issued st h) ->
                    exists a b, iddec id = Some [a; b] /\ In (a, b) (r_ids p').
  Proof.
    induction h as [|[c o] h IH]; intros k st p issued HI Hiss Hcl.
    - exists p. split; [apply ren_incl_refl|]. split; [exact HI|]. split; [exact Hiss|].
      intros id Hid. destruct (Hiss id Hid) as (a & b & -> & Hab & Ha & Hb).
      exists a, b. split; [now apply H_codec | exact Hab].
    - cbn [Unify.closed_loop] in Hcl. destruct Hcl as [Hr Hcl].
      cbn [length plus] in HI.
      destruct (step_sim_b _ pol c st o p issued HI Hiss Hr) as (p1 & I1 & HI1 & Hiss1).
      cbn [Unify.urun Unify.issued_after]. destruct (ustep pol c st o) as [st1 r] eqn:E. cbn [fst snd] in *.
      destruct (IH k st1 p1 _ HI1 Hiss1 Hcl) as (p2 & I2 & HI2 & Hiss2 & Hdec).
      destruct (urun pol st1 h) as [st2 rs]. cbn [fst] in *.
      exists p2. split; [eapply ren_incl_trans; eauto|]. split; [exact HI2|]. split; [exact Hiss2 | exact Hdec].
  Qed.
End EqualStayEqualBudget.

(* ================= Part 2: Mem.step respects the relation ================= *)

(* ---------- the ID generator is injective below 10^40 (and not beyond) ---------- *)

Fixpoint p10 (f : nat) : N := match f with O => 1 | S f' => 10 * p10 f' end.

Lemma dec_digits_length f : forall n acc, (length acc <= length (dec_digits f n acc))%nat.
Proof.
  induction f as [|f IH]; intros n acc; cbn [dec_digits]; [lia|].
  destruct (n / 10 =? 0)%N; cbn [length]; [lia|].
  specialize (IH (n / 10)%N ((48 + n mod 10)%N :: acc)). cbn [length] in IH. lia.
Qed.

Lemma dec_digits_length_S f n acc : (length acc < length (dec_digits (S f) n acc))%nat.
Proof.
  cbn [dec_digits]. destruct (n / 10 =? 0)%N; cbn [length]; [lia|].
  pose proof (dec_digits_length f (n / 10)%N ((48 + n mod 10)%N :: acc)) as H. cbn [length] in H. lia.
Qed.

Lemma digit_split (n m : N) :
  (n / 10 = m / 10)%N -> (48 + n mod 10 = 48 + m mod 10)%N -> n = m.
Proof.
  intros Hq Hr. pose proof (N.div_mod' n 10) as A. pose proof (N.div_mod' m 10) as B.
  rewrite Hq in A. remember (m / 10)%N as q. remember (n mod 10)%N as a. remember (m mod 10)%N as b.
  clear Heqq Heqa Heqb Hq. lia.
Qed.

Lemma dec_digits_inj f : forall n m acc acc',
  (n < p10 f)%N -> (m < p10 f)%N -> length acc = length acc' ->
  dec_digits f n acc = dec_digits f m acc' -> n = m /\ acc = acc'.
Proof.
  induction f as [|f IH]; intros n m acc acc' Hn Hm Hl E.
  - cbn in *. split; [lia | exact E].
  - assert (Hn' : (n / 10 < p10 f)%N) by (apply N.div_lt_upper_bound; [discriminate | exact Hn]).
    assert (Hm' : (m / 10 < p10 f)%N) by (apply N.div_lt_upper_bound; [discriminate | exact Hm]).
    cbn [dec_digits] in E.
    destruct (n / 10 =? 0)%N eqn:En; destruct (m / 10 =? 0)%N eqn:Em.
    + apply N.eqb_eq in En, Em. injection E as E1 E2. split; [|exact E2].
      apply digit_split; [congruence | exact E1].
    + exfalso. destruct f as [|f].
      * change (p10 0) with 1%N in Hm'. apply N.eqb_neq in Em. remember (m / 10)%N as q. clear Heqq. lia.
      * pose proof (dec_digits_length_S f (m / 10)%N ((48 + m mod 10)%N :: acc')) as H.
        rewrite <- E in H. cbn [length] in H. lia.
    + exfalso. destruct f as [|f].
      * change (p10 0) with 1%N in Hn'. apply N.eqb_neq in En. remember (n / 10)%N as q. clear Heqq. lia.
      * pose proof (dec_digits_length_S f (n / 10)%N ((48 + n mod 10)%N :: acc)) as H.
        rewrite E in H. cbn [length] in H. lia.
    + assert (Hl' : length ((48 + n mod 10)%N :: acc) = length ((48 + m mod 10)%N :: acc'))
        by (cbn [length]; now rewrite Hl).
      destruct (IH _ _ _ _ Hn' Hm' Hl' E) as [Hq Ha]. injection Ha as E1 E2.
      split; [|exact E2]. apply digit_split; assumption.
Qed.

Lemma p10_40 : p10 40 = ID_LIMIT.
Proof. vm_compute. reflexivity. Qed.

Lemma fresh_id_inj n m : (n < ID_LIMIT)%N -> (m < ID_LIMIT)%N -> fresh_id n = fresh_id m -> n = m.
Proof.
  intros Hn Hm E. rewrite <- p10_40 in Hn, Hm. unfold fresh_id in E.
  assert (E' : dec_digits 40 n [] = dec_digits 40 m []) by congruence.
  pose proof (dec_digits_inj 40 n m [] [] Hn Hm eq_refl E') as H. destruct H as [H _]. exact H.
Qed.

Lemma fresh_id_ne n : fresh_id n <> [].
Proof. discriminate. Qed.

(* why the bound is there: beyond it the model's generator repeats itself *)
Lemma fresh_id_collides : fresh_id (10 ^ 39) = fresh_id (10 ^ 39 + ID_LIMIT).
Proof. vm_compute. reflexivity. Qed.

(* ---------- [strip] commutes with the store operations ---------- *)

Notation sg := (fun kv : bytes * repo => (fst kv, strip_repo (snd kv))).

Lemma alookup_map_strip r (m : alist repo) :
  alookup r (map sg m) = option_map strip_repo (alookup r m).
Proof.
  induction m as [|[k v] m IH]; cbn; [reflexivity|]. destruct (beqb r k); [reflexivity | exact IH].
Qed.

Lemma get_repo_strip st r : get_repo (strip st) r = option_map strip_repo (get_repo st r).
Proof. apply alookup_map_strip. Qed.

Lemma map_aset_strip r rp (m : alist repo) :
  map sg (aset r rp m) = aset r (strip_repo rp) (map sg m).
Proof.
  induction m as [|[k v] m IH]; cbn; [reflexivity|].
  destruct (beqb r k); cbn; [reflexivity | now rewrite IH].
Qed.

Lemma set_repo_strip st r rp : set_repo (strip st) r (strip_repo rp) = strip (set_repo st r rp).
Proof. unfold set_repo, strip; cbn. now rewrite map_aset_strip. Qed.

Lemma make_repo_strip vr st r : make_repo vr (strip st) r = option_map strip (make_repo vr st r).
Proof.
  unfold make_repo. destruct (vr r); [|reflexivity]. cbn [option_map]. rewrite get_repo_strip.
  destruct (get_repo st r); cbn [option_map]; [reflexivity|].
  change empty_repo with (strip_repo empty_repo) at 1. now rewrite set_repo_strip.
Qed.

Lemma upd_repo_strip st r f :
  (forall rp, f (strip_repo rp) = strip_repo (f rp)) ->
  upd_repo (strip st) r f = strip (upd_repo st r f).
Proof.
  intros Hf. unfold upd_repo. rewrite get_repo_strip. destruct (get_repo st r); cbn; [|reflexivity].
  now rewrite Hf, set_repo_strip.
Qed.

Lemma akeys_repos_strip st : akeys (repos (strip st)) = akeys (repos st).
Proof. unfold akeys, strip; cbn. rewrite map_map. reflexivity. Qed.

Lemma blob_for_strip st r d : blob_for (strip st) r d = blob_for st r d.
Proof. unfold blob_for. rewrite get_repo_strip. destruct (get_repo st r); reflexivity. Qed.
Lemma manifest_for_strip st r d : manifest_for (strip st) r d = manifest_for st r d.
Proof. unfold manifest_for. rewrite get_repo_strip. destruct (get_repo st r); reflexivity. Qed.

(* ---------- upload tables under the store operations ---------- *)

Lemma uploads_of_set_repo st r rp r' :
  uploads_of (set_repo st r rp) r' = if beqb r' r then uploads rp else uploads_of st r'.
Proof. unfold uploads_of. rewrite get_repo_set_repo. destruct (beqb r' r); reflexivity. Qed.

Lemma uploads_of_upd_repo st r f r' :
  (forall rp, uploads (f rp) = uploads rp) -> uploads_of (upd_repo st r f) r' = uploads_of st r'.
Proof.
  intros Hf. unfold uploads_of. rewrite get_repo_upd_repo. destruct (beqb r' r) eqn:E; [|reflexivity].
  apply beqb_eq in E. subst. destruct (get_repo st r); cbn; [apply Hf | reflexivity].
Qed.

Lemma uploads_of_make_repo vr st r st1 r' :
  make_repo vr st r = Some st1 -> uploads_of st1 r' = uploads_of st r'.
Proof.
  intros H. apply make_repo_some in H as (_ & _ & _ & _ & Hg). unfold uploads_of. rewrite Hg.
  destruct (get_repo st r'); [reflexivity|]. destruct (beqb r' r); reflexivity.
Qed.

(* ---------- calls that touch the content only ---------- *)

(* every call that mentions neither an upload ID nor a writer and does not start an upload *)
Definition is_content_op (o : op) : bool := is_plain o && negb (is_chunk_start o).

(* answers that carry no upload ID and no writer *)
Definition no_names (r : result) : Prop :=
  match r with Ok (RWriter _) | Ok (RStr _) => False | _ => True end.

Section MemSim.
  Variable hash : bytes -> bytes.
  Variable valid_digest : bytes -> bool.
  Variable valid_repo : bytes -> bool.
  Variable valid_tag : bytes -> bool.
  Variable decode_image : bytes -> option image_manifest.
  Variable decode_index : bytes -> option index_manifest.
  Variable cfg : config.

  Notation step := (step hash valid_digest valid_repo valid_tag decode_image decode_index cfg).
  Notation make_repo := (make_repo valid_repo).
  Notation check_refs := (check_refs hash valid_digest).
  Notation check_manifest := (check_manifest hash valid_digest decode_image decode_index).
  Notation refers_to := (refers_to decode_image decode_index).
  Notation tagged_refers_to := (tagged_refers_to decode_image decode_index).
  Notation mrefs := (manifest_refs decode_image decode_index).

  Lemma check_refs_strip rp refs : forall x, check_refs (strip_repo rp) refs x = check_refs rp refs x.
  Proof.
    induction refs as [|[k de] rest IH]; intros x; cbn [Mem.check_refs]; [reflexivity|].
    destruct (check_descriptor hash valid_digest de None); [reflexivity|].
    destruct k; cbn [strip_repo blobs manifests]; rewrite ?IH; reflexivity.
  Qed.

  Lemma check_manifest_strip rp media data :
    check_manifest (strip_repo rp) media data = check_manifest rp media data.
  Proof. unfold Mem.check_manifest. destruct (mrefs media data); [apply check_refs_strip | reflexivity]. Qed.

  Lemma refers_to_cons f rp k de rest d :
    refers_to (S f) rp ((k, de) :: rest) d =
    if beqb (d_digest de) d then Ok true
    else match k with
         | KBlob => refers_to (S f) rp rest d
         | _ => match alookup (d_digest de) (manifests rp) with
                | None => refers_to (S f) rp rest d
                | Some b =>
                    match mrefs (b_media b) (b_data b) with
                    | None => Err (e_plain (s "cannot unmarshal"))
                    | Some rs =>
                        match refers_to f rp rs d with
                        | Ok true => Ok true
                        | Ok false => refers_to (S f) rp rest d
                        | other => other
                        end
                    end
                end
         end.
  Proof. destruct k; reflexivity. Qed.

  Lemma refers_to_strip rp d : forall f refs, refers_to f (strip_repo rp) refs d = refers_to f rp refs d.
  Proof.
    induction f as [|f IHf]; intros refs; [reflexivity|].
    induction refs as [|[k de] rest IH]; [reflexivity|].
    rewrite !refers_to_cons. rewrite IH. cbn [strip_repo manifests].
    destruct (beqb (d_digest de) d); [reflexivity|].
    destruct k; try reflexivity;
      (destruct (alookup (d_digest de) (manifests rp)) as [b|]; [|reflexivity];
       destruct (mrefs (b_media b) (b_data b)); [|reflexivity]; now rewrite IHf).
  Qed.

  Lemma tagged_refers_to_strip rp d : tagged_refers_to (strip_repo rp) d = tagged_refers_to rp d.
  Proof. unfold Mem.tagged_refers_to. cbn [strip_repo manifests]. apply refers_to_strip. Qed.

  Ltac strip_fns :=
    try (intros [? ? ? ?]; reflexivity).

  (* [strip] is a homomorphism for the content calls: what they answer and what they store
     depends on the content only *)
  Lemma content_hom st o :
    is_content_op o = true -> step (strip st) o = (strip (fst (step st o)), snd (step st o)).
  Proof.
    intros Hc. destruct o; try discriminate Hc; cbn [Mem.step fst snd].
    - (* GetBlob *) now rewrite blob_for_strip.
    - now rewrite blob_for_strip.
    - now rewrite manifest_for_strip.
    - (* GetTag *) rewrite get_repo_strip. destruct (get_repo st r) as [rp|]; cbn [option_map strip_repo tags]; [|reflexivity].
      destruct (alookup t (tags rp)); [|reflexivity]. now rewrite manifest_for_strip.
    - now rewrite blob_for_strip.
    - now rewrite manifest_for_strip.
    - (* ResolveTag *) rewrite get_repo_strip. destruct (get_repo st r) as [rp|]; reflexivity.
    - (* PushBlob *)
      destruct (check_descriptor hash valid_digest de (Some content)); [reflexivity|].
      rewrite make_repo_strip. destruct (make_repo st r) as [st1|]; cbn [option_map fst snd]; [|reflexivity].
      rewrite upd_repo_strip by strip_fns. reflexivity.
    - (* MountBlob *)
      rewrite make_repo_strip. destruct (make_repo st to) as [st1|]; cbn [option_map fst snd]; [|reflexivity].
      rewrite blob_for_strip. destruct (blob_for st1 from d); cbn [fst snd]; try reflexivity.
      rewrite upd_repo_strip by strip_fns. reflexivity.
    - (* PushManifest *)
      rewrite make_repo_strip. destruct (make_repo st r) as [st1|]; cbn [option_map fst snd]; [|reflexivity].
      rewrite get_repo_strip. destruct (get_repo st1 r) as [rp|]; cbn [option_map]; [|reflexivity].
      cbn [strip_repo tags manifests]. rewrite check_manifest_strip.
      assert (Hstore :
        (if immutable_tags cfg
            && match alookup (hash content) (manifests rp) with
               | Some cur => negb (beqb (b_media cur) media) | None => false end
         then (strip st1, Err (E DENIED (s "mismatched media type")))
         else match check_descriptor hash valid_digest
                      {| d_media := media; d_digest := hash content; d_size := blen content; d_artifact := [] |}
                      (Some content) with
              | Some _ => (strip st1, Err (e_plain (s "invalid descriptor")))
              | None =>
                  match check_manifest rp media content with
                  | None => (strip st1, Err (e_plain (s "invalid manifest")))
                  | Some subject =>
                      (upd_repo (strip st1) r (fun rp0 =>
                         let rp1 := rp_set_manifest (hash content) {| b_media := media; b_data := content; b_subject := subject |} rp0 in
                         match t with [] => rp1 | _ => rp_set_tag t {| d_media := media; d_digest := hash content; d_size := blen content; d_artifact := [] |} rp1 end),
                       Ok (RDesc {| d_media := media; d_digest := hash content; d_size := blen content; d_artifact := [] |}))
                  end
              end)
        = (let x :=
           (if immutable_tags cfg
               && match alookup (hash content) (manifests rp) with
                  | Some cur => negb (beqb (b_media cur) media) | None => false end
            then (st1, Err (E DENIED (s "mismatched media type")))
            else match check_descriptor hash valid_digest
                         {| d_media := media; d_digest := hash content; d_size := blen content; d_artifact := [] |}
                         (Some content) with
                 | Some _ => (st1, Err (e_plain (s "invalid descriptor")))
                 | None =>
                     match check_manifest rp media content with
                     | None => (st1, Err (e_plain (s "invalid manifest")))
                     | Some subject =>
                         (upd_repo st1 r (fun rp0 =>
                            let rp1 := rp_set_manifest (hash content) {| b_media := media; b_data := content; b_subject := subject |} rp0 in
                            match t with [] => rp1 | _ => rp_set_tag t {| d_media := media; d_digest := hash content; d_size := blen content; d_artifact := [] |} rp1 end),
                          Ok (RDesc {| d_media := media; d_digest := hash content; d_size := blen content; d_artifact := [] |}))
                     end
                 end) in (strip (fst x), snd x))).
      { cbv zeta. destruct (immutable_tags cfg && _); [reflexivity|].
        destruct (check_descriptor _ _ _ _); [reflexivity|].
        destruct (check_manifest rp media content); [|reflexivity]. cbn [fst snd].
        rewrite upd_repo_strip; [reflexivity|]. intros [? ? ? ?]. destruct t; reflexivity. }
      cbv zeta in Hstore.
      destruct t as [|t0 t'].
      + exact Hstore.
      + destruct (negb (valid_tag (t0 :: t'))); [reflexivity|].
        destruct (immutable_tags cfg) eqn:Ei; [|exact Hstore].
        destruct (alookup (t0 :: t') (tags rp)) as [cur|]; [|exact Hstore].
        destruct (beqb (hash content) (d_digest cur)); [destruct (beqb (d_media cur) media)|]; reflexivity.
    - (* DeleteBlob *)
      rewrite blob_for_strip. destruct (blob_for st r d); try reflexivity.
      rewrite get_repo_strip. destruct (get_repo st r) as [rp|]; cbn [option_map]; [|reflexivity].
      rewrite tagged_refers_to_strip.
      assert (Hdel : upd_repo (strip st) r (rp_del_blob d) = strip (upd_repo st r (rp_del_blob d)))
        by (apply upd_repo_strip; strip_fns).
      destruct (immutable_tags cfg); [|now rewrite Hdel].
      destruct (tagged_refers_to rp d) as [[|]| | |]; try reflexivity. now rewrite Hdel.
    - (* DeleteManifest *)
      rewrite manifest_for_strip. destruct (manifest_for st r d); try reflexivity.
      rewrite get_repo_strip. destruct (get_repo st r) as [rp|]; cbn [option_map]; [|reflexivity].
      rewrite tagged_refers_to_strip.
      assert (Hdel : upd_repo (strip st) r (rp_del_manifest d) = strip (upd_repo st r (rp_del_manifest d)))
        by (apply upd_repo_strip; strip_fns).
      destruct (immutable_tags cfg); [|now rewrite Hdel].
      destruct (tagged_refers_to rp d) as [[|]| | |]; try reflexivity. now rewrite Hdel.
    - (* DeleteTag *)
      rewrite get_repo_strip. destruct (get_repo st r) as [rp|]; cbn [option_map strip_repo tags]; [|reflexivity].
      destruct (alookup t (tags rp)); [|reflexivity].
      destruct (immutable_tags cfg); [reflexivity|].
      rewrite upd_repo_strip by strip_fns. reflexivity.
    - (* Repositories *) now rewrite akeys_repos_strip.
    - (* Tags *) rewrite get_repo_strip. destruct (get_repo st r); reflexivity.
    - (* Referrers *) rewrite get_repo_strip. destruct (get_repo st r); reflexivity.
  Qed.

  (* ... and they leave the upload sessions, the buffers and the ID counter alone *)
  Definition frame_ok (st st' : state) : Prop :=
    bufs st' = bufs st /\ next_id st' = next_id st /\ forall r, uploads_of st' r = uploads_of st r.

  Lemma frame_refl st : frame_ok st st.
  Proof. repeat split. Qed.
  Lemma frame_make_repo st r st1 : make_repo st r = Some st1 -> frame_ok st st1.
  Proof.
    intros H. pose proof (make_repo_some _ _ _ _ H) as (_ & _ & Hb & Hn & _).
    repeat split; auto. intros r'. eapply uploads_of_make_repo; eauto.
  Qed.
  Lemma frame_upd st st1 r f :
    (forall rp, uploads (f rp) = uploads rp) -> frame_ok st st1 -> frame_ok st (upd_repo st1 r f).
  Proof.
    intros Hf (Hb & Hn & Hu). repeat split.
    - now rewrite bufs_upd_repo.
    - now rewrite next_upd_repo.
    - intros r'. rewrite uploads_of_upd_repo by exact Hf. apply Hu.
  Qed.

  Ltac crunch :=
    repeat match goal with
           | |- context [match ?x with _ => _ end] => destruct x eqn:?
           end.
  Ltac frame_leaf :=
    cbn [fst snd];
    first [ apply frame_refl
          | eapply frame_make_repo; eassumption
          | apply frame_upd;
            [ intros [? ? ? ?]; try match goal with |- context [match ?t with [] => _ | _ => _ end] => destruct t end; reflexivity
            | first [ apply frame_refl | eapply frame_make_repo; eassumption ] ] ].

  Lemma content_frame st o : is_content_op o = true -> frame_ok st (fst (step st o)).
  Proof.
    intros Hc. destruct o; try discriminate Hc; cbn [Mem.step]; try apply frame_refl;
      crunch; frame_leaf.
  Qed.

  Lemma content_no_names st o : is_content_op o = true -> no_names (snd (step st o)).
  Proof.
    intros Hc. destruct o; try discriminate Hc; cbn [Mem.step]; unfold rbind; crunch; exact I.
  Qed.

  (* ---------- the relation only looks at content, upload tables, buffers, counters ---------- *)

  Variable idok : bytes -> Prop.
  Notation mem_rel := (mem_rel idok).

  Lemma mem_rel_frame p s0 s1 s0' s1' :
    mem_rel p s0 s1 -> strip s0' = strip s1' -> frame_ok s0 s0' -> frame_ok s1 s1' ->
    mem_rel p s0' s1'.
  Proof.
    intros H Hs (Hb0 & Hn0 & Hu0) (Hb1 & Hn1 & Hu1). destruct H.
    constructor; auto.
    - intros r a b Hab. rewrite Hu0, Hu1. auto.
    - intros r a. rewrite Hu0. eauto.
    - intros r b. rewrite Hu1. eauto.
    - intros w0 w1 Hw. rewrite Hb0, Hb1. auto.
    - intros n a b. rewrite Hn0. eauto.
    - intros n a b. rewrite Hn1. eauto.
  Qed.

  Lemma strip_step_eq s0 s1 o :
    is_content_op o = true -> strip s0 = strip s1 ->
    strip (fst (step s0 o)) = strip (fst (step s1 o)) /\ snd (step s0 o) = snd (step s1 o).
  Proof.
    intros Hc Hs. pose proof (content_hom s0 o Hc) as H0. pose proof (content_hom s1 o Hc) as H1.
    rewrite Hs in H0. rewrite H0 in H1. split; congruence.
  Qed.

  (* a content call on related states *)
  Lemma content_sim p s0 s1 o :
    is_content_op o = true -> mem_rel p s0 s1 ->
    mem_rel p (fst (step s0 o)) (fst (step s1 o))
    /\ snd (step s0 o) = snd (step s1 o) /\ no_names (snd (step s0 o))
    /\ next_id (fst (step s0 o)) = next_id s0 /\ next_id (fst (step s1 o)) = next_id s1.
  Proof.
    intros Hc H. destruct (strip_step_eq s0 s1 o Hc (mr_content _ _ _ _ H)) as [Hs Hr].
    pose proof (content_frame s0 o Hc) as F0. pose proof (content_frame s1 o Hc) as F1.
    split; [eapply mem_rel_frame; eauto|]. split; [exact Hr|]. split; [now apply content_no_names|].
    split; [apply F0 | apply F1].
  Qed.

  Lemma res_rel_same p r : no_names r -> res_rel p r r.
  Proof. destruct r as [[]| | |]; cbn; auto; contradiction. Qed.

  Lemma mem_rel_upd p s0 s1 r g :
    (forall rp, g (strip_repo rp) = strip_repo (g rp)) -> (forall rp, uploads (g rp) = uploads rp) ->
    mem_rel p s0 s1 -> mem_rel p (upd_repo s0 r g) (upd_repo s1 r g).
  Proof.
    intros Hg Hu H. eapply mem_rel_frame; [exact H | | apply frame_upd; [exact Hu | apply frame_refl] ..].
    rewrite <- !upd_repo_strip by exact Hg. now rewrite (mr_content _ _ _ _ H).
  Qed.

  Lemma mem_rel_make_repo p s0 s1 r t0 t1 :
    mem_rel p s0 s1 -> make_repo s0 r = Some t0 -> make_repo s1 r = Some t1 -> mem_rel p t0 t1.
  Proof.
    intros H M0 M1. eapply mem_rel_frame; [exact H | | eapply frame_make_repo; eauto ..].
    pose proof (make_repo_strip valid_repo s0 r) as A. pose proof (make_repo_strip valid_repo s1 r) as B.
    rewrite M0 in A. rewrite M1 in B. rewrite (mr_content _ _ _ _ H) in A. rewrite A in B.
    cbn [option_map] in B. congruence.
  Qed.

  Lemma buf_rel_incl p q b0 b1 : ren_incl p q -> buf_rel p b0 b1 -> buf_rel q b0 b1.
  Proof. intros [I _] []. constructor; auto. Qed.

  Lemma up_match_incl p q x0 x1 : ren_incl p q -> up_match p x0 x1 -> up_match q x0 x1.
  Proof. intros [_ I]. destruct x0, x1; cbn; auto. Qed.

  Lemma uploads_of_with_buf st i f r : uploads_of (with_buf st i f) r = uploads_of st r.
  Proof. reflexivity. Qed.

  (* the same change to a pair of related buffers *)
  Lemma mem_rel_with_buf p s0 s1 w0 w1 f0 f1 :
    mem_rel p s0 s1 -> In (w0, w1) (r_ws p) ->
    (forall b0 b1, buf_rel p b0 b1 -> buf_rel p (f0 b0) (f1 b1)) ->
    mem_rel p (with_buf s0 (N.to_nat w0) f0) (with_buf s1 (N.to_nat w1) f1).
  Proof.
    intros H Hw Hf. pose proof (mr_ws _ _ _ _ H) as mr_ws0. pose proof (mr_bij_ws _ _ _ _ H) as mr_bij_ws0.
    destruct H. constructor; auto.
    intros v0 v1 Hv. cbn [with_buf bufs]. rewrite !nth_error_upd_nth.
    destruct (mr_ws0 v0 v1 Hv) as (b0 & b1 & E0 & E1 & Hb). rewrite E0, E1. cbn [option_map].
    destruct (Nat.eqb (N.to_nat v0) (N.to_nat w0)) eqn:Ev0.
    - apply Nat.eqb_eq, N2Nat.inj in Ev0. subst v0.
      assert (v1 = w1) by (apply (mr_bij_ws0 w0 v1 w0 w1 Hv Hw); reflexivity). subst v1.
      rewrite Nat.eqb_refl. exists (f0 b0), (f1 b1). auto.
    - destruct (Nat.eqb (N.to_nat v1) (N.to_nat w1)) eqn:Ev1.
      + apply Nat.eqb_eq, N2Nat.inj in Ev1. subst v1.
        assert (v0 = w0) by (apply (mr_bij_ws0 v0 w1 w0 w1 Hv Hw); reflexivity). subst v0.
        rewrite Nat.eqb_refl in Ev0. discriminate.
      + exists b0, b1. auto.
  Qed.

  (* ---------- a new upload session on both sides ---------- *)

  Lemma bij_cons {A B : Type} (l : list (A * B)) a b :
    bij l -> (In (a, b) l \/ forall a' b', In (a', b') l -> a' <> a /\ b' <> b) -> bij ((a, b) :: l).
  Proof.
    intros Hb Hc x y x' y' [E|H] [E'|H'].
    - injection E as <- <-. injection E' as <- <-. tauto.
    - injection E as <- <-. destruct Hc as [Hin|Hfr].
      + exact (Hb _ _ _ _ Hin H').
      + destruct (Hfr _ _ H') as [N1 N2]. split; intros X; exfalso; auto.
    - injection E' as <- <-. destruct Hc as [Hin|Hfr].
      + exact (Hb _ _ _ _ H Hin).
      + destruct (Hfr _ _ H) as [N1 N2]. split; intros X; exfalso; auto.
    - exact (Hb _ _ _ _ H H').
  Qed.

  Lemma aset_same {V : Type} k (v : V) m : alookup k m = Some v -> aset k v m = m.
  Proof.
    induction m as [|[k' v'] m IH]; cbn; [discriminate|].
    destruct (beqb k k') eqn:E.
    - apply beqb_eq in E. subst. intros H; injection H as ->. reflexivity.
    - intros H. now rewrite IH.
  Qed.

  Lemma strip_new_upload t r rp id i bs n :
    get_repo t r = Some rp ->
    strip {| repos := aset r (rp_set_upload id i rp) (repos t); bufs := bs; next_id := n |} = strip t.
  Proof.
    intros G. unfold strip. cbn [repos]. f_equal. rewrite map_aset_strip.
    change (strip_repo (rp_set_upload id i rp)) with (strip_repo rp).
    apply aset_same. unfold get_repo in G. now rewrite alookup_map_strip, G.
  Qed.

  Lemma uploads_of_new_upload t r rp id i bs n r' :
    get_repo t r = Some rp ->
    uploads_of {| repos := aset r (rp_set_upload id i rp) (repos t); bufs := bs; next_id := n |} r'
    = if beqb r' r then aset id i (uploads rp) else uploads_of t r'.
  Proof.
    intros G. unfold uploads_of, get_repo. cbn [repos]. rewrite alookup_aset.
    destruct (beqb r' r); reflexivity.
  Qed.

  Lemma uploads_of_get t r rp : get_repo t r = Some rp -> uploads_of t r = uploads rp.
  Proof. intros G. unfold uploads_of. now rewrite G. Qed.

  Lemma nth_error_snoc {A : Type} (l : list A) x :
    nth_error (l ++ [x]) (N.to_nat (N.of_nat (length l))) = Some x.
  Proof. rewrite Nat2N.id, nth_error_app2, Nat.sub_diag by lia. reflexivity. Qed.

  Lemma nth_error_snoc_old {A : Type} (l : list A) x i y :
    nth_error l i = Some y -> nth_error (l ++ [x]) i = Some y.
  Proof.
    intros H. rewrite nth_error_app1; [exact H|]. apply nth_error_Some. congruence.
  Qed.

  Lemma ws_in_range p s0 s1 w0 w1 :
    mem_rel p s0 s1 -> In (w0, w1) (r_ws p) ->
    w0 <> N.of_nat (length (bufs s0)) /\ w1 <> N.of_nat (length (bufs s1)).
  Proof.
    intros H Hw. destruct (mr_ws _ _ _ _ H _ _ Hw) as (b0 & b1 & E0 & E1 & _).
    split; intros ->; rewrite Nat2N.id in *.
    - assert (X : nth_error (bufs s0) (length (bufs s0)) <> None) by congruence.
      apply nth_error_Some in X. lia.
    - assert (X : nth_error (bufs s1) (length (bufs s1)) <> None) by congruence.
      apply nth_error_Some in X. lia.
  Qed.

  Lemma mem_rel_new_upload p t0 t1 r rp0 rp1 id0 id1 off n0 n1 :
    mem_rel p t0 t1 ->
    get_repo t0 r = Some rp0 -> get_repo t1 r = Some rp1 ->
    alookup id0 (uploads rp0) = None -> alookup id1 (uploads rp1) = None ->
    id0 <> [] -> id1 <> [] -> idok id0 -> idok id1 ->
    (In (id0, id1) (r_ids p) \/ (forall a b, In (a, b) (r_ids p) -> a <> id0 /\ b <> id1)) ->
    (next_id t0 <= n0)%N -> (next_id t1 <= n1)%N ->
    (forall n, (n0 <= n < ID_LIMIT)%N -> id0 <> fresh_id n) ->
    (forall n, (n1 <= n < ID_LIMIT)%N -> id1 <> fresh_id n) ->
    mem_rel {| r_ids := (id0, id1) :: r_ids p;
               r_ws := (N.of_nat (length (bufs t0)), N.of_nat (length (bufs t1))) :: r_ws p |}
      {| repos := aset r (rp_set_upload id0 (N.of_nat (length (bufs t0))) rp0) (repos t0);
         bufs := bufs t0 ++ [new_buffer r id0 off]; next_id := n0 |}
      {| repos := aset r (rp_set_upload id1 (N.of_nat (length (bufs t1))) rp1) (repos t1);
         bufs := bufs t1 ++ [new_buffer r id1 off]; next_id := n1 |}.
  Proof.
    intros H G0 G1 L0 L1 Ne0 Ne1 Ok0 Ok1 Hcase Hn0 Hn1 Fr0 Fr1.
    set (i0 := N.of_nat (length (bufs t0))). set (i1 := N.of_nat (length (bufs t1))).
    set (p' := {| r_ids := (id0, id1) :: r_ids p; r_ws := (i0, i1) :: r_ws p |}).
    assert (I : ren_incl p p') by (split; cbn; apply incl_tl, incl_refl).
    assert (Bi : bij (r_ids p')) by (apply bij_cons; [apply (mr_bij_ids _ _ _ _ H) | exact Hcase]).
    assert (Bw : bij (r_ws p')).
    { apply bij_cons; [apply (mr_bij_ws _ _ _ _ H)|]. right. intros w0 w1 Hw.
      exact (ws_in_range p t0 t1 w0 w1 H Hw). }
    (* the new pair is not a key anywhere unless it is an old pair *)
    assert (Hnew0 : forall r', ~ In (id0, id1) (r_ids p) -> alookup id0 (uploads_of t0 r') = None).
    { intros r' Hni. destruct (alookup id0 (uploads_of t0 r')) eqn:E; [|reflexivity]. exfalso.
      apply alookup_Some_in in E. destruct (mr_keys0 _ _ _ _ H _ _ E) as [b Hb].
      destruct Hcase as [Hin|Hfr]; [auto|]. destruct (Hfr _ _ Hb); auto. }
    assert (Hnew1 : forall r', ~ In (id0, id1) (r_ids p) -> alookup id1 (uploads_of t1 r') = None).
    { intros r' Hni. destruct (alookup id1 (uploads_of t1 r')) eqn:E; [|reflexivity]. exfalso.
      apply alookup_Some_in in E. destruct (mr_keys1 _ _ _ _ H _ _ E) as [a Ha].
      destruct Hcase as [Hin|Hfr]; [auto|]. destruct (Hfr _ _ Ha); auto. }
    constructor.
    - rewrite !strip_new_upload by assumption. apply (mr_content _ _ _ _ H).
    - exact Bi.
    - exact Bw.
    - intros a b [E|Hab]; [injection E as <- <-; auto | apply (mr_ids _ _ _ _ H _ _ Hab)].
    - intros r' a b Hab. rewrite !uploads_of_new_upload by assumption.
      destruct (beqb r' r) eqn:Er.
      + rewrite !alookup_aset.
        assert (Hiff : a = id0 <-> b = id1) by (apply (Bi a b id0 id1 Hab); left; reflexivity).
        destruct (beqb a id0) eqn:Ea; destruct (beqb b id1) eqn:Eb.
        * cbn. left. reflexivity.
        * apply beqb_eq in Ea. apply beqb_neq in Eb. tauto.
        * apply beqb_neq in Ea. apply beqb_eq in Eb. tauto.
        * destruct Hab as [E|Hab]; [injection E as <- <-; rewrite beqb_refl in Ea; discriminate|].
          apply (up_match_incl p p' _ _ I). rewrite <- (uploads_of_get _ _ _ G0), <- (uploads_of_get _ _ _ G1).
          apply (mr_up _ _ _ _ H _ _ _ Hab).
      + assert (Hold : In (a, b) (r_ids p) ->
                       up_match p' (alookup a (uploads_of t0 r')) (alookup b (uploads_of t1 r'))).
        { intros Hin. apply (up_match_incl p p' _ _ I). apply (mr_up _ _ _ _ H _ _ _ Hin). }
        destruct Hab as [E|Hab]; [|auto]. injection E as <- <-.
        assert (pair_dec : forall x y : bytes * bytes, {x = y} + {x <> y})
          by (decide equality; apply bytes_eq_dec).
        destruct (in_dec pair_dec (id0, id1) (r_ids p)) as [Hin|Hni]; [auto|].
        rewrite Hnew0, Hnew1 by assumption. exact Logic.I.
    - intros r' a. rewrite uploads_of_new_upload by assumption. destruct (beqb r' r) eqn:Er.
      + rewrite In_akeys_aset. intros [->|Hin]; [exists id1; left; reflexivity|].
        rewrite <- (uploads_of_get _ _ _ G0) in Hin. destruct (mr_keys0 _ _ _ _ H _ _ Hin) as [b Hb].
        exists b. right. exact Hb.
      + intros Hin. destruct (mr_keys0 _ _ _ _ H _ _ Hin) as [b Hb]. exists b. right. exact Hb.
    - intros r' b. rewrite uploads_of_new_upload by assumption. destruct (beqb r' r) eqn:Er.
      + rewrite In_akeys_aset. intros [->|Hin]; [exists id0; left; reflexivity|].
        rewrite <- (uploads_of_get _ _ _ G1) in Hin. destruct (mr_keys1 _ _ _ _ H _ _ Hin) as [a Ha].
        exists a. right. exact Ha.
      + intros Hin. destruct (mr_keys1 _ _ _ _ H _ _ Hin) as [a Ha]. exists a. right. exact Ha.
    - intros w0 w1 [E|Hw]; cbn [bufs].
      + injection E as <- <-. exists (new_buffer r id0 off), (new_buffer r id1 off).
        split; [apply nth_error_snoc|]. split; [apply nth_error_snoc|].
        constructor; cbn; auto.
      + destruct (mr_ws _ _ _ _ H _ _ Hw) as (b0 & b1 & E0 & E1 & Hb). exists b0, b1.
        split; [now apply nth_error_snoc_old|]. split; [now apply nth_error_snoc_old|].
        eapply buf_rel_incl; eauto.
    - intros n a b Hn [E|Hab]; cbn [next_id] in Hn.
      + injection E as <- <-. apply Fr0. exact Hn.
      + apply (mr_fresh0 _ _ _ _ H n a b); [lia | exact Hab].
    - intros n a b Hn [E|Hab]; cbn [next_id] in Hn.
      + injection E as <- <-. apply Fr1. exact Hn.
      + apply (mr_fresh1 _ _ _ _ H n a b); [lia | exact Hab].
  Qed.

  (* ---------- the start of a chunked upload (PushBlobChunked, PushBlobChunkedResume) ---------- *)

  Hypothesis idok_fresh : forall n, idok (fresh_id n).

  Lemma no_empty_key p s0 s1 r :
    mem_rel p s0 s1 -> alookup [] (uploads_of s0 r) = None /\ alookup [] (uploads_of s1 r) = None.
  Proof.
    intros H. split.
    - destruct (alookup [] (uploads_of s0 r)) eqn:E; [|reflexivity]. exfalso.
      apply alookup_Some_in in E. destruct (mr_keys0 _ _ _ _ H _ _ E) as [b Hb].
      destruct (mr_ids _ _ _ _ H _ _ Hb) as (N0 & _). now apply N0.
    - destruct (alookup [] (uploads_of s1 r)) eqn:E; [|reflexivity]. exfalso.
      apply alookup_Some_in in E. destruct (mr_keys1 _ _ _ _ H _ _ E) as [a Ha].
      destruct (mr_ids _ _ _ _ H _ _ Ha) as (_ & N1 & _). now apply N1.
  Qed.

  (* PushBlobChunked r h is PushBlobChunkedResume r "" 0 h *)
  Lemma step_chunked_resume st r h : step st (PushBlobChunked r h) = step st (PushBlobChunkedResume r [] 0 h).
  Proof. reflexivity. Qed.

  Lemma chunk_sim p s0 s1 r a b off h0 h1 :
    mem_rel p s0 s1 -> (next_id s0 < ID_LIMIT)%N -> (next_id s1 < ID_LIMIT)%N ->
    (a = [] /\ b = [] \/ In (a, b) (r_ids p)) ->
    exists p', ren_incl p p'
      /\ mem_rel p' (fst (step s0 (PushBlobChunkedResume r a off h0))) (fst (step s1 (PushBlobChunkedResume r b off h1)))
      /\ res_rel p' (snd (step s0 (PushBlobChunkedResume r a off h0))) (snd (step s1 (PushBlobChunkedResume r b off h1)))
      /\ (next_id (fst (step s0 (PushBlobChunkedResume r a off h0))) <= next_id s0 + 1)%N
      /\ (next_id (fst (step s1 (PushBlobChunkedResume r b off h1))) <= next_id s1 + 1)%N.
  Proof.
    intros H B0 B1 Hpre. cbn [Mem.step].
    destruct (make_repo s0 r) as [t0|] eqn:M0; destruct (make_repo s1 r) as [t1|] eqn:M1.
    2:{ exfalso. apply make_repo_some in M0 as (V & _). apply make_repo_none in M1. congruence. }
    2:{ exfalso. apply make_repo_some in M1 as (V & _). apply make_repo_none in M0. congruence. }
    2:{ exists p. cbn [fst snd]. split; [apply ren_incl_refl|]. split; [exact H|]. split; [exact Logic.I|]. lia. }
    pose proof (mem_rel_make_repo p s0 s1 r t0 t1 H M0 M1) as Ht.
    apply make_repo_some in M0 as (_ & G0 & _ & Nx0 & _). apply make_repo_some in M1 as (_ & G1 & _ & Nx1 & _).
    destruct (get_repo t0 r) as [rp0|] eqn:E0; [|contradiction]. destruct (get_repo t1 r) as [rp1|] eqn:E1; [|contradiction].
    assert (Hm : up_match p (alookup a (uploads rp0)) (alookup b (uploads rp1))).
    { rewrite <- (uploads_of_get _ _ _ E0), <- (uploads_of_get _ _ _ E1).
      destruct Hpre as [[-> ->]|Hin]; [|now apply (mr_up _ _ _ _ Ht)].
      destruct (no_empty_key p t0 t1 r Ht) as [-> ->]. exact Logic.I. }
    destruct (alookup a (uploads rp0)) as [j0|] eqn:L0; destruct (alookup b (uploads rp1)) as [j1|] eqn:L1;
      cbn in Hm; try contradiction.
    - (* an existing session on both sides: the start offset is recorded *)
      exists p. cbn [fst snd]. split; [apply ren_incl_refl|]. split; [|split; [exact Hm|cbn [with_buf next_id]; lia]].
      apply mem_rel_with_buf; [exact Ht | exact Hm|]. intros x y []. constructor; cbn; auto.
    - (* a new session on both sides *)
      cbn [fst snd].
      destruct Hpre as [[-> ->]|Hin].
      + (* fresh IDs *)
        exists {| r_ids := (fresh_id (next_id t0), fresh_id (next_id t1)) :: r_ids p;
                  r_ws := (N.of_nat (length (bufs t0)), N.of_nat (length (bufs t1))) :: r_ws p |}.
        split; [split; cbn; apply incl_tl, incl_refl|].
        split; [|split; [cbn; left; reflexivity | cbn [next_id]; lia]].
        apply mem_rel_new_upload; auto; try apply fresh_id_ne; try lia.
        * destruct (alookup (fresh_id (next_id t0)) (uploads rp0)) eqn:E; [|reflexivity]. exfalso.
          apply alookup_Some_in in E. rewrite <- (uploads_of_get _ _ _ E0) in E.
          destruct (mr_keys0 _ _ _ _ Ht _ _ E) as [b Hb].
          apply (mr_fresh0 _ _ _ _ Ht (next_id t0) (fresh_id (next_id t0)) b); [lia | exact Hb | reflexivity].
        * destruct (alookup (fresh_id (next_id t1)) (uploads rp1)) eqn:E; [|reflexivity]. exfalso.
          apply alookup_Some_in in E. rewrite <- (uploads_of_get _ _ _ E1) in E.
          destruct (mr_keys1 _ _ _ _ Ht _ _ E) as [a Ha].
          apply (mr_fresh1 _ _ _ _ Ht (next_id t1) a (fresh_id (next_id t1))); [lia | exact Ha | reflexivity].
        * right. intros a b Hab. split.
          -- apply (mr_fresh0 _ _ _ _ Ht (next_id t0) a b); [lia | exact Hab].
          -- apply (mr_fresh1 _ _ _ _ Ht (next_id t1) a b); [lia | exact Hab].
        * intros n Hn E. apply fresh_id_inj in E; lia.
        * intros n Hn E. apply fresh_id_inj in E; lia.
      + (* the caller's IDs, already paired *)
        destruct (mr_ids _ _ _ _ Ht _ _ Hin) as (Na & Nb & Oa & Ob).
        destruct a as [|a0 a']; [contradiction|]. destruct b as [|b0 b']; [contradiction|].
        exists {| r_ids := (a0 :: a', b0 :: b') :: r_ids p;
                  r_ws := (N.of_nat (length (bufs t0)), N.of_nat (length (bufs t1))) :: r_ws p |}.
        split; [split; cbn; apply incl_tl, incl_refl|].
        split; [|split; [cbn; left; reflexivity | cbn [next_id]; lia]].
        apply mem_rel_new_upload; auto; try lia.
        * intros n Hn. apply (mr_fresh0 _ _ _ _ Ht n _ _ Hn Hin).
        * intros n Hn. apply (mr_fresh1 _ _ _ _ Ht n _ _ Hn Hin).
  Qed.

  (* ---------- operations on a pair of related writers ---------- *)

  Inductive wmk : (wid -> op) -> Prop :=
  | wmk_write d : wmk (fun w => WWrite w d)
  | wmk_close : wmk WClose
  | wmk_size : wmk WSize
  | wmk_chunksize : wmk WChunkSize
  | wmk_id : wmk WID
  | wmk_commit d : wmk (fun w => WCommit w d)
  | wmk_cancel : wmk WCancel.

  Lemma wop_sim p s0 s1 mk w0 w1 :
    wmk mk -> mem_rel p s0 s1 -> In (w0, w1) (r_ws p) ->
    mem_rel p (fst (step s0 (mk w0))) (fst (step s1 (mk w1)))
    /\ res_rel p (snd (step s0 (mk w0))) (snd (step s1 (mk w1)))
    /\ next_id (fst (step s0 (mk w0))) = next_id s0 /\ next_id (fst (step s1 (mk w1))) = next_id s1.
  Proof.
    intros Hmk H Hw. destruct (mr_ws _ _ _ _ H _ _ Hw) as (b0 & b1 & E0 & E1 & Hb).
    pose proof Hb as [R1 R2 R3 R4 R5 R6 R7].
    assert (Same : forall r0 r1, res_rel p r0 r1 ->
              mem_rel p s0 s1 /\ res_rel p r0 r1 /\ next_id s0 = next_id s0 /\ next_id s1 = next_id s1)
      by (intros; split; [exact H | split; [assumption | split; reflexivity]]).
    destruct Hmk; cbn [Mem.step]; rewrite E0, E1; cbn [fst snd].
    - (* Write *)
      rewrite <- R2, <- R3.
      destruct (negb (u_check b0 =? -1)%Z && negb (blen (u_buf b0) =? u_check b0)%Z); cbn [fst snd].
      + apply Same. exact Logic.I.
      + split; [|split; [reflexivity | split; reflexivity]].
        apply mem_rel_with_buf; auto. intros x y []. constructor; cbn; auto. congruence.
    - apply Same. reflexivity.
    - rewrite <- R2. apply Same. reflexivity.
    - apply Same. reflexivity.
    - apply Same. exact R7.
    - (* Commit *)
      rewrite <- R1, <- R2, <- R6. destruct (u_err b0); cbn [fst snd]; [apply Same; exact Logic.I|].
      destruct (beqb (hash (u_buf b0)) d); cbn [fst snd].
      + split; [|split; [reflexivity | rewrite !next_upd_repo; split; reflexivity]].
        apply mem_rel_upd; try (intros [? ? ? ?]; reflexivity).
        apply mem_rel_with_buf; auto. intros x y []. constructor; cbn; auto.
      + split; [|split; [exact Logic.I | split; reflexivity]].
        apply mem_rel_with_buf; auto. intros x y []. constructor; cbn; auto.
    - (* Cancel *)
      split; [|split; [reflexivity | split; reflexivity]].
      apply mem_rel_with_buf; auto. intros x y []. constructor; cbn; auto.
  Qed.

  (* ---------- every pair of related calls ---------- *)

  Lemma op_rel_cases p o0 o1 :
    op_rel p o0 o1 ->
    (o0 = o1 /\ is_plain o0 = true)
    \/ (exists r a b off h, o0 = PushBlobChunkedResume r a off h /\ o1 = PushBlobChunkedResume r b off h
                            /\ In (a, b) (r_ids p))
    \/ (exists mk w0 w1, wmk mk /\ o0 = mk w0 /\ o1 = mk w1 /\ In (w0, w1) (r_ws p)).
  Proof.
    destruct o0, o1; intros Hop; try (left; exact Hop); cbn in Hop.
    - destruct Hop as (-> & -> & -> & Hin). right; left. do 5 eexists. split; [reflexivity|]. split; [reflexivity | exact Hin].
    - destruct Hop as (-> & Hin). right; right. exists (fun w => WWrite w data0), w, w0.
      split; [constructor|]. split; [reflexivity|]. split; [reflexivity | exact Hin].
    - right; right. exists WClose, w, w0. split; [constructor|]. auto.
    - right; right. exists WSize, w, w0. split; [constructor|]. auto.
    - right; right. exists WChunkSize, w, w0. split; [constructor|]. auto.
    - right; right. exists WID, w, w0. split; [constructor|]. auto.
    - destruct Hop as (-> & Hin). right; right. exists (fun w => WCommit w d0), w, w0.
      split; [constructor|]. split; [reflexivity|]. split; [reflexivity | exact Hin].
    - right; right. exists WCancel, w, w0. split; [constructor|]. auto.
  Qed.

  (* the same call on both members, when it does not start a chunked upload: related states,
     like answers, the renaming and the ID counters as they were *)
  Lemma mem_sim_free p s0 s1 o0 o1 :
    is_chunk_start o0 = false -> mem_rel p s0 s1 -> op_rel p o0 o1 ->
    mem_rel p (fst (step s0 o0)) (fst (step s1 o1))
    /\ res_rel p (snd (step s0 o0)) (snd (step s1 o1))
    /\ next_id (fst (step s0 o0)) = next_id s0 /\ next_id (fst (step s1 o1)) = next_id s1.
  Proof.
    intros Hc H Hop.
    destruct (op_rel_cases _ _ _ Hop) as [[<- Hpl]|[(r&a&b&off&h&->&->&Hin)|(mk&w0&w1&Hmk&->&->&Hin)]].
    - assert (Hco : is_content_op o0 = true) by (unfold is_content_op; now rewrite Hpl, Hc).
      destruct (content_sim p s0 s1 o0 Hco H) as (A & B & C & D & E). rewrite <- B.
      split; [exact A|]. split; [now apply res_rel_same|]. split; assumption.
    - discriminate Hc.
    - now apply wop_sim.
  Qed.

  (* the same call on both members while both ID counters are below the limit *)
  Lemma mem_sim p s0 s1 o0 o1 :
    mem_rel p s0 s1 -> (next_id s0 < ID_LIMIT)%N -> (next_id s1 < ID_LIMIT)%N -> op_rel p o0 o1 ->
    exists p', ren_incl p p'
      /\ mem_rel p' (fst (step s0 o0)) (fst (step s1 o1))
      /\ res_rel p' (snd (step s0 o0)) (snd (step s1 o1))
      /\ (next_id (fst (step s0 o0)) <= next_id s0 + 1)%N /\ (next_id (fst (step s1 o1)) <= next_id s1 + 1)%N.
  Proof.
    intros H B0 B1 Hop. destruct (is_chunk_start o0) eqn:Hc.
    - destruct (op_rel_cases _ _ _ Hop) as [[<- Hpl]|[(r&a&b&off&h&->&->&Hin)|(mk&w0&w1&Hmk&->&->&Hin)]].
      + destruct o0; try discriminate Hc; try discriminate Hpl.
        rewrite !step_chunked_resume. apply chunk_sim; auto.
      + apply chunk_sim; auto.
      + destruct Hmk; discriminate Hc.
    - destruct (mem_sim_free p s0 s1 o0 o1 Hc H Hop) as (A & B & C & D).
      exists p. split; [apply ren_incl_refl|]. split; [exact A|]. split; [exact B|]. lia.
  Qed.

  (* calls that change nothing *)
  Lemma observer_state st o : is_observer o = true -> fst (step st o) = st.
  Proof. destruct o; try discriminate; reflexivity. Qed.

  Lemma failed_push_blob_state st r de data :
    is_err (snd (step st (PushBlob r de data))) = true -> fst (step st (PushBlob r de data)) = st.
  Proof.
    cbn [Mem.step]. destruct (check_descriptor hash valid_digest de (Some data)); [reflexivity|].
    destruct (make_repo st r); [discriminate | reflexivity].
  Qed.

  (* ---------- the budgeted relation satisfies the hypotheses of part 1 ---------- *)

  Notation mem_rel_k := (mem_rel_k idok).

  Lemma mem_k_mono k p s0 s1 : mem_rel_k (S k) p s0 s1 -> mem_rel_k k p s0 s1.
  Proof. intros (H & A & B). split; [exact H|]. rewrite Nat2N.inj_succ in A, B. lia. Qed.

  Lemma mem_k_sim k p s0 s1 o0 o1 :
    mem_rel_k (S k) p s0 s1 -> op_rel p o0 o1 ->
    exists p', ren_incl p p'
               /\ mem_rel_k k p' (fst (step s0 o0)) (fst (step s1 o1))
               /\ res_rel p' (snd (step s0 o0)) (snd (step s1 o1)).
  Proof.
    intros (H & A & B) Hop. rewrite Nat2N.inj_succ in A, B.
    destruct (mem_sim p s0 s1 o0 o1 H ltac:(lia) ltac:(lia) Hop) as (p' & I & H' & Hr & A' & B').
    exists p'. split; [exact I|]. split; [|exact Hr]. split; [exact H'|]. lia.
  Qed.

  Lemma mem_k_sim_free k p s0 s1 o0 o1 :
    is_chunk_start o0 = false -> mem_rel_k k p s0 s1 -> op_rel p o0 o1 ->
    exists p', ren_incl p p'
               /\ mem_rel_k k p' (fst (step s0 o0)) (fst (step s1 o1))
               /\ res_rel p' (snd (step s0 o0)) (snd (step s1 o1)).
  Proof.
    intros Hc (H & A & B) Hop. destruct (mem_sim_free p s0 s1 o0 o1 Hc H Hop) as (H' & Hr & A' & B').
    exists p. split; [apply ren_incl_refl|]. split; [|exact Hr]. split; [exact H'|]. rewrite A', B'. auto.
  Qed.

  Lemma mem_k_obs0 k p s0 s1 o :
    mem_rel_k k p s0 s1 -> is_observer o = true -> mem_rel_k k p (fst (step s0 o)) s1.
  Proof. intros H Ho. now rewrite observer_state. Qed.

  Lemma mem_k_fail0 k p s0 s1 r de data :
    mem_rel_k k p s0 s1 -> is_err (snd (step s0 (PushBlob r de data))) = true ->
    mem_rel_k k p (fst (step s0 (PushBlob r de data))) s1.
  Proof. intros H He. now rewrite failed_push_blob_state. Qed.

  Lemma mem_k_fail1 k p s0 s1 r de data :
    mem_rel_k k p s0 s1 -> is_err (snd (step s1 (PushBlob r de data))) = true ->
    mem_rel_k k p s0 (fst (step s1 (PushBlob r de data))).
  Proof. intros H He. now rewrite failed_push_blob_state. Qed.

  Lemma mem_k_idok k p s0 s1 a b : mem_rel_k k p s0 s1 -> In (a, b) (r_ids p) -> idok a /\ idok b.
  Proof. intros (H & _) Hin. destruct (mr_ids _ _ _ _ H _ _ Hin) as (_ & _ & A & B). auto. Qed.

  (* ================= Part 3: equal members stay equal ================= *)

  Variable idenc : bytes -> bytes -> bytes.
  Variable iddec : bytes -> option (list bytes).
  Hypothesis H_codec : forall a b, idok a -> idok b -> iddec (idenc a b) = Some [a; b].

  Notation ustep := (ustep step step idenc iddec).
  Notation urun := (urun step step idenc iddec).
  Notation closed_loop := (closed_loop step step idenc iddec).
  Notation issued_after := (issued_after step step idenc iddec).

  (* Two ocimem members that are equal up to upload-session identifiers, under a unifier
     whose paired writers pair related member writers ([Inv]), stay so along every
     closed-loop history - either policy, any schedule, cut streams, chunked uploads with
     resume - as long as the ID counters have room for one ID per call of the history; every
     composite ID handed out decodes to the two members' own IDs of one upload. *)
  Theorem mem_equal_stay_equal pol h st p issued :
    Inv mem_rel p st -> issued_ok idenc idok p issued ->
    (next_id (u_b0 st) + N.of_nat (length h) <= ID_LIMIT)%N ->
    (next_id (u_b1 st) + N.of_nat (length h) <= ID_LIMIT)%N ->
    closed_loop pol issued st h ->
    exists p', ren_incl p p'
      /\ Inv mem_rel p' (fst (urun pol st h))
      /\ issued_ok idenc idok p' (issued_after pol issued st h)
      /\ (forall id, In id (issued_after pol issued st h) ->
            exists a b, iddec id = Some [a; b] /\ In (a, b) (r_ids p')).
  Proof.
    intros [HR Hw] Hiss A B Hcl.
    destruct (equal_stay_equal_budget step step idenc iddec mem_rel_k
                mem_k_mono mem_k_sim mem_k_sim_free mem_k_obs0 mem_k_fail0 mem_k_fail1
                idok H_codec mem_k_idok pol h 0%nat st p issued)
      as (p' & I & [[HR' _] Hw'] & Hiss' & Hdec); auto.
    - split; [|exact Hw]. rewrite Nat.add_0_r. split; auto.
    - exists p'. split; [exact I|]. split; [split; assumption|]. split; assumption.
  Qed.

  (* ---------- from equal states ---------- *)

  Lemma in_diag {A : Type} (l : list A) a b : In (a, b) (diag l) <-> a = b /\ In a l.
  Proof.
    unfold diag. rewrite in_map_iff. split.
    - intros (x & E & Hx). injection E as <- <-. auto.
    - intros [<- Hx]. exists a. auto.
  Qed.

  Lemma bij_diag {A : Type} (l : list A) : bij (diag l).
  Proof.
    intros a b a' b' H H'. apply in_diag in H as [<- _]. apply in_diag in H' as [<- _]. tauto.
  Qed.

  Lemma keys_in_ids_of st r a : In a (akeys (uploads_of st r)) -> In a (ids_of st).
  Proof.
    unfold uploads_of, ids_of. destruct (get_repo st r) as [rp|] eqn:G; [|contradiction].
    intros Ha. apply in_or_app. left. apply in_flat_map. exists (r, rp). split; [|exact Ha].
    apply alookup_In. exact G.
  Qed.

  (* a state is equal to itself up to the identity renaming of its sessions *)
  Lemma mem_rel_refl st : mem_ok idok st -> mem_rel (ren_of st) st st.
  Proof.
    intros [Hids Hup Hfr]. constructor; cbn [ren_of r_ids r_ws].
    - reflexivity.
    - apply bij_diag.
    - apply bij_diag.
    - intros a b H. apply in_diag in H as [<- Ha]. destruct (Hids a Ha). auto.
    - intros r a b H. apply in_diag in H as [<- Ha].
      destruct (alookup a (uploads_of st r)) as [i|] eqn:E; cbn; [|exact Logic.I].
      apply in_diag. split; [reflexivity|]. apply Hup in E.
      apply in_map_iff. exists (N.to_nat i). split; [apply N2Nat.id|]. apply in_seq. lia.
    - intros r a Ha. exists a. apply in_diag. split; [reflexivity|]. eapply keys_in_ids_of; eauto.
    - intros r a Ha. exists a. apply in_diag. split; [reflexivity|]. eapply keys_in_ids_of; eauto.
    - intros w0 w1 H. apply in_diag in H as [<- Hw]. apply in_map_iff in Hw as (j & <- & Hj).
      apply in_seq in Hj. rewrite Nat2N.id.
      destruct (nth_error (bufs st) j) as [b|] eqn:E.
      2:{ apply nth_error_None in E. lia. }
      exists b, b. split; [reflexivity|]. split; [reflexivity|]. constructor; auto.
      apply in_diag. split; [reflexivity|]. unfold ids_of. apply in_or_app. right.
      apply in_map. eapply nth_error_In; eauto.
    - intros n a b Hn H E. apply in_diag in H as [<- Ha]. subst a. exact (Hfr n Hn Ha).
    - intros n a b Hn H E. apply in_diag in H as [<- Ha]. subst a. exact (Hfr n Hn Ha).
  Qed.

  (* Two ocimem members that start in ONE state s (with the sessions, if any, that s
     carries), under a fresh unifier: after every closed-loop history of at most
     10^40 - next_id s calls they are equal up to upload-session identifiers. *)
  Theorem mem_equal_members_stay_equal st pol h :
    mem_ok idok st ->
    (next_id st + N.of_nat (length h) <= ID_LIMIT)%N ->
    closed_loop pol [] (uinit st st) h ->
    exists p', ren_incl (ren_of st) p'
      /\ Inv mem_rel p' (fst (urun pol (uinit st st) h))
      /\ (forall id, In id (issued_after pol [] (uinit st st) h) ->
            exists a b, iddec id = Some [a; b] /\ In (a, b) (r_ids p')).
  Proof.
    intros Hok Hb Hcl.
    destruct (mem_equal_stay_equal pol h (uinit st st) (ren_of st) []) as (p' & I & HI & _ & Hdec); auto.
    - split; [now apply mem_rel_refl | constructor].
    - intros id [].
    - exists p'. auto.
  Qed.

  (* what "equal up to upload-session identifiers" lets an observer see: every read and
     every listing is answered alike by the two members *)
  Lemma is_read_content o : is_read o = true -> is_content_op o = true.
  Proof. destruct o; try discriminate; reflexivity. Qed.

  Theorem mem_rel_reads_agree p s0 s1 o :
    mem_rel p s0 s1 -> is_read o = true -> snd (step s0 o) = snd (step s1 o).
  Proof.
    intros H Hr. apply (strip_step_eq s0 s1 o (is_read_content o Hr) (mr_content _ _ _ _ H)).
  Qed.

  Theorem mem_rel_views p s0 s1 :
    mem_rel p s0 s1 ->
    akeys (repos s0) = akeys (repos s1)
    /\ (forall r d, iblob s0 r d = iblob s1 r d)
    /\ (forall r d, iman s0 r d = iman s1 r d)
    /\ (forall r t, itag s0 r t = itag s1 r t).
  Proof.
    intros H. pose proof (mr_content _ _ _ _ H) as E.
    assert (G : forall r, option_map strip_repo (get_repo s0 r) = option_map strip_repo (get_repo s1 r))
      by (intros r; rewrite <- !get_repo_strip; now rewrite E).
    split; [rewrite <- (akeys_repos_strip s0), <- (akeys_repos_strip s1); now rewrite E|].
    repeat split; intros r k; unfold iblob, iman, itag; specialize (G r);
      destruct (get_repo s0 r) as [[]|], (get_repo s1 r) as [[]|]; cbn in G; try discriminate; try reflexivity;
      injection G as -> -> ->; reflexivity.
  Qed.

  (* ================= Part 4: the read side, and writes, for ocimem members ================= *)

  Notation ans0 := (ans0 step).
  Notation ans1 := (ans1 step).
  Notation blob_desc := (blob_desc hash).

  (* what one member answers to a read by digest *)
  Lemma mem_digest_read_answer st o :
    is_whole_digest_read o = true ->
    is_ok (snd (step st o)) = holds st o /\ proper (snd (step st o)).
  Proof.
    destruct o; try discriminate; intros _; cbn [Mem.step snd holds];
      unfold blob_for, manifest_for, iblob, iman;
      (destruct (get_repo st r) as [rp|]; [|split; [reflexivity | exact Logic.I]]);
      match goal with |- context [alookup ?d ?m] => destruct (alookup d m) end;
      split; try reflexivity; exact Logic.I.
  Qed.

  Lemma mem_range_read_answer st r d o0 o1 :
    proper (snd (step st (GetBlobRange r d o0 o1)))
    /\ (is_ok (snd (step st (GetBlobRange r d o0 o1))) = true -> holds st (GetBlob r d) = true).
  Proof.
    cbn [Mem.step snd holds]. unfold blob_for, iblob.
    destruct (get_repo st r) as [rp|]; [|split; [exact Logic.I | discriminate]].
    destruct (alookup d (blobs rp)) as [b|]; [|split; [exact Logic.I | discriminate]].
    cbn. destruct (_ || _); split; auto; exact Logic.I.
  Qed.

  (* union_reads for ocimem members: GetBlob / ResolveBlob / GetManifest / ResolveManifest
     through the unifier succeed exactly when a member holds the content, and the answer is
     the answer of a member - of one that holds it, on success *)
  Theorem mem_union_reads pol c (st : ustate state state) o :
    is_whole_digest_read o = true ->
    let r := snd (ustep pol c st o) in
    is_ok r = holds (u_b0 st) o || holds (u_b1 st) o
    /\ (r = ans0 st o \/ r = ans1 st o)
    /\ (is_ok r = true -> (r = ans0 st o /\ holds (u_b0 st) o = true)
                          \/ (r = ans1 st o /\ holds (u_b1 st) o = true)).
  Proof.
    intros Hw. assert (Hd : is_digest_read o = true) by (destruct o; try discriminate; reflexivity).
    destruct (mem_digest_read_answer (u_b0 st) o Hw) as [E0 P0].
    destruct (mem_digest_read_answer (u_b1 st) o Hw) as [E1 P1].
    pose proof (union_reads step step idenc iddec pol c st o Hd P0 P1) as U. cbv zeta in *.
    unfold Unify.ans0, Unify.ans1 in U. rewrite E0, E1 in U. exact U.
  Qed.

  (* ... and a ranged read that succeeds was served by a member that holds the blob *)
  Theorem mem_union_range_reads pol c (st : ustate state state) r d o0 o1 :
    let o := GetBlobRange r d o0 o1 in
    let res := snd (ustep pol c st o) in
    (res = ans0 st o \/ res = ans1 st o)
    /\ (is_ok res = true -> (res = ans0 st o /\ holds (u_b0 st) (GetBlob r d) = true)
                            \/ (res = ans1 st o /\ holds (u_b1 st) (GetBlob r d) = true)).
  Proof.
    cbv zeta.
    destruct (mem_range_read_answer (u_b0 st) r d o0 o1) as [P0 H0].
    destruct (mem_range_read_answer (u_b1 st) r d o0 o1) as [P1 H1].
    destruct (union_reads step step idenc iddec pol c st (GetBlobRange r d o0 o1) eq_refl P0 P1) as (_ & U1 & U2).
    split; [exact U1|]. intros Hok. destruct (U2 Hok) as [[E K]|[E K]]; [left | right]; split; auto.
  Qed.

  (* the content a member hands out for a digest it holds *)
  Lemma mem_get_blob st r d b :
    iblob st r d = Some b -> snd (step st (GetBlob r d)) = Ok (RRead (blob_desc b) (b_data b)).
  Proof.
    unfold iblob. cbn [Mem.step snd]. unfold blob_for.
    destruct (get_repo st r); [|discriminate]. now intros ->.
  Qed.
  Lemma mem_get_manifest st r d b :
    iman st r d = Some b -> snd (step st (GetManifest r d)) = Ok (RRead (blob_desc b) (b_data b)).
  Proof.
    unfold iman. cbn [Mem.step snd]. unfold manifest_for.
    destruct (get_repo st r); [|discriminate]. now intros ->.
  Qed.

  (* the tag rule for ocimem members, ResolveTag: the tag table entries decide *)
  Theorem mem_tag_rule_resolve pol c (st : ustate state state) r t :
    let res := snd (ustep pol c st (ResolveTag r t)) in
    match itag (u_b0 st) r t, itag (u_b1 st) r t with
    | Some de0, Some de1 =>
        if beqb (d_digest de0) (d_digest de1) then res = Ok (RDesc de0) else res = Err err_conflict
    | Some de0, None => res = Ok (RDesc de0)
    | None, Some de1 => res = Ok (RDesc de1)
    | None, None => res = ans0 st (ResolveTag r t) /\ is_err res = true
    end.
  Proof.
    cbv zeta. cbn [Unify.ustep]. unfold tag_read. rewrite both_eq. cbn [snd].
    unfold Unify.ans0, Unify.ans1. cbn [Mem.step snd]. unfold itag.
    destruct (get_repo (u_b0 st) r) as [rp0|]; destruct (get_repo (u_b1 st) r) as [rp1|];
      try destruct (alookup t (tags rp0)) as [de0|]; try destruct (alookup t (tags rp1)) as [de1|];
      cbn [tag_result res_digest]; try (split; reflexivity); try reflexivity.
    destruct (beqb (d_digest de0) (d_digest de1)); reflexivity.
  Qed.

  (* ... GetTag: a member answers when it has the tag and the manifest the tag names *)
  Definition tag_manifest (st : state) (r t : bytes) : option blob :=
    match itag st r t with Some de => iman st r (d_digest de) | None => None end.

  Lemma mem_get_tag_answer st r t :
    match tag_manifest st r t with
    | Some b => snd (step st (GetTag r t)) = Ok (RRead (blob_desc b) (b_data b))
    | None => is_err (snd (step st (GetTag r t))) = true
    end.
  Proof.
    unfold tag_manifest, itag, iman. cbn [Mem.step snd]. unfold manifest_for.
    destruct (get_repo st r) as [rp|]; [|reflexivity].
    destruct (alookup t (tags rp)) as [de|]; [|reflexivity].
    destruct (alookup (d_digest de) (manifests rp)); reflexivity.
  Qed.

  Theorem mem_tag_rule_get pol c (st : ustate state state) r t :
    let res := snd (ustep pol c st (GetTag r t)) in
    match tag_manifest (u_b0 st) r t, tag_manifest (u_b1 st) r t with
    | Some b0, Some b1 =>
        if beqb (hash (b_data b0)) (hash (b_data b1))
        then res = Ok (RRead (blob_desc b0) (b_data b0)) else res = Err err_conflict
    | Some b0, None => res = Ok (RRead (blob_desc b0) (b_data b0))
    | None, Some b1 => res = Ok (RRead (blob_desc b1) (b_data b1))
    | None, None => res = ans0 st (GetTag r t) /\ is_err res = true
    end.
  Proof.
    cbv zeta. cbn [Unify.ustep]. unfold tag_read. rewrite both_eq. cbn [snd].
    pose proof (mem_get_tag_answer (u_b0 st) r t) as A0. pose proof (mem_get_tag_answer (u_b1 st) r t) as A1.
    unfold Unify.ans0, Unify.ans1.
    destruct (tag_manifest (u_b0 st) r t) as [b0|]; destruct (tag_manifest (u_b1 st) r t) as [b1|].
    - rewrite A0, A1. cbn [tag_result res_digest Mem.blob_desc d_digest].
      destruct (beqb (hash (b_data b0)) (hash (b_data b1))); reflexivity.
    - rewrite A0. destruct (snd (step (u_b1 st) (GetTag r t))); try discriminate. reflexivity.
    - rewrite A1. destruct (snd (step (u_b0 st) (GetTag r t))); try discriminate. reflexivity.
    - destruct (snd (step (u_b0 st) (GetTag r t))); try discriminate.
      destruct (snd (step (u_b1 st) (GetTag r t))); try discriminate. split; reflexivity.
  Qed.

  (* writes_replicated for ocimem members, with the states: when no content stream is cut,
     each member ends in exactly the state its own copy of the call leaves it in (the
     unifier's follow-up calls Size / Close change nothing in an ocimem registry) *)
  Lemma mem_followup_state st w : fst (step st (WSize w)) = st /\ fst (step st (WClose w)) = st.
  Proof. split; reflexivity. Qed.

  Ltac red_calls :=
    rewrite ?both_eq, ?call0_eq, ?call1_eq;
    cbn [fst snd after_both u_log0 u_log1 u_b0 u_b1 u_ws].

  Theorem mem_writes_applied pol c (st : ustate state state) o o0 o1 :
    uncut c ->
    member_op iddec false st o = Some o0 -> member_op iddec true st o = Some o1 ->
    let st' := fst (ustep pol c st o) in
    u_b0 st' = fst (step (u_b0 st) o0) /\ u_b1 st' = fst (step (u_b1 st) o1).
  Proof.
    intros [U0 U1] M0 M1. cbv zeta.
    destruct o; cbn in M0, M1; try discriminate.
    - (* PushBlob *)
      injection M0 as <-. injection M1 as <-.
      cbn [Unify.ustep]. unfold push_blob. rewrite U0, U1. red_calls. split; reflexivity.
    - (* PushBlobChunked *)
      injection M0 as <-. injection M1 as <-.
      cbn [Unify.ustep]. unfold push_chunked. red_calls.
      destruct (Unify.ans0 step st (PushBlobChunked r hint)) as [[]| | |];
        destruct (Unify.ans1 step st (PushBlobChunked r hint)) as [[]| | |];
        unfold close0, close1, add_writer; red_calls; split; reflexivity.
    - (* PushBlobChunkedResume *)
      destruct (iddec id) as [[|a [|b [|? ?]]]|] eqn:D; try discriminate.
      injection M0 as <-. injection M1 as <-. cbn [pick].
      cbn [Unify.ustep]. unfold push_resume. rewrite D. red_calls.
      destruct (Unify.ans0 step st (PushBlobChunkedResume r a off hint)) as [[]| | |];
        destruct (Unify.ans1 step st (PushBlobChunkedResume r b off hint)) as [[]| | |];
        unfold close0, close1, add_writer; red_calls;
        try match goal with |- context [Z.eqb ?x ?y] => destruct (Z.eqb x y) end;
        unfold close0, close1, add_writer; red_calls; split; reflexivity.
    - injection M0 as <-. injection M1 as <-. cbn [Unify.ustep]. red_calls. split; reflexivity.
    - injection M0 as <-. injection M1 as <-. cbn [Unify.ustep]. unfold push_manifest. red_calls. split; reflexivity.
    - injection M0 as <-. injection M1 as <-. cbn [Unify.ustep]. red_calls. split; reflexivity.
    - injection M0 as <-. injection M1 as <-. cbn [Unify.ustep]. red_calls. split; reflexivity.
    - injection M0 as <-. injection M1 as <-. cbn [Unify.ustep]. red_calls. split; reflexivity.
    - (* Write *)
      destruct (get_writer st w) as [uw|] eqn:G; cbn in M0, M1; try discriminate.
      injection M0 as <-. injection M1 as <-. cbn [pick].
      cbn [Unify.ustep]. rewrite G. unfold writer_op. red_calls.
      destruct (both_results _ _); cbn [fst grow_writer u_b0 u_b1]; split; reflexivity.
    - destruct (get_writer st w) as [uw|] eqn:G; cbn in M0, M1; try discriminate.
      injection M0 as <-. injection M1 as <-. cbn [pick].
      cbn [Unify.ustep]. rewrite G. unfold writer_op. red_calls. split; reflexivity.
    - destruct (get_writer st w) as [uw|] eqn:G; cbn in M0, M1; try discriminate.
      injection M0 as <-. injection M1 as <-. cbn [pick].
      cbn [Unify.ustep]. rewrite G. unfold writer_op. red_calls. split; reflexivity.
    - destruct (get_writer st w) as [uw|] eqn:G; cbn in M0, M1; try discriminate.
      injection M0 as <-. injection M1 as <-. cbn [pick].
      cbn [Unify.ustep]. rewrite G. unfold writer_op. red_calls. split; reflexivity.
  Qed.

  (* ---------- states two equal members can start from ---------- *)

  Lemma flat_map_nil {A B : Type} (f : A -> list B) l : (forall x, In x l -> f x = []) -> flat_map f l = [].
  Proof.
    induction l as [|a l IH]; cbn; [reflexivity|]. intros H. rewrite (H a) by now left. apply IH. auto.
  Qed.

  Lemma ids_of_no_sessions st : no_sessions st -> ids_of st = [].
  Proof.
    intros [Hb Hu]. unfold ids_of. rewrite Hb. cbn. rewrite app_nil_r.
    apply flat_map_nil. intros kv Hin. now rewrite (Hu kv Hin).
  Qed.

  (* the empty registry, and any state in which no upload was ever started *)
  Lemma no_sessions_init : no_sessions init.
  Proof. split; [reflexivity | intros kv []]. Qed.

  Lemma mem_ok_no_sessions st : no_sessions st -> mem_ok idok st.
  Proof.
    intros H. pose proof (ids_of_no_sessions st H) as E. destruct H as [Hb Hu]. constructor.
    - intros a. rewrite E. intros [].
    - intros r a i. unfold uploads_of. destruct (get_repo st r) as [rp|] eqn:G; [|discriminate].
      apply alookup_In in G. pose proof (Hu _ G) as E'. cbn [snd] in E'. rewrite E'. discriminate.
    - intros n _. rewrite E. intros [].
  Qed.

  (* content calls (pushes, mounts, deletes, reads) keep such a state fit: a registry
     populated through the Interface without chunked uploads is a fit starting point *)
  Notation upl := (fun kv : bytes * repo => akeys (uploads (snd kv))).

  Lemma flat_upl_aset_some r rp rp' (m : alist repo) :
    alookup r m = Some rp -> uploads rp' = uploads rp -> flat_map upl (aset r rp' m) = flat_map upl m.
  Proof.
    induction m as [|[k v] m IH]; cbn; [discriminate|]. destruct (beqb r k) eqn:E.
    - intros H Hu. injection H as ->. cbn. now rewrite Hu.
    - intros H Hu. cbn. now rewrite IH.
  Qed.
  Lemma flat_upl_aset_none r rp' (m : alist repo) :
    alookup r m = None -> flat_map upl (aset r rp' m) = flat_map upl m ++ akeys (uploads rp').
  Proof.
    induction m as [|[k v] m IH]; cbn; [now rewrite app_nil_r|]. destruct (beqb r k) eqn:E; [discriminate|].
    intros H. cbn. now rewrite IH, app_assoc.
  Qed.

  Definition ids_same (st st' : state) : Prop := ids_of st' = ids_of st.
  Lemma ids_same_refl st : ids_same st st.
  Proof. reflexivity. Qed.
  Lemma ids_same_make_repo st r st1 : make_repo st r = Some st1 -> ids_same st st1.
  Proof.
    unfold Mem.make_repo. destruct (valid_repo r); [|discriminate]. intros H; injection H as <-.
    destruct (get_repo st r) eqn:G; [reflexivity|]. unfold ids_same, ids_of, set_repo. cbn [repos bufs].
    unfold get_repo in G. rewrite (flat_upl_aset_none _ _ _ G). cbn. now rewrite app_nil_r.
  Qed.
  Lemma ids_same_upd st st1 r f :
    (forall rp, uploads (f rp) = uploads rp) -> ids_same st st1 -> ids_same st (upd_repo st1 r f).
  Proof.
    intros Hf H. unfold ids_same in *. rewrite <- H. unfold upd_repo.
    destruct (get_repo st1 r) eqn:G; [|reflexivity]. unfold ids_of, set_repo. cbn [repos bufs].
    unfold get_repo in G. now rewrite (flat_upl_aset_some _ _ _ _ G (Hf _)).
  Qed.

  Ltac ids_leaf :=
    cbn [fst snd];
    first [ apply ids_same_refl
          | eapply ids_same_make_repo; eassumption
          | apply ids_same_upd;
            [ intros [? ? ? ?]; try match goal with |- context [match ?t with [] => _ | _ => _ end] => destruct t end; reflexivity
            | first [ apply ids_same_refl | eapply ids_same_make_repo; eassumption ] ] ].

  Lemma content_ids st o : is_content_op o = true -> ids_same st (fst (step st o)).
  Proof.
    intros Hc. destruct o; try discriminate Hc; cbn [Mem.step]; try apply ids_same_refl;
      crunch; ids_leaf.
  Qed.

  Lemma mem_ok_content st o : is_content_op o = true -> mem_ok idok st -> mem_ok idok (fst (step st o)).
  Proof.
    intros Hc [Hids Hup Hfr]. pose proof (content_ids st o Hc) as E. unfold ids_same in E.
    destruct (content_frame st o Hc) as (Hb & Hn & Hu). constructor.
    - intros a. rewrite E. auto.
    - intros r a i. rewrite Hu, Hb. apply Hup.
    - intros n. rewrite Hn, E. apply Hfr.
  Qed.

  Theorem mem_ok_population h :
    forallb is_content_op h = true -> mem_ok idok (final step init h).
  Proof.
    assert (G : forall h st, forallb is_content_op h = true -> mem_ok idok st -> mem_ok idok (final step st h)).
    { clear h. induction h as [|o h IH]; intros st Hh Hst; [exact Hst|].
      cbn [forallb] in Hh. apply andb_true_iff in Hh as [Ho Hh].
      rewrite final_cons. apply IH; [exact Hh|]. now apply mem_ok_content. }
    intros Hh. apply G; [exact Hh|]. apply mem_ok_no_sessions, no_sessions_init.
  Qed.
End MemSim.

(* ================= Examples ================= *)

(* A concrete instance: identity hash, everything valid, a length-prefixed ID codec.  The two
   members start EMPTY BUT WITH DIFFERENT ID COUNTERS (0 and 5), so the upload session they
   open together is "#0" in one and "#5" in the other: the hypotheses of
   [mem_equal_stay_equal] hold of a history with a chunked upload, its composite ID, a resume
   by that ID, a commit and a read, and the renaming at the end pairs "#0" with "#5". *)
Definition ex_step : registry state :=
  step (fun x => x) (fun _ => true) (fun _ => true) (fun _ => true) (fun _ => None) (fun _ => None)
       {| immutable_tags := false |}.
Definition ex_idok (_ : bytes) : Prop := True.
Definition ex_enc (a b : bytes) : bytes := N.of_nat (length a) :: a ++ b.
Definition ex_dec (id : bytes) : option (list bytes) :=
  match id with
  | [] => None
  | n :: l => Some [firstn (N.to_nat n) l; skipn (N.to_nat n) l]
  end.

Lemma ex_codec a b : ex_idok a -> ex_idok b -> ex_dec (ex_enc a b) = Some [a; b].
Proof.
  intros _ _. unfold ex_dec, ex_enc. rewrite Nat2N.id.
  rewrite firstn_app, Nat.sub_diag, firstn_all, firstn_O, app_nil_r.
  rewrite skipn_app, Nat.sub_diag, skipn_all, skipn_O. reflexivity.
Qed.

Definition ex_s1 : state := {| repos := []; bufs := []; next_id := 5 |}.
Definition ex_ren : ren := {| r_ids := []; r_ws := [] |}.

Lemma ex_rel : mem_rel ex_idok ex_ren init ex_s1.
Proof.
  constructor; cbn [ex_ren r_ids r_ws In]; try (intros; contradiction); try reflexivity; try (intros ? ? ? ? []).
Qed.

Definition ex_history : list (choice * op) :=
  [ (choose false, PushBlobChunked (s "r") 0);
    (choose false, WWrite 0 (s "ab"));
    (choose false, WID 0);
    (choose true, PushBlobChunkedResume (s "r") (ex_enc (s "#0") (s "#5")) 2 0);
    (choose false, WWrite 1 (s "c"));
    (choose false, WCommit 1 (s "abc"));
    (choose true, GetBlob (s "r") (s "abc")) ].

Example mem_example :
  let st0 := uinit init ex_s1 in
  let st' := fst (urun ex_step ex_step ex_enc ex_dec ReadConcurrent st0 ex_history) in
  closed_loop ex_step ex_step ex_enc ex_dec ReadConcurrent [] st0 ex_history
  /\ snd (urun ex_step ex_step ex_enc ex_dec ReadConcurrent st0 ex_history)
     = [ Ok (RWriter 0); Ok (RN 2); Ok (RStr (ex_enc (s "#0") (s "#5"))); Ok (RWriter 1); Ok (RN 1);
         Ok (RDesc (octet_desc (s "abc") 3));
         Ok (RRead (octet_desc (s "abc") 3) (s "abc")) ]
  /\ snd (ex_step (u_b0 st') (WID 0)) = Ok (RStr (s "#0"))
  /\ snd (ex_step (u_b1 st') (WID 0)) = Ok (RStr (s "#5"))
  /\ exists p', Inv (mem_rel ex_idok) p' st' /\ In (s "#0", s "#5") (r_ids p').
Proof.
  cbv zeta.
  assert (Hcl : closed_loop ex_step ex_step ex_enc ex_dec ReadConcurrent [] (uinit init ex_s1) ex_history).
  { vm_compute. repeat split; try exact I. left. left. reflexivity. }
  split; [exact Hcl|]. split; [vm_compute; reflexivity|].
  split; [vm_compute; reflexivity|]. split; [vm_compute; reflexivity|].
  destruct (mem_equal_stay_equal (fun x => x) (fun _ => true) (fun _ => true) (fun _ => true)
              (fun _ => None) (fun _ => None) {| immutable_tags := false |} ex_idok (fun _ => I)
              ex_enc ex_dec ex_codec ReadConcurrent ex_history (uinit init ex_s1) ex_ren [])
    as (p' & _ & HI & _ & Hdec).
  - split; [exact ex_rel | constructor].
  - intros id [].
  - vm_compute. discriminate.
  - vm_compute. discriminate.
  - exact Hcl.
  - exists p'. split; [exact HI|].
    destruct (Hdec (ex_enc (s "#0") (s "#5"))) as (a & b & D & Hab).
    + vm_compute. left. reflexivity.
    + rewrite ex_codec in D by exact I. injection D as <- <-. exact Hab.
Qed.

(* Why the bound cannot be dropped: related states whose first counter is past the limit,
   on which one PushBlobChunked breaks the relation for good - member 0's generator hands
   out the ID of its open session again (10^39 + 10^40 renders as 10^39 does), the session
   table entry is overwritten, and the old session's ID now names the new writer in member
   0 and the old one in member 1.  A property of the model's 40-digit counter rendering,
   not of ocimem (random 256-bit IDs). *)
Definition big_X : bytes := fresh_id (10 ^ 39).
Definition big_s0 : state :=
  {| repos := [(s "r", {| tags := []; manifests := []; blobs := []; uploads := [(big_X, 0%N)] |})];
     bufs := [new_buffer (s "r") big_X 0]; next_id := 10 ^ 39 + ID_LIMIT |}.
Definition big_s1 : state :=
  {| repos := [(s "r", {| tags := []; manifests := []; blobs := []; uploads := [(fresh_id 7, 0%N)] |})];
     bufs := [new_buffer (s "r") (fresh_id 7) 0]; next_id := 8 |}.
Definition big_ren : ren := {| r_ids := [(big_X, fresh_id 7)]; r_ws := [(0%N, 0%N)] |}.

Lemma pair_eq {A B : Type} (a a' : A) (b b' : B) : (a, b) = (a', b') -> a = a' /\ b = b'.
Proof. intros E. split; [exact (f_equal fst E) | exact (f_equal snd E)]. Qed.

Lemma bij_single {A B : Type} (a : A) (b : B) : bij [(a, b)].
Proof.
  intros x y x' y' [E|[]] [E'|[]]. apply pair_eq in E as [<- <-]. apply pair_eq in E' as [<- <-]. tauto.
Qed.

Lemma big_rel : mem_rel ex_idok big_ren big_s0 big_s1.
Proof.
  constructor.
  - vm_compute. reflexivity.
  - apply bij_single.
  - apply bij_single.
  - intros a b [E|[]]. apply pair_eq in E as [<- <-].
    split; [apply fresh_id_ne|]. split; [apply fresh_id_ne|]. split; exact I.
  - intros r a b [E|[]]. apply pair_eq in E as [<- <-].
    unfold uploads_of, get_repo. cbn [repos big_s0 big_s1 alookup].
    destruct (beqb r (s "r")); cbn [uploads alookup]; [|exact I].
    rewrite !beqb_refl. left. reflexivity.
  - intros r a. unfold uploads_of, get_repo. cbn [repos big_s0 alookup].
    destruct (beqb r (s "r")); cbn [uploads akeys map fst In]; [|contradiction].
    intros [<-|[]]. exists (fresh_id 7). left. reflexivity.
  - intros r b. unfold uploads_of, get_repo. cbn [repos big_s1 alookup].
    destruct (beqb r (s "r")); cbn [uploads akeys map fst In]; [|contradiction].
    intros [<-|[]]. exists big_X. left. reflexivity.
  - intros w0 w1 [E|[]]. apply pair_eq in E as [<- <-].
    exists (new_buffer (s "r") big_X 0), (new_buffer (s "r") (fresh_id 7) 0).
    split; [reflexivity|]. split; [reflexivity|]. constructor; try reflexivity. left. reflexivity.
  - intros n a b [Hlo Hhi]. cbn [next_id big_s0] in Hlo. exfalso.
    remember (10 ^ 39)%N as x. remember ID_LIMIT as L. clear HeqL Heqx. lia.
  - intros n a b [Hlo Hhi] [E|[]]. apply pair_eq in E as [<- <-]. cbn [next_id big_s1] in Hlo.
    intros E. apply fresh_id_inj in E; [lia | reflexivity | exact Hhi].
Qed.

Theorem mem_step_beyond_limit_refuted :
  let o := PushBlobChunked (s "r") 0 in
  mem_rel ex_idok big_ren big_s0 big_s1 /\ op_rel big_ren o o
  /\ ~ exists p', ren_incl big_ren p'
         /\ mem_rel ex_idok p' (fst (ex_step big_s0 o)) (fst (ex_step big_s1 o))
         /\ res_rel p' (snd (ex_step big_s0 o)) (snd (ex_step big_s1 o)).
Proof.
  cbv zeta. split; [exact big_rel|]. split; [split; reflexivity|].
  intros (p' & [Ii _] & H' & Hr).
  pose proof (mr_up _ _ _ _ H' (s "r") big_X (fresh_id 7) (Ii _ (or_introl eq_refl))) as U.
  assert (L0 : alookup big_X (uploads_of (fst (ex_step big_s0 (PushBlobChunked (s "r") 0))) (s "r")) = Some 1%N)
    by (vm_compute; reflexivity).
  assert (L1 : alookup (fresh_id 7) (uploads_of (fst (ex_step big_s1 (PushBlobChunked (s "r") 0))) (s "r")) = Some 0%N)
    by (vm_compute; reflexivity).
  rewrite L0, L1 in U. cbn [up_match] in U.
  assert (R0 : snd (ex_step big_s0 (PushBlobChunked (s "r") 0)) = Ok (RWriter 1)) by (vm_compute; reflexivity).
  assert (R1 : snd (ex_step big_s1 (PushBlobChunked (s "r") 0)) = Ok (RWriter 1)) by (vm_compute; reflexivity).
  rewrite R0, R1 in Hr. cbn [res_rel] in Hr.
  pose proof (mr_bij_ws _ _ _ _ H' _ _ _ _ U Hr) as [X _]. specialize (X eq_refl). discriminate X.
Qed.
