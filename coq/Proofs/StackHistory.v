(* C03, the property itself on the history-level runner: putting the client and the server
   in front of a conforming backend does not change its observable behaviour.

     Conforming bstep Inv sim   the contract on the backend as a whole (a record of laws about
                                [bstep]; [Inv] is its state invariant, [sim b1 b2] relates a state
                                reached by direct calls to the state reached behind the stack:
                                equality up to upload-session bookkeeping and the media type of
                                blobs, which an upload session cannot carry)
     bres_equiv c rd rv         the relation between the direct answer and the answer through the
                                stack, per operation: success / failure; for errors the OCI code,
                                detail and status (the status only for the HEAD-based resolves);
                                descriptor digest, size, media type; bytes; listings
     admissible                 the side condition: outside the recorded deviations
     history_transparent        the theorem, by induction over the history from the per-method
                                theorems (Proofs/StackStep.v)

   This file covers the histories of the sixteen methods that are one client call (everything but
   the chunked-upload writers, for which see Proofs/StackUploadInv.v): [plain_op]. *)
From Coq Require Import String.
From OCI Require Import Model.Stack Proofs.Request Proofs.StackBase Proofs.StackDesc Proofs.StackRange.
From OCI Require Import Proofs.RequestCodec Proofs.StackTransparent Proofs.StackListing Proofs.StackListingB Proofs.StackTwoHops.
From OCI Require Import Proofs.StackUpload Proofs.StackStep.
From OCI Require Proofs.Errors.

Local Open Scope Z_scope.

(* a history run on a backend (Model/Iface.v's [run], for the backend vocabulary) *)
Fixpoint brun {St} (step : backend St) (b : St) (h : list op) : St * list bres :=
  match h with
  | [] => (b, [])
  | c :: h' => let '(b1, r) := step b c in
               let '(b2, rs) := brun step b1 h' in (b2, r :: rs)
  end.

Lemma run_registry_of_backend {St} (step : backend St) b h :
  run (registry_of_backend step) b h = (fst (brun step b h), map result_of_bres (snd (brun step b h))).
Proof.
  revert b. induction h as [|c h IH]; intros b; cbn [run brun]; [reflexivity|].
  unfold registry_of_backend at 1. destruct (step b c) as [b1 r]. rewrite IH.
  destruct (brun step b1 h) as [b2 rs]. reflexivity.
Qed.

Inductive Forall3 {A B C} (P : A -> B -> C -> Prop) : list A -> list B -> list C -> Prop :=
  | Forall3_nil : Forall3 P [] [] []
  | Forall3_cons a b c la lb lc : P a b c -> Forall3 P la lb lc -> Forall3 P (a :: la) (b :: lb) (c :: lc).

(* ================================================================ the relation on answers *)

Definition desc_equiv (with_media with_size : bool) (d v : desc) : Prop :=
  d_digest v = d_digest d
  /\ (with_size = true -> d_size v = d_size d)
  /\ (with_media = true -> d_media v = d_media d).

Notation mcode := (marshal_code).
Notation mstatus := (marshal_status).

(* errors: a body carrier keeps code, detail and status; a HEAD carrier keeps the status *)
Definition err_equiv (head : bool) (d v : gerr) : Prop :=
  if head then as_http v = Some (mstatus d)
  else mcode v = mcode d /\ marshal_detail v = marshal_detail d /\ mstatus v = mstatus d.

Definition opt_err_equiv (d v : option gerr) : Prop :=
  match d, v with
  | None, None => True
  | Some a, Some b => err_equiv false a b
  | _, _ => False
  end.

Definition val_equiv (c : op) (d v : bval) : Prop :=
  match c with
  | ResolveBlob _ _ => desc_equiv false true (desc_of d) (desc_of v)
  | ResolveManifest _ _ | ResolveTag _ _ | PushManifest _ _ _ _ | PushBlob _ _ _ =>
      desc_equiv true true (desc_of d) (desc_of v)
  | GetBlob _ _ | GetBlobRange _ _ _ _ => desc_equiv false true (desc_of d) (desc_of v) /\ data_of v = data_of d
  | GetManifest _ _ | GetTag _ _ => desc_equiv true true (desc_of d) (desc_of v) /\ data_of v = data_of d
  | MountBlob _ _ _ => desc_equiv false false (desc_of d) (desc_of v)
  | DeleteBlob _ _ | DeleteManifest _ _ | DeleteTag _ _ => True
  | _ => v = d
  end.

Definition lists (c : op) : bool :=
  match c with Tags _ _ | Repositories _ | Referrers _ _ _ => true | _ => false end.

(* [rd]: the answer of the backend called directly; [rv]: the answer through the stack.
   An iterator is compared as the items it yields and the error it ends with (a call that fails
   is the iterator that yields only the error). *)
Definition bres_equiv (c : op) (rd rv : bres) : Prop :=
  if lists c then
    match c with
    | Referrers _ _ _ =>
        match as_descs rd, as_descs rv with
        | Ok (l, e), Ok (l', e') => l' = l /\ opt_err_equiv e e'
        | _, _ => False
        end
    | _ =>
        match as_list rd, as_list rv with
        | Ok (l, e), Ok (l', e') => l' = l /\ opt_err_equiv e e'
        | _, _ => False
        end
    end
  else
    match rd, rv with
    | Ok d, Ok v => val_equiv c d v
    | Err d, Err v => err_equiv (is_head c) d v
    | _, _ => False
    end.

(* the strict relation: media type and size compared for every descriptor *)
Definition strict_val_equiv (c : op) (d v : bval) : Prop :=
  val_equiv c d v /\
  match c with
  | ResolveBlob _ _ | GetBlob _ _ | GetBlobRange _ _ _ _ | MountBlob _ _ _ => desc_equiv true true (desc_of d) (desc_of v)
  | _ => True
  end.

Section History.
  Variable linked : alg -> bool.
  Variable hash : bytes -> bytes -> bytes.
  Variable subject_of : bytes -> option (option bytes).
  Variable media : bytes -> bytes.
  Variable enc : jval -> bytes.
  Variable dec_errors : bytes -> option (list werr).
  Variable dec_names : bool -> bytes -> option (list bytes).
  Variable dec_index : bytes -> option (list desc).
  Variable redirect : bytes -> bytes -> bytes * bytes.
  Variable St : Type.
  Variable bstep : backend St.
  Variable o : opts.
  Variable cc : ccfg.

  Notation stack := (stack_bstep linked hash subject_of media enc dec_errors dec_names dec_index redirect bstep o cc).
  Notation werror := (wire_error enc).
  Notation wf := (wf_op linked hash subject_of).
  Notation conf := (conf_answer linked hash enc o).
  Notation relay := (relayable enc).
  Notation viewv := (view hash enc o).
  Notation omitv := (omit o).

  (* ---------------------------------------------------------- the contract *)

  Definition blob_op (c : op) : bool :=
    match c with GetBlob _ _ | GetBlobRange _ _ _ _ | ResolveBlob _ _ | MountBlob _ _ _ => true | _ => false end.

  (* answers in [sim]-related states: the same, up to the media type in a blob's descriptor *)
  Definition val_sim (c : op) (v1 v2 : bval) : Prop :=
    if blob_op c
    then d_digest (desc_of v1) = d_digest (desc_of v2) /\ d_size (desc_of v1) = d_size (desc_of v2)
         /\ data_of v1 = data_of v2
    else v1 = v2.

  Definition ans_sim (c : op) (r1 r2 : bres) : Prop :=
    match r1, r2 with
    | Ok v1, Ok v2 => val_sim c v1 v2
    | Err e1, Err e2 => e1 = e2
    | _, _ => False
    end.

  (* the backend calls of the upload session PushBlob is over HTTP, from [b] to [b8] *)
  Definition session (b : St) (rp dg data : bytes) (b8 : St) (tr : list ev) : Prop :=
    exists b1 b2 b3 b4 b5 b6 b7 vw vid vcs rc vw2 vn vd rc2,
      bstep b (PushBlobChunked rp 0) = (b1, Ok vw) /\
      bstep b1 (WID (wid_of vw)) = (b2, Ok vid) /\ good_upload_id (str_of vid) /\
      bstep b2 (WChunkSize (wid_of vw)) = (b3, Ok vcs) /\
      bstep b3 (WClose (wid_of vw)) = (b4, rc) /\ rc <> Panic /\ rc <> OutOfFuel /\
      bstep b4 (PushBlobChunkedResume rp (str_of vid) 0 (blen data)) = (b5, Ok vw2) /\
      bstep b5 (WWrite (wid_of vw2) data) = (b6, Ok vn) /\ n_of vn = blen data /\
      bstep b6 (WCommit (wid_of vw2) dg) = (b7, Ok vd) /\
      bstep b7 (WClose (wid_of vw2)) = (b8, rc2) /\ rc2 <> Panic /\ rc2 <> OutOfFuel /\
      tr = [ECall (PushBlobChunked rp 0) (Ok vw); ECall (WID (wid_of vw)) (Ok vid);
            ECall (WChunkSize (wid_of vw)) (Ok vcs); ECall (WClose (wid_of vw)) rc;
            ECall (PushBlobChunkedResume rp (str_of vid) 0 (blen data)) (Ok vw2);
            ECall (WWrite (wid_of vw2) data) (Ok vn);
            ECall (WCommit (wid_of vw2) dg) (Ok vd); ECall (WClose (wid_of vw2)) rc2].

  (* ... and for the empty content: no Write *)
  Definition session0 (b : St) (rp dg : bytes) (b8 : St) (tr : list ev) : Prop :=
    exists b1 b2 b3 b4 b5 b7 vw vid vcs rc vw2 vd rc2,
      bstep b (PushBlobChunked rp 0) = (b1, Ok vw) /\
      bstep b1 (WID (wid_of vw)) = (b2, Ok vid) /\ good_upload_id (str_of vid) /\
      bstep b2 (WChunkSize (wid_of vw)) = (b3, Ok vcs) /\
      bstep b3 (WClose (wid_of vw)) = (b4, rc) /\ rc <> Panic /\ rc <> OutOfFuel /\
      bstep b4 (PushBlobChunkedResume rp (str_of vid) 0 0) = (b5, Ok vw2) /\
      bstep b5 (WCommit (wid_of vw2) dg) = (b7, Ok vd) /\
      bstep b7 (WClose (wid_of vw2)) = (b8, rc2) /\ rc2 <> Panic /\ rc2 <> OutOfFuel /\
      tr = [ECall (PushBlobChunked rp 0) (Ok vw); ECall (WID (wid_of vw)) (Ok vid);
            ECall (WChunkSize (wid_of vw)) (Ok vcs); ECall (WClose (wid_of vw)) rc;
            ECall (PushBlobChunkedResume rp (str_of vid) 0 0) (Ok vw2);
            ECall (WCommit (wid_of vw2) dg) (Ok vd); ECall (WClose (wid_of vw2)) rc2].

  Definition session_of (b : St) (rp dg data : bytes) (b8 : St) (tr : list ev) : Prop :=
    match data with [] => session0 b rp dg b8 tr | _ => session b rp dg data b8 tr end.

  Definition read_only (c : op) : bool :=
    match c with
    | GetBlob _ _ | GetBlobRange _ _ _ _ | GetManifest _ _ | GetTag _ _ | ResolveBlob _ _
    | ResolveManifest _ _ | ResolveTag _ _ | Repositories _ | Tags _ _ | Referrers _ _ _ => true
    | _ => false
    end.

  (* contents and documents are shorter than 2^63 bytes (what a Go int64 length can say) *)
  Definition sizes_ok (c : op) (r : bres) : Prop :=
    match r with
    | Ok v => match c with
              | Referrers _ _ _ => blen (enc (JIndex (descs_of v))) <= max_int64
              | _ => d_size (desc_of v) <= max_int64 /\ blen (data_of v) <= max_int64
              end
    | _ => True
    end.

  Record Conforming (Inv : St -> Prop) (sim : St -> St -> Prop) : Prop := {
    (* [Inv] is an invariant, [sim] is reflexive on it *)
    cf_inv : forall b c, Inv b -> Inv (fst (bstep b c));
    cf_refl : forall b, Inv b -> sim b b;
    (* every answer to a call with well-formed arguments is conforming in the per-method sense
       ([conf_answer], Proofs/StackStep.v) *)
    cf_answer : forall b c, Inv b -> one_call c = true -> wf c ->
        sizes_ok c (snd (bstep b (bop c))) -> conf c (snd (bstep b (bop c)));
    (* upload-session bookkeeping is not observable: in related states the call the caller makes
       and the call the server makes for it have related answers and lead to related states *)
    cf_step : forall b1 b2 c, Inv b1 -> Inv b2 -> sim b1 b2 -> one_call c = true -> wf c ->
        ans_sim c (snd (bstep b1 c)) (snd (bstep b2 (bop c)))
        /\ sim (fst (bstep b1 c)) (fst (bstep b2 (bop c)));
    cf_step_list : forall b1 b2 c, Inv b1 -> Inv b2 -> sim b1 b2 -> is_listing c = true ->
        snd (bstep b1 c) = snd (bstep b2 c) /\ sim (fst (bstep b1 c)) (fst (bstep b2 c));
    (* a read on the side of the stack alone keeps the relation *)
    cf_read : forall b1 b2 c, Inv b2 -> sim b1 b2 -> read_only c = true -> sim b1 (fst (bstep b2 c));
    (* ResolveTag answers with the digest and size of the descriptor GetTag's reader carries *)
    cf_tag_head : forall b rp t b' v, Inv b -> wf (GetTag rp t) ->
        bstep b (GetTag rp t) = (b', Ok v) ->
        exists v1, snd (bstep b' (ResolveTag rp t)) = Ok v1
                   /\ d_digest (desc_of v1) = d_digest (desc_of v) /\ d_size (desc_of v1) = d_size (desc_of v);
    (* a listing either fails at once with an error that can be relayed, or pages well: the same
       state afterwards, a listing from an item is the rest of the listing, items are non-empty
       byte strings *)
    cf_list : forall b c, Inv b -> is_listing c = true ->
        (exists e, first_error (snd (bstep b c)) = Some e /\ relay e)
        \/ (exists full, pages_well St bstep b (list_call c) full);
    (* PushBlob of a content of the announced size and the upload session have the same effect *)
    cf_session : forall b1 b2 rp d data b1' v, Inv b1 -> Inv b2 -> sim b1 b2 ->
        wf (PushBlob rp d data) ->
        bstep b1 (PushBlob rp d data) = (b1', Ok v) ->
        desc_equiv true true (desc_of v) d
        /\ exists b8 tr, session_of b2 rp (d_digest d) data b8 tr /\ sim b1' b8
  }.

  (* ---------------------------------------------------------- the side condition *)

  (* the operations this file covers: the methods that are one client call *)
  Definition plain_op (c : op) : bool :=
    match c with
    | PushBlobChunked _ _ | PushBlobChunkedResume _ _ _ _ | WWrite _ _ | WClose _ | WSize _ | WChunkSize _
    | WID _ | WCommit _ _ | WCancel _ => false
    | _ => true
    end.

  (* the page documents of the listing [c] in state [b] are shorter than 2^63 bytes *)
  Definition lists_small (b : St) (c : op) : Prop :=
    forall s0 v, snd (bstep b (list_call c s0)) = Ok v ->
      blen (enc (list_doc c (firstn (Z.to_nat (c_page_size (stack_client cc))) (items_of v)))) <= max_int64.

  (* One step outside the recorded deviations.  [b]: the state of the direct run before the
     operation, [r]: the direct answer.
       - arguments well-formed ([wf_op]: valid names; a range a Range header can express, which
         excludes the empty and reversed ranges; a manifest the server can look into);
       - a listing: the client's page size is one the server grants (MaxListPageSize),
         the model's bound on pages is not reached, documents are shorter than 2^63 bytes;
       - Referrers: the server has the API enabled;
       - PushBlob: the direct call succeeds (a failing PushBlob leaves an upload session, and in
         ocimem the repository, behind: Proofs/StackHistoryRefuted.v);
       - contents and the referrers document are shorter than 2^63 bytes. *)
  Definition ok_step (b : St) (c : op) (r : bres) : Prop :=
    plain_op c = true /\ wf c /\ sizes_ok c r /\
    match c with
    | GetTag rp t =>
        (* a body above the client's in-memory threshold when the server omits the digest: the
           descriptor comes from a second request (HEAD); the backend's ResolveTag and GetTag
           must name the same media type *)
        omitv = true -> forall v v1, r = Ok v -> in_mem_threshold < blen (data_of v) ->
          snd (bstep (fst (bstep b c)) (ResolveTag rp t)) = Ok v1 -> d_media (desc_of v1) = d_media (desc_of v)
    | Tags _ _ | Repositories _ =>
        page_size_ok o cc /\ (1 <= cc_fuel cc)%nat /\ lists_small b c
        /\ match r with Ok v => (length (items_of v) < cc_fuel cc)%nat | _ => True end
    | Referrers _ _ _ => o_disable_referrers o = false
    | PushBlob _ _ _ => exists v, r = Ok v
    | _ => True
    end.

  Fixpoint admissible (b : St) (h : list op) : Prop :=
    match h with
    | [] => True
    | c :: h' => ok_step b c (snd (bstep b c)) /\ admissible (fst (bstep b c)) h'
    end.

  (* ---------------------------------------------------------- the view of a conforming answer is
     equivalent to the direct answer *)

  Lemma err_equiv_wire head e : relay e -> err_equiv head e (werror head e).
  Proof.
    intros (He & Hlen). destruct head; cbn [err_equiv].
    - apply wire_error_status.
    - destruct (wire_error_body enc e Hlen) as (C & D & S). auto.
  Qed.

  Lemma media_or_octet_ne m : m <> [] -> media_or_octet m = m.
  Proof. destruct m; [congruence | reflexivity]. Qed.

  Lemma equiv_view c rd r2 :
    one_call c = true -> ans_sim c rd r2 -> conf c r2 -> tag_small o c r2 -> bres_equiv c rd (viewv c r2).
  Proof.
    intros H1 Hs Hc Hts. unfold bres_equiv.
    destruct rd as [vd|ed| |], r2 as [v2|e2| |]; cbn [ans_sim] in Hs; try contradiction; cbn [conf_answer] in Hc.
    - (* both succeed *)
      destruct c as [rp d|rp d o0 o1|rp d|rp t|rp d|rp d|rp t|rp de content|rp hint|rp id off hint|from to d|rp t content med|rp d|rp d|rp t|st0|rp st0|rp d art|h data|h|h|h|h|h d|h];
        try discriminate H1; unfold val_sim in Hs; cbn [blob_op lists view view_ok val_equiv conf_ok] in *.
      + destruct Hs as (Hd & Hz & Hda). destruct Hc as (_ & Hdd).
        unfold read_view, desc_equiv. cbn [desc_of data_of d_digest d_size d_media]. rewrite Hd, Hz, Hda, Hdd.
        repeat split; try discriminate; reflexivity.
      + destruct Hs as (Hd & Hz & Hda).
        assert (Hdd : d_digest (desc_of v2) = d) by (destruct (whole_range o0 o1); tauto).
        unfold read_view, desc_equiv. cbn [desc_of data_of d_digest d_size d_media]. rewrite Hd, Hz, Hda, Hdd.
        repeat split; try discriminate; reflexivity.
      + subst v2. destruct Hc as (_ & Hdd & Hm).
        unfold read_view, desc_equiv. cbn [desc_of data_of d_digest d_size d_media].
        rewrite Hdd, (media_or_octet_ne _ Hm). repeat split; reflexivity.
      + subst v2. destruct Hc as (Hvd & (Hsz & Hmax & Hco) & Hm & Hom). unfold omit in *.
        destruct (o_omit_digest_from_tag_get o) eqn:Eo.
        * cbn [tag_small] in Hts. destruct (Hom eq_refl (Hts Eo)) as (_ & Hdg).
          unfold read_view, desc_equiv. cbn [desc_of data_of d_digest d_size d_media].
          rewrite (media_or_octet_ne _ Hm), <- Hdg. repeat split; reflexivity.
        * unfold head_desc, desc_equiv. cbn [desc_of data_of d_digest d_size d_media].
          rewrite (media_or_octet_ne _ Hm). repeat split; reflexivity.
      + destruct Hs as (Hd & Hz & Hda). unfold head_desc, desc_equiv. cbn [desc_of d_digest d_size d_media].
        rewrite Hd, Hz. repeat split; try discriminate; reflexivity.
      + subst v2. destruct Hc as (_ & Hdd & Hm). unfold desc_equiv. cbn [desc_of d_digest d_size d_media].
        rewrite (media_or_octet_ne _ Hm), Hdd. destruct (omit o); repeat split; reflexivity.
      + subst v2. destruct Hc as (_ & Hm). unfold head_desc, desc_equiv. cbn [desc_of d_digest d_size d_media].
        rewrite (media_or_octet_ne _ Hm). repeat split; reflexivity.
      + destruct Hs as (Hd & Hz & Hda). unfold desc_equiv. cbn [desc_of d_digest d_size d_media].
        rewrite Hd. repeat split; discriminate.
      + subst v2. destruct Hc as (Hd & Hz & Hm). unfold manifest_desc, desc_equiv. cbn [desc_of d_digest d_size d_media].
        rewrite Hd, Hz, Hm. repeat split; reflexivity.
      + exact I.
      + exact I.
      + exact I.
      + subst v2. cbn [as_descs]. destruct (iter_err_of vd) as [e|] eqn:Ei; cbn [descs_of iter_err_of].
        * destruct Hc as (Hr & Hnil). rewrite Hnil. split; [reflexivity|]. cbn [opt_err_equiv].
          apply err_equiv_wire; exact Hr.
        * split; [reflexivity | exact I].
    - (* both fail *)
      subst e2.
      destruct c as [rp d|rp d o0 o1|rp d|rp t|rp d|rp d|rp t|rp de content|rp hint|rp id off hint|from to d|rp t content med|rp d|rp d|rp t|st0|rp st0|rp d art|h data|h|h|h|h|h d|h];
        try discriminate H1; cbn [lists view is_head]; try (apply err_equiv_wire; exact Hc).
      cbn [as_descs descs_of iter_err_of]. split; [reflexivity|]. cbn [opt_err_equiv]. apply err_equiv_wire; exact Hc.
  Qed.

  Lemma sizes_sim c rd r2 : ans_sim c rd r2 -> sizes_ok c rd -> sizes_ok c r2.
  Proof.
    destruct rd as [vd| | |], r2 as [v2| | |]; cbn [ans_sim sizes_ok]; try tauto.
    unfold val_sim. destruct (blob_op c) eqn:Eb.
    - intros (Hd & Hz & Hda). rewrite <- Hz, <- Hda. destruct c; try discriminate Eb; tauto.
    - intros ->. tauto.
  Qed.

  (* ---------------------------------------------------------- one step of both runs *)

  Variable Inv : St -> Prop.
  Variable sim : St -> St -> Prop.
  Hypothesis CF : Conforming Inv sim.

  Hypothesis media_json : media json_ct = json_ct.
  Hypothesis json_errors_rt : forall w, dec_errors (enc (JErr w)) = Some [w].
  Hypothesis json_index_rt : forall l, dec_index (enc (JIndex l)) = Some l.
  Hypothesis json_tags_rt : forall name l, dec_names true (enc (JTags name l)) = Some l.
  Hypothesis json_catalog_rt : forall l, dec_names false (enc (JCatalog l)) = Some l.
  Hypothesis no_locs : o_locs o = None.
  Hypothesis bufsz_pos : (1 <= cc_bufsz cc)%nat.

  (* the direct run is in [b1], the run through the stack in [st]: the backend behind the stack is
     [sim]-related to [b1], no request has left the modelled class *)
  Definition Rel (b1 : St) (st : sstate St) : Prop :=
    Inv b1 /\ Inv (sv_b (st_srv st)) /\ sim b1 (sv_b (st_srv st)) /\ clean st.

  Lemma Rel_stepped b1 st b2 tr : Inv b1 -> Inv b2 -> sim b1 b2 -> Rel b1 (stepped St st b2 tr).
  Proof. intros H1 H2 H3. repeat split; assumption. Qed.

  Notation SS L := (L linked hash subject_of media enc dec_errors dec_names dec_index redirect St bstep o cc).

  Lemma one_step b1 st c :
    Rel b1 st -> ok_step b1 c (snd (bstep b1 c)) ->
    bres_equiv c (snd (bstep b1 c)) (snd (stack st c)) /\ Rel (fst (bstep b1 c)) (fst (stack st c)).
  Proof.
    intros (Hi1 & Hi2 & Hsim & Hcl) (Hpl & Hwf & Hsz0 & Hside).
    set (b2 := sv_b (st_srv st)) in *.
    pose proof (cf_inv Inv sim CF b1 c Hi1) as Hi1'.
    destruct (one_call c) eqn:H1.
    - (* one request, one backend call *)
      destruct (cf_step Inv sim CF b1 b2 c Hi1 Hi2 Hsim H1 Hwf) as (Hs & Hsim').
      pose proof (cf_answer Inv sim CF b2 c Hi2 H1 Hwf) as Hconf.
      pose proof (cf_inv Inv sim CF b2 (bop c) Hi2) as Hi2'.
      destruct (bstep b2 (bop c)) as [b2' r2] eqn:Eb2. cbn [fst snd] in *.
      specialize (Hconf (sizes_sim c _ r2 Hs Hsz0)).
      assert (Href : referrers_ok o c).
      { destruct c; try exact I. exact Hside. }
      assert (Hcase : tag_small o c r2 \/
                      exists rp t v, c = GetTag rp t /\ r2 = Ok v /\ omitv = true /\ in_mem_threshold < blen (data_of v)).
      { destruct c; try (left; exact I). destruct r2 as [v| | |]; try (left; exact I).
        destruct (omitv) eqn:Eo; [|left; cbn [tag_small]; intros; congruence].
        destruct (Z.leb_spec (blen (data_of v)) in_mem_threshold) as [Hle|Hgt].
        - left. intros _. exact Hle.
        - right. exists r, t, v. auto. }
      destruct Hcase as [Hts | (rp & t & v & -> & -> & Hom & Hth)].
      + rewrite (SS step_one media_json json_errors_rt json_index_rt no_locs bufsz_pos st c b2' r2 H1 Hwf Hcl Eb2 Hconf Hts Href).
        cbn [fst snd]. split.
        * apply equiv_view; assumption.
        * apply Rel_stepped; assumption.
      + (* the tag GET that needs a second request *)
        cbn [bop] in *. cbn [conf_answer conf_ok] in Hconf.
        destruct Hconf as (Hvd & (Hsz & Hmax & Hco) & Hm & _).
        destruct (cf_tag_head Inv sim CF b2 rp t b2' v Hi2 Hwf Eb2) as (v1 & Eh & Hdg & Hds).
        destruct (bstep b2' (ResolveTag rp t)) as [b2'' rh] eqn:Eb3. cbn [snd] in Eh. subst rh.
        rewrite (SS step_GetTag_large bufsz_pos st rp t b2' v b2'' v1 Hom Hwf Hcl Eb2 Hvd Hsz
                   Hmax Hth Eb3); rewrite ?Hdg, ?Hds; try assumption.
        cbn [fst snd]. split.
        * (* the media type of the second answer: from the side condition on the direct run *)
          assert (Hmed : d_media (desc_of v1) = d_media (desc_of v)).
          { destruct (bstep b1 (GetTag rp t)) as [b1' rd] eqn:Eb1. cbn [fst snd] in *.
            destruct rd as [vd| | |]; cbn [ans_sim] in Hs; try contradiction.
            unfold val_sim in Hs. cbn [blob_op] in Hs. subst vd.
            destruct (cf_step Inv sim CF b1' b2' (ResolveTag rp t) Hi1' Hi2' Hsim' eq_refl Hwf) as (Hs2 & _).
            cbn [bop] in Hs2. rewrite Eb3 in Hs2. cbn [snd] in Hs2.
            destruct (snd (bstep b1' (ResolveTag rp t))) as [v1'| | |] eqn:E1'; cbn [ans_sim] in Hs2; try contradiction.
            unfold val_sim in Hs2. cbn [blob_op] in Hs2. subst v1'.
            exact (Hside Hom v v1 eq_refl Hth eq_refl). }
          destruct (snd (bstep b1 (GetTag rp t))) as [vd| | |]; cbn [ans_sim] in Hs; try contradiction.
          unfold val_sim in Hs. cbn [blob_op] in Hs. subst vd.
          unfold bres_equiv. cbn [lists val_equiv]. unfold head_desc, desc_equiv.
          cbn [desc_of data_of d_digest d_size d_media]. rewrite Hmed, (media_or_octet_ne _ Hm), Hdg, Hds.
          repeat split; reflexivity.
        * apply Rel_stepped; [assumption| |].
          -- pose proof (cf_inv Inv sim CF b2' (ResolveTag rp t) Hi2') as H. rewrite Eb3 in H. exact H.
          -- pose proof (cf_read Inv sim CF _ b2' (ResolveTag rp t) Hi2' Hsim' eq_refl) as H. rewrite Eb3 in H. exact H.
    - destruct (is_listing c) eqn:Hl.
      + (* a listing *)
        destruct (cf_step_list Inv sim CF b1 b2 c Hi1 Hi2 Hsim Hl) as (Hs & Hsim').
        assert (Hside' : page_size_ok o cc /\ (1 <= cc_fuel cc)%nat /\ lists_small b1 c
                         /\ match snd (bstep b1 c) with Ok v => (length (items_of v) < cc_fuel cc)%nat | _ => True end).
        { destruct c; try discriminate Hl; exact Hside. }
        destruct Hside' as (Hpg & Hfu & Hsm & Hlen).
        destruct (cf_list Inv sim CF b2 c Hi2 Hl) as [(e & Hfe & Hre) | (full & Hpw)].
        * pose proof (cf_inv Inv sim CF b2 c Hi2) as Hi2'.
          destruct (bstep b2 c) as [b2' a] eqn:Eb2. cbn [fst snd] in *.
          rewrite (SS step_list_err media_json json_errors_rt Hpg st c b2' a e Hl Hwf Hcl Hfu Eb2 Hfe Hre).
          cbn [fst snd]. split; [|apply Rel_stepped; assumption].
          rewrite Hs. unfold bres_equiv.
          assert (Hlc : lists c = true) by (destruct c; try discriminate Hl; reflexivity). rewrite Hlc.
          assert (Eal : as_list a = Ok ([], Some e)).
          { destruct a as [v|e0| |]; cbn [first_error] in Hfe; try discriminate Hfe.
            - destruct v as [| |l oe| | | | |]; try discriminate Hfe. destruct l; [|discriminate Hfe].
              destruct oe; [|discriminate Hfe]. injection Hfe as ->. reflexivity.
            - injection Hfe as ->. reflexivity. }
          destruct c; try discriminate Hl; rewrite Eal; cbn [as_list items_of iter_err_of];
            (split; [reflexivity | apply err_equiv_wire; exact Hre]).
        * pose proof Hpw as (Hback & _ & _).
          assert (Estart : list_call c (list_start c) = c) by (destruct c; try discriminate Hl; reflexivity).
          pose proof (Hback (list_start c)) as Eb2. rewrite Estart in Eb2. fold b2 in Eb2.
          rewrite Eb2 in Hs, Hsim'. cbn [fst snd] in *. rewrite Hs in Hlen. cbn [items_of] in Hlen.
          assert (Hps : pages_small enc cc (list_doc c) full).
          { intros s0. specialize (Hback s0).
            assert (Hl0 : is_listing (list_call c s0) = true) by (destruct c; try discriminate Hl; reflexivity).
            destruct (cf_step_list Inv sim CF b1 b2 (list_call c s0) Hi1 Hi2 Hsim Hl0) as (Hs0 & _).
            fold b2 in Hback. rewrite Hback in Hs0. cbn [snd] in Hs0.
            exact (Hsm s0 _ Hs0). }
          destruct (SS step_list_ok json_tags_rt json_catalog_rt Hpg st c full Hl Hwf Hcl Hpw Hps Hlen) as (starts & E).
          rewrite E. cbn [fst snd]. split; [|apply Rel_stepped; assumption].
          rewrite Hs. unfold bres_equiv.
          assert (Hlc : lists c = true) by (destruct c; try discriminate Hl; reflexivity). rewrite Hlc.
          destruct c; try discriminate Hl; cbn [as_list items_of iter_err_of]; (split; [reflexivity | exact I]).
      + (* PushBlob *)
        destruct c as [rp d|rp d o0 o1|rp d|rp t|rp d|rp d|rp t|rp de content|rp hint|rp id off hint|from to d|rp t content med|rp d|rp d|rp t|st0|rp st0|rp d art|h data|h|h|h|h|h d|h];
          try discriminate H1; try discriminate Hl; try discriminate Hpl.
        destruct Hside as (vd & Erd).
        destruct (bstep b1 (PushBlob rp de content)) as [b1' rd] eqn:Eb1. cbn [fst snd] in *. subst rd.
        destruct (cf_session Inv sim CF b1 b2 rp de content b1' vd Hi1 Hi2 Hsim Hwf Eb1) as (Hde & b8 & tr & Hse & Hsim').
        assert (I : forall b c b' r, Inv b -> bstep b c = (b', r) -> Inv b').
        { intros b c b' r Hb E. pose proof (cf_inv Inv sim CF b c Hb) as H. rewrite E in H. exact H. }
        assert (Heq : bres_equiv (PushBlob rp de content) (Ok vd) (Ok (VDesc de))).
        { unfold bres_equiv. cbn [lists val_equiv desc_of]. destruct Hde as (A & B0 & C).
          unfold desc_equiv. repeat split; auto. }
        destruct content as [|c0 content'].
        { (* the empty content *)
          destruct Hse as (c1 & c2 & c3 & c4 & c5 & c7 & vw & vid & vcs & rc & vw2 & vd2 & rc2 &
                           E1 & E2 & Hid & E3 & E4 & Hc1 & Hc2 & E5 & E7 & E8 & Hc3 & Hc4 & ->).
          rewrite (SS step_PushBlob_empty no_locs st rp de c1 c2 c3 c4 c5 c7 b8 vw vid vcs rc vw2 vd2 rc2 Hwf Hcl
                     E1 E2 Hid E3 E4 Hc1 Hc2 E5 E7 E8 Hc3 Hc4).
          cbn [fst snd]. split; [exact Heq|]. apply Rel_stepped; [assumption| |assumption].
          eapply I; [|exact E8]. eapply I; [|exact E7]. eapply I; [|exact E5].
          eapply I; [|exact E4]. eapply I; [|exact E3]. eapply I; [|exact E2]. eapply I; [|exact E1]. exact Hi2. }
        assert (Hpos : 1 <= blen (c0 :: content')) by (unfold blen; cbn [length]; lia).
        destruct Hse as (c1 & c2 & c3 & c4 & c5 & c6 & c7 & vw & vid & vcs & rc & vw2 & vn & vd2 & rc2 &
                         E1 & E2 & Hid & E3 & E4 & Hc1 & Hc2 & E5 & E6 & Hn & E7 & E8 & Hc3 & Hc4 & ->).
        rewrite (SS step_PushBlob no_locs st rp de (c0 :: content') c1 c2 c3 c4 c5 c6 c7 b8 vw vid vcs rc vw2 vn vd2 rc2 Hwf Hcl Hpos
                   E1 E2 Hid E3 E4 Hc1 Hc2 E5 E6 Hn E7 E8 Hc3 Hc4).
        cbn [fst snd]. split; [exact Heq|].
        apply Rel_stepped; [assumption| |assumption].
        (* the invariant along the eight calls *)
        eapply I; [|exact E8]. eapply I; [|exact E7]. eapply I; [|exact E6]. eapply I; [|exact E5].
          eapply I; [|exact E4]. eapply I; [|exact E3]. eapply I; [|exact E2]. eapply I; [|exact E1]. exact Hi2.
  Qed.

  (* ---------------------------------------------------------- the theorem *)

  (* For every history of the one-call methods that is admissible (outside the recorded
     deviations) from a state of the invariant: answer by answer the run through the stack is
     equivalent to the direct run, and the two runs end in related backend states. *)
  Theorem history_transparent_from : forall h b1 st,
    Rel b1 st -> admissible b1 h ->
    Forall3 bres_equiv h (snd (brun bstep b1 h)) (snd (brun stack st h))
    /\ Rel (fst (brun bstep b1 h)) (fst (brun stack st h)).
  Proof.
    induction h as [|c h IH]; intros b1 st HR Ha; cbn [brun].
    - split; [constructor | exact HR].
    - destruct Ha as (Hok & Ha). destruct (one_step b1 st c HR Hok) as (He & HR').
      destruct (bstep b1 c) as [b1' rd]. destruct (stack st c) as [st' rv]. cbn [fst snd] in *.
      destruct (IH b1' st' HR' Ha) as (Hall & HRf).
      destruct (brun bstep b1' h) as [bf rds]. destruct (brun stack st' h) as [stf rvs]. cbn [fst snd] in *.
      split; [constructor; assumption | exact HRf].
  Qed.

  Lemma Rel_init b : Inv b -> Rel b (sstate0 b).
  Proof. intros H. repeat split; try assumption. apply (cf_refl Inv sim CF b H). Qed.

  Theorem history_transparent b h :
    Inv b -> admissible b h ->
    Forall3 bres_equiv h (snd (brun bstep b h)) (snd (brun stack (sstate0 b) h))
    /\ sim (fst (brun bstep b h)) (sv_b (st_srv (fst (brun stack (sstate0 b) h))))
    /\ clean (fst (brun stack (sstate0 b) h)).
  Proof.
    intros Hi Ha. destruct (history_transparent_from h b (sstate0 b) (Rel_init b Hi) Ha) as (H1 & _ & _ & H2 & H3).
    auto.
  Qed.

  (* The property's statement covers every history of Interface calls; this theorem covers the
     histories of the sixteen one-call methods outside the recorded deviations ([admissible]).
     What is missing: the chunked-upload writers inside histories (for one writer see
     Proofs/StackUploadInv.v), histories in which a PushBlob fails, LocationsForDescriptor.
     The statement without [admissible] is refuted in Proofs/StackHistoryRefuted.v. *)
  Definition history_transparent_partial := history_transparent.

End History.

Print Assumptions history_transparent.
