(* Proofs about Model/Scope.v (C09), part 4: every scope the exported API can build is
   well formed. *)
From Coq Require Import String.
From OCI Require Import Model.Scope Proofs.Scope Proofs.ScopeAlg Proofs.ScopeOps.

Lemma same_fields_with_original sc t : same_fields (with_original sc t) sc.
Proof. repeat split. Qed.

Lemma abs_with_original sc t : abs (with_original sc t) = abs sc.
Proof. apply abs_same, same_fields_with_original. Qed.

Lemma wf_with_original sc t :
  wf sc ->
  (t <> [] -> unlimited sc = false /\ same_fields sc (NewScope (parse_rscopes t))) ->
  wf (with_original sc t).
Proof.
  intros W Ht. split; try apply W.
  - cbn [unlimited with_original]. intros Hu. destruct t as [|c t].
    + rewrite (wf_unl _ W Hu). reflexivity.
    + destruct (Ht ltac:(discriminate)) as [Hu' _]. congruence.
  - cbn [original with_original]. intros Hn. destruct (Ht Hn) as [_ Hs].
    eapply same_fields_trans; [apply same_fields_with_original | exact Hs].
Qed.

Lemma wf_parse t : wf (ParseScope t).
Proof.
  unfold ParseScope. apply wf_with_original; [apply wf_new|]. intros _. split; [|apply same_fields_refl].
  now rewrite NewScope_fields.
Qed.

Lemma wf_canonical sc : wf sc -> wf (Canonical sc).
Proof. intros W. unfold Canonical. apply wf_with_original; auto. congruence. Qed.

Lemma wf_eval e : wf (eval e).
Proof.
  induction e as [l|t| |a IHa b IHb|a IHa]; cbn [eval].
  - apply wf_new.
  - apply wf_parse.
  - apply wf_unlimited.
  - now apply union_spec.
  - now apply wf_canonical.
Qed.

Lemma unlimited_new l : unlimited (NewScope l) = false.
Proof. now rewrite NewScope_fields. Qed.

Lemma unlimited_parse t : unlimited (ParseScope t) = false.
Proof. unfold ParseScope. cbn [unlimited with_original]. apply unlimited_new. Qed.

Lemma abs_parse t v : In v (abs (ParseScope t)) <-> In v (parse_rscopes t).
Proof. unfold ParseScope. rewrite abs_with_original. apply abs_new. Qed.

Lemma abs_canonical sc : abs (Canonical sc) = abs sc.
Proof. apply abs_with_original. Qed.

(* a parsed scope prints as the text it was parsed from, whatever the text *)
Lemma parse_keeps_text t : String (ParseScope t) = t.
Proof.
  destruct t as [|c t]; [reflexivity|].
  unfold String, IsUnlimited. rewrite unlimited_parse. reflexivity.
Qed.
