(* Proofs about Model/Unify.v (C15). *)
From Coq Require Import String Sorted Permutation.
From OCI Require Import Model.Unify.

(* ---------- equality deciders are correct ---------- *)

Lemma op_eqb_eq a b : op_eqb a b = true <-> a = b.
Proof.
  split.
  - destruct a, b; cbn [op_eqb]; try discriminate; intros H;
      repeat match goal with
             | H : (_ && _) = true |- _ => apply andb_true_iff in H; destruct H
             | H : beqb _ _ = true |- _ => apply beqb_eq in H
             | H : Z.eqb _ _ = true |- _ => apply Z.eqb_eq in H
             | H : N.eqb _ _ = true |- _ => apply N.eqb_eq in H
             | H : desc_eqb _ _ = true |- _ => apply desc_eqb_eq in H
             end; subst; reflexivity.
  - intros <-. destruct a; cbn [op_eqb];
      rewrite ?beqb_refl, ?Z.eqb_refl, ?N.eqb_refl; cbn; try reflexivity;
      try (assert (desc_eqb de de = true) as -> by (now apply desc_eqb_eq); cbn; rewrite ?beqb_refl; reflexivity).
Qed.

Lemma opt_err_eqb_eq a b : opt_err_eqb a b = true <-> a = b.
Proof.
  destruct a, b; cbn; split; try discriminate; try reflexivity.
  - intros H. apply err_eqb_eq in H. now subst.
  - intros H. injection H as ->. now apply err_eqb_eq.
Qed.

Lemma res_eqb_eq a b : res_eqb a b = true <-> a = b.
Proof.
  split.
  - destruct a, b; cbn [res_eqb]; try discriminate; intros H;
      repeat match goal with
             | H : (_ && _) = true |- _ => apply andb_true_iff in H; destruct H
             | H : beqb _ _ = true |- _ => apply beqb_eq in H
             | H : Z.eqb _ _ = true |- _ => apply Z.eqb_eq in H
             | H : N.eqb _ _ = true |- _ => apply N.eqb_eq in H
             | H : desc_eqb _ _ = true |- _ => apply desc_eqb_eq in H
             | H : opt_err_eqb _ _ = true |- _ => apply opt_err_eqb_eq in H
             | H : list_eqb beqb _ _ = true |- _ => apply (list_eqb_eq beqb beqb_eq) in H
             | H : list_eqb desc_eqb _ _ = true |- _ => apply (list_eqb_eq desc_eqb desc_eqb_eq) in H
             end; subst; reflexivity.
  - intros <-. destruct a; cbn [res_eqb]; rewrite ?beqb_refl, ?Z.eqb_refl, ?N.eqb_refl; try reflexivity.
    + now apply desc_eqb_eq.
    + rewrite andb_true_r. now apply desc_eqb_eq.
    + apply andb_true_iff. split; [now apply (list_eqb_eq beqb beqb_eq) | now apply opt_err_eqb_eq].
    + apply andb_true_iff. split; [now apply (list_eqb_eq desc_eqb desc_eqb_eq) | now apply opt_err_eqb_eq].
Qed.

Lemma result_eqb_eq a b : result_eqb a b = true <-> a = b.
Proof.
  destruct a, b; cbn; split; try discriminate; try reflexivity.
  - intros H. apply res_eqb_eq in H. now subst.
  - intros H. injection H as ->. now apply res_eqb_eq.
  - intros H. apply err_eqb_eq in H. now subst.
  - intros H. injection H as ->. now apply err_eqb_eq.
Qed.

(* ---------- order facts on byte strings ---------- *)

Lemma bleb_refl a : bleb a a = true.
Proof. unfold bleb. now rewrite bcmp_refl. Qed.

Lemma bleb_false_blt a b : bleb a b = false -> blt b a.
Proof.
  unfold bleb, blt. destruct (bcmp a b) eqn:E; try discriminate. intros _. now apply bcmp_gt_lt.
Qed.

Lemma bleb_cases a b : bleb a b = true -> blt a b \/ a = b.
Proof.
  unfold bleb, blt. destruct (bcmp a b) eqn:E; try discriminate; intros _; auto.
  right. now apply bcmp_eq.
Qed.

Lemma blt_bleb a b : blt a b -> bleb a b = true.
Proof. unfold blt, bleb. now intros ->. Qed.

Lemma bleb_trans a b c : bleb a b = true -> bleb b c = true -> bleb a c = true.
Proof.
  intros H1 H2. apply bleb_cases in H1 as [H1| ->]; [|assumption].
  apply bleb_cases in H2 as [H2| <-]; apply blt_bleb; [eapply blt_trans; eauto | assumption].
Qed.

(* ---------- mergeIter ---------- *)

Section MergeProofs.
  Context {T : Type}.
  Variable key : T -> bytes.

  Definition kle (a b : T) : Prop := bleb (key a) (key b) = true.
  Definition klt (a b : T) : Prop := blt (key a) (key b).

  Lemma insert_by_perm a l : Permutation (a :: l) (insert_by key a l).
  Proof.
    induction l as [|b l IH]; cbn; [reflexivity|].
    destruct (bleb (key a) (key b)); [reflexivity|].
    rewrite perm_swap. now constructor.
  Qed.

  Lemma sort_by_perm l : Permutation l (sort_by key l).
  Proof.
    induction l as [|a l IH]; cbn; [reflexivity|].
    rewrite <- insert_by_perm. now constructor.
  Qed.

  Lemma sort_by_In a l : In a (sort_by key l) <-> In a l.
  Proof. split; apply Permutation_in; [symmetry|]; apply sort_by_perm. Qed.

  Lemma insert_by_sorted a l : StronglySorted kle l -> StronglySorted kle (insert_by key a l).
  Proof.
    induction l as [|b l IH]; cbn; intros Hs.
    - constructor; constructor.
    - inversion Hs as [|? ? Hs' Hall]; subst.
      destruct (bleb (key a) (key b)) eqn:E.
      + constructor; [assumption|]. constructor; [exact E|].
        eapply Forall_impl; [|exact Hall]. intros c Hc. unfold kle in *. eapply bleb_trans; eauto.
      + constructor; [auto|]. apply Forall_forall. intros c Hc.
        apply (Permutation_in _ (Permutation_sym (insert_by_perm a l))) in Hc.
        destruct Hc as [<-|Hc].
        * unfold kle. apply blt_bleb. now apply bleb_false_blt.
        * rewrite Forall_forall in Hall. auto.
  Qed.

  Lemma sort_by_sorted l : StronglySorted kle (sort_by key l).
  Proof. induction l as [|a l IH]; cbn; [constructor | now apply insert_by_sorted]. Qed.

  (* compaction of a sorted list: strictly ascending, no element invented, no key lost *)
  Lemma compact_from_spec last l :
    StronglySorted kle (last :: l) ->
    StronglySorted klt (last :: compact_from key last l)
    /\ (forall x, In x (compact_from key last l) -> In x l)
    /\ (forall x, In x l -> exists y, In y (last :: compact_from key last l) /\ key y = key x).
  Proof.
    revert last; induction l as [|b l IH]; intros last Hs; cbn.
    - split; [constructor; constructor|]. split; [tauto|]. intros x [].
    - inversion Hs as [|? ? Hs' Hall]; subst.
      inversion Hs' as [|? ? Hs'' Hall']; subst.
      inversion Hall as [|? ? Hlb Hall'']; subst.
      destruct (beqb (key last) (key b)) eqn:E.
      + apply beqb_eq in E.
        destruct (IH last) as (S1 & S2 & S3).
        { constructor; assumption. }
        split; [exact S1|]. split; [intros x Hx; right; auto|].
        intros x [<-|Hx].
        * exists last. split; [now left | exact E].
        * apply S3 in Hx. exact Hx.
      + apply beqb_neq in E.
        destruct (IH b Hs') as (S1 & S2 & S3).
        assert (Hlt : klt last b).
        { unfold kle in Hlb. apply bleb_cases in Hlb as [Hlb|Hlb]; [exact Hlb | contradiction]. }
        split.
        * constructor; [exact S1|]. inversion S1 as [|? ? S1' A1]; subst.
          constructor; [exact Hlt|]. eapply Forall_impl; [|exact A1].
          intros c Hc. unfold klt in *. eapply blt_trans; eauto.
        * split.
          -- intros x [<-|Hx]; [now left | right; auto].
          -- intros x [<-|Hx].
             ++ exists b. split; [right; now left | reflexivity].
             ++ destruct (S3 x Hx) as (y & Hy & Ey). exists y. split; [now right | exact Ey].
  Qed.

  Lemma compact_by_spec l :
    StronglySorted kle l ->
    StronglySorted klt (compact_by key l)
    /\ (forall x, In x (compact_by key l) -> In x l)
    /\ (forall x, In x l -> exists y, In y (compact_by key l) /\ key y = key x).
  Proof.
    destruct l as [|a l]; cbn; intros Hs.
    - split; [constructor|]. split; [tauto|]. intros x [].
    - destruct (compact_from_spec a l Hs) as (S1 & S2 & S3).
      split; [exact S1|]. split.
      + intros x [<-|Hx]; [now left | right; auto].
      + intros x [<-|Hx]; [exists a; split; [now left | reflexivity] | auto].
  Qed.

  (* what mergeIter yields as items: the strictly ascending, key-duplicate-free list whose
     keys are exactly the keys of the two inputs, every item being an item of an input *)
  Definition merged (xs0 xs1 : list T) : list T := compact_by key (sort_by key (xs0 ++ xs1)).

  Lemma merged_spec xs0 xs1 :
    StronglySorted klt (merged xs0 xs1)
    /\ (forall x, In x (merged xs0 xs1) -> In x xs0 \/ In x xs1)
    /\ (forall x, In x xs0 \/ In x xs1 -> exists y, In y (merged xs0 xs1) /\ key y = key x).
  Proof.
    unfold merged. destruct (compact_by_spec _ (sort_by_sorted (xs0 ++ xs1))) as (S1 & S2 & S3).
    split; [exact S1|]. split.
    - intros x Hx. apply S2 in Hx. apply (proj1 (sort_by_In _ _)) in Hx. now apply in_app_or in Hx.
    - intros x Hx. apply S3. apply (proj2 (sort_by_In _ _)). now apply in_or_app.
  Qed.

  Lemma merge_iter_items_eq xs0 e0 xs1 e1 :
    fst (merge_iter key xs0 e0 xs1 e1) =
      if not_found e0 && not_found e1 then [] else merged xs0 xs1.
  Proof.
    unfold merge_iter, merged.
    assert (Hnf : forall e, not_found e = true -> is_some e = true) by (intros [e|]; cbn; auto).
    destruct (not_found e0) eqn:N0, (not_found e1) eqn:N1; cbn [andb];
      try (rewrite (Hnf _ N0)); try (rewrite (Hnf _ N1)); rewrite ?orb_true_r; cbn [andb orb fst];
      try reflexivity;
      try (rewrite andb_false_r; cbn [fst]);
      (destruct (0 <? length xs0 + length xs1)%nat eqn:L; [reflexivity|];
       apply Nat.ltb_ge in L; destruct xs0, xs1; cbn in L; try lia; reflexivity).
  Qed.

  (* the error mergeIter ends with *)
  Definition merged_err (e0 e1 : option err) : option err :=
    if not_found e0 && not_found e1 then e0
    else match (if not_found e0 then None else e0) with
         | Some e => Some e
         | None => if not_found e1 then None else e1
         end.

  Lemma merge_iter_err_eq xs0 e0 xs1 e1 :
    snd (merge_iter key xs0 e0 xs1 e1) = merged_err e0 e1.
  Proof.
    unfold merge_iter, merged_err.
    assert (Hnf : forall e, not_found e = true -> is_some e = true) by (intros [e|]; cbn; auto).
    destruct (not_found e0) eqn:N0, (not_found e1) eqn:N1; cbn [andb];
      try (rewrite (Hnf _ N0)); try (rewrite (Hnf _ N1)); rewrite ?orb_true_r; cbn [andb orb snd];
      try reflexivity.
    rewrite !andb_false_r. reflexivity.
  Qed.
End MergeProofs.

(* strings: the merge is THE strictly ascending list of the union *)
Definition ssorted (l : list bytes) : Prop := StronglySorted blt l.

Lemma ssorted_unique l1 l2 :
  ssorted l1 -> ssorted l2 -> (forall a, In a l1 <-> In a l2) -> l1 = l2.
Proof.
  unfold ssorted. revert l2; induction l1 as [|a l1 IH]; intros l2 H1 H2 Heq.
  - destruct l2 as [|b l2]; [reflexivity|]. exfalso. apply (Heq b). now left.
  - destruct l2 as [|b l2]; [exfalso; apply (Heq a); now left|].
    inversion H1 as [|? ? H1' A1]; inversion H2 as [|? ? H2' A2]; subst.
    rewrite Forall_forall in A1, A2.
    assert (a = b).
    { destruct (proj1 (Heq a) (or_introl eq_refl)) as [E|Hi]; [auto|].
      destruct (proj2 (Heq b) (or_introl eq_refl)) as [E|Hj]; [auto|].
      exfalso. apply (blt_asym a b); auto. }
    subst b. f_equal. apply IH; auto.
    intros c. split; intros Hc.
    + destruct (proj1 (Heq c) (or_intror Hc)) as [E|Hi]; [|exact Hi].
      subst c. apply A1 in Hc. now apply blt_irrefl in Hc.
    + destruct (proj2 (Heq c) (or_intror Hc)) as [E|Hi]; [|exact Hi].
      subst c. apply A2 in Hc. now apply blt_irrefl in Hc.
Qed.

Lemma merged_strings_spec xs0 xs1 :
  ssorted (merged (fun a => a) xs0 xs1)
  /\ (forall a, In a (merged (fun a => a) xs0 xs1) <-> In a xs0 \/ In a xs1).
Proof.
  destruct (merged_spec (fun a : bytes => a) xs0 xs1) as (S1 & S2 & S3).
  split; [exact S1|]. intros a. split; [apply S2|].
  intros H. destruct (S3 a H) as (y & Hy & E). cbn in E. now subst.
Qed.

(* the textbook two-way merge of two strictly ascending lists, dropping the duplicates *)
Fixpoint smerge (l1 : list bytes) : list bytes -> list bytes :=
  fix inner (l2 : list bytes) : list bytes :=
    match l1, l2 with
    | [], _ => l2
    | _, [] => l1
    | a :: l1', b :: l2' =>
        match bcmp a b with
        | Lt => a :: smerge l1' l2
        | Eq => a :: smerge l1' l2'
        | Gt => b :: inner l2'
        end
    end.

Lemma smerge_spec l1 l2 :
  ssorted l1 -> ssorted l2 ->
  ssorted (smerge l1 l2) /\ (forall a, In a (smerge l1 l2) <-> In a l1 \/ In a l2).
Proof.
  unfold ssorted. revert l2. induction l1 as [|a l1 IH1]; intros l2 H1 H2.
  - destruct l2; cbn; (split; [assumption | intros; tauto]).
  - induction l2 as [|b l2 IH2].
    + cbn. split; [assumption | intros; tauto].
    + inversion H1 as [|? ? H1' A1]; inversion H2 as [|? ? H2' A2]; subst.
      cbn [smerge]. destruct (bcmp a b) eqn:E.
      * apply bcmp_eq in E. subst b.
        destruct (IH1 l2 H1' H2') as [S I]. split.
        -- constructor; [exact S|]. apply Forall_forall. intros c Hc. apply I in Hc.
           rewrite Forall_forall in A1, A2. destruct Hc; auto.
        -- intros c. cbn. rewrite I. tauto.
      * destruct (IH1 (b :: l2) H1' H2) as [S I]. split.
        -- constructor; [exact S|]. apply Forall_forall. intros c Hc. apply I in Hc.
           rewrite Forall_forall in A1, A2. destruct Hc as [Hc|[<-|Hc]]; auto.
           eapply blt_trans; [exact E | auto].
        -- intros c. cbn. rewrite I. cbn. tauto.
      * apply bcmp_gt_lt in E. destruct (IH2 H2') as [S I]. split.
        -- constructor; [exact S|]. apply Forall_forall. intros c Hc. apply I in Hc.
           rewrite Forall_forall in A1, A2. destruct Hc as [[<-|Hc]|Hc]; auto.
           eapply blt_trans; [exact E | auto].
        -- intros c. cbn. rewrite I. cbn. tauto.
Qed.

(* for listings that are themselves strictly ascending, mergeIter's sort-and-compact IS the merge *)
Lemma merged_is_smerge xs0 xs1 :
  ssorted xs0 -> ssorted xs1 -> merged (fun a => a) xs0 xs1 = smerge xs0 xs1.
Proof.
  intros H0 H1. destruct (merged_strings_spec xs0 xs1) as [S I].
  destruct (smerge_spec xs0 xs1 H0 H1) as [S' I'].
  apply ssorted_unique; auto. intros a. rewrite I, I'. tauto.
Qed.

(* ---------- the unifier ---------- *)

Definition proper (r : result) : Prop := match r with Ok _ | Err _ => True | _ => False end.

Lemma first_success_ok a b : proper a -> proper b ->
  is_ok (first_success a b) = is_ok a || is_ok b.
Proof. destruct a, b; cbn; tauto. Qed.

Lemma first_success_one a b : first_success a b = a \/ first_success a b = b.
Proof. destruct a; cbn; auto. Qed.

Lemma first_success_is_ok a b : is_ok (first_success a b) = true ->
  (first_success a b = a /\ is_ok a = true) \/ (first_success a b = b /\ is_ok b = true).
Proof. destruct a; cbn; auto; discriminate. Qed.

Section UnifyProofs.
  Context {B0 B1 : Type}.
  Variable step0 : registry B0.
  Variable step1 : registry B1.
  Variable idenc : bytes -> bytes -> bytes.
  Variable iddec : bytes -> option (list bytes).

  Notation ustate := (ustate B0 B1).
  Notation ustep := (ustep step0 step1 idenc iddec).
  Notation urun := (urun step0 step1 idenc iddec).

  (* what each member answers when asked directly in its present state *)
  Definition ans0 (st : ustate) (o : op) : result := snd (step0 (u_b0 st) o).
  Definition ans1 (st : ustate) (o : op) : result := snd (step1 (u_b1 st) o).

  (* --- member calls --- *)

  Lemma call0_eq st o :
    call0 step0 st o =
      ({| u_b0 := fst (step0 (u_b0 st) o); u_b1 := u_b1 st; u_ws := u_ws st;
          u_log0 := o :: u_log0 st; u_log1 := u_log1 st |}, ans0 st o).
  Proof. unfold call0, ans0. destruct (step0 (u_b0 st) o). reflexivity. Qed.

  Lemma call1_eq st o :
    call1 step1 st o =
      ({| u_b0 := u_b0 st; u_b1 := fst (step1 (u_b1 st) o); u_ws := u_ws st;
          u_log0 := u_log0 st; u_log1 := o :: u_log1 st |}, ans1 st o).
  Proof. unfold call1, ans1. destruct (step1 (u_b1 st) o). reflexivity. Qed.

  Definition after_both (st : ustate) (o0 o1 : op) : ustate :=
    {| u_b0 := fst (step0 (u_b0 st) o0); u_b1 := fst (step1 (u_b1 st) o1); u_ws := u_ws st;
       u_log0 := o0 :: u_log0 st; u_log1 := o1 :: u_log1 st |}.

  Lemma both_eq st o0 o1 :
    both step0 step1 st o0 o1 = (after_both st o0 o1, ans0 st o0, ans1 st o1).
  Proof. unfold both. rewrite call0_eq, call1_eq. reflexivity. Qed.

  (* --- reads addressed by digest --- *)

  Lemma run_read_result pol f st o :
    snd (run_read step0 step1 pol f st o) =
      match pol with
      | ReadSequential => first_success (ans0 st o) (ans1 st o)
      | ReadConcurrent => if f then first_success (ans1 st o) (ans0 st o)
                          else first_success (ans0 st o) (ans1 st o)
      end.
  Proof.
    destruct pol; cbn [run_read].
    - rewrite call0_eq. destruct (ans0 st o) eqn:E; cbn [first_success snd]; try reflexivity.
      rewrite call1_eq. reflexivity.
    - rewrite both_eq. reflexivity.
  Qed.

  Lemma ustep_digest_read pol c st o : is_digest_read o = true ->
    ustep pol c st o = run_read step0 step1 pol (c_first1 c) st o.
  Proof. destruct o; cbn; try discriminate; reflexivity. Qed.

  (* union_reads: under either policy and whatever the scheduler does, a digest-addressed
     read succeeds exactly when a member has the content, and the answer IS the answer of a
     member that has it (when it fails, the error is a member's error) *)
  Lemma union_reads pol c st o :
    is_digest_read o = true -> proper (ans0 st o) -> proper (ans1 st o) ->
    let r := snd (ustep pol c st o) in
    is_ok r = is_ok (ans0 st o) || is_ok (ans1 st o)
    /\ (r = ans0 st o \/ r = ans1 st o)
    /\ (is_ok r = true -> (r = ans0 st o /\ is_ok (ans0 st o) = true)
                          \/ (r = ans1 st o /\ is_ok (ans1 st o) = true)).
  Proof.
    intros Hd P0 P1. cbv zeta. rewrite (ustep_digest_read pol c st o Hd), run_read_result.
    destruct pol; [|destruct (c_first1 c)].
    - split; [now apply first_success_ok|]. split; [apply first_success_one | apply first_success_is_ok].
    - split; [rewrite orb_comm; now apply first_success_ok|]. split.
      + destruct (first_success_one (ans1 st o) (ans0 st o)); auto.
      + intros H. destruct (first_success_is_ok _ _ H); auto.
    - split; [now apply first_success_ok|]. split; [apply first_success_one | apply first_success_is_ok].
  Qed.

  (* relative to members on which a digest means one content: whoever is asked, the
     content returned is the same *)
  Lemma union_reads_content pol c st o :
    is_digest_read o = true ->
    (is_ok (ans0 st o) = true -> is_ok (ans1 st o) = true -> ans0 st o = ans1 st o) ->
    let r := snd (ustep pol c st o) in
    is_ok r = true ->
    (is_ok (ans0 st o) = true -> r = ans0 st o) /\ (is_ok (ans1 st o) = true -> r = ans1 st o).
  Proof.
    intros Hd Hagree. cbv zeta. rewrite (ustep_digest_read pol c st o Hd), run_read_result.
    intros Hok.
    assert (forall a b, is_ok (first_success a b) = true ->
                        (is_ok a = true -> is_ok b = true -> a = b) ->
                        (is_ok a = true -> first_success a b = a) /\ (is_ok b = true -> first_success a b = b)) as L.
    { intros a b H Hab. destruct (first_success_is_ok a b H) as [[E Ha]|[E Hb]]; rewrite E in *.
      - split; [reflexivity|]. intros Hb. auto.
      - split; [|reflexivity]. intros Ha. symmetry. auto. }
    destruct pol; [|destruct (c_first1 c)].
    - apply L; auto.
    - destruct (L _ _ Hok) as [L1 L2]; [intros; symmetry; auto|]. split; auto.
    - apply L; auto.
  Qed.

  (* --- tags --- *)

  Lemma ustep_tag_read pol c st o : is_tag_read o = true ->
    snd (ustep pol c st o) = tag_result (ans0 st o) (ans1 st o).
  Proof.
    destruct o; cbn [is_tag_read]; try discriminate; intros _;
      cbn [Unify.ustep]; unfold tag_read; rewrite both_eq; reflexivity.
  Qed.

  Definition ok_digest (r : result) : option bytes :=
    match r with Ok a => Some (res_digest a) | _ => None end.

  (* tag_rule: both policies, any schedule.  Agreement or a single holder resolves to that
     answer; two holders with different digests fail; nobody has it fails with member 0's
     error. *)
  Lemma tag_rule pol c st o :
    is_tag_read o = true ->
    let r := snd (ustep pol c st o) in
    let r0 := ans0 st o in
    let r1 := ans1 st o in
    (forall d0 d1, ok_digest r0 = Some d0 -> ok_digest r1 = Some d1 -> d0 = d1 -> r = r0)
    /\ (forall d0 d1, ok_digest r0 = Some d0 -> ok_digest r1 = Some d1 -> d0 <> d1 ->
        r = Err err_conflict)
    /\ (is_ok r0 = true -> is_err r1 = true -> r = r0)
    /\ (is_err r0 = true -> is_ok r1 = true -> r = r1)
    /\ (is_err r0 = true -> is_err r1 = true -> r = r0)
    (* never one of two different digests *)
    /\ (forall d, ok_digest r = Some d ->
          (ok_digest r0 = Some d \/ ok_digest r1 = Some d)
          /\ (forall d0, ok_digest r0 = Some d0 -> d0 = d)
          /\ (forall d1, ok_digest r1 = Some d1 -> d1 = d)).
  Proof.
    intros Ht. cbv zeta. rewrite (ustep_tag_read pol c st o Ht).
    destruct (ans0 st o) as [a| | |], (ans1 st o) as [b| | |]; cbn;
      repeat split; intros; try discriminate; try congruence;
      repeat match goal with
             | H : Some _ = Some _ |- _ => injection H as H; try subst
             end;
      try (destruct (beqb (res_digest a) (res_digest b)) eqn:E;
           [apply beqb_eq in E | apply beqb_neq in E]; cbn in *; try congruence; auto).
    all: try (left; congruence).
    all: try (match goal with H : Some _ = Some _ |- _ => injection H as H end; congruence).
    all: try (right; reflexivity).
  Qed.

  (* --- listings --- *)

  Lemma ustep_list_strings pol c st o :
    match o with Repositories _ | Tags _ _ => True | _ => False end ->
    snd (ustep pol c st o) = merge_strings (ans0 st o) (ans1 st o).
  Proof. destruct o; try tauto; intros _; cbn [Unify.ustep]; rewrite both_eq; reflexivity. Qed.

  Lemma ustep_list_descs pol c st r d a :
    snd (ustep pol c st (Referrers r d a)) =
      merge_descs (ans0 st (Referrers r d a)) (ans1 st (Referrers r d a)).
  Proof. cbn [Unify.ustep]. rewrite both_eq. reflexivity. Qed.

  (* --- the read policy does not matter --- *)

  Lemma policy_irrelevant_outside_reads c st o :
    is_digest_read o = false -> ustep ReadSequential c st o = ustep ReadConcurrent c st o.
  Proof. destruct o; cbn; try discriminate; reflexivity. Qed.

  Lemma policies_agree c c' st o :
    proper (ans0 st o) -> proper (ans1 st o) ->
    let rs := snd (ustep ReadSequential c st o) in
    let rc := snd (ustep ReadConcurrent c' st o) in
    is_digest_read o = true ->
    is_ok rs = is_ok rc
    /\ ((is_ok (ans0 st o) = true -> is_ok (ans1 st o) = true -> ans0 st o = ans1 st o) ->
        is_ok rs = true -> rs = rc).
  Proof.
    intros P0 P1. cbv zeta. intros Hd.
    destruct (union_reads ReadSequential c st o Hd P0 P1) as (A1 & _ & _).
    destruct (union_reads ReadConcurrent c' st o Hd P0 P1) as (A2 & _ & _).
    cbv zeta in *. split; [congruence|].
    intros Hag Hok.
    assert (Hokc : is_ok (snd (ustep ReadConcurrent c' st o)) = true) by congruence.
    destruct (union_reads_content ReadSequential c st o Hd Hag Hok) as [S0 S1].
    destruct (union_reads_content ReadConcurrent c' st o Hd Hag Hokc) as [C0 C1].
    rewrite Hok in A1. symmetry in A1. apply orb_true_iff in A1 as [H|H].
    - rewrite (S0 H), (C0 H). reflexivity.
    - rewrite (S1 H), (C1 H). reflexivity.
  Qed.

  (* --- writes --- *)

  Lemma both_results_ok r0 r1 :
    is_ok (both_results r0 r1) = true -> both_results r0 r1 = r0 /\ is_ok r0 = true /\ is_ok r1 = true.
  Proof. destruct r0, r1; cbn; try discriminate; auto. Qed.

  Lemma both_results_ok_intro r0 r1 :
    is_ok r0 = true -> is_ok r1 = true -> both_results r0 r1 = r0.
  Proof. destruct r0, r1; cbn; try discriminate; auto. Qed.

  Lemma same_outcome_ok ra rb :
    is_ok (same_outcome ra rb) = true -> same_outcome ra rb = ra /\ is_ok ra = true /\ is_ok rb = true.
  Proof. destruct ra, rb; cbn; try discriminate; auto. Qed.

  Lemma same_outcome_ok_intro ra rb :
    is_ok ra = true -> is_ok rb = true -> same_outcome ra rb = ra.
  Proof. destruct ra, rb; cbn; try discriminate; auto. Qed.

  (* the call member i (false = member 0, true = member 1) has to receive for the
     unifier-level call o: the caller's arguments, with the unifier's writer replaced by
     the member's own writer and the composite upload ID by the member's own ID *)
  Definition pick {A} (i : bool) (a0 a1 : A) : A := if i then a1 else a0.
  Definition member_op (i : bool) (st : ustate) (o : op) : option op :=
    match o with
    | PushBlob _ _ _ | PushManifest _ _ _ _ | PushBlobChunked _ _ | MountBlob _ _ _
    | DeleteBlob _ _ | DeleteManifest _ _ | DeleteTag _ _ => Some o
    | PushBlobChunkedResume r id off hint =>
        match iddec id with
        | Some [id0; id1] => Some (PushBlobChunkedResume r (pick i id0 id1) off hint)
        | _ => None
        end
    | WWrite k d => option_map (fun w => WWrite (pick i (uw0 w) (uw1 w)) d) (get_writer st k)
    | WClose k => option_map (fun w => WClose (pick i (uw0 w) (uw1 w))) (get_writer st k)
    | WCancel k => option_map (fun w => WCancel (pick i (uw0 w) (uw1 w))) (get_writer st k)
    | WCommit k d => option_map (fun w => WCommit (pick i (uw0 w) (uw1 w)) d) (get_writer st k)
    | _ => None
    end.

  (* "the same arguments": equal once writer handles and upload IDs are blanked *)
  Definition erase (o : op) : op :=
    match o with
    | PushBlobChunkedResume r _ off hint => PushBlobChunkedResume r [] off hint
    | WWrite _ d => WWrite 0 d
    | WClose _ => WClose 0
    | WCancel _ => WCancel 0
    | WCommit _ d => WCommit 0 d
    | WSize _ => WSize 0
    | WChunkSize _ => WChunkSize 0
    | WID _ => WID 0
    | _ => o
    end.

  Lemma member_op_same_args i st o oi : member_op i st o = Some oi -> erase oi = erase o.
  Proof.
    destruct o; cbn; try discriminate; try (intros H; injection H as <-; reflexivity).
    - destruct (iddec id) as [[|a [|b [|? ?]]]|]; try discriminate. intros H; injection H as <-. reflexivity.
    - destruct (get_writer st w); cbn; [|discriminate]. intros H; injection H as <-. reflexivity.
    - destruct (get_writer st w); cbn; [|discriminate]. intros H; injection H as <-. reflexivity.
    - destruct (get_writer st w); cbn; [|discriminate]. intros H; injection H as <-. reflexivity.
    - destruct (get_writer st w); cbn; [|discriminate]. intros H; injection H as <-. reflexivity.
  Qed.

  Lemma member_op_resume i st r a b off hint :
    iddec (idenc a b) = Some [a; b] ->
    member_op i st (PushBlobChunkedResume r (idenc a b) off hint)
      = Some (PushBlobChunkedResume r (pick i a b) off hint).
  Proof. cbn. now intros ->. Qed.

  (* follow-up calls the unifier makes on a member's writer after the replicated call *)
  Definition is_followup (o : op) : bool :=
    match o with WSize _ | WClose _ => true | _ => false end.

  Definition uncut (c : choice) : Prop := c_cut0 c = None /\ c_cut1 c = None.

  Ltac log_tail :=
    first [ exists []; split; reflexivity
          | eexists [_]; split; reflexivity
          | eexists [_; _]; split; reflexivity
          | eexists [_; _; _]; split; reflexivity ].
  Ltac red_calls := rewrite ?both_eq, ?call0_eq, ?call1_eq; cbn [fst snd after_both u_log0 u_log1 u_b0 u_b1 u_ws].

  (* writes_replicated: every write is one call on each member, with the caller's
     arguments, made in the member's state as it was; only Size/Close of the member's new
     writer may follow; the unifier reports success only if both calls succeeded *)
  Lemma writes_replicated pol c st o o0 o1 :
    uncut c ->
    member_op false st o = Some o0 -> member_op true st o = Some o1 ->
    let st' := fst (ustep pol c st o) in
    let r := snd (ustep pol c st o) in
    (exists l0, u_log0 st' = l0 ++ o0 :: u_log0 st /\ forallb is_followup l0 = true)
    /\ (exists l1, u_log1 st' = l1 ++ o1 :: u_log1 st /\ forallb is_followup l1 = true)
    /\ (is_ok r = true -> is_ok (ans0 st o0) = true /\ is_ok (ans1 st o1) = true).
  Proof.
    intros [U0 U1] M0 M1. cbv zeta.
    destruct o; cbn in M0, M1; try discriminate.
    - (* PushBlob *)
      injection M0 as <-. injection M1 as <-.
      cbn [Unify.ustep]. unfold push_blob. rewrite U0, U1. red_calls.
      split; [log_tail|]. split; [log_tail|].
      destruct (c_first1 c); intros H; apply same_outcome_ok in H; tauto.
    - (* PushBlobChunked *)
      injection M0 as <-. injection M1 as <-.
      cbn [Unify.ustep]. unfold push_chunked. red_calls.
      set (q0 := ans0 st _). set (q1 := ans1 st _).
      destruct q0 as [[]| | |] eqn:E0; destruct q1 as [[]| | |] eqn:E1;
        unfold close0, close1, add_writer; red_calls;
        (split; [log_tail|]); (split; [log_tail|]);
        cbn; try discriminate; auto.
    - (* PushBlobChunkedResume *)
      destruct (iddec id) as [[|a [|b [|? ?]]]|] eqn:D; try discriminate.
      injection M0 as <-. injection M1 as <-. cbn [pick].
      cbn [Unify.ustep]. unfold push_resume. rewrite D. red_calls.
      set (q0 := ans0 st _). set (q1 := ans1 st _).
      destruct q0 as [[]| | |] eqn:E0; destruct q1 as [[]| | |] eqn:E1;
        unfold close0, close1, add_writer; red_calls;
        try match goal with |- context [Z.eqb ?x ?y] => destruct (Z.eqb x y) end;
        unfold close0, close1, add_writer; red_calls;
        (split; [log_tail|]); (split; [log_tail|]);
        cbn; try discriminate; auto.
    - (* MountBlob *)
      injection M0 as <-. injection M1 as <-. cbn [Unify.ustep]. red_calls.
      split; [log_tail|]. split; [log_tail|]. intros H; apply both_results_ok in H; tauto.
    - (* PushManifest *)
      injection M0 as <-. injection M1 as <-. cbn [Unify.ustep]. unfold push_manifest. red_calls.
      split; [log_tail|]. split; [log_tail|]. intros H; apply same_outcome_ok in H; tauto.
    - injection M0 as <-. injection M1 as <-. cbn [Unify.ustep]. red_calls.
      split; [log_tail|]. split; [log_tail|]. intros H; apply both_results_ok in H; tauto.
    - injection M0 as <-. injection M1 as <-. cbn [Unify.ustep]. red_calls.
      split; [log_tail|]. split; [log_tail|]. intros H; apply both_results_ok in H; tauto.
    - injection M0 as <-. injection M1 as <-. cbn [Unify.ustep]. red_calls.
      split; [log_tail|]. split; [log_tail|]. intros H; apply both_results_ok in H; tauto.
    - (* Write *)
      destruct (get_writer st w) as [uw|] eqn:G; cbn in M0, M1; try discriminate.
      injection M0 as <-. injection M1 as <-. cbn [pick].
      cbn [Unify.ustep]. rewrite G. unfold writer_op. red_calls.
      destruct (both_results _ _) eqn:BR; cbn [fst snd grow_writer u_log0 u_log1];
        (split; [log_tail|]); (split; [log_tail|]); cbn; try discriminate.
      intros _. assert (H : is_ok (both_results (ans0 st (WWrite (uw0 uw) data)) (ans1 st (WWrite (uw1 uw) data))) = true)
        by (rewrite BR; reflexivity).
      apply both_results_ok in H; tauto.
    - (* Close *)
      destruct (get_writer st w) as [uw|] eqn:G; cbn in M0, M1; try discriminate.
      injection M0 as <-. injection M1 as <-. cbn [pick].
      cbn [Unify.ustep]. rewrite G. unfold writer_op. red_calls.
      split; [log_tail|]. split; [log_tail|].
      destruct (both_results _ _) eqn:BR; cbn; try discriminate.
      intros _. assert (H : is_ok (both_results (ans0 st (WClose (uw0 uw))) (ans1 st (WClose (uw1 uw)))) = true)
        by (rewrite BR; reflexivity).
      apply both_results_ok in H; tauto.
    - (* Commit *)
      destruct (get_writer st w) as [uw|] eqn:G; cbn in M0, M1; try discriminate.
      injection M0 as <-. injection M1 as <-. cbn [pick].
      cbn [Unify.ustep]. rewrite G. unfold writer_op. red_calls.
      split; [log_tail|]. split; [log_tail|].
      intros H; apply both_results_ok in H; tauto.
    - (* Cancel *)
      destruct (get_writer st w) as [uw|] eqn:G; cbn in M0, M1; try discriminate.
      injection M0 as <-. injection M1 as <-. cbn [pick].
      cbn [Unify.ustep]. rewrite G. unfold writer_op. red_calls.
      split; [log_tail|]. split; [log_tail|].
      destruct (both_results _ _) eqn:BR; cbn; try discriminate.
      intros _. assert (H : is_ok (both_results (ans0 st (WCancel (uw0 uw))) (ans1 st (WCancel (uw1 uw)))) = true)
        by (rewrite BR; reflexivity).
      apply both_results_ok in H; tauto.
  Qed.
End UnifyProofs.

(* ---------- members that start equal stay equal ---------- *)

(* a renaming between the two members' private names: upload IDs and writer handles *)
Record ren := { r_ids : list (bytes * bytes); r_ws : list (wid * wid) }.
Definition ren_incl (p q : ren) : Prop := incl (r_ids p) (r_ids q) /\ incl (r_ws p) (r_ws q).

Lemma ren_incl_refl p : ren_incl p p.
Proof. split; apply incl_refl. Qed.
Lemma ren_incl_trans p q r : ren_incl p q -> ren_incl q r -> ren_incl p r.
Proof. intros [A B] [C D]. split; eapply incl_tran; eauto. Qed.

(* calls that mention neither an upload ID nor a writer *)
Definition is_plain (o : op) : bool :=
  match o with
  | PushBlobChunkedResume _ _ _ _ | WWrite _ _ | WClose _ | WSize _ | WChunkSize _ | WID _
  | WCommit _ _ | WCancel _ => false
  | _ => true
  end.

(* the same call, up to the renaming *)
Definition op_rel (p : ren) (o0 o1 : op) : Prop :=
  match o0, o1 with
  | PushBlobChunkedResume r a off h, PushBlobChunkedResume r' b off' h' =>
      r = r' /\ off = off' /\ h = h' /\ In (a, b) (r_ids p)
  | WWrite w0 d, WWrite w1 d' => d = d' /\ In (w0, w1) (r_ws p)
  | WClose w0, WClose w1 => In (w0, w1) (r_ws p)
  | WSize w0, WSize w1 => In (w0, w1) (r_ws p)
  | WChunkSize w0, WChunkSize w1 => In (w0, w1) (r_ws p)
  | WID w0, WID w1 => In (w0, w1) (r_ws p)
  | WCommit w0 d, WCommit w1 d' => d = d' /\ In (w0, w1) (r_ws p)
  | WCancel w0, WCancel w1 => In (w0, w1) (r_ws p)
  | _, _ => o0 = o1 /\ is_plain o0 = true
  end.

(* the same answer, up to the renaming *)
Definition res_rel (p : ren) (r0 r1 : result) : Prop :=
  match r0, r1 with
  | Ok (RWriter w0), Ok (RWriter w1) => In (w0, w1) (r_ws p)
  | Ok (RStr a), Ok (RStr b) => In (a, b) (r_ids p)
  | Ok a, Ok b => a = b
  | Err _, Err _ => True
  | Panic, Panic => True
  | OutOfFuel, OutOfFuel => True
  | _, _ => False
  end.

(* calls a member may receive alone: reads by digest and Size of a writer *)
Definition is_observer (o : op) : bool :=
  is_digest_read o || match o with WSize _ => true | _ => false end.

Section EqualStayEqual.
  Context {B0 B1 : Type}.
  Variable step0 : registry B0.
  Variable step1 : registry B1.
  Variable idenc : bytes -> bytes -> bytes.
  Variable iddec : bytes -> option (list bytes).

  Notation ustate := (ustate B0 B1).
  Notation ustep := (ustep step0 step1 idenc iddec).
  Notation urun := (urun step0 step1 idenc iddec).
  Notation ans0 := (ans0 step0).
  Notation ans1 := (ans1 step1).

  (* "observably equal up to the renaming p" is ANY relation between member states that
     the members themselves respect: *)
  Variable R : ren -> B0 -> B1 -> Prop.
  (* the same call on both keeps them related and gives the same answer; names handed out
     by the two calls (a new writer, an upload ID) extend the renaming *)
  Hypothesis H_sim : forall p s0 s1 o0 o1,
    R p s0 s1 -> op_rel p o0 o1 ->
    exists p', ren_incl p p'
               /\ R p' (fst (step0 s0 o0)) (fst (step1 s1 o1))
               /\ res_rel p' (snd (step0 s0 o0)) (snd (step1 s1 o1)).
  (* a read by digest, or Size, asked of member 0 alone changes nothing observable *)
  Hypothesis H_obs0 : forall p s0 s1 o,
    R p s0 s1 -> is_observer o = true -> R p (fst (step0 s0 o)) s1.
  (* a PushBlob that fails changes nothing observable (needed only for the cut streams) *)
  Hypothesis H_fail0 : forall p s0 s1 r de data,
    R p s0 s1 -> is_err (snd (step0 s0 (PushBlob r de data))) = true ->
    R p (fst (step0 s0 (PushBlob r de data))) s1.
  Hypothesis H_fail1 : forall p s0 s1 r de data,
    R p s0 s1 -> is_err (snd (step1 s1 (PushBlob r de data))) = true ->
    R p s0 (fst (step1 s1 (PushBlob r de data))).
  (* the codec round-trips on the IDs members hand out (json.Marshal replaces invalid
     UTF-8, so this is a genuine condition on the members' upload IDs) *)
  Variable idok : bytes -> Prop.
  Hypothesis H_codec : forall a b, idok a -> idok b -> iddec (idenc a b) = Some [a; b].
  Hypothesis H_idok0 : forall s w id, snd (step0 s (WID w)) = Ok (RStr id) -> idok id.
  Hypothesis H_idok1 : forall s w id, snd (step1 s (WID w)) = Ok (RStr id) -> idok id.

  Definition wf (p : ren) (st : ustate) : Prop :=
    Forall (fun w => In (uw0 w, uw1 w) (r_ws p)) (u_ws st).
  Definition Inv (p : ren) (st : ustate) : Prop := R p (u_b0 st) (u_b1 st) /\ wf p st.

  (* composite IDs the unifier has handed out: each is the encoding of a related pair *)
  Definition issued_ok (p : ren) (issued : list bytes) : Prop :=
    forall id, In id issued -> exists a b, id = idenc a b /\ In (a, b) (r_ids p) /\ idok a /\ idok b.

  (* the caller resumes uploads only with IDs the unifier gave it (anything that is not the
     encoding of two IDs is rejected before a member is asked) *)
  Definition resume_ok (issued : list bytes) (o : op) : Prop :=
    match o with
    | PushBlobChunkedResume _ id _ _ => In id issued \/ (forall a b, iddec id <> Some [a; b])
    | _ => True
    end.

  Definition issue (issued : list bytes) (o : op) (r : result) : list bytes :=
    match o, r with
    | WID _, Ok (RStr id) => id :: issued
    | _, _ => issued
    end.

  Fixpoint closed_loop (pol : policy) (issued : list bytes) (st : ustate) (h : list (choice * op)) : Prop :=
    match h with
    | [] => True
    | (c, o) :: h' =>
        resume_ok issued o
        /\ closed_loop pol (issue issued o (snd (ustep pol c st o))) (fst (ustep pol c st o)) h'
    end.

  Lemma wf_incl p q st : ren_incl p q -> wf p st -> wf q st.
  Proof.
    intros [_ I] H. unfold wf in *. eapply Forall_impl; [|exact H]. intros w Hw. now apply I.
  Qed.

  Lemma issued_ok_incl p q issued : ren_incl p q -> issued_ok p issued -> issued_ok q issued.
  Proof.
    intros [I _] H id Hid. destruct (H id Hid) as (a & b & E & Hab & Ha & Hb).
    exists a, b. repeat split; auto.
  Qed.

  Lemma both_sim p st o0 o1 :
    Inv p st -> op_rel p o0 o1 ->
    exists p', ren_incl p p' /\ Inv p' (after_both step0 step1 st o0 o1)
               /\ res_rel p' (ans0 st o0) (ans1 st o1).
  Proof.
    intros [HR Hwf] Hop. destruct (H_sim p _ _ o0 o1 HR Hop) as (p' & I & HR' & Hres).
    exists p'. split; [exact I|]. split; [|exact Hres].
    split; [exact HR'|]. cbn. eapply wf_incl; eauto.
  Qed.

  Lemma op_rel_plain p o : is_plain o = true -> op_rel p o o.
  Proof. destruct o; cbn; try discriminate; auto. Qed.

  Ltac red_calls2 :=
    rewrite ?both_eq, ?call0_eq, ?call1_eq;
    cbn [fst snd after_both u_log0 u_log1 u_b0 u_b1 u_ws].

  Lemma sim_run_read pol f st o p :
    is_digest_read o = true -> Inv p st ->
    exists p', ren_incl p p' /\ Inv p' (fst (run_read step0 step1 pol f st o)).
  Proof.
    intros Hd HI.
    assert (Hp : op_rel p o o) by (apply op_rel_plain; destruct o; try discriminate; reflexivity).
    assert (Hobs : Inv p {| u_b0 := fst (step0 (u_b0 st) o); u_b1 := u_b1 st; u_ws := u_ws st;
                            u_log0 := o :: u_log0 st; u_log1 := u_log1 st |}).
    { destruct HI as [HR Hw]. split; cbn; [|exact Hw].
      apply H_obs0; auto. unfold is_observer. now rewrite Hd. }
    destruct pol; cbn [run_read].
    - rewrite call0_eq. destruct (Unify.ans0 step0 st o) eqn:E; cbn [fst];
        try (exists p; split; [apply ren_incl_refl | exact Hobs]).
      rewrite call1_eq. cbn [fst u_b0 u_b1 u_ws u_log0 u_log1].
      destruct (both_sim p st o o HI Hp) as (p' & I & HI' & _). exists p'. split; [exact I | exact HI'].
    - rewrite both_eq. cbn [fst].
      destruct (both_sim p st o o HI Hp) as (p' & I & HI' & _). exists p'. split; [exact I | exact HI'].
  Qed.

  Lemma sim_both_plain st o p :
    is_plain o = true -> Inv p st ->
    exists p', ren_incl p p' /\ Inv p' (after_both step0 step1 st o o) /\ res_rel p' (ans0 st o) (ans1 st o).
  Proof. intros Hpl HI. apply both_sim; auto. now apply op_rel_plain. Qed.

  Lemma Inv_ws p st st' :
    u_b0 st' = u_b0 st -> u_b1 st' = u_b1 st -> u_ws st' = u_ws st -> Inv p st -> Inv p st'.
  Proof. intros E0 E1 Ew [HR Hw]. unfold Inv, wf. rewrite E0, E1, Ew. split; assumption. Qed.

  Lemma sim_push_blob c st r de data p :
    Inv p st ->
    exists p', ren_incl p p' /\ Inv p' (fst (push_blob step0 step1 c st (PushBlob r de data))).
  Proof.
    intros HI. unfold push_blob. rewrite call0_eq, call1_eq.
    set (o := PushBlob r de data).
    set (cut0 := match c_cut0 c, c_cut1 c with Some _, None => is_errb (ans1 st o) | _, _ => false end).
    set (cut1 := match c_cut1 c, c_cut0 c with Some _, None => is_errb (ans0 st o) | _, _ => false end).
    cbn [fst u_b0 u_b1 u_ws u_log0 u_log1].
    assert (Hx : cut0 = true -> cut1 = false).
    { unfold cut0, cut1. destruct (c_cut0 c), (c_cut1 c); auto; discriminate. }
    assert (Herr : forall q, is_errb q = true -> is_err q = true) by (intros [| | |]; auto).
    destruct cut0 eqn:C0; [rewrite (Hx eq_refl)|destruct cut1 eqn:C1].
    - (* member 0 cut: only member 1 was called, and failed *)
      exists p. split; [apply ren_incl_refl|]. destruct HI as [HR Hw]. split; cbn; [|exact Hw].
      apply H_fail1; auto. apply Herr. unfold cut0 in C0.
      destruct (c_cut0 c), (c_cut1 c); try discriminate; exact C0.
    - exists p. split; [apply ren_incl_refl|]. destruct HI as [HR Hw]. split; cbn; [|exact Hw].
      apply H_fail0; auto. apply Herr. unfold cut1 in C1.
      destruct (c_cut1 c), (c_cut0 c); try discriminate; exact C1.
    - destruct (sim_both_plain st o p eq_refl HI) as (p' & I & HI' & _).
      exists p'. split; [exact I | exact HI'].
  Qed.

  Lemma wf_add p st w0 w1 size :
    wf p st -> In (w0, w1) (r_ws p) ->
    wf p (fst (add_writer st w0 w1 size)).
  Proof.
    intros Hw Hin. unfold wf, add_writer. cbn. apply Forall_app. split; [exact Hw|].
    constructor; [exact Hin | constructor].
  Qed.

  Lemma sim_push_chunked st r hint p :
    Inv p st ->
    exists p', ren_incl p p' /\ Inv p' (fst (push_chunked step0 step1 st (PushBlobChunked r hint))).
  Proof.
    intros HI. unfold push_chunked. rewrite both_eq.
    set (o := PushBlobChunked r hint).
    destruct (sim_both_plain st o p eq_refl HI) as (p' & I & HI' & Hres).
    destruct (ans0 st o) as [[]| | |] eqn:E0; destruct (ans1 st o) as [[]| | |] eqn:E1;
      cbn in Hres; try contradiction; try discriminate;
      unfold close0, close1;
      try (cbn [fst]; exists p'; split; [exact I | exact HI']).
    (* two writers *)
    rewrite call0_eq. cbn [fst snd].
    exists p'. split; [exact I|]. destruct HI' as [HR Hw]. split.
    - cbn. apply H_obs0; [exact HR | reflexivity].
    - apply wf_add; [exact Hw | exact Hres].
  Qed.

  Lemma sim_push_resume st r id off hint p issued :
    Inv p st -> issued_ok p issued -> resume_ok issued (PushBlobChunkedResume r id off hint) ->
    exists p', ren_incl p p' /\ Inv p' (fst (push_resume step0 step1 iddec st r id off hint)).
  Proof.
    intros HI Hiss Hres. unfold push_resume.
    destruct Hres as [Hin | Hbad].
    - destruct (Hiss id Hin) as (a & b & -> & Hab & Ha & Hb).
      rewrite (H_codec a b Ha Hb). rewrite both_eq.
      set (o0 := PushBlobChunkedResume r a off hint). set (o1 := PushBlobChunkedResume r b off hint).
      assert (Hop : op_rel p o0 o1) by (cbn; auto).
      destruct (both_sim p st o0 o1 HI Hop) as (p1 & I1 & HI1 & Hr1).
      destruct (ans0 st o0) as [[]| | |] eqn:E0; destruct (ans1 st o1) as [[]| | |] eqn:E1;
        cbn in Hr1; try contradiction; try discriminate;
        unfold close0, close1;
        try (cbn [fst]; exists p1; split; [exact I1 | exact HI1]).
      (* two writers: Size on both, then either a new writer or both closed *)
      set (st2 := after_both step0 step1 st o0 o1) in *.
      rewrite call0_eq. rewrite call1_eq. cbn [fst snd u_b0 u_b1 u_ws u_log0 u_log1].
      assert (Hop2 : op_rel p1 (WSize w) (WSize w0)) by exact Hr1.
      destruct (both_sim p1 st2 _ _ HI1 Hop2) as (p2 & I2 & HI2 & Hr2).
      destruct (Z.eqb _ _).
      + exists p2. split; [eapply ren_incl_trans; eauto|]. destruct HI2 as [HR2 Hw2]. split.
        * exact HR2.
        * apply wf_add; [exact Hw2 | apply I2; exact Hr1].
      + unfold close0, close1. rewrite call0_eq. cbn [fst]. rewrite call1_eq. cbn [fst u_b0 u_b1 u_ws u_log0 u_log1].
        assert (Hop3 : op_rel p2 (WClose w) (WClose w0)) by (apply I2; exact Hr1).
        destruct (both_sim p2 _ _ _ HI2 Hop3) as (p3 & I3 & HI3 & _).
        exists p3. split; [eapply ren_incl_trans; [exact I1|]; eapply ren_incl_trans; eauto|].
        exact HI3.
    - destruct (iddec id) as [[|a [|b [|? ?]]]|] eqn:D;
        try (cbn [fst]; exists p; split; [apply ren_incl_refl | exact HI]).
      exfalso. eapply Hbad. reflexivity.
  Qed.

  Lemma Forall_upd_nth {A} (P : A -> Prop) f i (l : list A) :
    (forall a, P a -> P (f a)) -> Forall P l -> Forall P (upd_nth i f l).
  Proof.
    intros Hf. revert i; induction l as [|a l IH]; intros i H; destruct i; cbn; auto;
      inversion H; subst; constructor; auto.
  Qed.

  Lemma Inv_grow p st k n : Inv p st -> Inv p (grow_writer st k n).
  Proof.
    intros [HR Hw]. split; [exact HR|]. unfold wf, grow_writer. cbn.
    apply Forall_upd_nth; [|exact Hw]. intros a Ha. exact Ha.
  Qed.

  Lemma get_writer_wf p st k w : wf p st -> get_writer st k = Some w -> In (uw0 w, uw1 w) (r_ws p).
  Proof.
    unfold wf, get_writer. intros Hw G. apply nth_error_In in G.
    rewrite Forall_forall in Hw. now apply Hw.
  Qed.

  Lemma sim_writer_op st k w mk fin p :
    Inv p st -> In (uw0 w, uw1 w) (r_ws p) ->
    (forall q wa wb, In (wa, wb) (r_ws q) -> op_rel q (mk wa) (mk wb)) ->
    (forall q st2 r, Inv q st2 -> Inv q (fst (fin st2 r))) ->
    exists p', ren_incl p p' /\ Inv p' (fst (writer_op step0 step1 st k w mk fin)).
  Proof.
    intros HI Hin Hmk Hfin. unfold writer_op. rewrite both_eq.
    destruct (both_sim p st _ _ HI (Hmk p _ _ Hin)) as (p' & I & HI' & _).
    exists p'. split; [exact I|]. apply Hfin. exact HI'.
  Qed.

  (* one call through the unifier keeps the members related *)
  Lemma step_sim pol c st o p issued :
    Inv p st -> issued_ok p issued -> resume_ok issued o ->
    exists p', ren_incl p p' /\ Inv p' (fst (ustep pol c st o))
               /\ issued_ok p' (issue issued o (snd (ustep pol c st o))).
  Proof.
    intros HI Hiss Hres.
    assert (Done : forall q, (exists p', ren_incl p p' /\ Inv p' q) ->
                   issue issued o (snd (ustep pol c st o)) = issued ->
                   exists p', ren_incl p p' /\ Inv p' q
                              /\ issued_ok p' (issue issued o (snd (ustep pol c st o)))).
    { intros q (p' & I & HI') ->. exists p'. split; [exact I|]. split; [exact HI'|].
      eapply issued_ok_incl; eauto. }
    assert (Same : exists p', ren_incl p p' /\ Inv p' st) by (exists p; split; [apply ren_incl_refl | exact HI]).
    assert (Plain : forall o', is_plain o' = true ->
                    exists p', ren_incl p p' /\ Inv p' (after_both step0 step1 st o' o')).
    { intros o' Hpl. destruct (sim_both_plain st o' p Hpl HI) as (p' & I & HI' & _). eauto. }
    destruct o; try (apply Done; [|reflexivity]).
    - rewrite ustep_digest_read by reflexivity. now apply sim_run_read.
    - rewrite ustep_digest_read by reflexivity. now apply sim_run_read.
    - rewrite ustep_digest_read by reflexivity. now apply sim_run_read.
    - cbn [Unify.ustep]. unfold tag_read. rewrite both_eq. cbn [fst]. now apply Plain.
    - rewrite ustep_digest_read by reflexivity. now apply sim_run_read.
    - rewrite ustep_digest_read by reflexivity. now apply sim_run_read.
    - cbn [Unify.ustep]. unfold tag_read. rewrite both_eq. cbn [fst]. now apply Plain.
    - cbn [Unify.ustep]. now apply sim_push_blob.
    - cbn [Unify.ustep]. now apply sim_push_chunked.
    - cbn [Unify.ustep]. eapply sim_push_resume; eauto.
    - cbn [Unify.ustep]. rewrite both_eq. cbn [fst]. now apply Plain.
    - cbn [Unify.ustep]. unfold push_manifest. rewrite both_eq. cbn [fst]. now apply Plain.
    - cbn [Unify.ustep]. rewrite both_eq. cbn [fst]. now apply Plain.
    - cbn [Unify.ustep]. rewrite both_eq. cbn [fst]. now apply Plain.
    - cbn [Unify.ustep]. rewrite both_eq. cbn [fst]. now apply Plain.
    - cbn [Unify.ustep]. rewrite both_eq. cbn [fst]. now apply Plain.
    - cbn [Unify.ustep]. rewrite both_eq. cbn [fst]. now apply Plain.
    - cbn [Unify.ustep]. rewrite both_eq. cbn [fst]. now apply Plain.
    - (* Write *)
      cbn [Unify.ustep]. destruct (get_writer st w) as [uw|] eqn:G; [|exact Same].
      apply sim_writer_op;
        [ exact HI | eapply get_writer_wf; eauto; apply HI | intros q wa wb Hin; cbn; auto | ].
      intros q st2 r HI2. destruct r; cbn [fst]; auto. now apply Inv_grow.
    - (* Close *)
      cbn [Unify.ustep]. destruct (get_writer st w) as [uw|] eqn:G; [|exact Same].
      apply sim_writer_op;
        [ exact HI | eapply get_writer_wf; eauto; apply HI | intros q wa wb Hin; cbn; auto
        | intros q st2 r HI2; cbn [fst]; exact HI2 ].
    - (* Size *)
      cbn [Unify.ustep]. destruct (get_writer st w) as [uw|] eqn:G; exact Same.
    - (* ChunkSize *)
      cbn [Unify.ustep]. destruct (get_writer st w) as [uw|] eqn:G; [|exact Same].
      rewrite both_eq. cbn [fst].
      assert (Hop : op_rel p (WChunkSize (uw0 uw)) (WChunkSize (uw1 uw))).
      { cbn. eapply get_writer_wf; eauto. apply HI. }
      destruct (both_sim p st _ _ HI Hop) as (p' & I & HI' & _). eauto.
    - (* ID: the composite handed out encodes a related pair *)
      cbn [Unify.ustep]. destruct (get_writer st w) as [uw|] eqn:G.
      2:{ cbn [fst snd issue]. exists p. split; [apply ren_incl_refl|]. split; [exact HI | exact Hiss]. }
      rewrite both_eq. cbn [fst snd].
      assert (Hop : op_rel p (WID (uw0 uw)) (WID (uw1 uw))).
      { cbn. eapply get_writer_wf; eauto. apply HI. }
      destruct (both_sim p st _ _ HI Hop) as (p' & I & HI' & Hr).
      exists p'. split; [exact I|]. split; [exact HI'|].
      pose proof (H_idok0 (u_b0 st) (uw0 uw)) as K0. pose proof (H_idok1 (u_b1 st) (uw1 uw)) as K1.
      fold (ans0 st (WID (uw0 uw))) in K0. fold (ans1 st (WID (uw1 uw))) in K1.
      destruct (ans0 st (WID (uw0 uw))) as [[]| | |] eqn:E0;
        destruct (ans1 st (WID (uw1 uw))) as [[]| | |] eqn:E1;
        cbn in Hr; try contradiction; try discriminate;
        cbn [issue both_results];
        try (eapply issued_ok_incl; eauto; fail).
      intros id [<-|Hid].
      + exists s, s0. repeat split; auto.
      + destruct (Hiss id Hid) as (a & b & E & Hab & Ha & Hb). exists a, b. repeat split; auto. now apply I.
    - (* Commit *)
      cbn [Unify.ustep]. destruct (get_writer st w) as [uw|] eqn:G; [|exact Same].
      apply sim_writer_op;
        [ exact HI | eapply get_writer_wf; eauto; apply HI | intros q wa wb Hin; cbn; auto
        | intros q st2 r HI2; cbn [fst]; exact HI2 ].
    - (* Cancel *)
      cbn [Unify.ustep]. destruct (get_writer st w) as [uw|] eqn:G; [|exact Same].
      apply sim_writer_op;
        [ exact HI | eapply get_writer_wf; eauto; apply HI | intros q wa wb Hin; cbn; auto
        | intros q st2 r HI2; cbn [fst]; exact HI2 ].
  Qed.

  (* equal_stay_equal: along every history through the unifier - either policy, any
     schedule, chunked uploads resumed with the IDs the unifier handed out - the members
     stay related, every paired writer pairs related member writers, and every composite
     ID handed out is the encoding of the two members' own (related) IDs *)
  Lemma equal_stay_equal pol h : forall st p issued,
    Inv p st -> issued_ok p issued -> closed_loop pol issued st h ->
    exists p', ren_incl p p' /\ Inv p' (fst (urun pol st h)).
  Proof.
    induction h as [|[c o] h IH]; intros st p issued HI Hiss Hcl.
    - exists p. split; [apply ren_incl_refl | exact HI].
    - cbn [closed_loop] in Hcl. destruct Hcl as [Hr Hcl].
      destruct (step_sim pol c st o p issued HI Hiss Hr) as (p1 & I1 & HI1 & Hiss1).
      cbn [Unify.urun]. destruct (ustep pol c st o) as [st1 r] eqn:E. cbn [fst snd] in *.
      destruct (IH st1 p1 _ HI1 Hiss1 Hcl) as (p2 & I2 & HI2).
      destruct (urun pol st1 h) as [st2 rs]. cbn [fst] in *.
      exists p2. split; [eapply ren_incl_trans; eauto | exact HI2].
  Qed.
  (* the composite IDs handed out along a history *)
  Fixpoint issued_after (pol : policy) (issued : list bytes) (st : ustate) (h : list (choice * op)) : list bytes :=
    match h with
    | [] => issued
    | (c, o) :: h' => issued_after pol (issue issued o (snd (ustep pol c st o))) (fst (ustep pol c st o)) h'
    end.

  (* ... and every composite ID handed out along the way decodes to the two members' own
     IDs of one and the same upload *)
  Lemma equal_stay_equal_ids pol h : forall st p issued,
    Inv p st -> issued_ok p issued -> closed_loop pol issued st h ->
    exists p', ren_incl p p' /\ Inv p' (fst (urun pol st h))
               /\ issued_ok p' (issued_after pol issued st h)
               /\ forall id, In id (issued_after pol issued st h) ->
                    exists a b, iddec id = Some [a; b] /\ In (a, b) (r_ids p').
  Proof.
    induction h as [|[c o] h IH]; intros st p issued HI Hiss Hcl.
    - exists p. split; [apply ren_incl_refl|]. split; [exact HI|]. split; [exact Hiss|].
      intros id Hid. destruct (Hiss id Hid) as (a & b & -> & Hab & Ha & Hb).
      exists a, b. split; [now apply H_codec | exact Hab].
    - cbn [closed_loop] in Hcl. destruct Hcl as [Hr Hcl].
      destruct (step_sim pol c st o p issued HI Hiss Hr) as (p1 & I1 & HI1 & Hiss1).
      cbn [Unify.urun issued_after]. destruct (ustep pol c st o) as [st1 r] eqn:E. cbn [fst snd] in *.
      destruct (IH st1 p1 _ HI1 Hiss1 Hcl) as (p2 & I2 & HI2 & Hiss2 & Hdec).
      destruct (urun pol st1 h) as [st2 rs]. cbn [fst] in *.
      exists p2. split; [eapply ren_incl_trans; eauto|]. split; [exact HI2|]. split; [exact Hiss2 | exact Hdec].
  Qed.
End EqualStayEqual.

(* ---------- union listings ---------- *)

Section Listings.
  Context {B0 B1 : Type}.
  Variable step0 : registry B0.
  Variable step1 : registry B1.
  Variable idenc : bytes -> bytes -> bytes.
  Variable iddec : bytes -> option (list bytes).
  Notation ustate := (ustate B0 B1).
  Notation ustep := (ustep step0 step1 idenc iddec).
  Notation ans0 := (ans0 step0).
  Notation ans1 := (ans1 step1).

  Definition is_string_listing (o : op) : bool :=
    match o with Repositories _ | Tags _ _ => true | _ => false end.

  (* union_listings, repositories and tags: the items are THE strictly ascending
     duplicate-free list of the union of what the members list (for members that list in
     ascending order: the two-way merge); a repository unknown to one member counts as
     that member's empty listing, unknown to both it is unknown; any other member error
     ends the listing, after the items *)
  Lemma union_listings_strings pol c st o :
    is_string_listing o = true -> proper (ans0 st o) -> proper (ans1 st o) ->
    let xs0 := fst (as_strings (ans0 st o)) in let e0 := snd (as_strings (ans0 st o)) in
    let xs1 := fst (as_strings (ans1 st o)) in let e1 := snd (as_strings (ans1 st o)) in
    exists xs, snd (ustep pol c st o) = Ok (RList xs (merged_err e0 e1))
      /\ if not_found e0 && not_found e1 then xs = []
         else ssorted xs /\ (forall a, In a xs <-> In a xs0 \/ In a xs1)
              /\ (ssorted xs0 -> ssorted xs1 -> xs = smerge xs0 xs1).
  Proof.
    intros Ho P0 P1. cbv zeta.
    assert (Ho' : match o with Repositories _ | Tags _ _ => True | _ => False end)
      by (destruct o; try discriminate; exact I).
    rewrite (ustep_list_strings step0 step1 idenc iddec pol c st o Ho').
    unfold merge_strings.
    assert (N0 : is_panicky (ans0 st o) = false) by (destruct (ans0 st o); cbn in *; tauto).
    assert (N1 : is_panicky (ans1 st o) = false) by (destruct (ans1 st o); cbn in *; tauto).
    rewrite N0, N1.
    destruct (as_strings (ans0 st o)) as [xs0 e0]. destruct (as_strings (ans1 st o)) as [xs1 e1].
    cbn [fst snd].
    pose proof (merge_iter_items_eq (fun a : bytes => a) xs0 e0 xs1 e1) as I.
    pose proof (merge_iter_err_eq (fun a : bytes => a) xs0 e0 xs1 e1) as E.
    destruct (merge_iter _ xs0 e0 xs1 e1) as [xs e]. cbn [fst snd] in I, E. subst xs e.
    eexists. split; [reflexivity|].
    destruct (not_found e0 && not_found e1); [reflexivity|].
    destruct (merged_strings_spec xs0 xs1) as [S In']. split; [exact S|]. split; [exact In'|].
    apply merged_is_smerge.
  Qed.

  (* union_listings, referrers: strictly ascending by digest (so no digest twice), every
     item is an item of a member, every digest a member lists is listed *)
  Lemma union_listings_descs pol c st r d a :
    let o := Referrers r d a in
    proper (ans0 st o) -> proper (ans1 st o) ->
    let xs0 := fst (as_descs (ans0 st o)) in let e0 := snd (as_descs (ans0 st o)) in
    let xs1 := fst (as_descs (ans1 st o)) in let e1 := snd (as_descs (ans1 st o)) in
    exists xs, snd (ustep pol c st o) = Ok (RDescs xs (merged_err e0 e1))
      /\ if not_found e0 && not_found e1 then xs = []
         else StronglySorted (fun x y => blt (d_digest x) (d_digest y)) xs
              /\ (forall x, In x xs -> In x xs0 \/ In x xs1)
              /\ (forall x, In x xs0 \/ In x xs1 -> exists y, In y xs /\ d_digest y = d_digest x).
  Proof.
    cbv zeta. intros P0 P1.
    rewrite (ustep_list_descs step0 step1 idenc iddec pol c st r d a).
    unfold merge_descs.
    set (o := Referrers r d a) in *.
    assert (N0 : is_panicky (ans0 st o) = false) by (destruct (ans0 st o); cbn in *; tauto).
    assert (N1 : is_panicky (ans1 st o) = false) by (destruct (ans1 st o); cbn in *; tauto).
    rewrite N0, N1.
    destruct (as_descs (ans0 st o)) as [xs0 e0]. destruct (as_descs (ans1 st o)) as [xs1 e1].
    cbn [fst snd].
    pose proof (merge_iter_items_eq d_digest xs0 e0 xs1 e1) as I.
    pose proof (merge_iter_err_eq d_digest xs0 e0 xs1 e1) as E.
    destruct (merge_iter _ xs0 e0 xs1 e1) as [xs e]. cbn [fst snd] in I, E. subst xs e.
    eexists. split; [reflexivity|].
    destruct (not_found e0 && not_found e1); [reflexivity|].
    exact (merged_spec d_digest xs0 xs1).
  Qed.
End Listings.

(* ---------- further facts about one step (used by Obs/C15.corr_sound and Props/C15) ---------- *)

Section StepFacts.
  Context {B0 B1 : Type}.
  Variable step0 : registry B0.
  Variable step1 : registry B1.
  Variable idenc : bytes -> bytes -> bytes.
  Variable iddec : bytes -> option (list bytes).
  Notation ustate := (ustate B0 B1).
  Notation ustep := (ustep step0 step1 idenc iddec).
  Notation ans0 := (ans0 step0).
  Notation ans1 := (ans1 step1).

  Lemma upd_nth_length {A} i (f : A -> A) l : length (upd_nth i f l) = length l.
  Proof. revert i; induction l as [|a l IH]; intros [|i]; cbn; auto. Qed.

  Definition creates_writer (o : op) (r : result) : bool :=
    match o, r with
    | PushBlobChunked _ _, Ok (RWriter _) | PushBlobChunkedResume _ _ _ _, Ok (RWriter _) => true
    | _, _ => false
    end.

  Ltac rc := rewrite ?both_eq, ?call0_eq, ?call1_eq; cbn [fst snd after_both u_log0 u_log1 u_b0 u_b1 u_ws].

  Lemma ustep_ws_length pol c st o :
    length (u_ws (fst (ustep pol c st o))) =
      if creates_writer o (snd (ustep pol c st o)) then S (length (u_ws st)) else length (u_ws st).
  Proof.
    destruct o; cbn [Unify.ustep].
    1-3,5-6: (unfold run_read; destruct pol; rc;
         [destruct (ans0 st _); rc; reflexivity | reflexivity]).
    1-2: (unfold tag_read; rc; reflexivity).
    - unfold push_blob; rc. reflexivity.
    - unfold push_chunked; rc.
      destruct (ans0 st _) as [[]| | |]; destruct (ans1 st _) as [[]| | |];
        unfold close0, close1, add_writer; rc; cbn; rewrite ?app_length; cbn; try lia; reflexivity.
    - unfold push_resume. destruct (iddec id) as [[|a [|b [|? ?]]]|]; try reflexivity. rc.
      destruct (ans0 st _) as [[]| | |]; destruct (ans1 st _) as [[]| | |];
        unfold close0, close1, add_writer; rc; cbn;
        try match goal with |- context [Z.eqb ?x ?y] => destruct (Z.eqb x y) end;
        unfold close0, close1, add_writer; rc; cbn; rewrite ?app_length; cbn; try lia; reflexivity.
    - rc. reflexivity.
    - unfold push_manifest; rc. reflexivity.
    - rc; reflexivity.
    - rc; reflexivity.
    - rc; reflexivity.
    - rc; reflexivity.
    - rc; reflexivity.
    - rc; reflexivity.
    - destruct (get_writer st w); [|reflexivity]. unfold writer_op; rc.
      destruct (both_results _ _); cbn; rewrite ?upd_nth_length; reflexivity.
    - destruct (get_writer st w); [|reflexivity]. unfold writer_op; rc. reflexivity.
    - destruct (get_writer st w); reflexivity.
    - destruct (get_writer st w); [|reflexivity]. rc. reflexivity.
    - destruct (get_writer st w); [|reflexivity]. rc. reflexivity.
    - destruct (get_writer st w); [|reflexivity]. unfold writer_op; rc. reflexivity.
    - destruct (get_writer st w); [|reflexivity]. unfold writer_op; rc. reflexivity.
  Qed.

  (* calls that are exactly one call on each member *)
  Definition is_direct_write (o : op) : bool :=
    match o with
    | PushBlob _ _ _ | PushManifest _ _ _ _ | MountBlob _ _ _ | DeleteBlob _ _ | DeleteManifest _ _
    | DeleteTag _ _ | WWrite _ _ | WClose _ | WCancel _ | WCommit _ _ => true
    | _ => false
    end.

  Lemma both_results_ok_intro' r0 r1 : is_ok r0 = true -> is_ok r1 = true -> is_ok (both_results r0 r1) = true.
  Proof. destruct r0, r1; cbn; try discriminate; auto. Qed.
  Lemma same_outcome_ok_intro' ra rb : is_ok ra = true -> is_ok rb = true -> is_ok (same_outcome ra rb) = true.
  Proof. destruct ra, rb; cbn; try discriminate; auto. Qed.

  (* ... and conversely: when both member calls succeed the unifier reports success *)
  Lemma writes_converse pol c st o o0 o1 :
    uncut c -> is_direct_write o = true ->
    member_op iddec false st o = Some o0 -> member_op iddec true st o = Some o1 ->
    is_ok (ans0 st o0) = true -> is_ok (ans1 st o1) = true ->
    is_ok (snd (ustep pol c st o)) = true.
  Proof.
    intros [U0 U1] Hd M0 M1 K0 K1.
    destruct o; cbn in Hd; try discriminate; cbn in M0, M1.
    - injection M0 as <-. injection M1 as <-. cbn [Unify.ustep]. unfold push_blob. rewrite U0, U1. rc.
      destruct (c_first1 c); apply same_outcome_ok_intro'; auto.
    - injection M0 as <-. injection M1 as <-. cbn [Unify.ustep]. rc. now apply both_results_ok_intro'.
    - injection M0 as <-. injection M1 as <-. cbn [Unify.ustep]. unfold push_manifest. rc. now apply same_outcome_ok_intro'.
    - injection M0 as <-. injection M1 as <-. cbn [Unify.ustep]. rc. now apply both_results_ok_intro'.
    - injection M0 as <-. injection M1 as <-. cbn [Unify.ustep]. rc. now apply both_results_ok_intro'.
    - injection M0 as <-. injection M1 as <-. cbn [Unify.ustep]. rc. now apply both_results_ok_intro'.
    - destruct (get_writer st w) as [uw|] eqn:G; cbn in M0, M1; try discriminate.
      injection M0 as <-. injection M1 as <-. cbn [pick] in *.
      cbn [Unify.ustep]. rewrite G. unfold writer_op. rc.
      pose proof (both_results_ok_intro' _ _ K0 K1) as H. destruct (both_results _ _); try discriminate. reflexivity.
    - destruct (get_writer st w) as [uw|] eqn:G; cbn in M0, M1; try discriminate.
      injection M0 as <-. injection M1 as <-. cbn [pick] in *.
      cbn [Unify.ustep]. rewrite G. unfold writer_op. rc.
      pose proof (both_results_ok_intro' _ _ K0 K1) as H. destruct (both_results _ _); try discriminate. reflexivity.
    - destruct (get_writer st w) as [uw|] eqn:G; cbn in M0, M1; try discriminate.
      injection M0 as <-. injection M1 as <-. cbn [pick] in *.
      cbn [Unify.ustep]. rewrite G. unfold writer_op. rc. now apply both_results_ok_intro'.
    - destruct (get_writer st w) as [uw|] eqn:G; cbn in M0, M1; try discriminate.
      injection M0 as <-. injection M1 as <-. cbn [pick] in *.
      cbn [Unify.ustep]. rewrite G. unfold writer_op. rc.
      pose proof (both_results_ok_intro' _ _ K0 K1) as H. destruct (both_results _ _); try discriminate. reflexivity.
  Qed.
  (* writes_replicated with the "same arguments" clause spelled out *)
  Lemma writes_replicated_args pol c st o o0 o1 :
    uncut c ->
    member_op iddec false st o = Some o0 -> member_op iddec true st o = Some o1 ->
    let st' := fst (ustep pol c st o) in
    let r := snd (ustep pol c st o) in
    (exists l0, u_log0 st' = l0 ++ o0 :: u_log0 st /\ forallb is_followup l0 = true)
    /\ (exists l1, u_log1 st' = l1 ++ o1 :: u_log1 st /\ forallb is_followup l1 = true)
    /\ (is_ok r = true -> is_ok (ans0 st o0) = true /\ is_ok (ans1 st o1) = true)
    /\ erase o0 = erase o /\ erase o1 = erase o.
  Proof.
    intros U M0 M1.
    destruct (writes_replicated step0 step1 idenc iddec pol c st o o0 o1 U M0 M1) as (A & B & C).
    split; [exact A|]. split; [exact B|]. split; [exact C|].
    split; eapply member_op_same_args; eauto.
  Qed.

  Lemma write_success_iff_both pol c st o o0 o1 :
    uncut c -> is_direct_write o = true ->
    member_op iddec false st o = Some o0 -> member_op iddec true st o = Some o1 ->
    (is_ok (snd (ustep pol c st o)) = true <->
     is_ok (ans0 st o0) = true /\ is_ok (ans1 st o1) = true).
  Proof.
    intros U D M0 M1. split.
    - intros H. now apply (writes_replicated step0 step1 idenc iddec pol c st o o0 o1 U M0 M1).
    - intros [K0 K1]. eapply writes_converse; eauto.
  Qed.

  (* the ID of a paired writer is the encoding of the two members' own IDs, in member
     order; on a codec that round-trips, resume hands each member its own ID *)
  Lemma composite_id pol c st (k : wid) (w : uwriter) (id0 id1 : bytes) :
    get_writer st k = Some w ->
    ans0 st (WID (uw0 w)) = Ok (RStr id0) -> ans1 st (WID (uw1 w)) = Ok (RStr id1) ->
    snd (ustep pol c st (WID k)) = Ok (RStr (idenc id0 id1))
    /\ (iddec (idenc id0 id1) = Some [id0; id1] ->
        forall i r off hint,
          member_op iddec i st (PushBlobChunkedResume r (idenc id0 id1) off hint)
          = Some (PushBlobChunkedResume r (pick i id0 id1) off hint)).
  Proof.
    intros G A0 A1. split.
    - cbn [Unify.ustep]. rewrite G, both_eq. cbn [snd]. now rewrite A0, A1.
    - intros D i r off hint. now apply member_op_resume.
  Qed.
End StepFacts.
