(* Proofs about Model/Auth.v, part 10: clause S2 of C10 - no token request and no extra round
   trip while a usable covering token is cached.  Side conditions, about the run: the clock
   never runs backwards along the history, and asked scopes read back from their text. *)
From Coq Require Import String ZArith Lia.
From OCI Require Import Proofs.Scope Proofs.ScopeAlg Proofs.ScopeOps Proofs.ScopeEval.
From OCI Require Import Base.Outcome Model.Scope Model.Challenge Model.Auth Model.AuthSpec
  Proofs.Challenge Proofs.AuthBase Proofs.AuthShape Proofs.AuthInv Proofs.AuthStep Proofs.AuthTrace
  Proofs.AuthC11 Proofs.AuthC10 Proofs.AuthComp.

Local Open Scope Z_scope.

Section S2.
  Variable E : env.

  (* later moments of the history do not have earlier clock values *)
  Definition clock_mono (h : hist) : Prop :=
    forall p1 p2 h0, h = p1 ++ p2 ++ h0 -> h0 <> [] -> e_clock E h0 <= e_clock E (p2 ++ h0).

  Definition side2 (st : state) : Prop := clock_mono (history st) /\ rt_ok st.

  Lemma side2_back st x : Inv E st -> side2 (step E st x) -> side2 st.
  Proof.
    intros Hinv [Hm Hr]. destruct (step_shape E st x Hinv) as [Hg Hh]. split.
    - destruct Hh as [Heq|[new [_ Heq]]]; [rewrite Heq in Hm; exact Hm|]. rewrite Heq in Hm.
      intros p1 p2 h0 Hp Hn. apply (Hm (new ++ p1) p2 h0); [|exact Hn]. rewrite Hp. now rewrite app_assoc.
    - intros host r sc Hget Hin. destruct (Hg _ _ Hget) as [r' [Hget' Hi]]. apply (Hr host r'); auto.
  Qed.

  Lemma side2_back_run l : forall st, Inv E st -> side2 (fold_left (step E) l st) -> side2 st.
  Proof.
    induction l as [|x l IH]; intros st Hinv Hs; [exact Hs|]. cbn [fold_left] in Hs.
    apply (side2_back st x Hinv). apply IH; [now apply step_Inv | exact Hs].
  Qed.

  Lemma run_all_ok_side2 (ev : event -> hist -> bool) :
    (forall st x new, Inv E st -> Comp E st -> side2 (step E st x) -> shape E st (step E st x) new ->
                      history (step E st x) = new ++ history st ->
                      all_ok ev (history st) = true -> all_ok ev (new ++ history st) = true) ->
    forall l, side2 (run E l) -> all_ok ev (history (run E l)) = true.
  Proof.
    intros Hstep l. unfold run.
    assert (forall st, Inv E st -> Comp E st -> all_ok ev (history st) = true -> side2 (fold_left (step E) l st) ->
                       all_ok ev (history (fold_left (step E) l st)) = true) as H.
    { induction l as [|x l IH]; intros st Hinv Hc Hok Hs; [exact Hok|]. cbn [fold_left] in *.
      assert (Hs1 : side2 (step E st x)) by (apply (side2_back_run l); [now apply step_Inv | exact Hs]).
      apply IH; [now apply step_Inv | now apply step_Comp | | exact Hs].
      destruct (step_shape E st x Hinv) as [_ [Heq|[new [Hsh Heq]]]]; rewrite Heq; [exact Hok|].
      now apply (Hstep st x new). }
    apply H; [apply Inv_init | apply Comp_init | reflexivity].
  Qed.

  Lemma find_none_all {A} (f : A -> bool) l : find f l = None -> forall x, In x l -> f x = false.
  Proof. intros H x Hx. exact (find_none f l H x Hx). Qed.

  (* nothing usable is cached: the heart of S2 *)
  Lemma no_cached st id q st' r1 :
    Inv E st -> Comp E st -> th_get id (threads st) = None ->
    let host := q_host q in
    let h := history st in
    let h0 := EStart id q :: h in
    let r := p1_reg E st host in
    let r0 := delete_expired r (e_clock E h0 + second) in
    r_initerr r = false ->
    access_token_for_scope r0 (q_required q) = None ->
    (forall hs hx, h = hs ++ hx -> hx <> [] -> e_clock E hx <= e_clock E h0) ->
    rt_ok st' -> reg_get host (regs st') = Some r1 -> incl (r_asked r) (r_asked r1) ->
    cached_valid E host (q_required q) (e_clock E h0) None h = false.
  Proof.
    intros Hinv [Cr Cs] Hnone host h h0 r r0 Hie Hacc Hmono Hrt Hg1 Hinc.
    set (T := e_clock E h0) in *. set (R := q_required q) in *.
    pose proof (RI_p1_reg E st host Hinv) as Hri. fold r in Hri. fold h in Hri.
    assert (CIr : CI E host r h).
    { unfold r. destruct (reg_get host (regs st)) as [rx|] eqn:Eg.
      - rewrite (p1_reg_grow E _ _ Hinv _ Eg). now apply Cr.
      - unfold p1_reg. rewrite Eg. cbn [r_inited new_registry]. apply CI_init.
        intros id' q' Hin Hh. apply (Cs id' q' Hin). now rewrite Hh. }
    (* a cached token that lives and covers would have been found *)
    assert (Hnot : forall tok, In tok (r_tokens r) -> T + second <= st_expires tok -> Contains (st_scope tok) R = true -> False).
    { intros tok Hin Hexp Hcon. pose proof (find_none_all _ _ Hacc tok) as Hf. cbn in Hf.
      rewrite Hcon in Hf. assert (true = false); [|discriminate]. apply Hf. apply filter_In. split; [exact Hin|].
      apply negb_true_iff, Z.ltb_ge. exact Hexp. }
    assert (Hdead : forall X, T + second <= X -> Dead E h X -> False).
    { intros X HX [pre [hx [Hp [Hn Hlt]]]]. pose proof (Hmono pre hx Hp Hn). fold T in H. lia. }
    unfold cached_valid. apply orb_false_iff. split.
    - destruct (existsb _ (issues E h)) eqn:Ex; [|reflexivity]. exfalso.
      apply existsb_exists in Ex as [i [Hi Hc]].
      apply andb_true_iff in Hc as [Hc _]. apply andb_true_iff in Hc as [Hc Hcon].
      apply andb_true_iff in Hc as [Hc Hexp]. apply andb_true_iff in Hc as [Hne Hon]. apply Z.leb_le in Hexp.
      destruct (ci_iss _ _ _ _ CIr i Hi Hon Hne) as [[tok [Hin [Htx Hx]]]|Hd]; [|exact (Hdead _ Hexp Hd)].
      apply (Hnot tok Hin); [now rewrite Hx|].
      destruct (ri_tok _ _ _ _ Hri tok Hin) as [[ce [_ [_ ->]]]|[i' [_ [_ [_ [_ [_ [_ Hask]]]]]]]]; [reflexivity|].
      rewrite <- Htx in Hcon. rewrite rt_contains in Hcon; [exact Hcon|].
      apply (Hrt host r1); [exact Hg1 | now apply Hinc].
    - destruct (e_cfg E host) as [ce|] eqn:Ec; [|reflexivity].
      destruct (nonempty (ce_access ce)) eqn:Ene; [|reflexivity]. cbn [andb opt_match]. rewrite andb_true_r.
      destruct (T + second <=? forever) eqn:El; [|reflexivity]. exfalso. apply Z.leb_le in El.
      destruct (ci_cfg _ _ _ _ CIr Hie ce Ec Ene) as [[tok [Hin [Hsc Hx]]]|Hd]; [|exact (Hdead _ El Hd)].
      apply (Hnot tok Hin); [now rewrite Hx | now rewrite Hsc].
  Qed.

  Definition s2_free (e : event) : bool := match e with ESend _ _ _ => false | _ => true end.

  Lemma evS2_free e past : s2_free e = true -> evS2 E e past = true.
  Proof. destruct e; try reflexivity. discriminate. Qed.

  (* a send inside a phase opened by EResume: token messages pass, a registry message needs the challenge *)
  Lemma evS2_resume id m rsp0 new h hdr rsp ch :
    quiets id new -> last_reg id h = Some (hdr, rsp) -> challenge_of rsp = Some ch ->
    evS2 E (ESend id m rsp0) (new ++ EResume id :: h) = true.
  Proof.
    intros Hq Hl Hc. cbn [evS2]. rewrite before_phase_quiets by exact Hq.
    cbn [before_phase is_marker]. rewrite Nat.eqb_refl. destruct (is_tok_msg m); [reflexivity|]. now rewrite Hl, Hc.
  Qed.

  Lemma all_ok_toks_resume id toks h hdr rsp ch :
    tok_sends id toks -> last_reg id h = Some (hdr, rsp) -> challenge_of rsp = Some ch ->
    all_ok (evS2 E) (EResume id :: h) = true -> all_ok (evS2 E) (toks ++ EResume id :: h) = true.
  Proof.
    intros Hts Hl Hc Hok. apply all_ok_app; [exact Hok|]. intros pre e post Hp.
    pose proof (sub_sends _ _ _ _ _ Hts Hp) as Hps.
    unfold tok_sends in Hts. rewrite Forall_forall in Hts.
    destruct (Hts e) as [m [rsp0 [-> _]]]; [rewrite Hp; apply in_or_app; right; now left|].
    eapply evS2_resume; eauto. now apply tok_sends_quiets.
  Qed.

  Lemma all_ok_toks_start id q toks h :
    tok_sends id toks ->
    cached_valid E (q_host q) (q_required q) (e_clock E (EStart id q :: h)) None h = false ->
    all_ok (evS2 E) (EStart id q :: h) = true -> all_ok (evS2 E) (toks ++ EStart id q :: h) = true.
  Proof.
    intros Hts Hcv Hok. apply all_ok_app; [exact Hok|]. intros pre e post Hp.
    pose proof (sub_sends _ _ _ _ _ Hts Hp) as Hps.
    unfold tok_sends in Hts. rewrite Forall_forall in Hts.
    destruct (Hts e) as [m [rsp0 [-> Hm]]]; [rewrite Hp; apply in_or_app; right; now left|].
    cbn [evS2]. rewrite before_phase_quiets by now apply tok_sends_quiets.
    cbn [before_phase is_marker]. rewrite Nat.eqb_refl, Hm, Hcv. reflexivity.
  Qed.

  Lemma step_S2 st x new : Inv E st -> Comp E st -> side2 (step E st x) -> shape E st (step E st x) new ->
    history (step E st x) = new ++ history st ->
    all_ok (evS2 E) (history st) = true -> all_ok (evS2 E) (new ++ history st) = true.
  Proof.
    intros Hinv HC [Hmono Hrt] Hs Hhist Hok. remember (step E st x) as st' eqn:Est'.
    assert (Hm0 : forall id q, (exists pre, history st' = pre ++ EStart id q :: history st) ->
              forall hs hx, history st = hs ++ hx -> hx <> [] -> e_clock E hx <= e_clock E (EStart id q :: history st)).
    { intros id q [pre Hp] hs hx Hh Hn. rewrite Hh. apply (Hmono pre (EStart id q :: hs) hx); [|exact Hn].
      rewrite Hp, Hh. reflexivity. }
    destruct Hs as [id q Hn Hie | id q a toks rsp r1 Hn Hie Hp Hg | id q www toks sc2 res2 e r1 Hn Hie r0 Ha Hb Hrf Hblk Hg
                   | id th rsp res Hth Hpc Hres | id th rsp ch r a toks ta r1 rsp2 Hth Hpc Hch Hg Hp Hg1 Hnb
                   | id th rsp ch r a toks ta r1 Hth Hpc Hch Hg Hp Hg1 Hnb
                   | id th rsp ch r toks sc2 res2 e r1 Hth Hpc Hch Hg Hb Hblk Hg1
                   | id th rsp ta res Hth Hpc Hres | id th www b Hth Hpc].
    - apply (all_ok_by s2_free); [apply evS2_free | | exact Hok].
      constructor; [reflexivity|]. apply Forall_app. split; [destruct (has_body (q_body q)); repeat constructor | repeat constructor].
    - (* first attempt *)
      pose proof (p1_send_sends _ _ _ _ _ _ _ _ Hp) as Hts. pose proof (tok_sends_quiets _ _ Hts) as Hqt.
      assert (Hok0 : all_ok (evS2 E) (EStart id q :: history st) = true) by (cbn [all_ok]; now rewrite Hok).
      assert (Hmono0 : forall hs hx, history st = hs ++ hx -> hx <> [] ->
                                     e_clock E hx <= e_clock E (EStart id q :: history st)).
      { apply Hm0. rewrite Hhist. exists (ESend id (MReg (q_host q) a) rsp :: toks). cbn [app]. now rewrite <- app_assoc. }
      (* a first attempt that carries no bearer token: nothing usable was cached *)
      assert (Hcv : match a with
                    | ABearer _ => True
                    | _ => cached_valid E (q_host q) (q_required q) (e_clock E (EStart id q :: history st)) None (history st) = false
                    end).
      { destruct Hp as [tok Ha | Ha | www u p Ha Hw Hb Hbs | www toks sc2 w r1 Ha Hb Hrf Hblk Hne]; try exact I.
        - destruct (q_auth q); try exact I;
            (eapply no_cached with (st' := st'); eauto; apply incl_refl).
        - eapply no_cached with (st' := st'); eauto. apply incl_refl. }
      cbn [app all_ok]. rewrite <- app_assoc. cbn [app]. apply andb_true_iff. split.
      + cbn [evS2]. rewrite before_phase_quiets by exact Hqt. cbn [before_phase is_marker]. rewrite Nat.eqb_refl.
        cbn [is_tok_msg]. destruct a; try (rewrite Hcv; reflexivity).
        destruct (cached_valid _ _ _ _ _ _); reflexivity.
      + destruct Hp as [tok Ha | Ha | www u p Ha Hw Hb Hbs | www toks sc2 w r1 Ha Hb Hrf Hblk Hne]; try exact Hok0.
        apply all_ok_toks_start; [exact Hts | | exact Hok0].
        eapply no_cached with (st' := st') (r1 := r1); eauto.
        exact (blk_incl _ _ _ _ _ _ _ _ _ _ _ _ Hblk).
    - pose proof (blk_sends _ _ _ _ _ _ _ _ _ _ _ _ Hblk) as Hts.
      assert (Hok0 : all_ok (evS2 E) (EStart id q :: history st) = true) by (cbn [all_ok]; now rewrite Hok).
      cbn [app all_ok]. rewrite <- !app_assoc. cbn [app]. apply andb_true_iff. split; [reflexivity|].
      apply (all_ok_by s2_free); [apply evS2_free | destruct (has_body (q_body q)); repeat constructor|].
      apply all_ok_toks_start; [exact Hts | | exact Hok0].
      eapply no_cached with (st' := st') (r1 := r1); eauto.
      + apply Hm0. rewrite Hhist.
        exists (EReturn id (RetErr None) :: (if has_body (q_body q) then [ESelfClose id] else []) ++ toks).
        cbn [app]. now rewrite <- !app_assoc.
      + exact (blk_incl _ _ _ _ _ _ _ _ _ _ _ _ Hblk).
    - apply (all_ok_by s2_free); [apply evS2_free | repeat constructor | exact Hok].
    - (* second attempt *)
      pose proof (inv_thr _ _ Hinv _ _ Hth) as [Hq Hokt]. rewrite Hpc in Hokt. destruct Hokt as [T1 [T2 [T3 _]]].
      pose proof (p2_send_sends _ _ _ _ _ _ _ _ _ _ Hp) as Hts. pose proof (tok_sends_quiets _ _ Hts) as Hqt.
      destruct (mids_facts _ _ (mids_of_body id (q_body (th_q th)))) as [M1 [M2 M3]].
      assert (Hok1 : all_ok (evS2 E) (EResume id :: history st) = true) by (cbn [all_ok]; now rewrite Hok).
      cbn [app all_ok]. rewrite <- !app_assoc. cbn [app]. apply andb_true_iff. split.
      + rewrite app_assoc. eapply evS2_resume; eauto. now apply quiets_app.
      + apply (all_ok_by s2_free); [apply evS2_free | |].
        { eapply Forall_impl; [|apply (mids_of_body id (q_body (th_q th)))]. intros e0 [->| ->]; reflexivity. }
        eapply all_ok_toks_resume; eauto.
    - pose proof (inv_thr _ _ Hinv _ _ Hth) as [Hq Hokt]. rewrite Hpc in Hokt. destruct Hokt as [T1 [T2 [T3 _]]].
      pose proof (p2_send_sends _ _ _ _ _ _ _ _ _ _ Hp) as Hts.
      assert (Hok1 : all_ok (evS2 E) (EResume id :: history st) = true) by (cbn [all_ok]; now rewrite Hok).
      cbn [app all_ok]. rewrite <- !app_assoc. cbn [app]. eapply all_ok_toks_resume; eauto.
    - pose proof (inv_thr _ _ Hinv _ _ Hth) as [Hq Hokt]. rewrite Hpc in Hokt. destruct Hokt as [T1 [T2 [T3 _]]].
      pose proof (blk_sends _ _ _ _ _ _ _ _ _ _ _ _ Hblk) as Hts.
      assert (Hok1 : all_ok (evS2 E) (EResume id :: history st) = true) by (cbn [all_ok]; now rewrite Hok).
      cbn [app all_ok]. rewrite <- !app_assoc. cbn [app]. eapply all_ok_toks_resume; eauto.
    - apply (all_ok_by s2_free); [apply evS2_free | repeat constructor | exact Hok].
    - apply (all_ok_by s2_free); [apply evS2_free | repeat constructor | exact Hok].
  Qed.

  Theorem S2_holds l : side2 (run E l) -> all_ok (evS2 E) (history (run E l)) = true.
  Proof. apply run_all_ok_side2. intros. eapply step_S2; eauto. Qed.
End S2.
