(* C03 (c), listings, second version.  Proofs/StackListing.v states the pager theorems under the
   hypothesis [enc_small : forall j, blen (enc j) <= max_int64], which the concrete encoder of
   Obs/StackRun.v ([enc0]) does not satisfy (a document can be arbitrarily long), so those
   theorems say nothing about the runner.  Here the same theorems are proved with the bound asked
   only of the page documents the listing at hand produces ([pages_small]); the proofs are those
   of Proofs/StackListing.v otherwise.  General lemmas are taken from there. *)
From Coq Require Import String Sorted.
From OCI Require Import Base.BytesSort Base.Sorted Model.Stack Proofs.Request Proofs.StackBase Proofs.StackDesc Proofs.StackDot.
From OCI Require Import Model.RequestCodecSpec Proofs.RequestCodec Proofs.StackTransparent Proofs.StackQuery.
From OCI Require Import Proofs.StackListing.

Local Open Scope Z_scope.

Section Listing.
  Variable linked : alg -> bool.
  Variable hash : bytes -> bytes -> bytes.
  Variable subject_of : bytes -> option (option bytes).
  Variable media : bytes -> bytes.
  Variable enc : jval -> bytes.
  Variable dec_errors : bytes -> option (list werr).
  Variable dec_names : bool -> bytes -> option (list bytes).
  Variable dec_index : bytes -> option (list desc).
  Variable redirect : bytes -> bytes -> bytes * bytes.
  Variable B : Type.
  Variable bstep : backend B.
  Variable o : opts.
  Variable cc : ccfg.

  Notation serve := (serve_stack linked hash subject_of enc redirect bstep o).
  Notation env := (stack_env linked hash media dec_errors dec_names dec_index).
  Notation shandle := (server_handle linked hash subject_of enc redirect B bstep o).
  Notation W := (world (srv B)).
  Notation client_ := (stack_client cc).

  (* ---- one listing ---- *)
  Variable K : Http.kind.
  Variable repo : bytes.
  Variable mkop : bytes -> op.                  (* the backend call for a start point *)
  Variable mkj : list bytes -> jval.            (* the document for a page *)
  Variable tagsflag : bool.
  Variable R : bytes -> request.                (* what the server's parser returns for a start point *)
  Variable ctail : bytes.                       (* the path after "/v2/" *)

  Definition n : Z := c_page_size client_.
  Definition N : nat := Z.to_nat n.
  Definition q_of (s0 : bytes) : rreq := list_rreq client_ K repo [] s0.
  Definition cpath : bytes := v2 ++ ctail.
  Definition cquery (s0 : bytes) : bytes := lq (dec_Z n) s0.

  Hypothesis HK : K = Http.ReqTagsList \/ K = Http.ReqCatalogList.
  Hypothesis Hsafe : forallb safe ctail = true.
  Hypothesis Hdot : dot_free cpath = true.
  Hypothesis Hconstruct : forall s0, construct (req_of (q_of s0)) = (m_GET, cpath ++ optq (cquery s0)).
  Hypothesis Hparse : forall s0, byte_list s0 = true -> parse_req linked m_GET cpath (cquery s0) = Ok (R s0).
  Hypothesis HR_n : forall s0, q_listn (R s0) = n.
  Hypothesis Hmax : (0 <? o_max_list_page_size o) && (o_max_list_page_size o <? n) = false.
  Hypothesis Hemit : forall bb req s0 b' v items link,
    parse_req linked (hq_method req) (hq_path req) (hq_rawquery req) = Ok (R s0) ->
    bstep bb (mkop s0) = (b', Ok v) ->
    next_list_results o req (R s0) (items_of v, iter_err_of v) = Ok (items, link) ->
    shandle bb req = (b', [ECall (mkop s0) (Ok v)],
                      Ok (mkresp 200 (list_hdrs (enc (mkj items)) link None) (enc (mkj items)) (Some (mkj items)))).
  Hypothesis Hdec : forall items, dec_names tagsflag (enc (mkj items)) = Some items.

  (* the backend: listing does not change it, a listing from one of its items is the rest of the
     listing after that item, and the items can be written into a URL *)
  Variable b : B.
  Variable full : bytes -> list bytes.
  Hypothesis Hback : forall s0, bstep b (mkop s0) = (b, Ok (VList (full s0) None)).
  Hypothesis Hsuffix : forall s0 k x, nth_error (full s0) k = Some x -> full x = skipn (S k) (full s0).
  Hypothesis Hitems : forall s0 x, In x (full s0) -> x <> [] /\ byte_list x = true.

  Lemma n_pos : 1 <= n.
  Proof.
    unfold n, stack_client, new_client. cbn [b_page_default_le0 current c_page_size].
    destruct (Z.leb_spec (cc_page cc) 0); unfold default_list_page_size; lia.
  Qed.

  Lemma N_pos : (1 <= N)%nat.
  Proof. unfold N. pose proof n_pos. lia. Qed.

  Lemma N_n : Z.of_nat N = n.
  Proof. unfold N. pose proof n_pos. lia. Qed.

  Lemma n_digits : digits (dec_Z n).
  Proof. apply dec_digits. pose proof n_pos. lia. Qed.

  Lemma cpath_safe : forallb safe cpath = true.
  Proof. unfold cpath. now rewrite forallb_app, v2_safe, Hsafe. Qed.

  (* url.Parse of what Construct renders for a start point *)
  Lemma page_url s0 : byte_list s0 = true ->
    url_parse_v2 (cpath ++ optq (cquery s0)) = Ok (cpath, cquery s0).
  Proof.
    intros Hb. unfold cpath. rewrite <- app_assoc. apply url_parse_optq; [exact Hsafe|].
    apply lq_qsafe; [exact n_digits | exact Hb].
  Qed.

  Lemma page_construct_ok s0 : byte_list s0 = true -> Stack.construct_ok linked (q_of s0) = true.
  Proof.
    intros Hb. unfold Stack.construct_ok, Construct. rewrite Hconstruct, (page_url s0 Hb), (Hparse s0 Hb). reflexivity.
  Qed.

  (* the request for the page that starts after s0, as doRequest / the pager builds it *)
  Definition page_req (s0 : bytes) : Http.hreq :=
    {| rq_method := kind_method (Http.q_kind (q_of s0)); rq_url := UReq (q_of s0); rq_header := [];
       rq_body := BNil; rq_clen := 0 |}.

  (* [req] asks for the page that starts after [s0] *)
  Definition page_request (req : Http.hreq) (s0 : bytes) : Prop :=
    to_server_req req = Ok (plain_req MGet cpath (cquery s0)) /\ rq_method req = MGet /\ byte_list s0 = true.

  Lemma kind_get : kind_method K = MGet.
  Proof. destruct HK as [-> | ->]; reflexivity. Qed.

  Lemma page_req_request s0 : byte_list s0 = true -> page_request (page_req s0) s0.
  Proof.
    intros Hb. unfold page_request, page_req. cbn [Http.q_kind q_of list_rreq rq_method]. rewrite kind_get.
    split; [|split; [reflexivity | exact Hb]].
    unfold to_server_req. cbn [rq_url interp_url rq_body rq_header rq_method rq_clen].
    change (list_rreq client_ K repo [] s0) with (q_of s0). rewrite Hconstruct. cbn [snd].
    rewrite (page_url s0 Hb). reflexivity.
  Qed.

  Definition page_items (s0 : bytes) : list bytes := firstn N (full s0).
  Definition page_cut (s0 : bytes) : bool := Nat.ltb N (length (full s0)).
  Definition page_link (s0 : bytes) : bytes :=
    if page_cut s0 && negb (o_omit_link o)
    then match rev (page_items s0) with
         | [] => []
         | last :: _ => make_next_link (plain_req MGet cpath (cquery s0)) last
         end
    else [].
  Definition page_resp (s0 : bytes) : Server.hresp :=
    let msg := enc (mkj (page_items s0)) in
    mkresp 200 (list_hdrs msg (page_link s0) None) msg (Some (mkj (page_items s0))).

  (* every page document of this listing is shorter than 2^63 bytes *)
  Hypothesis Hsmall : forall s0, blen (enc (mkj (page_items s0))) <= max_int64.

  Lemma page_next_list s0 :
    next_list_results o (plain_req MGet cpath (cquery s0)) (R s0) (full s0, None)
    = Ok (page_items s0, page_link s0).
  Proof.
    unfold next_list_results. rewrite HR_n, Hmax. rewrite <- N_n, (next_items_page N (full s0) N_pos).
    fold (page_items s0). fold (page_cut s0). unfold page_link.
    destruct (page_cut s0) eqn:Ec; cbn [andb]; [|reflexivity].
    destruct (o_omit_link o); cbn [negb]; [reflexivity|].
    unfold page_cut in Ec. apply Nat.ltb_lt in Ec.
    destruct (firstn_last (full s0) N) as (x & rest & E & _); [pose proof N_pos; lia|].
    unfold page_items. rewrite E. reflexivity.
  Qed.

  (* one page: the exchange, and the names the client reads from it *)
  Lemma page_exchange req s0 (w : W) :
    page_request req s0 -> sv_b (w_srv w) = b ->
    client_do (srv B) serve env req [] w
    = (logged B w req (page_resp s0) (after B (w_srv w) b [ECall (mkop s0) (Ok (VList (full s0) None))]),
       Ok (got B w req (page_resp s0))).
  Proof.
    intros (Hts & Hm & Hbl) Hb.
    rewrite (client_do_stack linked hash subject_of media enc dec_errors dec_names dec_index redirect B bstep o
               req [] w _ b [ECall (mkop s0) (Ok (VList (full s0) None))] (page_resp s0) Hts).
    - reflexivity.
    - rewrite Hb. apply (Hemit b (plain_req MGet cpath (cquery s0)) s0 b (VList (full s0) None));
        [exact (Hparse s0 Hbl) | apply Hback|].
      cbn [items_of iter_err_of]. apply page_next_list.
    - reflexivity.
  Qed.

  Lemma page_names req s0 (w : W) (w1 : W) :
    rq_method req = MGet ->
    exists w2, parse_names (srv B) env tagsflag (got B w req (page_resp s0)) w1 = (w2, Ok (page_items s0))
               /\ w_srv w2 = w_srv w1.
  Proof.
    intros Hm. unfold parse_names, read_all, got. rewrite Hm. cbn [hr_rest hr_rs hr_idx].
    rewrite (of_server_resp_get_full (page_resp s0) eq_refl (list_declared _ _ _ (Hsmall s0))).
    cbn [rs_body b_data b_fail page_resp p_body e_json_names stack_env]. rewrite Hdec.
    eexists. split; reflexivity.
  Qed.

  (* ---- finding the next page ---- *)
  Variable start : bytes.

  Lemma with_last_q_of last : with_last last (q_of start) = q_of last.
  Proof. reflexivity. Qed.

  Lemma page_link_header req s0 (w : W) :
    rheader h_link (got B w req (page_resp s0)) = page_link s0.
  Proof.
    unfold rheader, got. cbn [hr_rs]. rewrite rs_header_of_server_resp. cbn [page_resp p_hdrs].
    unfold list_hdrs. destruct (page_link s0) as [|c0 l0]; hdrs; reflexivity.
  Qed.

  (* no Link header: the client sets "last" on its initial request *)
  Lemma next_by_last req s0 (w : W) last :
    page_link s0 = [] -> byte_list last = true ->
    next_link env (got B w req (page_resp s0)) (q_of start) last = Ok (page_req last).
  Proof.
    intros Hl Hb. unfold next_link. rewrite page_link_header, Hl, with_last_q_of.
    cbn [e_construct_ok stack_env]. rewrite (page_construct_ok last Hb). reflexivity.
  Qed.

  (* a Link header: its URL is the URL Construct would render for the next start point *)
  Lemma link_text s0 last : byte_list s0 = true -> last <> [] ->
    make_next_link (plain_req MGet cpath (cquery s0)) last
    = 60%N :: (cpath ++ 63%N :: cquery last) ++ s ">;rel=""next""".
  Proof.
    intros Hb Hne. unfold make_next_link. cbn [hq_path hq_rawquery plain_req].
    rewrite (path_escape_safe cpath cpath_safe).
    unfold cquery at 1. rewrite (lq_parse (dec_Z n) s0 n_digits Hb). cbn [fst].
    change (s "last") with k_last. rewrite (lq_set_last (dec_Z n) s0 last Hne), (lq_encode _ _ n_digits).
    fold (cquery last). rewrite <- app_assoc. reflexivity.
  Qed.

  Lemma next_by_link req s0 (w : W) last :
    page_link s0 = make_next_link (plain_req MGet cpath (cquery s0)) last ->
    byte_list s0 = true -> last <> [] -> byte_list last = true ->
    exists req', next_link env (got B w req (page_resp s0)) (q_of start) last = Ok req'
                 /\ page_request req' last.
  Proof.
    intros Hl Hb0 Hne Hb. unfold next_link. rewrite page_link_header, Hl, (link_text s0 last Hb0 Hne).
    change (60 =? 60)%N with true. cbn [negb].
    set (u := cpath ++ 63%N :: cquery last).
    assert (H62 : ~ In 62%N u).
    { unfold u. intros Hi. apply in_app_or in Hi as [Hi|[Hi|Hi]].
      - apply (safe_chars _ _ cpath_safe) in Hi. lia.
      - discriminate.
      - apply (lq_chars _ _ _ n_digits Hb) in Hi. lia. }
    change (s ">;rel=""next""") with (62%N :: s ";rel=""next""").
    rewrite (Proofs.Server.cut_byte_app' 62%N u _ H62).
    assert (Hu : url_parse_v2 u = Ok (cpath, cquery last)).
    { pose proof (page_url last Hb) as P. unfold optq in P.
      destruct (cquery last) eqn:E; [exfalso; revert E; apply lq_nonempty|]. exact P. }
    cbn [e_url_ok stack_env]. unfold url_ok. rewrite Hu.
    eexists. split; [reflexivity|]. unfold page_request, get_request. cbn [rq_method]. split; [|split; [reflexivity | exact Hb]].
    unfold to_server_req. cbn [rq_url interp_url rq_body rq_header rq_clen rq_method].
    assert (Hrp : ref_escaped_path u = cpath).
    { unfold ref_escaped_path, cut_or_all.
      assert (H35 : ~ In 35%N u).
      { unfold u. intros Hi. apply in_app_or in Hi as [Hi|[Hi|Hi]].
        - apply (safe_chars _ _ cpath_safe) in Hi. lia.
        - discriminate.
        - apply (lq_chars _ _ _ n_digits Hb) in Hi. lia. }
      rewrite (cut_byte_absent 35%N u H35). cbn [fst]. unfold u.
      rewrite (Proofs.Server.cut_byte_app' 63%N cpath (cquery last)); [reflexivity|].
      intros Hi. apply (safe_chars _ _ cpath_safe) in Hi. lia. }
    rewrite Hrp, Hdot, Hu. reflexivity.
  Qed.

  Lemma page_last_ok s0 last : nth_error (full s0) (N - 1) = Some last -> last <> [] /\ byte_list last = true.
  Proof. intros H. apply (Hitems s0). eapply nth_error_In; eauto. Qed.

  (* whichever mechanism applies, the next request asks for the page after [last] *)
  Lemma next_page req s0 (w : W) last :
    page_request req s0 -> (N <= length (full s0))%nat -> nth_error (full s0) (N - 1) = Some last ->
    exists req', next_link env (got B w req (page_resp s0)) (q_of start) last = Ok req' /\ page_request req' last.
  Proof.
    intros (_ & _ & Hb0) Hge Hnth. destruct (page_last_ok s0 last Hnth) as [Hne Hb].
    destruct (firstn_last (full s0) N) as (x & rest & Erev & Hn'); [pose proof N_pos; lia|].
    rewrite Hnth in Hn'. injection Hn' as <-.
    destruct (page_cut s0 && negb (o_omit_link o)) eqn:Ec.
    - apply next_by_link; try assumption. unfold page_link. rewrite Ec. fold (page_items s0) in Erev.
      rewrite Erev. reflexivity.
    - exists (page_req last). split; [|apply page_req_request; exact Hb].
      apply next_by_last; [|exact Hb]. unfold page_link. now rewrite Ec.
  Qed.

  (* the backend events of a listing from s0: one call per page *)
  Fixpoint page_events (fuel : nat) (s0 : bytes) : list ev :=
    match fuel with
    | O => []
    | S f =>
        ECall (mkop s0) (Ok (VList (full s0) None))
        :: match nth_error (full s0) (N - 1) with
           | Some last => page_events f last
           | None => []
           end
    end.

  Lemma page_events_calls fuel : forall s0,
    exists starts, page_events fuel s0 = map (fun s1 => ECall (mkop s1) (Ok (VList (full s1) None))) starts.
  Proof.
    induction fuel as [|fuel IH]; intros s0; cbn [page_events]; [exists []; reflexivity|].
    destruct (nth_error (full s0) (N - 1)) as [last|].
    - destruct (IH last) as (st & E). exists (s0 :: st). cbn [map]. now rewrite E.
    - exists [s0]. reflexivity.
  Qed.

  Lemma pager_loop_ok : forall fuel req s0 acc (w : W),
    (length (full s0) < fuel)%nat ->
    page_request req s0 -> sv_b (w_srv w) = b ->
    exists w',
      pager_loop (srv B) serve env fuel tagsflag (q_of start) req None acc w
      = (w', (acc ++ map inl (full s0), PDone))
      /\ w_srv w' = after B (w_srv w) b (page_events fuel s0).
  Proof.
    induction fuel as [|fuel IH]; intros req s0 acc w Hf Hpr Hb; [lia|].
    cbn [pager_loop]. rewrite (page_exchange req s0 w Hpr Hb).
    pose proof Hpr as (Hts & Hm & Hbl).
    match goal with |- context [parse_names (srv B) env tagsflag ?r ?w1] =>
      destruct (page_names req s0 w w1 Hm) as (w2 & E2 & Hw2) end.
    rewrite E2. rewrite yield_all. cbn [negb].
    change (Http.q_n (q_of start)) with n. rewrite <- N_n.
    destruct (Nat.lt_ge_cases (length (full s0)) N) as [Hlt|Hge].
    - (* the last page *)
      assert (Hall : page_items s0 = full s0) by (unfold page_items; apply firstn_all2; lia).
      rewrite Hall. destruct (Z.ltb_spec (Z.of_nat (length (full s0))) (Z.of_nat N)); [|lia].
      eexists. split; [reflexivity|]. rewrite Hw2. cbn [w_srv logged page_events].
      rewrite (proj2 (nth_error_None (full s0) (N - 1))) by (pose proof N_pos; lia). reflexivity.
    - assert (Hlen : length (page_items s0) = N) by (unfold page_items; apply firstn_length_le; exact Hge).
      rewrite Hlen. rewrite Z.ltb_irrefl.
      destruct (firstn_last (full s0) N) as (last & rest & Erev & Hnth); [pose proof N_pos; lia|].
      unfold last_item. fold (page_items s0) in Erev. rewrite Erev.
      destruct (next_page req s0 w last Hpr Hge Hnth) as (req' & En & Hpr').
      rewrite En.
      assert (Hfull : full last = skipn N (full s0)).
      { rewrite (Hsuffix s0 (N - 1) last Hnth). f_equal. pose proof N_pos. lia. }
      destruct (IH req' last (acc ++ map inl (page_items s0)) w2) as (w' & E & Hw').
      + rewrite Hfull, skipn_length. pose proof N_pos. lia.
      + exact Hpr'.
      + rewrite Hw2. reflexivity.
      + rewrite E. eexists. split.
        * f_equal. f_equal. rewrite <- app_assoc, <- map_app, Hfull. unfold page_items.
          now rewrite firstn_skipn.
        * rewrite Hw', Hw2. cbn [w_srv logged page_events]. rewrite Hnth. unfold after.
          cbn [sv_b sv_tr sv_panic sv_outside]. rewrite <- app_assoc. reflexivity.
  Qed.

  (* client.pager, from the caller's start point *)
  Theorem pager_ok (w : W) :
    byte_list start = true -> (length (full start) < cc_fuel cc)%nat -> sv_b (w_srv w) = b ->
    exists w',
      pager (srv B) serve env (cc_fuel cc) tagsflag (q_of start) None w
      = (w', (map inl (full start), PDone))
      /\ w_srv w' = after B (w_srv w) b (page_events (cc_fuel cc) start).
  Proof.
    intros Hbs Hf Hb. unfold pager. cbn [e_construct_ok stack_env]. rewrite (page_construct_ok start Hbs).
    exact (pager_loop_ok (cc_fuel cc) (page_req start) start [] w Hf (page_req_request start Hbs) Hb).
  Qed.

End Listing.

(* ================================================================ Tags and Repositories *)

Section Instances.
  Variable linked : alg -> bool.
  Variable hash : bytes -> bytes -> bytes.
  Variable subject_of : bytes -> option (option bytes).
  Variable media : bytes -> bytes.
  Variable enc : jval -> bytes.
  Variable dec_errors : bytes -> option (list werr).
  Variable dec_names : bool -> bytes -> option (list bytes).
  Variable dec_index : bytes -> option (list desc).
  Variable redirect : bytes -> bytes -> bytes * bytes.
  Variable B : Type.
  Variable bstep : backend B.
  Variable o : opts.
  Variable cc : ccfg.

  Hypothesis json_tags_rt : forall name l, dec_names true (enc (JTags name l)) = Some l.
  Hypothesis json_catalog_rt : forall l, dec_names false (enc (JCatalog l)) = Some l.

  Notation call_ := (stack_call linked hash subject_of media enc dec_errors dec_names dec_index redirect bstep o cc).
  Notation W := (world (srv B)).
  Notation client_ := (stack_client cc).
  Notation nn := (c_page_size client_).

  Notation page_size_ok := (page_size_ok o cc).
  Notation pages_well := (pages_well B bstep).
  Notation nn_pos := (nn_pos cc).

  (* the page documents of a listing are shorter than 2^63 bytes *)
  Definition pages_small (mkj : list bytes -> jval) (full : bytes -> list bytes) : Prop :=
    forall s0, blen (enc (mkj (firstn (Z.to_nat nn) (full s0)))) <= max_int64.

  Theorem transparent_Tags_ok (w : W) repo start full :
    vrepo repo = true -> byte_list start = true -> page_size_ok ->
    pages_well (sv_b (w_srv w)) (Tags repo) full -> pages_small (JTags repo) full ->
    (length (full start) < cc_fuel cc)%nat ->
    exists w',
      call_ (CTags repo start None) w = (w', ONames (map inl (full start)) PDone)
      /\ exists starts, w_srv w' = after B (w_srv w) (sv_b (w_srv w))
                                      (map (fun s0 => ECall (Tags repo s0) (Ok (VList (full s0) None))) starts).
  Proof.
    intros Hr Hbs [Hmax Hnmax] (Hback & Hsuffix & Hitems) Hsm Hf.
    unfold stack_call, Client.run, tags.
    pose proof nn_pos as Hn1.
    assert (Hd : digits (dec_Z nn)) by (apply dec_digits; lia).
    destruct (pager_ok linked hash subject_of media enc dec_errors dec_names dec_index redirect B bstep o cc
                Http.ReqTagsList repo (Tags repo) (JTags repo) true
                (fun s0 => mkreq Request.ReqTagsList repo [] [] [] [] nn s0)
                (repo ++ 47%N :: s "tags" ++ 47%N :: s "list")
                (or_introl eq_refl)) with (b := sv_b (w_srv w)) (full := full) (start := start) (w := w)
      as (w' & E & Hw').
    - rewrite forallb_app, (repo_safe repo Hr). reflexivity.
    - unfold cpath. apply (v2_repo_dot_free repo (47%N :: s "tags" ++ 47%N :: s "list") Hr). reflexivity.
    - intros s0. unfold q_of, list_rreq, req_of, construct. cbn [Request.q_kind kind_of Http.q_kind Http.q_repo
        Http.q_digest Http.q_tag Http.q_from Http.q_upload Http.q_n Http.q_last Request.q_repo].
      f_equal. rewrite list_params_eq, lp_values_lvals by (cbn [q_listn]; lia). cbn [q_listn Request.q_last].
      rewrite (lq_encode _ _ Hd). unfold cpath, cquery, v2, n. rewrite <- !app_assoc. reflexivity.
    - intros s0 Hb0. unfold cpath, cquery, n.
      rewrite (parse_tags linked m_GET repo _ (lparsed (dec_Z nn) s0) nn s0 Hr Hnmax (lq_parse _ _ Hd Hb0)).
      + cbn [negb]. lit_beqb. unfold norm_listn. destruct (Z.ltb_spec nn 0); [lia | reflexivity].
      + rewrite lparsed_n. destruct (Z.leb_spec 0 nn); [reflexivity | lia].
      + apply lparsed_last.
    - reflexivity.
    - exact Hmax.
    - intros bb req s0 b' v items link Hp Hb Hnl.
      exact (emit_tags linked (digest_of hash) subject_of enc redirect B bstep o bb req _ Hp b' v items link eq_refl Hb Hnl).
    - intros items. apply json_tags_rt.
    - exact Hback.
    - exact Hsuffix.
    - exact Hitems.
    - intros s0. apply Hsm.
    - exact Hbs.
    - exact Hf.
    - reflexivity.
    - unfold q_of in E. rewrite E. eexists. split; [reflexivity|]. rewrite Hw'.
      destruct (page_events_calls cc (Tags repo) full (cc_fuel cc) start) as (starts & Es).
      exists starts. rewrite Es. reflexivity.
  Qed.

  Theorem transparent_Repositories_ok (w : W) start full :
    byte_list start = true -> page_size_ok ->
    pages_well (sv_b (w_srv w)) Repositories full -> pages_small JCatalog full ->
    (length (full start) < cc_fuel cc)%nat ->
    exists w',
      call_ (CRepositories start None) w = (w', ONames (map inl (full start)) PDone)
      /\ exists starts, w_srv w' = after B (w_srv w) (sv_b (w_srv w))
                                      (map (fun s0 => ECall (Repositories s0) (Ok (VList (full s0) None))) starts).
  Proof.
    intros Hbs [Hmax Hnmax] (Hback & Hsuffix & Hitems) Hsm Hf.
    unfold stack_call, Client.run, repositories.
    pose proof nn_pos as Hn1.
    assert (Hd : digits (dec_Z nn)) by (apply dec_digits; lia).
    destruct (pager_ok linked hash subject_of media enc dec_errors dec_names dec_index redirect B bstep o cc
                Http.ReqCatalogList [] Repositories JCatalog false
                (fun s0 => mkreq Request.ReqCatalogList [] [] [] [] [] nn s0)
                (s "_catalog")
                (or_intror eq_refl)) with (b := sv_b (w_srv w)) (full := full) (start := start) (w := w)
      as (w' & E & Hw').
    - reflexivity.
    - reflexivity.
    - intros s0. unfold q_of, list_rreq, req_of, construct. cbn [Request.q_kind kind_of Http.q_kind Http.q_repo
        Http.q_digest Http.q_tag Http.q_from Http.q_upload Http.q_n Http.q_last Request.q_repo].
      f_equal. rewrite list_params_eq, lp_values_lvals by (cbn [q_listn]; lia). cbn [q_listn Request.q_last].
      rewrite (lq_encode _ _ Hd). reflexivity.
    - intros s0 Hb0. unfold cpath, cquery, n.
      rewrite (parse_catalog linked _ (lparsed (dec_Z nn) s0) nn s0 Hnmax (lq_parse _ _ Hd Hb0)).
      + unfold norm_listn. destruct (Z.ltb_spec nn 0); [lia | reflexivity].
      + rewrite lparsed_n. destruct (Z.leb_spec 0 nn); [reflexivity | lia].
      + apply lparsed_last.
    - reflexivity.
    - exact Hmax.
    - intros bb req s0 b' v items link Hp Hb Hnl.
      exact (emit_catalog linked (digest_of hash) subject_of enc redirect B bstep o bb req _ Hp b' v items link eq_refl Hb Hnl).
    - intros items. apply json_catalog_rt.
    - exact Hback.
    - exact Hsuffix.
    - exact Hitems.
    - intros s0. apply Hsm.
    - exact Hbs.
    - exact Hf.
    - reflexivity.
    - unfold q_of in E. rewrite E. eexists. split; [reflexivity|]. rewrite Hw'.
      destruct (page_events_calls cc Repositories full (cc_fuel cc) start) as (starts & Es).
      exists starts. rewrite Es. reflexivity.
  Qed.

End Instances.

Print Assumptions pager_ok.
Print Assumptions transparent_Tags_ok.
Print Assumptions transparent_Repositories_ok.

(* ================================================================ Referrers *)

Section ReferrersB.
  Variable linked : alg -> bool.
  Variable hash : bytes -> bytes -> bytes.
  Variable subject_of : bytes -> option (option bytes).
  Variable media : bytes -> bytes.
  Variable enc : jval -> bytes.
  Variable dec_errors : bytes -> option (list werr).
  Variable dec_names : bool -> bytes -> option (list bytes).
  Variable dec_index : bytes -> option (list desc).
  Variable redirect : bytes -> bytes -> bytes * bytes.
  Variable B : Type.
  Variable bstep : backend B.
  Variable o : opts.
  Variable cc : ccfg.

  Hypothesis json_index_rt : forall l, dec_index (enc (JIndex l)) = Some l.

  Notation call_ := (stack_call linked hash subject_of media enc dec_errors dec_names dec_index redirect bstep o cc).
  Notation W := (world (srv B)).
  Notation client_ := (stack_client cc).

  (* Proofs/StackTransparent.v's [transparent_Referrers_ok] with the length bound asked of the
     one document the answer is marshalled into *)
  Theorem transparent_Referrers_ok (w : W) repo dig art budget b' v :
    o_disable_referrers o = false ->
    vrepo repo = true -> vdigest linked dig = true ->
    bstep (sv_b (w_srv w)) (Referrers repo dig []) = (b', Ok v) -> iter_err_of v = None ->
    blen (enc (JIndex (descs_of v))) <= max_int64 ->
    exists w',
      call_ (CReferrers repo dig art budget) w
      = (w', ODescs (map inl (fst (fst (yield_items (descs_of v) budget)))) PDone)
      /\ w_srv w' = after B (w_srv w) b' [ECall (Referrers repo dig []) (Ok v)].
  Proof.
    intros Hdis Hr Hd Hb Hie Hsm. unfold stack_call, Client.run, referrers.
    set (msg := enc (JIndex (descs_of v))) in *.
    rewrite (do_request_stack linked hash subject_of media enc dec_errors dec_names dec_index redirect B bstep o
               (list_rreq client_ Http.ReqReferrersList repo dig []) [] w
               (mkreq Request.ReqReferrersList repo dig [] [] [] (-1) []) b'
               [ECall (Referrers repo dig []) (Ok v)]
               (mkresp 200 (list_hdrs msg [] (Some media_image_index)) msg (Some (JIndex (descs_of v))))).
    2:{ unfold list_rreq.
        change (mkreq Request.ReqReferrersList repo dig [] [] [] (-1) [])
          with (norm (req_of {| Http.q_kind := Http.ReqReferrersList; Http.q_repo := repo; Http.q_digest := dig;
                                Http.q_tag := []; Http.q_from := []; Http.q_upload := [];
                                Http.q_n := c_page_size client_; Http.q_last := [] |})).
        apply codec_of_wf. unfold wf_request.
        cbn [Request.q_kind req_of kind_of Http.q_kind Http.q_repo Http.q_digest Http.q_tag Http.q_from
             Http.q_upload Http.q_n Http.q_last Request.q_repo Request.q_digest Request.q_tag Request.q_from].
        rewrite Hr, Hd. reflexivity. }
    2:{ intros p rawq Hp.
        apply (emit_referrers linked (digest_of hash) subject_of enc redirect B bstep o
                 (sv_b (w_srv w)) (plain_req MGet p rawq) _ Hp b' v eq_refl Hdis Hb Hie). }
    2:{ reflexivity. }
    cbv zeta. cbn [p_status status_accepted]. change (200 =? 200) with true.
    change (is_ok_status 200) with true. cbn iota.
    unfold read_all, got. rewrite request_of_method. cbn [Http.q_kind list_rreq kind_method hr_rest hr_rs hr_idx].
    rewrite (of_server_resp_get_full (mkresp 200 (list_hdrs msg [] (Some media_image_index)) msg _) eq_refl
               (list_declared msg [] _ Hsm)).
    cbn [rs_body b_data b_fail p_body e_json_index stack_env]. unfold msg. rewrite json_index_rt.
    destruct (yield_items (descs_of v) budget) as [[ys bud] cont]. eexists. split; reflexivity.
  Qed.
End ReferrersB.

Print Assumptions transparent_Referrers_ok.
