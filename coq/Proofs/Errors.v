(* Proofs about Model/Errors.v (C07). *)
From Coq Require Import String.
From OCI Require Import Base.Outcome Model.Errors.

(* ---------------------------------------------------------------- small string facts *)

Lemma has_prefix_app p r : has_prefix p (p ++ r) = true.
Proof. apply has_prefix_spec. eauto. Qed.

Lemma trim_prefix_app p r : trim_prefix p (p ++ r) = r.
Proof.
  unfold trim_prefix. rewrite has_prefix_app.
  induction p as [|c p IH]; cbn; auto.
Qed.

Lemma has_prefix_longer p a : (length a < length p)%nat -> has_prefix p a = false.
Proof.
  intros H. destruct (has_prefix p a) eqn:E; auto.
  apply has_prefix_spec in E as [r ->]. rewrite app_length in H. lia.
Qed.

Lemma trim_prefix_short p a : (length a < length p)%nat -> trim_prefix p a = a.
Proof. intros H. unfold trim_prefix. now rewrite has_prefix_longer. Qed.

Lemma trim_prefix_length p a : (length (trim_prefix p a) <= length a)%nat.
Proof.
  unfold trim_prefix. destruct (has_prefix p a); [|lia].
  rewrite skipn_length. lia.
Qed.

(* ---------------------------------------------------------------- the table *)

(* the status the distribution specification assigns to each of the 15 codes *)
Definition spec_status (t : std) : Z :=
  match t with
  | SBlobUnknown => 404 | SBlobUploadInvalid => 416 | SBlobUploadUnknown => 404
  | SDigestInvalid => 400 | SManifestBlobUnknown => 404 | SManifestInvalid => 400
  | SManifestUnknown => 404 | SNameInvalid => 400 | SNameUnknown => 404
  | SSizeInvalid => 400 | SUnauthorized => 401 | SDenied => 403 | SUnsupported => 400
  | STooManyRequests => 429 | SRangeInvalid => 416
  end%Z.

Lemma lookup_std t : lookup (std_code t) error_statuses = Some (spec_status t).
Proof. destruct t; reflexivity. Qed.

Lemma std_code_inj t u : std_code t = std_code u -> t = u.
Proof. destruct t, u; cbn; intros H; try reflexivity; discriminate H. Qed.

Lemma lookup_In k tbl v : lookup k tbl = Some v -> In (k, v) tbl.
Proof.
  induction tbl as [|[k' v'] r IH]; cbn; [discriminate|].
  destruct (beqb k k') eqn:E.
  - apply beqb_eq in E. intros H. injection H as <-. subst. now left.
  - intros H. right. auto.
Qed.

Lemma lookup_some_std c st : lookup c error_statuses = Some st -> exists t, c = std_code t /\ st = spec_status t.
Proof.
  intros H. apply lookup_In in H. unfold error_statuses in H. cbn [In] in H.
  repeat (destruct H as [H|H];
    [match type of H with (std_code ?t, _) = _ => injection H as <- <-; exists t; split; reflexivity end|]).
  contradiction.
Qed.

Lemma lookup_unknown : lookup unknown_code error_statuses = None.
Proof. reflexivity. Qed.

Lemma std_code_not_unknown t : beqb (std_code t) unknown_code = false.
Proof. destruct t; reflexivity. Qed.

Lemma std_code_not_empty t : std_code t <> [].
Proof. destruct t; discriminate. Qed.

(* ---------------------------------------------------------------- induction on error trees *)

(* the generated principle gives no hypothesis under the option of Http *)
Lemma gerr_induct (P : gerr -> Prop) :
  (forall w, P (Wire w)) -> (forall l, P (Wires l)) ->
  (forall p e, P e -> P (Wrap p e)) ->
  (forall st e r, P e -> P (Http st (Some e) r)) ->
  (forall st r, P (Http st None r)) ->
  (forall m, P (Plain m)) ->
  forall e, P e.
Proof.
  intros Hw Hws Hwr Hh Hn Hp.
  fix IH 1. intros [w|l|p e|st [e|] r|m].
  - apply Hw. - apply Hws. - apply Hwr, IH. - apply Hh, IH. - apply Hn. - apply Hp.
Qed.

(* ---------------------------------------------------------------- traversal facts *)

(* the codes errors.Is / errors.As can reach, in traversal order *)
Fixpoint codes (e : gerr) : list bytes :=
  match e with
  | Wire w => [w_code w]
  | Wires l => map w_code l
  | Wrap _ e' => codes e'
  | Http _ (Some e') _ => codes e'
  | Http _ None _ => []
  | Plain _ => []
  end.

(* some HTTP wrapper on the spine has status 416 *)
Fixpoint has416 (e : gerr) : bool :=
  match e with
  | Wrap _ e' => has416 e'
  | Http st u _ => Z.eqb st 416 || match u with Some e' => has416 e' | None => false end
  | _ => false
  end.

Definition is_range (t : std) : bool := std_eqb t SRangeInvalid.

Lemma http_is_spec st t : http_is st t = Z.eqb st 416 && is_range t.
Proof. unfold http_is, is_range. destruct (Z.eqb st 416); reflexivity. Qed.

Lemma existsb_map {A B} (f : A -> B) (p : B -> bool) l :
  existsb p (map f l) = existsb (fun a => p (f a)) l.
Proof. induction l; cbn; congruence. Qed.

Lemma is_spec e t :
  is e t = existsb (beqb (std_code t)) (codes e) || (has416 e && is_range t).
Proof.
  induction e as [w|l|p e IH|st e r IH|st r|m] using gerr_induct; cbn [is codes has416 existsb].
  - unfold werr_is. now rewrite !orb_false_r.
  - rewrite existsb_map. unfold werr_is. now rewrite orb_false_r.
  - exact IH.
  - rewrite IH, http_is_spec.
    destruct (Z.eqb st 416), (is_range t), (existsb (beqb (std_code t)) (codes e)), (has416 e); reflexivity.
  - rewrite http_is_spec. destruct (Z.eqb st 416), (is_range t); reflexivity.
  - reflexivity.
Qed.

Lemma as_err_codes e : option_map w_code (as_err e) = hd_error (codes e).
Proof.
  induction e as [w|l|p e IH|st e r IH|st r|m] using gerr_induct; cbn; auto.
  destruct l; reflexivity.
Qed.

(* ---------------------------------------------------------------- MarshalError *)

Definition nowv (w : wrap) : bool := match w with WV _ => false | _ => true end.

Section Prefixes.
  Variable sprefix : Z -> bytes.
  Variable cprefix : bytes -> bytes.

  Notation text := (text sprefix cprefix).
  Notation marshal_error := (marshal_error sprefix cprefix).
  Notation apply_wrap := (apply_wrap sprefix cprefix).
  Notation hop := (hop sprefix cprefix).
  Notation hops := (hops sprefix cprefix).
  Notation hop_r := (hop_r sprefix cprefix).
  Notation hops_r := (hops_r sprefix cprefix).
  Notation serve_error := (serve_error sprefix cprefix).
  Notation wmsg := (wmsg sprefix cprefix).
  Notation trim_error_code_prefix := (trim_error_code_prefix sprefix cprefix).

  Lemma marshal_code_not_empty e : marshal_code e <> [].
  Proof.
    unfold marshal_code. destruct (as_err e) as [w|]; [|discriminate].
    destruct (w_code w); discriminate.
  Qed.

  (* the code put on the wire, from the reachable codes *)
  Lemma marshal_code_codes e :
    marshal_code e = match codes e with
                     | [] => unknown_code
                     | c :: _ => match c with [] => unknown_code | _ => c end
                     end.
  Proof.
    unfold marshal_code. pose proof (as_err_codes e) as H.
    destruct (as_err e) as [w|], (codes e) as [|c l]; cbn in H; try discriminate; auto.
    injection H as H. rewrite H. now destruct c.
  Qed.

  (* a %w wrapper (or none) is transparent to errors.As / errors.Is *)
  Lemma wrap_as_err w e : nowv w = true -> as_err (apply_wrap w e) = as_err e.
  Proof. destruct w; cbn; congruence. Qed.
  Lemma wrap_as_http w e : nowv w = true -> as_http (apply_wrap w e) = as_http e.
  Proof. destruct w; cbn; congruence. Qed.
  Lemma wrap_is w e t : nowv w = true -> is (apply_wrap w e) t = is e t.
  Proof. destruct w; cbn; congruence. Qed.
  Lemma wrap_marshal_code w e : nowv w = true -> marshal_code (apply_wrap w e) = marshal_code e.
  Proof. intros H. unfold marshal_code. now rewrite wrap_as_err. Qed.
  Lemma wrap_marshal_detail w e : nowv w = true -> marshal_detail (apply_wrap w e) = marshal_detail e.
  Proof. intros H. unfold marshal_detail. now rewrite wrap_as_err. Qed.
  Lemma wrap_marshal_status w e : nowv w = true -> marshal_status (apply_wrap w e) = marshal_status e.
  Proof. intros H. unfold marshal_status. now rewrite wrap_marshal_code, wrap_as_http. Qed.

  (* ---- status_table ---- *)

  (* each of the 15 standard codes gets the specification's status ... *)
  Lemma status_table_std e t : marshal_code e = std_code t -> marshal_status e = spec_status t.
  Proof. intros H. unfold marshal_status. now rewrite H, lookup_std. Qed.

  (* ... any other code the error's own HTTP status, else 500 *)
  Lemma status_table_other e :
    (forall t, marshal_code e <> std_code t) ->
    marshal_status e = match as_http e with Some st => st | None => 500%Z end.
  Proof.
    intros H. unfold marshal_status.
    destruct (lookup (marshal_code e) error_statuses) as [st|] eqn:E; [|reflexivity].
    apply lookup_some_std in E as [t [E _]]. now apply H in E.
  Qed.

  Lemma status_table e :
    r_status (marshal_error e) =
      match lookup (marshal_code e) error_statuses with
      | Some st => st
      | None => match as_http e with Some st => st | None => 500%Z end
      end.
  Proof. reflexivity. Qed.

  (* ---- the shape of one hop ---- *)

  Definition bodyspec (hs : hopspec) : bool :=
    negb (h_head hs) && Z.leb (h_len hs) error_body_size_limit && nowv (h_swrap hs) && nowv (h_cwrap hs).

  Definition plainspec (hs : hopspec) : bool :=
    negb (h_head hs) && Z.leb (h_len hs) error_body_size_limit &&
    match h_swrap hs, h_cwrap hs with WNone, WNone => true | _, _ => false end.

  Definition nowvspec (hs : hopspec) : bool := nowv (h_swrap hs) && nowv (h_cwrap hs).

  Lemma plainspec_body hs : plainspec hs = true -> bodyspec hs = true.
  Proof.
    unfold plainspec, bodyspec. destruct (h_swrap hs), (h_cwrap hs); cbn [nowv]; intros H;
      rewrite ?andb_false_r in H; try discriminate H.
    now rewrite !andb_true_r in *.
  Qed.

  Lemma bodyspec_nowv hs : bodyspec hs = true -> nowvspec hs = true.
  Proof.
    unfold bodyspec, nowvspec. intros H.
    apply andb_true_iff in H as [H H2]. apply andb_true_iff in H as [H H1].
    now rewrite H1, H2.
  Qed.

  Lemma json_media_is_json : is_json_media_type json_media = true.
  Proof. reflexivity. Qed.

  (* a body-carrying hop: HTTPError(status) around WireErrors{the one error that was marshalled} *)
  Lemma hop_body hs e :
    bodyspec hs = true ->
    hop hs e = apply_wrap (h_cwrap hs)
                 (Http (marshal_status e)
                    (Some (Wires [W (marshal_code e)
                                    (trim_error_code_prefix (apply_wrap (h_swrap hs) e) (marshal_status e) (marshal_code e))
                                    (marshal_detail e)])) true).
  Proof.
    unfold bodyspec. intros H.
    apply andb_true_iff in H as [H Hc]. apply andb_true_iff in H as [H Hs].
    apply andb_true_iff in H as [Hh Hl]. apply negb_true_iff in Hh.
    unfold hop, make_error, response_of, make_error1, Errors.marshal_error.
    cbn [rp_head rp_status rp_media rp_len rp_body rp_txt r_status r_err].
    rewrite Hh. rewrite json_media_is_json. cbn [negb].
    apply Z.leb_le in Hl. destruct (Z.ltb_spec error_body_size_limit (h_len hs)); [lia|].
    now rewrite wrap_marshal_status, wrap_marshal_code, wrap_marshal_detail.
  Qed.

  (* the status mapping makeError1 falls back on for HEAD *)
  Definition head_map (st : Z) : option std :=
    if Z.eqb st 404 then Some SNameUnknown
    else if Z.eqb st 401 then Some SUnauthorized
    else if Z.eqb st 403 then Some SDenied
    else if Z.eqb st 429 then Some STooManyRequests
    else if Z.eqb st 400 then Some SUnsupported
    else None.

  Lemma hop_head hs e :
    h_head hs = true -> nowv (h_swrap hs) = true ->
    hop hs e = apply_wrap (h_cwrap hs)
                 (Http (marshal_status e) (option_map std_err (head_map (marshal_status e))) true).
  Proof.
    intros Hh Hs.
    unfold hop, make_error, response_of, make_error1, Errors.marshal_error, head_map.
    cbn [rp_head rp_status rp_media rp_len rp_body rp_txt r_status r_err].
    rewrite Hh. cbn [Z.ltb Z.compare error_body_size_limit].
    rewrite wrap_marshal_status by assumption.
    repeat match goal with |- context [Z.eqb ?a ?b] => destruct (Z.eqb a b) end; reflexivity.
  Qed.

  Lemma head_map_status st t : head_map st = Some t -> spec_status t = st.
  Proof.
    unfold head_map.
    repeat match goal with
    | |- context [Z.eqb st ?b] => destruct (Z.eqb_spec st b); [intros H; injection H as <-; subst; reflexivity|]
    end.
    discriminate.
  Qed.

  (* the result of a hop, whatever the carrier, before the client method's own wrapping *)
  Lemma hop_form hs e :
    exists inner, hop hs e = apply_wrap (h_cwrap hs)
                               (Http (marshal_status (Errors.apply_wrap sprefix cprefix (h_swrap hs) e)) inner true).
  Proof. unfold hop, make_error. cbn. eauto. Qed.

  (* ---- status is preserved by every hop that does not flatten (HEAD included, any length) ---- *)

  Lemma status_preserved_hop hs e :
    nowvspec hs = true -> marshal_status (hop hs e) = marshal_status e.
  Proof.
    unfold nowvspec. intros H. apply andb_true_iff in H as [Hs Hc].
    unfold hop. rewrite wrap_marshal_status by assumption.
    unfold make_error, response_of.
    cbn [rp_head rp_status rp_media rp_len rp_body rp_txt r_status r_err Errors.marshal_error].
    rewrite wrap_marshal_status by assumption.
    set (st := marshal_status e).
    match goal with |- marshal_status (Http st ?inner true) = st => set (inn := inner) end.
    assert (Hcase : (exists t, inn = Some (std_err t) /\ spec_status t = st) \/
                    (as_err (Http st inn true) = None) \/
                    (exists w, inn = Some (Wires [w]) /\ w_code w = marshal_code e)).
    { subst inn. destruct (Z.ltb error_body_size_limit _); [right; left; reflexivity|].
      unfold make_error1. cbn [rp_head rp_status rp_media rp_len rp_body rp_txt].
      destruct (h_head hs).
      - destruct (head_map st) as [t|] eqn:E.
        + left. exists t. split; [|now apply head_map_status].
          unfold head_map in E. revert E.
          repeat match goal with |- context [Z.eqb st ?b] => destruct (Z.eqb st b) end;
            intros E; try discriminate; now injection E as <-.
        + right; left. unfold head_map in E. revert E.
          repeat match goal with |- context [Z.eqb st ?b] => destruct (Z.eqb st b) end;
            intros E; try discriminate; reflexivity.
      - rewrite json_media_is_json. cbn [negb]. right; right. eexists. split; [reflexivity|].
        cbn [w_code]. now apply wrap_marshal_code. }
    destruct Hcase as [[t [-> Ht]]|[Hn|[w [-> Hw]]]].
    - unfold marshal_status, marshal_code. cbn [as_err std_err std_werr w_code].
      destruct (std_code t) eqn:Et; [now apply std_code_not_empty in Et|].
      rewrite <- Et, lookup_std. exact Ht.
    - unfold marshal_status, marshal_code. rewrite Hn, lookup_unknown. reflexivity.
    - unfold marshal_status at 1. unfold marshal_code at 1.
      cbn [as_err hd_error as_http]. rewrite Hw.
      destruct (marshal_code e) eqn:Ec; [now apply marshal_code_not_empty in Ec|].
      rewrite <- Ec. subst st. unfold marshal_status.
      destruct (lookup (marshal_code e) error_statuses); reflexivity.
  Qed.

  Lemma status_preserved l e :
    forallb nowvspec l = true -> marshal_status (hops l e) = marshal_status e.
  Proof.
    revert e. induction l as [|hs l IH]; intros e H; cbn in *; [reflexivity|].
    apply andb_true_iff in H as [H1 H2]. rewrite IH by assumption. now apply status_preserved_hop.
  Qed.

  (* what the client reads as the status is the status that was sent *)
  Lemma as_http_hop hs e :
    nowvspec hs = true -> as_http (hop hs e) = Some (marshal_status e).
  Proof.
    unfold nowvspec. intros H. apply andb_true_iff in H as [Hs Hc].
    destruct (hop_form hs e) as [inner ->]. rewrite wrap_as_http by assumption. cbn.
    now rewrite wrap_marshal_status.
  Qed.

  (* ---- code and detail survive body-carrying hops ---- *)

  Lemma code_preserved_hop hs e : bodyspec hs = true -> marshal_code (hop hs e) = marshal_code e.
  Proof.
    intros H. rewrite hop_body by assumption.
    unfold bodyspec in H. apply andb_true_iff in H as [_ Hc].
    rewrite wrap_marshal_code by assumption.
    unfold marshal_code at 1. cbn [as_err hd_error w_code].
    destruct (marshal_code e) eqn:E; [now apply marshal_code_not_empty in E | reflexivity].
  Qed.

  Lemma marshal_detail_idem e :
    match marshal_detail e with Some [] => None | d => d end = marshal_detail e.
  Proof.
    unfold marshal_detail. destruct (as_err e) as [w|]; [|reflexivity].
    destruct (w_detail w) as [[|]|]; reflexivity.
  Qed.

  Lemma detail_preserved_hop hs e : bodyspec hs = true -> marshal_detail (hop hs e) = marshal_detail e.
  Proof.
    intros H. rewrite hop_body by assumption.
    unfold bodyspec in H. apply andb_true_iff in H as [_ Hc].
    rewrite wrap_marshal_detail by assumption.
    unfold marshal_detail at 1. cbn [as_err hd_error w_detail]. apply marshal_detail_idem.
  Qed.

  Lemma code_preserved l e : forallb bodyspec l = true -> marshal_code (hops l e) = marshal_code e.
  Proof.
    revert e. induction l as [|hs l IH]; intros e H; cbn in *; [reflexivity|].
    apply andb_true_iff in H as [H1 H2]. rewrite IH by assumption. now apply code_preserved_hop.
  Qed.

  Lemma detail_preserved l e : forallb bodyspec l = true -> marshal_detail (hops l e) = marshal_detail e.
  Proof.
    revert e. induction l as [|hs l IH]; intros e H; cbn in *; [reflexivity|].
    apply andb_true_iff in H as [H1 H2]. rewrite IH by assumption. now apply detail_preserved_hop.
  Qed.

  Lemma forallb_body_nowv l : forallb bodyspec l = true -> forallb nowvspec l = true.
  Proof.
    induction l as [|hs l IH]; cbn; [reflexivity|]. intros H.
    apply andb_true_iff in H as [H1 H2]. now rewrite bodyspec_nowv, IH.
  Qed.

  (* what the caller reads with errors.As(Error) after a body-carrying hop *)
  Lemma as_err_hop hs e :
    bodyspec hs = true ->
    exists m, as_err (hop hs e) = Some (W (marshal_code e) m (marshal_detail e)).
  Proof.
    intros H. rewrite hop_body by assumption.
    unfold bodyspec in H. apply andb_true_iff in H as [_ Hc].
    rewrite wrap_as_err by assumption. cbn. eauto.
  Qed.

  (* ---- errors.Is after hops ---- *)

  (* the answer errors.Is gives after a body-carrying hop: the code that was marshalled, or the
     status 416 for ErrRangeInvalid (httpError.Is) *)
  Definition is_after (e : gerr) (t : std) : bool :=
    beqb (std_code t) (marshal_code e) || (Z.eqb (marshal_status e) 416 && is_range t).

  Lemma is_hop hs e t : bodyspec hs = true -> is (hop hs e) t = is_after e t.
  Proof.
    intros H. rewrite hop_body by assumption.
    unfold bodyspec in H. apply andb_true_iff in H as [_ Hc].
    rewrite wrap_is by assumption. cbn [is existsb]. unfold werr_is. cbn [w_code].
    rewrite http_is_spec, orb_false_r. unfold is_after. apply orb_comm.
  Qed.

  Lemma is_after_hop hs e t : bodyspec hs = true -> is_after (hop hs e) t = is_after e t.
  Proof.
    intros H. unfold is_after. rewrite code_preserved_hop by assumption.
    now rewrite status_preserved_hop by now apply bodyspec_nowv.
  Qed.

  (* after any n >= 1 body-carrying hops, for every error value whatsoever *)
  Lemma is_hops hs l e t :
    forallb bodyspec (hs :: l) = true -> is (hops (hs :: l) e) t = is_after e t.
  Proof.
    cbn [forallb hops]. intros H. apply andb_true_iff in H as [H1 H2].
    revert hs e H1. induction l as [|hs' l IH]; intros hs e H1.
    - cbn. now apply is_hop.
    - cbn [forallb] in H2. apply andb_true_iff in H2 as [H2 H3].
      cbn [hops]. cbn [hops] in IH. rewrite (IH H3 hs' (hop hs e) H2). now apply is_after_hop.
  Qed.

  (* at most one code is reachable: the shape of every error the property quantifies over
     (a chain of %w / HTTP wrappers around one coded or uncoded leaf) *)
  Definition single (e : gerr) : bool := Nat.leb (length (codes e)) 1.

  (* the matcher of the 416 finding: errors.Is(e, ErrRangeInvalid) already agrees with what
     the status / code on the wire will say *)
  Definition range_clean (e : gerr) : bool :=
    Bool.eqb (is e SRangeInvalid)
             (beqb (std_code SRangeInvalid) (marshal_code e) || Z.eqb (marshal_status e) 416).

  Lemma is_single_code e t :
    single e = true -> existsb (beqb (std_code t)) (codes e) = beqb (std_code t) (marshal_code e).
  Proof.
    unfold single. rewrite marshal_code_codes. destruct (codes e) as [|c [|c' l]]; cbn; intros H.
    - symmetry. apply std_code_not_unknown.
    - rewrite orb_false_r. destruct c; [|reflexivity].
      rewrite std_code_not_unknown. apply beqb_neq. apply std_code_not_empty.
    - discriminate.
  Qed.

  Lemma is_preserved_other e t :
    single e = true -> is_range t = false -> is_after e t = is e t.
  Proof.
    intros Hs Ht. unfold is_after. rewrite is_spec, is_single_code by assumption.
    now rewrite Ht, !andb_false_r.
  Qed.

  Lemma is_preserved_range e :
    range_clean e = true -> is_after e SRangeInvalid = is e SRangeInvalid.
  Proof.
    unfold range_clean, is_after. intros H. apply eqb_prop in H. rewrite H.
    cbn [is_range std_eqb]. now rewrite andb_true_r.
  Qed.

  Lemma is_preserved_single e t :
    single e = true -> (is_range t = true -> range_clean e = true) -> is_after e t = is e t.
  Proof.
    intros Hs Hr. destruct (is_range t) eqn:Et.
    - unfold is_range in Et. apply std_eqb_eq in Et. subst t. now apply is_preserved_range, Hr.
    - now apply is_preserved_other.
  Qed.

  (* HEAD: identity degrades to the status mapping *)
  Definition is_head (st : Z) (t : std) : bool :=
    match head_map st with Some u => std_eqb t u | None => false end || (Z.eqb st 416 && is_range t).

  Lemma std_code_beqb t u : beqb (std_code t) (std_code u) = std_eqb t u.
  Proof. destruct t, u; reflexivity. Qed.

  Lemma is_hop_head hs e t :
    h_head hs = true -> nowvspec hs = true -> is (hop hs e) t = is_head (marshal_status e) t.
  Proof.
    unfold nowvspec. intros Hh H. apply andb_true_iff in H as [Hs Hc].
    rewrite hop_head by assumption. rewrite wrap_is by assumption.
    unfold is_head. cbn [is]. rewrite http_is_spec.
    destruct (head_map (marshal_status e)) as [u|]; unfold option_map, std_err, std_werr; cbn [is].
    - unfold werr_is. cbn [w_code]. rewrite std_code_beqb. apply orb_comm.
    - now rewrite orb_false_r.
  Qed.

  (* a second HEAD hop changes nothing at all *)
  Lemma hop_head_idem hs hs' e :
    h_head hs = true -> h_head hs' = true ->
    h_swrap hs = WNone -> h_cwrap hs = WNone -> h_swrap hs' = WNone -> h_cwrap hs' = WNone ->
    hop hs' (hop hs e) = hop hs e.
  Proof.
    intros Hh Hh' Hs Hc Hs' Hc'.
    assert (N1 : nowvspec hs = true) by (unfold nowvspec; now rewrite Hs, Hc).
    rewrite (hop_head hs' (hop hs e)) by (auto; now rewrite Hs').
    rewrite status_preserved_hop by assumption.
    rewrite (hop_head hs e) by (auto; now rewrite Hs).
    now rewrite Hc, Hc'.
  Qed.

  (* ---- the message ---- *)

  Lemma plainspec_wraps hs : plainspec hs = true -> h_swrap hs = WNone /\ h_cwrap hs = WNone.
  Proof.
    unfold plainspec. destruct (h_swrap hs), (h_cwrap hs); rewrite ?andb_false_r; try discriminate; auto.
  Qed.

  (* Error() of what the client builds from a body *)
  Lemma text_client_error st c m d :
    text (Http st (Some (Wires [W c m d])) true) =
      (sprefix st ++ colon_sp) ++ match m with
                                  | [] => cprefix c
                                  | _ => (cprefix c ++ colon_sp) ++ m
                                  end.
  Proof.
    cbn [Errors.text wtexts wtexts_rest]. unfold wtext. cbn [w_code w_msg].
    rewrite app_nil_r, <- app_assoc. f_equal. f_equal.
    destruct m; [now rewrite app_nil_r | now rewrite <- app_assoc].
  Qed.

  Lemma wmsg_unfold e : wmsg e = trim_error_code_prefix e (marshal_status e) (marshal_code e).
  Proof. reflexivity. Qed.

  (* one plain hop leaves the message on the wire unchanged: the client renders
     "<status>: <code text>[: <message>]" and the next MarshalError strips exactly that *)
  Lemma wmsg_plain_hop hs e :
    plainspec hs = true -> marshal_status e <> 0%Z -> wmsg (hop hs e) = wmsg e.
  Proof.
    intros Hp Hst.
    pose proof (plainspec_body _ Hp) as Hb. pose proof (bodyspec_nowv _ Hb) as Hn.
    destruct (plainspec_wraps _ Hp) as [Hs Hc].
    rewrite (wmsg_unfold (hop hs e)).
    rewrite status_preserved_hop, code_preserved_hop by assumption.
    unfold trim_error_code_prefix at 1.
    rewrite hop_body by assumption. rewrite Hs, Hc. cbn [Errors.apply_wrap].
    rewrite text_client_error.
    change (trim_error_code_prefix e (marshal_status e) (marshal_code e)) with (wmsg e).
    destruct (Z.eqb_spec (marshal_status e) 0) as [E|_]; [contradiction|].
    rewrite trim_prefix_app.
    destruct (marshal_code e) as [|c0 cr] eqn:Ec; [now apply marshal_code_not_empty in Ec|].
    rewrite <- Ec.
    destruct (wmsg e) as [|b m].
    - now rewrite beqb_refl.
    - destruct (beqb _ _) eqn:E.
      + apply beqb_eq in E. apply (f_equal (@length N)) in E.
        rewrite !app_length in E. cbn in E. lia.
      + apply trim_prefix_app.
  Qed.

  Lemma forallb_plain_body l : forallb plainspec l = true -> forallb bodyspec l = true.
  Proof.
    induction l as [|hs l IH]; cbn; [reflexivity|]. intros H.
    apply andb_true_iff in H as [H1 H2]. now rewrite plainspec_body, IH.
  Qed.

  (* message_fixpoint: the message on the wire is the same after any number of plain hops *)
  Lemma wmsg_fixpoint l e :
    forallb plainspec l = true -> marshal_status e <> 0%Z -> wmsg (hops l e) = wmsg e.
  Proof.
    revert e. induction l as [|hs l IH]; intros e H Hst; cbn [Errors.hops forallb] in *; [reflexivity|].
    apply andb_true_iff in H as [H1 H2].
    assert (Hn : nowvspec hs = true) by now apply bodyspec_nowv, plainspec_body.
    rewrite (IH (hop hs e)).
    - now apply wmsg_plain_hop.
    - exact H2.
    - now rewrite status_preserved_hop.
  Qed.

  (* what the client shows as the message is what was on the wire *)
  Lemma cmsg_hop hs e :
    bodyspec hs = true ->
    cmsg (hop hs e) = Some (wmsg (Errors.apply_wrap sprefix cprefix (h_swrap hs) e)).
  Proof.
    intros H. rewrite hop_body by assumption.
    unfold bodyspec in H. apply andb_true_iff in H as [H Hc]. apply andb_true_iff in H as [_ Hs].
    unfold cmsg. rewrite wrap_as_err by assumption. cbn [as_err hd_error w_msg].
    rewrite wmsg_unfold. now rewrite wrap_marshal_status, wrap_marshal_code.
  Qed.

  (* a client method / handler that wraps with a text prefix: the message may grow by at most
     the wrapper text and the two prefixes per hop *)
  Lemma trim_error_code_prefix_length e st c :
    (length (trim_error_code_prefix e st c) <= length (text e))%nat.
  Proof.
    unfold trim_error_code_prefix.
    destruct c; destruct (Z.eqb st 0); try destruct (beqb _ _); cbn [length];
      repeat (etransitivity; [apply trim_prefix_length|]); lia.
  Qed.

  Lemma wmsg_length e : (length (wmsg e) <= length (text e))%nat.
  Proof. apply trim_error_code_prefix_length. Qed.

  (* ---- paths ---- *)

  Lemma hops_snoc l hs e : hops (l ++ [hs]) e = hop hs (hops l e).
  Proof. revert e. induction l as [|a l IH]; intros e; cbn; [reflexivity | apply IH]. Qed.

  (* errors.Is after n >= 1 body-carrying hops is the original answer, for an error with at most
     one reachable code, except for ErrRangeInvalid when status 416 and code disagree *)
  Lemma is_preserved_hops hs l e t :
    forallb bodyspec (hs :: l) = true -> single e = true ->
    (is_range t = true -> range_clean e = true) ->
    is (hops (hs :: l) e) t = is e t.
  Proof. intros Hb Hs Hr. rewrite is_hops by assumption. now apply is_preserved_single. Qed.

  (* HEAD hops that add no text: the result depends on the status only, and is stable *)
  Definition wnone (w : wrap) : bool := match w with WNone => true | _ => false end.
  Definition headspec (hs : hopspec) : bool := h_head hs && wnone (h_swrap hs) && wnone (h_cwrap hs).

  Definition head_result (e : gerr) : gerr :=
    Http (marshal_status e) (option_map std_err (head_map (marshal_status e))) true.

  Lemma headspec_inv hs :
    headspec hs = true -> h_head hs = true /\ h_swrap hs = WNone /\ h_cwrap hs = WNone.
  Proof.
    unfold headspec. destruct (h_head hs), (h_swrap hs), (h_cwrap hs); cbn; intros H;
      try discriminate H; auto.
  Qed.

  Lemma headspec_nowv hs : headspec hs = true -> nowvspec hs = true.
  Proof. intros H. apply headspec_inv in H as [_ [Hs Hc]]. unfold nowvspec. now rewrite Hs, Hc. Qed.

  Lemma hop_headspec hs e : headspec hs = true -> hop hs e = head_result e.
  Proof.
    intros H. apply headspec_inv in H as [Hh [Hs Hc]].
    rewrite hop_head by (auto; now rewrite Hs). now rewrite Hc.
  Qed.

  Lemma head_result_status e : marshal_status (head_result e) = marshal_status e.
  Proof.
    set (hs := {| h_head := true; h_swrap := WNone; h_cwrap := WNone; h_len := 0 |}).
    rewrite <- (hop_headspec hs e) by reflexivity. now apply status_preserved_hop.
  Qed.

  Lemma head_result_idem e : head_result (head_result e) = head_result e.
  Proof. unfold head_result at 1. now rewrite head_result_status. Qed.

  Lemma hops_head_stable l e :
    forallb headspec l = true -> hops l (head_result e) = head_result e.
  Proof.
    induction l as [|hs l IH]; cbn [Errors.hops forallb]; [reflexivity|]. intros H.
    apply andb_true_iff in H as [H1 H2]. rewrite hop_headspec by assumption.
    rewrite head_result_idem. now apply IH.
  Qed.

  Lemma hops_head hs l e :
    forallb headspec (hs :: l) = true -> hops (hs :: l) e = head_result e.
  Proof.
    cbn [Errors.hops forallb]. intros H. apply andb_true_iff in H as [H1 H2].
    rewrite hop_headspec by assumption. now apply hops_head_stable.
  Qed.

  Lemma is_head_result e t : is (head_result e) t = is_head (marshal_status e) t.
  Proof.
    set (hs := {| h_head := true; h_swrap := WNone; h_cwrap := WNone; h_len := 0 |}).
    rewrite <- (hop_headspec hs e) by reflexivity. now apply is_hop_head.
  Qed.

  (* ---- panics ---- *)

  Lemma hops_r_ok l e e' : hops_r l e = Ok e' -> e' = hops l e.
  Proof.
    revert e. induction l as [|hs l IH]; intros e; cbn.
    - intros H. now injection H.
    - unfold Errors.hop_r. destruct (serve_error _) as [r| | |] eqn:E; try discriminate.
      intros H. apply IH in H. rewrite H. f_equal.
      unfold Errors.serve_error in E. destruct (text_panics _); [discriminate|].
      destruct (_ || _)%bool; [discriminate|]. injection E as <-. reflexivity.
  Qed.

  Lemma hops_r_status hs l e e' : hops_r (hs :: l) e = Ok e' -> nowv (h_swrap hs) = true ->
    (100 <= marshal_status e <= 999)%Z.
  Proof.
    cbn. unfold Errors.hop_r, Errors.serve_error. intros H Hs.
    destruct (text_panics _); [discriminate|].
    destruct (_ || _)%bool eqn:E; [discriminate|].
    apply orb_false_iff in E as [E1 E2]. cbn [r_status Errors.marshal_error] in *.
    rewrite wrap_marshal_status in * by assumption. lia.
  Qed.

End Prefixes.

(* ---------------------------------------------------------------- statements used by Props/C07.v *)

Section Statements.
  Variable sprefix : Z -> bytes.
  Variable cprefix : bytes -> bytes.
  Notation hop := (hop sprefix cprefix).
  Notation hops := (hops sprefix cprefix).
  Notation wmsg := (wmsg sprefix cprefix).
  Notation cmsg := (cmsg sprefix cprefix).

  (* the message the caller finds after n >= 1 plain hops is the first wire message *)
  Lemma cmsg_plain_hops hs l e :
    forallb plainspec (hs :: l) = true -> marshal_status e <> 0%Z ->
    Errors.cmsg (hops (hs :: l) e) = Some (wmsg e).
  Proof.
    intros Hp Hst.
    assert (Hne : hs :: l <> []) by discriminate.
    destruct (exists_last Hne) as [l' [a E]]. rewrite E in *.
    rewrite forallb_app in Hp. apply andb_true_iff in Hp as [Hl Ha]. cbn in Ha.
    rewrite andb_true_r in Ha.
    rewrite hops_snoc, (cmsg_hop sprefix cprefix) by now apply plainspec_body.
    destruct (plainspec_wraps a Ha) as [-> _]. cbn [Errors.apply_wrap].
    now rewrite wmsg_fixpoint by assumption.
  Qed.

  Lemma message_fixpoint hs l e :
    forallb plainspec (hs :: l) = true -> marshal_status e <> 0%Z ->
    Errors.cmsg (hops (hs :: l) e) = Errors.cmsg (hop hs e).
  Proof.
    intros Hp Hst. rewrite cmsg_plain_hops by assumption.
    change (hop hs e) with (hops [hs] e). rewrite cmsg_plain_hops; auto.
    cbn [forallb] in *. apply andb_true_iff in Hp as [-> _]. reflexivity.
  Qed.

  (* the status the caller reads after n >= 1 hops that do not flatten (HEAD included) *)
  Lemma status_read hs l e :
    forallb nowvspec (hs :: l) = true ->
    as_http (hops (hs :: l) e) = Some (marshal_status e).
  Proof.
    intros Hp.
    assert (Hne : hs :: l <> []) by discriminate.
    destruct (exists_last Hne) as [l' [a E]]. rewrite E in *.
    rewrite forallb_app in Hp. apply andb_true_iff in Hp as [Hl Ha]. cbn in Ha.
    rewrite andb_true_r in Ha.
    rewrite hops_snoc, as_http_hop by assumption. now rewrite status_preserved.
  Qed.

  (* code and detail the caller reads after n >= 1 body-carrying hops *)
  Lemma code_detail_read hs l e :
    forallb bodyspec (hs :: l) = true ->
    exists m, as_err (hops (hs :: l) e) = Some (W (marshal_code e) m (marshal_detail e)).
  Proof.
    intros Hp.
    assert (Hne : hs :: l <> []) by discriminate.
    destruct (exists_last Hne) as [l' [a E]]. rewrite E in *.
    rewrite forallb_app in Hp. apply andb_true_iff in Hp as [Hl Ha]. cbn in Ha.
    rewrite andb_true_r in Ha.
    rewrite hops_snoc. destruct (as_err_hop sprefix cprefix a (hops l' e) Ha) as [m ->].
    exists m. now rewrite code_preserved, detail_preserved.
  Qed.
End Statements.
