(* Base lemmas for the composed model (Model/Stack.v): the three copies of strconv agree, header
   lookups, one exchange of the client over [serve_stack]. *)
From Coq Require Import String.
From OCI Require Import Model.Stack Proofs.Request.

Local Open Scope Z_scope.

(* ================================================================ strconv *)

Lemma fmt_fuel_dec_fuel f : forall n acc, fmt_fuel f n acc = dec_fuel f n acc.
Proof. induction f as [|f IH]; intros n acc; cbn; [reflexivity|]. rewrite IH. reflexivity. Qed.

Lemma fmt_d_dec_Z z : fmt_d z = dec_Z z.
Proof. destruct z; cbn; unfold fmt_N, dec_N; rewrite ?fmt_fuel_dec_fuel; reflexivity. Qed.

Lemma w64_wrap64 z : w64 z = wrap64 z.
Proof. reflexivity. Qed.

Lemma http_digits_val l : forall a,
  Request.digits_val l (Z.of_N a) = option_map Z.of_N (Http.digits_val l a).
Proof.
  induction l as [|c l IH]; intros a; cbn; [reflexivity|].
  change (Http.is_digit c) with (Request.is_digit c). destruct (Request.is_digit c); [|reflexivity].
  rewrite <- IH. f_equal. lia.
Qed.

Lemma parse_int64_parse_int l : parse_int64 l = parse_int l.
Proof.
  assert (G : forall (neg : bool) (ds : bytes),
     match parse_digits ds with
     | Some n => if neg then (if Z.of_N n <=? two63 then Some (- Z.of_N n) else None)
                 else (if Z.of_N n <? two63 then Some (Z.of_N n) else None)
     | None => None
     end =
     match ds with
     | [] => None
     | _ => match Request.digits_val ds 0 with
            | None => None
            | Some v => let v' := if neg then - v else v in
                        if (min_int64 <=? v') && (v' <=? max_int64) then Some v' else None
            end
     end).
  { intros neg ds. unfold parse_digits. destruct ds as [|c ds]; [reflexivity|].
    change 0 with (Z.of_N 0). rewrite http_digits_val.
    destruct (Http.digits_val (c :: ds) 0) as [n|]; [|reflexivity]. cbn [option_map].
    unfold two63, min_int64, max_int64. destruct neg; cbv zeta.
    - destruct (Z.leb_spec (Z.of_N n) 9223372036854775808);
      destruct (Z.leb_spec (-9223372036854775808) (- Z.of_N n));
      destruct (Z.leb_spec (- Z.of_N n) 9223372036854775807); cbn; try reflexivity; lia.
    - destruct (Z.ltb_spec (Z.of_N n) 9223372036854775808);
      destruct (Z.leb_spec (-9223372036854775808) (Z.of_N n));
      destruct (Z.leb_spec (Z.of_N n) 9223372036854775807); cbn; try reflexivity; lia. }
  unfold parse_int64, parse_int. destruct l as [|c r]; [reflexivity|].
  destruct (N.eqb_spec c 43) as [->|N43]; [apply (G false r)|].
  destruct (N.eqb_spec c 45) as [->|N45]; [apply (G true r)|].
  destruct c as [|q]; [exact (G false (0%N :: r))|].
  do 6 (destruct q as [q|q|]; try (match goal with |- context [parse_digits ?l] => exact (G false l) end));
    congruence.
Qed.

Lemma parse_int_digit_head c l : is_digit c = true ->
  parse_int (c :: l) = match Request.digits_val (c :: l) 0 with
                       | None => None
                       | Some v => if (min_int64 <=? v) && (v <=? max_int64) then Some v else None
                       end.
Proof.
  intros H. apply is_digit_range in H.
  assert (E : (c = 48 \/ c = 49 \/ c = 50 \/ c = 51 \/ c = 52 \/ c = 53 \/ c = 54 \/ c = 55 \/ c = 56 \/ c = 57)%N) by lia.
  repeat (destruct E as [->|E]; [reflexivity|]). subst. reflexivity.
Qed.

Lemma parse_int_dec_Z z : min_int64 <= z <= max_int64 -> parse_int (dec_Z z) = Some z.
Proof.
  intros [Hlo Hhi]. destruct z as [|p|p]; [reflexivity| |]; cbn [dec_Z].
  - destruct (dec_N_spec (N.pos p)) as (D & V & NE).
    destruct (dec_N (N.pos p)) as [|c l] eqn:E; [congruence|].
    cbn [forallb] in D. apply andb_true_iff in D as [Dc _].
    rewrite (parse_int_digit_head c l Dc), V. cbn [Z.of_N].
    replace (min_int64 <=? Z.pos p) with true by (symmetry; apply Z.leb_le; lia).
    replace (Z.pos p <=? max_int64) with true by (symmetry; apply Z.leb_le; lia). reflexivity.
  - destruct (dec_N_spec (N.pos p)) as (D & V & NE). unfold parse_int.
    destruct (dec_N (N.pos p)) as [|c l] eqn:E; [congruence|]. rewrite V. cbn [Z.of_N]. cbv zeta.
    replace (min_int64 <=? - Z.pos p) with true by (symmetry; apply Z.leb_le; lia).
    replace (- Z.pos p <=? max_int64) with true by (symmetry; apply Z.leb_le; lia). reflexivity.
Qed.

Lemma http_parse_range l : Http.parse_range l = Request.parse_range l.
Proof.
  unfold Http.parse_range, Request.parse_range. destruct (cut_byte 45 l) as [[a b]|]; [|reflexivity].
  rewrite !parse_int64_parse_int. reflexivity.
Qed.

Lemma http_range_string a b : Http.range_string a b = Request.range_string a b.
Proof. unfold Http.range_string, Request.range_string. rewrite !fmt_d_dec_Z. reflexivity. Qed.

Lemma wrap64_small z : min_int64 <= z <= max_int64 -> wrap64 z = z.
Proof.
  intros H. unfold wrap64, min_int64, max_int64 in *. rewrite Z.mod_small; lia.
Qed.

(* ================================================================ headers *)

Lemma hget_filter_other k k' (h : Server.headers) : beqb k k' = false ->
  Server.hget k (filter (fun kv => negb (beqb k' (fst kv))) h) = Server.hget k h.
Proof.
  intros Hk. induction h as [|[a v] h IH]; [reflexivity|]. cbn [filter fst Server.hget].
  destruct (beqb k' a) eqn:Ea; cbn [negb].
  - apply beqb_eq in Ea. subst a. rewrite Hk. exact IH.
  - cbn [Server.hget]. rewrite IH. reflexivity.
Qed.

Lemma hget_hset k k' v h :
  Server.hget k (hset k' v h) = if beqb k k' then Some v else Server.hget k h.
Proof.
  unfold hset. cbn [Server.hget]. destruct (beqb k k') eqn:E; [reflexivity|]. now apply hget_filter_other.
Qed.

Lemma http_hget k (h : Server.headers) :
  Http.hget k h = match Server.hget k h with Some v => v | None => [] end.
Proof.
  induction h as [|[a v] h IH]; [reflexivity|]. cbn. destruct (beqb k a); [reflexivity | exact IH].
Qed.

(* closed comparisons of header names and other literals *)
Ltac lit_beqb :=
  repeat match goal with
         | |- context [beqb ?a ?b] =>
             let v := eval vm_compute in (beqb a b) in
             lazymatch v with
             | true => change (beqb a b) with true
             | false => change (beqb a b) with false
             end
         end.

Ltac hdrs := rewrite ?http_hget, ?hget_hset; lit_beqb; cbn [Server.hget].

(* ================================================================ method and URL of a request *)

Lemma construct_method q : fst (construct (req_of q)) = meth_bytes (kind_method (Http.q_kind q)).
Proof. destruct q as [k rp dg tg fr up n la]. destruct k; reflexivity. Qed.

(* the codec statement for one request: what construct renders parses back as r' *)
Definition codec_at (linked : alg -> bool) (r r' : request) : Prop :=
  exists path rawq,
    url_parse_v2 (snd (construct r)) = Ok (path, rawq) /\
    parse_req linked (fst (construct r)) path rawq = Ok r'.

Lemma codec_construct_ok linked r r' : codec_at linked r r' -> Construct linked r = Ok (construct r).
Proof.
  intros (p & q & U & P). unfold Construct. destruct (construct r) as [m u]. cbn [fst snd] in U, P.
  now rewrite U, P.
Qed.

(* ================================================================ statuses *)

Lemma rs_status_of_server_resp m r : rs_status (of_server_resp m r) = p_status r.
Proof.
  unfold of_server_resp. destruct (meth_eqb m MHead); [reflexivity|].
  destruct (no_body_status (p_status r)); [reflexivity|]. destruct (declared_length (p_hdrs r)); reflexivity.
Qed.

Lemma rs_header_of_server_resp m r : rs_header (of_server_resp m r) = p_hdrs r.
Proof.
  unfold of_server_resp. destruct (meth_eqb m MHead); [reflexivity|].
  destruct (no_body_status (p_status r)); [reflexivity|]. destruct (declared_length (p_hdrs r)); reflexivity.
Qed.

Definition redirect_status (st : Z) : bool :=
  (st =? 301) || (st =? 302) || (st =? 303) || (st =? 307) || (st =? 308).

Lemma no_redirect m st ireq : redirect_status st = false -> redirect_behavior m st ireq = None.
Proof.
  unfold redirect_status, redirect_behavior. intros H.
  apply orb_false_iff in H as [H H308]. apply orb_false_iff in H as [H H307].
  rewrite H, H307, H308. reflexivity.
Qed.

Section Exchange.
  Variable linked : alg -> bool.
  Variable hash : bytes -> bytes -> bytes.
  Variable subject_of : bytes -> option (option bytes).
  Variable media : bytes -> bytes.
  Variable enc : jval -> bytes.
  Variable dec_errors : bytes -> option (list werr).
  Variable dec_names : bool -> bytes -> option (list bytes).
  Variable dec_index : bytes -> option (list desc).
  Variable redirect : bytes -> bytes -> bytes * bytes.
  Variable B : Type.
  Variable bstep : backend B.
  Variable o : opts.

  Notation serve := (serve_stack linked hash subject_of enc redirect bstep o).
  Notation env := (stack_env linked hash media dec_errors dec_names dec_index).
  Notation shandle := (server_handle linked hash subject_of enc redirect B bstep o).

  Definition after (v : srv B) (b' : B) (tr : list ev) : srv B :=
    mksrv b' (sv_tr v ++ tr) (sv_panic v) (sv_outside v).

  Lemma serve_ok v rq sreq b' tr resp :
    to_server_req rq = Ok sreq ->
    shandle (sv_b v) sreq = (b', tr, Ok resp) ->
    serve v rq = (after v b' tr, Some (of_server_resp (rq_method rq) resp)).
  Proof. intros Hq Hh. unfold serve_stack. rewrite Hq, Hh. reflexivity. Qed.

  (* the response in the client's hands after one exchange *)
  Definition got (w : world (srv B)) (rq : Http.hreq) (resp : Server.hresp) : Http.resp :=
    {| hr_idx := length (w_log w); hr_req := rq; hr_rs := of_server_resp (rq_method rq) resp;
       hr_rest := b_data (rs_body (of_server_resp (rq_method rq) resp)) |}.

  Definition logged (w : world (srv B)) (rq : Http.hreq) (resp : Server.hresp) (v' : srv B) : world (srv B) :=
    {| w_srv := v';
       w_log := w_log w ++ [{| en_req := rq; en_status := Some (p_status resp); en_read := 0 |}] |}.

  (* client.do over the stack for an exchange that is not redirected *)
  Lemma client_do_stack rq oks w sreq b' tr resp :
    to_server_req rq = Ok sreq ->
    shandle (sv_b (w_srv w)) sreq = (b', tr, Ok resp) ->
    redirect_status (p_status resp) = false ->
    client_do (srv B) serve env rq oks w =
      let w1 := logged w rq resp (after (w_srv w) b' tr) in
      let r := got w rq resp in
      if status_accepted oks (p_status resp) then (w1, Ok r)
      else if negb (is_ok_status (p_status resp)) then fail_make_error (srv B) env r w1
      else (w1, Err (Plain (s "unexpected HTTP response code"))).
  Proof.
    intros Hq Hh Hr. unfold client_do, http_do. cbn [do_hops]. unfold round_trip.
    rewrite (serve_ok _ _ _ _ _ _ Hq Hh).
    unfold Http.status. cbn [hr_rs]. rewrite rs_status_of_server_resp, (no_redirect _ _ _ Hr).
    unfold got, logged. cbn [hr_rs]. rewrite rs_status_of_server_resp. reflexivity.
  Qed.

  (* ---------------------------------------------------------- the error exit, both sides *)

  Definition json_ct : bytes := s "application/json".

  (* what ociregistry.WriteError leaves on the ResponseWriter *)
  Definition err_resp (hdrs0 : Server.headers) (wr : wire) : Server.hresp :=
    mkresp (r_status wr) (hset H_ctype json_ct hdrs0) (enc (JErr (r_err wr))) (Some (JErr (r_err wr))).

  Lemma write_error_ok (st : hst B) e wr :
    serve_error go_sprefix go_cprefix e = Ok wr ->
    w_status (h_w st) = None -> w_body (h_w st) = [] ->
    write_error enc B e st =
      (mkst (h_b st) (h_tr st)
            (mkrw (hset H_ctype json_ct (w_hdrs (h_w st))) (Some (r_status wr)) (enc (JErr (r_err wr)))
                  (Some (JErr (r_err wr)))), Ok tt).
  Proof.
    intros Hs Hw Hb. unfold write_error. rewrite Hs. unfold set_hdr, write_header, write_body, upd_w.
    cbn [h_w h_b h_tr]. rewrite Hw. cbn [w_status w_hdrs w_body w_json]. rewrite Hb. reflexivity.
  Qed.

  (* the hop of Model/Errors.v that this exchange is: no wrapping on either side, the body
     length is that of the JSON document *)
  Definition hopspec_of (head : bool) (wr : wire) : hopspec :=
    {| h_head := head; h_swrap := WNone; h_cwrap := WNone; h_len := blen (enc (JErr (r_err wr))) |}.

  Definition client_error (head : bool) (wr : wire) : gerr :=
    Errors.make_error (response_of (hopspec_of head wr) wr).

  Hypothesis media_json : media json_ct = json_ct.

  Lemma firstn_short {A} n (l : list A) : (length l <= n)%nat -> firstn n l = l.
  Proof. intros H. apply firstn_all2. exact H. Qed.

  Lemma make_error_stack w rq hdrs0 wr (w1 : world (srv B)) :
    Server.hget H_clen hdrs0 = None ->
    no_body_status (r_status wr) = false ->
    dec_errors (enc (JErr (r_err wr))) = Some [r_err wr] ->
    blen (enc (JErr (r_err wr))) <= 8192 ->
    Client.make_error (srv B) env (got w rq (err_resp hdrs0 wr)) w1 =
      ({| w_srv := w_srv w1;
          w_log := add_read (length (w_log w))
                            (if meth_eqb (rq_method rq) MHead then 0 else blen (enc (JErr (r_err wr))))
                            (w_log w1) |},
       client_error (meth_eqb (rq_method rq) MHead) wr).
  Proof.
    intros Hcl Hnb Hdec Hlen. unfold Client.make_error, read_limited, got, client_error.
    cbn [hr_idx hr_req hr_rs hr_rest Http.status rheader].
    unfold of_server_resp, err_resp. cbn [p_status p_hdrs p_body].
    destruct (meth_eqb (rq_method rq) MHead) eqn:Hm.
    - cbn [rs_body b_data b_fail rs_status rs_header firstn skipn length andb].
      replace (firstn (Z.to_nat (Client.error_body_size_limit + 1)) []) with (@nil N) by (now rewrite firstn_nil).
      cbn [andb length]. unfold Http.status, rheader. cbn [hr_rs rs_status rs_header].
      unfold Errors.make_error, response_of, hopspec_of. cbn [rp_len rp_status rp_head h_head].
      unfold blenZ. cbn [length]. reflexivity.
    - rewrite Hnb. unfold declared_length. rewrite hget_hset. lit_beqb. rewrite Hcl.
      cbn [rs_body b_data b_fail rs_status rs_header andb].
      assert (Hl : (length (enc (JErr (r_err wr))) <= Z.to_nat (Client.error_body_size_limit + 1))%nat).
      { unfold blen in Hlen. unfold Client.error_body_size_limit. lia. }
      rewrite (firstn_short _ _ Hl). unfold Http.status, rheader. cbn [hr_rs rs_status rs_header].
      rewrite http_hget, hget_hset. lit_beqb.
      fold json_ct. cbn [e_media e_json_errors stack_env]. rewrite media_json, Hdec.
      unfold Errors.make_error, response_of, hopspec_of, blenZ, blen.
      cbn [rp_len rp_status rp_head rp_media rp_body rp_txt h_head h_len]. reflexivity.
  Qed.

End Exchange.
