(* A view of a view (property C13): Sub(Sub(r, p1), p2) is the view Sub(r, p1/p2).
   The outer view's calls go to the inner view, the inner view's calls to the registry;
   names, start points, scopes and listings compose to those of the joined prefix.  The
   scope part needs that NewScope's result is canonical (sort + compact of a list is
   determined by the list's members): Base/Sorted.v. *)
From Coq Require Import String.
From OCI Require Import Base.Sorted.
From OCI Require Import Model.FilterLegacy Proofs.FilterSelect Proofs.FilterSub.
From OCI Require Import Model.Filter.   (* last: Filter.filter_map, not List.filter_map *)

(* ---------- NewScope is canonical ---------- *)

Lemma rs_compare_total : total_cmp rs_compare.
Proof.
  split.
  - intros a b. unfold rs_compare. split.
    + destruct (bcmp (rs_type a) (rs_type b)) eqn:E1; try discriminate.
      destruct (bcmp (rs_resource a) (rs_resource b)) eqn:E2; try discriminate. intros E3.
      apply bcmp_eq in E1, E2, E3. destruct a, b; cbn in *; congruence.
    + intros <-. now rewrite !bcmp_refl.
  - intros a b. unfold rs_compare.
    rewrite (bcmp_antisym (rs_type a) (rs_type b)), (bcmp_antisym (rs_resource a) (rs_resource b)),
            (bcmp_antisym (rs_action a) (rs_action b)).
    destruct (bcmp (rs_type a) (rs_type b)), (bcmp (rs_resource a) (rs_resource b)),
             (bcmp (rs_action a) (rs_action b)); reflexivity.
  - intros a b c. unfold rs_compare.
    destruct (bcmp (rs_type a) (rs_type b)) eqn:A1; try discriminate;
    destruct (bcmp (rs_type b) (rs_type c)) eqn:B1; try discriminate;
      try (apply bcmp_eq in A1; rewrite A1); try (apply bcmp_eq in B1; rewrite <- ?B1);
      rewrite ?A1, ?B1, ?bcmp_refl; try reflexivity.
    + destruct (bcmp (rs_resource a) (rs_resource b)) eqn:A2; try discriminate;
      destruct (bcmp (rs_resource b) (rs_resource c)) eqn:B2; try discriminate;
        try (apply bcmp_eq in A2; rewrite A2); try (apply bcmp_eq in B2; rewrite <- ?B2);
        rewrite ?A2, ?B2, ?bcmp_refl; try reflexivity.
      * apply bcmp_lt_trans.
      * intros _ _. now rewrite (bcmp_lt_trans _ _ _ A2 B2).
    + intros _ _. now rewrite (bcmp_lt_trans _ _ _ A1 B1).
Qed.

Lemma rs_insert_insert a l : rs_insert a l = insert rs_compare a l.
Proof. induction l as [|b l IH]; cbn; [reflexivity|]. now rewrite IH. Qed.

Lemma rs_sort_isort l : rs_sort l = isort rs_compare l.
Proof. induction l as [|a l IH]; cbn; [reflexivity|]. fold (rs_sort l). now rewrite IH, rs_insert_insert. Qed.

Lemma rs_compact_compact l : rs_compact l = compact rs_eqb l.
Proof.
  induction l as [|a l IH]; [reflexivity|]. destruct l as [|b l]; [reflexivity|].
  change (rs_compact (a :: b :: l)) with (if rs_eqb a b then rs_compact (b :: l) else a :: rs_compact (b :: l)).
  change (compact rs_eqb (a :: b :: l)) with (if rs_eqb a b then compact rs_eqb (b :: l) else a :: compact rs_eqb (b :: l)).
  now rewrite IH.
Qed.

(* the result of NewScope is determined by the set of resource scopes it is given *)
Lemma new_scope_canonical l1 l2 : (forall x, In x l1 <-> In x l2) -> new_scope l1 = new_scope l2.
Proof.
  intros H. unfold new_scope. rewrite !rs_sort_isort, !rs_compact_compact.
  apply (sorted_lt_unique rs_compare rs_compare_total);
    try (apply (sort_compact_sorted rs_compare rs_eqb rs_compare_total rs_eqb_eq)).
  intros v. rewrite !(sort_compact_In rs_compare rs_eqb rs_eqb_eq). apply H.
Qed.

(* ---------- the pieces compose ---------- *)

(* p1/p2 *)
Definition joined (p1 p2 : bytes) : bytes := p1 ++ [slash] ++ p2.

Lemma sub_repo_joined p1 p2 n : sub_repo p1 (sub_repo p2 n) = sub_repo (joined p1 p2) n.
Proof. unfold sub_repo, joined. now rewrite <- !app_assoc. Qed.

Lemma map_rscope_joined p1 p2 rs : map_rscope p1 (map_rscope p2 rs) = map_rscope (joined p1 p2) rs.
Proof.
  unfold map_rscope. destruct (beqb (rs_type rs) TypeRepository) eqn:E; cbn [rs_type rs_resource rs_action].
  - now rewrite E, sub_repo_joined.
  - now rewrite E.
Qed.

Lemma map_scopes_joined p1 p2 ctx : map_scopes p1 (map_scopes p2 ctx) = map_scopes (joined p1 p2) ctx.
Proof.
  destruct ctx as [|[|a l]]; try reflexivity.
  cbn [map_scopes]. set (L := a :: l).
  destruct (new_scope (map (map_rscope p2) L)) as [|b m] eqn:En.
  - exfalso. assert (Hi : In (map_rscope p2 a) (new_scope (map (map_rscope p2) L))).
    { apply new_scope_in. now left. }
    rewrite En in Hi. exact Hi.
  - rewrite <- En. f_equal. apply new_scope_canonical. intros x. rewrite !in_map_iff. split.
    + intros [y [<- Hy]]. apply new_scope_in, in_map_iff in Hy as [z [<- Hz]].
      exists z. split; [symmetry; apply map_rscope_joined | exact Hz].
    + intros [z [<- Hz]]. exists (map_rscope p2 z). split; [apply map_rscope_joined|].
      apply new_scope_in, in_map_iff. now exists z.
Qed.

Lemma sub_start_joined p1 p2 start : sub_start p1 (sub_start p2 start) = sub_start (joined p1 p2) start.
Proof.
  destruct start as [|c start]; [reflexivity|]. unfold sub_start at 2 3. unfold joined.
  destruct ((p2 ++ [slash]) ++ c :: start) as [|d rest] eqn:E.
  - destruct p2; discriminate.
  - rewrite <- E. unfold sub_start. rewrite E, <- E. now rewrite <- !app_assoc.
Qed.

Lemma sub_op_joined p1 p2 o : sub_op p1 (sub_op p2 o) = sub_op (joined p1 p2) o.
Proof.
  destruct o; cbn [sub_op map_op_repos]; rewrite ?sub_repo_joined, ?sub_start_joined; reflexivity.
Qed.

Lemma sub_op_keeps_method p o : op_method (sub_op p o) = op_method o.
Proof. destruct o; reflexivity. Qed.

Lemma call_ctx_joined p1 p2 ctx o :
  call_ctx p1 (call_ctx p2 ctx o) (sub_op p2 o) = call_ctx (joined p1 p2) ctx o.
Proof.
  unfold call_ctx. rewrite sub_op_keeps_method. destruct (op_method o); [apply map_scopes_joined | reflexivity].
Qed.

(* removing p ++ q is removing p, then q *)
Lemma cut_prefix_app_l p q x :
  cut_prefix (p ++ q) x = match cut_prefix p x with Some y => cut_prefix q y | None => None end.
Proof.
  destruct (cut_prefix p x) as [y|] eqn:E1.
  - apply cut_prefix_some in E1. subst x. destruct (cut_prefix q y) as [z|] eqn:E2.
    + apply cut_prefix_some in E2. subst y. rewrite app_assoc. apply cut_prefix_app.
    + destruct (cut_prefix (p ++ q) (p ++ y)) as [z|] eqn:E3; [|reflexivity].
      apply cut_prefix_some in E3. rewrite <- app_assoc in E3. apply app_inv_head in E3. subst y.
      rewrite cut_prefix_app in E2. discriminate.
  - destruct (cut_prefix (p ++ q) x) as [z|] eqn:E3; [|reflexivity].
    apply cut_prefix_some in E3. subst x. rewrite <- app_assoc, cut_prefix_app in E1. discriminate.
Qed.

Lemma filter_map_filter_map {A C D} (f : A -> option C) (g : C -> option D) l :
  filter_map g (filter_map f l) =
  filter_map (fun a => match f a with Some c => g c | None => None end) l.
Proof.
  induction l as [|a l IH]; cbn; [reflexivity|].
  destruct (f a) as [c|]; cbn; [|exact IH]. destruct (g c); now rewrite IH.
Qed.

Lemma filter_map_ext {A C} (f g : A -> option C) l : (forall a, f a = g a) -> filter_map f l = filter_map g l.
Proof. intros H. induction l as [|a l IH]; cbn; [reflexivity|]. now rewrite H, IH. Qed.

Lemma sub_post_joined p1 p2 o r :
  sub_post p2 o (sub_post p1 (sub_op p2 o) r) = sub_post (joined p1 p2) o r.
Proof.
  destruct o; try reflexivity. cbn [sub_op sub_post]. unfold repos_result.
  destruct r as [[]| | |]; try reflexivity.
  rewrite filter_map_filter_map. do 2 f_equal. apply filter_map_ext. intros a.
  unfold joined. replace ((p1 ++ [slash] ++ p2) ++ [slash]) with ((p1 ++ [slash]) ++ (p2 ++ [slash]))
    by now rewrite <- !app_assoc.
  symmetry. apply cut_prefix_app_l.
Qed.

(* ---------- the theorem ---------- *)

(* a view used as the registry another wrapper is given: what it does to its own backend
   is not visible to that wrapper *)
Definition as_registry {B} (t : scope -> tstep B bcall) : ctx_registry B := fun c st o => fst (t c st o).

Lemma joined_nonempty p1 p2 : joined p1 p2 <> [].
Proof. unfold joined. destruct p1; discriminate. Qed.

Section Stack.
  Context {B : Type}.
  Variables p1 p2 : bytes.
  Hypothesis H1 : p1 <> [].
  Hypothesis H2 : p2 <> [].
  Variable cbstep : ctx_registry B.

  (* One call on Sub(Sub(r, p1), p2): the caller gets the state and the result that
     Sub(r, p1/p2) gives; the outer view makes exactly one call on the inner view, and the
     inner view, for that call, makes on r exactly the call that Sub(r, p1/p2) makes. *)
  Lemma sub_of_sub_step ctx st o :
    sub p2 (as_registry (sub p1 cbstep)) ctx st o =
      (fst (sub (joined p1 p2) cbstep ctx st o), [(call_ctx p2 ctx o, sub_op p2 o)]) /\
    snd (sub p1 cbstep (call_ctx p2 ctx o) st (sub_op p2 o)) = snd (sub (joined p1 p2) cbstep ctx st o).
  Proof.
    rewrite (sub_nonempty_prefix p2) by exact H2. rewrite (sub_nonempty_prefix p1) by exact H1.
    rewrite (sub_nonempty_prefix (joined p1 p2)) by apply joined_nonempty.
    rewrite (sub_step_spec p2), (sub_step_spec (joined p1 p2)). unfold as_registry.
    rewrite (sub_nonempty_prefix p1) by exact H1.
    rewrite (sub_step_spec p1). cbn [fst snd].
    rewrite call_ctx_joined, sub_op_joined, sub_post_joined. split; reflexivity.
  Qed.

  (* over every history: same results, same final state of the registry underneath *)
  Lemma sub_of_sub ctx h : forall st,
    (fst (trun (sub p2 (as_registry (sub p1 cbstep)) ctx) st h),
     map fst (snd (trun (sub p2 (as_registry (sub p1 cbstep)) ctx) st h))) =
    (fst (trun (sub (joined p1 p2) cbstep ctx) st h),
     map fst (snd (trun (sub (joined p1 p2) cbstep ctx) st h))).
  Proof.
    induction h as [|o h IH]; intros st; [reflexivity|]. cbn [trun].
    destruct (sub_of_sub_step ctx st o) as [E _]. rewrite E.
    destruct (sub (joined p1 p2) cbstep ctx st o) as [[s1 r] t]. cbn [fst].
    specialize (IH s1).
    destruct (trun (sub p2 (as_registry (sub p1 cbstep)) ctx) s1 h) as [s2 rs].
    destruct (trun (sub (joined p1 p2) cbstep ctx) s1 h) as [s2' rs']. cbn [fst snd map] in *.
    injection IH as -> ->. reflexivity.
  Qed.

  (* ... and the calls that reach the registry underneath are, call by call, those that
     Sub(r, p1/p2) makes: every repository they name is under p1/p2/ *)
  Lemma sub_of_sub_names ctx st o c r :
    In c (snd (sub p1 cbstep (call_ctx p2 ctx o) st (sub_op p2 o))) -> In r (op_repos (snd c)) ->
    under (joined p1 p2) r.
  Proof.
    destruct (sub_of_sub_step ctx st o) as [_ E]. rewrite E.
    rewrite (sub_nonempty_prefix (joined p1 p2)) by apply joined_nonempty. apply sub_names.
  Qed.
End Stack.

(* the hypotheses are satisfiable, and the order of the prefixes matters *)
Example sub_of_sub_example :
  sub_op (s "team") (sub_op (s "proj") (GetTag (s "n") (s "t"))) = GetTag (s "team/proj/n") (s "t") /\
  sub_op (joined (s "proj") (s "team")) (GetTag (s "n") (s "t")) <> GetTag (s "team/proj/n") (s "t").
Proof. split; [reflexivity | vm_compute; discriminate]. Qed.
