(* The model of ociregistry/ociref as it is now (Model/Ref.v, which follows the Go code line by
   line) accepts exactly the grammars of the specifications (Model/NameSpec.v, which the
   correspondence of C02 evaluates): repository names, tags, digests.  So on the unchanged
   library the verdicts the real validators give and the verdicts the C02 models are run with
   coincide for EVERY string, not only for the ones a run happens to mention; after a change
   to a validator they differ, and the difference is what C02 reports. *)
From Coq Require Import String Lia Btauto.

From OCI Require Import Model.NameSpec Model.Ref Proofs.Ref.

Lemma forallb_eq {A} (f g : A -> bool) l : (forall a, f a = g a) -> forallb f l = forallb g l.
Proof. intros H. induction l as [|a l IH]; cbn; [reflexivity|]. now rewrite H, IH. Qed.

(* ---------- tags ---------- *)

Lemma sp_word_is_word c : sp_word c = is_word c.
Proof. unfold sp_word, sp_between, is_word, b_us. btauto. Qed.

Lemma sp_tagchar_tag_char c : sp_tagchar c = tag_char c.
Proof. unfold sp_tagchar, tag_char, b_dot, b_dash. now rewrite sp_word_is_word. Qed.

Lemma spec_valid_tag_tag_spec w : spec_valid_tag w = tag_spec w.
Proof.
  destruct w as [|c r]; [reflexivity|]. unfold spec_valid_tag, tag_spec.
  rewrite sp_word_is_word. f_equal; [f_equal|].
  - apply forallb_eq. apply sp_tagchar_tag_char.
  - unfold blen. cbn [length].
    destruct (Nat.leb_spec (length r) 127); [symmetry; apply Z.leb_le | symmetry; apply Z.leb_gt]; lia.
Qed.

(* ociref.IsValidTag, as modelled, is the tag grammar of the distribution specification *)
Theorem is_valid_tag_is_spec w : is_valid_tag w = Ok (spec_valid_tag w).
Proof. rewrite spec_valid_tag_tag_spec. apply is_valid_tag_spec. Qed.

(* ---------- repository names ---------- *)

Definition req (a b : regex) : Prop := forall w, Matches a w <-> Matches b w.

Lemma req_refl a : req a a.
Proof. intros w. tauto. Qed.

Lemma req_cat a a' b b' : req a a' -> req b b' -> req (Cat a b) (Cat a' b').
Proof.
  intros Ha Hb w. rewrite !m_cat.
  split; intros [u [v [-> [H1 H2]]]]; exists u, v; repeat split; try apply Ha; try apply Hb; auto.
Qed.

Lemma req_alt a a' b b' : req a a' -> req b b' -> req (Alt a b) (Alt a' b').
Proof. intros Ha Hb w. rewrite !m_alt. rewrite (Ha w), (Hb w). tauto. Qed.

Lemma star_mono a a' : (forall w, Matches a w -> Matches a' w) -> forall w, Matches (Star a) w -> Matches (Star a') w.
Proof.
  intros Ha w H. remember (Star a) as r eqn:Er. revert Er.
  induction H; intros Er; try discriminate.
  - constructor.
  - injection Er as ->. constructor; auto.
Qed.

Lemma req_star a a' : req a a' -> req (Star a) (Star a').
Proof. intros Ha w. split; apply star_mono; intros u; apply Ha. Qed.

Lemma req_plus a a' : req a a' -> req (Plus a) (Plus a').
Proof. intros H. unfold Plus. apply req_cat; [exact H | now apply req_star]. Qed.

(* one dot or one underscore, as a class and as two alternatives *)
Lemma dot_us_class w :
  Matches (pos [one b_dot; one b_us]) w <-> Matches (Byte 46) w \/ Matches (Byte 95) w.
Proof.
  unfold pos. rewrite m_chr, !m_byte. split.
  - intros [c [-> H]]. unfold cls_mem, in_range, one, b_dot, b_us in H.
    cbn [c_neg c_ranges existsb fst snd] in H. rewrite xorb_false_l, orb_false_r in H.
    apply orb_true_iff in H as [H|H]; apply andb_true_iff in H as [H1 H2];
      apply N.leb_le in H1; apply N.leb_le in H2.
    + left. f_equal. lia.
    + right. f_equal. lia.
  - intros [->| ->]; eexists; split; reflexivity.
Qed.

Lemma sep_req : req sp_sep separator.
Proof.
  intros w. unfold sp_sep, separator. rewrite !m_alt, dot_us_class.
  change (Lit [b_us; b_us]) with (Lit [95; 95]).
  change (Plus (pos [one b_dash])) with (Plus (Byte 45)). tauto.
Qed.

Lemma elem_req : req sp_elem pathComponent.
Proof.
  unfold sp_elem, pathComponent. apply req_cat; [apply req_refl|].
  apply req_star. apply req_cat; [apply sep_req | apply req_refl].
Qed.

Lemma name_req : req sp_name repoName.
Proof.
  unfold sp_name, repoName. apply req_cat; [apply elem_req|].
  apply req_star. apply req_cat; [apply req_refl | apply elem_req].
Qed.

Lemma bool_iff (a b : bool) : (a = true <-> b = true) -> a = b.
Proof. destruct a, b; intros [H1 H2]; auto; [symmetry; auto]. Qed.

Theorem spec_valid_repo_is_repoPat w : spec_valid_repo w = matches repoPat w.
Proof. apply bool_iff. unfold spec_valid_repo, repoPat. rewrite !matches_sem. apply name_req. Qed.

(* ociref.IsValidRepository, as modelled, is the <name> grammar of the distribution specification *)
Theorem is_valid_repository_is_spec w : is_valid_repository w = Ok (spec_valid_repo w).
Proof. unfold is_valid_repository. now rewrite spec_valid_repo_is_repoPat. Qed.

(* ---------- digests ---------- *)

Lemma strip_prefix_spec p w e : strip_prefix p w = Some e <-> w = p ++ e.
Proof.
  revert w; induction p as [|a p IH]; intros w; cbn.
  - split; [now intros [= ->] | now intros ->].
  - destruct w as [|b w]; [split; discriminate|].
    destruct (N.eqb_spec a b) as [->|Hn].
    + rewrite IH. split; [now intros -> | now intros [= ->]].
    + split; [discriminate | intros [= E _]; congruence].
Qed.

Lemma rep_chr_sem k n w :
  Matches (Rep n (Chr k)) w <-> length w = n /\ forallb (cls_mem k) w = true.
Proof.
  revert w; induction n as [|n IH]; intros w; cbn [Rep].
  - rewrite m_eps. split; [now intros -> | intros [H _]; now destruct w].
  - rewrite m_cat. split.
    + intros [u [v [-> [H1 H2]]]]. apply m_chr in H1 as [c [-> Hc]]. apply IH in H2 as [H2 H3].
      cbn. now rewrite Hc, H2, H3.
    + intros [Hl Hf]. destruct w as [|c w]; [discriminate|]. cbn in Hl, Hf.
      apply andb_true_iff in Hf as [Hc Hf]. exists [c], w. repeat split.
      * now constructor.
      * apply IH. split; [lia | exact Hf].
Qed.

Lemma lhex_class c : cls_mem (mkcls false [(97, 102); r_digit]) c = sp_lhex c.
Proof.
  unfold cls_mem, in_range, r_digit, sp_lhex, sp_between. cbn [c_neg c_ranges existsb fst snd].
  rewrite xorb_false_l, orb_false_r. apply orb_comm.
Qed.

(* what both sides say: a registered algorithm, a colon, lower-case hex of the hash's length *)
Definition digest_shape (d : bytes) : Prop :=
  exists g e, d = alg_name g ++ b_colon :: e /\ length e = (2 * alg_size g)%nat /\ forallb sp_lhex e = true.

Lemma spec_valid_digest_shape d : spec_valid_digest d = true <-> digest_shape d.
Proof.
  unfold spec_valid_digest, sp_algorithms, digest_shape. cbn [existsb fst snd]. rewrite orb_false_r, !orb_true_iff.
  split.
  - intros [H|[H|H]];
      [exists SHA256 | exists SHA384 | exists SHA512];
      match type of H with match strip_prefix ?p d with _ => _ end = true =>
        destruct (strip_prefix p d) as [e|] eqn:E; [|discriminate] end;
      apply strip_prefix_spec in E; apply andb_true_iff in H as [H1 H2]; apply Nat.eqb_eq in H1;
      exists e; (split; [exact E | split; [exact H1 | exact H2]]).
  - intros [g [e [-> [Hl Hh]]]].
    destruct g; [left | right; left | right; right];
      match goal with |- match strip_prefix ?p ?w with _ => _ end = true =>
        assert (E : strip_prefix p w = Some e) by (now apply strip_prefix_spec) end;
      rewrite E, Hh, andb_true_r; apply Nat.eqb_eq; exact Hl.
Qed.

Section AllLinked.
  (* every registered hash implementation is linked into the binary (true of the harness:
     crypto/sha256 and crypto/sha512, which also provides SHA-384, are imported) *)
  Let linked : alg -> bool := fun _ => true.

  Lemma alg_name_no_colon g : ~ In b_colon (alg_name g).
  Proof. destruct g; cbn; unfold b_colon; intuition discriminate. Qed.

  Lemma alg_of_alg_name g : alg_of (alg_name g) = Some g.
  Proof. destruct g; reflexivity. Qed.

  Lemma encoded_ok g e :
    matches (encodedRe g) e = true <-> length e = (2 * alg_size g)%nat /\ forallb sp_lhex e = true.
  Proof.
    rewrite matches_sem. unfold encodedRe, pos. rewrite rep_chr_sem.
    rewrite (forallb_eq _ _ e lhex_class). tauto.
  Qed.

  Lemma digest_validate_shape d : digest_validate linked d = Ok tt <-> digest_shape d.
  Proof.
    unfold digest_validate, digest_shape. split.
    - destruct (cut_byte b_colon d) as [[a e]|] eqn:Ec; [|discriminate].
      apply cut_byte_some in Ec as [-> _].
      destruct (negb (nonempty a) || negb (nonempty e)); [discriminate|].
      unfold available. destruct (alg_of a) as [g|] eqn:Ea.
      + cbn [linked negb]. unfold alg_validate. rewrite Ea.
        destruct (Nat.eqb (alg_size g * 2) (length e)) eqn:El; cbn [negb]; [|discriminate].
        destruct (matches (encodedRe g) e) eqn:Em; [|discriminate]. intros _.
        apply alg_of_name in Ea. subst a. apply encoded_ok in Em. exists g, e. tauto.
      + cbn [negb]. destruct (negb (matches digestRegexp (a ++ b_colon :: e))); discriminate.
    - intros [g [e [-> [Hl Hh]]]].
      rewrite (cut_byte_app b_colon (alg_name g) e (alg_name_no_colon g)).
      assert (Hn : nonempty (alg_name g) = true) by (destruct g; reflexivity).
      assert (He : nonempty e = true) by (destruct e; [destruct g; discriminate | reflexivity]).
      rewrite Hn, He. cbn [negb orb]. unfold available. rewrite alg_of_alg_name. cbn [linked negb].
      unfold alg_validate. rewrite alg_of_alg_name.
      replace (Nat.eqb (alg_size g * 2) (length e)) with true by (symmetry; apply Nat.eqb_eq; lia).
      cbn [negb]. replace (matches (encodedRe g) e) with true; [reflexivity|].
      symmetry. apply encoded_ok. tauto.
  Qed.

  Lemma digest_validate_total d : digest_validate linked d = Ok tt \/ exists e, digest_validate linked d = Err e.
  Proof.
    unfold digest_validate. destruct (cut_byte b_colon d) as [[a e]|]; [|eauto].
    destruct (negb (nonempty a) || negb (nonempty e)); [eauto|].
    destruct (negb (available linked a)).
    - destruct (negb (matches digestRegexp d)); eauto.
    - unfold alg_validate. destruct (alg_of a) as [g|]; [|eauto].
      destruct (negb (Nat.eqb (alg_size g * 2) (length e))); [eauto|].
      destruct (matches (encodedRe g) e); eauto.
  Qed.

  (* Digest.Validate / ociref.IsValidDigest, as modelled, accept exactly the digests of the
     registered algorithms *)
  Theorem is_valid_digest_is_spec d : is_valid_digest linked d = Ok (spec_valid_digest d).
  Proof.
    unfold is_valid_digest. destruct (spec_valid_digest d) eqn:E.
    - apply spec_valid_digest_shape, digest_validate_shape in E. now rewrite E.
    - destruct (digest_validate_total d) as [H|[e H]].
      + apply digest_validate_shape, spec_valid_digest_shape in H. congruence.
      + now rewrite H.
  Qed.
End AllLinked.

(* the grammars are inhabited on both sides of the rare alternatives *)
Example spec_names_examples :
  spec_valid_repo (s "team__project/img") = true /\ spec_valid_repo (s "a--b.c_d/0") = true /\
  spec_valid_repo (s "a___b") = false /\ spec_valid_repo (s "a._b") = false /\ spec_valid_repo (s "a/") = false /\
  spec_valid_tag (s "_") = true /\ spec_valid_tag (s ".a") = false /\
  spec_valid_digest (s "sha256:e3b0c44298fc1c149afbf4c8996fb92427ae41e4649b934ca495991b7852b855") = true /\
  spec_valid_digest (s "sha256:E3B0C44298FC1C149AFBF4C8996FB92427AE41E4649B934CA495991B7852B855") = false.
Proof. vm_compute. repeat split. Qed.
