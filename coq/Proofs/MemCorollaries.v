(* C02 corollaries about single operations of the implementation model: which manifests
   are accepted, what Referrers and the listings return, which codes failures carry. *)
From Coq Require Import String Lia.
From OCI Require Import Model.Mem Model.MemSpec Model.MemRel Model.MemAccept Proofs.MemBasics Proofs.MemInv
  Proofs.MemSpecFacts Proofs.MemReach Proofs.MemRefine.

Section Corollaries.
  Variable hash : bytes -> bytes.
  Variable valid_digest : bytes -> bool.
  Variable valid_repo : bytes -> bool.
  Variable valid_tag : bytes -> bool.
  Variable decode_image : bytes -> option image_manifest.
  Variable decode_index : bytes -> option index_manifest.
  Variable cfg : config.

  Local Notation step := (step hash valid_digest valid_repo valid_tag decode_image decode_index cfg).
  Local Notation Inv := (Inv hash decode_image decode_index).
  Local Notation ref_wf := (ref_wf valid_digest).
  Local Notation ref_ok := (ref_ok valid_digest).
  Local Notation check_manifest := (check_manifest hash valid_digest decode_image decode_index).
  Local Notation check_refs := (check_refs hash valid_digest).
  Local Notation wf_present := (wf_present valid_digest decode_image decode_index).
  Local Notation subject_of := (subject_of decode_image decode_index).

  (* ---- acceptance of manifests ---- *)
  Lemma forallb_blob_refs_iff rp L :
    forallb (ref_ok rp) (map (pair KBlob) L) = true <->
    forall de, In de L -> ref_wf de = true /\ alookup (d_digest de) (blobs rp) <> None.
  Proof.
    rewrite forallb_forall. split.
    - intros H de Hi. specialize (H (KBlob, de) (in_map _ _ _ Hi)). unfold MemRefine.ref_ok in H. cbn in H.
      apply andb_true_iff in H as [H1 H2]. split; [exact H1 | now apply is_some_true].
    - intros H [k de'] Hi. apply in_map_iff in Hi as [de [E Hi]]. injection E as <- <-.
      destruct (H de Hi) as [H1 H2]. unfold MemRefine.ref_ok. cbn. rewrite H1. now apply is_some_true.
  Qed.
  Lemma forallb_man_refs_iff rp L :
    forallb (ref_ok rp) (map (pair KManifest) L) = true <->
    forall de, In de L -> ref_wf de = true /\ alookup (d_digest de) (manifests rp) <> None.
  Proof.
    rewrite forallb_forall. split.
    - intros H de Hi. specialize (H (KManifest, de) (in_map _ _ _ Hi)). unfold MemRefine.ref_ok in H. cbn in H.
      apply andb_true_iff in H as [H1 H2]. split; [exact H1 | now apply is_some_true].
    - intros H [k de'] Hi. apply in_map_iff in Hi as [de [E Hi]]. injection E as <- <-.
      destruct (H de Hi) as [H1 H2]. unfold MemRefine.ref_ok. cbn. rewrite H1. now apply is_some_true.
  Qed.
  Lemma forallb_subject_iff rp (o : option desc) :
    forallb (ref_ok rp) (match o with Some sd => [(KSubject, sd)] | None => [] end) = true <->
    forall sd, o = Some sd -> ref_wf sd = true.
  Proof.
    destruct o as [sd|]; cbn.
    - unfold MemRefine.ref_ok. cbn. rewrite !andb_true_r. split; [intros H sd' E; now injection E as <- | auto].
    - split; [discriminate | reflexivity].
  Qed.

  Lemma check_manifest_wf st r rp media data :
    (forall d, alookup d (blobs rp) = iblob st r d) ->
    (forall d, alookup d (manifests rp) = iman st r d) ->
    (is_some (check_manifest rp media data) = true <-> wf_present st r media data).
  Proof.
    intros Hb Hm. unfold Mem.check_manifest, Mem.manifest_refs, MemAccept.wf_present.
    destruct (beqb media MT_IMAGE).
    - destruct (decode_image data) as [m|]; cbn [option_map].
      + rewrite check_refs_okb. unfold image_refs.
        replace (map (pair KBlob) (im_layers m) ++ [(KBlob, im_config m)] ++
                 match im_subject m with Some sd => [(KSubject, sd)] | None => [] end)
          with (map (pair KBlob) (im_layers m ++ [im_config m]) ++
                match im_subject m with Some sd => [(KSubject, sd)] | None => [] end)
          by (rewrite map_app, <- app_assoc; reflexivity).
        rewrite forallb_app, andb_true_iff, forallb_blob_refs_iff, forallb_subject_iff. split.
        * intros [H1 H2]. exists m. split; [reflexivity|]. split; [|exact H2].
          intros de Hi. destruct (H1 de Hi) as [A B]. split; auto. now rewrite <- Hb.
        * intros (m' & E & H1 & H2). injection E as <-. split; auto.
          intros de Hi. destruct (H1 de Hi) as [A B]. split; auto. now rewrite Hb.
      + split; [discriminate | intros (m' & E & _); discriminate].
    - destruct (beqb media MT_INDEX); [|split; auto].
      destruct (decode_index data) as [m|]; cbn [option_map].
      + rewrite check_refs_okb. unfold index_refs.
        rewrite forallb_app, andb_true_iff, forallb_man_refs_iff, forallb_subject_iff. split.
        * intros [H1 H2]. exists m. split; [reflexivity|]. split; [|exact H2].
          intros de Hi. destruct (H1 de Hi) as [A B]. split; auto. now rewrite <- Hm.
        * intros (m' & E & H1 & H2). injection E as <-. split; auto.
          intros de Hi. destruct (H1 de Hi) as [A B]. split; auto. now rewrite Hm.
      + split; [discriminate | intros (m' & E & _); discriminate].
  Qed.

  (* A manifest pushed under a valid name (and not stopped by tag immutability) is accepted
     exactly when it has a media type, a valid digest, and - for the OCI image and index
     types - is well-formed with everything it references present; the subject may dangle. *)
  Lemma step_PushManifest_eq st r t data media :
    step st (PushManifest r t data media) =
      match make_repo valid_repo st r with
      | None => (st, Err e_name_invalid)
      | Some st1 =>
          match get_repo st1 r with
          | None => (st1, Err e_name_invalid)
          | Some rp =>
              match t with
              | [] => mem_store hash valid_digest decode_image decode_index cfg st1 r rp t data media
              | _ =>
                  if negb (valid_tag t) then (st1, Err (e_plain (s "invalid tag")))
                  else if immutable_tags cfg then
                    match alookup t (tags rp) with
                    | Some cur =>
                        if beqb (hash data) (d_digest cur) then
                          if beqb (d_media cur) media then (st1, Ok (RDesc cur))
                          else (st1, Err (E DENIED (s "mismatched media type")))
                        else (st1, Err (E DENIED (s "cannot overwrite tag")))
                    | None => mem_store hash valid_digest decode_image decode_index cfg st1 r rp t data media
                    end
                  else mem_store hash valid_digest decode_image decode_index cfg st1 r rp t data media
              end
          end
      end.
  Proof. reflexivity. Qed.

  Theorem manifest_accepted_iff st r t data media :
    valid_repo r = true ->
    (t = [] \/ valid_tag t = true) ->
    (immutable_tags cfg = true ->
       (t = [] \/ itag st r t = None) /\ (forall b, iman st r (hash data) = Some b -> b_media b = media)) ->
    (is_ok (snd (step st (PushManifest r t data media))) = true <->
     media <> [] /\ valid_digest (hash data) = true /\ wf_present st r media data).
  Proof.
    intros Hvr Hvt Himm.
    rewrite step_PushManifest_eq.
    unfold make_repo. rewrite Hvr.
    set (st1 := match get_repo st r with Some _ => st | None => set_repo st r empty_repo end).
    assert (EM : make_repo valid_repo st r = Some st1) by (unfold make_repo; now rewrite Hvr).
    destruct (make_repo_some _ _ _ _ EM) as (_ & Hne & _).
    destruct (make_repo_views _ _ _ _ EM) as (Vb & Vm & Vt).
    destruct (get_repo st1 r) as [rp|] eqn:ER; [|congruence].
    assert (Hb : forall d, alookup d (blobs rp) = iblob st r d) by (intros; rewrite <- Vb; unfold iblob; now rewrite ER).
    assert (Hm : forall d, alookup d (manifests rp) = iman st r d) by (intros; rewrite <- Vm; unfold iman; now rewrite ER).
    assert (Ht : forall t', alookup t' (tags rp) = itag st r t') by (intros; rewrite <- Vt; unfold itag; now rewrite ER).
    assert (Hstore : is_ok (snd (mem_store hash valid_digest decode_image decode_index cfg st1 r rp t data media)) = true <->
                     media <> [] /\ valid_digest (hash data) = true /\ wf_present st r media data).
    { unfold mem_store. cbn zeta.
      assert (immutable_tags cfg &&
              match alookup (hash data) (manifests rp) with
              | Some cur => negb (beqb (b_media cur) media) | None => false end = false) as ->.
      { destruct (immutable_tags cfg) eqn:EI; [|reflexivity]. cbn [andb]. destruct (Himm eq_refl) as [_ H].
        rewrite Hm. destruct (iman st r (hash data)) as [b|]; [|reflexivity].
        rewrite (H b eq_refl), beqb_refl. reflexivity. }
      unfold check_descriptor. cbn [d_digest d_size d_media]. rewrite beqb_refl, Z.eqb_refl. cbn [negb].
      destruct (valid_digest (hash data)); cbn [negb]; [|split; [discriminate | intros (_ & H & _); discriminate]].
      destruct media as [|c m]; [split; [discriminate | intros (H & _); now elim H]|].
      pose proof (check_manifest_wf st r rp (c :: m) data Hb Hm) as HW.
      destruct (check_manifest rp (c :: m) data); cbn [is_some snd is_ok] in *.
      - split; [intros _; repeat split; [discriminate | now apply HW] | reflexivity].
      - split; [discriminate | intros (_ & _ & H); now apply HW]. }
    destruct t as [|c t']; [exact Hstore|].
    destruct Hvt as [Hvt|Hvt]; [discriminate|]. rewrite Hvt. cbn [negb].
    destruct (immutable_tags cfg) eqn:EI; [|exact Hstore].
    destruct (Himm eq_refl) as [[E|E] _]; [discriminate|]. rewrite Ht, E. exact Hstore.
  Qed.

  (* ---- Referrers ---- *)
  Lemma dinsert_In a x l : In x (dinsert a l) <-> x = a \/ In x l.
  Proof.
    induction l as [|b l IH]; cbn; [intuition|]. destruct (bleb (d_digest a) (d_digest b)); cbn; [intuition|].
    rewrite IH. intuition.
  Qed.
  Lemma dsort_In x l : In x (dsort l) <-> In x l.
  Proof. induction l as [|a l IH]; cbn; [tauto|]. rewrite dinsert_In, IH. intuition. Qed.

  (* Referrers returns exactly the descriptors of the stored manifests whose content names
     the digest as subject, in ascending digest order *)
  Theorem referrers_exact st r rp d art :
    Inv st -> get_repo st r = Some rp ->
    exists l, snd (step st (Referrers r d art)) = Ok (RDescs l None) /\
              ssorted (map d_digest l) /\
              forall de, In de l <->
                         exists dm b, iman st r dm = Some b /\ subject_of (b_media b) (b_data b) = d /\
                                      de = blob_desc hash b.
  Proof.
    intros HI ER. cbn [Mem.step snd]. rewrite ER. eexists. split; [reflexivity|].
    pose proof (inv_repo _ _ _ _ HI _ _ ER) as Hok.
    set (M := manifests rp).
    set (p := fun kv : bytes * blob => beqb (b_subject (snd kv)) d).
    assert (HM : forall k b, alookup k M = Some b ->
                   hash (b_data b) = k /\ b_subject b = subject_of (b_media b) (b_data b)).
    { intros k b Hk. destruct (ok_man _ _ _ _ _ _ Hok k b Hk) as (Hh & _ & Hs). auto. }
    split.
    - set (F := fun k => match alookup k M with Some b => blob_desc hash b | None => zero_desc end).
      assert (H1 : map (fun kv => blob_desc hash (snd kv)) (filter p M) = map F (akeys (filter p M))).
      { unfold akeys. rewrite map_map. apply map_ext_in. intros [k b] Hi. cbn.
        apply filter_In in Hi as [Hi _]. apply (alookup_NoDup_In M k b (ok_mkeys _ _ _ _ _ _ Hok)) in Hi.
        unfold F. now rewrite Hi. }
      assert (HF : forall k, In k (akeys (filter p M)) -> d_digest (F k) = k).
      { intros k Hk. apply in_map_iff in Hk as [[k' b] [E Hi]]. cbn in E. subst k'.
        apply filter_In in Hi as [Hi _]. apply (alookup_NoDup_In M k b (ok_mkeys _ _ _ _ _ _ Hok)) in Hi.
        unfold F. rewrite Hi. cbn. now apply HM. }
      rewrite H1, dsort_map by exact HF. rewrite map_map.
      rewrite (map_ext_in _ (fun k => k)), map_id.
      + apply bsort_ssorted. apply NoDup_akeys_filter. apply Hok.
      + intros k Hk. apply HF. apply (bsort_In k (akeys (filter p M))). exact Hk.
    - intros de. rewrite dsort_In, in_map_iff. split.
      + intros [[k b] [E Hi]]. cbn in E. subst de. apply filter_In in Hi as [Hi Hp].
        apply (alookup_NoDup_In M k b (ok_mkeys _ _ _ _ _ _ Hok)) in Hi.
        exists k, b. repeat split; [unfold iman; now rewrite ER|].
        unfold p in Hp. cbn in Hp. apply beqb_eq in Hp. destruct (HM _ _ Hi) as [_ <-]. exact Hp.
      + intros (k & b & Hi & Hs & ->). unfold iman in Hi. rewrite ER in Hi. exists (k, b). split; [reflexivity|].
        apply filter_In. split; [now apply alookup_In|]. unfold p. cbn. apply beqb_eq.
        destruct (HM _ _ Hi) as [_ ->]. exact Hs.
  Qed.

  (* ---- listings: the live keys strictly after the start point, ascending ---- *)
  Theorem tags_listing st r rp start :
    Inv st -> get_repo st r = Some rp ->
    exists l, snd (step st (Tags r start)) = Ok (RList l None) /\ ssorted l /\
              forall t, In t l <-> itag st r t <> None /\ blt start t.
  Proof.
    intros HI ER. cbn [Mem.step snd]. rewrite ER. eexists. split; [reflexivity|]. split.
    - apply list_after_ssorted. apply (inv_repo _ _ _ _ HI _ _ ER).
    - intros t. rewrite list_after_In. unfold itag. rewrite ER. split; intros [H1 H2]; split; auto.
      + apply In_akeys_lookup in H1 as [v ->]. discriminate.
      + destruct (alookup t (tags rp)) eqn:E; [|congruence]. eapply alookup_Some_in; eauto.
  Qed.

  Theorem repositories_listing st start :
    Inv st ->
    exists l, snd (step st (Repositories start)) = Ok (RList l None) /\ ssorted l /\
              forall r, In r l <-> get_repo st r <> None /\ blt start r.
  Proof.
    intros HI. cbn [Mem.step snd]. eexists. split; [reflexivity|]. split.
    - apply list_after_ssorted. apply HI.
    - intros r. rewrite list_after_In. unfold get_repo. split; intros [H1 H2]; split; auto.
      + apply In_akeys_lookup in H1 as [v ->]. discriminate.
      + destruct (alookup r (repos st)) eqn:E; [|congruence]. eapply alookup_Some_in; eauto.
  Qed.

  (* ---- documented codes ---- *)
  Theorem push_blob_codes st r de c :
    valid_digest (d_digest de) = true ->
    (hash c <> d_digest de ->
       exists e, step st (PushBlob r de c) = (st, Err e) /\ e_code e = DIGEST_INVALID) /\
    (hash c = d_digest de -> d_size de <> blen c ->
       exists e, step st (PushBlob r de c) = (st, Err e) /\ e_code e = SIZE_INVALID) /\
    (hash c = d_digest de -> d_size de = blen c -> d_media de <> [] -> valid_repo r = false ->
       exists e, step st (PushBlob r de c) = (st, Err e) /\ e_code e = NAME_INVALID).
  Proof.
    intros Hv. cbn [Mem.step]. unfold check_descriptor. rewrite Hv. cbn [negb]. repeat split.
    - intros Hn. apply beqb_neq in Hn. rewrite Hn. cbn. eauto.
    - intros He Hs. apply beqb_eq in He. rewrite He. cbn [negb]. apply Z.eqb_neq in Hs. rewrite Hs. cbn. eauto.
    - intros He Hs Hm Hr. apply beqb_eq in He. rewrite He. cbn [negb]. apply Z.eqb_eq in Hs. rewrite Hs. cbn [negb].
      destruct (d_media de); [now elim Hm|]. unfold make_repo. rewrite Hr. eauto.
  Qed.

  Theorem invalid_name_codes st r :
    valid_repo r = false ->
    (forall t data media, snd (step st (PushManifest r t data media)) = Err e_name_invalid) /\
    (forall hint, snd (step st (PushBlobChunked r hint)) = Err e_name_invalid) /\
    (forall id off hint, snd (step st (PushBlobChunkedResume r id off hint)) = Err e_name_invalid) /\
    (forall from d, snd (step st (MountBlob from r d)) = Err e_name_invalid).
  Proof.
    intros Hr. repeat split; intros; cbn [Mem.step]; unfold make_repo; rewrite Hr; reflexivity.
  Qed.

  Theorem immutable_denied st r rp t cur :
    immutable_tags cfg = true -> get_repo st r = Some rp -> alookup t (tags rp) = Some cur ->
    (exists e, snd (step st (DeleteTag r t)) = Err e /\ e_code e = DENIED) /\
    (forall data media, valid_repo r = true -> valid_tag t = true -> t <> [] ->
       (hash data <> d_digest cur \/ d_media cur <> media) ->
       exists e, snd (step st (PushManifest r t data media)) = Err e /\ e_code e = DENIED).
  Proof.
    intros Hi ER Ht. split.
    - cbn [Mem.step]. rewrite ER, Ht, Hi. cbn. eauto.
    - intros data media Hvr Hvt Hne Hd. cbn [Mem.step]. unfold make_repo. rewrite Hvr, ER, ER.
      destruct t as [|c t']; [now elim Hne|]. rewrite Hvt, Hi, Ht. cbn [negb].
      destruct Hd as [Hd|Hd].
      + apply beqb_neq in Hd. rewrite Hd. cbn. eauto.
      + destruct (beqb (hash data) (d_digest cur)); [|cbn; eauto].
        apply beqb_neq in Hd. rewrite Hd. cbn. eauto.
  Qed.
End Corollaries.
