(* Proofs about the listing models (Model/Listing.v) for property C05. *)
From Coq Require Import String Sorted Permutation.
From OCI Require Import Model.Listing Model.ListingSpec Proofs.Seq.

(* ================================================================= ocimem *)

Lemma mapKeysIter_represents keys start :
  represents (mapKeysIter keys start) (sort_bytes (filter (bltb start) keys)) None.
Proof. apply represents_SliceSeq. Qed.

Lemma mem_list_ssorted keys start : NoDup keys -> ssorted (sort_bytes (filter (bltb start) keys)).
Proof. intros H. apply sort_bytes_ssorted. now apply NoDup_filter. Qed.

Lemma mem_list_In keys start x :
  In x (sort_bytes (filter (bltb start) keys)) <-> In x keys /\ blt start x.
Proof. rewrite sort_bytes_In. apply filter_after_In. Qed.

(* listing from a start point = the whole sorted listing cut at the start point *)
Lemma mem_list_cut keys start : NoDup keys ->
  sort_bytes (filter (bltb start) keys) = filter (bltb start) (sort_bytes keys).
Proof.
  intros H. apply ssorted_unique.
  - now apply mem_list_ssorted.
  - apply ssorted_filter. now apply sort_bytes_ssorted.
  - intros x. rewrite mem_list_In, filter_after_In, sort_bytes_In. tauto.
Qed.

(* ================================================================= ociserver *)

Lemma last_opt_app {A} (a : list A) (x : A) : last_opt (a ++ [x]) = Some x.
Proof.
  induction a as [|b a IH]; [reflexivity|]. cbn [app last_opt].
  destruct (a ++ [x]) eqn:E; [destruct a; discriminate | exact IH].
Qed.

Lemma last_opt_nonempty {A} (r : list A) : r <> [] -> exists a x, r = a ++ [x] /\ last_opt r = Some x.
Proof.
  intros H. destruct (exists_last H) as (a & x & ->). exists a, x. split; [reflexivity | apply last_opt_app].
Qed.

(* the page a list endpoint serves when the backend iterator holds [rem] then [oe] and the
   request asks for n >= 1 items *)
Definition page_resp (o : sopts) (req : wquery) (n : nat) (rem : list bytes) (oe : option err) : lresp :=
  if (length rem <=? n)%nat then
    match oe with Some e => LR_err e | None => LR_ok rem None end
  else if negb (so_omit_link o) then
    match last_opt (firstn n rem) with
    | None => LR_panic
    | Some l => LR_ok (firstn n rem) (Some (makeNextLink req l))
    end
  else LR_ok (firstn n rem) None.

Lemma nlr_loop (listN : Z) (rem acc : list bytes) :
  (0 < listN)%Z -> (Z.of_nat (length acc) <= listN)%Z ->
  slice_loop rem (nlr_cb listN) {| nl_items := acc; nl_trunc := false; nl_err := None |} =
    if (length acc + length rem <=? Z.to_nat listN)%nat
    then ({| nl_items := acc ++ rem; nl_trunc := false; nl_err := None |}, true)
    else ({| nl_items := acc ++ firstn (Z.to_nat listN - length acc) rem; nl_trunc := true; nl_err := None |}, false).
Proof.
  intros Hpos. revert acc; induction rem as [|x rem IH]; intros acc Hacc.
  - cbn. destruct (Nat.leb_spec (length acc + 0) (Z.to_nat listN)); [|lia]. now rewrite app_nil_r.
  - cbn [slice_loop nlr_cb nl_items nl_trunc nl_err].
    destruct (Z.gtb_spec listN 0); [|lia]. cbn [andb].
    destruct (Z.geb_spec (Z.of_nat (length acc)) listN) as [Hge|Hlt].
    + destruct (Nat.leb_spec (length acc + length (x :: rem)) (Z.to_nat listN)); [cbn in *; lia|].
      replace (Z.to_nat listN - length acc)%nat with O by lia. cbn. now rewrite app_nil_r.
    + rewrite IH by (rewrite app_length; cbn; lia).
      rewrite app_length. cbn [length].
      replace (length acc + 1 + length rem)%nat with (length acc + S (length rem))%nat by lia.
      destruct (Nat.leb_spec (length acc + S (length rem)) (Z.to_nat listN)).
      * now rewrite <- app_assoc.
      * replace (Z.to_nat listN - length acc)%nat with (S (Z.to_nat listN - (length acc + 1)))%nat by lia.
        cbn [firstn]. now rewrite <- app_assoc.
Qed.

Lemma nextListResults_page o req listN it rem oe :
  represents it rem oe -> (0 < listN)%Z ->
  ((so_max o >? 0) && (listN >? so_max o))%Z = false ->
  nextListResults o req listN it = page_resp o req (Z.to_nat listN) rem oe.
Proof.
  intros Hit Hpos Hacc. unfold nextListResults, page_resp. rewrite Hacc. cbv zeta. rewrite !Hit. unfold seq_of.
  rewrite nlr_loop by (cbn; lia). cbn [length Nat.add app].
  destruct (Nat.leb_spec (length rem) (Z.to_nat listN)).
  - destruct oe as [e|]; cbn; reflexivity.
  - cbn [nl_err nl_trunc nl_items andb]. rewrite Nat.sub_0_r.
    destruct (so_omit_link o); reflexivity.
Qed.

(* the server refuses a page size above its limit before looking at the backend *)
Lemma nextListResults_refuses o req listN it :
  ((so_max o >? 0) && (listN >? so_max o))%Z = true ->
  nextListResults o req listN it = LR_err err_n_too_large.
Proof. intros H. unfold nextListResults. now rewrite H. Qed.

(* without a positive n the whole listing is returned in one page *)
Lemma nlr_loop_unlimited (listN : Z) (rem acc : list bytes) :
  (listN <= 0)%Z ->
  slice_loop rem (nlr_cb listN) {| nl_items := acc; nl_trunc := false; nl_err := None |} =
    ({| nl_items := acc ++ rem; nl_trunc := false; nl_err := None |}, true).
Proof.
  intros Hn. revert acc; induction rem as [|x rem IH]; intros acc; cbn [slice_loop].
  - now rewrite app_nil_r.
  - cbn [nlr_cb nl_items nl_trunc nl_err]. destruct (Z.gtb_spec listN 0); [lia|]. cbn [andb].
    rewrite IH. now rewrite <- app_assoc.
Qed.

Lemma nextListResults_unlimited o req listN it rem oe :
  represents it rem oe -> (listN <= 0)%Z ->
  nextListResults o req listN it = match oe with Some e => LR_err e | None => LR_ok rem None end.
Proof.
  intros Hit Hn. unfold nextListResults.
  assert (((so_max o >? 0) && (listN >? so_max o))%Z = false) as ->.
  { destruct (Z.gtb_spec (so_max o) 0); [|reflexivity]. destruct (Z.gtb_spec listN (so_max o)); [lia|reflexivity]. }
  cbv zeta. rewrite !Hit. unfold seq_of. rewrite nlr_loop_unlimited by assumption.
  destruct oe; reflexivity.
Qed.

(* the list handlers never reach the index expression items[len(items)-1] with no items *)
Lemma page_resp_no_panic o req n rem oe : (1 <= n)%nat -> page_resp o req n rem oe <> LR_panic.
Proof.
  intros Hn. unfold page_resp. destruct (Nat.leb_spec (length rem) n).
  - destruct oe; discriminate.
  - destruct (negb (so_omit_link o)); [|discriminate].
    destruct (last_opt_nonempty (firstn n rem)) as (a & x & _ & ->); [|discriminate].
    destruct rem; [cbn in *; lia|]. destruct n; [lia|]. discriminate.
Qed.

Lemma handleList_no_panic o backend req xs oe :
  represents (backend (snd (setListQueryParams req))) xs oe ->
  handleList o backend req <> LR_panic.
Proof.
  intros Hb. unfold handleList. destruct (setListQueryParams req) as [listN st] eqn:E. cbn in Hb.
  destruct (((so_max o >? 0) && (listN >? so_max o))%Z) eqn:Hr.
  - rewrite nextListResults_refuses by assumption. discriminate.
  - destruct (Z.ltb_spec 0 listN).
    + rewrite (nextListResults_page _ _ _ _ _ _ Hb) by assumption. apply page_resp_no_panic. lia.
    + rewrite (nextListResults_unlimited _ _ _ _ _ _ Hb) by assumption. destruct oe; discriminate.
Qed.

(* ================================================================= ociclient: the pager *)

Lemma setListQueryParams_listParams n st : (0 <= n)%Z -> setListQueryParams (listParams n st) = (n, st).
Proof.
  intros Hn. unfold setListQueryParams, listParams. cbn.
  destruct (Z.geb_spec n 0); [|lia]. destruct st; reflexivity.
Qed.

Lemma setListQueryParams_link req n st x :
  setListQueryParams req = (n, st) -> setListQueryParams (makeNextLink req x) = (n, x).
Proof.
  unfold setListQueryParams, makeNextLink. cbn. intros H. injection H as H1 H2. now rewrite H1.
Qed.

Section PagerComplete.
  Variable wire : err -> err.
  Variable o : sopts.
  Variable l : list bytes.
  Hypothesis Hl : ssorted l.
  Variable backend : bytes -> Seq err bytes.
  Hypothesis Hb : forall st, represents (backend st) (filter (bltb st) l) None.
  Variable n : Z.
  Hypothesis Hn : (1 <= n)%Z.
  Hypothesis Hacc : ((so_max o >? 0) && (n >? so_max o))%Z = false.

  (* what lies after an element of the listing from st is the rest of that listing *)
  Lemma after_elem st a x b : filter (bltb st) l = a ++ x :: b -> filter (bltb x) l = b.
  Proof.
    intros H. rewrite <- (filter_after_after st x l).
    - rewrite H. apply filter_after_split. rewrite <- H. now apply ssorted_filter.
    - apply blt_le. apply (proj1 (filter_after_In st l x)). rewrite H. apply in_or_app. right. now left.
  Qed.

  Lemma next_request_params req st link x :
    setListQueryParams req = (n, st) ->
    (link = None \/ link = Some (makeNextLink req x)) ->
    setListQueryParams (nextLink link n x) = (n, x).
  Proof.
    intros Hreq [-> | ->]; cbn [nextLink].
    - apply setListQueryParams_listParams. lia.
    - eapply setListQueryParams_link; eauto.
  Qed.

  Lemma pager_loop_complete fuel : forall req st S (y : consumer err bytes S) s,
    setListQueryParams req = (n, st) ->
    (length (filter (bltb st) l) / Z.to_nat n + 1 <= fuel)%nat ->
    pager_loop wire fuel (handleList o backend) n req S y s
      = (seq_of (filter (bltb st) l) None S y s, PDone).
  Proof.
    induction fuel as [|fuel IH]; intros req st S y s Hreq Hf; [lia|].
    remember (filter (bltb st) l) as rem eqn:Erem.
    remember (Z.to_nat n) as nn eqn:Enn.
    assert (Hnn : (1 <= nn)%nat) by lia.
    cbn [pager_loop]. unfold handleList. rewrite Hreq.
    rewrite (nextListResults_page o req n _ rem None) by (try lia; try assumption; subst rem; apply Hb).
    unfold page_resp. rewrite <- Enn.
    destruct (Nat.leb_spec (length rem) nn) as [Hle|Hgt].
    - (* the last page *)
      unfold seq_of. destruct (slice_loop rem y s) as [s1 ok] eqn:Esl. destruct ok; cbn [negb]; [|reflexivity].
      destruct (Z.ltb_spec (Z.of_nat (length rem)) n) as [Hlt|Hge]; [reflexivity|].
      (* exactly a full page: one more request, which finds nothing *)
      assert (Hlen : length rem = nn) by lia.
      destruct (last_opt_nonempty rem) as (a & x & Ea & ->).
      { intros ->. cbn in Hlen. lia. }
      rewrite (IH _ x).
      + rewrite (after_elem st a x []) by (rewrite <- Erem, Ea; reflexivity). reflexivity.
      + eapply next_request_params; eauto.
      + rewrite (after_elem st a x []) by (rewrite <- Erem, Ea; reflexivity). cbn [length].
        rewrite Nat.div_0_l by lia.
        assert (1 <= length rem / nn)%nat; [|lia].
        rewrite Hlen. rewrite Nat.div_same by lia. lia.
    - (* a full page with more behind it *)
      assert (Hsplit : rem = firstn nn rem ++ skipn nn rem) by (symmetry; apply firstn_skipn).
      assert (Hfl : length (firstn nn rem) = nn) by (rewrite firstn_length; lia).
      destruct (last_opt_nonempty (firstn nn rem)) as (a & x & Ea & Hlast).
      { intros E. rewrite E in Hfl. cbn in Hfl. lia. }
      rewrite Hlast.
      assert (Hafter : filter (bltb x) l = skipn nn rem).
      { apply (after_elem st a x). rewrite <- Erem. rewrite Hsplit at 1. rewrite Ea. now rewrite <- app_assoc. }
      assert (Hfuel : (length (skipn nn rem) / nn + 1 <= fuel)%nat).
      { rewrite skipn_length.
        assert (length rem = (length rem - nn) + 1 * nn)%nat as E by lia.
        rewrite E in Hf. rewrite Nat.div_add in Hf by lia. lia. }
      replace (seq_of rem None S y s) with (seq_of (firstn nn rem ++ skipn nn rem) None S y s)
        by (now rewrite firstn_skipn).
      rewrite seq_of_app.
      destruct (so_omit_link o); cbn [negb];
        destruct (slice_loop (firstn nn rem) y s) as [s1 ok] eqn:Esl; destruct ok; cbn [negb]; try reflexivity;
        (destruct (Z.ltb_spec (Z.of_nat (length (firstn nn rem))) n) as [Hlt|Hge]; [lia|]);
        rewrite Hlast; rewrite (IH _ x); rewrite ?Hafter; auto;
        eapply next_request_params; eauto.
  Qed.

  (* pager_complete: the pager delivers exactly the names after the start point, in order,
     with at most len/n + 1 requests *)
  Theorem pager_complete_run fuel start S (y : consumer err bytes S) s :
    (length (filter (bltb start) l) / Z.to_nat n + 1 <= fuel)%nat ->
    pager_run wire fuel (handleList o backend) n start S y s
      = (seq_of (filter (bltb start) l) None S y s, PDone).
  Proof.
    intros Hf. unfold pager_run. apply pager_loop_complete; auto.
    apply setListQueryParams_listParams. lia.
  Qed.

  Lemma filter_length_le {A} (f : A -> bool) (r : list A) : (length (filter f r) <= length r)%nat.
  Proof. induction r as [|a r IH]; cbn; [lia|]. destruct (f a); cbn; lia. Qed.

  Theorem pager_complete fuel start :
    (length l / Z.to_nat n + 2 <= fuel)%nat ->
    represents (pager wire fuel (handleList o backend) n start) (filter (bltb start) l) None.
  Proof.
    intros Hf S y s. unfold pager. rewrite pager_complete_run; [reflexivity|].
    pose proof (filter_length_le (bltb start) l) as Hle.
    assert (length (filter (bltb start) l) / Z.to_nat n <= length l / Z.to_nat n)%nat.
    { apply Nat.div_le_mono; lia. }
    lia.
  Qed.
End PagerComplete.

(* when the server refuses the page size: exactly one error, no items *)
Theorem pager_refused wire o backend n start fuel :
  ((so_max o >? 0) && (n >? so_max o))%Z = true -> (0 <= n)%Z -> (1 <= fuel)%nat ->
  forall S (y : consumer err bytes S) s,
    pager_run wire fuel (handleList o backend) n start S y s
      = (seq_of [] (Some (wire err_n_too_large)) S y s, PDone).
Proof.
  intros Hr Hn Hf S y s. destruct fuel as [|fuel]; [lia|].
  unfold pager_run. cbn [pager_loop]. unfold handleList.
  rewrite setListQueryParams_listParams by assumption.
  now rewrite nextListResults_refuses.
Qed.

(* ================================================================= ocifilter.Select *)

Definition ac_visible (check : bytes -> access -> option err) (r : bytes) : bool :=
  match check r AccessRead with None => true | Some _ => false end.

Lemma ac_Repositories_represents check (listAll : bool) backend start xs oe :
  (if listAll then @None err else check star AccessList) = None ->
  represents (backend start) xs oe ->
  represents (ac_Repositories check listAll backend start) (filter (ac_visible check) xs) oe.
Proof.
  intros Hstar Hb S y s. unfold ac_Repositories. rewrite Hstar, Hb. clear Hb.
  revert s; induction xs as [|x xs IH]; intros s.
  - cbn. unfold seq_of. cbn. destruct oe; reflexivity.
  - rewrite seq_of_cons. cbn [filter].
    assert (Hv : ac_visible check x = match check x AccessRead with None => true | Some _ => false end)
      by reflexivity.
    rewrite Hv. destruct (check x AccessRead).
    + apply IH.
    + rewrite seq_of_cons. destruct (y (inl x) s) as [s1 ok]. destruct ok; [apply IH | reflexivity].
Qed.

(* AccessChecker (listAll = false) whose policy rejects ("*", list): the error, once *)
Lemma ac_Repositories_denied check backend start e :
  check star AccessList = Some e ->
  represents (ac_Repositories check false backend start) [] (Some e).
Proof. intros H. unfold ac_Repositories. rewrite H. apply represents_ErrorSeq. Qed.

Lemma select_visible allow r : ac_visible (select_check allow) r = allow r.
Proof. unfold ac_visible, select_check. destruct (allow r); reflexivity. Qed.

(* select_filter: Select lists exactly the allowed names of the backend listing, in order,
   with the backend's error if it has one *)
Theorem select_filter allow backend start xs oe :
  represents (backend start) xs oe ->
  represents (ac_Repositories (select_check allow) true backend start) (filter allow xs) oe.
Proof.
  intros H. rewrite (filter_ext allow (ac_visible (select_check allow))).
  - apply ac_Repositories_represents; [reflexivity | exact H].
  - intros r. symmetry. apply select_visible.
Qed.

Lemma ac_Tags_represents check backend repo start :
  ac_Tags check backend repo start =
    match check repo AccessList with Some e => ErrorSeq e | None => backend repo start end.
Proof. reflexivity. Qed.

(* ================================================================= ocifilter.Sub *)

Lemma cut_prefix_spec p a r : cut_prefix p a = Some r <-> a = p ++ r.
Proof.
  unfold cut_prefix. destruct (has_prefix p a) eqn:E.
  - apply has_prefix_spec in E as [r' ->]. rewrite skipn_app, Nat.sub_diag, skipn_all. cbn.
    split; [intros H; injection H as <-; reflexivity | intros H; apply app_inv_head in H; now subst].
  - split; [discriminate|]. intros ->.
    assert (has_prefix p (p ++ r) = true) by (apply has_prefix_spec; eauto). congruence.
Qed.

Lemma cut_prefix_app p r : cut_prefix p (p ++ r) = Some r.
Proof. now apply cut_prefix_spec. Qed.

Lemma strip_all_In p xs r : In r (strip_all p xs) <-> In (p ++ r) xs.
Proof.
  unfold strip_all. rewrite in_flat_map. split.
  - intros (a & Ha & Hr). destruct (cut_prefix p a) as [r'|] eqn:E; [|destruct Hr].
    destruct Hr as [<-|[]]. apply cut_prefix_spec in E. now subst.
  - intros H. exists (p ++ r). split; auto. rewrite cut_prefix_app. now left.
Qed.

Lemma bcmp_app p a b : bcmp (p ++ a) (p ++ b) = bcmp a b.
Proof. induction p as [|c p IH]; cbn; [reflexivity|]. now rewrite N.compare_refl. Qed.

Lemma bltb_app p a b : bltb (p ++ a) (p ++ b) = bltb a b.
Proof. unfold bltb. now rewrite bcmp_app. Qed.

Lemma strip_all_ssorted p xs : ssorted xs -> ssorted (strip_all p xs).
Proof.
  unfold ssorted. induction 1 as [|a xs Hs IH Hf]; cbn; [constructor|].
  destruct (cut_prefix p a) as [r|] eqn:E; cbn; [|exact IH].
  constructor; auto. rewrite Forall_forall in *. intros r' Hr'.
  apply strip_all_In in Hr'. apply cut_prefix_spec in E. subst a.
  specialize (Hf _ Hr'). unfold blt in *. now rewrite bcmp_app in Hf.
Qed.

Lemma strip_all_filter p st xs :
  strip_all p (filter (bltb (p ++ st)) xs) = filter (bltb st) (strip_all p xs).
Proof.
  unfold strip_all. induction xs as [|a xs IH]; [reflexivity|]. cbn [filter flat_map].
  destruct (cut_prefix p a) as [r|] eqn:E.
  - apply cut_prefix_spec in E. subst a. rewrite bltb_app. cbn [app filter].
    destruct (bltb st r); cbn [flat_map]; rewrite ?cut_prefix_app; cbn [app]; now rewrite IH.
  - destruct (bltb (p ++ st) a); cbn [flat_map app]; rewrite ?E; cbn [app]; exact IH.
Qed.

Lemma strip_all_filter_nonempty p xs :
  ~ In p xs -> strip_all p (filter (bltb []) xs) = filter (bltb []) (strip_all p xs).
Proof.
  unfold strip_all. induction xs as [|a xs IH]; intros Hn; [reflexivity|]. cbn [filter flat_map].
  assert (Hn' : ~ In p xs) by (intros H; apply Hn; now right).
  destruct (cut_prefix p a) as [r|] eqn:E.
  - apply cut_prefix_spec in E. subst a.
    destruct r as [|c r].
    + exfalso. apply Hn. left. now rewrite app_nil_r.
    + assert (bltb [] (p ++ c :: r) = true) as -> by (destruct p; reflexivity).
      cbn [flat_map app filter]. rewrite cut_prefix_app.
      assert (bltb [] (c :: r) = true) as -> by reflexivity. cbn [app]. now rewrite IH.
  - destruct (bltb [] a); cbn [flat_map app]; rewrite ?E; cbn [app]; now apply IH.
Qed.

Lemma sub_Repositories_represents prefix backend start xs oe :
  represents (backend (sub_start prefix start)) xs oe ->
  represents (sub_Repositories prefix backend start) (strip_all (prefix ++ slash) xs) oe.
Proof.
  intros Hb S y s. unfold sub_Repositories. rewrite Hb. clear Hb.
  revert s; induction xs as [|x xs IH]; intros s.
  - cbn. unfold seq_of. cbn. destruct oe; reflexivity.
  - rewrite seq_of_cons. cbn [strip_all flat_map].
    destruct (cut_prefix (prefix ++ slash) x) as [r|].
    + cbn [app]. rewrite seq_of_cons. destruct (y (inl r) s) as [s1 ok]. destruct ok; [apply IH | reflexivity].
    + cbn [app]. apply IH.
Qed.

(* sub_strip: Sub lists, from start point s, exactly the names n after s such that
   prefix/n is in the backend, stripped, in order *)
Theorem sub_strip prefix l oe backend start :
  ssorted l ->
  (forall st, represents (backend st) (filter (bltb st) l) oe) ->
  ~ In (prefix ++ slash) l ->
  represents (sub_Repositories prefix backend start)
             (filter (bltb start) (strip_all (prefix ++ slash) l)) oe
  /\ ssorted (strip_all (prefix ++ slash) l).
Proof.
  intros Hl Hb Hn. split; [|now apply strip_all_ssorted].
  eapply represents_ext; [apply sub_Repositories_represents, Hb | | reflexivity].
  unfold sub_start. destruct start as [|c start].
  - now apply strip_all_filter_nonempty.
  - apply strip_all_filter.
Qed.

(* ================================================================= ocidebug *)

Theorem logIterReturn_represents {T} (it : Seq err T) xs oe :
  represents it xs oe -> represents (logIterReturn it) xs oe.
Proof.
  intros Hit S y s. unfold logIterReturn. rewrite Hit. clear Hit.
  match goal with
  | |- fst (seq_of _ _ _ ?cb _) = _ =>
      assert (H : forall acc s, fst (seq_of xs oe _ cb (s, (acc, None))) = seq_of xs oe S y s)
  end; [|apply H].
  clear s. induction xs as [|x xs IH]; intros acc s.
  - unfold seq_of. cbn. destruct oe as [e|]; [|reflexivity]. cbn. destruct (y (inr e) s). reflexivity.
  - rewrite !seq_of_cons. destruct (y (inl x) s) as [s1 ok]. destruct ok; [apply IH | reflexivity].
Qed.

(* ================================================================= ociunify: mergeIter *)

Definition first_err (a b : option err) : option err := match a with Some e => Some e | None => b end.
Definition drop_not_found (oe : option err) : option err := if is_not_found oe then None else oe.

(* what mergeIter makes of two represented iterators *)
Definition merge_result (xs0 : list bytes) (oe0 : option err) (xs1 : list bytes) (oe1 : option err)
  : list bytes * option err :=
  if is_not_found oe0 && is_not_found oe1 then ([], oe0)
  else (compact (sort_bytes (xs0 ++ xs1)), first_err (drop_not_found oe0) (drop_not_found oe1)).

Lemma mergeIter_represents it0 it1 xs0 oe0 xs1 oe1 :
  represents it0 xs0 oe0 -> represents it1 xs1 oe1 ->
  represents (mergeIter it0 it1) (fst (merge_result xs0 oe0 xs1 oe1)) (snd (merge_result xs0 oe0 xs1 oe1)).
Proof.
  intros H0 H1. unfold mergeIter, merge_result.
  rewrite (All_represents _ _ _ H0), (All_represents _ _ _ H1).
  assert (Hx : match (length xs0 + length xs1)%nat with O => [] | _ => compact (sort_bytes (xs0 ++ xs1)) end
               = compact (sort_bytes (xs0 ++ xs1))).
  { destruct xs0, xs1; reflexivity. }
  rewrite Hx. unfold first_err, drop_not_found.
  destruct oe0 as [e0|], oe1 as [e1|]; cbn [is_not_found];
    repeat match goal with |- context [ecode_eqb ?a ?b] => destruct (ecode_eqb a b) end;
    cbn; try apply represents_ErrorSeq; try apply represents_SliceSeq; try (intros S y s; reflexivity).
Qed.

Lemma merged_ssorted xs0 xs1 : ssorted (compact (sort_bytes (xs0 ++ xs1))).
Proof. apply compact_ssorted, sort_bytes_wsorted. Qed.

Lemma merged_In xs0 xs1 x : In x (compact (sort_bytes (xs0 ++ xs1))) <-> In x xs0 \/ In x xs1.
Proof. rewrite compact_In, sort_bytes_In. apply in_app_iff. Qed.

(* merge_union: two complete listings merge into the sorted duplicate-free union *)
Theorem merge_union it0 it1 xs0 xs1 :
  represents it0 xs0 None -> represents it1 xs1 None ->
  let u := compact (sort_bytes (xs0 ++ xs1)) in
  represents (mergeIter it0 it1) u None /\ ssorted u /\ (forall x, In x u <-> In x xs0 \/ In x xs1).
Proof.
  intros H0 H1 u. split; [|split; [apply merged_ssorted | apply merged_In]].
  exact (mergeIter_represents _ _ _ _ _ _ H0 H1).
Qed.

(* both listings cut at the same start point: the union cut at that start point *)
Lemma merge_union_after k0 k1 start :
  ssorted k0 -> ssorted k1 ->
  compact (sort_bytes (filter (bltb start) k0 ++ filter (bltb start) k1))
  = filter (bltb start) (compact (sort_bytes (k0 ++ k1))).
Proof.
  intros H0 H1. apply ssorted_unique.
  - apply merged_ssorted.
  - apply ssorted_filter, merged_ssorted.
  - intros x. rewrite merged_In, !filter_after_In, merged_In. tauto.
Qed.

(* a member fails (other than "not found"): the merged items that were delivered, then the error *)
Theorem merge_error it0 it1 xs0 oe0 xs1 oe1 e :
  represents it0 xs0 oe0 -> represents it1 xs1 oe1 ->
  first_err (drop_not_found oe0) (drop_not_found oe1) = Some e ->
  represents (mergeIter it0 it1) (compact (sort_bytes (xs0 ++ xs1))) (Some e).
Proof.
  intros H0 H1 He. pose proof (mergeIter_represents _ _ _ _ _ _ H0 H1) as H.
  unfold merge_result in H.
  destruct (is_not_found oe0 && is_not_found oe1) eqn:N.
  - apply andb_true_iff in N as [N0 N1]. unfold drop_not_found in He. rewrite N0, N1 in He. discriminate.
  - cbn in H. now rewrite He in H.
Qed.

(* one member does not know the repository: the other member's listing *)
Theorem merge_not_found_one it0 it1 e0 xs1 oe1 :
  represents it0 [] (Some e0) -> is_not_found (Some e0) = true ->
  represents it1 xs1 oe1 -> is_not_found oe1 = false -> ssorted xs1 ->
  represents (mergeIter it0 it1) xs1 oe1.
Proof.
  intros H0 N0 H1 N1 Hs. pose proof (mergeIter_represents _ _ _ _ _ _ H0 H1) as H.
  unfold merge_result in H. rewrite N0, N1 in H. cbn in H.
  unfold drop_not_found in H. rewrite N1, N0 in H. cbn [first_err] in H.
  replace (compact (sort_bytes xs1)) with xs1 in H; [exact H|].
  apply ssorted_unique; auto.
  - apply compact_ssorted, sort_bytes_wsorted.
  - intros x. now rewrite compact_In, sort_bytes_In.
Qed.

Theorem merge_not_found_both it0 it1 e0 e1 xs0 xs1 :
  represents it0 xs0 (Some e0) -> is_not_found (Some e0) = true ->
  represents it1 xs1 (Some e1) -> is_not_found (Some e1) = true ->
  represents (mergeIter it0 it1) [] (Some e0).
Proof.
  intros H0 N0 H1 N1. pose proof (mergeIter_represents _ _ _ _ _ _ H0 H1) as H.
  unfold merge_result in H. now rewrite N0, N1 in H.
Qed.

(* ================================================================= the pager over a failing backend *)

Lemma ssorted_firstn k xs : ssorted xs -> ssorted (firstn k xs).
Proof.
  intros H. rewrite <- (firstn_skipn k xs) in H. now apply ssorted_app_inv in H.
Qed.

Lemma compact_length_le l : (length (compact l) <= length l)%nat.
Proof.
  induction l as [|a l IH]; [cbn; lia|]. cbn [compact]. destruct l as [|b l]; [cbn; lia|].
  destruct (beqb a b); cbn [length] in *; lia.
Qed.

(* a strictly sorted list holding exactly the names of nm *)
Definition universe (nm : list bytes) : list bytes := compact (sort_bytes nm).

Lemma universe_ssorted nm : ssorted (universe nm).
Proof. apply compact_ssorted, sort_bytes_wsorted. Qed.

Lemma universe_In nm x : In x (universe nm) <-> In x nm.
Proof. unfold universe. now rewrite compact_In, sort_bytes_In. Qed.

Lemma universe_length nm : (length (universe nm) <= length nm)%nat.
Proof. unfold universe. rewrite <- (sort_bytes_length nm). apply compact_length_le. Qed.

Section PagerFailing.
  Variable wire : err -> err.
  Variable o : sopts.
  Variable nm : list bytes.
  Variable backend : bytes -> Seq err bytes.
  Variable n : Z.
  Variable Pe : err -> Prop.          (* what is known about the backend's errors *)
  Hypothesis Hn : (1 <= n)%Z.
  Hypothesis Hacc : ((so_max o >? 0) && (n >? so_max o))%Z = false.
  (* from every start point the backend delivers sorted names after it and then fails *)
  Hypothesis Hb : forall st, exists xs e,
      represents (backend st) xs (Some e) /\ ssorted xs /\ (forall x, In x xs -> In x nm /\ blt st x) /\ Pe e.

  Let m (st : bytes) : nat := length (filter (bltb st) (universe nm)).

  Lemma page_consumes st xs a x :
    ssorted xs -> (forall u, In u xs -> In u nm /\ blt st u) ->
    firstn (Z.to_nat n) xs = a ++ [x] -> length (firstn (Z.to_nat n) xs) = Z.to_nat n ->
    (m x + Z.to_nat n <= m st)%nat.
  Proof.
    intros Hs Hin Ea Hlen. unfold m.
    set (F := firstn (Z.to_nat n) xs) in *. set (G := filter (bltb x) (universe nm)).
    assert (HsF : ssorted F) by (apply ssorted_firstn; auto).
    assert (HFle : forall u, In u F -> ble u x).
    { intros u Hu. rewrite Ea in Hu, HsF. apply in_app_or in Hu as [Hu|[<-|[]]]; [|apply ble_refl].
      apply blt_le. apply ssorted_app_inv in HsF as (_ & _ & Hc). apply Hc; [auto | now left]. }
    assert (HFin : forall u, In u F -> In u xs).
    { intros u Hu. rewrite <- (firstn_skipn (Z.to_nat n) xs). apply in_or_app. now left. }
    assert (Hx : blt st x).
    { apply Hin, HFin. rewrite Ea. apply in_or_app. right. now left. }
    assert (Hnd : NoDup (F ++ G)).
    { apply ssorted_NoDup. apply ssorted_app; auto.
      - apply ssorted_filter, universe_ssorted.
      - intros u v Hu Hv. apply filter_after_In in Hv as [_ Hv]. eapply ble_blt_trans; eauto. }
    assert (Hincl : incl (F ++ G) (filter (bltb st) (universe nm))).
    { intros u Hu. apply filter_after_In. apply in_app_or in Hu as [Hu|Hu].
      - destruct (Hin u (HFin u Hu)) as [H1 H2]. split; auto. now apply universe_In.
      - apply filter_after_In in Hu as [H1 H2]. split; auto. eapply blt_trans; eauto. }
    pose proof (NoDup_incl_length Hnd Hincl) as Hlen'. rewrite app_length in Hlen'.
    fold G. lia.
  Qed.

  Lemma pager_loop_failing fuel : forall req st,
    setListQueryParams req = (n, st) -> (m st + 1 <= fuel)%nat ->
    exists ys e,
      (forall S (y : consumer err bytes S) s,
         pager_loop wire fuel (handleList o backend) n req S y s = (seq_of ys (Some (wire e)) S y s, PDone))
      /\ ssorted ys /\ (forall x, In x ys -> In x nm /\ blt st x) /\ Pe e.
  Proof.
    induction fuel as [|fuel IH]; intros req st Hreq Hf; [lia|].
    destruct (Hb st) as (xs & e & Hrep & Hs & Hin & HPe).
    remember (Z.to_nat n) as nn eqn:Enn.
    assert (Hnn : (1 <= nn)%nat) by lia.
    assert (Hresp : handleList o backend req = page_resp o req nn xs (Some e)).
    { unfold handleList. rewrite Hreq. rewrite Enn. apply nextListResults_page; auto. lia. }
    unfold page_resp in Hresp.
    destruct (Nat.leb_spec (length xs) nn) as [Hle|Hgt].
    - (* the server reaches the error *)
      exists [], e. split; [|split; [apply ssorted_nil | split; [intros x []|exact HPe]]].
      intros S y s. cbn [pager_loop]. rewrite Hresp. reflexivity.
    - assert (Hfl : length (firstn nn xs) = nn) by (rewrite firstn_length; lia).
      destruct (last_opt_nonempty (firstn nn xs)) as (a & x & Ea & Hlast).
      { intros E. rewrite E in Hfl. cbn in Hfl. lia. }
      assert (Hmx : (m x + nn <= m st)%nat).
      { rewrite Enn. eapply page_consumes; eauto; rewrite <- Enn; eauto. }
      assert (HsF : ssorted (firstn nn xs)) by (apply ssorted_firstn; auto).
      assert (HFin : forall u, In u (firstn nn xs) -> In u xs).
      { intros u Hu. rewrite <- (firstn_skipn nn xs). apply in_or_app. now left. }
      assert (Hx : blt st x).
      { apply Hin, HFin. rewrite Ea. apply in_or_app. right. now left. }
      assert (Hnext : forall link, link = None \/ link = Some (makeNextLink req x) ->
                setListQueryParams (nextLink link n x) = (n, x)).
      { intros link [-> | ->]; cbn [nextLink].
        - apply setListQueryParams_listParams. lia.
        - eapply setListQueryParams_link; eauto. }
      assert (Hcont : exists link, (link = None \/ link = Some (makeNextLink req x)) /\
                handleList o backend req = LR_ok (firstn nn xs) link).
      { rewrite Hresp, Hlast. destruct (negb (so_omit_link o)); eauto. }
      destruct Hcont as (link & Hlink & Hresp').
      destruct (IH (nextLink link n x) x (Hnext link Hlink)) as (ys & e' & Hrun & Hsy & Hiny & HPe'); [lia|].
      exists (firstn nn xs ++ ys), e'. split; [|split; [|split]]; auto.
      + intros S y s. cbn [pager_loop]. rewrite Hresp'. rewrite seq_of_app.
        destruct (slice_loop (firstn nn xs) y s) as [s1 ok]. destruct ok; cbn [negb]; [|reflexivity].
        destruct (Z.ltb_spec (Z.of_nat (length (firstn nn xs))) n); [lia|].
        rewrite Hlast. apply Hrun.
      + apply ssorted_app; auto. intros u v Hu Hv.
        apply Hiny in Hv as [_ Hv]. eapply ble_blt_trans; [|exact Hv].
        rewrite Ea in Hu, HsF. apply in_app_or in Hu as [Hu|[<-|[]]]; [|apply ble_refl].
        apply blt_le. apply ssorted_app_inv in HsF as (_ & _ & Hc). apply Hc; [auto | now left].
      + intros u Hu. apply in_app_or in Hu as [Hu|Hu].
        * apply Hin. auto.
        * apply Hiny in Hu as [H1 H2]. split; auto. eapply blt_trans; eauto.
  Qed.

  (* pager_error: over a backend that fails, the pager ends with (the image of) one of the
     backend's errors after a sorted run of the backend's names; never a clean end *)
  Theorem pager_failing fuel start :
    (length nm + 1 <= fuel)%nat ->
    exists ys e,
      represents (pager wire fuel (handleList o backend) n start) ys (Some (wire e))
      /\ ssorted ys /\ (forall x, In x ys -> In x nm /\ blt start x) /\ Pe e.
  Proof.
    intros Hf.
    destruct (pager_loop_failing fuel (listParams n start) start) as (ys & e & Hrun & H).
    - apply setListQueryParams_listParams. lia.
    - unfold m. pose proof (filter_length_le (bltb start) (universe nm)).
      pose proof (universe_length nm). lia.
    - exists ys, e. split; auto. intros S y s. unfold pager, pager_run. now rewrite Hrun.
  Qed.
End PagerFailing.

(* ================================================================= stacks *)

(* What a listing of a stack must be: a represented iterator whose items are strictly
   ascending names of the stack after the start point; complete and error-free when the
   stack does not fail; ending with an error when it does. *)
Definition lgood (nm : list bytes) (fc : fclass) (aft : bytes -> bool) (q : Seq err bytes) : Prop :=
  exists xs oe,
    represents q xs oe /\ ssorted xs /\ (forall x, In x xs -> In x nm /\ aft x = true) /\
    match fc with
    | FNo => oe = None /\ (forall x, In x nm -> aft x = true -> In x xs)
    | FNotFound => nm = [] /\ exists e, oe = Some e /\ is_not_found (Some e) = true
    | FErr => exists e, oe = Some e /\ is_not_found (Some e) = false
    end.

Lemma nodupb_NoDup l : nodupb l = true -> NoDup l.
Proof.
  induction l as [|a l IH]; cbn; intros H; [constructor|].
  apply andb_true_iff in H as [H1 H2]. constructor; auto.
  intros Hi. apply mem_bytes_In in Hi. rewrite Hi in H1. discriminate.
Qed.

Lemma bltb_nil_nonempty a : bltb [] a = true <-> a <> [].
Proof. destruct a; cbn; split; congruence. Qed.

Lemma lgood_sorted_complete nm aft xs :
  ssorted xs -> (forall x, In x xs <-> In x nm /\ aft x = true) ->
  lgood nm FNo aft (SliceSeq xs).
Proof.
  intros Hs Hm. exists xs, None. split; [apply represents_SliceSeq|]. split; auto.
  split; [intros x Hx; now apply Hm|]. split; auto. intros x H1 H2. apply Hm. auto.
Qed.

Lemma lgood_keys keys start :
  NoDup keys -> lgood keys FNo (bltb start) (mapKeysIter keys start).
Proof.
  intros Hn. apply lgood_sorted_complete; [now apply mem_list_ssorted|].
  intros x. rewrite mem_list_In, bltb_lt. tauto.
Qed.

Lemma lgood_not_found aft : lgood [] FNotFound aft (ErrorSeq ErrNameUnknown).
Proof.
  exists [], (Some ErrNameUnknown). split; [apply represents_ErrorSeq|].
  split; [apply ssorted_nil|]. split; [intros x []|]. split; eauto.
Qed.

Lemma mem_repo_In m r repo : mem_repo m r = Some repo -> In (r, repo) m.
Proof.
  induction m as [|[k v] m IH]; cbn; [discriminate|].
  destruct (beqb k r) eqn:E.
  - apply beqb_eq in E. intros H. injection H as ->. subst. now left.
  - intros H. right. auto.
Qed.

Lemma NoDup_map_filter {A B} (f : A -> B) (p : A -> bool) l : NoDup (map f l) -> NoDup (map f (filter p l)).
Proof.
  induction l as [|a l IH]; cbn; intros H; [constructor|].
  apply NoDup_cons_iff in H as [H1 H2]. destruct (p a); cbn; auto.
  constructor; auto. intros Hi. apply H1. apply in_map_iff in Hi as (b & Hb & Hi).
  apply filter_In in Hi as [Hi _]. apply in_map_iff. eauto.
Qed.

(* ---- the pager under lgood ---- *)

Lemma div_le_self a b : (1 <= b -> a / b <= a)%nat.
Proof. intros H. apply Nat.div_le_upper_bound; nia. Qed.

Lemma pager_lgood wire o nm fc backend n fuel :
  (forall e, is_not_found (Some (wire e)) = is_not_found (Some e)) ->
  (1 <= n)%Z -> ((so_max o >? 0) && (n >? so_max o))%Z = false ->
  (length nm + 2 <= fuel)%nat ->
  (forall st, lgood nm fc (bltb st) (backend st)) ->
  forall start, lgood nm fc (bltb start) (pager wire fuel (handleList o backend) n start).
Proof.
  intros Hw Hn Hacc Hf Hb start. destruct fc.
  - (* the backend is complete from every start point: it is the cut of one sorted list *)
    assert (Hcoh : forall st, represents (backend st) (filter (bltb st) (universe nm)) None).
    { intros st. destruct (Hb st) as (xs & oe & Hrep & Hs & Hin & -> & Hc).
      replace (filter (bltb st) (universe nm)) with xs; auto.
      apply ssorted_unique; auto.
      - apply ssorted_filter, universe_ssorted.
      - intros x. rewrite filter_In, universe_In. split; [apply Hin|]. intros [H1 H2]. auto. }
    exists (filter (bltb start) (universe nm)), None.
    split; [|split; [apply ssorted_filter, universe_ssorted|split; [|split; auto]]].
    + apply (pager_complete wire o (universe nm) (universe_ssorted nm) backend Hcoh n Hn Hacc).
      pose proof (universe_length nm). pose proof (div_le_self (length (universe nm)) (Z.to_nat n)). lia.
    + intros x Hx. apply filter_In in Hx as [H1 H2]. now rewrite universe_In in H1.
    + intros x H1 H2. apply filter_In. now rewrite universe_In.
  - (* nothing there: the first request is answered with the error *)
    destruct (Hb start) as (xs & oe & Hrep & Hs & Hin & Hnm & e & -> & He).
    assert (xs = []) as ->.
    { destruct xs as [|x xs]; auto. destruct (Hin x (or_introl eq_refl)) as [H _]. rewrite Hnm in H. destruct H. }
    exists [], (Some (wire e)). split; [|split; [apply ssorted_nil|split; [intros x []|split; auto]]].
    + intros S y s. unfold pager, pager_run. destruct fuel as [|fuel]; [lia|]. cbn [pager_loop].
      unfold handleList. rewrite setListQueryParams_listParams by lia.
      rewrite (nextListResults_page _ _ _ _ _ _ Hrep) by (auto; lia). unfold page_resp.
      destruct (Nat.leb_spec (length (@nil bytes)) (Z.to_nat n)); [reflexivity | cbn in *; lia].
    + exists (wire e). split; auto. now rewrite Hw.
  - destruct (pager_failing wire o nm backend n (fun e => is_not_found (Some e) = false) Hn Hacc) with (fuel := fuel) (start := start)
      as (ys & e & Hrep & Hs & Hin & He).
    + intros st. destruct (Hb st) as (xs & oe & Hrep & Hs & Hin & e & -> & He).
      exists xs, e. repeat split; auto; try (apply Hin; auto).
      apply bltb_lt. apply Hin; auto.
    + lia.
    + exists ys, (Some (wire e)). split; auto. split; auto. split.
      * intros x Hx. destruct (Hin x Hx). split; auto. now apply bltb_lt.
      * exists (wire e). split; auto. now rewrite Hw.
Qed.

Lemma pager_refused_lgood wire o nm backend n fuel start :
  (forall e, is_not_found (Some (wire e)) = is_not_found (Some e)) ->
  ((so_max o >? 0) && (n >? so_max o))%Z = true -> (0 <= n)%Z -> (1 <= fuel)%nat ->
  lgood nm FErr (bltb start) (pager wire fuel (handleList o backend) n start).
Proof.
  intros Hw Hr Hn Hf. exists [], (Some (wire err_n_too_large)).
  split; [|split; [apply ssorted_nil|split; [intros x []|]]].
  - intros S y s. unfold pager. now rewrite pager_refused.
  - exists (wire err_n_too_large). split; auto. now rewrite Hw.
Qed.

(* the referrers hop: one request, the whole list or (items dropped) the error *)
Lemma refs_hop_represents wire it xs oe :
  represents it xs oe ->
  represents (client_Referrers wire (handleReferrers it))
             (match oe with Some _ => [] | None => xs end) (option_map wire oe).
Proof.
  intros H. unfold handleReferrers. rewrite (All_represents _ _ _ H).
  destruct oe as [e|]; cbn; [apply represents_ErrorSeq | apply represents_SliceSeq].
Qed.

Lemma refs_hop_lgood wire nm fc aft it :
  (forall e, is_not_found (Some (wire e)) = is_not_found (Some e)) ->
  lgood nm fc aft it -> lgood nm fc aft (client_Referrers wire (handleReferrers it)).
Proof.
  intros Hw (xs & oe & Hrep & Hs & Hin & Hfc).
  exists (match oe with Some _ => [] | None => xs end), (option_map wire oe).
  split; [now apply refs_hop_represents|].
  split; [destruct oe; [apply ssorted_nil | auto]|].
  split; [destruct oe; [intros x [] | auto]|].
  destruct fc.
  - destruct Hfc as [-> Hc]. auto.
  - destruct Hfc as (Hnm & e & -> & He). split; auto. exists (wire e). split; auto. now rewrite Hw.
  - destruct Hfc as (e & -> & He). exists (wire e). split; auto. now rewrite Hw.
Qed.

(* ---- Select ---- *)

Lemma select_lgood allow nm fc aft backend start :
  lgood nm fc aft (backend start) ->
  lgood (filter allow nm) fc aft (ac_Repositories (select_check allow) true backend start).
Proof.
  intros (xs & oe & Hrep & Hs & Hin & Hfc). exists (filter allow xs), oe.
  split; [now apply select_filter|]. split; [now apply ssorted_filter|]. split.
  - intros x Hx. apply filter_In in Hx as [H1 H2]. destruct (Hin x H1). split; auto.
    apply filter_In. auto.
  - destruct fc; auto.
    + destruct Hfc as [-> Hc]. split; auto. intros x Hx Ha. apply filter_In in Hx as [H1 H2].
      apply filter_In. auto.
    + destruct Hfc as (-> & H). auto.
Qed.

(* ---- Sub ---- *)

Lemma slash_nonempty p : p ++ slash <> [].
Proof. destruct p; discriminate. Qed.

Lemma sub_lgood p nm fc backend start :
  ~ In (p ++ slash) nm ->
  lgood nm fc (bltb (sub_start p start)) (backend (sub_start p start)) ->
  lgood (strip_all (p ++ slash) nm) fc (bltb start) (sub_Repositories p backend start).
Proof.
  intros Hn (xs & oe & Hrep & Hs & Hin & Hfc). exists (strip_all (p ++ slash) xs), oe.
  split; [now apply sub_Repositories_represents|]. split; [now apply strip_all_ssorted|].
  assert (Hafter : forall r, In (p ++ slash ++ r) nm ->
            (bltb (sub_start p start) ((p ++ slash) ++ r) = bltb start r)).
  { intros r Hr. unfold sub_start. destruct start as [|c start].
    - assert (r <> []) as Hre. { intros ->. apply Hn. now rewrite app_nil_r, app_assoc in Hr || rewrite app_nil_r in Hr. }
      destruct r; [congruence|]. destruct p; reflexivity.
    - apply bltb_app. }
  split.
  - intros r Hr. apply strip_all_In in Hr. destruct (Hin _ Hr) as [H1 H2]. split.
    + now apply strip_all_In.
    + rewrite <- Hafter; auto. now rewrite app_assoc.
  - destruct fc; auto.
    + destruct Hfc as [-> Hc]. split; auto. intros r Hr Ha. apply strip_all_In in Hr.
      apply strip_all_In. apply Hc; auto. rewrite Hafter; auto. now rewrite app_assoc.
    + destruct Hfc as (-> & H). auto.
Qed.

(* ---- mergeIter ---- *)

Lemma merge_lgood nm0 fc0 nm1 fc1 aft it0 it1 :
  lgood nm0 fc0 aft it0 -> lgood nm1 fc1 aft it1 ->
  lgood (nm0 ++ nm1) (fc_merge fc0 fc1) aft (mergeIter it0 it1).
Proof.
  intros (xs0 & oe0 & Hrep0 & Hs0 & Hin0 & Hfc0) (xs1 & oe1 & Hrep1 & Hs1 & Hin1 & Hfc1).
  pose proof (mergeIter_represents _ _ _ _ _ _ Hrep0 Hrep1) as Hrep.
  set (u := compact (sort_bytes (xs0 ++ xs1))).
  assert (Hsu : ssorted u) by apply merged_ssorted.
  assert (Hinu : forall x, In x u -> In x (nm0 ++ nm1) /\ aft x = true).
  { intros x Hx. apply merged_In in Hx as [Hx|Hx]; [destruct (Hin0 x Hx) | destruct (Hin1 x Hx)];
      split; auto; apply in_or_app; auto. }
  unfold merge_result in Hrep.
  destruct fc0, fc1; cbn [fc_merge].
  - (* both complete *)
    destruct Hfc0 as [-> Hc0], Hfc1 as [-> Hc1]. cbn in Hrep. exists u, None.
    repeat split; auto; try apply Hinu; auto.
    intros x Hx Ha. apply merged_In. apply in_app_or in Hx as [Hx|Hx]; auto.
  - destruct Hfc0 as [-> Hc0], Hfc1 as (-> & e1 & -> & He1).
    assert (xs1 = []) as ->.
    { destruct xs1 as [|x xs1]; auto. destruct (Hin1 x (or_introl eq_refl)) as [[] _]. }
    cbn [is_not_found andb] in Hrep. unfold drop_not_found in Hrep. rewrite He1 in Hrep. cbn in Hrep.
    exists u, None. repeat split; auto; try apply Hinu; auto.
    intros x Hx Ha. rewrite app_nil_r in Hx. apply merged_In. auto.
  - destruct Hfc0 as [-> Hc0], Hfc1 as (e1 & -> & He1).
    cbn [is_not_found andb] in Hrep. unfold drop_not_found in Hrep. rewrite He1 in Hrep. cbn in Hrep.
    exists u, (Some e1). repeat split; auto; try apply Hinu; auto. eauto.
  - destruct Hfc0 as (-> & e0 & -> & He0), Hfc1 as [-> Hc1].
    assert (xs0 = []) as ->.
    { destruct xs0 as [|x xs0]; auto. destruct (Hin0 x (or_introl eq_refl)) as [[] _]. }
    rewrite He0 in Hrep. cbn [is_not_found andb] in Hrep. unfold drop_not_found in Hrep.
    rewrite He0 in Hrep. cbn in Hrep.
    exists u, None. repeat split; auto; try apply Hinu; auto.
    intros x Hx Ha. apply merged_In. cbn in Hx. auto.
  - destruct Hfc0 as (-> & e0 & -> & He0), Hfc1 as (-> & e1 & -> & He1).
    rewrite He0, He1 in Hrep. cbn in Hrep.
    exists [], (Some e0). split; auto. split; [apply ssorted_nil|]. split; [intros x []|].
    split; auto. eauto.
  - destruct Hfc0 as (-> & e0 & -> & He0), Hfc1 as (e1 & -> & He1).
    rewrite He0, He1 in Hrep. cbn [andb] in Hrep. unfold drop_not_found in Hrep.
    rewrite He0, He1 in Hrep. cbn in Hrep.
    exists u, (Some e1). repeat split; auto; try apply Hinu; auto. eauto.
  - destruct Hfc0 as (e0 & -> & He0), Hfc1 as [-> Hc1].
    rewrite He0 in Hrep. cbn [andb] in Hrep. unfold drop_not_found in Hrep.
    rewrite He0 in Hrep. cbn in Hrep.
    exists u, (Some e0). repeat split; auto; try apply Hinu; auto. eauto.
  - destruct Hfc0 as (e0 & -> & He0), Hfc1 as (-> & e1 & -> & He1).
    rewrite He0 in Hrep. cbn [andb] in Hrep. unfold drop_not_found in Hrep.
    rewrite He0 in Hrep. cbn in Hrep.
    exists u, (Some e0). repeat split; auto; try apply Hinu; auto. eauto.
  - destruct Hfc0 as (e0 & -> & He0), Hfc1 as (e1 & -> & He1).
    rewrite He0 in Hrep. cbn [andb] in Hrep. unfold drop_not_found in Hrep.
    rewrite He0 in Hrep. cbn in Hrep.
    exists u, (Some e0). repeat split; auto; try apply Hinu; auto. eauto.
Qed.

Lemma debug_lgood nm fc aft it : lgood nm fc aft it -> lgood nm fc aft (logIterReturn it).
Proof.
  intros (xs & oe & Hrep & H). exists xs, oe. split; auto. now apply logIterReturn_represents.
Qed.
