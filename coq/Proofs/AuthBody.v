(* Proofs about Model/Auth.v, part 11: clause P5 of C11 - when a call returns, every request body
   it has had in its hands (the one it was given and every copy obtained from GetBody) has been
   handed to the underlying transport or closed; for every network, clock, configuration and
   schedule.  The invariant behind it is a balance kept by every call at the end of every phase:
   bodies in hand <= hand-overs + closes. *)
From Coq Require Import String ZArith Lia.
From OCI Require Import Base.Outcome Model.Scope Model.Challenge Model.Auth Model.AuthSpec
  Proofs.Challenge Proofs.AuthBase Proofs.AuthShape Proofs.AuthInv Proofs.AuthStep Proofs.AuthTrace Proofs.AuthC11.

Lemma count_ev_app p a b : count_ev p (a ++ b) = (count_ev p a + count_ev p b)%nat.
Proof. unfold count_ev. now rewrite filter_app, app_length. Qed.

Lemma count_ev_cons p e h : count_ev p (e :: h) = ((if p e then 1 else 0) + count_ev p h)%nat.
Proof. unfold count_ev. cbn [filter]. destruct (p e); reflexivity. Qed.

Lemma count_ev_nil p : count_ev p [] = O.
Proof. reflexivity. Qed.

Lemma count_ev_none p l : Forall (fun e => p e = false) l -> count_ev p l = O.
Proof. induction 1 as [|e l He _ IH]; [reflexivity|]. rewrite count_ev_cons, He, IH. reflexivity. Qed.

Lemma is_getbody_other id e : ev_id e <> id -> is_getbody id e = false.
Proof. destruct e; cbn; try reflexivity. intros H. now apply Nat.eqb_neq. Qed.

Lemma is_disposal_other id e : ev_id e <> id -> is_disposal id e = false.
Proof. destruct e as [| |i m r| | | |]; cbn; try reflexivity; try destruct m; try reflexivity; intros H; now apply Nat.eqb_neq. Qed.

Lemma others_counts id l : others id l -> count_ev (is_getbody id) l = O /\ count_ev (is_disposal id) l = O.
Proof.
  intros H. split; apply count_ev_none; eapply Forall_impl; try exact H; cbn beta; intros e He.
  - now apply is_getbody_other. - now apply is_disposal_other.
Qed.

Section Body.
  Variable E : env.

  Lemma toks_counts id j toks : tok_sends id toks ->
    count_ev (is_getbody j) toks = O /\ count_ev (is_disposal j) toks = O.
  Proof.
    intros H. split; apply count_ev_none; eapply Forall_impl; try exact H; cbn beta;
      intros e [m [rsp [-> Hm]]]; [reflexivity|]. destruct m; [discriminate| |]; reflexivity.
  Qed.

  Lemma untouched_counts id h : (forall e, In e h -> ev_id e <> id) ->
    count_ev (is_getbody id) h = O /\ count_ev (is_disposal id) h = O.
  Proof. intros H. apply others_counts. unfold others. rewrite Forall_forall. exact H. Qed.

  (* every event a step adds belongs to the call that acts *)
  Lemma shape_mine st st' new : shape E st st' new -> exists id, mine id new.
  Proof.
    intros Hs.
    destruct Hs as [id q Hn Hie | id q a toks rsp r1 Hn Hie Hp Hg | id q www toks sc2 res2 e r1 Hn Hie r0 Ha Hb Hrf Hblk Hg
                   | id th rsp res Hth Hpc Hres | id th rsp ch r a toks ta r1 rsp2 Hth Hpc Hch Hg Hp Hg1 Hnb
                   | id th rsp ch r a toks ta r1 Hth Hpc Hch Hg Hp Hg1 Hnb
                   | id th rsp ch r toks sc2 res2 e r1 Hth Hpc Hch Hg Hb Hblk Hg1
                   | id th rsp ta res Hth Hpc Hres | id th www b Hth Hpc]; exists id; unfold mine.
    - constructor; [reflexivity|]. apply Forall_app. split; [destruct (has_body (q_body q)); repeat constructor | repeat constructor].
    - constructor; [reflexivity|]. apply Forall_app. split; [eapply tok_sends_mine, p1_send_sends; eauto | repeat constructor].
    - constructor; [reflexivity|]. apply Forall_app. split; [destruct (has_body (q_body q)); repeat constructor|].
      apply Forall_app. split; [eapply tok_sends_mine, blk_sends; eauto | repeat constructor].
    - repeat constructor.
    - constructor; [reflexivity|]. apply Forall_app. split; [destruct (q_body (th_q th)); repeat constructor|].
      apply Forall_app. split; [eapply tok_sends_mine, p2_send_sends; eauto | repeat constructor].
    - constructor; [reflexivity|]. constructor; [reflexivity|]. constructor; [reflexivity|].
      apply Forall_app. split; [eapply tok_sends_mine, p2_send_sends; eauto | repeat constructor].
    - constructor; [reflexivity|]. constructor; [reflexivity|].
      apply Forall_app. split; [eapply tok_sends_mine, blk_sends; eauto | repeat constructor].
    - repeat constructor.
    - repeat constructor.
  Qed.

  (* the balance: a call that has started has got rid of as many bodies as it has had in hand *)
  Definition Bal (h : hist) : Prop :=
    forall id q, req_of id h = Some q -> (bodies_given id q h <= count_ev (is_disposal id) h)%nat.

  Lemma Bal_nil : Bal [].
  Proof. intros id q H. discriminate. Qed.

  Ltac counts :=
    repeat (rewrite ?count_ev_app, ?count_ev_cons; cbn [is_getbody is_disposal]);
    rewrite ?Nat.eqb_refl, ?count_ev_nil.

  Lemma step_Bal st st' new : Inv E st -> shape E st st' new -> Bal (history st) -> Bal (new ++ history st).
  Proof.
    intros Hinv Hs HB j qj Hj.
    destruct (shape_mine _ _ _ Hs) as [id0 Hmine].
    destruct (Nat.eq_dec j id0) as [->|Hne].
    2:{ (* a call that does not act *)
        pose proof (mine_others id0 j new Hne Hmine) as Ho.
        rewrite req_of_app in Hj by exact Ho. specialize (HB j qj Hj).
        destruct (others_counts j new Ho) as [O1 O2].
        unfold bodies_given in *. rewrite !count_ev_app, O1, O2. cbn [plus]. exact HB. }
    destruct Hs as [id q Hn Hie | id q a toks rsp r1 Hn Hie Hp Hg | id q www toks sc2 res2 e r1 Hn Hie r0 Ha Hb Hrf Hblk Hg
                   | id th rsp res Hth Hpc Hres | id th rsp ch r a toks ta r1 rsp2 Hth Hpc Hch Hg Hp Hg1 Hnb
                   | id th rsp ch r a toks ta r1 Hth Hpc Hch Hg Hp Hg1 Hnb
                   | id th rsp ch r toks sc2 res2 e r1 Hth Hpc Hch Hg Hb Hblk Hg1
                   | id th rsp ta res Hth Hpc Hres | id th www b Hth Hpc].
    - (* init error *)
      assert (id0 = id) as -> by (inversion Hmine as [|? ? Hx _]; cbn in Hx; congruence).
      destruct (untouched_counts id _ (inv_none _ _ Hinv id Hn)) as [U1 U2].
      cbn [app] in Hj. rewrite req_of_cons in Hj by reflexivity.
      rewrite <- app_assoc in Hj. rewrite req_of_quiets in Hj by (destruct (has_body (q_body q)); repeat constructor).
      cbn in Hj. rewrite Nat.eqb_refl in Hj. injection Hj as <-.
      unfold bodies_given. cbn [app]. rewrite <- app_assoc. counts. rewrite U1, U2.
      destruct (q_body q); unfold count_ev; cbn; rewrite ?Nat.eqb_refl; cbn; lia.
    - (* first attempt *)
      assert (id0 = id) as -> by (inversion Hmine as [|? ? Hx _]; cbn in Hx; congruence).
      destruct (untouched_counts id _ (inv_none _ _ Hinv id Hn)) as [U1 U2].
      pose proof (p1_send_sends _ _ _ _ _ _ _ _ Hp) as Hts. destruct (toks_counts id id toks Hts) as [K1 K2].
      cbn [app] in Hj. rewrite req_of_cons in Hj by reflexivity.
      rewrite <- app_assoc in Hj. rewrite req_of_quiets in Hj by now apply tok_sends_quiets.
      cbn in Hj. rewrite Nat.eqb_refl in Hj. injection Hj as <-.
      unfold bodies_given. cbn [app]. rewrite <- app_assoc. counts. rewrite U1, U2, K1, K2.
      destruct (q_body q); unfold count_ev; cbn; rewrite ?Nat.eqb_refl; cbn; lia.
    - (* refresh failed *)
      assert (id0 = id) as -> by (inversion Hmine as [|? ? Hx _]; cbn in Hx; congruence).
      destruct (untouched_counts id _ (inv_none _ _ Hinv id Hn)) as [U1 U2].
      pose proof (blk_sends _ _ _ _ _ _ _ _ _ _ _ _ Hblk) as Hts. destruct (toks_counts id id toks Hts) as [K1 K2].
      cbn [app] in Hj. rewrite req_of_cons in Hj by reflexivity.
      rewrite <- !app_assoc in Hj. rewrite req_of_quiets in Hj by (destruct (has_body (q_body q)); repeat constructor).
      rewrite req_of_quiets in Hj by now apply tok_sends_quiets.
      cbn in Hj. rewrite Nat.eqb_refl in Hj. injection Hj as <-.
      unfold bodies_given. cbn [app]. rewrite <- !app_assoc. counts. rewrite U1, U2, K1, K2.
      destruct (q_body q); unfold count_ev; cbn; rewrite ?Nat.eqb_refl; cbn; lia.
    - (* phase 2 ends without a second attempt *)
      assert (id0 = id) as -> by (inversion Hmine as [|? ? Hx _]; cbn in Hx; congruence).
      cbn [app] in Hj. rewrite !req_of_cons in Hj by reflexivity. specialize (HB id qj Hj).
      unfold bodies_given in *. cbn [app]. counts. cbn [plus]. exact HB.
    - (* second attempt *)
      assert (id0 = id) as -> by (inversion Hmine as [|? ? Hx _]; cbn in Hx; congruence).
      pose proof (inv_thr _ _ Hinv _ _ Hth) as [Hq _].
      pose proof (p2_send_sends _ _ _ _ _ _ _ _ _ _ Hp) as Hts. destruct (toks_counts id id toks Hts) as [K1 K2].
      destruct (mids_facts _ _ (mids_of_body id (q_body (th_q th)))) as [M1 [M2 M3]].
      cbn [app] in Hj. rewrite req_of_cons in Hj by reflexivity.
      rewrite <- !app_assoc in Hj. rewrite req_of_quiets in Hj by exact M2.
      rewrite req_of_quiets in Hj by now apply tok_sends_quiets.
      cbn [app] in Hj. rewrite req_of_cons in Hj by reflexivity.
      rewrite Hq in Hj. injection Hj as <-. specialize (HB id _ Hq).
      unfold bodies_given in *. cbn [app]. rewrite <- !app_assoc.
      destruct (q_body (th_q th)); counts; rewrite ?K1, ?K2; cbn [plus]; lia.
    - (* GetBody failed *)
      assert (id0 = id) as -> by (inversion Hmine as [|? ? Hx _]; cbn in Hx; congruence).
      pose proof (inv_thr _ _ Hinv _ _ Hth) as [Hq _].
      pose proof (p2_send_sends _ _ _ _ _ _ _ _ _ _ Hp) as Hts. destruct (toks_counts id id toks Hts) as [K1 K2].
      cbn [app] in Hj. rewrite !req_of_cons in Hj by reflexivity.
      rewrite <- app_assoc in Hj. rewrite req_of_quiets in Hj by now apply tok_sends_quiets.
      cbn [app] in Hj. rewrite req_of_cons in Hj by reflexivity.
      rewrite Hq in Hj. injection Hj as <-. specialize (HB id _ Hq).
      unfold bodies_given in *. rewrite Hnb in *. cbn [app]. counts. rewrite ?K1, ?K2. cbn [plus]. lia.
    - (* token acquisition failed *)
      assert (id0 = id) as -> by (inversion Hmine as [|? ? Hx _]; cbn in Hx; congruence).
      pose proof (inv_thr _ _ Hinv _ _ Hth) as [Hq _].
      pose proof (blk_sends _ _ _ _ _ _ _ _ _ _ _ _ Hblk) as Hts. destruct (toks_counts id id toks Hts) as [K1 K2].
      cbn [app] in Hj. rewrite !req_of_cons in Hj by reflexivity.
      rewrite <- app_assoc in Hj. rewrite req_of_quiets in Hj by now apply tok_sends_quiets.
      cbn [app] in Hj. rewrite req_of_cons in Hj by reflexivity.
      rewrite Hq in Hj. injection Hj as <-. specialize (HB id _ Hq).
      unfold bodies_given in *. cbn [app]. counts. rewrite ?K1, ?K2. cbn [plus]. exact HB.
    - (* phase 3, no rewrite *)
      assert (id0 = id) as -> by (inversion Hmine as [|? ? Hx _]; cbn in Hx; congruence).
      cbn [app] in Hj. rewrite !req_of_cons in Hj by reflexivity. specialize (HB id qj Hj).
      unfold bodies_given in *. cbn [app]. counts. cbn [plus]. exact HB.
    - (* phase 3, 401 on a fresh token *)
      assert (id0 = id) as -> by (inversion Hmine as [|? ? Hx _]; cbn in Hx; congruence).
      cbn [app] in Hj. rewrite !req_of_cons in Hj by reflexivity. specialize (HB id qj Hj).
      unfold bodies_given in *. cbn [app]. counts. cbn [plus]. exact HB.
  Qed.

  (* a step adds at most one return, as its newest event, and by a call that has started *)
  Lemma shape_head st st' new : Inv E st -> shape E st st' new ->
    exists e rest, new = e :: rest /\ nonrets rest
      /\ (forall id res, e = EReturn id res -> exists q, req_of id (rest ++ history st) = Some q).
  Proof.
    intros Hinv Hs.
    destruct Hs as [id q Hn Hie | id q a toks rsp r1 Hn Hie Hp Hg | id q www toks sc2 res2 e r1 Hn Hie r0 Ha Hb Hrf Hblk Hg
                   | id th rsp res Hth Hpc Hres | id th rsp ch r a toks ta r1 rsp2 Hth Hpc Hch Hg Hp Hg1 Hnb
                   | id th rsp ch r a toks ta r1 Hth Hpc Hch Hg Hp Hg1 Hnb
                   | id th rsp ch r toks sc2 res2 e r1 Hth Hpc Hch Hg Hb Hblk Hg1
                   | id th rsp ta res Hth Hpc Hres | id th www b Hth Hpc];
      eexists; eexists; (split; [reflexivity|]); split.
    - apply nonrets_app; [apply sc_nonrets | repeat constructor].
    - intros i res0 [= <- _]. exists q.
      destruct (sc_facts id _ (sc_of_body id (has_body (q_body q)))) as [S1 [S2 S3]].
      rewrite <- app_assoc. rewrite req_of_quiets by exact S2. cbn. now rewrite Nat.eqb_refl.
    - apply nonrets_app; [eapply tok_sends_nonrets, p1_send_sends; eauto | repeat constructor].
    - intros i res0 Hx. discriminate.
    - apply nonrets_app; [apply sc_nonrets|]. apply nonrets_app; [eapply tok_sends_nonrets, blk_sends; eauto | repeat constructor].
    - intros i res0 [= <- _]. exists q.
      destruct (sc_facts id _ (sc_of_body id (has_body (q_body q)))) as [S1 [S2 S3]].
      pose proof (blk_sends _ _ _ _ _ _ _ _ _ _ _ _ Hblk) as Hts.
      rewrite <- !app_assoc. rewrite req_of_quiets by exact S2. rewrite req_of_quiets by now apply tok_sends_quiets.
      cbn. now rewrite Nat.eqb_refl.
    - repeat constructor.
    - intros i res0 [= <- _]. pose proof (inv_thr _ _ Hinv _ _ Hth) as [Hq _]. exists (th_q th).
      cbn [app]. now rewrite req_of_cons.
    - apply nonrets_app; [eapply mids_nonrets, mids_of_body|].
      apply nonrets_app; [eapply tok_sends_nonrets, p2_send_sends; eauto | repeat constructor].
    - intros i res0 Hx. discriminate.
    - constructor; [reflexivity|]. constructor; [reflexivity|].
      apply nonrets_app; [eapply tok_sends_nonrets, p2_send_sends; eauto | repeat constructor].
    - intros i res0 [= <- _]. pose proof (inv_thr _ _ Hinv _ _ Hth) as [Hq _]. exists (th_q th).
      pose proof (p2_send_sends _ _ _ _ _ _ _ _ _ _ Hp) as Hts.
      cbn [app]. rewrite !req_of_cons by reflexivity. rewrite <- app_assoc. rewrite req_of_quiets by now apply tok_sends_quiets.
      cbn [app]. now rewrite req_of_cons.
    - constructor; [reflexivity|].
      apply nonrets_app; [eapply tok_sends_nonrets, blk_sends; eauto | repeat constructor].
    - intros i res0 [= <- _]. pose proof (inv_thr _ _ Hinv _ _ Hth) as [Hq _]. exists (th_q th).
      pose proof (blk_sends _ _ _ _ _ _ _ _ _ _ _ _ Hblk) as Hts.
      cbn [app]. rewrite !req_of_cons by reflexivity. rewrite <- app_assoc. rewrite req_of_quiets by now apply tok_sends_quiets.
      cbn [app]. now rewrite req_of_cons.
    - repeat constructor.
    - intros i res0 [= <- _]. pose proof (inv_thr _ _ Hinv _ _ Hth) as [Hq _]. exists (th_q th).
      cbn [app]. now rewrite req_of_cons.
    - repeat constructor.
    - intros i res0 [= <- _]. pose proof (inv_thr _ _ Hinv _ _ Hth) as [Hq _]. exists (th_q th).
      cbn [app]. now rewrite !req_of_cons.
  Qed.

  Lemma evP5_nonret e past : nonret e = true -> evP5 e past = true.
  Proof. destruct e; try reflexivity. discriminate. Qed.

  (* the balance right after a return is the clause at the return *)
  Lemma evP5_of_Bal id res past :
    Bal (EReturn id res :: past) -> (exists q, req_of id past = Some q) -> evP5 (EReturn id res) past = true.
  Proof.
    intros HB [q Hq]. cbn [evP5]. rewrite Hq. apply Nat.leb_le.
    specialize (HB id q). rewrite req_of_cons in HB by reflexivity. specialize (HB Hq).
    unfold bodies_given in *. rewrite !count_ev_cons in HB. cbn [is_getbody is_disposal plus] in HB. exact HB.
  Qed.

  Lemma step_P5 st st' new : Inv E st -> shape E st st' new ->
    Bal (history st) /\ all_ok evP5 (history st) = true ->
    Bal (new ++ history st) /\ all_ok evP5 (new ++ history st) = true.
  Proof.
    intros Hinv Hs [HB Hok]. pose proof (step_Bal _ _ _ Hinv Hs HB) as HB'. split; [exact HB'|].
    destruct (shape_head _ _ _ Hinv Hs) as [e [rest [-> [Hnr Hret]]]].
    cbn [app all_ok]. apply andb_true_iff. split.
    - destruct e as [| | | | | |id res]; try reflexivity. apply evP5_of_Bal; [exact HB' | now apply (Hret id res)].
    - apply all_ok_nonrets; [apply evP5_nonret | exact Hnr | exact Hok].
  Qed.

  Theorem P5_holds l : all_ok evP5 (history (run E l)) = true.
  Proof.
    unfold run.
    assert (forall st, Inv E st -> Bal (history st) /\ all_ok evP5 (history st) = true ->
                       all_ok evP5 (history (fold_left (step E) l st)) = true) as H.
    { induction l as [|x l IH]; intros st Hinv Hok; [exact (proj2 Hok)|]. cbn [fold_left].
      apply IH; [now apply step_Inv|].
      destruct (step_shape E st x Hinv) as [_ [Heq|[new [Hs Heq]]]]; rewrite Heq; [exact Hok | eapply step_P5; eauto]. }
    apply H; [apply Inv_init | split; [apply Bal_nil | reflexivity]].
  Qed.

  (* the clause is not vacuous, and it is the copies it is about: a history in which the body
     obtained from GetBody is left open satisfies P4 (the original was handed over) but not P5 *)
  Example P5_sees_the_copy :
    let q := {| q_host := s "h"; q_required := zero_scope; q_want := zero_scope; q_body := BGet; q_auth := ANone |} in
    let h := [EReturn 0 (RetErr None); ERespClose 0; EGetBody 0; EResume 0;
              ESend 0 (MReg (s "h") ANone) (RHttp 401 [] TBBadJSON); EStart 0 q] in
    all_ok evP4 h = true /\ all_ok evP5 h = false.
  Proof. split; reflexivity. Qed.
End Body.
